(** Proofs about the raft WAL model (RaftWal/Wal.v). *)
From Coq Require Import NArith List Bool Arith Lia.
From Verif Require Import RaftWal.Wal.
Import ListNotations.
Open Scope N_scope.

(** ---- the truncation loop ---- *)
Lemma del_loop_spec n : forall m i j,
  del_loop m i n j = if (i <=? j) && (j <? i + N.of_nat n) then None else m j.
Proof.
  induction n as [|k IH]; intros m i j; cbn [del_loop].
  - destruct (N.leb_spec i j), (N.ltb_spec j (i + N.of_nat 0)); cbn; auto; lia.
  - rewrite IH. unfold upd.
    destruct (N.leb_spec (i + 1) j), (N.ltb_spec j (i + 1 + N.of_nat k)),
             (N.leb_spec i j), (N.ltb_spec j (i + N.of_nat (S k))), (N.eqb_spec j i); cbn; auto; lia.
Qed.
Lemma del_range_spec m from last j :
  del_range m from last j = if (from <=? j) && (j <=? last) then None else m j.
Proof.
  unfold del_range. destruct (N.leb_spec from last).
  - rewrite del_loop_spec.
    destruct (N.leb_spec from j), (N.ltb_spec j (from + N.of_nat (N.to_nat (last + 1 - from)))), (N.leb_spec j last);
      cbn; auto; lia.
  - destruct (N.leb_spec from j), (N.leb_spec j last); cbn; auto; lia.
Qed.

(** ---- the write loop ---- *)
Lemma write_one_fields w it :
  w_last (write_one w it) = w_last w /\ w_hs (write_one w it) = w_hs w /\
  w_snap (write_one w it) = w_snap w /\ w_id (write_one w it) = w_id w.
Proof. repeat split. Qed.

Lemma fold_write_fields items : forall w,
  w_last (fold_left write_one items w) = w_last w /\ w_hs (fold_left write_one items w) = w_hs w /\
  w_snap (fold_left write_one items w) = w_snap w /\ w_id (fold_left write_one items w) = w_id w.
Proof.
  induction items as [|it tl IH]; intros w; cbn; [auto|].
  destruct (IH (write_one w it)) as (A & B & C & D). rewrite A, B, C, D. repeat split.
Qed.

Lemma fold_write_ent items : forall w i0,
  consecutive i0 (map (fun it => fst it) items) = true ->
  (forall p it, nth_error items p = Some it ->
     w_ent (fold_left write_one items w) (i0 + N.of_nat p) = Some (fst it)) /\
  (forall j, j < i0 \/ i0 + N.of_nat (length items) <= j ->
     w_ent (fold_left write_one items w) j = w_ent w j).
Proof.
  induction items as [|it tl IH]; intros w i0 Hc; cbn [fold_left].
  - split; [intros [|p] it H; discriminate|auto].
  - cbn in Hc. apply andb_true_iff in Hc. destruct Hc as [Hi Hc]. apply N.eqb_eq in Hi.
    destruct (IH (write_one w it) (i0 + 1) Hc) as [A B]. split.
    + intros [|p] it' H; cbn in H.
      * inversion H; subst it'. replace (i0 + N.of_nat 0) with i0 by (cbn; lia).
        rewrite B by lia. unfold write_one. cbn [w_ent]. unfold upd. rewrite Hi. now rewrite N.eqb_refl.
      * replace (i0 + N.of_nat (S p)) with (i0 + 1 + N.of_nat p) by lia. now apply A.
    + intros j Hj. cbn [length] in Hj. rewrite B by lia. unfold write_one. cbn [w_ent]. unfold upd.
      destruct (N.eqb_spec j (e_index (fst it))); auto. lia.
Qed.

Lemma fold_last_idx items : forall i0 acc,
  items <> [] -> consecutive i0 (map (fun it : bitem => fst it) items) = true ->
  fold_left (fun (_ : N) (it : bitem) => e_index (fst it)) items acc = i0 + N.of_nat (length items) - 1.
Proof.
  induction items as [|it tl IH]; intros i0 acc Hne Hc; [congruence|].
  cbn in Hc. apply andb_true_iff in Hc. destruct Hc as [Hi Hc]. apply N.eqb_eq in Hi.
  cbn [fold_left]. destruct tl as [|it2 tl2].
  - cbn. lia.
  - rewrite (IH (i0 + 1)); auto; [|discriminate]. cbn [length]. lia.
Qed.

Lemma nth_firstn_lt {A} (l : list A) : forall k p, (p < k)%nat -> nth_error (firstn k l) p = nth_error l p.
Proof.
  induction l as [|x tl IH]; intros [|k] [|p] H; cbn; auto; try lia. apply IH. lia.
Qed.

Lemma consecutive_index (l : list bitem) : forall i q e,
  consecutive i (map (fun it => fst it) l) = true ->
  nth_error (map (fun it : wentry * N => fst it) l) q = Some e -> e_index e = i + N.of_nat q.
Proof.
  induction l as [|x l IH]; intros i [|q'] e' Hcc Hq'; cbn in *; try discriminate;
    apply andb_true_iff in Hcc; destruct Hcc as [H1 H2]; apply N.eqb_eq in H1.
  - inversion Hq'; subst. lia.
  - rewrite (IH (i + 1) q' e' H2 Hq'). lia.
Qed.

(** ---- reference log with a compaction base ---- *)
Record rlog := mk_rlog { base : N; ents : list wentry }.

(** [Inv w r]: index base+1+p holds the p-th entry of the reference log, nothing else is
    stored, the stored last index is base + length, and entries carry their own index *)
Definition Inv (w : wal) (r : rlog) : Prop :=
  last_index w = base r + N.of_nat (length (ents r)) /\
  (forall p e, nth_error (ents r) p = Some e -> w_ent w (base r + 1 + N.of_nat p) = Some e) /\
  (forall j, j <= base r \/ base r + N.of_nat (length (ents r)) < j -> w_ent w j = None) /\
  (forall p e, nth_error (ents r) p = Some e -> e_index e = base r + 1 + N.of_nat p).

(** a batch as raft hands it over w.r.t. the reference log: consecutive indices, first
    index between base+1 and last+1 *)
Definition batch_wf (r : rlog) (items : list bitem) : Prop :=
  match items with
  | [] => False
  | it0 :: _ =>
      base r + 1 <= e_index (fst it0) /\ e_index (fst it0) <= base r + N.of_nat (length (ents r)) + 1 /\
      consecutive (e_index (fst it0)) (map (fun it => fst it) items) = true
  end.

Definition spec_write (r : rlog) (items : list bitem) : rlog :=
  match items with
  | [] => r
  | it0 :: _ => mk_rlog (base r) (firstn (N.to_nat (e_index (fst it0) - 1 - base r)) (ents r) ++ map (fun it => fst it) items)
  end.

Lemma inv_empty : Inv wal_empty (mk_rlog 0 []).
Proof.
  split; [reflexivity|]. split; [intros [|p] e H; discriminate|]. split; [reflexivity|].
  intros [|p] e H; discriminate.
Qed.

Theorem write_refines w r items w' :
  Inv w r -> batch_wf r items -> write_raft_entry w items = Some w' -> Inv w' (spec_write r items).
Proof.
  intros (Hl & Hp & Hn & Hi) Hwf Hw.
  destruct items as [|it0 tl]; [contradiction|].
  destruct Hwf as (Hlo & Hhi & Hc).
  unfold write_raft_entry in Hw. inversion Hw; subst w'; clear Hw.
  set (i0 := e_index (fst it0)) in *.
  set (w1 := mk_wal (del_range (w_ent w) i0 (last_index w)) (w_last w) (w_inv w) (w_blocks w) (w_cc w) (w_hs w) (w_snap w) (w_id w)).
  destruct (fold_write_ent (it0 :: tl) w1 i0 Hc) as [A B].
  unfold Inv, spec_write. cbn [base ents]. fold i0.
  set (k := N.to_nat (i0 - 1 - base r)).
  assert (Hk : (k <= length (ents r))%nat) by (unfold k; lia).
  assert (Hfl : length (firstn k (ents r)) = k) by (rewrite firstn_length; lia).
  assert (Hlen : length (firstn k (ents r) ++ map (fun it : bitem => fst it) (it0 :: tl)) = (k + length (it0 :: tl))%nat).
  { rewrite app_length, map_length, Hfl. reflexivity. }
  unfold bitem in *.
  repeat split.
  - (* last index *)
    unfold last_index. cbn [w_last].
    pose proof (fold_last_idx (it0 :: tl) i0 0 ltac:(discriminate) Hc) as F. cbn [fold_left] in F. fold i0 in F.
    etransitivity; [exact F|]. rewrite app_length, map_length, Hfl. unfold k. cbn [length]. unfold bitem in *. lia.
  - (* stored entries *)
    intros p e Hnth. cbn [w_ent].
    destruct (Nat.lt_ge_cases p k) as [Hlt|Hge].
    + rewrite nth_error_app1 in Hnth by lia. rewrite nth_firstn_lt in Hnth by lia.
      rewrite B by (unfold k in *; lia). unfold w1. cbn [w_ent]. rewrite del_range_spec.
      destruct (N.leb_spec i0 (base r + 1 + N.of_nat p)); [unfold k in *; lia|]. cbn. now apply Hp.
    + rewrite nth_error_app2 in Hnth by lia. rewrite Hfl in Hnth.
      rewrite nth_error_map in Hnth. destruct (nth_error (it0 :: tl) (p - k)) as [it|] eqn:E; [|cbn in Hnth; discriminate].
      cbn in Hnth. inversion Hnth; subst e.
      replace (base r + 1 + N.of_nat p) with (i0 + N.of_nat (p - k)) by (unfold k in *; lia).
      now apply A.
  - (* nothing else *)
    intros j Hj. cbn [w_ent]. rewrite app_length, map_length, Hfl in Hj.
    rewrite B.
    + unfold w1. cbn [w_ent]. rewrite del_range_spec.
      destruct (N.leb_spec i0 j), (N.leb_spec j (last_index w)); cbn; auto; apply Hn; unfold k in *; lia.
    + unfold k in *. lia.
  - (* entries carry their index *)
    intros p e Hnth.
    destruct (Nat.lt_ge_cases p k) as [Hlt|Hge].
    + rewrite nth_error_app1 in Hnth by lia. rewrite nth_firstn_lt in Hnth by lia. now apply Hi.
    + rewrite nth_error_app2 in Hnth by lia. rewrite Hfl in Hnth.
      rewrite (consecutive_index _ _ _ _ Hc Hnth). unfold k in *. lia.
Qed.


Theorem clear_refines w r : Inv w r -> base r = 0 \/ True -> Inv (clear_wal w) (mk_rlog 0 []).
Proof.
  intros (Hl & Hp & Hn & Hi) _. split; [reflexivity|]. split; [intros [|p] e H; discriminate|].
  split; [|intros [|p] e H; discriminate].
  intros j _. cbn. rewrite del_range_spec.
  destruct (N.leb_spec 1 j), (N.leb_spec j (last_index w)); cbn; auto; apply Hn; lia.
Qed.

Theorem reset_refines w r t c : Inv w r -> Inv (reset_wal w t c) (mk_rlog c []).
Proof.
  intros (Hl & Hp & Hn & Hi). split; [cbn; lia|]. split; [intros [|p] e H; discriminate|].
  split; [|intros [|p] e H; discriminate].
  intros j _. cbn. rewrite del_range_spec.
  destruct (N.leb_spec 1 j), (N.leb_spec j (last_index w)); cbn; auto; apply Hn; lia.
Qed.

(** ---- histories ---- *)
Definition spec_step (r : rlog) (o : wop) : rlog :=
  match o with
  | WWrite items => spec_write r items
  | WClear => mk_rlog 0 []
  | WReset _ c => mk_rlog c []
  | _ => r
  end.
Fixpoint spec_run (r : rlog) (ops : list wop) : rlog :=
  match ops with [] => r | o :: tl => spec_run (spec_step r o) tl end.
(** every append batch of the history is well formed at the moment it is written *)
Fixpoint history_wf (r : rlog) (ops : list wop) : Prop :=
  match ops with
  | [] => True
  | o :: tl => match o with WWrite items => batch_wf r items | WUnit _ => False | _ => True end /\ history_wf (spec_step r o) tl
  end.

Lemma step_refines w r o w' : Inv w r -> match o with WWrite items => batch_wf r items | WUnit _ => False | _ => True end ->
  wstep w o = Some w' -> Inv w' (spec_step r o).
Proof.
  intros HI Hwf Hs. destruct o; cbn in Hs.
  - eapply write_refines; eauto.
  - inversion Hs; subst. exact HI.
  - inversion Hs; subst. exact HI.
  - inversion Hs; subst. exact HI.
  - inversion Hs; subst. apply (clear_refines w r); auto.
  - inversion Hs; subst. now apply (reset_refines w r).
  - contradiction.
Qed.

Theorem run_refines ops : forall w r w',
  Inv w r -> history_wf r ops -> wrun w ops = Some w' -> Inv w' (spec_run r ops).
Proof.
  induction ops as [|o tl IH]; intros w r w' HI Hwf Hr; cbn in *.
  - inversion Hr; subst. exact HI.
  - destruct Hwf as [H1 H2]. destruct (wstep w o) as [w1|] eqn:E; [|discriminate].
    eapply IH; eauto. eapply step_refines; eauto.
Qed.

(** reads against the reference log *)
Lemma inv_get_live w r p e : Inv w r -> nth_error (ents r) p = Some e ->
  get_entry w (base r + 1 + N.of_nat p) = ROk e.
Proof.
  intros (Hl & Hp & Hn & Hi) H. unfold get_entry. rewrite (Hp p e H), (Hi p e H). now rewrite N.eqb_refl.
Qed.
Lemma inv_get_absent w r j : Inv w r -> j <= base r \/ base r + N.of_nat (length (ents r)) < j ->
  get_entry w j = RErr ENoEntry.
Proof. intros (Hl & Hp & Hn & Hi) H. unfold get_entry. now rewrite (Hn j H). Qed.

(** wal_refines_log: after any well-formed history, the entry read at every live index is
    the reference-log entry, entries outside are absent, and the last index is the log's *)
Theorem wal_refines_log ops w :
  history_wf (mk_rlog 0 []) ops -> wrun wal_empty ops = Some w ->
  let r := spec_run (mk_rlog 0 []) ops in
  last_index w = base r + N.of_nat (length (ents r)) /\
  (forall p e, nth_error (ents r) p = Some e -> get_entry w (base r + 1 + N.of_nat p) = ROk e) /\
  (forall j, j <= base r \/ base r + N.of_nat (length (ents r)) < j -> get_entry w j = RErr ENoEntry).
Proof.
  intros Hwf Hr r. pose proof (run_refines ops _ _ _ inv_empty Hwf Hr) as HI. fold r in HI.
  split; [apply HI|]. split.
  - intros p e. now apply inv_get_live.
  - intros j. now apply inv_get_absent.
Qed.

(** the three overwrite shapes of one batch on a log without compaction:
    log' = firstn (i0-1) log ++ batch *)
Theorem write_log_shape w log items w' :
  Inv w (mk_rlog 0 log) -> batch_wf (mk_rlog 0 log) items -> write_raft_entry w items = Some w' ->
  Inv w' (mk_rlog 0 (log_append log (map (fun it => fst it) items))).
Proof.
  intros HI Hwf Hw. pose proof (write_refines _ _ _ _ HI Hwf Hw) as H.
  destruct items as [|it0 tl]; [contradiction|]. unfold spec_write in H. cbn [base ents] in H.
  unfold log_append. cbn [map]. replace (e_index (fst it0) - 1 - 0) with (e_index (fst it0) - 1) in H by lia. exact H.
Qed.

(** ---- ReadAll ---- *)
Definition conv_ok (w : wal) (e : wentry) : Prop :=
  e_type e <= 2 /\ (e_type e = 0 -> w_blocks w (e_data e) = true).
Definition to_raft (e : wentry) : rentry :=
  if e_type e =? 2 then mk_rentry 1 (e_term e) (e_index e) (Some (e_data e))
  else if e_type e =? 1 then mk_rentry 0 (e_term e) (e_index e) None
  else mk_rentry 0 (e_term e) (e_index e) (Some (e_data e)).

Lemma convert_ok w e : conv_ok w e -> convert_wal_to_raft w e = ROk (to_raft e).
Proof.
  intros [Ht Hb]. unfold convert_wal_to_raft, to_raft.
  destruct (N.eqb_spec (e_type e) 2); auto. destruct (N.eqb_spec (e_type e) 1); auto.
  destruct (N.eqb_spec (e_type e) 0); [|lia]. now rewrite Hb.
Qed.

Lemma read_loop_spec w r sterm : Inv w r ->
  forall n p, (p + n = length (ents r))%nat ->
  (forall e, In e (skipn p (ents r)) -> conv_ok w e /\ sterm <= e_term e) ->
  read_loop w sterm (base r + 1 + N.of_nat p) n = ROk (map to_raft (skipn p (ents r))).
Proof.
  intros HI. induction n as [|k IH]; intros p Hlen Hall; cbn [read_loop].
  - rewrite skipn_all2 by lia. reflexivity.
  - destruct (nth_error (ents r) p) as [e|] eqn:E.
    2:{ apply nth_error_None in E. lia. }
    rewrite (inv_get_live _ _ _ _ HI E).
    assert (Hsk : skipn p (ents r) = e :: skipn (S p) (ents r)).
    { clear - E. revert p E. induction (ents r) as [|x l IHl]; intros [|p] E; cbn in *; try discriminate.
      - now inversion E.
      - now apply IHl. }
    rewrite Hsk in Hall |- *.
    destruct (Hall e (or_introl eq_refl)) as [Hc Ht].
    destruct (N.ltb_spec (e_term e) sterm); [lia|].
    rewrite (convert_ok _ _ Hc).
    replace (base r + 1 + N.of_nat p + 1) with (base r + 1 + N.of_nat (S p)) by lia.
    rewrite IH; [reflexivity|lia|]. intros e' Hin. apply Hall. now right.
Qed.

(** ReadAll after a snapshot at index s (base <= s <= last) returns identity, hard state and
    exactly the acknowledged log after s, block entries re-materialised from stored blocks *)
Theorem read_all_returns_log w r hs s sterm :
  Inv w r -> w_hs w = Some hs -> base r <= s -> s <= base r + N.of_nat (length (ents r)) ->
  (forall e, In e (skipn (N.to_nat (s - base r)) (ents r)) -> conv_ok w e /\ sterm <= e_term e) ->
  read_all w (Some (s, sterm)) = ROk (w_id w, hs, map to_raft (skipn (N.to_nat (s - base r)) (ents r))).
Proof.
  intros HI Hhs Hlo Hhi Hall. unfold read_all. rewrite Hhs.
  destruct HI as (Hl & HI'). rewrite Hl.
  set (p := N.to_nat (s - base r)) in *.
  assert (HI : Inv w r) by (split; auto).
  destruct (N.leb_spec (s + 1) (base r + N.of_nat (length (ents r)))).
  - replace (s + 1) with (base r + 1 + N.of_nat p) by (unfold p; lia).
    rewrite (read_loop_spec w r sterm HI _ p); auto. unfold p. lia.
  - cbn. rewrite skipn_all2 by (unfold p; lia). reflexivity.
Qed.

(** every block entry written by WriteRaftEntry has its block body stored, and nothing ever
    removes a block body: block entries of the live log can always be re-materialised *)
Lemma fold_write_blocks items : forall w h,
  w_blocks w h = true \/ (exists it, In it items /\ e_type (fst it) = 0 /\ e_data (fst it) = h) ->
  w_blocks (fold_left write_one items w) h = true.
Proof.
  induction items as [|it tl IH]; intros w h H; cbn [fold_left].
  - destruct H as [H|(it & [] & _)]; auto.
  - apply IH. destruct H as [H|(it' & [<-|Hin] & Ht & Hd)].
    + left. cbn. destruct (e_type (fst it) =? 0); auto. unfold upd. destruct (h =? e_data (fst it)); auto.
    + left. cbn. rewrite Ht. cbn. unfold upd. rewrite Hd. now rewrite N.eqb_refl.
    + right. eauto.
Qed.

Lemma in_firstn {A} (l : list A) : forall n x, In x (firstn n l) -> In x l.
Proof. induction l as [|y tl IH]; intros [|n] x H; cbn in *; auto; try tauto. destruct H; eauto. Qed.

(** ---- block bodies of live block entries are always stored ---- *)
Definition BlkInv (w : wal) (r : rlog) : Prop :=
  forall e, In e (ents r) -> e_type e = 0 -> w_blocks w (e_data e) = true.

Lemma write_blocks_mono w items w' h : write_raft_entry w items = Some w' -> w_blocks w h = true -> w_blocks w' h = true.
Proof.
  destruct items as [|it0 tl]; [discriminate|]. unfold write_raft_entry. intros H Hb. injection H as <-.
  exact (fold_write_blocks (it0 :: tl) (mk_wal (del_range (w_ent w) (e_index (fst it0)) (last_index w)) (w_last w) (w_inv w) (w_blocks w) (w_cc w) (w_hs w) (w_snap w) (w_id w)) h (or_introl Hb)).
Qed.
Lemma write_blocks_present w items w' it : write_raft_entry w items = Some w' -> In it items ->
  e_type (fst it) = 0 -> w_blocks w' (e_data (fst it)) = true.
Proof.
  destruct items as [|it0 tl]; [discriminate|]. unfold write_raft_entry. intros H Hin Ht. injection H as <-.
  exact (fold_write_blocks (it0 :: tl) (mk_wal (del_range (w_ent w) (e_index (fst it0)) (last_index w)) (w_last w) (w_inv w) (w_blocks w) (w_cc w) (w_hs w) (w_snap w) (w_id w)) _ (or_intror (ex_intro _ it (conj Hin (conj Ht eq_refl))))).
Qed.

Lemma step_blkinv w r o w' : BlkInv w r -> wstep w o = Some w' -> BlkInv w' (spec_step r o).
Proof.
  intros HB Hs. destruct o; cbn in Hs; cbn [spec_step].
  - destruct items as [|it0 tl]; [discriminate|]. unfold spec_write. cbn [ents].
    intros e Hin Ht. apply in_app_or in Hin. destruct Hin as [Hin|Hin].
    + eapply write_blocks_mono; eauto. apply HB; auto. eapply in_firstn; eauto.
    + apply in_map_iff in Hin. destruct Hin as (it & <- & Hin). eapply write_blocks_present; eauto.
  - inversion Hs; subst. exact HB.
  - inversion Hs; subst. exact HB.
  - inversion Hs; subst. exact HB.
  - inversion Hs; subst. intros e [].
  - inversion Hs; subst. intros e [].
  - inversion Hs; subst. destruct u; exact HB.
Qed.

Lemma run_blkinv ops : forall w r w', BlkInv w r -> wrun w ops = Some w' -> BlkInv w' (spec_run r ops).
Proof.
  induction ops as [|o tl IH]; intros w r w' HB Hr; cbn in *.
  - now inversion Hr; subst.
  - destruct (wstep w o) as [w1|] eqn:E; [|discriminate]. eapply IH; eauto. eapply step_blkinv; eauto.
Qed.

(** After any well-formed history whose entries have valid types, ReadAll with a snapshot at
    index s (base <= s <= last, snapshot term not above the terms of the entries after s) hands
    the consensus library exactly the acknowledged log after s — it cannot fail on a missing
    block body. *)
Theorem read_all_after_history ops w hs s sterm :
  history_wf (mk_rlog 0 []) ops -> wrun wal_empty ops = Some w ->
  let r := spec_run (mk_rlog 0 []) ops in
  w_hs w = Some hs -> base r <= s -> s <= base r + N.of_nat (length (ents r)) ->
  (forall e, In e (skipn (N.to_nat (s - base r)) (ents r)) -> e_type e <= 2 /\ sterm <= e_term e) ->
  read_all w (Some (s, sterm)) = ROk (w_id w, hs, map to_raft (skipn (N.to_nat (s - base r)) (ents r))).
Proof.
  intros Hwf Hr r Hhs Hlo Hhi Hall.
  pose proof (run_refines ops _ _ _ inv_empty Hwf Hr) as HI. fold r in HI.
  assert (HB : BlkInv w r). { apply (run_blkinv ops wal_empty (mk_rlog 0 []) w); auto. intros e []. }
  apply read_all_returns_log; auto.
  intros e Hin. destruct (Hall e Hin) as [Ht Hterm]. split; auto. split; auto.
  intros H0. apply HB; auto. clear - Hin. revert Hin. generalize (N.to_nat (s - base r)). intros n.
  revert n. induction (ents r) as [|x l IH]; intros [|n] Hin; cbn in *; auto. right. eapply IH; eauto.
Qed.

(** ---- durable map only: reads are functions of the stored key/value pairs ---- *)
Definition wal_equiv (a b : wal) : Prop :=
  (forall i, w_ent a i = w_ent b i) /\ w_last a = w_last b /\ (forall h, w_inv a h = w_inv b h) /\
  (forall h, w_blocks a h = w_blocks b h) /\ (forall c, w_cc a c = w_cc b c) /\
  w_hs a = w_hs b /\ w_snap a = w_snap b /\ w_id a = w_id b.

Lemma get_entry_equiv a b i : wal_equiv a b -> get_entry a i = get_entry b i.
Proof. intros (H & _). unfold get_entry. now rewrite H. Qed.
Lemma convert_equiv a b e : wal_equiv a b -> convert_wal_to_raft a e = convert_wal_to_raft b e.
Proof. intros (_ & _ & _ & H & _). unfold convert_wal_to_raft. now rewrite H. Qed.
Lemma read_loop_equiv a b t n : wal_equiv a b -> forall i, read_loop a t i n = read_loop b t i n.
Proof.
  intros E. induction n as [|k IH]; intros i; cbn; auto.
  rewrite (get_entry_equiv a b i E). destruct (get_entry b i); auto.
  destruct (e_term a0 <? t); auto. rewrite (convert_equiv a b a0 E).
  destruct (convert_wal_to_raft b a0); auto. now rewrite IH.
Qed.
Lemma read_all_equiv a b s : wal_equiv a b -> read_all a s = read_all b s.
Proof.
  intros E. pose proof E as (_ & L & _ & _ & _ & H & _ & I). unfold read_all, last_index. rewrite H, L, I.
  destruct (w_hs b); auto. destruct (match s with Some p => p | None => (0, 0) end) as [sidx sterm].
  now rewrite (read_loop_equiv a b sterm _ E).
Qed.

(** restart_same_log: two stores with the same content (however represented) answer every
    read of the observation identically — ChainDB keeps no raft state outside the store *)
Theorem restart_same_log a b maxi hashes ccids :
  wal_equiv a b -> observe a maxi hashes ccids = observe b maxi hashes ccids.
Proof.
  intros E. pose proof E as (He & Hl & Hi & Hb & Hc & Hh & Hs & Hd).
  assert (E1 : map (fun i => enc_rres enc_wentry (get_entry a (N.of_nat i))) (seq 1 maxi)
             = map (fun i => enc_rres enc_wentry (get_entry b (N.of_nat i))) (seq 1 maxi)).
  { apply map_ext. intros i. now rewrite (get_entry_equiv a b _ E). }
  assert (E2 : map (fun h => enc_rres (fun i => [i]) (index_of_block a h)) hashes
             = map (fun h => enc_rres (fun i => [i]) (index_of_block b h)) hashes).
  { apply map_ext. intros h. unfold index_of_block. now rewrite Hi. }
  assert (E3 : map (fun h => enc_rres enc_wentry (entry_of_block a h)) hashes
             = map (fun h => enc_rres enc_wentry (entry_of_block b h)) hashes).
  { apply map_ext. intros h. unfold entry_of_block, index_of_block. rewrite Hi.
    destruct (w_inv b h); auto. destruct (n =? 0); auto. now rewrite (get_entry_equiv a b _ E). }
  assert (E4 : map (fun c => if w_cc a c then 1 else 0) ccids = map (fun c => if w_cc b c then 1 else 0) ccids).
  { apply map_ext. intros c. now rewrite Hc. }
  unfold observe, last_index. rewrite E1, E2, E3, E4, Hl, Hh, Hs, Hd, !(read_all_equiv a b _ E). reflexivity.
Qed.

(** ---- hard state, snapshot, identity ---- *)
Theorem hardstate_roundtrip w hs : w_hs (write_hard_state w hs) = Some hs.
Proof. reflexivity. Qed.
Theorem snapshot_roundtrip w s : w_snap (write_snapshot w s) = Some s.
Proof. reflexivity. Qed.
Theorem identity_roundtrip w i : w_id (write_identity w i) = Some i.
Proof. reflexivity. Qed.

(** appending entries changes none of them; each of the three writes leaves the other two and
    the log alone *)
Theorem write_entries_keeps_meta w items w' : write_raft_entry w items = Some w' ->
  w_hs w' = w_hs w /\ w_snap w' = w_snap w /\ w_id w' = w_id w.
Proof.
  destruct items as [|it0 tl]; [discriminate|]. unfold write_raft_entry. intros H. inversion H; subst; clear H. cbn.
  match goal with |- context [fold_left write_one ?l ?w0] => destruct (fold_write_fields l w0) as (A & B & C & D) end.
  cbn in *. rewrite B, C, D. auto.
Qed.
Theorem meta_writes_independent w hs s i :
  w_snap (write_hard_state w hs) = w_snap w /\ w_id (write_hard_state w hs) = w_id w /\
  w_hs (write_snapshot w s) = w_hs w /\ w_id (write_snapshot w s) = w_id w /\
  w_hs (write_identity w i) = w_hs w /\ w_snap (write_identity w i) = w_snap w /\
  (forall j, w_ent (write_hard_state w hs) j = w_ent w j) /\ (forall j, w_ent (write_snapshot w s) j = w_ent w j) /\
  (forall j, w_ent (write_identity w i) j = w_ent w j).
Proof. repeat split. Qed.
(** ResetWAL leaves the hard state {term, 0, commit}, the snapshot (commit, term, best block)
    and last index commit; ClearWAL leaves none of them *)
Theorem reset_meta w t c :
  w_hs (reset_wal w t c) = Some (t, 0, c) /\ w_snap (reset_wal w t c) = Some (c, t, best_snap) /\
  w_id (reset_wal w t c) = None /\ last_index (reset_wal w t c) = c.
Proof. repeat split. Qed.
Theorem clear_meta w : w_hs (clear_wal w) = None /\ w_snap (clear_wal w) = None /\ w_id (clear_wal w) = None
  /\ last_index (clear_wal w) = 0.
Proof. repeat split. Qed.

(** ---- inverse map ---- *)
(** index of the most recent block entry carrying [h] among [items] *)
Definition latest_in (items : list bitem) (h : N) (acc : option N) : option N :=
  fold_left (fun acc it => if (e_type (fst it) =? 0) && (e_data (fst it) =? h) then Some (e_index (fst it)) else acc) items acc.
Definition op_latest (o : wop) (h : N) (acc : option N) : option N :=
  match o with WWrite items => latest_in items h acc | _ => acc end.
Definition history_latest (ops : list wop) (h : N) : option N :=
  fold_left (fun acc o => op_latest o h acc) ops None.

Lemma fold_write_inv items : forall w h,
  w_inv (fold_left write_one items w) h = latest_in items h (w_inv w h).
Proof.
  induction items as [|it tl IH]; intros w h; cbn [fold_left latest_in]; auto.
  unfold latest_in in IH. rewrite IH. f_equal. cbn.
  destruct (e_type (fst it) =? 0); cbn; auto. unfold upd. rewrite (N.eqb_sym h). now destruct (e_data (fst it) =? h).
Qed.

Lemma step_inv_map w o w' h : wstep w o = Some w' -> w_inv w' h = op_latest o h (w_inv w h).
Proof.
  destruct o; intros H; try (cbn in H; inversion H; subst; reflexivity); try (cbn in H; inversion H; subst; destruct u; reflexivity).
  destruct items as [|it0 tl]; [discriminate|]. unfold wstep, write_raft_entry in H. injection H as <-.
  exact (fold_write_inv (it0 :: tl) (mk_wal (del_range (w_ent w) (e_index (fst it0)) (last_index w)) (w_last w) (w_inv w)
                                           (w_blocks w) (w_cc w) (w_hs w) (w_snap w) (w_id w)) h).
Qed.

(** invert_points_to_latest: after any history (truncations, clear and reset included) the
    inverse map of a block is the index of the most recent entry written for it *)
Theorem invert_points_to_latest ops : forall w w' h,
  wrun w ops = Some w' -> w_inv w' h = fold_left (fun acc o => op_latest o h acc) ops (w_inv w h).
Proof.
  induction ops as [|o tl IH]; intros w w' h H; cbn in *.
  - now inversion H.
  - destruct (wstep w o) as [w1|] eqn:E; [|discriminate].
    rewrite (IH w1 w' h H). now rewrite (step_inv_map w o w1 h E).
Qed.
Corollary invert_points_to_latest_from_empty ops w h :
  wrun wal_empty ops = Some w -> w_inv w h = history_latest ops h.
Proof. intros H. now rewrite (invert_points_to_latest ops wal_empty w h H). Qed.

(** what the write loop leaves at index j depends on the previous content of j only when no
    item of the batch has index j *)
Lemma fold_write_ent_gen items : forall w w' j,
  (w_ent w j = w_ent w' j \/ exists it, In it items /\ e_index (fst it) = j) ->
  w_ent (fold_left write_one items w) j = w_ent (fold_left write_one items w') j.
Proof.
  induction items as [|it tl IH]; intros w w' j H; cbn [fold_left].
  - destruct H as [H|(it & [] & _)]; auto.
  - apply IH. unfold write_one. cbn [w_ent]. unfold upd.
    destruct (N.eqb_spec j (e_index (fst it))); [now left|].
    destruct H as [H|(it' & [<-|Hin] & Hj)]; [now left|congruence|right; eauto].
Qed.

(** Truncating from ents[0].Index + 1 instead of ents[0].Index stores exactly the same
    entries: index ents[0].Index is overwritten by the batch anyway.  (The mutant listed in the
    design for this property is therefore behaviourally equivalent; the self-test uses
    "i < last" instead.) *)
Theorem truncate_from_next_is_equivalent w it0 tl j :
  let i0 := e_index (fst it0) in
  let mk := fun m => mk_wal m (w_last w) (w_inv w) (w_blocks w) (w_cc w) (w_hs w) (w_snap w) (w_id w) in
  w_ent (fold_left write_one (it0 :: tl) (mk (del_range (w_ent w) (i0 + 1) (last_index w)))) j =
  w_ent (fold_left write_one (it0 :: tl) (mk (del_range (w_ent w) i0 (last_index w)))) j.
Proof.
  intros i0 mk. apply fold_write_ent_gen. destruct (N.eq_dec j i0) as [->|Hn].
  - right. exists it0. split; [now left|reflexivity].
  - left. unfold mk. cbn [w_ent]. rewrite !del_range_spec.
    destruct (N.leb_spec (i0 + 1) j), (N.leb_spec i0 j), (N.leb_spec j (last_index w)); cbn; auto; lia.
Qed.

(** ---- the hypotheses are satisfiable: a history with the three overwrite shapes ---- *)
Definition E (t term i d : N) : bitem := (mk_wentry t term i d, 0).
Example ex_history : list wop :=
  [WWrite [E 0 1 1 11; E 0 1 2 12; E 1 1 3 0; E 0 1 4 14];
   WWrite [E 0 2 3 23];                       (* shorter than the suffix: 3,4 -> 3 *)
   WWrite [E 0 3 2 32; E 2 3 3 7];            (* equal length *)
   WHard (3, 1, 2);
   WWrite [E 0 4 3 43; E 0 4 4 12; E 1 4 5 0] (* longer than the suffix *)].
Example ex_history_wf : history_wf (mk_rlog 0 []) ex_history.
Proof. cbn. repeat split; try reflexivity; try (apply N.leb_le; reflexivity). Qed.
Example ex_history_run :
  match wrun wal_empty ex_history with
  | Some w => last_index w = 5
    /\ get_entry w 2 = ROk (mk_wentry 0 3 2 32) /\ w_inv w 12 = Some 4 /\ w_inv w 23 = Some 3
    /\ read_all w (Some (1, 1)) = ROk (None, (3, 1, 2), [mk_rentry 0 3 2 (Some 32); mk_rentry 0 4 3 (Some 43);
                                                       mk_rentry 0 4 4 (Some 12); mk_rentry 0 4 5 None])
  | None => False
  end.
Proof. vm_compute. repeat split. Qed.

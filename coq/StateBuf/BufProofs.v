(** Proofs about the literal undo log (StateBuf/Model.v). *)
From Coq Require Import NArith List Bool Arith Lia Permutation Sorting.Sorted.
From Verif Require Import StateBuf.Model.
Import ListNotations.

(** ---- association lists ---- *)
Lemma alookup_aset_eq {A} k (a : A) m : alookup k (aset k a m) = Some a.
Proof.
  induction m as [|[k' a'] tl IH]; cbn.
  - now rewrite N.eqb_refl.
  - destruct (N.eqb k k') eqn:E; cbn; rewrite ?E; auto. now rewrite N.eqb_refl.
Qed.
Lemma alookup_aset_neq {A} k k' (a : A) m : k <> k' -> alookup k (aset k' a m) = alookup k m.
Proof.
  intros Hn. induction m as [|[k2 a2] tl IH]; cbn.
  - destruct (N.eqb_spec k k'); congruence.
  - destruct (N.eqb_spec k' k2); cbn.
    + subst. destruct (N.eqb_spec k k2); congruence.
    + destruct (N.eqb_spec k k2); auto.
Qed.
Lemma alookup_aremove_eq {A} k (m : list (key * A)) : alookup k (aremove k m) = None.
Proof.
  induction m as [|[k' a'] tl IH]; cbn; auto.
  destruct (N.eqb k k') eqn:E; cbn; rewrite ?E; auto.
Qed.
Lemma alookup_aremove_neq {A} k k' (m : list (key * A)) : k <> k' -> alookup k (aremove k' m) = alookup k m.
Proof.
  intros Hn. induction m as [|[k2 a2] tl IH]; cbn; auto.
  destruct (N.eqb_spec k' k2); cbn.
  - subst. destruct (N.eqb_spec k k2); congruence.
  - destruct (N.eqb_spec k k2); auto.
Qed.
Lemma in_keys_aset {A} k k' (a : A) m :
  In k (map fst (aset k' a m)) <-> k = k' \/ In k (map fst m).
Proof.
  induction m as [|[k2 a2] tl IH]; cbn.
  - intuition.
  - destruct (N.eqb_spec k' k2); cbn.
    + subst. intuition.
    + rewrite IH. intuition.
Qed.
Lemma nodup_aset {A} k (a : A) m : NoDup (map fst m) -> NoDup (map fst (aset k a m)).
Proof.
  induction m as [|[k2 a2] tl IH]; cbn; intros H.
  - constructor; [intros []|constructor].
  - inversion H; subst. destruct (N.eqb_spec k k2); cbn.
    + subst. constructor; auto.
    + constructor; auto. rewrite in_keys_aset. intuition.
Qed.
Lemma in_keys_aremove {A} k k' (m : list (key * A)) :
  In k (map fst (aremove k' m)) <-> k <> k' /\ In k (map fst m).
Proof.
  induction m as [|[k2 a2] tl IH]; cbn.
  - intuition.
  - destruct (N.eqb_spec k' k2); cbn.
    + subst. rewrite IH. intuition. subst. congruence.
    + rewrite IH. intuition. subst. congruence.
Qed.
Lemma nodup_aremove {A} k (m : list (key * A)) : NoDup (map fst m) -> NoDup (map fst (aremove k m)).
Proof.
  induction m as [|[k2 a2] tl IH]; cbn; intros H; auto.
  inversion H; subst. destruct (N.eqb_spec k k2); cbn; auto.
  constructor; auto. rewrite in_keys_aremove. intuition.
Qed.
Lemma alookup_in {A} k (a : A) m : alookup k m = Some a -> In (k, a) m.
Proof.
  induction m as [|[k2 a2] tl IH]; cbn; [discriminate|].
  destruct (N.eqb_spec k k2); intros H.
  - inversion H; subst. now left.
  - right; auto.
Qed.
Lemma in_alookup {A} k (a : A) m : NoDup (map fst m) -> In (k, a) m -> alookup k m = Some a.
Proof.
  induction m as [|[k2 a2] tl IH]; cbn; [tauto|].
  intros Hnd [H|H]; inversion Hnd; subst.
  - inversion H; subst. now rewrite N.eqb_refl.
  - destruct (N.eqb_spec k k2); auto. subst. exfalso. apply H2. change k2 with (fst (k2, a)). now apply in_map.
Qed.
Lemma alookup_none_notin {A} k (m : list (key * A)) : alookup k m = None <-> ~ In k (map fst m).
Proof.
  induction m as [|[k2 a2] tl IH]; cbn; [tauto|].
  destruct (N.eqb_spec k k2).
  - subst. split; [discriminate|]. intros H. exfalso. apply H. now left.
  - rewrite IH. intuition.
Qed.

Section Proofs.
  Context {V : Type}.
  Notation entry := (entry V).
  Notation sbuf := (sbuf V).

  (** positions of the writes to [k] in a log, most recent first *)
  Fixpoint pos_rev (k : key) (rl : list entry) : list nat :=
    match rl with
    | [] => []
    | e :: tl => if N.eqb k (fst e) then length tl :: pos_rev k tl else pos_rev k tl
    end.
  Definition positions (k : key) (l : list entry) : list nat := pos_rev k (rev l).

  Lemma positions_snoc k l e :
    positions k (l ++ [e]) = if N.eqb k (fst e) then length l :: positions k l else positions k l.
  Proof. unfold positions. rewrite rev_unit. cbn. now rewrite rev_length. Qed.
  Lemma positions_nil k : positions k [] = [].
  Proof. reflexivity. Qed.

  Lemma latest_snoc (l : list entry) e k :
    latest (l ++ [e]) k = if N.eqb k (fst e) then Some e else latest l k.
  Proof.
    induction l as [|x tl IH]; cbn.
    - reflexivity.
    - rewrite IH. destruct (N.eqb k (fst e)); auto.
  Qed.

  Lemma positions_lt k l i : In i (positions k l) -> i < length l.
  Proof.
    induction l as [|e tl IH] using rev_ind; [inversion 1|].
    rewrite positions_snoc, app_length. cbn. destruct (N.eqb k (fst e)); cbn; intros H.
    - destruct H as [<-|H]; [lia|]. apply IH in H. lia.
    - apply IH in H. lia.
  Qed.

  (** the head of [positions] is the latest write *)
  Lemma positions_latest k l :
    match positions k l with
    | [] => latest l k = None
    | i :: _ => exists e, nth_error l i = Some e /\ latest l k = Some e /\ fst e = k
    end.
  Proof.
    induction l as [|e tl IH] using rev_ind; [reflexivity|].
    rewrite positions_snoc, latest_snoc. destruct (N.eqb_spec k (fst e)).
    - exists e. rewrite nth_error_app2 by lia. rewrite Nat.sub_diag. cbn. auto.
    - destruct (positions k tl) as [|i r] eqn:E; auto.
      destruct IH as (e' & H1 & H2 & H3). exists e'. split; auto.
      rewrite nth_error_app1; auto. apply nth_error_Some. congruence.
  Qed.

  (** [Rep idx l]: the index [idx] is exactly the table of positions of the log [l] *)
  Definition rep_of (s : list nat) : option (list nat) := match s with [] => None | _ => Some s end.
  Definition Rep (idx : list (key * list nat)) (l : list entry) : Prop :=
    NoDup (map fst idx) /\ forall k, alookup k idx = rep_of (positions k l).

  (** index_wf: the invariant of stateBuffer *)
  Definition wf (b : sbuf) : Prop := next_idx b = length (entries b) /\ Rep (index b) (entries b).

  Lemma wf_new : wf sb_new.
  Proof. split; [reflexivity|]. split; [constructor|]. intros k. reflexivity. Qed.

  Lemma rep_put idx l (e : entry) :
    Rep idx l ->
    Rep (aset (fst e) (length l :: match alookup (fst e) idx with Some s => s | None => [] end) idx) (l ++ [e]).
  Proof.
    intros [Hnd H]. split; [now apply nodup_aset|].
    intros k. rewrite positions_snoc. destruct (N.eqb_spec k (fst e)).
    - subst. rewrite alookup_aset_eq. rewrite H. destruct (positions (fst e) l); reflexivity.
    - rewrite alookup_aset_neq by auto. apply H.
  Qed.

  Lemma wf_put b e : wf b -> wf (sb_put b e).
  Proof.
    intros [Hn Hr]. split; cbn.
    - rewrite app_length. cbn. lia.
    - unfold sb_snapshot. rewrite Hn. now apply rep_put.
  Qed.

  Lemma rep_pop idx l (e : entry) : Rep idx (l ++ [e]) -> Rep (pop_key (fst e) idx) l.
  Proof.
    intros [Hnd H]. unfold pop_key.
    pose proof (H (fst e)) as He. rewrite positions_snoc, N.eqb_refl in He. cbn in He. rewrite He. cbn.
    destruct (positions (fst e) l) as [|i r] eqn:E.
    - split; [now apply nodup_aremove|]. intros k. destruct (N.eqb_spec k (fst e)).
      + subst. rewrite alookup_aremove_eq, E. reflexivity.
      + rewrite alookup_aremove_neq by auto. rewrite H, positions_snoc.
        destruct (N.eqb_spec k (fst e)); congruence.
    - split; [now apply nodup_aset|]. intros k. destruct (N.eqb_spec k (fst e)).
      + subst. rewrite alookup_aset_eq, E. reflexivity.
      + rewrite alookup_aset_neq by auto. rewrite H, positions_snoc.
        destruct (N.eqb_spec k (fst e)); congruence.
  Qed.

  Lemma firstn_S_snoc {A} (l : list A) i e : nth_error l i = Some e -> firstn (S i) l = firstn i l ++ [e].
  Proof.
    revert i. induction l as [|x tl IH]; intros [|i] H; cbn in *; try discriminate.
    - now inversion H.
    - f_equal. now apply IH.
  Qed.

  Lemma rb_loop_ok ents snap n : forall idx,
    snap + n <= length ents -> Rep idx (firstn (snap + n) ents) ->
    exists idx', rb_loop ents idx snap n = Ok idx' /\ Rep idx' (firstn snap ents).
  Proof.
    induction n as [|m IH]; intros idx Hlen Hrep; cbn.
    - rewrite Nat.add_0_r in Hrep. eauto.
    - destruct (nth_error ents (snap + m)) as [e|] eqn:E.
      2:{ apply nth_error_None in E. lia. }
      apply IH; [lia|]. apply rep_pop.
      rewrite <- (firstn_S_snoc _ _ _ E). now rewrite <- plus_n_Sm in Hrep.
  Qed.

  (** rollback to a valid revision never panics, truncates the log and keeps the invariant *)
  Lemma rollback_ok b r : wf b -> r <= next_idx b ->
    exists b', sb_rollback b r = Ok b' /\ wf b' /\ entries b' = firstn r (entries b) /\ next_idx b' = r.
  Proof.
    intros [Hn Hr] Hle. unfold sb_rollback.
    destruct (Nat.ltb_spec (next_idx b) r); [lia|].
    destruct (Nat.ltb_spec (length (entries b)) r); [lia|].
    destruct (rb_loop_ok (entries b) r (next_idx b - r) (index b)) as (idx' & H1 & H2).
    - lia.
    - replace (r + (next_idx b - r)) with (length (entries b)) by lia. now rewrite firstn_all.
    - rewrite H1. cbn. eexists; split; [reflexivity|]. repeat split; cbn; auto.
      + rewrite firstn_length. lia.
      + apply H2.
      + apply H2.
  Qed.

  (** reads return the latest surviving write; no panic *)
  Theorem get_latest b k : wf b -> sb_get b k = Ok (latest (entries b) k).
  Proof.
    intros [Hn [Hnd H]]. unfold sb_get. rewrite H.
    pose proof (positions_latest k (entries b)) as P.
    destruct (positions k (entries b)) as [|i r]; cbn.
    - now rewrite P.
    - destruct P as (e & P1 & P2 & _). now rewrite P1, P2.
  Qed.

  (** ---- refinement of the list-of-surviving-writes specification ---- *)
  Theorem run_refines ops : forall b,
    wf b -> ops_valid (next_idx b) ops ->
    exists b', impl_run b ops = Ok b' /\ wf b' /\ entries b' = spec_run (entries b) ops.
  Proof.
    induction ops as [|o tl IH]; intros b Hwf Hv; cbn.
    - eauto.
    - destruct o as [e|r]; cbn in *.
      + destruct (IH (sb_put b e)) as (b' & H1 & H2 & H3); auto using wf_put.
        exists b'. auto.
      + destruct Hv as [Hle Hv].
        destruct (rollback_ok b r Hwf Hle) as (b1 & R1 & R2 & R3 & R4).
        rewrite R1. cbn. rewrite <- R4 in Hv.
        destruct (IH b1 R2 Hv) as (b' & H1 & H2 & H3). exists b'. rewrite <- R3. auto.
  Qed.

  Lemma spec_prefix ops : forall (l ext : list entry),
    ops_above (length l) ops -> exists ext', spec_run (l ++ ext) ops = l ++ ext'.
  Proof.
    induction ops as [|o tl IH]; intros l ext Ha; cbn.
    - eauto.
    - destruct o as [e|r]; cbn in *.
      + rewrite <- app_assoc. apply IH; auto.
      + destruct Ha as [Hle Ha]. rewrite firstn_app.
        rewrite firstn_all2 by lia. apply IH; auto.
  Qed.

  (** any sequence of writes and nested, still-valid reverts, followed by the revert to the
      revision taken at the start, restores the log exactly *)
  Theorem revert_restores_log b ops :
    wf b -> ops_valid (next_idx b) ops -> ops_above (next_idx b) ops ->
    exists b1 b', impl_run b ops = Ok b1 /\ sb_rollback b1 (sb_snapshot b) = Ok b' /\
                  wf b' /\ entries b' = entries b /\ next_idx b' = next_idx b.
  Proof.
    intros Hwf Hv Ha.
    destruct (run_refines ops b Hwf Hv) as (b1 & H1 & H2 & H3).
    destruct Hwf as [Hn Hr].
    rewrite Hn in Ha.
    destruct (spec_prefix ops (entries b) [] Ha) as (ext & Hs). rewrite app_nil_r in Hs.
    assert (Hle : sb_snapshot b <= next_idx b1).
    { destruct H2 as [Hn1 _]. rewrite Hn1, H3, Hs, app_length. unfold sb_snapshot. lia. }
    destruct (rollback_ok b1 (sb_snapshot b) H2 Hle) as (b' & R1 & R2 & R3 & R4).
    exists b1, b'. repeat split; auto; try apply R2.
    rewrite R3, H3, Hs. unfold sb_snapshot. rewrite Hn, firstn_app, Nat.sub_diag, firstn_all. cbn. now rewrite app_nil_r.
  Qed.

  (** two well-formed buffers with the same log have the same index as a map *)
  Lemma wf_index_eq b b' k : wf b -> wf b' -> entries b = entries b' -> alookup k (index b) = alookup k (index b').
  Proof. intros [_ [_ H]] [_ [_ H']] E. now rewrite H, H', E. Qed.

  (** ---- export ---- *)
  Definition klt (a b : entry) : Prop := (fst a < fst b)%N.

  Lemma collect_spec ents idx :
    NoDup (map fst idx) ->
    (forall k s, In (k, s) idx -> s = positions k ents /\ s <> []) ->
    exists l, collect ents idx = Ok l /\ map fst l = map fst idx /\
              forall e, In e l -> latest ents (fst e) = Some e.
  Proof.
    induction idx as [|[k s] tl IH]; intros Hnd H; cbn.
    - exists []. cbn. intuition.
    - inversion Hnd; subst.
      destruct (H k s (or_introl eq_refl)) as [Hs Hne].
      pose proof (positions_latest k ents) as P. rewrite <- Hs in P.
      destruct s as [|i r]; [congruence|]. cbn.
      destruct P as (e & P1 & P2 & P3). rewrite P1.
      destruct IH as (l & L1 & L2 & L3); auto.
      { intros k' s' Hin. apply H. now right. }
      rewrite L1. cbn. exists (e :: l). split; auto. split; [cbn; congruence|].
      intros e' [<-|Hin]; [now rewrite P3|]. auto.
  Qed.

  Lemma rep_in idx l k s : Rep idx l -> In (k, s) idx -> s = positions k l /\ s <> [].
  Proof.
    intros [Hnd H] Hin. apply (in_alookup _ _ _ Hnd) in Hin. rewrite H in Hin.
    destruct (positions k l); cbn in Hin; [discriminate|]. inversion Hin. split; congruence.
  Qed.

  Lemma kinsert_perm (e : entry) l : Permutation (kinsert e l) (e :: l).
  Proof.
    induction l as [|x tl IH]; cbn; auto.
    destruct (N.leb (fst e) (fst x)); auto.
    rewrite IH. apply perm_swap.
  Qed.
  Lemma ksort_perm (l : list entry) : Permutation (ksort l) l.
  Proof. induction l; cbn; auto. rewrite kinsert_perm. now constructor. Qed.

  Definition kle (a b : entry) : Prop := (fst a <= fst b)%N.
  Lemma kinsert_sorted e l : StronglySorted kle l -> StronglySorted kle (kinsert e l).
  Proof.
    induction 1 as [|x tl Hs IH Hf]; cbn.
    - constructor; constructor.
    - destruct (N.leb_spec (fst e) (fst x)).
      + constructor; [constructor; auto|]. constructor; [exact H|].
        eapply Forall_impl; [|exact Hf]. unfold kle. intros; lia.
      + constructor; auto.
        eapply Permutation_Forall; [symmetry; apply kinsert_perm|].
        constructor; auto. unfold kle; lia.
  Qed.
  Lemma ksort_sorted (l : list entry) : StronglySorted kle (ksort l).
  Proof. induction l; cbn; [constructor|]. now apply kinsert_sorted. Qed.

  Lemma sorted_strict (l : list entry) : StronglySorted kle l -> NoDup (map fst l) -> StronglySorted klt l.
  Proof.
    induction 1 as [|x tl Hs IH Hf]; cbn; intros Hnd; [constructor|].
    inversion Hnd; subst. constructor; auto.
    rewrite Forall_forall in *. intros y Hy. pose proof (Hf y Hy) as Hle. unfold kle, klt in *.
    assert (fst x <> fst y). { intros E. apply H1. rewrite E. now apply in_map. }
    lia.
  Qed.

  (** strictly sorted lists with the same elements are equal *)
  Lemma strict_sorted_unique (l1 : list entry) : forall l2,
    StronglySorted klt l1 -> StronglySorted klt l2 -> (forall e, In e l1 <-> In e l2) -> l1 = l2.
  Proof.
    induction l1 as [|x t1 IH]; intros l2 S1 S2 H.
    - destruct l2 as [|y t2]; auto. exfalso. apply (H y). now left.
    - destruct l2 as [|y t2]. { exfalso. apply (H x). now left. }
      inversion S1 as [|? ? S1' F1]; inversion S2 as [|? ? S2' F2]; subst.
      rewrite Forall_forall in F1, F2. unfold klt in *.
      assert (x = y).
      { destruct (proj1 (H x) (or_introl eq_refl)) as [E|Hin]; auto.
        destruct (proj2 (H y) (or_introl eq_refl)) as [E|Hin']; auto.
        pose proof (F2 _ Hin). pose proof (F1 _ Hin'). lia. }
      subst. f_equal. apply IH; auto. intros e. split; intros Hin.
      + destruct (proj1 (H e) (or_intror Hin)) as [E|]; auto. subst. pose proof (F1 _ Hin). lia.
      + destruct (proj2 (H e) (or_intror Hin)) as [E|]; auto. subst. pose proof (F2 _ Hin). lia.
  Qed.

  (** export never panics; its result is strictly sorted by key (hence duplicate free) and
      contains exactly the latest surviving write of every written key *)
  Theorem export_spec b : wf b ->
    exists l, sb_export b = Ok l /\ StronglySorted klt l /\
              forall e, In e l <-> latest (entries b) (fst e) = Some e.
  Proof.
    intros [Hn Hr]. unfold sb_export.
    destruct (collect_spec (entries b) (index b)) as (l & L1 & L2 & L3).
    { apply Hr. } { intros k s. now apply rep_in. }
    rewrite L1. cbn. exists (ksort l). split; auto.
    assert (Hnd : NoDup (map fst (ksort l))).
    { eapply Permutation_NoDup; [apply Permutation_map; symmetry; apply ksort_perm|]. rewrite L2. apply Hr. }
    split. { apply sorted_strict; auto. apply ksort_sorted. }
    intros e. split.
    - intros Hin. apply L3. eapply Permutation_in; [apply ksort_perm|]. exact Hin.
    - intros Hl. eapply Permutation_in; [symmetry; apply ksort_perm|].
      (* the key of e is indexed *)
      destruct Hr as [Hnd' H]. pose proof (positions_latest (fst e) (entries b)) as P.
      destruct (positions (fst e) (entries b)) as [|i r] eqn:E; [congruence|].
      assert (Hk : In (fst e) (map fst l)).
      { rewrite L2. destruct (alookup (fst e) (index b)) eqn:A.
        - apply alookup_in in A. change (fst e) with (fst (fst e, l0)). now apply in_map.
        - rewrite H, E in A. discriminate. }
      apply in_map_iff in Hk. destruct Hk as (e' & K1 & K2).
      pose proof (L3 e' K2) as L. rewrite K1 in L. rewrite Hl in L. inversion L; subst. exact K2.
  Qed.

  Theorem export_sorted_nodup b l : wf b -> sb_export b = Ok l ->
    StronglySorted klt l /\ NoDup (map fst l).
  Proof.
    intros Hwf E. destruct (export_spec b Hwf) as (l' & E' & S & _). rewrite E in E'. inversion E'; subst.
    split; auto. clear -S. induction S as [|x tl S IH F]; cbn; constructor; auto.
    rewrite Forall_forall in F. intros Hin. apply in_map_iff in Hin. destruct Hin as (y & Hy & Hin).
    pose proof (F y Hin) as Hlt. unfold klt in Hlt. rewrite Hy in Hlt. lia.
  Qed.

  (** the exported list is a function of the surviving writes only: whatever the order (and
      representation) of the index map *)
  Theorem export_fun_of_log b b' : wf b -> wf b' -> entries b = entries b' -> sb_export b = sb_export b'.
  Proof.
    intros W W' E.
    destruct (export_spec b W) as (l & L1 & L2 & L3).
    destruct (export_spec b' W') as (l' & L1' & L2' & L3').
    rewrite L1, L1'. f_equal. apply strict_sorted_unique; auto.
    intros e. rewrite L3, L3', E. tauto.
  Qed.

  Lemma rep_perm idx idx' l : Rep idx l -> Permutation idx idx' -> Rep idx' l.
  Proof.
    intros [Hnd H] P.
    assert (Hnd' : NoDup (map fst idx')). { eapply Permutation_NoDup; [apply Permutation_map; exact P|auto]. }
    split; auto. intros k. rewrite <- H.
    destruct (alookup k idx) eqn:A.
    - apply alookup_in in A. apply in_alookup; auto. eapply Permutation_in; eauto.
    - apply alookup_none_notin. apply alookup_none_notin in A. intros Hin. apply A.
      eapply Permutation_in; [apply Permutation_map; symmetry; exact P|auto].
  Qed.

  (** Go's map iteration order is arbitrary: any permutation of the index gives the same export *)
  Theorem export_order_independent b idx' : wf b -> Permutation (index b) idx' ->
    sb_export (mk_sbuf (entries b) idx' (next_idx b)) = sb_export b.
  Proof.
    intros W P. apply export_fun_of_log; auto.
    destruct W as [Hn Hr]. split; cbn; auto. eapply rep_perm; eauto.
  Qed.

  (** writes made after a snapshot and reverted do not influence what is exported *)
  Theorem export_ignores_reverted b ops :
    wf b -> ops_valid (next_idx b) ops -> ops_above (next_idx b) ops ->
    exists b1 b', impl_run b ops = Ok b1 /\ sb_rollback b1 (sb_snapshot b) = Ok b' /\
                  sb_export b' = sb_export b /\ forall k, sb_get b' k = sb_get b k.
  Proof.
    intros W Hv Ha. destruct (revert_restores_log b ops W Hv Ha) as (b1 & b' & H1 & H2 & H3 & H4 & H5).
    exists b1, b'. repeat split; auto.
    - now apply export_fun_of_log.
    - intros k. rewrite !get_latest by auto. now rewrite H4.
  Qed.

  (** stage (Commit) never panics on a well-formed buffer and hands over exactly the latest
      surviving write of every key *)
  Theorem stage_spec b : wf b ->
    exists l, sb_stage b = Ok l /\ map fst l = map fst (index b) /\
              forall e, In e l -> latest (entries b) (fst e) = Some e.
  Proof.
    intros [Hn Hr]. unfold sb_stage.
    assert (H : forall k s, In (k, s) (index b) -> s = positions k (entries b) /\ s <> []).
    { intros k s. now apply rep_in. }
    destruct Hr as [Hnd _]. revert Hnd H. generalize (index b) as idx.
    induction idx as [|[k s] tl IH]; intros Hnd H; cbn.
    - exists []. cbn. intuition.
    - inversion Hnd; subst. destruct (H k s (or_introl eq_refl)) as [Hs Hne].
      pose proof (positions_latest k (entries b)) as P. rewrite <- Hs in P.
      destruct s as [|i r]; [congruence|]. cbn. destruct P as (e & P1 & P2 & P3). rewrite P1.
      destruct IH as (l & L1 & L2 & L3); auto. { intros k' s' Hin. apply H. now right. }
      rewrite L1. cbn. exists (e :: l). split; auto. split; [cbn; congruence|].
      intros e' [<-|Hin]; [now rewrite P3|]. auto.
  Qed.

  (** the invariant is an invariant of every run, and no operation of a valid run panics *)
  Theorem index_wf_invariant ops b : wf b -> ops_valid (next_idx b) ops ->
    exists b', impl_run b ops = Ok b' /\ wf b'.
  Proof. intros W Hv. destruct (run_refines ops b W Hv) as (b' & H1 & H2 & _). eauto. Qed.

  (** reads after any valid run = latest write of the specification log *)
  Theorem buffer_refines_spec ops b k : wf b -> ops_valid (next_idx b) ops ->
    exists b', impl_run b ops = Ok b' /\ sb_get b' k = Ok (latest (spec_run (entries b) ops) k).
  Proof.
    intros W Hv. destruct (run_refines ops b W Hv) as (b' & H1 & H2 & H3).
    exists b'. split; auto. rewrite get_latest by auto. now rewrite H3.
  Qed.
End Proofs.

(** ---- the hypotheses are satisfiable by non-trivial states ---- *)
Example ex_ops : list (bop N) :=
  [BPut (1%N, 10%N); BPut (2%N, 20%N); BPut (1%N, 11%N); BRollback 2; BPut (2%N, 21%N); BRollback 1; BPut (3%N, 30%N)].
Example ex_valid : ops_valid 0 ex_ops /\ ops_above 0 ex_ops.
Proof. cbn. repeat split; lia. Qed.
Example ex_run : exists b, impl_run sb_new ex_ops = Ok b /\ entries b = [(1%N, 10%N); (3%N, 30%N)]
                           /\ sb_export b = Ok [(1%N, 10%N); (3%N, 30%N)].
Proof. eexists. split; [reflexivity|]. split; reflexivity. Qed.

(** StateDB.updateStorage with a failing storage (state/statedb/statedb.go).

    [before := states.Buffer.snapshot()] is taken ONCE, before the loop over the cached contract
    storages; when [storage.update()] (or the account lookup) fails for one of them the account
    buffer is rolled back to [before] and the error returned.  The storages are walked in map
    order, so the list below stands for any order.  Per storage: [None] = update fails,
    [Some None] = updated, not dirty (no account entry), [Some (Some v)] = dirty: the account
    entry [v] carrying the new storage root is put. *)
Section UpdateFault.
  Context {V : Type}.
  Notation entry := (entry V).
  Notation sbuf := (sbuf V).

  Fixpoint upd_loop (b : sbuf) (before : nat) (l : list (key * option (option V))) : res (sbuf * bool) :=
    match l with
    | [] => Ok (b, true)
    | (_, None) :: _ => bind (sb_rollback b before) (fun b' => Ok (b', false))
    | (_, Some None) :: tl => upd_loop b before tl
    | (k, Some (Some v)) :: tl => upd_loop (sb_put b (k, v)) before tl
    end.
  (** updateStorage: (buffer, true) on success, (buffer, false) when an error is returned *)
  Definition update_storage (b : sbuf) (l : list (key * option (option V))) : res (sbuf * bool) :=
    upd_loop b (sb_snapshot b) l.

  (** the variant with the snapshot taken inside the loop (per storage), kept as a witness *)
  Fixpoint upd_loop_inner (b : sbuf) (l : list (key * option (option V))) : res (sbuf * bool) :=
    match l with
    | [] => Ok (b, true)
    | (_, None) :: _ => bind (sb_rollback b (sb_snapshot b)) (fun b' => Ok (b', false))
    | (_, Some None) :: tl => upd_loop_inner b tl
    | (k, Some (Some v)) :: tl => upd_loop_inner (sb_put b (k, v)) tl
    end.

  Lemma upd_loop_spec l : forall (b0 b : sbuf) ext,
    wf b0 -> wf b -> entries b = entries b0 ++ ext ->
    exists b' ok, upd_loop b (next_idx b0) l = Ok (b', ok) /\ wf b' /\
      (ok = false -> entries b' = entries b0 /\ next_idx b' = next_idx b0) /\
      (ok = true -> Forall (fun x => snd x <> None) l) /\
      (ok = false -> Exists (fun x => snd x = None) l).
  Proof.
    induction l as [|[k [[v|]|]] tl IH]; intros b0 b ext W0 W E; cbn [upd_loop].
    - exists b, true. split; [reflexivity|]. split; [auto|]. split; [discriminate|]. split; [intros _; constructor|discriminate].
    - destruct (IH b0 (sb_put b (k, v)) (ext ++ [(k, v)]) W0 (wf_put _ _ W)) as (b' & ok & H1 & H2 & H3 & H4 & H5).
      { cbn. rewrite E. now rewrite app_assoc. }
      exists b', ok. split; [exact H1|]. split; [exact H2|]. split; [exact H3|]. split.
      + intros Hk. constructor; [cbn; discriminate|auto].
      + intros Hk. apply Exists_cons_tl. auto.
    - destruct (IH b0 b ext W0 W E) as (b' & ok & H1 & H2 & H3 & H4 & H5).
      exists b', ok. split; [exact H1|]. split; [exact H2|]. split; [exact H3|]. split.
      + intros Hk. constructor; [cbn; discriminate|auto].
      + intros Hk. apply Exists_cons_tl. auto.
    - assert (Hle : next_idx b0 <= next_idx b).
      { destruct W0 as [N0 _], W as [N1 _]. rewrite N0, N1, E, app_length. lia. }
      destruct (rollback_ok b (next_idx b0) W Hle) as (b' & R & Wb & Eb & Nb).
      rewrite R. cbn. exists b', false. split; [reflexivity|]. split; [exact Wb|]. split; [|split; [discriminate|]].
      + intros _. split; [|exact Nb]. rewrite Eb, E. destruct W0 as [N0 _]. rewrite N0. rewrite firstn_app, Nat.sub_diag, firstn_all. cbn. now rewrite app_nil_r.
      + intros _. apply Exists_cons_hd. reflexivity.
  Qed.

  (** updateStorage never panics; it fails exactly when some storage fails, in whatever order the
      storages are walked; a failed call leaves the account buffer as it was before the call:
      same log, same revision, same answer to every read *)
  Theorem failed_update_restores (b : sbuf) l :
    wf b ->
    exists b' ok, update_storage b l = Ok (b', ok) /\ wf b' /\
      (ok = false <-> Exists (fun x => snd x = None) l) /\
      (ok = false -> entries b' = entries b /\ next_idx b' = next_idx b /\ forall k, sb_get b' k = sb_get b k).
  Proof.
    intros W. unfold update_storage, sb_snapshot.
    destruct (upd_loop_spec l b b [] W W) as (b' & ok & H1 & H2 & H3 & H4 & H5); [now rewrite app_nil_r|].
    exists b', ok. split; auto. split; auto. split.
    - split; auto. intros Hex. destruct ok; auto. specialize (H4 eq_refl).
      apply Exists_exists in Hex. destruct Hex as (x & Hin & Hx). rewrite Forall_forall in H4. now apply H4 in Hin.
    - intros Hk. destruct (H3 Hk) as [He Hn]. repeat split; auto. intros k. rewrite !get_latest; auto. now rewrite He.
  Qed.
End UpdateFault.

(** witness: with the snapshot taken inside the loop the entry put for an earlier healthy storage
    survives the failed call (and is visible to reads) *)
Example inner_snapshot_leaves_writes :
  let b := @sb_new N in
  match update_storage b [(1%N, Some (Some 7%N)); (2%N, None)], upd_loop_inner b [(1%N, Some (Some 7%N)); (2%N, None)] with
  | Ok (b1, false), Ok (b2, false) =>
      entries b1 = [] /\ sb_get b1 1%N = Ok None /\ entries b2 = [(1%N, 7%N)] /\ sb_get b2 1%N = Ok (Some (1%N, 7%N))
  | _, _ => False
  end.
Proof. vm_compute. repeat split. Qed.

(** C12 model, part 2: StateDB, storage cache, contract-state handles, BlockState
    snapshots, Update and Commit (state/statedb/{statedb,storage,contract}.go,
    state/block.go), with Go pointers made explicit:

    - a [bufferedStorage] object lives in [d_heap]; the storage cache maps a contract id to
      an object index; a [ContractState] handle holds an object index ([None] after
      [StageContractState] set [st.storage = nil]).  A handle opened while the contract
      is cached aliases the cached object, otherwise it owns a fresh private object.
    - a [*types.State] stored in the account buffer carries a pointer id [a_ptr]:
      [updateStorage] writes [st.StorageRoot] through the pointer it got from the buffer,
      which changes every entry holding the same pointer.
    - the two tries are finite maps in canonical (key-sorted) form: by C10 the root hash is
      an injective function of the map (up to hash collisions), so "same root" is "same
      map".  A trie leaf is the hash of the value; the value bytes themselves are in the
      hash-addressed store only after [Commit] staged them ([d_store_a], [d_store_v]); a
      leaf whose data is not in the store reads back as the empty value, as [loadData]
      does.
    - every holder of a [*types.State] object (buffer entries, AccountState handles,
      ContractState handles) keeps a copy of its content next to the pointer id; an in-place
      write ([poke]) updates every copy with that id — this is the object heap, flattened.
    No proofs in this file. *)
From Coq Require Import NArith List Bool Arith.
From Verif Require Import StateBuf.Model.
Import ListNotations.

Definition value := N.                      (* id of a byte string; 0 = the empty string *)
Definition smap := list (key * value).      (* contract storage trie *)

Fixpoint cm_set {A} (k : key) (a : A) (m : list (key * A)) : list (key * A) :=
  match m with
  | [] => [(k, a)]
  | (k', a') :: tl => match N.compare k k' with
                      | Lt => (k, a) :: m
                      | Eq => (k, a) :: tl
                      | Gt => (k', a') :: cm_set k a tl
                      end
  end.
Fixpoint cm_del {A} (k : key) (m : list (key * A)) : list (key * A) :=
  match m with
  | [] => []
  | (k', a') :: tl => match N.compare k k' with
                      | Lt => m
                      | Eq => tl
                      | Gt => (k', a') :: cm_del k tl
                      end
  end.

Fixpoint list_eqb {A} (eqb : A -> A -> bool) (l1 l2 : list A) : bool :=
  match l1, l2 with
  | [], [] => true
  | x :: t1, y :: t2 => eqb x y && list_eqb eqb t1 t2
  | _, _ => false
  end.
Definition kv_eqb (a b : key * value) : bool := N.eqb (fst a) (fst b) && N.eqb (snd a) (snd b).
Definition smap_eqb : smap -> smap -> bool := list_eqb kv_eqb.

(** the fields of types.State other than StorageRoot: Balance, Nonce, CodeHash (id of the
    bytecode, 0 = none), SqlRecoveryPoint, SourceHash (id, 0 = none) *)
Record fl := mk_fl { f_bal : N; f_nonce : N; f_code : N; f_rp : N; f_src : N }.
Definition fl0 : fl := mk_fl 0 0 0 0 0.
Definition fl_eqb (a b : fl) : bool :=
  N.eqb (f_bal a) (f_bal b) && N.eqb (f_nonce a) (f_nonce b) && N.eqb (f_code a) (f_code b)
  && N.eqb (f_rp a) (f_rp b) && N.eqb (f_src a) (f_src b).
(** State.Clone copies Nonce, Balance, CodeHash, StorageRoot, SqlRecoveryPoint — not SourceHash *)
Definition fl_clone (f : fl) : fl := mk_fl (f_bal f) (f_nonce f) (f_code f) (f_rp f) 0.
Inductive fld := FBal | FNonce | FCode | FRp | FSrc.
Definition fl_set (f : fl) (x : fld) (v : N) : fl :=
  match x with
  | FBal => mk_fl v (f_nonce f) (f_code f) (f_rp f) (f_src f)
  | FNonce => mk_fl (f_bal f) v (f_code f) (f_rp f) (f_src f)
  | FCode => mk_fl (f_bal f) (f_nonce f) v (f_rp f) (f_src f)
  | FRp => mk_fl (f_bal f) (f_nonce f) (f_code f) v (f_src f)
  | FSrc => mk_fl (f_bal f) (f_nonce f) (f_code f) (f_rp f) v
  end.

(** *types.State: pointer identity, fields, StorageRoot *)
Record aval := mk_aval { a_ptr : nat; a_f : fl; a_root : smap }.
Definition acontent : Type := fl * smap.
Definition content (v : aval) : acontent := (a_f v, a_root v).
Definition acontent_eqb (a b : acontent) : bool := fl_eqb (fst a) (fst b) && smap_eqb (snd a) (snd b).
Definition amap := list (key * acontent).   (* account trie *)
Definition empty_content : acontent := (fl0, []).

Record storage := mk_storage { s_buf : sbuf (option value); s_trie : smap; s_dirty : bool }.
Record handle := mk_handle { h_cid : key; h_obj : option nat }.
Record bsnap := mk_bsnap { bs_state : nat; bs_storage : list (key * nat) }.

(** state.AccountState (state/account.go): [oldState] is the pointer GetState returned (the
    buffered object itself when the account is in the buffer: [ah_optr]), [newState] a Clone with
    its own identity [ah_ptr]; the setters write through [newState]; PutState stores the
    [newState] pointer in the buffer — from then on the handle aliases the buffered entry. *)
Record ahandle := mk_ah { ah_aid : key; ah_optr : option nat; ah_of : fl; ah_oroot : smap;
                          ah_ptr : nat; ah_f : fl; ah_root : smap; ah_new : bool }.
(** the *types.State a ContractState handle embeds ([cs.State]): pointer id when it is a
    shared object (buffered entry or an AccountState's newState), content, cached bytecode *)
Record hstate := mk_hst { hs_ptr : option nat; hs_f : fl; hs_root : smap; hs_code : option N }.

(** what the caller holds besides ContractState handles and block snapshots, and the parts
    of the store that are written directly *)
Record xtra := mk_x {
  x_ah : list ahandle;               (* state.AccountState handles, in creation order *)
  x_hst : list hstate;               (* parallel to d_handles *)
  x_raw : list (N * N);              (* ContractState.SetRawKV: written to the store at once *)
  x_codes : list (bool * N);         (* bytecode (true) / source (false) stored by SetCode (hash -> bytes), at once *)
  x_roots : list amap;               (* account tries persisted by Commit, in commit order *)
  x_ssnaps : list nat;               (* StateDB.Snapshot values *)
  x_last : list N                    (* result of the last result-returning call *)
}.
Definition x0 : xtra := mk_x [] [] [] [] [] [] [].

Record sdb := mk_sdb {
  d_buf : sbuf aval;                 (* StateDB.Buffer *)
  d_cache : list (key * nat);        (* StateDB.Cache.storages: contract id -> object *)
  d_heap : list storage;             (* bufferedStorage objects *)
  d_trie : amap;                     (* StateDB.Trie (in-memory root) *)
  d_store_a : list acontent;         (* account state data staged to the DB *)
  d_store_v : list value;            (* storage value data staged to the DB *)
  d_nptr : nat;                      (* next fresh *types.State pointer id *)
  (* values held by the caller (the engine / the executor) *)
  d_handles : list handle;           (* ContractState handles, in opening order *)
  d_snaps : list bsnap;              (* BlockSnapshot values, in taking order *)
  d_csnaps : list (nat * nat);       (* ContractState.Snapshot values: (handle, revision) *)
  d_x : xtra
}.
Definition d_ah (d : sdb) : list ahandle := x_ah (d_x d).

Definition sdb_new (trie : amap) (sa : list acontent) (sv : list value) : sdb :=
  {| d_buf := sb_new; d_cache := []; d_heap := []; d_trie := trie; d_store_a := sa; d_store_v := sv;
     d_nptr := 0; d_handles := []; d_snaps := []; d_csnaps := []; d_x := x0 |}.

Definition set_buf (d : sdb) (b : sbuf aval) : sdb :=
  mk_sdb b (d_cache d) (d_heap d) (d_trie d) (d_store_a d) (d_store_v d) (d_nptr d) (d_handles d) (d_snaps d) (d_csnaps d) (d_x d).
Definition set_cache (d : sdb) (c : list (key * nat)) : sdb :=
  mk_sdb (d_buf d) c (d_heap d) (d_trie d) (d_store_a d) (d_store_v d) (d_nptr d) (d_handles d) (d_snaps d) (d_csnaps d) (d_x d).
Definition set_heap (d : sdb) (h : list storage) : sdb :=
  mk_sdb (d_buf d) (d_cache d) h (d_trie d) (d_store_a d) (d_store_v d) (d_nptr d) (d_handles d) (d_snaps d) (d_csnaps d) (d_x d).
Definition set_handles (d : sdb) (h : list handle) : sdb :=
  mk_sdb (d_buf d) (d_cache d) (d_heap d) (d_trie d) (d_store_a d) (d_store_v d) (d_nptr d) h (d_snaps d) (d_csnaps d) (d_x d).
Definition set_nptr (d : sdb) (n : nat) : sdb :=
  mk_sdb (d_buf d) (d_cache d) (d_heap d) (d_trie d) (d_store_a d) (d_store_v d) n (d_handles d) (d_snaps d) (d_csnaps d) (d_x d).
Definition set_x (d : sdb) (x : xtra) : sdb :=
  mk_sdb (d_buf d) (d_cache d) (d_heap d) (d_trie d) (d_store_a d) (d_store_v d) (d_nptr d) (d_handles d) (d_snaps d) (d_csnaps d) x.
Definition set_trie (d : sdb) (t : amap) : sdb :=
  mk_sdb (d_buf d) (d_cache d) (d_heap d) t (d_store_a d) (d_store_v d) (d_nptr d) (d_handles d) (d_snaps d) (d_csnaps d) (d_x d).
Definition set_ah (d : sdb) (l : list ahandle) : sdb :=
  let x := d_x d in set_x d (mk_x l (x_hst x) (x_raw x) (x_codes x) (x_roots x) (x_ssnaps x) (x_last x)).
Definition set_hst (d : sdb) (l : list hstate) : sdb :=
  let x := d_x d in set_x d (mk_x (x_ah x) l (x_raw x) (x_codes x) (x_roots x) (x_ssnaps x) (x_last x)).
Definition set_last (d : sdb) (l : list N) : sdb :=
  let x := d_x d in set_x d (mk_x (x_ah x) (x_hst x) (x_raw x) (x_codes x) (x_roots x) (x_ssnaps x) l).

Fixpoint list_set {A} (l : list A) (i : nat) (a : A) : list A :=
  match l, i with
  | [], _ => []
  | _ :: tl, 0 => a :: tl
  | x :: tl, S j => x :: list_set tl j a
  end.
Definition of_opt {A} (o : option A) : res A := match o with Some a => Ok a | None => Panic end.

(** StateDB.getState: buffer first (returns the stored pointer), then the trie; [None] = nil *)
Definition trie_state (d : sdb) (a : key) : option acontent :=
  match alookup a (d_trie d) with
  | None => None
  | Some c => if existsb (acontent_eqb c) (d_store_a d) then Some c else Some empty_content
  end.
Definition get_state_ptr (d : sdb) (a : key) : res (option (option nat * acontent)) :=
  bind (sb_get (d_buf d) a) (fun r =>
  match r with
  | Some e => Ok (Some (Some (a_ptr (snd e)), content (snd e)))
  | None => Ok (match trie_state d a with Some c => Some (None, c) | None => None end)
  end).
Definition get_state (d : sdb) (a : key) : res (option acontent) :=
  bind (get_state_ptr d a) (fun r => Ok (match r with Some (_, c) => Some c | None => None end)).

(** ContractState.GetInitialData: the storage trie only *)
Definition initial_data (d : sdb) (st : storage) (k : key) : option value :=
  match alookup k (s_trie st) with
  | None => None
  | Some v => if existsb (N.eqb v) (d_store_v d) then Some v else Some 0%N
  end.
(** ContractState.GetData through object [o] *)
Definition get_data (d : sdb) (o : nat) (k : key) : res (option value) :=
  bind (of_opt (nth_error (d_heap d) o)) (fun st =>
  bind (sb_get (s_buf st) k) (fun r =>
  match r with
  | Some e => Ok (snd e)
  | None => Ok (initial_data d st k)
  end)).
(** ContractState.HasKey: Buffer.has (true also for a buffered delete) or present in the trie *)
Definition has_key (st : storage) (k : key) : bool :=
  sb_has (s_buf st) k || match alookup k (s_trie st) with Some _ => true | None => false end.

Definition live_obj (d : sdb) (h : nat) : res (key * nat) :=
  match nth_error (d_handles d) h with
  | Some {| h_cid := c; h_obj := Some o |} => Ok (c, o)
  | _ => Panic                                   (* nil handle / storage == nil *)
  end.

Definition heap_put (d : sdb) (o : nat) (e : entry (option value)) : res sdb :=
  bind (of_opt (nth_error (d_heap d) o)) (fun st =>
  Ok (set_heap d (list_set (d_heap d) o (mk_storage (sb_put (s_buf st) e) (s_trie st) (s_dirty st))))).
Definition heap_rollback (d : sdb) (o rev : nat) : res sdb :=
  bind (of_opt (nth_error (d_heap d) o)) (fun st =>
  bind (sb_rollback (s_buf st) rev) (fun b =>
  Ok (set_heap d (list_set (d_heap d) o (mk_storage b (s_trie st) (s_dirty st)))))).

(** storageCache.Snapshot *)
Fixpoint cache_snapshot (heap : list storage) (c : list (key * nat)) : res (list (key * nat)) :=
  match c with
  | [] => Ok []
  | (cid, o) :: tl =>
      bind (of_opt (nth_error heap o)) (fun st =>
      bind (cache_snapshot heap tl) (fun r => Ok ((cid, sb_snapshot (s_buf st)) :: r)))
  end.
(** storageCache.Rollback: cached contracts absent from the snapshot are dropped *)
Fixpoint cache_rollback (d : sdb) (snap : list (key * nat)) (c : list (key * nat)) : res sdb :=
  match c with
  | [] => Ok d
  | (cid, o) :: tl =>
      match alookup cid snap with
      | Some rev => bind (heap_rollback d o rev) (fun d' => cache_rollback d' snap tl)
      | None => cache_rollback (set_cache d (aremove cid (d_cache d))) snap tl
      end
  end.

Definition apply_export_s (m : smap) (ex : list (entry (option value))) : smap :=
  fold_left (fun m e => match snd e with Some v => cm_set (fst e) v m | None => cm_del (fst e) m end) ex m.
Definition apply_export_a (m : amap) (ex : list (entry aval)) : amap :=
  fold_left (fun m e => cm_set (fst e) (content (snd e)) m) ex m.

(** an in-place write [g] to the *types.State object [p]: every buffered entry holding [p]
    changes, and so does every handle that holds the object (an AccountState as its newState
    or its oldState, a ContractState as its embedded State) *)
Definition poke_buf (p : nat) (g : acontent -> acontent) (b : sbuf aval) : sbuf aval :=
  mk_sbuf (map (fun e => if Nat.eqb (a_ptr (snd e)) p
                        then (fst e, mk_aval p (fst (g (content (snd e)))) (snd (g (content (snd e))))) else e)
               (entries b))
          (index b) (next_idx b).
Definition poke_ah (p : nat) (g : acontent -> acontent) (l : list ahandle) : list ahandle :=
  map (fun h =>
         let o := match ah_optr h with
                  | Some q => if Nat.eqb q p then g (ah_of h, ah_oroot h) else (ah_of h, ah_oroot h)
                  | None => (ah_of h, ah_oroot h)
                  end in
         let n := if Nat.eqb (ah_ptr h) p then g (ah_f h, ah_root h) else (ah_f h, ah_root h) in
         mk_ah (ah_aid h) (ah_optr h) (fst o) (snd o) (ah_ptr h) (fst n) (snd n) (ah_new h)) l.
Definition poke_hst (p : nat) (g : acontent -> acontent) (l : list hstate) : list hstate :=
  map (fun h => match hs_ptr h with
                | Some q => if Nat.eqb q p
                            then mk_hst (hs_ptr h) (fst (g (hs_f h, hs_root h))) (snd (g (hs_f h, hs_root h))) (hs_code h)
                            else h
                | None => h
                end) l.
Definition poke (d : sdb) (p : nat) (g : acontent -> acontent) : sdb :=
  let x := d_x d in
  set_x (set_buf d (poke_buf p g (d_buf d)))
        (mk_x (poke_ah p g (x_ah x)) (poke_hst p g (x_hst x)) (x_raw x) (x_codes x) (x_roots x) (x_ssnaps x) (x_last x)).

(** StateDB.updateStorage, one cached storage *)
Definition update_one (d : sdb) (cid : key) (o : nat) : res sdb :=
  bind (of_opt (nth_error (d_heap d) o)) (fun st =>
  bind (sb_export (s_buf st)) (fun ex =>
  let trie' := apply_export_s (s_trie st) ex in
  let dirty' := s_dirty st || negb (smap_eqb trie' (s_trie st)) in
  let d1 := set_heap d (list_set (d_heap d) o (mk_storage (s_buf st) trie' dirty')) in
  if dirty' then
    bind (get_state_ptr d1 cid) (fun cur =>
    match cur with
    | Some (Some p, (f, _)) =>
        (* st.StorageRoot = root through the buffered pointer, then the same pointer is put again *)
        let d2 := poke d1 p (fun c => (fst c, trie')) in
        Ok (set_buf d2 (sb_put (d_buf d2) (cid, mk_aval p f trie')))
    | Some (None, (f, _)) =>
        Ok (set_nptr (set_buf d1 (sb_put (d_buf d1) (cid, mk_aval (d_nptr d1) f trie'))) (S (d_nptr d1)))
    | None =>
        Ok (set_nptr (set_buf d1 (sb_put (d_buf d1) (cid, mk_aval (d_nptr d1) fl0 trie'))) (S (d_nptr d1)))
    end)
  else Ok d1)).
Fixpoint update_storages (d : sdb) (c : list (key * nat)) : res sdb :=
  match c with
  | [] => Ok d
  | (cid, o) :: tl => bind (update_one d cid o) (fun d' => update_storages d' tl)
  end.
(** StateDB.Update *)
Definition db_update (d : sdb) : res sdb :=
  bind (update_storages d (d_cache d)) (fun d1 =>
  bind (sb_export (d_buf d1)) (fun ex => Ok (set_trie d1 (apply_export_a (d_trie d1) ex)))).

Fixpoint somes {A} (l : list (option A)) : list A :=
  match l with [] => [] | Some a :: tl => a :: somes tl | None :: tl => somes tl end.
(** StateDB.Commit: stage and reset every cached storage, then the account buffer *)
Fixpoint commit_storages (d : sdb) (c : list (key * nat)) : res sdb :=
  match c with
  | [] => Ok d
  | (_, o) :: tl =>
      bind (of_opt (nth_error (d_heap d) o)) (fun st =>
      bind (sb_stage (s_buf st)) (fun staged =>
      bind (sb_reset (s_buf st)) (fun b =>
      let d1 := mk_sdb (d_buf d) (d_cache d) (list_set (d_heap d) o (mk_storage b (s_trie st) (s_dirty st)))
                       (d_trie d) (d_store_a d) (d_store_v d ++ somes (map snd staged)) (d_nptr d)
                       (d_handles d) (d_snaps d) (d_csnaps d) (d_x d) in
      commit_storages d1 tl)))
  end.
Definition add_root (x : xtra) (t : amap) : xtra :=
  mk_x (x_ah x) (x_hst x) (x_raw x) (x_codes x) (x_roots x ++ [t]) (x_ssnaps x) (x_last x).
Definition db_commit (d : sdb) : res sdb :=
  bind (commit_storages d (d_cache d)) (fun d1 =>
  bind (sb_stage (d_buf d1)) (fun staged =>
  bind (sb_reset (d_buf d1)) (fun b =>
  Ok (mk_sdb b (d_cache d1) (d_heap d1) (d_trie d1) (d_store_a d1 ++ map (fun e => content (snd e)) staged)
             (d_store_v d1) (d_nptr d1) (d_handles d1) (d_snaps d1) (d_csnaps d1) (add_root (d_x d1) (d_trie d1)))))).

(** NewStateDB(store, root): fresh buffer and cache; the store (staged data, raw keys, code,
    persisted roots) stays; the caller's handles and snapshots belong to the old instance *)
Definition reopen_at (d : sdb) (t : amap) : sdb :=
  set_x (sdb_new t (d_store_a d) (d_store_v d))
        (mk_x [] [] (x_raw (d_x d)) (x_codes (d_x d)) (x_roots (d_x d)) [] []).

(** ---- the operations driven by the engine ---- *)
Inductive op :=
| OPut (a : key) (v : N)            (* st := clone(GetState(a) or empty); st.Balance := v; PutState(a, st) *)
| OOpen (c : key)                   (* OpenContractStateAccount(c): handle appended to the table *)
| OSet (h : nat) (k : key) (v : value)
| ODel (h : nat) (k : key)
| OStage (h : nat)
| OSnap                             (* BlockState.Snapshot, appended to the snapshot table *)
| ORollback (i : nat)               (* BlockState.Rollback(snapshot i) *)
| OCSnap (h : nat)                  (* ContractState.Snapshot through handle h *)
| OCRollback (j : nat)              (* ContractState.Rollback(contract snapshot j) *)
| OUpdate | OCommit
| OReopen                           (* NewStateDB(store, GetRoot()) / StateDB.Clone(): only issued right after Commit *)
| OClear                            (* the caller forgets all its handles and contract snapshots *)
| OAGet (a : key)                   (* state.GetAccountState(a): AccountState handle appended to its table *)
| OAAdd (h : nat) (v : N)           (* AccountState.AddBalance *)
| OASub (h : nat) (v : N)           (* AccountState.SubBalance (big.Int.Bytes drops the sign) *)
| OAPut (h : nat)                   (* AccountState.PutState *)
| OAReset (h : nat)                 (* AccountState.Reset: newState = oldState.Clone() *)
| OACreate (a : key)                (* state.CreateAccountState(a): refused when the account exists *)
| OASetF (h : nat) (x : fld) (v : N) (* AccountState.SetNonce / SetCodeHash / SetRP *)
| OOpenAs (h : nat)                 (* OpenContractState(as.ID(), as.State(), sdb): the executor's way *)
| OSetCode (h : nat) (c s : N)      (* ContractState.SetCode(source s (0 = none), bytecode c) *)
| OGetCode (h : nat)                (* ContractState.GetCode: result in x_last *)
| ORawSet (h : nat) (k v : N)       (* ContractState.SetRawKV *)
| ORawGet (h : nat) (k : N)         (* ContractState.GetRawKV: result in x_last *)
| OSSnap                            (* StateDB.Snapshot (account buffer revision only) *)
| OSRollback (j : nat)              (* StateDB.Rollback(revision j) *)
| OSetRoot (i : nat)                (* StateDB.SetRoot / Revert to the i-th persisted root *)
| OReopenAt (i : nat)               (* ChainStateDB.SetRoot(root i); NewBlockState(root i) *)
| OApply.                           (* ChainStateDB.Apply: Update, Commit, main SetRoot; new block state at it *)

(** a setter through AccountState handle [h]: the handle's newState object gets content [f] *)
Definition ah_write (d : sdb) (h : nat) (ah : ahandle) (f : fl) : sdb :=
  let d1 := poke d (ah_ptr ah) (fun c => (f, snd c)) in
  set_ah d1 (list_set (d_ah d1) h (mk_ah (ah_aid ah) (ah_optr ah) (ah_of ah) (ah_oroot ah) (ah_ptr ah) f (ah_root ah) (ah_new ah))).

Definition block_snapshot (d : sdb) : res bsnap :=
  bind (cache_snapshot (d_heap d) (d_cache d)) (fun cs => Ok (mk_bsnap (sb_snapshot (d_buf d)) cs)).
Definition block_rollback (d : sdb) (s : bsnap) : res sdb :=
  bind (cache_rollback d (bs_storage s) (d_cache d)) (fun d1 =>
  bind (sb_rollback (d_buf d1) (bs_state s)) (fun b => Ok (set_buf d1 b))).

(** the bufferedStorage a new handle for contract [c] gets: the cached one, or a fresh one
    over the storage root of the State it was opened with *)
Definition open_handle (d : sdb) (c : key) (root : smap) (hs : hstate) : sdb :=
  match alookup c (d_cache d) with
  | Some o => set_hst (set_handles d (d_handles d ++ [mk_handle c (Some o)])) (x_hst (d_x d) ++ [hs])
  | None =>
      set_hst (set_handles (set_heap d (d_heap d ++ [mk_storage sb_new root false]))
                           (d_handles d ++ [mk_handle c (Some (length (d_heap d)))]))
              (x_hst (d_x d) ++ [hs])
  end.

Definition step (d : sdb) (o : op) : res sdb :=
  match o with
  | OPut a v =>
      bind (get_state d a) (fun cur =>
      let c := match cur with Some (f, r) => (fl_set (fl_clone f) FBal v, r) | None => (fl_set fl0 FBal v, []) end in
      Ok (set_nptr (set_buf d (sb_put (d_buf d) (a, mk_aval (d_nptr d) (fst c) (snd c)))) (S (d_nptr d))))
  | OOpen c =>
      bind (get_state_ptr d c) (fun cur =>
      match cur with
      | Some (p, (f, r)) => Ok (open_handle d c r (mk_hst p f r None))
      | None => Ok (open_handle d c [] (mk_hst None fl0 [] None))
      end)
  | OOpenAs h =>
      bind (of_opt (nth_error (d_ah d) h)) (fun ah =>
      Ok (open_handle d (ah_aid ah) (ah_root ah) (mk_hst (Some (ah_ptr ah)) (ah_f ah) (ah_root ah) None)))
  | OSet h k v => bind (live_obj d h) (fun co => heap_put d (snd co) (k, Some v))
  | ODel h k => bind (live_obj d h) (fun co => heap_put d (snd co) (k, None))
  | OStage h =>
      bind (live_obj d h) (fun co =>
      Ok (set_handles (set_cache d (aset (fst co) (snd co) (d_cache d)))
                      (list_set (d_handles d) h (mk_handle (fst co) None))))
  | OSnap =>
      bind (block_snapshot d) (fun s =>
      Ok (mk_sdb (d_buf d) (d_cache d) (d_heap d) (d_trie d) (d_store_a d) (d_store_v d) (d_nptr d)
                 (d_handles d) (d_snaps d ++ [s]) (d_csnaps d) (d_x d)))
  | ORollback i => bind (of_opt (nth_error (d_snaps d) i)) (fun s => block_rollback d s)
  | OCSnap h =>
      bind (live_obj d h) (fun co =>
      bind (of_opt (nth_error (d_heap d) (snd co))) (fun st =>
      Ok (mk_sdb (d_buf d) (d_cache d) (d_heap d) (d_trie d) (d_store_a d) (d_store_v d) (d_nptr d)
                 (d_handles d) (d_snaps d) (d_csnaps d ++ [(h, sb_snapshot (s_buf st))]) (d_x d))))
  | OCRollback j =>
      bind (of_opt (nth_error (d_csnaps d) j)) (fun hr =>
      bind (live_obj d (fst hr)) (fun co => heap_rollback d (snd co) (snd hr)))
  | OUpdate => db_update d
  | OCommit => db_commit d
  | OReopen => Ok (reopen_at d (d_trie d))
  | OClear =>
      let x := d_x d in
      Ok (mk_sdb (d_buf d) (d_cache d) (d_heap d) (d_trie d) (d_store_a d) (d_store_v d) (d_nptr d)
                 [] (d_snaps d) [] (mk_x [] [] (x_raw x) (x_codes x) (x_roots x) (x_ssnaps x) (x_last x)))
  | OAGet a =>
      bind (get_state_ptr d a) (fun cur =>
      let h := match cur with
               | Some (op, (f, rt)) => mk_ah a op f rt (d_nptr d) (fl_clone f) rt false
               | None => mk_ah a None fl0 [] (d_nptr d) fl0 [] true
               end in
      Ok (set_nptr (set_ah d (d_ah d ++ [h])) (S (d_nptr d))))
  | OACreate a =>
      bind (get_state_ptr d a) (fun cur =>
      match cur with
      | Some _ => Ok d                                  (* "account already exists": no handle *)
      | None => Ok (set_nptr (set_ah d (d_ah d ++ [mk_ah a None fl0 [] (d_nptr d) (fl_set fl0 FRp 1) [] true])) (S (d_nptr d)))
      end)
  | OAAdd h v =>
      bind (of_opt (nth_error (d_ah d) h)) (fun ah => Ok (ah_write d h ah (fl_set (ah_f ah) FBal (f_bal (ah_f ah) + v)%N)))
  | OASub h v =>
      bind (of_opt (nth_error (d_ah d) h)) (fun ah =>
      let b := f_bal (ah_f ah) in
      Ok (ah_write d h ah (fl_set (ah_f ah) FBal (if (v <=? b)%N then (b - v)%N else (v - b)%N))))
  | OASetF h x v =>
      bind (of_opt (nth_error (d_ah d) h)) (fun ah => Ok (ah_write d h ah (fl_set (ah_f ah) x v)))
  | OAPut h =>
      bind (of_opt (nth_error (d_ah d) h)) (fun ah =>
      Ok (set_buf d (sb_put (d_buf d) (ah_aid ah, mk_aval (ah_ptr ah) (ah_f ah) (ah_root ah)))))
  | OAReset h =>
      bind (of_opt (nth_error (d_ah d) h)) (fun ah =>
      Ok (set_nptr (set_ah d (list_set (d_ah d) h
            (mk_ah (ah_aid ah) (ah_optr ah) (ah_of ah) (ah_oroot ah) (d_nptr d) (fl_clone (ah_of ah)) (ah_oroot ah) (ah_new ah))))
                   (S (d_nptr d))))
  | OSetCode h c s =>
      bind (of_opt (nth_error (x_hst (d_x d)) h)) (fun hs =>
      let g := fun (cc : acontent) =>
                 (let f1 := fl_set (fst cc) FCode c in if (s =? 0)%N then f1 else fl_set f1 FSrc s, snd cc) in
      let d1 := match hs_ptr hs with Some p => poke d p g | None => d end in
      let x := d_x d1 in
      let hs' := mk_hst (hs_ptr hs) (fst (g (hs_f hs, hs_root hs))) (hs_root hs) (Some c) in
      Ok (set_x d1 (mk_x (x_ah x) (list_set (x_hst x) h hs') (x_raw x)
                         (x_codes x ++ (true, c) :: (if (s =? 0)%N then [] else [(false, s)])) (x_roots x) (x_ssnaps x) (x_last x))))
  | OGetCode h =>
      bind (of_opt (nth_error (x_hst (d_x d)) h)) (fun hs =>
      match hs_code hs with
      | Some c => Ok (set_last d [1%N; c])
      | None =>
          let c := f_code (hs_f hs) in
          if (c =? 0)%N then Ok (set_last d [0%N])
          else if existsb (fun bc => fst bc && N.eqb c (snd bc)) (x_codes (d_x d))
               then Ok (set_last (set_hst d (list_set (x_hst (d_x d)) h (mk_hst (hs_ptr hs) (hs_f hs) (hs_root hs) (Some c)))) [1%N; c])
               else Ok (set_last d [0%N])
      end)
  | ORawSet h k v =>
      bind (of_opt (nth_error (x_hst (d_x d)) h)) (fun _ =>
      let x := d_x d in
      Ok (set_x d (mk_x (x_ah x) (x_hst x) (aset k v (x_raw x)) (x_codes x) (x_roots x) (x_ssnaps x) (x_last x))))
  | ORawGet h k =>
      bind (of_opt (nth_error (x_hst (d_x d)) h)) (fun _ =>
      Ok (set_last d (match alookup k (x_raw (d_x d)) with
                      | Some v => if (v =? 0)%N then [0%N] else [1%N; v]
                      | None => [0%N]
                      end)))
  | OSSnap =>
      let x := d_x d in
      Ok (set_x d (mk_x (x_ah x) (x_hst x) (x_raw x) (x_codes x) (x_roots x) (x_ssnaps x ++ [sb_snapshot (d_buf d)]) (x_last x)))
  | OSRollback j =>
      bind (of_opt (nth_error (x_ssnaps (d_x d)) j)) (fun rev =>
      bind (sb_rollback (d_buf d) rev) (fun b => Ok (set_buf d b)))
  | OSetRoot i =>
      bind (of_opt (nth_error (x_roots (d_x d)) i)) (fun t =>
      bind (sb_reset (d_buf d)) (fun b => Ok (set_trie (set_buf d b) t)))
  | OReopenAt i => bind (of_opt (nth_error (x_roots (d_x d)) i)) (fun t => Ok (reopen_at d t))
  | OApply =>
      bind (db_update d) (fun d1 => bind (db_commit d1) (fun d2 => Ok (reopen_at d2 (d_trie d2))))
  end.

Fixpoint run (d : sdb) (ops : list op) : res sdb :=
  match ops with [] => Ok d | o :: tl => bind (step d o) (fun d' => run d' tl) end.

(** ---- observations compared with the implementation after every operation ---- *)
Inductive root := RA (m : amap) | RS (m : smap).
Definition root_eqb (a b : root) : bool :=
  match a, b with
  | RA x, RA y => list_eqb (fun p q => N.eqb (fst p) (fst q) && acontent_eqb (snd p) (snd q)) x y
  | RS x, RS y => smap_eqb x y
  | _, _ => false
  end.

Definition enc_opt (o : option N) : list N := match o with None => [0%N] | Some v => [1%N; v] end.
Definition enc_fl (f : fl) : list N := [f_bal f; f_nonce f; f_code f; f_rp f; f_src f].
Definition nN (n : nat) : N := N.of_nat n.

Fixpoint mapM {A B} (f : A -> res B) (l : list A) : res (list B) :=
  match l with
  | [] => Ok []
  | x :: tl => bind (f x) (fun y => bind (mapM f tl) (fun r => Ok (y :: r)))
  end.

Definition obs_account (d : sdb) (a : key) : res (list N * list root) :=
  bind (get_state d a) (fun r =>
  Ok (match r with None => ([0%N], []) | Some (f, rt) => (1%N :: enc_fl f, [RS rt]) end)).
Definition obs_handle (uk : list key) (d : sdb) (h : handle) : res (list N * list root) :=
  match h_obj h with
  | None => Ok ([0%N], [])
  | Some o =>
      bind (of_opt (nth_error (d_heap d) o)) (fun st =>
      bind (mapM (get_data d o) uk) (fun vs =>
      Ok (1%N :: nN (next_idx (s_buf st)) :: concat (map enc_opt vs)
            ++ map (fun k => if has_key st k then 1%N else 0%N) uk
            ++ concat (map (fun k => enc_opt (initial_data d st k)) uk), [])))
  end.
Definition enc_stack (b : sbuf (option value)) (k : key) : list N :=
  match alookup k (index b) with
  | None => [0%N]
  | Some s => nN (S (length s)) :: map nN s          (* top of the stack first *)
  end.
Definition obs_cached (uk : list key) (d : sdb) (c : key) : res (list N * list root) :=
  match alookup c (d_cache d) with
  | None => Ok ([0%N], [])
  | Some o =>
      bind (of_opt (nth_error (d_heap d) o)) (fun st =>
      bind (sb_export (s_buf st)) (fun ex =>
      Ok (1%N :: nN (next_idx (s_buf st)) :: (if s_dirty st then 1%N else 0%N) :: nN (length ex)
            :: concat (map (fun e => fst e :: enc_opt (snd e)) ex)
            ++ concat (map (enc_stack (s_buf st)) uk),
          [RS (s_trie st)])))
  end.
Definition obs_abuf (d : sdb) : res (list N * list root) :=
  bind (sb_export (d_buf d)) (fun ex =>
  Ok (nN (next_idx (d_buf d)) :: nN (length ex) :: concat (map (fun e => fst e :: enc_fl (a_f (snd e))) ex),
      map (fun e => RS (a_root (snd e))) ex)).

(** AccountState handle: fields of newState, IsNew, IsContract; its StorageRoot *)
Definition obs_ahandle (h : ahandle) : list N * list root :=
  (enc_fl (ah_f h) ++ [if ah_new h then 1%N else 0%N;
                       if (f_code (ah_f h) =? 0)%N && (f_src (ah_f h) =? 0)%N then 0%N else 1%N], [RS (ah_root h)]).
(** the State embedded in a ContractState handle *)
Definition obs_hst (h : hstate) : list N * list root := (enc_fl (hs_f h), [RS (hs_root h)]).

Definition cat2 (l : list (list N * list root)) : list N * list root :=
  (concat (map fst l), concat (map snd l)).

Definition observe (ua uk : list key) (d : sdb) : res (list N * list root) :=
  bind (mapM (obs_account d) ua) (fun oa =>
  bind (mapM (obs_handle uk d) (d_handles d)) (fun oh =>
  bind (mapM (obs_cached uk d) ua) (fun oc =>
  bind (obs_abuf d) (fun ob =>
  let '(n1, r1) := cat2 oa in
  let '(n2, r2) := cat2 oh in
  let '(n3, r3) := cat2 oc in
  let '(n4, r4) := cat2 (map obs_ahandle (d_ah d)) in
  let '(n5, r5) := cat2 (map obs_hst (x_hst (d_x d))) in
  Ok (n1 ++ nN (length (d_handles d)) :: n2 ++ n3 ++ fst ob ++ nN (length (d_ah d)) :: n4
         ++ nN (length (x_hst (d_x d))) :: n5 ++ nN (length (x_last (d_x d))) :: x_last (d_x d),
      r1 ++ r3 ++ snd ob ++ r4 ++ r5 ++ [RA (d_trie d)]))))).

(** implementation roots are opaque byte strings, numbered by the check script; the model's
    roots are maps.  Both must induce the same equalities: a partial bijection is extended
    observation by observation. *)
Fixpoint tbl_find_id (i : N) (t : list (N * root)) : option root :=
  match t with [] => None | (j, r) :: tl => if N.eqb i j then Some r else tbl_find_id i tl end.
Fixpoint tbl_find_root (r : root) (t : list (N * root)) : option N :=
  match t with [] => None | (j, r') :: tl => if root_eqb r r' then Some j else tbl_find_root r tl end.
Fixpoint match_roots (ids : list N) (rs : list root) (t : list (N * root)) : option (list (N * root)) :=
  match ids, rs with
  | [], [] => Some t
  | i :: it, r :: rt =>
      match tbl_find_id i t, tbl_find_root r t with
      | Some r', _ => if root_eqb r r' then match_roots it rt t else None
      | None, Some _ => None
      | None, None => match_roots it rt ((i, r) :: t)
      end
  | _, _ => None
  end.

Inductive obs := OP | OO (nums : list N) (roots : list N).

(** 0 = the whole trace agrees, S i = first disagreement at step i *)
Fixpoint trace_check (ua uk : list key) (d : sdb) (t : list (N * root)) (tr : list (op * obs)) (i : nat) : nat :=
  match tr with
  | [] => 0
  | (o, ob) :: tl =>
      match bind (step d o) (fun d' => bind (observe ua uk d') (fun x => Ok (d', x))), ob with
      | Panic, OP => 0                                  (* both stop here *)
      | Ok (d', (nums, roots)), OO nums' ids =>
          if list_eqb N.eqb nums nums' then
            match match_roots ids roots t with
            | Some t' => trace_check ua uk d' t' tl (S i)
            | None => S i
            end
          else S i
      | _, _ => S i
      end
  end.

Definition trace := (list key * list key * list (op * obs))%type.
Definition trace_bad (t : trace) : nat :=
  let '(ua, uk, tr) := t in trace_check ua uk (sdb_new [] [] []) [] tr 0.
Fixpoint bad_traces (l : list trace) (i : nat) : list (nat * nat) :=
  match l with
  | [] => []
  | t :: tl => match trace_bad t with
               | 0 => bad_traces tl (S i)
               | S j => (i, j) :: bad_traces tl (S i)
               end
  end.
(** what the model observes (printed for the first disagreeing step of a replay) *)
Definition model_obs (ua uk : list key) (ops : list op) : res (list N * list root) :=
  bind (run (sdb_new [] [] []) ops) (observe ua uk).

(** Proofs about the StateDB / storage cache / BlockState model (StateBuf/Db.v). *)
From Coq Require Import NArith List Bool Arith Lia Permutation.
From Verif Require Import StateBuf.Model StateBuf.BufProofs StateBuf.Db.
Import ListNotations.

Lemma bind_ok {A B} (r : res A) (f : A -> res B) b :
  bind r f = Ok b -> exists a, r = Ok a /\ f a = Ok b.
Proof. destruct r; cbn; [eauto|discriminate]. Qed.

Lemma heap_rollback_cache d o rev d' : heap_rollback d o rev = Ok d' -> d_cache d' = d_cache d /\ d_buf d' = d_buf d.
Proof.
  unfold heap_rollback. intros H.
  apply bind_ok in H. destruct H as (st & _ & H). apply bind_ok in H. destruct H as (b & _ & H).
  inversion H; subst. split; reflexivity.
Qed.

(** storageCache.Rollback: a contract that is not in the snapshot is not cached afterwards
    (staged later => dropped), whatever else happened *)
Lemma cache_rollback_drops snap cl : forall d d' c,
  cache_rollback d snap cl = Ok d' -> alookup c snap = None ->
  (In c (map fst cl) \/ alookup c (d_cache d) = None) -> alookup c (d_cache d') = None.
Proof.
  induction cl as [|[cid o] tl IH]; intros d d' c H Hs Hc; cbn in H.
  - inversion H; subst. destruct Hc as [[]|]; auto.
  - destruct (alookup cid snap) as [rev|] eqn:E.
    + apply bind_ok in H. destruct H as (d1 & H1 & H2).
      apply heap_rollback_cache in H1. destruct H1 as [H1 _].
      apply (IH d1 d' c H2 Hs). rewrite H1.
      destruct Hc as [[Hc|Hc]|Hc]; auto. cbn in Hc. subst. congruence.
    + apply (IH _ d' c H Hs). cbn.
      destruct (N.eq_dec c cid) as [->|Hn].
      * right. apply alookup_aremove_eq.
      * rewrite alookup_aremove_neq by auto. destruct Hc as [[Hc|Hc]|Hc]; auto. cbn in Hc. congruence.
Qed.

Theorem staged_later_dropped d s d' c :
  block_rollback d s = Ok d' -> alookup c (bs_storage s) = None -> alookup c (d_cache d') = None.
Proof.
  unfold block_rollback. intros H Hs.
  apply bind_ok in H. destruct H as (d1 & H1 & H2).
  apply bind_ok in H2. destruct H2 as (b & _ & H2). inversion H2; subst. cbn.
  apply (cache_rollback_drops _ _ _ _ _ H1 Hs).
  destruct (alookup c (d_cache d)) eqn:E; auto. left.
  apply alookup_in in E. change c with (fst (c, n)). now apply in_map.
Qed.

(** a contract staged after a block snapshot is dropped by the revert, and a handle opened
    afterwards starts from the committed storage again (concrete instance with reads) *)
Example staged_later_dropped_example :
  let ops := [OSnap; OOpen 7; OSet 0 1 5; OStage 0; ORollback 0; OOpen 7]%N in
  exists d, run (sdb_new [] [] []) ops = Ok d /\ d_cache d = [] /\ get_data d 1 1%N = Ok None.
Proof. eexists. split; [reflexivity|]. split; reflexivity. Qed.

(** Update between a snapshot and the revert to it: the account trie (and the StorageRoot
    written through the shared *types.State pointer) keep the reverted write.  The
    unrestricted statement "revert restores what was visible at snapshot time" is false. *)
Definition vis_accounts (d : sdb) (ua : list key) : res (list (option acontent)) := mapM (get_state d) ua.

Theorem revert_restores_with_update_refuted :
  exists ops_before ops_between a,
    In OUpdate ops_between /\
    match run (sdb_new [] [] []) (ops_before ++ [OSnap]) with
    | Ok d0 =>
        match run d0 (ops_between ++ [ORollback 0]) with
        | Ok d1 => get_state d0 a <> get_state d1 a
        | Panic => False
        end
    | Panic => False
    end.
Proof.
  exists [], [OPut 1%N 5%N; OUpdate], 1%N. split; [cbn; auto|].
  vm_compute. discriminate.
Qed.

(** the same trace without the Update restores the account (instance; the general theorems
    are in BufProofs / below) *)
Example revert_restores_without_update_example :
  match run (sdb_new [] [] []) [OSnap] with
  | Ok d0 => match run d0 [OPut 1%N 5%N; ORollback 0] with
             | Ok d1 => get_state d0 1%N = get_state d1 1%N
             | Panic => False
             end
  | Panic => False
  end.
Proof. vm_compute. reflexivity. Qed.

(** A handle opened inside a span that is later reverted still points to the dropped storage
    object; using it after the revert and staging it publishes the reverted write again.  The
    block-level theorems therefore need the discipline "handles of a reverted span are not used
    afterwards" (the node's executor opens its handles per transaction, after the snapshot, and
    drops them with the transaction). *)
Theorem held_handle_resurrects_reverted_write :
  let ops := [OSnap; OOpen 7; OSet 0 1 5; OStage 0; OOpen 7; ORollback 0; OSet 1 2 9; OStage 1]%N in
  match run (sdb_new [] [] []) ops with
  | Ok d => match alookup 7%N (d_cache d) with
            | Some o => get_data d o 1%N = Ok (Some 5%N)      (* the write of key 1 was reverted *)
            | None => False
            end
  | Panic => False
  end.
Proof. vm_compute. reflexivity. Qed.

(** AccountState.PutState stores the handle's newState pointer: from then on Add/SubBalance
    through the handle writes into the buffered entry without another PutState, and a revert
    to a snapshot taken in between does not undo it (known finding C12:mutate-after-put; the
    executor puts a handle once, at the end of the transaction). *)
Theorem mutate_after_put_not_reverted :
  match run (sdb_new [] [] []) [OAGet 1; OAAdd 0 5; OAPut 0; OSnap]%N with
  | Ok d0 => match run d0 [OAAdd 0 3; ORollback 0]%N with
             | Ok d1 => get_state d0 1%N = Ok (Some (fl_set fl0 FBal 5, [])) /\ get_state d1 1%N = Ok (Some (fl_set fl0 FBal 8, []))
             | Panic => False
             end
  | Panic => False
  end.
Proof. vm_compute. split; reflexivity. Qed.

(** State.Clone copies every field except SourceHash, and GetAccountState / Reset hand out
    Clones: fetching an AccountState for a deployed contract and putting it back unmodified
    loses the source hash recorded by SetCode (known finding C12:clone-drops-sourcehash). *)
Theorem clone_drops_source_hash :
  match run (sdb_new [] [] []) [OAGet 7; OOpenAs 0; OSetCode 0 1 2; OAPut 0]%N with
  | Ok d0 => match run d0 [OAGet 7; OAPut 1]%N with
             | Ok d1 => get_state d0 7%N = Ok (Some (mk_fl 0 0 1 0 2, [])) /\
                        get_state d1 7%N = Ok (Some (mk_fl 0 0 1 0 0, []))
             | Panic => False
             end
  | Panic => False
  end.
Proof. vm_compute. split; reflexivity. Qed.

(** SetRawKV (and the bytecode SetCode stores through it) goes to the store at once: it is
    not part of any snapshot and survives a revert.  Keys are content hashes for code, so this
    is harmless residue; for caller-chosen keys it is the documented contract of the call. *)
Theorem raw_kv_survives_revert :
  match run (sdb_new [] [] []) [OSnap; OOpen 7; ORawSet 0 1 5; ORollback 0; OClear; OOpen 7; ORawGet 0 1]%N with
  | Ok d => x_last (d_x d) = [1; 5]%N
  | Panic => False
  end.
Proof. vm_compute. reflexivity. Qed.

(** SetCode through a handle opened with OpenContractStateAccount on a buffered account writes
    CodeHash into the buffered entry in place (the handle embeds the buffered pointer): visible
    without PutState and not undone by a revert.  The executor opens the contract state on the
    AccountState's own newState instead (OOpenAs), for which C12_caller_side_invisible holds. *)
Theorem set_code_through_buffered_state_not_reverted :
  match run (sdb_new [] [] []) [OPut 7 3; OSnap; OOpen 7; OSetCode 0 4 0; ORollback 0]%N with
  | Ok d => get_state d 7%N = Ok (Some (mk_fl 3 0 4 0 0, []))
  | Panic => False
  end.
Proof. vm_compute. reflexivity. Qed.

(** HasKey answers true for a key whose latest buffered write is a delete (Buffer.has looks at
    the index only). *)
Example has_key_true_for_buffered_delete :
  match run (sdb_new [] [] []) [OOpen 7; ODel 0 1]%N with
  | Ok d => match nth_error (d_heap d) 0 with
            | Some st => has_key st 1%N = true /\ get_data d 0 1%N = Ok None
            | None => False
            end
  | Panic => False
  end.
Proof. vm_compute. split; reflexivity. Qed.

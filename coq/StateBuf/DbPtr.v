(** Pointer ids are fresh: every *types.State object referenced by a buffer entry or a handle
    was allocated before [d_nptr].  This discharges the hypothesis of [fresh_handle_unused]:
    in every reachable state a newly fetched AccountState can be mutated freely until PutState. *)
From Coq Require Import NArith List Bool Arith Lia.
From Verif Require Import StateBuf.Model StateBuf.BufProofs StateBuf.Db StateBuf.DbProofs StateBuf.DbRevert StateBuf.DbSafe.
Import ListNotations.

Definition pbound (d : sdb) : Prop :=
  (forall e, In e (entries (d_buf d)) -> a_ptr (snd e) < d_nptr d) /\
  (forall ah, In ah (d_ah d) -> ah_ptr ah < d_nptr d) /\
  (forall hs p, In hs (x_hst (d_x d)) -> hs_ptr hs = Some p -> p < d_nptr d).

Lemma in_list_set {A} (l : list A) : forall i a x, In x (list_set l i a) -> x = a \/ In x l.
Proof. induction l as [|y tl IH]; intros [|i] a x H; cbn in *; auto; destruct H as [H|H]; auto. apply IH in H. tauto. Qed.

Lemma sb_rollback_entries {V} (b b' : sbuf V) r : sb_rollback b r = Ok b' -> entries b' = firstn r (entries b).
Proof.
  unfold sb_rollback. destruct (Nat.ltb _ _); [discriminate|]. destruct (Nat.ltb _ _); [discriminate|].
  intros H. apply bind_ok in H. destruct H as (idx & _ & H). inversion H; subst. reflexivity.
Qed.
Lemma in_firstn' {A} (l : list A) : forall n x, In x (firstn n l) -> In x l.
Proof. induction l as [|y tl IH]; intros [|n] x H; cbn in *; auto; try tauto. destruct H; eauto. Qed.

Lemma poke_buf_ptrs p g b e : In e (entries (poke_buf p g b)) -> exists e0, In e0 (entries b) /\ a_ptr (snd e) = a_ptr (snd e0).
Proof.
  unfold poke_buf. cbn. intros H. apply in_map_iff in H. destruct H as (e0 & <- & Hin). exists e0. split; auto.
  destruct (Nat.eqb_spec (a_ptr (snd e0)) p); cbn; auto.
Qed.
Lemma poke_ah_ptrs p g l ah : In ah (poke_ah p g l) -> exists a0, In a0 l /\ ah_ptr ah = ah_ptr a0.
Proof. unfold poke_ah. intros H. apply in_map_iff in H. destruct H as (a0 & <- & Hin). exists a0. auto. Qed.
Lemma poke_hst_ptrs p g l hs : In hs (poke_hst p g l) -> exists h0, In h0 l /\ hs_ptr hs = hs_ptr h0.
Proof.
  unfold poke_hst. intros H. apply in_map_iff in H. destruct H as (h0 & <- & Hin). exists h0. split; auto.
  destruct (hs_ptr h0) as [q|] eqn:E; auto. destruct (Nat.eqb q p); cbn; auto.
Qed.

Lemma pbound_poke d p g : pbound d -> pbound (poke d p g).
Proof.
  intros (B1 & B2 & B3). unfold poke. split; [|split]; cbn.
  - intros e H. apply poke_buf_ptrs in H. destruct H as (e0 & H0 & ->). auto.
  - intros ah H. apply poke_ah_ptrs in H. destruct H as (a0 & H0 & ->). auto.
  - intros hs q H Hq. apply poke_hst_ptrs in H. destruct H as (h0 & H0 & E). rewrite E in Hq. eauto.
Qed.

(** states that agree on what [pbound] reads *)
Lemma pbound_fields d d' : pbound d -> entries (d_buf d') = entries (d_buf d) -> d_ah d' = d_ah d ->
  x_hst (d_x d') = x_hst (d_x d) -> d_nptr d' = d_nptr d -> pbound d'.
Proof. intros H E1 E2 E3 E4. unfold pbound in *. now rewrite E1, E2, E3, E4. Qed.
Lemma pbound_mono d d' : pbound d -> (forall e, In e (entries (d_buf d')) -> In e (entries (d_buf d))) ->
  (forall a, In a (d_ah d') -> In a (d_ah d)) -> (forall h, In h (x_hst (d_x d')) -> In h (x_hst (d_x d))) ->
  d_nptr d <= d_nptr d' -> pbound d'.
Proof.
  intros (B1 & B2 & B3) E1 E2 E3 E4. split; [|split].
  - intros e H. specialize (B1 e (E1 e H)). lia.
  - intros a H. specialize (B2 a (E2 a H)). lia.
  - intros h q H Hq. specialize (B3 h q (E3 h H) Hq). lia.
Qed.

Lemma pbound_put d a v : pbound d -> a_ptr v < d_nptr d -> pbound (set_buf d (sb_put (d_buf d) (a, v))).
Proof.
  intros (B1 & B2 & B3) Hv. split; [|split]; cbn; auto.
  intros e H. apply in_app_or in H. destruct H as [H|[<-|[]]]; auto.
Qed.

Lemma cache_rollback_frame snap cl : forall d d', cache_rollback d snap cl = Ok d' ->
  d_buf d' = d_buf d /\ d_nptr d' = d_nptr d /\ d_x d' = d_x d.
Proof.
  induction cl as [|[c o] tl IH]; intros d d' H; cbn [cache_rollback] in H.
  - inversion H; subst. auto.
  - destruct (alookup c snap).
    + apply bind_ok in H. destruct H as (d1 & H1 & H). apply IH in H.
      destruct (heap_rollback_spec _ _ _ _ H1) as (st & b & _ & _ & ->). cbn in H. exact H.
    + apply IH in H. cbn in H. exact H.
Qed.

Lemma update_one_pbound d c o d' : pbound d -> update_one d c o = Ok d' -> pbound d'.
Proof.
  intros PB H. unfold update_one in H. apply bind_ok in H. destruct H as (st & _ & H).
  apply bind_ok in H. destruct H as (ex & _ & H).
  set (d1 := set_heap d _) in H.
  assert (PB1 : pbound d1) by (eapply pbound_fields; [exact PB|..]; reflexivity).
  destruct (s_dirty st || _); [|inversion H; subst; exact PB1].
  apply bind_ok in H. destruct H as (cur & Hc & H).
  destruct cur as [[[p|] [f r]]|]; inversion H; subst; clear H.
  - (* buffered pointer: p is the pointer of a buffered entry *)
    assert (Hp : p < d_nptr d1).
    { unfold get_state_ptr in Hc. apply bind_ok in Hc. destruct Hc as (r0 & Hg & Hc).
      destruct r0 as [e|]; [|destruct (trie_state d1 c); inversion Hc].
      inversion Hc; subst. unfold sb_get in Hg. destruct (alookup c (index (d_buf d1))); [|discriminate].
      destruct (peek l); [|discriminate]. destruct (nth_error (entries (d_buf d1)) n) eqn:E; [|discriminate].
      inversion Hg; subst. apply (proj1 PB1). eapply nth_error_In; eauto. }
    apply pbound_put; [apply pbound_poke; exact PB1|exact Hp].
  - destruct PB1 as (B1 & B2 & B3). subst d1. split; [|split]; cbn in *.
    + intros e H. apply in_app_or in H. destruct H as [H|[<-|[]]]; [apply B1 in H; lia|cbn; lia].
    + intros a H. apply B2 in H. lia.
    + intros h q H Hq. specialize (B3 h q H Hq). lia.
  - destruct PB1 as (B1 & B2 & B3). subst d1. split; [|split]; cbn in *.
    + intros e H. apply in_app_or in H. destruct H as [H|[<-|[]]]; [apply B1 in H; lia|cbn; lia].
    + intros a H. apply B2 in H. lia.
    + intros h q H Hq. specialize (B3 h q H Hq). lia.
Qed.
Lemma update_storages_pbound cl : forall d d', pbound d -> update_storages d cl = Ok d' -> pbound d'.
Proof.
  induction cl as [|[c o] tl IH]; intros d d' PB H; cbn in H.
  - inversion H; subst. exact PB.
  - apply bind_ok in H. destruct H as (d1 & H1 & H). eapply IH; [|exact H]. eapply update_one_pbound; eauto.
Qed.
Lemma db_update_pbound d d' : pbound d -> db_update d = Ok d' -> pbound d'.
Proof.
  unfold db_update. intros PB H. apply bind_ok in H. destruct H as (d1 & H1 & H). apply bind_ok in H. destruct H as (ex & _ & H).
  inversion H; subst. eapply pbound_fields; [eapply update_storages_pbound; eauto|..]; reflexivity.
Qed.
Lemma commit_storages_frame cl : forall d d', commit_storages d cl = Ok d' ->
  d_buf d' = d_buf d /\ d_nptr d' = d_nptr d /\ d_x d' = d_x d.
Proof.
  induction cl as [|[c o] tl IH]; intros d d' H; cbn [commit_storages] in H.
  - inversion H; subst. auto.
  - apply bind_ok in H. destruct H as (st & _ & H). apply bind_ok in H. destruct H as (sg & _ & H).
    apply bind_ok in H. destruct H as (b & _ & H). apply IH in H. cbn in H. exact H.
Qed.
Lemma db_commit_pbound d d' : pbound d -> db_commit d = Ok d' -> pbound d'.
Proof.
  unfold db_commit. intros (B1 & B2 & B3) H. apply bind_ok in H. destruct H as (d1 & H1 & H).
  apply bind_ok in H. destruct H as (sg & _ & H). apply bind_ok in H. destruct H as (b & Hb & H).
  inversion H; subst. destruct (commit_storages_frame _ _ _ H1) as (E1 & E2 & E3).
  unfold sb_reset in Hb. apply sb_rollback_entries in Hb. split; [|split]; cbn.
  - intros e He. rewrite Hb in He. destruct He.
  - unfold d_ah in *. intros a Ha. unfold add_root in Ha. cbn in Ha. rewrite E3 in Ha. rewrite E2. auto.
  - intros h q Hh Hq. unfold add_root in Hh. cbn in Hh. rewrite E3 in Hh. rewrite E2. eauto.
Qed.
Lemma pbound_reopen d t : pbound (reopen_at d t).
Proof. split; [|split]; cbn; intros; contradiction. Qed.

Theorem pbound_step d o d' : pbound d -> step d o = Ok d' -> pbound d'.
Proof.
  intros PB H. pose proof PB as (B1 & B2 & B3).
  destruct o; cbn [step] in H.
  - (* OPut *) apply bind_ok in H. destruct H as (cur & _ & H). inversion H; subst.
    split; [|split]; cbn.
    + intros e He. apply in_app_or in He. destruct He as [He|[<-|[]]]; [apply B1 in He; lia|cbn; lia].
    + intros ah0 Ha. apply B2 in Ha. lia.
    + intros h0 q Hh Hq. specialize (B3 h0 q Hh Hq). lia.
  - (* OOpen *) apply bind_ok in H. destruct H as (cur & Hc & H).
    assert (G : forall r hs, (forall q, hs_ptr hs = Some q -> q < d_nptr d) -> pbound (open_handle d c r hs)).
    { intros r hs Hq. unfold open_handle. destruct (alookup c (d_cache d)); (split; [|split]; cbn; auto;
        intros h0 q Hh Hhq; apply in_app_or in Hh; destruct Hh as [Hh|[<-|[]]]; eauto). }
    destruct cur as [[p [f r]]|]; inversion H; subst; apply G; cbn; try discriminate.
    intros q Hq. subst p. unfold get_state_ptr in Hc. apply bind_ok in Hc. destruct Hc as (r0 & Hg & Hc).
    destruct r0 as [e|]; [|destruct (trie_state d c); inversion Hc].
    inversion Hc; subst. unfold sb_get in Hg. destruct (alookup c (index (d_buf d))); [|discriminate].
    destruct (peek l); [|discriminate]. destruct (nth_error (entries (d_buf d)) n) eqn:E; [|discriminate].
    inversion Hg; subst. apply B1. eapply nth_error_In; eauto.
  - (* OSet *) apply bind_ok in H. destruct H as (co & _ & H). unfold heap_put in H. apply bind_ok in H. destruct H as (st & _ & H).
    inversion H; subst. eapply pbound_fields; [exact PB|..]; reflexivity.
  - (* ODel *) apply bind_ok in H. destruct H as (co & _ & H). unfold heap_put in H. apply bind_ok in H. destruct H as (st & _ & H).
    inversion H; subst. eapply pbound_fields; [exact PB|..]; reflexivity.
  - (* OStage *) apply bind_ok in H. destruct H as (co & _ & H). inversion H; subst. eapply pbound_fields; [exact PB|..]; reflexivity.
  - (* OSnap *) apply bind_ok in H. destruct H as (s & _ & H). inversion H; subst. eapply pbound_fields; [exact PB|..]; reflexivity.
  - (* ORollback *) apply bind_ok in H. destruct H as (s & _ & H). unfold block_rollback in H.
    apply bind_ok in H. destruct H as (d1 & H1 & H). apply bind_ok in H. destruct H as (b & Hb & H). inversion H; subst.
    destruct (cache_rollback_frame _ _ _ _ H1) as (E1 & E2 & E3). apply sb_rollback_entries in Hb.
    eapply pbound_mono; [exact PB|..]; cbn.
    + intros e He. rewrite Hb, E1 in He. eapply in_firstn'; eauto.
    + unfold d_ah. cbn. rewrite E3. auto.
    + rewrite E3. auto.
    + lia.
  - (* OCSnap *) apply bind_ok in H. destruct H as (co & _ & H). apply bind_ok in H. destruct H as (st & _ & H). inversion H; subst.
    eapply pbound_fields; [exact PB|..]; reflexivity.
  - (* OCRollback *) apply bind_ok in H. destruct H as (hr & _ & H). apply bind_ok in H. destruct H as (co & _ & H).
    destruct (heap_rollback_spec _ _ _ _ H) as (st & b & _ & _ & ->). eapply pbound_fields; [exact PB|..]; reflexivity.
  - (* OUpdate *) eapply db_update_pbound; eauto.
  - (* OCommit *) eapply db_commit_pbound; eauto.
  - (* OReopen *) inversion H; subst. apply pbound_reopen.
  - (* OClear *) inversion H; subst. split; [|split]; cbn; auto; intros; contradiction.
  - (* OAGet *) apply bind_ok in H. destruct H as (cur & _ & H). inversion H; subst.
    split; [|split]; cbn.
    + intros e He. apply B1 in He. lia.
    + unfold d_ah. cbn. intros ah0 Ha. apply in_app_or in Ha. destruct Ha as [Ha|[<-|[]]]; [apply B2 in Ha; lia|].
      destruct cur as [[op [f r]]|]; cbn; lia.
    + intros h0 q Hh Hq. specialize (B3 h0 q Hh Hq). lia.
  - (* OAAdd *) apply bind_ok in H. destruct H as (ah & Ha & H). apply of_opt_ok in Ha. inversion H; subst.
    unfold ah_write. pose proof (pbound_poke d (ah_ptr ah) (fun c => (fl_set (ah_f ah) FBal (f_bal (ah_f ah) + v)%N, snd c)) PB) as (P1 & P2 & P3).
    split; [|split]; cbn; auto.
    unfold d_ah. cbn. intros ah0 Hin. apply in_list_set in Hin. destruct Hin as [->|Hin]; [cbn; apply B2; eapply nth_error_In; eauto|].
    apply P2. exact Hin.
  - (* OASub *) apply bind_ok in H. destruct H as (ah & Ha & H). apply of_opt_ok in Ha. inversion H; subst.
    unfold ah_write. match goal with |- context [poke d (ah_ptr ah) ?g] => pose proof (pbound_poke d (ah_ptr ah) g PB) as (P1 & P2 & P3) end.
    split; [|split]; cbn; auto.
    unfold d_ah. cbn. intros ah0 Hin. apply in_list_set in Hin. destruct Hin as [->|Hin]; [cbn; apply B2; eapply nth_error_In; eauto|].
    apply P2. exact Hin.
  - (* OAPut *) apply bind_ok in H. destruct H as (ah & Ha & H). apply of_opt_ok in Ha. inversion H; subst.
    apply pbound_put; auto. cbn. apply B2. eapply nth_error_In; eauto.
  - (* OAReset *) apply bind_ok in H. destruct H as (ah & Ha & H). inversion H; subst.
    split; [|split]; cbn.
    + intros e He. apply B1 in He. lia.
    + unfold d_ah. cbn. intros ah0 Hin. apply in_list_set in Hin. destruct Hin as [->|Hin]; [cbn; lia|]. apply B2 in Hin. lia.
    + intros h0 q Hh Hq. specialize (B3 h0 q Hh Hq). lia.
  - (* OACreate *) apply bind_ok in H. destruct H as (cur & _ & H). destruct cur; inversion H; subst; auto.
    split; [|split]; cbn.
    + intros e He. apply B1 in He. lia.
    + unfold d_ah. cbn. intros ah0 Ha. apply in_app_or in Ha. destruct Ha as [Ha|[<-|[]]]; [apply B2 in Ha; lia|cbn; lia].
    + intros h0 q Hh Hq. specialize (B3 h0 q Hh Hq). lia.
  - (* OASetF *) apply bind_ok in H. destruct H as (ah & Ha & H). apply of_opt_ok in Ha. inversion H; subst.
    unfold ah_write. match goal with |- context [poke d (ah_ptr ah) ?g] => pose proof (pbound_poke d (ah_ptr ah) g PB) as (P1 & P2 & P3) end.
    split; [|split]; cbn; auto.
    unfold d_ah. cbn. intros ah0 Hin. apply in_list_set in Hin. destruct Hin as [->|Hin]; [cbn; apply B2; eapply nth_error_In; eauto|].
    apply P2. exact Hin.
  - (* OOpenAs *) apply bind_ok in H. destruct H as (ah & Ha & H). apply of_opt_ok in Ha. inversion H; subst.
    unfold open_handle. destruct (alookup (ah_aid ah) (d_cache d)); (split; [|split]; cbn; auto;
      intros h0 q Hh Hhq; apply in_app_or in Hh; destruct Hh as [Hh|[<-|[]]]; eauto;
      cbn in Hhq; inversion Hhq; subst; apply B2; eapply nth_error_In; eauto).
  - (* OSetCode *) apply bind_ok in H. destruct H as (hs & Hh & H). apply of_opt_ok in Hh. inversion H; subst.
    assert (PB1 : pbound (match hs_ptr hs with Some p => poke d p (fun cc : acontent =>
               (if (s =? 0)%N then fl_set (fst cc) FCode c else fl_set (fl_set (fst cc) FCode c) FSrc s, snd cc)) | None => d end)).
    { destruct (hs_ptr hs); [apply pbound_poke|]; exact PB. }
    destruct PB1 as (P1 & P2 & P3). split; [|split]; cbn; auto.
    intros h0 q Hin Hq. apply in_list_set in Hin. destruct Hin as [->|Hin]; [|eapply P3; eauto].
    cbn in Hq. assert (Hlt : q < d_nptr d) by (eapply B3; [eapply nth_error_In; eauto|exact Hq]).
    destruct (hs_ptr hs); exact Hlt.
  - (* OGetCode *) apply bind_ok in H. destruct H as (hs & Hh & H). apply of_opt_ok in Hh.
    destruct (hs_code hs); [inversion H; subst; eapply pbound_fields; [exact PB|..]; reflexivity|].
    destruct (f_code (hs_f hs) =? 0)%N; [inversion H; subst; eapply pbound_fields; [exact PB|..]; reflexivity|].
    destruct (existsb _ _); inversion H; subst; [|eapply pbound_fields; [exact PB|..]; reflexivity].
    split; [|split]; cbn; auto. intros h0 q Hin Hq. apply in_list_set in Hin. destruct Hin as [->|Hin]; [|eauto].
    cbn in Hq. eapply B3; [eapply nth_error_In; eauto|exact Hq].
  - (* ORawSet *) apply bind_ok in H. destruct H as (hs & _ & H). inversion H; subst. eapply pbound_fields; [exact PB|..]; reflexivity.
  - (* ORawGet *) apply bind_ok in H. destruct H as (hs & _ & H). inversion H; subst. eapply pbound_fields; [exact PB|..]; reflexivity.
  - (* OSSnap *) inversion H; subst. eapply pbound_fields; [exact PB|..]; reflexivity.
  - (* OSRollback *) apply bind_ok in H. destruct H as (rev & _ & H). apply bind_ok in H. destruct H as (b & Hb & H). inversion H; subst.
    apply sb_rollback_entries in Hb. eapply pbound_mono; [exact PB|..]; cbn; auto.
    intros e He. rewrite Hb in He. eapply in_firstn'; eauto.
  - (* OSetRoot *) apply bind_ok in H. destruct H as (t & _ & H). apply bind_ok in H. destruct H as (b & Hb & H). inversion H; subst.
    unfold sb_reset in Hb. apply sb_rollback_entries in Hb. eapply pbound_mono; [exact PB|..]; cbn; auto.
    intros e He. rewrite Hb in He. destruct He.
  - (* OReopenAt *) apply bind_ok in H. destruct H as (t & _ & H). inversion H; subst. apply pbound_reopen.
  - (* OApply *) apply bind_ok in H. destruct H as (d1 & _ & H). apply bind_ok in H. destruct H as (d2 & _ & H). inversion H; subst.
    apply pbound_reopen.
Qed.

Theorem pbound_run ops : forall d d', pbound d -> run d ops = Ok d' -> pbound d'.
Proof.
  induction ops as [|o tl IH]; intros d d' PB H; cbn in H.
  - now inversion H; subst.
  - destruct (step d o) as [d1|] eqn:E; cbn in H; [|discriminate]. apply (IH d1 d'); [eapply pbound_step; eauto|exact H].
Qed.
Lemma pbound_new t sa sv : pbound (sdb_new t sa sv).
Proof. split; [|split]; cbn; intros; contradiction. Qed.

(** In every state reachable from a fresh StateDB by any operations, an AccountState fetched
    now can be modified through all its setters without any effect on the block state until it
    is put: the handle is a copy. *)
Theorem fresh_handle_mutation_invisible t sa sv ops d a d1 o d2 :
  run (sdb_new t sa sv) ops = Ok d -> step d (OAGet a) = Ok d1 ->
  (exists v, o = OAAdd (length (d_ah d)) v \/ o = OASub (length (d_ah d)) v \/ exists x, o = OASetF (length (d_ah d)) x v) ->
  step d1 o = Ok d2 ->
  d_buf d2 = d_buf d /\ d_cache d2 = d_cache d /\ d_heap d2 = d_heap d /\
  d_trie d2 = d_trie d /\ d_store_a d2 = d_store_a d /\ d_store_v d2 = d_store_v d /\
  (forall b, get_state d2 b = get_state d b).
Proof.
  intros Hr Hg Ho Hs.
  pose proof (pbound_run ops _ _ (pbound_new t sa sv) Hr) as (B1 & _).
  destruct (fresh_handle_unused d a d1 B1 Hg) as (ah & Hn & Hu & Hb).
  destruct (handle_mutation_invisible d1 _ ah o d2 Ho Hn Hu Hs) as (E1 & E2 & E3 & E4 & E5 & E6 & E7 & E8).
  cbn [step] in Hg. apply bind_ok in Hg. destruct Hg as (cur & _ & Hg). inversion Hg; subst d1. cbn in *.
  repeat split; auto.
Qed.

(** Block-level revert: BlockState.Rollback(BlockState.Snapshot()) restores the account
    buffer and every staged storage, whatever disciplined operations happened in between
    (StateBuf/Db.v). *)
From Coq Require Import NArith List Bool Arith Lia Permutation.
From Verif Require Import StateBuf.Model StateBuf.BufProofs StateBuf.Db StateBuf.DbProofs.
Import ListNotations.

(** ---- small list facts ---- *)
Lemma nth_list_set_eq {A} (l : list A) : forall i a x, nth_error l i = Some x -> nth_error (list_set l i a) i = Some a.
Proof. induction l as [|y tl IH]; intros [|i] a x H; cbn in *; try discriminate; auto. eapply IH; eauto. Qed.
Lemma nth_list_set_neq {A} (l : list A) : forall i j a, j <> i -> nth_error (list_set l i a) j = nth_error l j.
Proof. induction l as [|y tl IH]; intros [|i] [|j] a H; cbn; auto; try congruence; try (apply IH; lia). Qed.
Lemma length_list_set {A} (l : list A) : forall i a, length (list_set l i a) = length l.
Proof. induction l as [|x tl IH]; intros [|i] a; cbn; auto. Qed.

Lemma of_opt_ok {A} (o : option A) a : of_opt o = Ok a -> o = Some a.
Proof. destruct o; cbn; congruence. Qed.

(** ---- the state at snapshot time and what "restored" means ---- *)
Definition obj (d : sdb) (o : nat) : option storage := nth_error (d_heap d) o.

(** same log (hence same reads, export, stage), same trie, same dirty flag *)
Definition same_storage (st st0 : storage) : Prop :=
  wf (s_buf st) /\ entries (s_buf st) = entries (s_buf st0) /\ s_trie st = s_trie st0 /\ s_dirty st = s_dirty st0.
(** [st] extends [st0]: the log of snapshot time is a prefix *)
Definition ext_storage (st st0 : storage) : Prop :=
  wf (s_buf st) /\ (exists ext, entries (s_buf st) = entries (s_buf st0) ++ ext) /\
  s_trie st = s_trie st0 /\ s_dirty st = s_dirty st0.

Definition frame_eq (d d0 : sdb) : Prop :=
  d_trie d = d_trie d0 /\ d_store_a d = d_store_a d0 /\ d_store_v d = d_store_v d0.

(** well-formed block state: account buffer and every cached storage satisfy the index
    invariant, cached objects exist, no two contracts share an object *)
Definition dwf (d : sdb) : Prop :=
  wf (d_buf d) /\ NoDup (map fst (d_cache d)) /\
  (forall o st, obj d o = Some st -> wf (s_buf st)) /\
  (exists own : nat -> key,
     (forall c o, alookup c (d_cache d) = Some o -> own o = c /\ o < length (d_heap d)) /\
     (forall h c o, nth_error (d_handles d) h = Some (mk_handle c (Some o)) -> own o = c /\ o < length (d_heap d))).

Lemma dwf_cached d c o : dwf d -> alookup c (d_cache d) = Some o -> exists st, obj d o = Some st /\ wf (s_buf st).
Proof.
  intros (_ & _ & Hw & own & Hc & _) H. destruct (Hc c o H) as [_ Hlt].
  unfold obj in *. destruct (nth_error (d_heap d) o) as [st|] eqn:E.
  - exists st. split; auto. now apply (Hw o).
  - apply nth_error_None in E. lia.
Qed.

(** [Ext d0 d]: [d] is reachable from the snapshot state [d0] by disciplined operations *)
Definition Ext (d0 d : sdb) : Prop :=
  dwf d /\
  (exists ext, entries (d_buf d) = entries (d_buf d0) ++ ext) /\
  (forall c o, alookup c (d_cache d0) = Some o -> alookup c (d_cache d) = Some o) /\
  (forall c o st0, alookup c (d_cache d0) = Some o -> obj d0 o = Some st0 ->
     exists st, obj d o = Some st /\ ext_storage st st0) /\
  frame_eq d d0.

Definition Restored (d0 d : sdb) : Prop :=
  wf (d_buf d) /\ entries (d_buf d) = entries (d_buf d0) /\
  (forall c, alookup c (d_cache d) = alookup c (d_cache d0)) /\
  (forall c o st0, alookup c (d_cache d0) = Some o -> obj d0 o = Some st0 ->
     exists st, obj d o = Some st /\ same_storage st st0) /\
  frame_eq d d0.

Lemma ext_refl d0 : dwf d0 -> Ext d0 d0.
Proof.
  intros W. split; auto. split; [exists []; now rewrite app_nil_r|]. split; auto. split.
  - intros c o st0 Hc Ho. exists st0. split; auto.
    destruct (dwf_cached d0 c o W Hc) as (st & Hs & Hw). unfold obj in *. rewrite Ho in Hs. inversion Hs; subst.
    split; [exact Hw|]. split; [exists []; now rewrite app_nil_r|]. split; reflexivity.
  - repeat split.
Qed.

(** ---- the discipline ---- *)
(** snapshot [s1] was taken at or after [s0] *)
Definition dominates (s0 s1 : bsnap) : Prop :=
  bs_state s0 <= bs_state s1 /\
  forall c r0, alookup c (bs_storage s0) = Some r0 -> exists r1, alookup c (bs_storage s1) = Some r1 /\ r0 <= r1.

(** no buffered entry holds the object [p] (a handle's newState before its first PutState) *)
Definition ptr_unused (d : sdb) (p : nat) : Prop :=
  forall e, In e (entries (d_buf d)) -> a_ptr (snd e) <> p.

Lemma poke_buf_unused p g (b : sbuf aval) :
  (forall e, In e (entries b) -> a_ptr (snd e) <> p) -> poke_buf p g b = b.
Proof.
  intros H. destruct b as [ents idx n]. unfold poke_buf. cbn in *. f_equal.
  rewrite <- (map_id ents) at 2. apply map_ext_in. intros e Hin.
  destruct (Nat.eqb_spec (a_ptr (snd e)) p); auto. exfalso. eapply H; eauto.
Qed.

Definition ok_op (d0 : sdb) (s0 : bsnap) (d : sdb) (o : op) : Prop :=
  match o with
  | OAAdd h _ | OASub h _ | OASetF h _ _ => forall ah, nth_error (d_ah d) h = Some ah -> ptr_unused d (ah_ptr ah)
  | OSetCode h _ _ => forall hs p, nth_error (x_hst (d_x d)) h = Some hs -> hs_ptr hs = Some p -> ptr_unused d p
  | OSRollback j => forall rev, nth_error (x_ssnaps (d_x d)) j = Some rev -> bs_state s0 <= rev
  | OSetRoot _ | OReopenAt _ | OApply => False
  | OStage h => forall c ob, live_obj d h = Ok (c, ob) -> forall o0, alookup c (d_cache d0) = Some o0 -> ob = o0
  | OCRollback j =>
      forall h rev c ob, nth_error (d_csnaps d) j = Some (h, rev) -> live_obj d h = Ok (c, ob) ->
      forall c0 st0, alookup c0 (d_cache d0) = Some ob -> obj d0 ob = Some st0 -> next_idx (s_buf st0) <= rev
  | ORollback i => forall s1, nth_error (d_snaps d) i = Some s1 -> dominates s0 s1
  | OUpdate | OCommit | OReopen => False
  | _ => True
  end.

Fixpoint run_ok (d0 : sdb) (s0 : bsnap) (d : sdb) (ops : list op) : Prop :=
  match ops with
  | [] => True
  | o :: tl => ok_op d0 s0 d o /\ match step d o with Ok d' => run_ok d0 s0 d' tl | Panic => True end
  end.

(** ---- cache snapshot facts ---- *)
Lemma cache_snapshot_spec heap c s : cache_snapshot heap c = Ok s ->
  map fst s = map fst c /\
  forall cid o, In (cid, o) c -> exists st, nth_error heap o = Some st /\ In (cid, next_idx (s_buf st)) s.
Proof.
  revert s. induction c as [|[cid o] tl IH]; intros s H; cbn in H.
  - inversion H; subst. split; auto. intros ? ? [].
  - apply bind_ok in H. destruct H as (st & H1 & H). apply of_opt_ok in H1.
    apply bind_ok in H. destruct H as (r & H2 & H). inversion H; subst.
    destruct (IH r H2) as [A B]. split; [cbn; congruence|].
    intros cid' o' [E|Hin].
    + inversion E; subst. exists st. split; auto. now left.
    + destruct (B cid' o' Hin) as (st' & ? & ?). exists st'. split; auto. now right.
Qed.

Lemma snapshot_lookup d0 s0 : dwf d0 -> block_snapshot d0 = Ok s0 ->
  bs_state s0 = next_idx (d_buf d0) /\
  (forall c, alookup c (bs_storage s0) = None <-> alookup c (d_cache d0) = None) /\
  (forall c r, alookup c (bs_storage s0) = Some r ->
     exists o st0, alookup c (d_cache d0) = Some o /\ obj d0 o = Some st0 /\ r = next_idx (s_buf st0)).
Proof.
  intros (Wb & Hnd & Hobj & _) H. unfold block_snapshot in H.
  apply bind_ok in H. destruct H as (cs & H1 & H). inversion H; subst. cbn.
  destruct (cache_snapshot_spec _ _ _ H1) as [A B]. split; auto. split.
  - intros c. rewrite !alookup_none_notin. now rewrite A.
  - intros c r Hr. apply alookup_in in Hr.
    assert (Hk : In c (map fst (d_cache d0))). { rewrite <- A. change c with (fst (c, r)). now apply in_map. }
    apply in_map_iff in Hk. destruct Hk as ([c' o] & E & Hin). cbn in E. subst c'.
    destruct (B c o Hin) as (st & Hs & Hin').
    exists o, st. split; [now apply in_alookup|]. split; auto.
    assert (Hnd' : NoDup (map fst cs)) by now rewrite A.
    apply (in_alookup _ _ _ Hnd') in Hr. apply (in_alookup _ _ _ Hnd') in Hin'. congruence.
Qed.

(** ---- heap_rollback ---- *)
Lemma heap_rollback_spec d o rev d' : heap_rollback d o rev = Ok d' ->
  exists st b, obj d o = Some st /\ sb_rollback (s_buf st) rev = Ok b /\
    d' = set_heap d (list_set (d_heap d) o (mk_storage b (s_trie st) (s_dirty st))).
Proof.
  unfold heap_rollback. intros H. apply bind_ok in H. destruct H as (st & H1 & H). apply of_opt_ok in H1.
  apply bind_ok in H. destruct H as (b & H2 & H). inversion H; subst. eauto.
Qed.

Lemma sb_rollback_inv {V} (b b' : sbuf V) r : wf b -> sb_rollback b r = Ok b' ->
  r <= next_idx b /\ wf b' /\ entries b' = firstn r (entries b) /\ next_idx b' = r.
Proof.
  intros W H. assert (Hle : r <= next_idx b).
  { unfold sb_rollback in H. destruct (Nat.ltb_spec (next_idx b) r); [discriminate|lia]. }
  destruct (rollback_ok b r W Hle) as (b2 & R1 & R2 & R3 & R4). rewrite H in R1. inversion R1; subst. auto.
Qed.

Lemma firstn_app_prefix {A} (l ext : list A) r : length l <= r -> firstn r (l ++ ext) = l ++ firstn (r - length l) ext.
Proof. intros H. rewrite firstn_app. now rewrite firstn_all2 by lia. Qed.

(** ---- storageCache.Rollback to the snapshot of d0: exists and restores ---- *)
Section Final.
  Variables (d0 : sdb) (s0 : bsnap).
  Hypothesis W0 : dwf d0.
  Hypothesis S0 : block_snapshot d0 = Ok s0.

  (** loop invariant: cached objects of d0 are still cached and extend their d0 logs *)
  Definition J (d : sdb) : Prop :=
    (forall c o, alookup c (d_cache d0) = Some o -> alookup c (d_cache d) = Some o) /\
    (forall c o st0, alookup c (d_cache d0) = Some o -> obj d0 o = Some st0 ->
       exists st, obj d o = Some st /\ ext_storage st st0).

  Lemma wf0_len c o st0 : alookup c (d_cache d0) = Some o -> obj d0 o = Some st0 ->
    next_idx (s_buf st0) = length (entries (s_buf st0)).
  Proof.
    intros Hc Ho. destruct (dwf_cached d0 c o W0 Hc) as (st & Hs & Hw).
    rewrite Ho in Hs. inversion Hs; subst. apply Hw.
  Qed.

  Lemma final_loop cl : forall d,
    J d ->
    (forall c o, In (c, o) cl -> forall o0, alookup c (d_cache d0) = Some o0 -> o = o0) ->
    exists d', cache_rollback d (bs_storage s0) cl = Ok d' /\ J d' /\
      d_buf d' = d_buf d /\ frame_eq d' d /\ d_handles d' = d_handles d /\
      (forall c, In c (map fst cl) -> alookup c (d_cache d0) = None -> alookup c (d_cache d') = None) /\
      (forall c, ~ In c (map fst cl) -> alookup c (d_cache d') = alookup c (d_cache d)) /\
      (forall c o st0, In c (map fst cl) -> alookup c (d_cache d0) = Some o -> obj d0 o = Some st0 ->
         exists st, obj d' o = Some st /\ same_storage st st0) /\
      (forall c o st0 st, alookup c (d_cache d0) = Some o -> obj d0 o = Some st0 ->
         obj d o = Some st -> same_storage st st0 -> exists st', obj d' o = Some st' /\ same_storage st' st0).
  Proof.
    destruct (snapshot_lookup d0 s0 W0 S0) as (_ & SN & SS).
    induction cl as [|[cid ob] tl IH]; intros d HJ Hcl; cbn [cache_rollback].
    - exists d. split; [reflexivity|]. split; [exact HJ|]. split; [reflexivity|]. split; [repeat split|].
      split; [reflexivity|]. split; [intros c []|]. split; [reflexivity|]. split; [intros c o st0 []|].
      intros c o st0 st _ _ Ho Hs. eauto.
    - destruct (alookup cid (bs_storage s0)) as [rev|] eqn:Es.
      + (* in the snapshot: roll the object back *)
        destruct (SS cid rev Es) as (o0 & st0 & Hc0 & Ho0 & Hrev).
        assert (ob = o0) by (apply (Hcl cid ob (or_introl eq_refl) o0 Hc0)). subst ob.
        destruct HJ as [J1 J2]. destruct (J2 cid o0 st0 Hc0 Ho0) as (st & Hst & Wst & (ext & Hext) & Ht & Hd).
        assert (Hlen0 := wf0_len cid o0 st0 Hc0 Ho0).
        assert (Hle : rev <= next_idx (s_buf st)).
        { destruct Wst as [Hn _]. rewrite Hn, Hext, app_length. lia. }
        destruct (rollback_ok (s_buf st) rev Wst Hle) as (b & R1 & R2 & R3 & R4).
        unfold heap_rollback. unfold obj in Hst. rewrite Hst. cbn. rewrite R1. cbn.
        set (st1 := mk_storage b (s_trie st) (s_dirty st)).
        set (d1 := set_heap d (list_set (d_heap d) o0 st1)).
        assert (Hst1 : same_storage st1 st0).
        { repeat split; auto; try apply R2. cbn. rewrite R3, Hext, Hrev, Hlen0.
          rewrite firstn_app, Nat.sub_diag, firstn_all. cbn. now rewrite app_nil_r. }
        assert (Hobj1 : forall o, obj d1 o = if Nat.eqb o o0 then Some st1 else obj d o).
        { intros o. unfold obj, d1. cbn. destruct (Nat.eqb_spec o o0).
          - subst o. eapply nth_list_set_eq; eauto.
          - now apply nth_list_set_neq. }
        assert (HJ1 : J d1).
        { split; [exact J1|]. intros c o st0' Hc Ho. rewrite Hobj1. destruct (Nat.eqb_spec o o0).
          - subst o. rewrite Ho0 in Ho. inversion Ho; subst st0'. exists st1. split; auto.
            destruct Hst1 as (A & B & C & D). split; [exact A|]. split; [exists []; now rewrite app_nil_r|]. split; assumption.
          - apply (J2 c o st0' Hc Ho). }
        destruct (IH d1 HJ1) as (d' & E1 & E2 & E3 & E4 & E5 & K1 & K2 & K3 & K4).
        { intros c o Hin. apply Hcl. now right. }
        exists d'. split; auto. split; auto. split; [rewrite E3; reflexivity|]. split; [exact E4|]. split; [exact E5|].
        split; [|split; [|split]].
        * intros c [Hc|Hc] Hn; [cbn in Hc; subst; congruence|]. now apply K1.
        * intros c Hn. rewrite K2; [reflexivity|]. intros Hin. apply Hn. now right.
        * intros c o st0' [Hc|Hc] Hc0' Ho0'.
          -- cbn in Hc. subst c. rewrite Hc0 in Hc0'. inversion Hc0'; subst o. rewrite Ho0 in Ho0'. inversion Ho0'; subst st0'.
             apply (K4 cid o0 st0 st1 Hc0 Ho0); auto. rewrite Hobj1. now rewrite Nat.eqb_refl.
          -- now apply (K3 c o st0').
        * intros c o st0' st' Hc Ho Hs Hsame. apply (K4 c o st0' (if Nat.eqb o o0 then st1 else st')); auto.
          -- rewrite Hobj1. destruct (Nat.eqb o o0); auto.
          -- destruct (Nat.eqb_spec o o0); auto. subst o. rewrite Ho0 in Ho. inversion Ho; subst. exact Hst1.
      + (* staged after the snapshot: dropped *)
        assert (Hn0 : alookup cid (d_cache d0) = None) by now apply SN.
        set (d1 := set_cache d (aremove cid (d_cache d))).
        assert (HJ1 : J d1).
        { destruct HJ as [J1 J2]. split.
          - intros c o Hc. cbn. rewrite alookup_aremove_neq; [now apply J1|]. intros ->. congruence.
          - intros c o st0 Hc Ho. apply (J2 c o st0 Hc Ho). }
        destruct (IH d1 HJ1) as (d' & E1 & E2 & E3 & E4 & E5 & K1 & K2 & K3 & K4).
        { intros c o Hin. apply Hcl. now right. }
        exists d'. split; auto. split; auto. split; [rewrite E3; reflexivity|]. split; [exact E4|]. split; [exact E5|].
        split; [|split; [|split]].
        * intros c [Hc|Hc] Hn; [|now apply K1]. cbn in Hc. subst c.
          destruct (in_dec N.eq_dec cid (map fst tl)) as [Hin|Hnin]; [now apply K1|].
          rewrite K2 by auto. cbn. apply alookup_aremove_eq.
        * intros c Hn. rewrite K2; [|intros Hin; apply Hn; now right]. cbn.
          apply alookup_aremove_neq. intros ->. apply Hn. now left.
        * intros c o st0' [Hc|Hc] Hc0' Ho0'; [cbn in Hc; subst; congruence|]. now apply (K3 c o st0').
        * intros c o st0' st' Hc Ho Hs Hsame. apply (K4 c o st0' st'); auto.
  Qed.

  (** BlockState.Rollback to the snapshot of d0 succeeds on every extension of d0 and restores
      the account log, the cache (as a map) and the log, trie and dirty flag of every storage
      that was staged at snapshot time *)
  Theorem block_revert_restores d : Ext d0 d -> exists d', block_rollback d s0 = Ok d' /\ Restored d0 d'.
  Proof.
    intros (Wd & (ext & Hext) & E2 & E3 & Hf).
    destruct (snapshot_lookup d0 s0 W0 S0) as (Hs & SN & SS).
    destruct Wd as (Wb & Hnd & Hobj & Hown).
    destruct (final_loop (d_cache d) d) as (d1 & C1 & [J1 J2] & C3 & C4 & C5 & K1 & K2 & K3 & K4).
    { split; auto. }
    { intros c o Hin o0 Hc0. apply (in_alookup _ _ _ Hnd) in Hin. rewrite (E2 c o0 Hc0) in Hin. congruence. }
    unfold block_rollback. rewrite C1. cbn.
    assert (Hle : bs_state s0 <= next_idx (d_buf d1)).
    { rewrite C3, Hs. destruct Wb as [Hn _]. destruct W0 as ((Hn0 & _) & _). rewrite Hn, Hn0, Hext, app_length. lia. }
    assert (Wb1 : wf (d_buf d1)) by now rewrite C3.
    destruct (rollback_ok (d_buf d1) (bs_state s0) Wb1 Hle) as (b & R1 & R2 & R3 & R4).
    rewrite R1. cbn. eexists. split; [reflexivity|].
    split; [exact R2|]. split.
    { cbn. rewrite R3, C3, Hext, Hs. destruct W0 as ((Hn0 & _) & _). rewrite Hn0.
      rewrite firstn_app, Nat.sub_diag, firstn_all. cbn. now rewrite app_nil_r. }
    split.
    { intros c. cbn. destruct (alookup c (d_cache d0)) as [o0|] eqn:Ec0; [now apply J1|].
      destruct (in_dec N.eq_dec c (map fst (d_cache d))) as [Hin|Hnin]; [now apply K1|].
      rewrite K2 by auto. now apply alookup_none_notin. }
    split.
    { intros c o st0 Hc Ho. cbn.
      assert (Hin : In c (map fst (d_cache d))).
      { pose proof (E2 c o Hc) as A. apply alookup_in in A. change c with (fst (c, o)). now apply in_map. }
      exact (K3 c o st0 Hin Hc Ho). }
    destruct C4 as (A & B & C). destruct Hf as (A' & B' & C'). unfold frame_eq. cbn. repeat split; congruence.
  Qed.
End Final.

(** ---- every disciplined step keeps [Ext] ---- *)
Lemma ext_fields d0 d d' : Ext d0 d ->
  d_buf d' = d_buf d -> d_cache d' = d_cache d -> d_heap d' = d_heap d -> d_handles d' = d_handles d ->
  d_trie d' = d_trie d -> d_store_a d' = d_store_a d -> d_store_v d' = d_store_v d -> Ext d0 d'.
Proof.
  intros H E1 E2 E3 E4 E5 E6 E7. unfold Ext, dwf, frame_eq, obj in *.
  rewrite E1, E2, E3, E4, E5, E6, E7. exact H.
Qed.

Lemma live_obj_ok d h c o : live_obj d h = Ok (c, o) -> nth_error (d_handles d) h = Some (mk_handle c (Some o)).
Proof.
  unfold live_obj. destruct (nth_error (d_handles d) h) as [[c' [o'|]]|]; try discriminate.
  intros H. inversion H; subst. reflexivity.
Qed.

Lemma ext_put d0 d e : Ext d0 d -> Ext d0 (set_buf d (sb_put (d_buf d) e)).
Proof.
  intros ((Wb & Hnd & Hw & Hown) & (ext & Hext) & E2 & E3 & Hf).
  split; [|split; [|split; [|split]]]; auto.
  - split; [now apply wf_put|]. split; auto.
  - exists (ext ++ [e]). cbn. rewrite Hext. now rewrite app_assoc.
Qed.

Lemma ext_heap_update d0 d o st st' :
  Ext d0 d -> obj d o = Some st -> wf (s_buf st') ->
  (forall c0 st0, alookup c0 (d_cache d0) = Some o -> obj d0 o = Some st0 -> ext_storage st' st0) ->
  Ext d0 (set_heap d (list_set (d_heap d) o st')).
Proof.
  intros ((Wb & Hnd & Hw & own & Hoc & Hoh) & Hext & E2 & E3 & Hf) Ho Wst Hx.
  assert (Hobj : forall o', obj (set_heap d (list_set (d_heap d) o st')) o' = if Nat.eqb o' o then Some st' else obj d o').
  { intros o'. unfold obj. cbn. destruct (Nat.eqb_spec o' o).
    - subst. eapply nth_list_set_eq; eauto.
    - now apply nth_list_set_neq. }
  split; [|split; [|split; [|split]]]; auto.
  - split; auto. split; auto. split.
    + intros o' st1. rewrite Hobj. destruct (Nat.eqb o' o); [intros H; inversion H; subst; auto|apply Hw].
    + exists own. cbn. rewrite length_list_set. split; auto.
  - intros c o0 st0 Hc Ho0. rewrite Hobj. destruct (Nat.eqb_spec o0 o).
    + subst o0. exists st'. split; auto. eapply Hx; eauto.
    + apply (E3 c o0 st0 Hc Ho0).
Qed.

Lemma ext_obj_unique d0 d c0 o st st0 : Ext d0 d -> alookup c0 (d_cache d0) = Some o -> obj d0 o = Some st0 ->
  obj d o = Some st -> ext_storage st st0.
Proof.
  intros (_ & _ & _ & E3 & _) Hc Ho0 Ho. destruct (E3 c0 o st0 Hc Ho0) as (st' & Hs & Hx). congruence.
Qed.

Lemma ext_heap_put d0 d o e d' : Ext d0 d -> heap_put d o e = Ok d' -> Ext d0 d'.
Proof.
  intros HE H. unfold heap_put in H. apply bind_ok in H. destruct H as (st & H1 & H). apply of_opt_ok in H1.
  inversion H; subst. eapply ext_heap_update; eauto.
  - cbn. apply wf_put. destruct HE as ((_ & _ & Hw & _) & _). now apply (Hw o).
  - intros c0 st0 Hc Ho0. destruct (ext_obj_unique _ _ _ _ _ _ HE Hc Ho0 H1) as (W & (ext & Hext) & Ht & Hd).
    split; [cbn; now apply wf_put|]. split; [|split; auto].
    exists (ext ++ [e]). cbn. rewrite Hext. now rewrite app_assoc.
Qed.

Lemma ext_open_alias d0 d c o : Ext d0 d -> alookup c (d_cache d) = Some o ->
  Ext d0 (set_handles d (d_handles d ++ [mk_handle c (Some o)])).
Proof.
  intros ((Wb & Hnd & Hw & own & Hoc & Hoh) & Hext & E2 & E3 & Hf) Hc.
  split; [|split; [|split; [|split]]]; auto.
  split; auto. split; auto. split; auto. exists own. split; auto. cbn.
  intros h c' o' Hn. destruct (Nat.lt_ge_cases h (length (d_handles d))).
  - rewrite nth_error_app1 in Hn by auto. eauto.
  - rewrite nth_error_app2 in Hn by auto. destruct (h - length (d_handles d)) as [|k]; cbn in Hn.
    + inversion Hn; subst. auto.
    + destruct k; discriminate.
Qed.

Lemma ext_open_private d0 d c root : Ext d0 d ->
  Ext d0 (set_handles (set_heap d (d_heap d ++ [mk_storage sb_new root false]))
                      (d_handles d ++ [mk_handle c (Some (length (d_heap d)))])).
Proof.
  intros ((Wb & Hnd & Hw & own & Hoc & Hoh) & Hext & E2 & E3 & Hf).
  set (n := length (d_heap d)).
  assert (Hobj : forall o st, nth_error (d_heap d) o = Some st -> nth_error (d_heap d ++ [mk_storage sb_new root false]) o = Some st).
  { intros o st H. rewrite nth_error_app1; auto. apply nth_error_Some. congruence. }
  split; [|split; [|split; [|split]]]; auto.
  - split; auto. split; auto. split.
    + intros o st. unfold obj. cbn. destruct (Nat.lt_ge_cases o n).
      * rewrite nth_error_app1 by auto. apply Hw.
      * rewrite nth_error_app2 by auto. destruct (o - length (d_heap d)) as [|k]; cbn.
        -- intros H'. inversion H'; subst. cbn. apply wf_new.
        -- destruct k; discriminate.
    + exists (fun o => if Nat.eqb o n then c else own o). cbn. rewrite app_length. cbn. split.
      * intros c' o Hc. destruct (Hoc c' o Hc) as [A B]. destruct (Nat.eqb_spec o n); [lia|]. split; auto. lia.
      * intros h c' o Hn. destruct (Nat.lt_ge_cases h (length (d_handles d))).
        -- rewrite nth_error_app1 in Hn by auto. destruct (Hoh h c' o Hn) as [A B].
           destruct (Nat.eqb_spec o n); [lia|]. split; auto. lia.
        -- rewrite nth_error_app2 in Hn by auto. destruct (h - length (d_handles d)) as [|k]; cbn in Hn.
           ++ inversion Hn; subst. fold n. rewrite Nat.eqb_refl. split; auto. lia.
           ++ destruct k; discriminate.
  - intros c' o st0 Hc Ho. destruct (E3 c' o st0 Hc Ho) as (st & Hs & Hx). exists st. split; auto.
    unfold obj in *. cbn. now apply Hobj.
Qed.

Lemma ext_stage d0 d h c o :
  Ext d0 d -> nth_error (d_handles d) h = Some (mk_handle c (Some o)) ->
  (forall o0, alookup c (d_cache d0) = Some o0 -> o = o0) ->
  Ext d0 (set_handles (set_cache d (aset c o (d_cache d))) (list_set (d_handles d) h (mk_handle c None))).
Proof.
  intros ((Wb & Hnd & Hw & own & Hoc & Hoh) & Hext & E2 & E3 & Hf) Hh Hdisc.
  destruct (Hoh h c o Hh) as [Hown Hlt].
  split; [|split; [|split; [|split]]]; auto.
  - split; auto. split; [now apply nodup_aset|]. split; auto. exists own. cbn. split.
    + intros c' o' Hc. destruct (N.eq_dec c' c) as [->|Hn].
      * rewrite alookup_aset_eq in Hc. inversion Hc; subst. auto.
      * rewrite alookup_aset_neq in Hc by auto. auto.
    + intros h' c' o' Hn. destruct (Nat.eq_dec h' h) as [->|Hne].
      * erewrite nth_list_set_eq in Hn by eauto. discriminate.
      * rewrite nth_list_set_neq in Hn by auto. eauto.
  - intros c0 o0 Hc0. cbn. destruct (N.eq_dec c0 c) as [->|Hn].
    + rewrite alookup_aset_eq. f_equal. now apply Hdisc.
    + rewrite alookup_aset_neq by auto. auto.
Qed.

Lemma ext_clear d0 d : Ext d0 d -> Ext d0 (set_handles d []).
Proof.
  intros ((Wb & Hnd & Hw & own & Hoc & Hoh) & Hext & E2 & E3 & Hf).
  split; [|split; [|split; [|split]]]; auto.
  split; auto. split; auto. split; auto. exists own. split; auto. cbn. intros [|h] c o H; discriminate.
Qed.

(** nested storageCache.Rollback to a snapshot that dominates s0 *)
Section Nested.
  Variables (d0 : sdb) (s0 s1 : bsnap).
  Hypothesis W0 : dwf d0.
  Hypothesis S0 : block_snapshot d0 = Ok s0.
  Hypothesis Dom : dominates s0 s1.

  Lemma nested_loop cl : forall d d',
    cache_rollback d (bs_storage s1) cl = Ok d' -> Ext d0 d ->
    (forall c o, In (c, o) cl -> forall c0, alookup c0 (d_cache d0) = Some o -> c0 = c) ->
    Ext d0 d'.
  Proof.
    destruct (snapshot_lookup d0 s0 W0 S0) as (_ & SN & SS). destruct Dom as [_ Dom2].
    induction cl as [|[cid ob] tl IH]; intros d d' H HE Hinj; cbn [cache_rollback] in H.
    - inversion H; subst. exact HE.
    - destruct (alookup cid (bs_storage s1)) as [rev|] eqn:Es.
      + apply bind_ok in H. destruct H as (d1 & H1 & H2).
        apply (IH d1 d' H2); [|intros c o Hin; apply Hinj; now right].
        destruct (heap_rollback_spec _ _ _ _ H1) as (st & b & Ho & Hr & ->).
        assert (Wst : wf (s_buf st)). { destruct HE as ((_ & _ & Hw & _) & _). now apply (Hw ob). }
        destruct (sb_rollback_inv _ _ _ Wst Hr) as (Hle & Wb' & Hent & Hnx).
        eapply ext_heap_update; eauto.
        intros c0 st0 Hc0 Ho0.
        assert (c0 = cid) by (apply (Hinj cid ob (or_introl eq_refl) c0 Hc0)). subst c0.
        destruct (ext_obj_unique _ _ _ _ _ _ HE Hc0 Ho0 Ho) as (_ & (ext & Hext) & Ht & Hd).
        (* the revision recorded by s1 for cid is at least the one of s0 *)
        assert (Hr0 : exists r0, alookup cid (bs_storage s0) = Some r0).
        { destruct (alookup cid (bs_storage s0)) eqn:E0; eauto. apply SN in E0. congruence. }
        destruct Hr0 as (r0 & Hr0). destruct (Dom2 cid r0 Hr0) as (r1 & Hr1 & Hge). rewrite Es in Hr1. inversion Hr1; subst r1.
        destruct (SS cid r0 Hr0) as (o0' & st0' & Hc0' & Ho0' & Hrev).
        rewrite Hc0 in Hc0'. inversion Hc0'; subst o0'. rewrite Ho0 in Ho0'. inversion Ho0'; subst st0'.
        assert (Hlen0 : next_idx (s_buf st0) = length (entries (s_buf st0))).
        { destruct (dwf_cached d0 cid ob W0 Hc0) as (stx & Hsx & Hwx). rewrite Ho0 in Hsx. inversion Hsx; subst. apply Hwx. }
        split; [exact Wb'|]. split; [|split; auto].
        exists (firstn (rev - length (entries (s_buf st0))) ext). cbn. rewrite Hent, Hext.
        apply firstn_app_prefix. lia.
      + apply (IH _ d' H); [|intros c o Hin; apply Hinj; now right].
        assert (Hn0 : alookup cid (d_cache d0) = None).
        { destruct (alookup cid (d_cache d0)) eqn:E0; auto.
          assert (Hs0 : alookup cid (bs_storage s0) <> None) by (intros X; apply SN in X; congruence).
          destruct (alookup cid (bs_storage s0)) as [r0|] eqn:E1; [|congruence].
          destruct (Dom2 cid r0 E1) as (r1 & Hr1 & _). congruence. }
        destruct HE as ((Wb & Hnd & Hw & own & Hoc & Hoh) & Hext & E2 & E3 & Hf).
        split; [|split; [|split; [|split]]]; auto.
        * split; auto. split; [now apply nodup_aremove|]. split; auto. exists own. split; auto. cbn.
          intros c o Hc. destruct (N.eq_dec c cid) as [->|Hn]; [rewrite alookup_aremove_eq in Hc; discriminate|].
          rewrite alookup_aremove_neq in Hc by auto. auto.
        * intros c o Hc. cbn. rewrite alookup_aremove_neq; [auto|]. intros ->. congruence.
  Qed.
End Nested.

Lemma ext_inj d0 d : Ext d0 d ->
  forall c o, In (c, o) (d_cache d) -> forall c0, alookup c0 (d_cache d0) = Some o -> c0 = c.
Proof.
  intros ((Wb & Hnd & Hw & own & Hoc & Hoh) & Hext & E2 & E3 & Hf) c o Hin c0 Hc0.
  apply (in_alookup _ _ _ Hnd) in Hin. destruct (Hoc c o Hin) as [A _]. destruct (Hoc c0 o (E2 c0 o Hc0)) as [B _]. congruence.
Qed.

Theorem step_ext d0 s0 d o d' :
  dwf d0 -> block_snapshot d0 = Ok s0 -> Ext d0 d -> ok_op d0 s0 d o -> step d o = Ok d' -> Ext d0 d'.
Proof.
  intros W0 S0 HE Hok H. destruct o; cbn [step] in H; cbn [ok_op] in Hok; try contradiction.
  - (* OPut *)
    apply bind_ok in H. destruct H as (cur & _ & H). inversion H; subst.
    eapply ext_fields; [eapply ext_put; exact HE|..]; reflexivity.
  - (* OOpen *)
    apply bind_ok in H. destruct H as (cur & _ & H).
    assert (G : forall r hs, Ext d0 (open_handle d c r hs)).
    { intros r hs. unfold open_handle. destruct (alookup c (d_cache d)) as [o|] eqn:Ec.
      - eapply ext_fields; [apply (ext_open_alias d0 d c o HE Ec)|..]; reflexivity.
      - eapply ext_fields; [apply (ext_open_private d0 d c r HE)|..]; reflexivity. }
    destruct cur as [[p [f r]]|]; inversion H; subst; apply G.
  - (* OSet *)
    apply bind_ok in H. destruct H as (co & _ & H). eapply ext_heap_put; eauto.
  - (* ODel *)
    apply bind_ok in H. destruct H as (co & _ & H). eapply ext_heap_put; eauto.
  - (* OStage *)
    apply bind_ok in H. destruct H as ([c o] & Hl & H). inversion H; subst. cbn.
    apply ext_stage; auto. { now apply live_obj_ok. } intros o0 Hc0. now apply (Hok c o Hl).
  - (* OSnap *)
    apply bind_ok in H. destruct H as (s & _ & H). inversion H; subst.
    eapply ext_fields; [exact HE|..]; reflexivity.
  - (* ORollback *)
    apply bind_ok in H. destruct H as (s1 & Hs1 & H). apply of_opt_ok in Hs1.
    pose proof (Hok s1 Hs1) as Dom. unfold block_rollback in H.
    apply bind_ok in H. destruct H as (d1 & H1 & H). apply bind_ok in H. destruct H as (b & Hb & H). inversion H; subst.
    assert (HE1 : Ext d0 d1) by (eapply nested_loop; eauto; now apply ext_inj).
    destruct (snapshot_lookup d0 s0 W0 S0) as (Hs & _ & _).
    destruct HE1 as ((Wb & Hnd & Hw & Hown) & (ext & Hext) & E2 & E3 & Hf).
    destruct (sb_rollback_inv _ _ _ Wb Hb) as (Hle & Wb' & Hent & Hnx).
    split; [|split; [|split; [|split]]]; auto.
    + split; auto.
    + exists (firstn (bs_state s1 - length (entries (d_buf d0))) ext). cbn. rewrite Hent, Hext.
      apply firstn_app_prefix. destruct Dom as [Dom1 _]. destruct W0 as ((Hn0 & _) & _). rewrite <- Hn0, <- Hs. exact Dom1.
  - (* OCSnap *)
    apply bind_ok in H. destruct H as (co & _ & H). apply bind_ok in H. destruct H as (st & _ & H). inversion H; subst.
    eapply ext_fields; [exact HE|..]; reflexivity.
  - (* OCRollback *)
    apply bind_ok in H. destruct H as ([h rev] & Hj & H). apply of_opt_ok in Hj.
    apply bind_ok in H. destruct H as ([c ob] & Hl & H). cbn [fst snd] in *.
    destruct (heap_rollback_spec _ _ _ _ H) as (st & b & Ho & Hr & ->).
    assert (Wst : wf (s_buf st)). { destruct HE as ((_ & _ & Hw & _) & _). now apply (Hw ob). }
    destruct (sb_rollback_inv _ _ _ Wst Hr) as (Hle & Wb' & Hent & Hnx).
    eapply ext_heap_update; eauto.
    intros c0 st0 Hc0 Ho0.
    pose proof (Hok h rev c ob Hj Hl c0 st0 Hc0 Ho0) as Hge.
    destruct (ext_obj_unique _ _ _ _ _ _ HE Hc0 Ho0 Ho) as (_ & (ext & Hext) & Ht & Hd).
    assert (Hlen0 : next_idx (s_buf st0) = length (entries (s_buf st0))).
    { destruct (dwf_cached d0 c0 ob W0 Hc0) as (stx & Hsx & Hwx). rewrite Ho0 in Hsx. inversion Hsx; subst. apply Hwx. }
    split; [exact Wb'|]. split; [|split; auto].
    exists (firstn (rev - length (entries (s_buf st0))) ext). cbn. rewrite Hent, Hext.
    apply firstn_app_prefix. lia.
  - (* OClear *)
    inversion H; subst. eapply ext_fields; [apply (ext_clear d0 d HE)|..]; reflexivity.
  - (* OAGet *)
    apply bind_ok in H. destruct H as (cur & _ & H). inversion H; subst.
    eapply ext_fields; [exact HE|..]; reflexivity.
  - (* OAAdd: the handle has not been put, no buffered entry is touched *)
    apply bind_ok in H. destruct H as (ah & Ha & H). apply of_opt_ok in Ha. inversion H; subst.
    eapply ext_fields; [exact HE|..]; try reflexivity. cbn. apply poke_buf_unused. now apply Hok.
  - (* OASub *)
    apply bind_ok in H. destruct H as (ah & Ha & H). apply of_opt_ok in Ha. inversion H; subst.
    eapply ext_fields; [exact HE|..]; try reflexivity. cbn. apply poke_buf_unused. now apply Hok.
  - (* OAPut *)
    apply bind_ok in H. destruct H as (ah & Ha & H). inversion H; subst. now apply ext_put.
  - (* OAReset *)
    apply bind_ok in H. destruct H as (ah & Ha & H). inversion H; subst.
    eapply ext_fields; [exact HE|..]; reflexivity.
  - (* OACreate *)
    apply bind_ok in H. destruct H as (cur & _ & H). destruct cur; inversion H; subst; [exact HE|].
    eapply ext_fields; [exact HE|..]; reflexivity.
  - (* OASetF *)
    apply bind_ok in H. destruct H as (ah & Ha & H). apply of_opt_ok in Ha. inversion H; subst.
    eapply ext_fields; [exact HE|..]; try reflexivity. cbn. apply poke_buf_unused. now apply Hok.
  - (* OOpenAs *)
    apply bind_ok in H. destruct H as (ah & Ha & H). inversion H; subst.
    unfold open_handle. destruct (alookup (ah_aid ah) (d_cache d)) as [o|] eqn:Ec.
    + eapply ext_fields; [apply (ext_open_alias d0 d _ o HE Ec)|..]; reflexivity.
    + eapply ext_fields; [apply (ext_open_private d0 d (ah_aid ah) (ah_root ah) HE)|..]; reflexivity.
  - (* OSetCode: the embedded State is not a buffered object *)
    apply bind_ok in H. destruct H as (hs & Hh & H). apply of_opt_ok in Hh. inversion H; subst.
    destruct (hs_ptr hs) as [p|] eqn:Ep.
    + eapply ext_fields; [exact HE|..]; try reflexivity. cbn. apply poke_buf_unused. now apply (Hok hs p).
    + eapply ext_fields; [exact HE|..]; reflexivity.
  - (* OGetCode *)
    apply bind_ok in H. destruct H as (hs & Hh & H).
    destruct (hs_code hs); [inversion H; subst; eapply ext_fields; [exact HE|..]; reflexivity|].
    destruct (f_code (hs_f hs) =? 0)%N; [inversion H; subst; eapply ext_fields; [exact HE|..]; reflexivity|].
    destruct (existsb _ _); inversion H; subst; eapply ext_fields; try exact HE; reflexivity.
  - (* ORawSet *)
    apply bind_ok in H. destruct H as (hs & Hh & H). inversion H; subst. eapply ext_fields; [exact HE|..]; reflexivity.
  - (* ORawGet *)
    apply bind_ok in H. destruct H as (hs & Hh & H). inversion H; subst. eapply ext_fields; [exact HE|..]; reflexivity.
  - (* OSSnap *)
    inversion H; subst. eapply ext_fields; [exact HE|..]; reflexivity.
  - (* OSRollback: not below the revision of the block snapshot *)
    apply bind_ok in H. destruct H as (rev & Hr & H). apply of_opt_ok in Hr.
    apply bind_ok in H. destruct H as (b & Hb & H). inversion H; subst.
    pose proof (Hok rev Hr) as Hge.
    destruct (snapshot_lookup d0 s0 W0 S0) as (Hs & _ & _).
    destruct HE as ((Wb & Hnd & Hw & Hown) & (ext & Hext) & E2 & E3 & Hf).
    destruct (sb_rollback_inv _ _ _ Wb Hb) as (Hle & Wb' & Hent & Hnx).
    split; [|split; [|split; [|split]]]; auto.
    + split; auto.
    + exists (firstn (rev - length (entries (d_buf d0))) ext). cbn. rewrite Hent, Hext.
      apply firstn_app_prefix. destruct W0 as ((Hn0 & _) & _). rewrite <- Hn0, <- Hs. exact Hge.
Qed.

(** handle_mutation_invisible: a setter (AddBalance, SubBalance, SetNonce, SetCodeHash, SetRP)
    through an AccountState handle whose newState has not been stored by PutState changes no
    buffer, cache, storage, trie or store — hence no read, no export and no root *)
Theorem handle_mutation_invisible d h ah o d' :
  (exists v, o = OAAdd h v \/ o = OASub h v \/ exists x, o = OASetF h x v) ->
  nth_error (d_ah d) h = Some ah -> ptr_unused d (ah_ptr ah) -> step d o = Ok d' ->
  d_buf d' = d_buf d /\ d_cache d' = d_cache d /\ d_heap d' = d_heap d /\ d_handles d' = d_handles d /\
  d_trie d' = d_trie d /\ d_store_a d' = d_store_a d /\ d_store_v d' = d_store_v d /\
  (forall a, get_state d' a = get_state d a).
Proof.
  intros (v & Ho) Ha Hu H.
  assert (Hb : d_buf d' = d_buf d /\ d_cache d' = d_cache d /\ d_heap d' = d_heap d /\ d_handles d' = d_handles d /\
               d_trie d' = d_trie d /\ d_store_a d' = d_store_a d /\ d_store_v d' = d_store_v d).
  { destruct Ho as [-> | [-> | (x & ->)]]; cbn [step] in H; rewrite Ha in H; cbn in H; inversion H; subst; cbn;
      rewrite (poke_buf_unused _ _ _ Hu); repeat split. }
  destruct Hb as (B1 & B2 & B3 & B4 & B5 & B6 & B7). repeat split; auto.
  intros a. unfold get_state, get_state_ptr, trie_state. now rewrite B1, B5, B6.
Qed.

(** the newState of a fresh handle is a Clone: its pointer is new, so the handle can be
    mutated freely until PutState *)
Theorem fresh_handle_unused d a d' :
  (forall e, In e (entries (d_buf d)) -> a_ptr (snd e) < d_nptr d) -> step d (OAGet a) = Ok d' ->
  exists ah, nth_error (d_ah d') (length (d_ah d)) = Some ah /\ ptr_unused d' (ah_ptr ah) /\ d_buf d' = d_buf d.
Proof.
  intros Hb H. cbn [step] in H. apply bind_ok in H. destruct H as (cur & _ & H). inversion H; subst. cbn.
  rewrite nth_error_app2, Nat.sub_diag by auto. cbn. eexists. split; [reflexivity|]. split; [|reflexivity].
  intros e Hin. apply Hb in Hin. destruct cur as [[op [bal rt]]|]; cbn; lia.
Qed.

(** any disciplined sequence of operations after a block snapshot, with any nesting of block
    and contract snapshots/reverts, followed by the revert to that snapshot, restores the
    account state and every staged contract storage; nothing panics on the way back *)
Theorem run_ext d0 s0 ops : dwf d0 -> block_snapshot d0 = Ok s0 ->
  forall d d', Ext d0 d -> run_ok d0 s0 d ops -> run d ops = Ok d' -> Ext d0 d'.
Proof.
  intros W0 S0. induction ops as [|o tl IH]; intros d d' HE Hok H; cbn in *.
  - inversion H; subst. exact HE.
  - destruct Hok as [Ho Hr]. destruct (step d o) as [d1|] eqn:E; cbn in H; [|discriminate].
    apply (IH d1 d'); auto. eapply step_ext; eauto.
Qed.

Theorem block_revert_restores_run d0 s0 ops d :
  dwf d0 -> block_snapshot d0 = Ok s0 -> run_ok d0 s0 d0 ops -> run d0 ops = Ok d ->
  exists d', block_rollback d s0 = Ok d' /\ Restored d0 d'.
Proof.
  intros W0 S0 Hok Hr. apply (block_revert_restores d0 s0 W0 S0).
  eapply run_ext; eauto. now apply ext_refl.
Qed.

(** what "restored" gives for reads: every account and every key of every staged storage *)
Theorem restored_reads d0 d : dwf d0 -> Restored d0 d ->
  (forall a, get_state d a = get_state d0 a) /\
  (forall c o k, alookup c (d_cache d0) = Some o ->
     alookup c (d_cache d) = Some o /\ get_data d o k = get_data d0 o k).
Proof.
  intros W0 (Wb & Hent & Hc & Hobj & (Ht & Hsa & Hsv)). split.
  - intros a. unfold get_state, get_state_ptr, trie_state. rewrite Ht, Hsa.
    destruct W0 as (Wb0 & _). rewrite (get_latest _ a Wb), (get_latest _ a Wb0), Hent. reflexivity.
  - intros c o k Hc0. split; [now rewrite Hc|].
    destruct (dwf_cached d0 c o W0 Hc0) as (st0 & Ho0 & W0').
    destruct (Hobj c o st0 Hc0 Ho0) as (st & Ho & Wst & He & Htr & _).
    unfold get_data, initial_data. unfold obj in *. rewrite Ho, Ho0. cbn.
    rewrite (get_latest _ k Wst), (get_latest _ k W0'), He, Htr, Hsv. reflexivity.
Qed.

Lemma dwf_new t sa sv : dwf (sdb_new t sa sv).
Proof.
  split; [apply wf_new|]. split; [constructor|]. split.
  - intros [|o] st H; discriminate.
  - exists (fun _ => 0%N). split; [intros c o H; discriminate|intros [|h] c o H; discriminate].
Qed.

(** every state reached from a fresh StateDB by operations that are disciplined w.r.t. the
    initial (empty) snapshot is well formed *)
Theorem dwf_reachable t sa sv s ops d :
  block_snapshot (sdb_new t sa sv) = Ok s -> run_ok (sdb_new t sa sv) s (sdb_new t sa sv) ops ->
  run (sdb_new t sa sv) ops = Ok d -> dwf d.
Proof.
  intros S Hok Hr. pose proof (dwf_new t sa sv) as W.
  apply (run_ext _ _ ops W S _ _ (ext_refl _ W) Hok Hr).
Qed.

(** ---- the hypotheses are satisfiable: a span with nested block and contract reverts ---- *)
Definition ex_pre : list op := [OPut 1 5; OOpen 7; OSet 0 1 5; OStage 0; OClear]%N.
Definition ex_span : list op :=
  [OPut 1 6; OOpen 7; OSet 0 1 9; OCSnap 0; ODel 0 1; OCRollback 0; OOpen 8; OSet 1 2 3; OStage 1;
   OSnap; OPut 2 7; ORollback 0]%N.
Example ex_span_ok :
  match run (sdb_new [] [] []) ex_pre with
  | Ok d0 => match block_snapshot d0 with
             | Ok s0 => run_ok d0 s0 d0 ex_span /\ exists d, run d0 ex_span = Ok d
             | Panic => False
             end
  | Panic => False
  end.
Proof.
  vm_compute. 
  repeat split; intros; try discriminate.
  all: repeat match goal with H : Ok _ = Ok _ |- _ => inversion H; clear H; subst end.
  all: repeat match goal with H : Some _ = Some _ |- _ => inversion H; clear H; subst end.
  all: try reflexivity; try lia; try discriminate.
  all: try (eexists; reflexivity).
  - inversion x4; subst. cbn in x8. inversion x8; subst. cbn. lia.
  - destruct (match x1 with 7%N => true | _ => false end); [|discriminate].
    inversion x3; subst. exists 2. split; auto.
Qed.

Example ex_pre_ok :
  match block_snapshot (sdb_new [] [] []) with
  | Ok s => run_ok (sdb_new [] [] []) s (sdb_new [] [] []) ex_pre
  | Panic => False
  end.
Proof. vm_compute. repeat split; intros; discriminate. Qed.

(** The block-level invariant [dwf] is kept by every operation, Update and Commit included:
    in every reachable state get / export / stage / reset index into bounds. *)
From Coq Require Import NArith List Bool Arith Lia Permutation.
From Verif Require Import StateBuf.Model StateBuf.BufProofs StateBuf.Db StateBuf.DbProofs StateBuf.DbRevert.
Import ListNotations.

Lemma pos_rev_map {V} (f : entry V -> entry V) (Hf : forall e, fst (f e) = fst e) k (l : list (entry V)) :
  pos_rev k (map f l) = pos_rev k l.
Proof. induction l as [|e tl IH]; cbn; auto. rewrite Hf, map_length, IH. reflexivity. Qed.
Lemma positions_map {V} (f : entry V -> entry V) (Hf : forall e, fst (f e) = fst e) k (l : list (entry V)) :
  positions k (map f l) = positions k l.
Proof. unfold positions. rewrite <- map_rev. now apply pos_rev_map. Qed.

(** [dwf] only depends on the buffer, cache, heap and handles *)
Lemma dwf_fields d d' : dwf d -> d_buf d' = d_buf d -> d_cache d' = d_cache d -> d_heap d' = d_heap d ->
  d_handles d' = d_handles d -> dwf d'.
Proof. intros H E1 E2 E3 E4. unfold dwf, obj in *. now rewrite E1, E2, E3, E4. Qed.

Lemma dwf_fields' d d' : dwf d -> d_buf d' = d_buf d -> d_cache d' = d_cache d -> d_heap d' = d_heap d ->
  d_handles d' = d_handles d -> dwf d'.
Proof. apply dwf_fields. Qed.

Lemma dwf_set_buf d b : dwf d -> wf b -> dwf (set_buf d b).
Proof. intros (Wb & R) W. split; auto. Qed.

Lemma wf_poke_buf p g b : wf b -> wf (poke_buf p g b).
Proof.
  intros [Hn [Hnd H]]. unfold poke_buf. split; cbn.
  - now rewrite map_length.
  - split; auto. intros k. rewrite positions_map; auto.
    intros e. destruct (Nat.eqb (a_ptr (snd e)) p); reflexivity.
Qed.

Lemma dwf_poke d p g : dwf d -> dwf (poke d p g).
Proof.
  intros W. unfold poke.
  eapply (dwf_fields' (set_buf d (poke_buf p g (d_buf d)))); try reflexivity.
  apply dwf_set_buf; auto. apply wf_poke_buf. apply W.
Qed.

Lemma dwf_set_obj d o st st' : dwf d -> obj d o = Some st -> wf (s_buf st') ->
  dwf (set_heap d (list_set (d_heap d) o st')).
Proof.
  intros (Wb & Hnd & Hw & own & Hoc & Hoh) Ho W.
  split; auto. split; auto. split.
  - intros o' st1. unfold obj. cbn. destruct (Nat.eq_dec o' o) as [->|Hn].
    + erewrite nth_list_set_eq by eauto. intros H; inversion H; subst; auto.
    + rewrite nth_list_set_neq by auto. apply Hw.
  - exists own. cbn. rewrite length_list_set. split; auto.
Qed.

Lemma get_state_ptr_ok d a : dwf d -> exists r, get_state_ptr d a = Ok r.
Proof. intros (Wb & _). unfold get_state_ptr. rewrite (get_latest _ a Wb). cbn. destruct (latest _ a); eauto. Qed.

Lemma update_one_ok d cid o : dwf d -> alookup cid (d_cache d) = Some o ->
  exists d', update_one d cid o = Ok d' /\ dwf d' /\ d_cache d' = d_cache d.
Proof.
  intros W Hc. destruct (dwf_cached d cid o W Hc) as (st & Ho & Wst).
  unfold update_one. unfold obj in Ho. rewrite Ho. cbn.
  destruct (export_spec (s_buf st) Wst) as (ex & Hex & _). rewrite Hex. cbn.
  set (trie' := apply_export_s (s_trie st) ex).
  set (dirty' := s_dirty st || negb (smap_eqb trie' (s_trie st))).
  set (d1 := set_heap d (list_set (d_heap d) o (mk_storage (s_buf st) trie' dirty'))).
  assert (W1 : dwf d1) by (eapply dwf_set_obj; eauto).
  destruct dirty'; [|exists d1; auto].
  destruct (get_state_ptr_ok d1 cid W1) as (cur & Hcur). rewrite Hcur. cbn.
  destruct W1 as (Wb1 & R1).
  destruct cur as [[[p|] [bal rt]]|]; eexists; (split; [reflexivity|]); split; try reflexivity.
  - apply dwf_set_buf; [apply dwf_poke; split; auto|]. apply wf_put. apply wf_poke_buf. exact Wb1.
  - eapply dwf_fields; [apply (dwf_set_buf d1 (sb_put (d_buf d1) (cid, mk_aval (d_nptr d1) bal trie')));
                         [split; auto|now apply wf_put]|..]; reflexivity.
  - eapply dwf_fields; [apply (dwf_set_buf d1 (sb_put (d_buf d1) (cid, mk_aval (d_nptr d1) fl0 trie')));
                         [split; auto|now apply wf_put]|..]; reflexivity.
Qed.

Lemma update_storages_ok cl : forall d, dwf d -> (forall c o, In (c, o) cl -> alookup c (d_cache d) = Some o) ->
  exists d', update_storages d cl = Ok d' /\ dwf d' /\ d_cache d' = d_cache d.
Proof.
  induction cl as [|[c o] tl IH]; intros d W Hin; cbn.
  - eauto.
  - destruct (update_one_ok d c o W (Hin c o (or_introl eq_refl))) as (d1 & H1 & W1 & C1). rewrite H1. cbn.
    destruct (IH d1 W1) as (d' & H' & W' & C').
    { intros c' o' Hi. rewrite C1. apply Hin. now right. }
    exists d'. split; auto. split; auto. congruence.
Qed.

Theorem db_update_ok d : dwf d -> exists d', db_update d = Ok d' /\ dwf d'.
Proof.
  intros W. unfold db_update.
  destruct (update_storages_ok (d_cache d) d W) as (d1 & H1 & W1 & C1).
  { intros c o Hin. destruct W as (_ & Hnd & _). now apply in_alookup. }
  rewrite H1. cbn. destruct W1 as (Wb1 & R1).
  destruct (export_spec (d_buf d1) Wb1) as (ex & Hex & _). rewrite Hex. cbn.
  eexists. split; [reflexivity|]. eapply dwf_fields; [split; eauto|..]; reflexivity.
Qed.

Lemma reset_ok {V} (b : sbuf V) : wf b -> exists b', sb_reset b = Ok b' /\ wf b'.
Proof. intros W. destruct (rollback_ok b 0 W (Nat.le_0_l _)) as (b' & H & W' & _). eauto. Qed.

Lemma commit_storages_ok cl : forall d, dwf d -> (forall c o, In (c, o) cl -> alookup c (d_cache d) = Some o) ->
  exists d', commit_storages d cl = Ok d' /\ dwf d' /\ d_cache d' = d_cache d.
Proof.
  induction cl as [|[c o] tl IH]; intros d W Hin; cbn [commit_storages].
  - eauto.
  - destruct (dwf_cached d c o W (Hin c o (or_introl eq_refl))) as (st & Ho & Wst).
    unfold obj in Ho. rewrite Ho. cbn [of_opt bind].
    destruct (stage_spec (s_buf st) Wst) as (staged & Hs & _). rewrite Hs. cbn [bind].
    destruct (reset_ok (s_buf st) Wst) as (b & Hb & Wb'). rewrite Hb. cbn [bind].
    match goal with |- exists d', commit_storages ?D tl = _ /\ _ => set (d1 := D) end.
    assert (W1 : dwf d1).
    { eapply dwf_fields; [apply (dwf_set_obj d o st (mk_storage b (s_trie st) (s_dirty st)) W Ho Wb')|..]; reflexivity. }
    destruct (IH d1 W1) as (d' & H' & W' & C').
    { intros c' o' Hi. apply Hin. now right. }
    exists d'. split; auto.
Qed.

Theorem db_commit_ok d : dwf d -> exists d', db_commit d = Ok d' /\ dwf d'.
Proof.
  intros W. unfold db_commit.
  destruct (commit_storages_ok (d_cache d) d W) as (d1 & H1 & W1 & C1).
  { intros c o Hin. destruct W as (_ & Hnd & _). now apply in_alookup. }
  rewrite H1. cbn [bind]. pose proof W1 as (Wb1 & R1).
  destruct (stage_spec (d_buf d1) Wb1) as (staged & Hs & _). rewrite Hs. cbn [bind].
  destruct (reset_ok (d_buf d1) Wb1) as (b & Hb & Wb'). rewrite Hb. cbn [bind].
  eexists. split; [reflexivity|]. eapply dwf_fields; [apply (dwf_set_buf d1 b W1 Wb')|..]; reflexivity.
Qed.

Lemma dwf_ext_self d : dwf d -> Ext (sdb_new (d_trie d) (d_store_a d) (d_store_v d)) d.
Proof.
  intros W. split; auto. split; [exists (entries (d_buf d)); reflexivity|]. split; [intros c o H; discriminate|].
  split; [intros c o st0 H; discriminate|]. repeat split.
Qed.

(** every operation that does not panic keeps the invariant *)
Lemma dwf_reopen d t : dwf (reopen_at d t).
Proof. unfold reopen_at. apply (dwf_fields' (sdb_new t (d_store_a d) (d_store_v d))); [apply dwf_new|..]; reflexivity. Qed.

Theorem dwf_step d o d' : dwf d -> step d o = Ok d' -> dwf d'.
Proof.
  intros W H.
  assert (G : forall t sa sv, dwf (sdb_new t sa sv)) by apply dwf_new.
  destruct o; try (
    (* operations covered by the revert discipline, which is vacuous w.r.t. an empty snapshot *)
    pose proof (G (d_trie d) (d_store_a d) (d_store_v d)) as W0;
    assert (S0 : block_snapshot (sdb_new (d_trie d) (d_store_a d) (d_store_v d)) = Ok (mk_bsnap 0 [])) by reflexivity;
    refine (proj1 (step_ext _ _ d _ d' W0 S0 (dwf_ext_self d W) _ H)); cbn;
    solve [ exact I | intros; discriminate | intros; cbn; lia
          | intros s1 _; split; [cbn; lia|intros c r0 X; discriminate] ]).
  - (* OUpdate *)
    cbn in H. destruct (db_update_ok d W) as (d2 & H2 & W2). rewrite H in H2. inversion H2; subst. exact W2.
  - (* OCommit *)
    cbn in H. destruct (db_commit_ok d W) as (d2 & H2 & W2). rewrite H in H2. inversion H2; subst. exact W2.
  - (* OReopen *)
    cbn in H. inversion H; subst. apply dwf_reopen.
  - (* OAAdd, even through a handle that aliases a buffered entry: keys are untouched *)
    cbn [step] in H. apply bind_ok in H. destruct H as (ah & _ & H). inversion H; subst.
    unfold ah_write. eapply dwf_fields'; [eapply dwf_poke; exact W|..]; reflexivity.
  - (* OASub *)
    cbn [step] in H. apply bind_ok in H. destruct H as (ah & _ & H). inversion H; subst.
    unfold ah_write. eapply dwf_fields'; [eapply dwf_poke; exact W|..]; reflexivity.
  - (* OASetF *)
    cbn [step] in H. apply bind_ok in H. destruct H as (ah & _ & H). inversion H; subst.
    unfold ah_write. eapply dwf_fields'; [eapply dwf_poke; exact W|..]; reflexivity.
  - (* OSetCode, even when the embedded State is a buffered object *)
    cbn [step] in H. apply bind_ok in H. destruct H as (hs & _ & H). inversion H; subst.
    destruct (hs_ptr hs) as [p|].
    + eapply dwf_fields'; [eapply dwf_poke; exact W|..]; reflexivity.
    + eapply dwf_fields'; [exact W|..]; reflexivity.
  - (* OSetRoot: the buffer is reset *)
    cbn [step] in H. apply bind_ok in H. destruct H as (t & _ & H). apply bind_ok in H. destruct H as (b & Hb & H).
    inversion H; subst. destruct (reset_ok (d_buf d) (proj1 W)) as (b' & Hb' & Wb'). rewrite Hb in Hb'. inversion Hb'; subst.
    eapply dwf_fields'; [apply (dwf_set_buf d b' W Wb')|..]; reflexivity.
  - (* OReopenAt *)
    cbn [step] in H. apply bind_ok in H. destruct H as (t & _ & H). inversion H; subst. apply dwf_reopen.
  - (* OApply *)
    cbn [step] in H. apply bind_ok in H. destruct H as (d1 & _ & H). apply bind_ok in H. destruct H as (d2 & _ & H).
    inversion H; subst. apply dwf_reopen.
Qed.

(** index_wf at block level: every state reachable from a fresh StateDB by any operations
    (the ones that panic — nil handle, out-of-contract revision — stop the run) is well formed;
    Update and Commit never panic on such a state *)
Theorem dwf_run ops : forall d d', dwf d -> run d ops = Ok d' -> dwf d'.
Proof.
  induction ops as [|o tl IH]; intros d d' W H; cbn in H.
  - now inversion H; subst.
  - destruct (step d o) as [d1|] eqn:E; cbn in H; [|discriminate]. apply (IH d1 d'); [eapply dwf_step; eauto|exact H].
Qed.

Theorem update_commit_never_panic t sa sv ops d :
  run (sdb_new t sa sv) ops = Ok d ->
  dwf d /\ (exists d', db_update d = Ok d' /\ dwf d') /\ (exists d', db_commit d = Ok d' /\ dwf d').
Proof.
  intros H. assert (W : dwf d) by (eapply dwf_run; eauto; apply dwf_new).
  split; auto. split; [now apply db_update_ok|now apply db_commit_ok].
Qed.

(** ---- caller-side operations are invisible ---- *)
(** what every read, export, Update and Commit depends on *)
Definition same_block_state (d d' : sdb) : Prop :=
  d_buf d' = d_buf d /\ d_cache d' = d_cache d /\ d_heap d' = d_heap d /\
  d_trie d' = d_trie d /\ d_store_a d' = d_store_a d /\ d_store_v d' = d_store_v d.

(** taking handles and snapshots, reading code or raw keys, writing raw keys, Reset, and SetCode
    through a handle whose embedded State is not a buffered object change nothing of it *)
Theorem caller_side_invisible d o d' :
  match o with
  | OAGet _ | OACreate _ | OAReset _ | OGetCode _ | ORawSet _ _ _ | ORawGet _ _ | OSSnap | OSnap | OCSnap _ | OClear => True
  | OSetCode h _ _ => forall hs p, nth_error (x_hst (d_x d)) h = Some hs -> hs_ptr hs = Some p -> ptr_unused d p
  | _ => False
  end ->
  step d o = Ok d' -> same_block_state d d'.
Proof.
  intros Hd H. destruct o; try contradiction; cbn [step] in H.
  - apply bind_ok in H. destruct H as (s & _ & H). inversion H; subst. repeat split.
  - apply bind_ok in H. destruct H as (co & _ & H). apply bind_ok in H. destruct H as (st & _ & H).
    inversion H; subst. repeat split.
  - inversion H; subst. repeat split.
  - apply bind_ok in H. destruct H as (cur & _ & H). inversion H; subst. repeat split.
  - apply bind_ok in H. destruct H as (ah & _ & H). inversion H; subst. repeat split.
  - apply bind_ok in H. destruct H as (cur & _ & H). destruct cur; inversion H; subst; repeat split.
  - apply bind_ok in H. destruct H as (hs & Hh & H). apply of_opt_ok in Hh. inversion H; subst.
    unfold same_block_state. destruct (hs_ptr hs) as [p|] eqn:Ep; cbn;
      [rewrite (poke_buf_unused p _ (d_buf d) (Hd hs p Hh Ep))|]; repeat split.
  - apply bind_ok in H. destruct H as (hs & _ & H).
    destruct (hs_code hs); [inversion H; subst; repeat split|].
    destruct (f_code (hs_f hs) =? 0)%N; [inversion H; subst; repeat split|].
    destruct (existsb _ _); inversion H; subst; repeat split.
  - apply bind_ok in H. destruct H as (hs & _ & H). inversion H; subst. repeat split.
  - apply bind_ok in H. destruct H as (hs & _ & H). inversion H; subst. repeat split.
  - inversion H; subst. repeat split.
Qed.

(** ---- StateDB.SetRoot / Revert, reopening at a persisted root, StateDB.Rollback ---- *)
Lemma get_state_empty_buffer d a : entries (d_buf d) = [] -> wf (d_buf d) ->
  get_state d a = Ok (trie_state d a).
Proof.
  intros He W. unfold get_state, get_state_ptr. rewrite (get_latest _ a W), He. cbn.
  destruct (trie_state d a); reflexivity.
Qed.

(** SetRoot / Revert to a persisted root: the buffer is emptied (uncommitted account writes are
    discarded), the trie is that root, every account reads as in that trie; the storage cache is
    NOT touched (the main-chain StateDB, the only one the node calls it on, has none) *)
Theorem set_root_spec d i t d' : dwf d -> nth_error (x_roots (d_x d)) i = Some t -> step d (OSetRoot i) = Ok d' ->
  entries (d_buf d') = [] /\ d_trie d' = t /\ d_cache d' = d_cache d /\ d_heap d' = d_heap d /\
  (forall a, get_state d' a = Ok (trie_state d' a)) /\ dwf d'.
Proof.
  intros W Hi H. pose proof (dwf_step _ _ _ W H) as W'. cbn [step] in H. rewrite Hi in H. cbn [of_opt bind] in H.
  apply bind_ok in H. destruct H as (b & Hb & H). inversion H; subst.
  destruct (rollback_ok (d_buf d) 0 (proj1 W) (Nat.le_0_l _)) as (b' & R1 & R2 & R3 & R4).
  unfold sb_reset in Hb. rewrite R1 in Hb. inversion Hb; subst b'.
  assert (He : entries b = []) by (rewrite R3; reflexivity).
  split; [exact He|]. split; [reflexivity|]. split; [reflexivity|]. split; [reflexivity|]. split; [|exact W'].
  intros a. apply get_state_empty_buffer; cbn; auto.
Qed.

(** a new StateDB / BlockState at a persisted root (NewStateDB, Clone, ChainStateDB.NewBlockState
    after Apply or SetRoot): empty buffer and cache, reads are the trie's *)
Theorem reopen_at_spec d t :
  let d' := reopen_at d t in
  d_trie d' = t /\ d_cache d' = [] /\ entries (d_buf d') = [] /\ d_store_a d' = d_store_a d /\ d_store_v d' = d_store_v d /\
  (forall a, get_state d' a = Ok (trie_state d' a)) /\ dwf d'.
Proof.
  intros d'. split; [reflexivity|]. split; [reflexivity|]. split; [reflexivity|]. split; [reflexivity|].
  split; [reflexivity|]. split; [|apply dwf_reopen].
  intros a. apply get_state_empty_buffer; [reflexivity|apply (dwf_reopen d t)].
Qed.

Lemma commit_storages_trie cl : forall d d', commit_storages d cl = Ok d' ->
  d_trie d' = d_trie d /\ d_x d' = d_x d.
Proof.
  induction cl as [|[c o] tl IH]; intros d d' H; cbn [commit_storages] in H.
  - inversion H; subst. auto.
  - apply bind_ok in H. destruct H as (st & _ & H). apply bind_ok in H. destruct H as (sg & _ & H).
    apply bind_ok in H. destruct H as (b & _ & H). apply IH in H. cbn in H. exact H.
Qed.
(** Commit persists the current in-memory trie: it becomes the newest persisted root *)
Theorem commit_records_root d d' : db_commit d = Ok d' ->
  x_roots (d_x d') = x_roots (d_x d) ++ [d_trie d] /\ d_trie d' = d_trie d.
Proof.
  unfold db_commit. intros H. apply bind_ok in H. destruct H as (d1 & H1 & H).
  apply bind_ok in H. destruct H as (sg & _ & H). apply bind_ok in H. destruct H as (b & _ & H).
  inversion H; subst. cbn. destruct (commit_storages_trie _ _ _ H1) as [A B]. rewrite A, B. auto.
Qed.
(** ChainStateDB.Apply: the new block state is opened at the trie Update produced, which is the
    newest persisted root *)
Theorem apply_spec d d' : step d OApply = Ok d' ->
  exists d1 d2, db_update d = Ok d1 /\ db_commit d1 = Ok d2 /\ d_trie d' = d_trie d1 /\
                x_roots (d_x d') = x_roots (d_x d1) ++ [d_trie d1] /\ d_cache d' = [] /\ entries (d_buf d') = [].
Proof.
  cbn [step]. intros H. apply bind_ok in H. destruct H as (d1 & H1 & H). apply bind_ok in H. destruct H as (d2 & H2 & H).
  inversion H; subst. exists d1, d2. destruct (commit_records_root _ _ H2) as [A B].
  split; [exact H1|]. split; [exact H2|]. cbn. rewrite A, B. repeat split.
Qed.

(** StateDB.Rollback to a revision taken by StateDB.Snapshot: the account log is cut back to
    it, nothing else changes *)
Theorem sdb_rollback_spec d j rev : dwf d -> nth_error (x_ssnaps (d_x d)) j = Some rev -> rev <= next_idx (d_buf d) ->
  exists d'', step d (OSRollback j) = Ok d'' /\ entries (d_buf d'') = firstn rev (entries (d_buf d)) /\
              d_cache d'' = d_cache d /\ d_heap d'' = d_heap d /\ d_trie d'' = d_trie d.
Proof.
  intros W Hj Hle. cbn [step]. rewrite Hj. cbn.
  destruct (rollback_ok (d_buf d) rev (proj1 W) Hle) as (b & R1 & R2 & R3 & R4). rewrite R1. cbn.
  eexists. split; [reflexivity|]. cbn. auto.
Qed.

(** The block-level invariant [dwf] is kept by every operation, Update and Commit included:
    in every reachable state get / export / stage / reset index into bounds. *)
From Coq Require Import NArith List Bool Arith Lia Permutation.
From Verif Require Import StateBuf.Model StateBuf.BufProofs StateBuf.Db StateBuf.DbProofs StateBuf.DbRevert.
Import ListNotations.

Lemma pos_rev_map {V} (f : entry V -> entry V) (Hf : forall e, fst (f e) = fst e) k (l : list (entry V)) :
  pos_rev k (map f l) = pos_rev k l.
Proof. induction l as [|e tl IH]; cbn; auto. rewrite Hf, map_length, IH. reflexivity. Qed.
Lemma positions_map {V} (f : entry V -> entry V) (Hf : forall e, fst (f e) = fst e) k (l : list (entry V)) :
  positions k (map f l) = positions k l.
Proof. unfold positions. rewrite <- map_rev. now apply pos_rev_map. Qed.

Lemma wf_poke_root p r b : wf b -> wf (poke_root p r b).
Proof.
  intros [Hn [Hnd H]]. unfold poke_root. split; cbn.
  - now rewrite map_length.
  - split; auto. intros k. rewrite positions_map; auto.
    intros e. destruct (Nat.eqb (a_ptr (snd e)) p); reflexivity.
Qed.

Lemma wf_poke_bal p v b : wf b -> wf (poke_bal p v b).
Proof.
  intros [Hn [Hnd H]]. unfold poke_bal. split; cbn.
  - now rewrite map_length.
  - split; auto. intros k. rewrite positions_map; auto.
    intros e. destruct (Nat.eqb (a_ptr (snd e)) p); reflexivity.
Qed.

(** [dwf] only depends on the buffer, cache, heap and handles *)
Lemma dwf_fields d d' : dwf d -> d_buf d' = d_buf d -> d_cache d' = d_cache d -> d_heap d' = d_heap d ->
  d_handles d' = d_handles d -> dwf d'.
Proof. intros H E1 E2 E3 E4. unfold dwf, obj in *. now rewrite E1, E2, E3, E4. Qed.

Lemma dwf_set_buf d b : dwf d -> wf b -> dwf (set_buf d b).
Proof. intros (Wb & R) W. split; auto. Qed.

Lemma dwf_set_obj d o st st' : dwf d -> obj d o = Some st -> wf (s_buf st') ->
  dwf (set_heap d (list_set (d_heap d) o st')).
Proof.
  intros (Wb & Hnd & Hw & own & Hoc & Hoh) Ho W.
  split; auto. split; auto. split.
  - intros o' st1. unfold obj. cbn. destruct (Nat.eq_dec o' o) as [->|Hn].
    + erewrite nth_list_set_eq by eauto. intros H; inversion H; subst; auto.
    + rewrite nth_list_set_neq by auto. apply Hw.
  - exists own. cbn. rewrite length_list_set. split; auto.
Qed.

Lemma get_state_ptr_ok d a : dwf d -> exists r, get_state_ptr d a = Ok r.
Proof. intros (Wb & _). unfold get_state_ptr. rewrite (get_latest _ a Wb). cbn. destruct (latest _ a); eauto. Qed.

Lemma update_one_ok d cid o : dwf d -> alookup cid (d_cache d) = Some o ->
  exists d', update_one d cid o = Ok d' /\ dwf d' /\ d_cache d' = d_cache d.
Proof.
  intros W Hc. destruct (dwf_cached d cid o W Hc) as (st & Ho & Wst).
  unfold update_one. unfold obj in Ho. rewrite Ho. cbn.
  destruct (export_spec (s_buf st) Wst) as (ex & Hex & _). rewrite Hex. cbn.
  set (trie' := apply_export_s (s_trie st) ex).
  set (dirty' := s_dirty st || negb (smap_eqb trie' (s_trie st))).
  set (d1 := set_heap d (list_set (d_heap d) o (mk_storage (s_buf st) trie' dirty'))).
  assert (W1 : dwf d1) by (eapply dwf_set_obj; eauto).
  destruct dirty'; [|exists d1; auto].
  destruct (get_state_ptr_ok d1 cid W1) as (cur & Hcur). rewrite Hcur. cbn.
  destruct W1 as (Wb1 & R1).
  destruct cur as [[[p|] [bal rt]]|]; eexists; (split; [reflexivity|]); split; try reflexivity.
  - eapply dwf_fields; [apply (dwf_set_buf d1 (sb_put (poke_root p trie' (d_buf d1)) (cid, mk_aval p bal trie')));
                         [split; auto|apply wf_put; now apply wf_poke_root]|..]; reflexivity.
  - eapply dwf_fields; [apply (dwf_set_buf d1 (sb_put (d_buf d1) (cid, mk_aval (d_nptr d1) bal trie')));
                         [split; auto|now apply wf_put]|..]; reflexivity.
  - eapply dwf_fields; [apply (dwf_set_buf d1 (sb_put (d_buf d1) (cid, mk_aval (d_nptr d1) 0%N trie')));
                         [split; auto|now apply wf_put]|..]; reflexivity.
Qed.

Lemma update_storages_ok cl : forall d, dwf d -> (forall c o, In (c, o) cl -> alookup c (d_cache d) = Some o) ->
  exists d', update_storages d cl = Ok d' /\ dwf d' /\ d_cache d' = d_cache d.
Proof.
  induction cl as [|[c o] tl IH]; intros d W Hin; cbn.
  - eauto.
  - destruct (update_one_ok d c o W (Hin c o (or_introl eq_refl))) as (d1 & H1 & W1 & C1). rewrite H1. cbn.
    destruct (IH d1 W1) as (d' & H' & W' & C').
    { intros c' o' Hi. rewrite C1. apply Hin. now right. }
    exists d'. split; auto. split; auto. congruence.
Qed.

Theorem db_update_ok d : dwf d -> exists d', db_update d = Ok d' /\ dwf d'.
Proof.
  intros W. unfold db_update.
  destruct (update_storages_ok (d_cache d) d W) as (d1 & H1 & W1 & C1).
  { intros c o Hin. destruct W as (_ & Hnd & _). now apply in_alookup. }
  rewrite H1. cbn. destruct W1 as (Wb1 & R1).
  destruct (export_spec (d_buf d1) Wb1) as (ex & Hex & _). rewrite Hex. cbn.
  eexists. split; [reflexivity|]. eapply dwf_fields; [split; eauto|..]; reflexivity.
Qed.

Lemma reset_ok {V} (b : sbuf V) : wf b -> exists b', sb_reset b = Ok b' /\ wf b'.
Proof. intros W. destruct (rollback_ok b 0 W (Nat.le_0_l _)) as (b' & H & W' & _). eauto. Qed.

Lemma commit_storages_ok cl : forall d, dwf d -> (forall c o, In (c, o) cl -> alookup c (d_cache d) = Some o) ->
  exists d', commit_storages d cl = Ok d' /\ dwf d' /\ d_cache d' = d_cache d.
Proof.
  induction cl as [|[c o] tl IH]; intros d W Hin; cbn [commit_storages].
  - eauto.
  - destruct (dwf_cached d c o W (Hin c o (or_introl eq_refl))) as (st & Ho & Wst).
    unfold obj in Ho. rewrite Ho. cbn [of_opt bind].
    destruct (stage_spec (s_buf st) Wst) as (staged & Hs & _). rewrite Hs. cbn [bind].
    destruct (reset_ok (s_buf st) Wst) as (b & Hb & Wb'). rewrite Hb. cbn [bind].
    match goal with |- exists d', commit_storages ?D tl = _ /\ _ => set (d1 := D) end.
    assert (W1 : dwf d1).
    { eapply dwf_fields; [apply (dwf_set_obj d o st (mk_storage b (s_trie st) (s_dirty st)) W Ho Wb')|..]; reflexivity. }
    destruct (IH d1 W1) as (d' & H' & W' & C').
    { intros c' o' Hi. apply Hin. now right. }
    exists d'. split; auto.
Qed.

Theorem db_commit_ok d : dwf d -> exists d', db_commit d = Ok d' /\ dwf d'.
Proof.
  intros W. unfold db_commit.
  destruct (commit_storages_ok (d_cache d) d W) as (d1 & H1 & W1 & C1).
  { intros c o Hin. destruct W as (_ & Hnd & _). now apply in_alookup. }
  rewrite H1. cbn [bind]. pose proof W1 as (Wb1 & R1).
  destruct (stage_spec (d_buf d1) Wb1) as (staged & Hs & _). rewrite Hs. cbn [bind].
  destruct (reset_ok (d_buf d1) Wb1) as (b & Hb & Wb'). rewrite Hb. cbn [bind].
  eexists. split; [reflexivity|]. eapply dwf_fields; [apply (dwf_set_buf d1 b W1 Wb')|..]; reflexivity.
Qed.

Lemma dwf_ext_self d : dwf d -> Ext (sdb_new (d_trie d) (d_store_a d) (d_store_v d)) d.
Proof.
  intros W. split; auto. split; [exists (entries (d_buf d)); reflexivity|]. split; [intros c o H; discriminate|].
  split; [intros c o st0 H; discriminate|]. repeat split.
Qed.

(** every operation that does not panic keeps the invariant *)
Theorem dwf_step d o d' : dwf d -> step d o = Ok d' -> dwf d'.
Proof.
  intros W H.
  assert (G : forall t sa sv, dwf (sdb_new t sa sv)) by apply dwf_new.
  destruct o; try (
    (* operations covered by the revert discipline, which is vacuous w.r.t. an empty snapshot *)
    pose proof (G (d_trie d) (d_store_a d) (d_store_v d)) as W0;
    assert (S0 : block_snapshot (sdb_new (d_trie d) (d_store_a d) (d_store_v d)) = Ok (mk_bsnap 0 [])) by reflexivity;
    refine (proj1 (step_ext _ _ d _ d' W0 S0 (dwf_ext_self d W) _ H)); cbn;
    solve [ exact I | intros; discriminate | intros s1 _; split; [cbn; lia|intros c r0 X; discriminate] ]).
  - cbn in H. destruct (db_update_ok d W) as (d2 & H2 & W2). rewrite H in H2. inversion H2; subst. exact W2.
  - cbn in H. destruct (db_commit_ok d W) as (d2 & H2 & W2). rewrite H in H2. inversion H2; subst. exact W2.
  - cbn in H. inversion H; subst. apply dwf_new.
  - (* OAAdd, even through a handle that aliases a buffered entry: keys are untouched *)
    cbn [step] in H. apply bind_ok in H. destruct H as (ah & _ & H). inversion H; subst.
    eapply dwf_fields; [apply (dwf_set_buf d (poke_bal (ah_ptr ah) (ah_bal ah + v) (d_buf d)) W);
                        apply wf_poke_bal; apply W|..]; reflexivity.
  - cbn [step] in H. apply bind_ok in H. destruct H as (ah & _ & H). inversion H; subst.
    eapply dwf_fields; [apply (dwf_set_buf d (poke_bal (ah_ptr ah) (if (v <=? ah_bal ah)%N then (ah_bal ah - v)%N else (v - ah_bal ah)%N) (d_buf d)) W);
                        apply wf_poke_bal; apply W|..]; reflexivity.
Qed.

(** index_wf at block level: every state reachable from a fresh StateDB by any operations
    (the ones that panic — nil handle, out-of-contract revision — stop the run) is well formed;
    Update and Commit never panic on such a state *)
Theorem dwf_run ops : forall d d', dwf d -> run d ops = Ok d' -> dwf d'.
Proof.
  induction ops as [|o tl IH]; intros d d' W H; cbn in H.
  - now inversion H; subst.
  - destruct (step d o) as [d1|] eqn:E; cbn in H; [|discriminate]. apply (IH d1 d'); [eapply dwf_step; eauto|exact H].
Qed.

Theorem update_commit_never_panic t sa sv ops d :
  run (sdb_new t sa sv) ops = Ok d ->
  dwf d /\ (exists d', db_update d = Ok d' /\ dwf d') /\ (exists d', db_commit d = Ok d' /\ dwf d').
Proof.
  intros H. assert (W : dwf d) by (eapply dwf_run; eauto; apply dwf_new).
  split; auto. split; [now apply db_update_ok|now apply db_commit_ok].
Qed.

(** C12 model, part 1: the literal undo log of state/statedb/statebuffer.go.

    [sbuf] mirrors [stateBuffer]: [entries] (append-only log, truncated by rollback),
    [index] (Go map HashID -> *stack, here an association list; a stack is a list with
    its top at the head) and [next_idx].  [put/get/snapshot/rollback/export/stage/reset]
    follow the Go statements one by one, including [peek = -1] on an empty stack
    ([None] here) and the slice accesses [entries[i]], which panic when out of range
    ([Panic] here).  No proofs in this file.

    Keys are 32-byte HashIDs read as big-endian numbers (N): [bytes.Compare] on equal
    length byte strings is the order of N.  The value type is a parameter: the account
    buffer holds *types.State records, a storage buffer holds [option value]
    ([None] = valueEntry with nil value = delete). *)
From Coq Require Import NArith List Bool Arith.
Import ListNotations.

Inductive res (A : Type) : Type := Ok (a : A) | Panic.
Arguments Ok {A} a.
Arguments Panic {A}.
Definition bind {A B} (r : res A) (f : A -> res B) : res B :=
  match r with Ok a => f a | Panic => Panic end.

Definition key := N.

(** Go maps as association lists without duplicate keys. *)
Fixpoint alookup {A} (k : key) (m : list (key * A)) : option A :=
  match m with
  | [] => None
  | (k', a) :: tl => if N.eqb k k' then Some a else alookup k tl
  end.
Fixpoint aremove {A} (k : key) (m : list (key * A)) : list (key * A) :=
  match m with
  | [] => []
  | (k', a) :: tl => if N.eqb k k' then aremove k tl else (k', a) :: aremove k tl
  end.
Fixpoint aset {A} (k : key) (a : A) (m : list (key * A)) : list (key * A) :=
  match m with
  | [] => [(k, a)]
  | (k', a') :: tl => if N.eqb k k' then (k, a) :: tl else (k', a') :: aset k a tl
  end.

(** insertion sort by key: stands for sort.Slice(bufs, KeyID().Compare == -1) *)
Fixpoint kinsert {A} (e : key * A) (l : list (key * A)) : list (key * A) :=
  match l with
  | [] => [e]
  | e' :: tl => if N.leb (fst e) (fst e') then e :: l else e' :: kinsert e tl
  end.
Fixpoint ksort {A} (l : list (key * A)) : list (key * A) :=
  match l with [] => [] | e :: tl => kinsert e (ksort tl) end.

Section SBuf.
  Context {V : Type}.
  Definition entry : Type := key * V.

  Record sbuf := mk_sbuf { entries : list entry; index : list (key * list nat); next_idx : nat }.

  Definition sb_new : sbuf := {| entries := []; index := []; next_idx := 0 |}.

  (** stack.peek: -1 (None) on nil/empty, else the last pushed element *)
  Definition peek (s : list nat) : option nat := hd_error s.

  (** stateBuffer.get: [if index, ok := indexes[key]; ok { return entries[index.peek()] }] *)
  Definition sb_get (b : sbuf) (k : key) : res (option entry) :=
    match alookup k (index b) with
    | None => Ok None
    | Some stk =>
        match peek stk with
        | None => Panic                                   (* entries[-1] *)
        | Some i => match nth_error (entries b) i with
                    | Some e => Ok (Some e)
                    | None => Panic                       (* index out of range *)
                    end
        end
    end.
  Definition sb_has (b : sbuf) (k : key) : bool :=
    match alookup k (index b) with Some _ => true | None => false end.

  Definition sb_snapshot (b : sbuf) : nat := next_idx b.

  (** stateBuffer.put *)
  Definition sb_put (b : sbuf) (e : entry) : sbuf :=
    let k := fst e in
    let stk := match alookup k (index b) with Some s => s | None => [] end in
    {| entries := entries b ++ [e];
       index := aset k (sb_snapshot b :: stk) (index b);
       next_idx := S (next_idx b) |}.

  (** one iteration of the rollback loop for key k:
      [indexes.pop(k); if indexes.peek(k) < 0 { delete(indexes, k) }] *)
  Definition pop_key (k : key) (idx : list (key * list nat)) : list (key * list nat) :=
    match alookup k idx with
    | None => idx                                       (* pop/peek on a nil stack: -1, delete is a no-op *)
    | Some stk => match tl stk with
                  | [] => aremove k idx
                  | s' => aset k s' idx
                  end
    end.

  (** the loop [for i := nextIdx-1; i >= snapshot; i--], [n] iterations left, current
      position [snap + n - 1] *)
  Fixpoint rb_loop (ents : list entry) (idx : list (key * list nat)) (snap n : nat)
    : res (list (key * list nat)) :=
    match n with
    | 0 => Ok idx
    | S m => match nth_error ents (snap + m) with
             | None => Panic
             | Some e => rb_loop ents (pop_key (fst e) idx) snap m
             end
    end.

  (** stateBuffer.rollback.  A revision above [nextIdx] is outside the contract of the
      function (Go would re-slice [entries[:snapshot]] beyond its length: a panic or stale
      entries depending on the capacity chosen by [append]); the model reports [Panic]
      and the engine never executes such a call on the implementation. *)
  Definition sb_rollback (b : sbuf) (snap : nat) : res sbuf :=
    if Nat.ltb (next_idx b) snap then Panic
    else if Nat.ltb (length (entries b)) snap then Panic
    else bind (rb_loop (entries b) (index b) snap (next_idx b - snap)) (fun idx =>
         Ok {| entries := firstn snap (entries b); index := idx; next_idx := snap |}).

  Definition sb_reset (b : sbuf) : res sbuf := sb_rollback b 0.
  Definition sb_is_empty (b : sbuf) : bool := match entries b with [] => true | _ => false end.

  (** the collection loop of export: [for _, v := range indexes { idx := v.peek(); if idx < 0
      { continue }; bufs = append(bufs, entries[idx]) }] in the iteration order [idx] *)
  Fixpoint collect (ents : list entry) (idx : list (key * list nat)) : res (list entry) :=
    match idx with
    | [] => Ok []
    | (_, stk) :: tl =>
        match peek stk with
        | None => collect ents tl
        | Some i => match nth_error ents i with
                    | None => Panic
                    | Some e => bind (collect ents tl) (fun l => Ok (e :: l))
                    end
        end
    end.
  (** stateBuffer.export: collected entries sorted by their own KeyID *)
  Definition sb_export (b : sbuf) : res (list entry) :=
    bind (collect (entries b) (index b)) (fun l => Ok (ksort l)).

  (** stateBuffer.stage: [for _, v := range indexes { et := entries[v.peek()]; txn.Set(...) }]
      — the values handed to the DB transaction (peek = -1 panics here) *)
  Fixpoint sb_stage_idx (ents : list entry) (idx : list (key * list nat)) : res (list entry) :=
    match idx with
    | [] => Ok []
    | (_, stk) :: tl =>
        match peek stk with
        | None => Panic
        | Some i => match nth_error ents i with
                    | None => Panic
                    | Some e => bind (sb_stage_idx ents tl) (fun l => Ok (e :: l))
                    end
        end
    end.
  Definition sb_stage (b : sbuf) : res (list entry) := sb_stage_idx (entries b) (index b).
End SBuf.
Arguments sbuf V : clear implicits.
Arguments entry V : clear implicits.

(** ---- specification: the list of surviving writes and its latest-write view ---- *)
Section Spec.
  Context {V : Type}.
  (** latest entry for key [k] in a write log (last occurrence) *)
  Fixpoint latest (l : list (entry V)) (k : key) : option (entry V) :=
    match l with
    | [] => None
    | e :: tl => match latest tl k with
                 | Some e' => Some e'
                 | None => if N.eqb k (fst e) then Some e else None
                 end
    end.

  (** spec operations: a buffer is the list of surviving writes; every revision number is
      the length of a prefix, so the "stack of frames" is the list of prefixes *)
  Inductive bop := BPut (e : entry V) | BRollback (r : nat).
  Definition spec_step (l : list (entry V)) (o : bop) : list (entry V) :=
    match o with BPut e => l ++ [e] | BRollback r => firstn r l end.
  Definition impl_step (b : sbuf V) (o : bop) : res (sbuf V) :=
    match o with BPut e => Ok (sb_put b e) | BRollback r => sb_rollback b r end.
  Fixpoint impl_run (b : sbuf V) (ops : list bop) : res (sbuf V) :=
    match ops with [] => Ok b | o :: tl => bind (impl_step b o) (fun b' => impl_run b' tl) end.
  Fixpoint spec_run (l : list (entry V)) (ops : list bop) : list (entry V) :=
    match ops with [] => l | o :: tl => spec_run (spec_step l o) tl end.
  (** a rollback target is valid when it does not exceed the current revision *)
  Fixpoint ops_valid (n : nat) (ops : list bop) : Prop :=
    match ops with
    | [] => True
    | BPut _ :: tl => ops_valid (S n) tl
    | BRollback r :: tl => r <= n /\ ops_valid r tl
    end.
  (** every rollback inside [ops] stays at or above revision [r0] *)
  Fixpoint ops_above (r0 : nat) (ops : list bop) : Prop :=
    match ops with
    | [] => True
    | BPut _ :: tl => ops_above r0 tl
    | BRollback r :: tl => r0 <= r /\ ops_above r0 tl
    end.
End Spec.
Arguments bop V : clear implicits.

(** Evaluation helpers for the C17 correspondence check (step engine): a case is the
    ancestor block, the configuration, the number of peers and a list of (event,
    observation of the real BlockFetcher/BlockProcessor after that loop iteration);
    [case_bad_step] = 0 when the model agrees on every emitted message and on every queue
    after every event, else 1 + index of the first differing event. *)
From Coq Require Import ZArith NArith List Bool Arith.
From Verif Require Import Syncer.Model.
Import ListNotations.

Definition blk_eqb (a b : blk) : bool :=
  (b_no a =? b_no b)%N && (b_hash a =? b_hash b)%N && (b_prev a =? b_prev b)%N.

Definition out_eqb (a b : out) : bool :=
  match a, b with
  | OReq p h, OReq q g => (p =? q)%N && list_eqb h g
  | OAdd x, OAdd y => blk_eqb x y
  | OStop e, OStop f => (e =? f)%N
  | _, _ => false
  end.

Fixpoint all2 {A B} (f : A -> B -> bool) (a : list A) (b : list B) : bool :=
  match a, b with
  | [], [] => true
  | x :: r, y :: s => f x y && all2 f r s
  | _, _ => false
  end.

(** running (start, peer, retry), pending starts, retry (start, retry), free (no, fail),
    bad, connq first numbers, curBlock hash, prevBlock hash, stopped *)
Definition sview : Type :=
  list (N * N * nat) * list N * list (N * nat) * list (N * nat) * nat * list N * option N * N * bool.

Definition view (s : st) : sview :=
  (map (fun t => (t_start t, match t_peer t with Some p => p_no p | None => 999%N end, t_retry t)) (running s),
   map t_start (pending s),
   map (fun t => (t_start t, t_retry t)) (retry s),
   map (fun p => (p_no p, p_fail p)) (free s),
   nbad s, map c_first (connq s),
   match cur_blk s with Some b => Some (b_hash b) | None => None end,
   b_hash (prev_blk s), stopped s).

Definition opt_eqb (a b : option N) : bool :=
  match a, b with Some x, Some y => (x =? y)%N | None, None => true | _, _ => false end.

Definition view_eqb (a b : sview) : bool :=
  let '(r1, p1, y1, f1, b1, q1, c1, v1, s1) := a in
  let '(r2, p2, y2, f2, b2, q2, c2, v2, s2) := b in
  all2 (fun x y => let '(a1, a2, a3) := x in let '(c1, c2, c3) := y in (a1 =? c1)%N && (a2 =? c2)%N && (a3 =? c3)%nat) r1 r2
  && list_eqb p1 p2
  && all2 (fun x y => (fst x =? fst y)%N && (snd x =? snd y)%nat) y1 y2
  && all2 (fun x y => (fst x =? fst y)%N && (snd x =? snd y)%nat) f1 f2
  && (b1 =? b2)%nat && list_eqb q1 q2 && opt_eqb c1 c2 && (v1 =? v2)%N && Bool.eqb s1 s2.

Definition sobs : Type := list out * sview.

Fixpoint run_steps (c : cfg) (s : st) (l : list (event * sobs)) (i : nat) : nat :=
  match l with
  | [] => O
  | (e, (oo, ov)) :: r =>
    let '(s', o) := step c s e in
    if all2 out_eqb o oo && view_eqb (view s') ov then run_steps c s' r (S i) else S i
  end.

Definition scase : Type := blk * cfg * nat * list (event * sobs).

Definition case_bad_step (c : scase) : nat :=
  let '(anc, cf, np, steps) := c in run_steps cf (init_st np anc) steps 0.

(* ---- Finder correspondence: predicted ancestor height for an honest peer ---- *)
From Verif Require Import Syncer.Finder.

(** the stub remote answers GetHashByNo with a nil hash (no error) above its best block *)
Definition stub_remote (rc : chainv) (n : N) : rhash :=
  match hash_at rc n with Some h => RHash h | None => RNil end.

(** ancestor height reported by FinderResult: >= 0, -1 = none found, -2 = already
    synchronised (ancestor >= target), -3 = error / ignored answer *)
Definition finder_expect (lc rc : chainv) (target : N) (fullonly : bool) : Z :=
  let full (lastAnchor : N) :=
    let right := ((lastAnchor + 2 ^ 64 - 1) mod 2 ^ 64)%N in
    match bin_search (S (length lc) * 2 + 140) lc (stub_remote rc) 0 right None with
    | inl (Some (_, no)) => Z.of_N no
    | inl None => (-1)%Z
    | inr _ => (-3)%Z
    end in
  if fullonly then full (best_no lc + 1)%N else
  match lightscan lc target (find_ancestor rc (anchor_hashes lc)) with
  | LFound _ no => Z.of_N no
  | LAlreadyDone => (-2)%Z
  | LIgnored => (-3)%Z
  | LNone => full (last_anchor lc)
  end.

Definition fcase : Type := list N * list N * N * bool * Z.
Definition finder_case_ok (c : fcase) : bool :=
  let '(lc, rc, target, fullonly, observed) := c in (finder_expect lc rc target fullonly =? observed)%Z.
Fixpoint bad_indices {A} (ok : A -> bool) (l : list A) (i : nat) : list nat :=
  match l with
  | [] => []
  | x :: r => if ok x then bad_indices ok r (S i) else i :: bad_indices ok r (S i)
  end.

(* ---- chain-side correspondence: real getAnchorsNew / findAncestor ---- *)
(** (asking chain ids by height, answering main chain ids by height, extra anchors appended,
    observed anchor list, observed lastNo, observed ancestor height (-1 none), observed id) *)
Definition acase : Type := list N * list N * list N * list N * N * Z * N.
Fixpoint lN_eqb (a b : list N) : bool :=
  match a, b with
  | [], [] => true
  | x :: r, y :: s => (x =? y)%N && lN_eqb r s
  | _, _ => false
  end.
Definition anchor_case_ok (c : acase) : bool :=
  let '(lc, rc, extra, obs_anchors, obs_last, obs_no, obs_id) := c in
  lN_eqb (anchor_hashes lc ++ extra) obs_anchors
  && (last_anchor lc =? obs_last)%N
  && match find_ancestor rc obs_anchors with
     | Some (h, no) => (Z.of_N no =? obs_no)%Z && (h =? obs_id)%N
     | None => (obs_no =? -1)%Z
     end.

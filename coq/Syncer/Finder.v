(** C17 model, part 2: the Finder (syncer/finder.go), the anchor list
    (chain/chainanchor.go: getAnchorsNew, copied by StubBlockChain.GetAnchors) and the remote
    side's findAncestor (chain/chainhandle.go).  A chain is the list of its main-chain hashes
    by height.  The remote's answers are oracles so that a lying peer can be expressed. *)
From Coq Require Import ZArith NArith List Bool Arith Lia.
Import ListNotations.

Definition chainv := list N.
Fixpoint hash_at (c : chainv) (n : N) : option N :=
  match c with
  | [] => None
  | x :: r => if (n =? 0)%N then Some x else hash_at r (n - 1)
  end.
Definition best_no (c : chainv) : N := N.of_nat (length c) - 1.

Definition MaxAnchors : nat := 32.
Definition Skip : N := 16.

(** getAnchorsNew: heights best, best-16, ..., (0), at most 32 of them *)
Fixpoint anchor_nos (cnt : nat) (no : N) : list N :=
  match cnt with
  | O => []
  | S k => no :: (if (no =? 0)%N then [] else anchor_nos k (if (no <? Skip)%N then 0 else no - Skip)%N)
  end.
Definition anchors (lc : chainv) : list N := anchor_nos MaxAnchors (best_no lc).
Definition last_anchor (lc : chainv) : N := last (anchors lc) 0%N.

Fixpoint index_of (h : N) (c : chainv) (i : N) : option N :=
  match c with
  | [] => None
  | x :: r => if (x =? h)%N then Some i else index_of h r (i + 1)
  end.

(** findAncestor on the remote: the first offered hash that is on its main chain *)
Fixpoint find_ancestor (rc : chainv) (hashes : list N) : option (N * N) :=
  match hashes with
  | [] => None
  | h :: r => match index_of h rc 0 with
              | Some no => Some (h, no)
              | None => find_ancestor rc r
              end
  end.

Inductive lres := LNone | LIgnored | LAlreadyDone | LFound (h no : N).

(** lightscan, given the peer's answer to GetSyncAncestor *)
Definition lightscan (lc : chainv) (target : N) (ans : option (N * N)) : lres :=
  match ans with
  | None => LNone
  | Some (h, no) => if (no <? last_anchor lc)%N then LIgnored
                    else if (target <=? no)%N then LAlreadyDone else LFound h no
  end.

Definition anchor_hashes (lc : chainv) : list N :=
  flat_map (fun n => match hash_at lc n with Some h => [h] | None => [] end) (anchors lc).

Inductive rhash := RHash (h : N) | RNil | RErr.

(** binarySearch(left, right): [inl lastMatch] or [inr tt] = error *)
Fixpoint bin_search (fuel : nat) (lc : chainv) (remote : N -> rhash) (l r : N) (lm : option (N * N))
  : option (N * N) + unit :=
  match fuel with
  | O => inl lm
  | S k =>
    if (r <? l)%N then inl lm else
    let mid := ((l + r) / 2)%N in
    match hash_at lc mid with
    | None => inr tt
    | Some mh =>
      match remote mid with
      | RErr => inr tt
      | RHash h => if (h =? mh)%N then bin_search k lc remote (mid + 1) r (Some (mh, mid))
                   else if (mid =? 0)%N then inl lm else bin_search k lc remote l (mid - 1) lm
      | RNil => if (mid =? 0)%N then inl lm else bin_search k lc remote l (mid - 1) lm
      end
    end
  end.

(** fullscan: binarySearch(0, LastAnchor - 1) in uint64 arithmetic *)
Definition fullscan (lc : chainv) (remote : N -> rhash) (lastAnchor : N) : option (N * N) + unit :=
  let right := ((lastAnchor + 2 ^ 64 - 1) mod 2 ^ 64)%N in
  bin_search (S (N.to_nat (N.log2 right + 1)) * 2) lc remote 0 right None.

Definition truthful (rc : chainv) (n : N) : rhash :=
  match hash_at rc n with Some h => RHash h | None => RErr end.


(** C17 proofs, part 3: the Finder. *)
From Coq Require Import ZArith NArith List Bool Arith Lia.
From Verif Require Import Syncer.Finder.
Import ListNotations.

(* ---------------------------------------------------------------- proofs *)
Lemma index_of_spec : forall h c i no, index_of h c i = Some no ->
  (i <= no)%N /\ hash_at c (no - i) = Some h.
Proof.
  induction c as [|x r IH]; simpl; intros i no H; [discriminate|].
  destruct (N.eqb_spec x h) as [E|E].
  - inversion H; subst. split; [lia|]. replace (no - no)%N with 0%N by lia. reflexivity.
  - destruct (IH _ _ H) as [A B]. split; [lia|].
    destruct (N.eqb_spec (no - i) 0); [lia|].
    replace (no - i - 1)%N with (no - (i + 1))%N by lia. exact B.
Qed.

Lemma find_ancestor_spec : forall rc hs h no, find_ancestor rc hs = Some (h, no) ->
  In h hs /\ hash_at rc no = Some h.
Proof.
  induction hs as [|x r IH]; simpl; intros h no H; [discriminate|].
  destruct (index_of x rc 0) as [n|] eqn:E.
  - inversion H; subst. split; auto. destruct (index_of_spec _ _ _ _ E) as [_ B].
    replace (no - 0)%N with no in B by lia. exact B.
  - destruct (IH _ _ H). auto.
Qed.

Opaque anchor_nos.

(** The light scan's result is on both chains when the peer answers with its findAncestor. *)
Theorem ancestor_is_common : forall lc rc target h no,
  lightscan lc target (find_ancestor rc (anchor_hashes lc)) = LFound h no ->
  (exists a, In a (anchors lc) /\ hash_at lc a = Some h) /\ hash_at rc no = Some h
  /\ (last_anchor lc <= no < target)%N.
Proof.
  intros lc rc target h no. unfold lightscan.
  destruct (find_ancestor rc (anchor_hashes lc)) as [[h0 n0]|] eqn:F; [|discriminate].
  destruct (N.ltb_spec n0 (last_anchor lc)) as [Q1|Q1]; [discriminate|].
  destruct (N.leb_spec target n0) as [Q2|Q2]; [discriminate|].
  intros H; inversion H; subst. destruct (find_ancestor_spec _ _ _ _ F) as [A B].
  split; [|split; [auto|lia]].
  unfold anchor_hashes in A. apply in_flat_map in A. destruct A as (a & Ha & Hh).
  exists a. split; auto. destruct (hash_at lc a); [|destruct Hh]. destruct Hh as [->|[]]. reflexivity.
Qed.

(** Whatever the peer answers, a result of the light scan is at or above the lowest anchor
    and below the target. *)
Theorem lightscan_range : forall lc target ans h no,
  lightscan lc target ans = LFound h no -> ans = Some (h, no) /\ (last_anchor lc <= no < target)%N.
Proof.
  intros lc target ans h no. unfold lightscan. destruct ans as [[h0 n0]|]; [|discriminate].
  destruct (N.ltb_spec n0 (last_anchor lc)) as [Q1|Q1]; [discriminate|].
  destruct (N.leb_spec target n0) as [Q2|Q2]; [discriminate|].
  intros H; inversion H; subst. split; [reflexivity|lia].
Qed.

(** Binary search: the chains agree exactly below height [m] (m = number of common
    blocks) within the searched range and the peer answers truthfully. *)
Section BinSearch.
  Variables (lc rc : chainv) (m : N).
  Hypothesis common : forall i, (i < m)%N -> exists h, hash_at lc i = Some h /\ hash_at rc i = Some h.

  Definition lm_of (l : N) : option (N * N) :=
    if (l =? 0)%N then None else match hash_at lc (l - 1) with Some h => Some (h, l - 1)%N | None => None end.

  Lemma bin_search_correct : forall fuel l r,
    (forall i, (m <= i <= r)%N -> exists a b, hash_at lc i = Some a /\ hash_at rc i = Some b /\ a <> b) ->
    (l <= m <= r + 1)%N -> (N.to_nat (r + 1 - l) < fuel)%nat ->
    bin_search fuel lc (truthful rc) l r (lm_of l) = inl (lm_of m).
  Proof.
    induction fuel as [|k IH]; intros l r Diff B F; [lia|].
    cbn [bin_search]. destruct (N.ltb_spec r l) as [C|C].
    - assert (l = m) by lia. subst. reflexivity.
    - set (mid := ((l + r) / 2)%N).
      assert (Hm : (l <= mid <= r)%N).
      { unfold mid. split; [apply N.div_le_lower_bound; lia|apply N.div_le_upper_bound; lia]. }
      destruct (N.lt_ge_cases mid m) as [Lt|Ge].
      + destruct (common mid Lt) as (h & H1 & H2). rewrite H1. unfold truthful. rewrite H2.
        rewrite N.eqb_refl.
        assert (E : Some (h, mid) = lm_of (mid + 1)).
        { unfold lm_of. destruct (N.eqb_spec (mid + 1) 0); [lia|].
          replace (mid + 1 - 1)%N with mid by lia. rewrite H1. reflexivity. }
        rewrite E. apply IH; auto; lia.
      + destruct (Diff mid ltac:(lia)) as (a & b & H1 & H2 & Ne). rewrite H1. unfold truthful. rewrite H2.
        destruct (N.eqb_spec b a); [congruence|].
        destruct (N.eqb_spec mid 0) as [Z|NZ].
        * assert (l = 0)%N by lia. assert (m = 0)%N by lia. subst. reflexivity.
        * apply IH; try lia. intros i Hi. apply Diff. lia.
  Qed.
End BinSearch.

(** fullscan returns the highest common block when the chains share exactly a prefix. *)
Theorem fullscan_highest_common : forall lc rc m right fuel,
  (forall i, (i < m)%N -> exists h, hash_at lc i = Some h /\ hash_at rc i = Some h) ->
  (forall i, (m <= i <= right)%N -> exists a b, hash_at lc i = Some a /\ hash_at rc i = Some b /\ a <> b) ->
  (m <= right + 1)%N -> (N.to_nat (right + 1) < fuel)%nat ->
  bin_search fuel lc (truthful rc) 0 right None =
  inl (if (m =? 0)%N then None
       else match hash_at lc (m - 1) with Some h => Some (h, m - 1)%N | None => None end).
Proof.
  intros lc rc m right fuel C D B F.
  pose proof (bin_search_correct lc rc m C fuel 0 right D ltac:(lia) ltac:(lia)) as H.
  unfold lm_of in H at 1. simpl in H. exact H.
Qed.

Transparent anchor_nos.

(** non-vacuity: a 40-block local chain forking from the remote at height 21 *)
Example ex_anchors : anchors (List.repeat 7%N 41) = [40; 24; 8; 0]%N.
Proof. vm_compute. reflexivity. Qed.
Example ex_bin : bin_search 20 [1;2;3;4;5;6]%N (truthful [1;2;3;9;8;7;6]%N) 0 5 None = inl (Some (3, 2)%N).
Proof. vm_compute. reflexivity. Qed.
(** LastAnchor = 0 (every chain shorter than 497 blocks): LastAnchor-1 wraps to 2^64-1 and the
    first probe asks the local chain for a height it does not have: the session ends with an
    error instead of scanning. *)
Example ex_fullscan_wraps : fullscan [1;2;3]%N (truthful [1;2;4]%N) 0 = inr tt.
Proof. vm_compute. reflexivity. Qed.

(** The lowest anchor height handed to the full scan is the height of an anchor of the list. *)
Lemma anchor_nos_nonempty : forall cnt no, cnt <> O -> anchor_nos cnt no <> [].
Proof. destruct cnt; simpl; intros no H; [contradiction|discriminate]. Qed.

Theorem last_anchor_is_an_anchor : forall lc, In (last_anchor lc) (anchors lc).
Proof.
  intros lc. unfold last_anchor, anchors.
  pose proof (anchor_nos_nonempty MaxAnchors (best_no lc) ltac:(discriminate)) as H.
  destruct (anchor_nos MaxAnchors (best_no lc)) as [|x r]; [contradiction|].
  apply (@exists_last _ (x :: r)) in H. destruct H as (l' & a & E). rewrite E.
  rewrite last_last. apply in_or_app. right. left. reflexivity.
Qed.

(** The full scan searches every height below the lowest anchor: when the chains share exactly
    the prefix of [m] blocks and the fork is at or below the lowest anchor, binarySearch(0,
    LastAnchor-1) returns the highest common block. *)
Theorem fullscan_range_covers_below_last_anchor : forall lc rc m fuel,
  (0 < last_anchor lc)%N -> (m <= last_anchor lc)%N ->
  (forall i, (i < m)%N -> exists h, hash_at lc i = Some h /\ hash_at rc i = Some h) ->
  (forall i, (m <= i < last_anchor lc)%N -> exists a b, hash_at lc i = Some a /\ hash_at rc i = Some b /\ a <> b) ->
  (N.to_nat (last_anchor lc) < fuel)%nat ->
  bin_search fuel lc (truthful rc) 0 (last_anchor lc - 1) None =
  inl (if (m =? 0)%N then None
       else match hash_at lc (m - 1) with Some h => Some (h, m - 1)%N | None => None end).
Proof.
  intros lc rc m fuel P M C D F.
  apply fullscan_highest_common; auto; try lia.
  intros i Hi. apply D. lia.
Qed.

(** C17 model, part 4: the HashFetcher (syncer/hashfetcher.go) as far as the hash sets it hands
    to the BlockFetcher are concerned: requestHashSet, isValidResponse, processHashSet.  A
    response is (PrevInfo, Hashes, Count, Err) as delivered by p2p/hashreceiver.go (which sets
    Count = len(Hashes)); empty responses are dropped by GetHahsesRsp before they get here. *)
From Coq Require Import ZArith NArith List Bool Arith Lia.
From Verif Require Import Syncer.Model Syncer.Proofs.
Import ListNotations.

Record hfst := mkHf { hf_last_no : N; hf_last_hash : N; hf_req : N; hf_done : bool }.
Record hrsp := mkRsp { r_prev_no : N; r_prev_hash : N; r_hashes : list N; r_count : N; r_err : bool }.

Definition hf_request (maxreq target : N) (s : hfst) : hfst :=
  let cnt := if (target <? hf_last_no s + maxreq)%N then (target - hf_last_no s)%N else maxreq in
  mkHf (hf_last_no s) (hf_last_hash s) cnt (hf_done s).

(** one response: new state and the hash set pushed to the BlockFetcher, if any *)
Definition hf_on_rsp (maxreq target : N) (s : hfst) (r : hrsp) : hfst * option (N * list N) :=
  if hf_done s then (s, None) else
  match r_hashes r with
  | [] => (s, None)                                   (* GetHahsesRsp drops an empty response *)
  | _ =>
    if r_err r then (mkHf (hf_last_no s) (hf_last_hash s) (hf_req s) true, None) else
    if negb ((r_prev_no r =? hf_last_no s)%N && (r_prev_hash r =? hf_last_hash s)%N && (r_count r =? hf_req s)%N)
    then (s, None) else
    let lastno := (hf_last_no s + N.of_nat (length (r_hashes r)))%N in
    if (target <? lastno)%N then (mkHf (hf_last_no s) (hf_last_hash s) (hf_req s) true, None) (* ErrInvalidHashSet *)
    else
      let s1 := mkHf lastno (last (r_hashes r) 0%N) (hf_req s) ((lastno =? target)%N) in
      (if hf_done s1 then s1 else hf_request maxreq target s1, Some ((hf_last_no s + 1)%N, r_hashes r))
  end.

Fixpoint hf_run (maxreq target : N) (s : hfst) (rs : list hrsp) : list (N * list N) :=
  match rs with
  | [] => []
  | r :: t => let '(s', p) := hf_on_rsp maxreq target s r in
              match p with Some x => x :: hf_run maxreq target s' t | None => hf_run maxreq target s' t end
  end.

(** consecutive ranges starting right above [n] *)
Fixpoint consecutive (n : N) (l : list (N * list N)) : Prop :=
  match l with
  | [] => True
  | (start, hs) :: t => start = (n + 1)%N /\ hs <> [] /\ consecutive (n + N.of_nat (length hs)) t
  end.

Lemma hf_on_rsp_push : forall maxreq target s r s' start hs,
  hf_on_rsp maxreq target s r = (s', Some (start, hs)) ->
  start = (hf_last_no s + 1)%N /\ hs <> [] /\ hf_last_no s' = (hf_last_no s + N.of_nat (length hs))%N
  /\ (hf_last_no s' <= target)%N.
Proof.
  intros maxreq target s r s' start hs. unfold hf_on_rsp.
  destruct (hf_done s); [discriminate|]. destruct (r_hashes r) as [|h t] eqn:E; [discriminate|].
  destruct (r_err r); [discriminate|]. destruct (negb _); [discriminate|].
  destruct (N.ltb_spec target (hf_last_no s + N.of_nat (length (h :: t)))) as [Q|Q]; [discriminate|].
  intros HH. inversion HH; subst. repeat split; auto; try discriminate;
    destruct (_ =? _)%N; simpl; auto.
Qed.

Lemma hf_on_rsp_none : forall maxreq target s r s',
  hf_on_rsp maxreq target s r = (s', None) -> hf_last_no s' = hf_last_no s.
Proof.
  intros maxreq target s r s'. unfold hf_on_rsp.
  destruct (hf_done s); [intros H; inversion H; auto|]. destruct (r_hashes r); [intros H; inversion H; auto|].
  destruct (r_err r); [intros H; inversion H; auto|]. destruct (negb _); [intros H; inversion H; auto|].
  destruct (_ <? _)%N; [intros H; inversion H; auto|discriminate].
Qed.

(** Whatever the peer answers, the hash sets handed to the BlockFetcher are consecutive
    non-empty ranges starting right above the ancestor and never pass the target. *)
Theorem hashsets_consecutive : forall maxreq target rs s,
  consecutive (hf_last_no s) (hf_run maxreq target s rs).
Proof.
  induction rs as [|r t IH]; intros s; simpl; auto.
  destruct (hf_on_rsp maxreq target s r) as [s' [[start hs]|]] eqn:E.
  - destruct (hf_on_rsp_push _ _ _ _ _ _ _ E) as (A & B & C & _). simpl. repeat split; auto.
    rewrite <- C. apply IH.
  - rewrite <- (hf_on_rsp_none _ _ _ _ _ E). apply IH.
Qed.

(** Consecutive ranges agree with one hash list: the premise [ev_ok] of the delivery theorems. *)
Lemma consecutive_agree : forall l n (L : N -> option N), consecutive n l ->
  (forall k, (n < k)%N -> L k = nth_error (concat (map snd l)) (N.to_nat (k - n - 1))) ->
  Forall (fun x => hs_ok L (Some x)) l.
Proof.
  induction l as [|[start hs] t IH]; intros n L C HL; [constructor|].
  simpl in C. destruct C as (-> & Ne & C). constructor.
  - simpl. intros i h E. rewrite HL by lia. simpl.
    replace (N.to_nat (n + 1 + N.of_nat i - n - 1)) with i by lia.
    rewrite nth_error_app1; auto. apply nth_error_Some. congruence.
  - apply (IH (n + N.of_nat (length hs))%N); auto.
    intros k Hk. rewrite HL by lia. simpl.
    rewrite nth_error_app2 by lia. f_equal. lia.
Qed.

Theorem hashsets_agree_with_one_list : forall maxreq target rs s,
  exists L, Forall (fun x => ev_ok L (EHashSet (fst x) (snd x))) (hf_run maxreq target s rs).
Proof.
  intros maxreq target rs s.
  exists (fun k => if (k <=? hf_last_no s)%N then None
                   else nth_error (concat (map snd (hf_run maxreq target s rs))) (N.to_nat (k - hf_last_no s - 1))).
  pose proof (consecutive_agree _ _
    (fun k => if (k <=? hf_last_no s)%N then None
              else nth_error (concat (map snd (hf_run maxreq target s rs))) (N.to_nat (k - hf_last_no s - 1)))
    (hashsets_consecutive maxreq target rs s)) as H.
  eapply Forall_impl; [|apply H].
  - intros [a b] Q. exact Q.
  - intros k Hk. destruct (N.leb_spec k (hf_last_no s)); [lia|reflexivity].
Qed.

Example ex_hf : hf_run 3 7 (hf_request 3 7 (mkHf 0 100 0 false))
  [mkRsp 0 100 [101;102;103]%N 3 false; mkRsp 0 100 [9;9;9]%N 3 false; mkRsp 3 103 [104;105]%N 2 false;
   mkRsp 3 103 [104;105;106]%N 3 false; mkRsp 6 106 [107]%N 1 false]
  = [(1, [101;102;103]); (4, [104;105;106]); (7, [107])]%N.
Proof. vm_compute. reflexivity. Qed.

(* ---- the goroutine loop and its response timer ---- *)

(** The HashFetcher goroutine as a loop: where it stands, whether its response timer is armed
    and whether an expiry sits unread in timer.C.  Events: a response handed over by the Syncer,
    the timer expiring, quitCh being closed.  [drain] selects the idiom used when a response
    arrives: plain [timer.Stop()] (the code) or [if !timer.Stop() { <-timer.C }]. *)
Inductive hloc := LSelect | LExited | LBlockedOnTimer.
Record hloop := mkHl { hl_loc : hloc; hl_armed : bool; hl_fired : bool; hl_stops : nat }.
Inductive hev := HRsp | HFire | HReadTimer | HQuit.

Definition hl_step (drain : bool) (s : hloop) (e : hev) : hloop :=
  match hl_loc s with
  | LSelect =>
    match e with
    | HFire => if hl_armed s then mkHl LSelect false true (hl_stops s) else s            (* the runtime sends on timer.C *)
    | HReadTimer => if hl_fired s then mkHl LSelect (hl_armed s) false (S (hl_stops s)) else s  (* case <-timer.C: stopSyncer, loop goes on *)
    | HRsp =>
        (* case msg := <-responseCh: stop the timer, process, timer.Reset *)
        if drain && negb (hl_armed s) && negb (hl_fired s) then mkHl LBlockedOnTimer false false (hl_stops s)
        else mkHl LSelect true (if drain then false else hl_fired s) (hl_stops s)
    | HQuit => mkHl LExited (hl_armed s) (hl_fired s) (hl_stops s)
    end
  | _ => s
  end.

Definition hl_run (drain : bool) (s : hloop) (es : list hev) : hloop := fold_left (hl_step drain) es s.
Definition hl_init : hloop := mkHl LSelect true false 0.

(** As coded, the loop is always back in its select: closing quitCh ends the goroutine after any
    history, in particular after both orders of a late response and the timer expiry. *)
Lemma hl_code_in_select : forall es s, hl_loc s = LSelect -> hl_loc (hl_run false s es) <> LBlockedOnTimer.
Proof.
  induction es as [|e r IH]; intros s H; simpl; [rewrite H; discriminate|].
  assert (Q : hl_loc (hl_step false s e) = LSelect \/ hl_loc (hl_step false s e) = LExited).
  { unfold hl_step. rewrite H. destruct e; simpl; auto.
    - destruct (hl_armed s); auto.
    - destruct (hl_fired s); auto. }
  destruct Q as [Q|Q]; [apply IH; auto|].
  clear IH H. revert Q. generalize (hl_step false s e). induction r as [|x r IH]; intros t Q; simpl; [rewrite Q; discriminate|].
  apply IH. unfold hl_step. rewrite Q. exact Q.
Qed.

Theorem hashfetcher_exits_after_stop : forall es,
  hl_loc (hl_run false hl_init (es ++ [HQuit])) = LExited.
Proof.
  intros es. unfold hl_run. rewrite fold_left_app.
  pose proof (hl_code_in_select es hl_init eq_refl) as H. unfold hl_run in H.
  set (t := fold_left (hl_step false) es hl_init) in *. cbn [fold_left].
  unfold hl_step. destruct (hl_loc t) eqn:E; [reflexivity|exact E|contradiction].
Qed.

(** With the drain idiom the order expiry, timeout branch, late response parks the goroutine on
    timer.C outside any select: quitCh is never seen again (the seeded C17-r4 change). *)
Theorem drain_idiom_refuted :
  hl_loc (hl_run true hl_init [HFire; HReadTimer; HRsp; HQuit]) = LBlockedOnTimer.
Proof. reflexivity. Qed.

Example both_orders_exit :
  hl_loc (hl_run false hl_init [HRsp; HFire; HReadTimer; HQuit]) = LExited
  /\ hl_loc (hl_run false hl_init [HFire; HReadTimer; HRsp; HQuit]) = LExited
  /\ hl_loc (hl_run false hl_init [HFire; HRsp; HReadTimer; HQuit]) = LExited.
Proof. repeat split; reflexivity. Qed.

(** C17 proofs, part 5: the block processor never sits on a chunk it could pop (a safety
    invariant in support of "stops or completes"; it is not a liveness proof). *)
From Coq Require Import ZArith NArith List Bool Arith Lia.
From Verif Require Import Syncer.Model Syncer.Proofs Syncer.Theorems Syncer.Progress.
Import ListNotations.


(** When nothing is being connected, no chunk is half-consumed and the head of the connect
    queue is not the next block: the processor never sits on a chunk it could pop. *)
Definition idle_ok (s : st) : Prop :=
  stopped s = false -> cur_blk s = None ->
  cur_conn s = None /\ match connq s with [] => True | c :: _ => c_first c <> (b_no (prev_blk s) + 1)%N end.

Lemma get_next_idle : forall s s' ob, cur_blk s = None -> get_next s = inl (s', ob) ->
  cur_blk s' = None ->
  cur_conn s' = None /\ match connq s' with [] => True | c :: _ => c_first c <> (b_no (prev_blk s') + 1)%N end.
Proof.
  intros s s' ob CB. unfold get_next, get_next_with. rewrite CB.
  set (cc := match cur_conn s with
             | Some (c, i) => if (length (c_blocks c) <=? S i)%nat then None else Some (c, S i)
             | None => None end).
  destruct cc as [[c i]|].
  - destruct (nth_error (c_blocks c) i); intros H; inversion H; subst; simpl. discriminate.
  - unfold pop_conn. cbn -[nth_error N.eqb N.add].
    destruct (connq s) as [|c0 r] eqn:Q.
    + intros H; inversion H; subst. simpl. rewrite ?Q. auto.
    + destruct (N.eqb_spec (c_first c0) (b_no (prev_blk s) + 1)) as [E|E]; cbn [negb].
      * destruct (c_blocks c0) as [|b bs] eqn:B; [discriminate|].
        destruct (_ =? _)%N; [|discriminate]. cbn -[N.eqb N.add]. rewrite ?B.
        intros H; inversion H; subst. simpl. discriminate.
      * intros H; inversion H; subst. simpl. rewrite ?Q. auto.
Qed.

Lemma idle_proc_eq : forall s s', proc_eq s s' -> stopped s' = stopped s -> idle_ok s -> idle_ok s'.
Proof.
  intros s s' (A1 & A2 & A3 & A4) St J S C. rewrite A1, A2, A4. apply J; congruence.
Qed.

Lemma idle_stopped : forall s, idle_ok (set_stopped s).
Proof. intros s S. simpl in S. discriminate. Qed.

Lemma finish_idle : forall L c s o e s' o', Inv L s -> idle_ok s -> finish c (s, o, e) = (s', o') -> idle_ok s'.
Proof.
  intros L c s o e s' o' I J. unfold finish. destruct e as [err|].
  - intros H; inversion H; subst. apply idle_stopped.
  - destruct (schedule (S (length (free s))) c s) as [[s1 o1] e1] eqn:SC.
    destruct (schedule_ok L _ _ _ _ _ _ I SC) as (I1 & PE & _ & _ & St1).
    destruct e1 as [err|]; intros H; inversion H; subst; [apply idle_stopped|].
    eapply idle_proc_eq; eauto.
Qed.

Lemma on_chunk_idle : forall L s p bs err s' o e, Inv L s -> idle_ok s ->
  on_chunk s p bs err = (s', o, e) -> e = None -> idle_ok s'.
Proof.
  intros L s p bs err s' o e I J. unfold on_chunk, on_chunk_with.
  destruct (err || negb (chunk_linked bs)) eqn:Bad.
  - destruct (take_first (fun t => peer_is t p) (running s)) as [[t r]|] eqn:TF.
    + destruct (take_first_spec _ _ _ _ TF) as (_ & Tin & Sub).
      pose proof (inv_run _ _ I) as FR.
      assert (Tk : task_ok L t) by (rewrite Forall_forall in FR; auto).
      assert (I0 : Inv L (set_queues s r (pending s) (retry s))).
      { apply Inv_set_queues; auto. eapply Forall_sub; eauto. apply (inv_pend _ _ I). apply (inv_retry _ _ I). }
      destruct (process_failed_task (set_queues s r (pending s) (retry s)) t false) as [s1 bad] eqn:PF.
      destruct (process_failed_ok L _ _ _ _ _ I0 Tk PF) as (I1 & PE & St).
      intros H _; inversion H; subst. eapply idle_proc_eq; [| |exact J].
      * eapply proc_eq_trans; [|exact PE]. repeat split.
      * rewrite St. reflexivity.
    + intros H _; inversion H; subst. exact J.
  - destruct (take_first (fun t => is_matched t p bs) (running s)) as [[t r]|] eqn:TF.
    + set (s1 := set_queues s r (pending s) (retry s)).
      set (s2 := match t_peer t with Some q => set_peers s1 (free s1 ++ [q]) (nbad s1) | None => s1 end).
      assert (P2 : cur_blk s2 = cur_blk s /\ cur_conn s2 = cur_conn s /\ prev_blk s2 = prev_blk s /\ stopped s2 = stopped s).
      { unfold s2, s1. destruct (t_peer t); repeat split. }
      destruct P2 as (C2 & CC2 & PV2 & ST2).
      set (c := mkChunk (match bs with b :: _ => b_no b | [] => 0%N end) bs).
      set (s3 := set_proc s2 (conn_push c (connq s2)) (cur_conn s2) (cur_blk s2) (prev_blk s2)).
      destruct (get_next_with pop_conn s3) as [[s4 ob]|e4] eqn:G; [|intros H E; inversion H; subst; discriminate].
      intros H _; inversion H; subst. intros S4 C4.
      destruct (cur_blk s) as [cb|] eqn:CB.
      * (* a block was in flight: get_next returned the state unchanged *)
        exfalso. assert (E3 : cur_blk s3 = Some cb) by (unfold s3; simpl; rewrite C2; reflexivity).
        unfold get_next_with in G. rewrite E3 in G. inversion G; subst; congruence.
      * apply (get_next_idle s3 s' ob); auto; unfold s3; simpl; rewrite C2; reflexivity.
    + intros H _; inversion H; subst. exact J.
Qed.

Lemma on_add_rsp_idle : forall c s no h err s' o e,
  on_add_rsp c s no h err = (s', o, e) -> e = None -> idle_ok s'.
Proof.
  intros c s no h err s' o e. unfold on_add_rsp, on_add_rsp_with.
  destruct err; [intros H E; inversion H; subst; discriminate|].
  destruct h as [h|]; [|intros H E; inversion H; subst; discriminate].
  destruct (cur_blk s) as [cb|] eqn:CB; [|intros H E; inversion H; subst; discriminate].
  destruct (negb _); [intros H E; inversion H; subst; discriminate|].
  set (s1 := set_proc s (connq s) (cur_conn s) None cb).
  destruct (get_next_with pop_conn s1) as [[s2 ob]|e2] eqn:G; [|intros H E; inversion H; subst; discriminate].
  intros H _; inversion H; subst. intros S2 C2.
  apply (get_next_idle s1 s' ob); auto.
Qed.

Theorem step_idle : forall L c s e s' o, Inv L s -> idle_ok s -> step c s e = (s', o) -> idle_ok s'.
Proof.
  intros L c s e s' o I J. unfold step, step_with.
  destruct (stopped s) eqn:St; [intros H; inversion H; subst; exact J|].
  destruct e as [start hs|p bs err|no h err|timed|].
  - intros H; inversion H; subst. destruct (hfch s); [exact J|]. intros S C. simpl in *. apply J; auto.
  - destruct (on_chunk_with pop_conn s p bs err) as [[s1 o1] e1] eqn:OC.
    destruct (on_chunk_ok L _ _ _ _ _ _ _ I OC) as (I1 & _).
    intros H. destruct e1 as [er|].
    + unfold finish in H. inversion H; subst. apply idle_stopped.
    + apply (finish_idle L c s1 o1 None s' o I1); [|exact H]. exact (on_chunk_idle L s p bs err s1 o1 None I J OC eq_refl).
  - destruct (on_add_rsp_with pop_conn c s no h err) as [[s1 o1] e1] eqn:OA.
    destruct (on_add_rsp_ok L _ _ _ _ _ _ _ _ I OA) as (I1 & _).
    intros H. destruct e1 as [er|].
    + unfold finish in H. inversion H; subst. apply idle_stopped.
    + apply (finish_idle L c s1 o1 None s' o I1); [|exact H]. exact (on_add_rsp_idle c s no h err s1 o1 None OA eq_refl).
  - destruct (check_timeout timed (running s) s) as [s1 e1] eqn:CT.
    destruct (check_timeout_ok L _ _ _ _ _ I (inv_run _ _ I) CT) as (I1 & PE & St1).
    intros H. apply (finish_idle L c s1 [] e1 s' o I1); [|exact H]. eapply idle_proc_eq; eauto.
  - intros H; inversion H; subst. apply idle_stopped.
Qed.

Theorem never_sits_on_next_chunk : forall L c np anc es s o,
  Forall (ev_ok L) es -> run c (init_st np anc) es = (s, o) -> idle_ok s.
Proof.
  intros L c np anc es.
  assert (G : forall es s0 s o, Inv L s0 -> idle_ok s0 -> Forall (ev_ok L) es -> run c s0 es = (s, o) -> idle_ok s).
  { clear es. induction es as [|e r IH]; intros s0 s o I J F H.
    - unfold run in H. simpl in H. inversion H; subst. exact J.
    - inversion F as [|? ? Fe Fr]; subst. unfold run in *. simpl in H.
      destruct (step_with pop_conn c s0 e) as [s1 o1] eqn:S1.
      destruct (run_with pop_conn c s1 r) as [s2 o2] eqn:R2. inversion H; subst.
      destruct (step_ok L c s0 e s1 o1 I Fe S1) as (I1 & _).
      apply (IH s1 s o2 I1 (step_idle L c s0 e s1 o1 I J S1) Fr R2). }
  intros s o F R. eapply G; eauto. apply init_inv. intros _ _. simpl. auto.
Qed.

(** The head of the retry queue is scheduled whenever a peer is free and a fetch slot is
    open, however full the connect queue is (the exemption from maxPendingConn: the failed
    chunk may be exactly the one the connect queue is waiting for). *)
Theorem retry_task_always_schedulable : forall k c s p fr t r,
  free s = p :: fr -> (length (running s) < max_tasks c)%nat ->
  retry s = t :: r -> (0 < t_retry t)%nat -> all_bad s = false ->
  exists s' outs e, schedule (S k) c s = (s', OReq (p_no p) (t_hashes t) :: outs, e).
Proof.
  intros k c s p fr t r F R Y T B. cbn [schedule]. rewrite F.
  destruct (Nat.leb_spec (max_tasks c) (length (running s))) as [Q|Q]; [lia|].
  unfold search_candidate. rewrite Y.
  destruct (Nat.eqb_spec (t_retry t) 0) as [Z|Z]; [lia|].
  rewrite andb_false_r. rewrite B.
  destruct (schedule k c (launch s t p fr)) as [[s5 outs] e]. eauto.
Qed.

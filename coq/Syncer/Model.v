(** C17 model, part 1: the single-goroutine state machine of BlockFetcher + BlockProcessor
    (/repo/syncer/blockfetcher.go, blockprocessor.go), after the F16 repair
    (fixes/F16_syncer_linked_chunks.diff: [isMatched] also compares block numbers with the
    requested positions, [popFromConnQueue] compares the first block's parent hash with the
    last connected block and stops the session otherwise).

    One [event] = one iteration of the fetcher's select loop (a chunk response, an
    AddBlockRsp, a scheduler tick with the set of running tasks whose timer expired, a hash
    set arriving from the HashFetcher, quit); after every event the loop calls [schedule].
    Peers are adversarial: a chunk event carries any peer id and any blocks.  Blocks are
    (number, hash, parent hash) triples as the code reads them (GetHeader().BlockNo,
    GetHash(), GetHeader().PrevBlockHash); nothing relates the three fields a priori.
    Outputs are the messages the code sends: GetBlockChunks requests, AddBlock submissions
    to the chain service, SyncStop.  No proofs in this file. *)
From Coq Require Import ZArith NArith List Bool Arith.
Import ListNotations.

Record blk := mkBlk { b_no : N; b_hash : N; b_prev : N }.

Record peer := mkPeer { p_no : N; p_fail : nat }.                (* SyncPeer (ID = No) *)

Record task := mkTask { t_start : N; t_hashes : list N; t_retry : nat; t_peer : option peer }.

Record chunk := mkChunk { c_first : N; c_blocks : list blk }.     (* ConnectTask *)

Record cfg := mkCfg { fetch_size : nat; max_tasks : nat; max_pending : nat; c_target : N }.

(** error classes of SyncStop *)
Definition E_OK : N := 0.        (* nil: target reached *)
Definition E_ALLBAD : N := 1.    (* ErrAllPeerBad *)
Definition E_RSPERR : N := 2.    (* the Err carried by a response message *)
Definition E_SYNCMSG : N := 3.   (* ErrSyncMsg: unknown / invalid add response, unlinked chunk *)
Definition E_PANIC : N := 4.     (* ErrSyncerPanic via RecoverSyncer *)

Inductive out :=
| OReq (p : N) (hashes : list N)      (* GetBlockChunks to peer p *)
| OAdd (b : blk)                      (* AddBlock to the chain service *)
| OStop (err : N).                    (* SyncStop *)

Record st := mkSt {
  running : list task; pending : list task; retry : list task;
  free : list peer; nbad : nat; ntotal : nat;
  cur_hs : bool;                          (* curHashSet != nil *)
  hfch : option (N * list N);             (* a hash set waiting in hfCh: (StartNo, Hashes) *)
  connq : list chunk; cur_conn : option (chunk * nat);
  cur_blk : option blk; prev_blk : blk;
  stopped : bool                          (* the loop has returned *)
}.

Definition MaxPeerFailCount : nat := 3.

(* ---- setters ---- *)
Definition set_queues (s : st) r p y :=
  mkSt r p y (free s) (nbad s) (ntotal s) (cur_hs s) (hfch s) (connq s) (cur_conn s) (cur_blk s) (prev_blk s) (stopped s).
Definition set_peers (s : st) f b :=
  mkSt (running s) (pending s) (retry s) f b (ntotal s) (cur_hs s) (hfch s) (connq s) (cur_conn s) (cur_blk s) (prev_blk s) (stopped s).
Definition set_hs (s : st) c h :=
  mkSt (running s) (pending s) (retry s) (free s) (nbad s) (ntotal s) c h (connq s) (cur_conn s) (cur_blk s) (prev_blk s) (stopped s).
Definition set_proc (s : st) q cc cb pb :=
  mkSt (running s) (pending s) (retry s) (free s) (nbad s) (ntotal s) (cur_hs s) (hfch s) q cc cb pb (stopped s).
Definition set_stopped (s : st) :=
  mkSt (running s) (pending s) (retry s) (free s) (nbad s) (ntotal s) (cur_hs s) (hfch s) (connq s) (cur_conn s) (cur_blk s) (prev_blk s) true.

(* ---- queues ---- *)
(** SortedTaskQueue.Push: before the first task with a larger startNo, else at the back. *)
Fixpoint retry_push (t : task) (q : list task) : list task :=
  match q with
  | [] => [t]
  | x :: r => if (t_start t <? t_start x)%N then t :: q else x :: retry_push t r
  end.

(** pushToConnQueue: before the first chunk with a larger firstNo. *)
Fixpoint conn_push (c : chunk) (q : list chunk) : list chunk :=
  match q with
  | [] => [c]
  | x :: r => if (c_first c <? c_first x)%N then c :: q else x :: conn_push c r
  end.

(** addNewFetchTasks: the hash set cut into tasks of at most [n] hashes. *)
Fixpoint split_tasks (fuel : nat) (n : nat) (start : N) (hs : list N) : list task :=
  match fuel with
  | O => []
  | S k => match hs with
           | [] => []
           | _ => mkTask start (firstn n hs) 0 None
                  :: split_tasks k n (start + N.of_nat (length (firstn n hs))) (skipn n hs)
           end
  end.

(* ---- peers ---- *)
(** PeerSet.processPeerFail *)
Definition peer_fail (s : st) (p : peer) (is_err : bool) : st :=
  let p' := mkPeer (p_no p) (S (p_fail p)) in
  if is_err || (MaxPeerFailCount <=? p_fail p')%nat then set_peers s (free s) (S (nbad s))
  else set_peers s (free s ++ [p']) (nbad s).

(** processFailedTask: error when every peer is bad afterwards. *)
Definition process_failed_task (s : st) (t : task) (is_err : bool) : st * bool :=
  let s1 := match t_peer t with Some p => peer_fail s p is_err | None => s end in
  let t' := mkTask (t_start t) (t_hashes t) (S (t_retry t)) None in
  let s2 := set_queues s1 (running s1) (pending s1) (retry_push t' (retry s1)) in
  (s2, (ntotal s2 =? nbad s2)%nat).

(* ---- scheduler ---- *)
(** searchCandidateTask: the task at the head of the retry queue, else of the pending queue
    (refilled from a waiting hash set).  [None] also stands for "blocked waiting for the
    first hash set". *)
Definition search_candidate (c : cfg) (s : st) : option task * st :=
  match retry s with
  | t :: _ => (Some t, s)
  | [] =>
    match pending s with
    | t :: _ => (Some t, s)
    | [] =>
      match hfch s with
      | None => (None, s)
      | Some (start, hs) =>
        let ts := split_tasks (S (length hs)) (fetch_size c) start hs in
        let s' := set_hs (set_queues s (running s) ts (retry s)) true None in
        (hd_error ts, s')
      end
    end
  end.

Definition all_bad (s : st) : bool := (ntotal s =? nbad s)%nat.

(** popFreePeer + popNextTask + runTask *)
Definition launch (s1 : st) (t : task) (p : peer) (frest : list peer) : st :=
  let s2 := set_peers s1 frest (nbad s1) in
  let s3 := match t_retry t with
            | O => set_queues s2 (running s2) (tl (pending s2)) (retry s2)
            | _ => set_queues s2 (running s2) (pending s2) (tl (retry s2))
            end in
  set_queues s3 (running s3 ++ [mkTask (t_start t) (t_hashes t) (t_retry t) (Some p)]) (pending s3) (retry s3).

(** the loop of schedule(): (state, requests sent, error) *)
Fixpoint schedule (fuel : nat) (c : cfg) (s : st) : st * list out * option N :=
  match fuel with
  | O => (s, [], None)
  | S k =>
    match free s with
    | [] => (s, [], None)
    | p :: frest =>
      if (max_tasks c <=? length (running s))%nat then (s, [], None) else
      let '(cand, s1) := search_candidate c s in
      match cand with
      | None => (s1, [], None)
      | Some t =>
        if (max_pending c <=? length (connq s1))%nat && (t_retry t =? 0)%nat then (s1, [], None) else
        if all_bad s1 then (s1, [], Some E_ALLBAD) else
        let '(s5, outs, e) := schedule k c (launch s1 t p frest) in
        (s5, OReq (p_no p) (t_hashes t) :: outs, e)
      end
    end
  end.

(* ---- matching responses to running tasks ---- *)
Fixpoint list_eqb (a b : list N) : bool :=
  match a, b with
  | [], [] => true
  | x :: r, y :: s => (x =? y)%N && list_eqb r s
  | _, _ => false
  end.

Fixpoint numbered_from (n : N) (bs : list blk) : bool :=
  match bs with
  | [] => true
  | b :: r => (b_no b =? n)%N && numbered_from (n + 1) r
  end.

Definition peer_is (t : task) (p : N) : bool :=
  match t_peer t with Some q => (p_no q =? p)%N | None => false end.

(** FetchTask.isMatched (with the block-number comparison of the repair) *)
Definition is_matched (t : task) (p : N) (bs : list blk) : bool :=
  (length (t_hashes t) =? length bs)%nat && peer_is t p
  && list_eqb (t_hashes t) (map b_hash bs) && numbered_from (t_start t) bs.

(** findFinished: first running task satisfying [f], removed from the queue *)
Fixpoint take_first (f : task -> bool) (q : list task) : option (task * list task) :=
  match q with
  | [] => None
  | t :: r => if f t then Some (t, r)
              else match take_first f r with
                   | Some (x, r') => Some (x, t :: r')
                   | None => None
                   end
  end.

(** isValidResponse for a chunk: no error, non-empty, every block names its predecessor *)
Fixpoint linked_from (prev : N) (bs : list blk) : bool :=
  match bs with
  | [] => true
  | b :: r => (b_prev b =? prev)%N && linked_from (b_hash b) r
  end.
Definition chunk_linked (bs : list blk) : bool :=
  match bs with [] => false | b :: r => linked_from (b_hash b) r end.

(* ---- block processor ---- *)
(** popFromConnQueue (repaired): [inl None] = nothing to connect yet, [inr] = error *)
Definition pop_conn (s : st) : (option (chunk * list chunk)) + N :=
  match connq s with
  | [] => inl None
  | c :: r =>
    if negb (c_first c =? b_no (prev_blk s) + 1)%N then inl None else
    match c_blocks c with
    | b :: _ => if (b_prev b =? b_hash (prev_blk s))%N then inl (Some (c, r)) else inr E_SYNCMSG
    | [] => inr E_PANIC                  (* Blocks[0] of an empty chunk; chunks are never empty *)
    end
  end.

(** the unrepaired test: only the number of the first block is compared *)
Definition pop_conn_f16 (s : st) : (option (chunk * list chunk)) + N :=
  match connq s with
  | [] => inl None
  | c :: r => if negb (c_first c =? b_no (prev_blk s) + 1)%N then inl None else inl (Some (c, r))
  end.

(** getNextBlockToConnect, parameterised by the pop function *)
Definition get_next_with (pop : st -> (option (chunk * list chunk)) + N) (s : st)
  : (st * option blk) + N :=
  match cur_blk s with
  | Some _ => inl (s, None)
  | None =>
    let cc := match cur_conn s with
              | Some (c, i) => if (length (c_blocks c) <=? S i)%nat then None else Some (c, S i)
              | None => None
              end in
    let s1 := set_proc s (connq s) cc None (prev_blk s) in
    let r := match cc with
             | Some ci => inl (Some (ci, s1))
             | None => match pop s1 with
                       | inl None => inl None
                       | inl (Some (c, q)) => inl (Some ((c, O), set_proc s1 q (Some (c, O)) None (prev_blk s1)))
                       | inr e => inr e
                       end
             end in
    match r with
    | inr e => inr e
    | inl None => inl (s1, None)
    | inl (Some ((c, i), s2)) =>
      match nth_error (c_blocks c) i with
      | Some b => inl (set_proc s2 (connq s2) (Some (c, i)) (Some b) (prev_blk s2), Some b)
      | None => inr E_PANIC
      end
    end
  end.
Definition get_next := get_next_with pop_conn.

Definition out_add (ob : option blk) : list out := match ob with Some b => [OAdd b] | None => [] end.

(** GetBlockChunkRsp: (state, outputs, error) *)
Definition on_chunk_with (pop : st -> (option (chunk * list chunk)) + N)
    (s : st) (p : N) (bs : list blk) (err : bool) : st * list out * option N :=
  if err || negb (chunk_linked bs) then
    (* GetBlockChunkRspError: the first running task of that peer fails *)
    match take_first (fun t => peer_is t p) (running s) with
    | None => (s, [], None)
    | Some (t, r) =>
      let '(s1, bad) := process_failed_task (set_queues s r (pending s) (retry s)) t false in
      (s1, [], if bad then Some E_ALLBAD else None)
    end
  else
    match take_first (fun t => is_matched t p bs) (running s) with
    | None => (s, [], None)                                  (* dropped unknown response *)
    | Some (t, r) =>
      let s1 := set_queues s r (pending s) (retry s) in
      let s2 := match t_peer t with Some q => set_peers s1 (free s1 ++ [q]) (nbad s1) | None => s1 end in
      let c := mkChunk (match bs with b :: _ => b_no b | [] => 0%N end) bs in
      let s3 := set_proc s2 (conn_push c (connq s2)) (cur_conn s2) (cur_blk s2) (prev_blk s2) in
      match get_next_with pop s3 with
      | inl (s4, ob) => (s4, out_add ob, None)
      | inr e => (s3, [], Some e)
      end
    end.
Definition on_chunk := on_chunk_with pop_conn.

(** AddBlockResponse *)
Definition on_add_rsp_with (pop : st -> (option (chunk * list chunk)) + N)
    (c : cfg) (s : st) (no : N) (hash : option N) (err : bool) : st * list out * option N :=
  if err then (s, [], Some E_RSPERR) else
  match hash with
  | None => (s, [], Some E_SYNCMSG)
  | Some h =>
    match cur_blk s with
    | None => (s, [], Some E_PANIC)                       (* curBlock.GetHeader().BlockNo on nil *)
    | Some cb =>
      if negb ((b_no cb =? no)%N && (b_hash cb =? h)%N) then (s, [], Some E_SYNCMSG) else
      let o1 := if (b_no cb =? c_target c)%N then [OStop E_OK] else [] in
      let s1 := set_proc s (connq s) (cur_conn s) None cb in
      match get_next_with pop s1 with
      | inl (s2, ob) => (s2, o1 ++ out_add ob, None)
      | inr e => (s1, o1, Some e)
      end
    end
  end.
Definition on_add_rsp := on_add_rsp_with pop_conn.

(** checkTaskTimeout: the running tasks whose start number is in [timed] have expired *)
Fixpoint check_timeout (timed : list N) (todo : list task) (s : st) : st * option N :=
  match todo with
  | [] => (s, None)
  | t :: r =>
    if existsb (N.eqb (t_start t)) timed then
      let s0 := set_queues s (snd (List.partition (fun x => (t_start x =? t_start t)%N) (running s)))
                           (pending s) (retry s) in
      let '(s1, bad) := process_failed_task s0 t false in
      if bad then (s1, Some E_ALLBAD) else check_timeout timed r s1
    else check_timeout timed r s
  end.

Inductive event :=
| EHashSet (start : N) (hs : list N)               (* HashFetcher pushes into hfCh *)
| EChunk (p : N) (bs : list blk) (err : bool)      (* GetBlockChunksRsp *)
| EAddRsp (no : N) (hash : option N) (err : bool)  (* AddBlockRsp *)
| ETick (timed : list N)                           (* schedTicker *)
| EQuit.                                           (* quitCh closed *)

Definition finish (c : cfg) (r : st * list out * option N) : st * list out :=
  let '(s, o, e) := r in
  match e with
  | Some err => (set_stopped s, o ++ [OStop err])
  | None =>
    let '(s', o', e') := schedule (S (length (free s))) c s in
    match e' with
    | Some err => (set_stopped s', o ++ o' ++ [OStop err])
    | None => (s', o ++ o')
    end
  end.

Definition step_with (pop : st -> (option (chunk * list chunk)) + N) (c : cfg) (s : st) (e : event)
  : st * list out :=
  if stopped s then (s, []) else
  match e with
  | EHashSet start hs =>
      (* the channel holds one set; a second one waits in the HashFetcher (not an event yet) *)
      (match hfch s with None => set_hs s (cur_hs s) (Some (start, hs)) | Some _ => s end, [])
  | EChunk p bs err => finish c (on_chunk_with pop s p bs err)
  | EAddRsp no h err => finish c (on_add_rsp_with pop c s no h err)
  | ETick timed => let '(s1, e1) := check_timeout timed (running s) s in finish c (s1, [], e1)
  | EQuit => (set_stopped s, [])
  end.
Definition step := step_with pop_conn.

Fixpoint run_with pop (c : cfg) (s : st) (es : list event) : st * list out :=
  match es with
  | [] => (s, [])
  | e :: r => let '(s1, o1) := step_with pop c s e in
              let '(s2, o2) := run_with pop c s1 r in (s2, o1 ++ o2)
  end.
Definition run := run_with pop_conn.

Fixpoint mk_peers (n : nat) (i : N) : list peer :=
  match n with O => [] | S k => mkPeer i 0 :: mk_peers k (i + 1) end.

(** newBlockFetcher + init(): [npeers] running peers, nothing fetched, prevBlock = ancestor *)
Definition init_st (npeers : nat) (ancestor : blk) : st :=
  mkSt [] [] [] (mk_peers npeers 0) 0 npeers false None [] None None ancestor false.

Definition delivered (o : list out) : list blk :=
  flat_map (fun x => match x with OAdd b => [b] | _ => [] end) o.
Definition stops (o : list out) : list N :=
  flat_map (fun x => match x with OStop e => [e] | _ => [] end) o.

(** C17 proofs, part 4: a progress measure of the block processor; consequence: at most one
    successful stop per session, sent where the measure crosses the target height. *)
From Coq Require Import ZArith NArith List Bool Arith Lia.
From Verif Require Import Syncer.Model Syncer.Proofs Syncer.Theorems.
Import ListNotations.


(** progress measure: twice the height of the last block handed over, plus one once it has
    been acknowledged *)
Definition phase (s : st) : N :=
  (2 * b_no (last_of s) + match cur_blk s with Some _ => 0 | None => 1 end)%N.

Lemma get_next_prev : forall s s' ob, get_next s = inl (s', ob) -> prev_blk s' = prev_blk s.
Proof.
  intros s s' ob. unfold get_next, get_next_with.
  destruct (cur_blk s); [intros H; inversion H; subst; reflexivity|].
  set (cc := match cur_conn s with
             | Some (c, i) => if (length (c_blocks c) <=? S i)%nat then None else Some (c, S i)
             | None => None end).
  destruct cc as [[c i]|].
  - destruct (nth_error (c_blocks c) i); intros H; inversion H; subst. reflexivity.
  - destruct (pop_conn _) as [[[c q]|]|e].
    + destruct (nth_error (c_blocks c) 0); intros H; inversion H; subst. reflexivity.
    + intros H; inversion H; subst. reflexivity.
    + discriminate.
Qed.

Lemma get_next_phase : forall L s s' ob, Inv L s -> get_next s = inl (s', ob) -> (phase s <= phase s')%N.
Proof.
  intros L s s' ob I G. pose proof (get_next_ok L s I) as K. rewrite G in K.
  destruct K as (I' & Ch & La & _). pose proof (get_next_prev _ _ _ G) as Pv.
  unfold phase. destruct ob as [b|].
  - simpl in Ch. destruct Ch as (Cn & _). rewrite La. destruct (cur_blk s), (cur_blk s'); lia.
  - rewrite La. destruct (cur_blk s) as [cb|] eqn:C1; [destruct (cur_blk s'); lia|].
    destruct (cur_blk s') as [b'|] eqn:C2; [|lia]. exfalso.
    pose proof (inv_cur _ _ I') as IC. rewrite C2 in IC. destruct IC as (c & i & _ & _ & Nb & _).
    unfold last_of in La. rewrite C1, C2 in La. subst b'. rewrite Pv in Nb. lia.
Qed.

Lemma proc_eq_phase : forall s s', proc_eq s s' -> phase s' = phase s.
Proof. intros s s' (A1 & A2 & A3 & A4). unfold phase, last_of. rewrite A3, A4. reflexivity. Qed.

Lemma on_chunk_phase : forall L s p bs err s' o e, Inv L s -> on_chunk s p bs err = (s', o, e) ->
  (phase s <= phase s')%N /\ ~ In (OStop E_OK) o.
Proof.
  intros L s p bs err s' o e I. unfold on_chunk, on_chunk_with.
  destruct (err || negb (chunk_linked bs)) eqn:Bad.
  - destruct (take_first (fun t => peer_is t p) (running s)) as [[t r]|] eqn:TF.
    + destruct (take_first_spec _ _ _ _ TF) as (_ & Tin & Sub).
      pose proof (inv_run _ _ I) as FR.
      assert (Tk : task_ok L t) by (rewrite Forall_forall in FR; auto).
      assert (I0 : Inv L (set_queues s r (pending s) (retry s))).
      { apply Inv_set_queues; auto. eapply Forall_sub; eauto. apply (inv_pend _ _ I). apply (inv_retry _ _ I). }
      destruct (process_failed_task (set_queues s r (pending s) (retry s)) t false) as [s1 bad] eqn:PF.
      destruct (process_failed_ok L _ _ _ _ _ I0 Tk PF) as (I1 & PE & St).
      intros H; inversion H; subst. split; [|intros []].
      rewrite (proc_eq_phase _ _ PE). unfold phase, last_of. simpl. lia.
    + intros H; inversion H; subst. split; [lia|intros []].
  - apply orb_false_elim in Bad. destruct Bad as [_ Lk]. apply negb_false_iff in Lk.
    destruct (take_first (fun t => is_matched t p bs) (running s)) as [[t r]|] eqn:TF.
    + destruct (take_first_spec _ _ _ _ TF) as (M & Tin & Sub).
      pose proof (inv_run _ _ I) as FR.
      assert (Tk : task_ok L t) by (rewrite Forall_forall in FR; auto).
      set (s1 := set_queues s r (pending s) (retry s)).
      assert (I1 : Inv L s1).
      { apply Inv_set_queues; auto. eapply Forall_sub; eauto. apply (inv_pend _ _ I). apply (inv_retry _ _ I). }
      set (s2 := match t_peer t with Some q => set_peers s1 (free s1 ++ [q]) (nbad s1) | None => s1 end).
      assert (I2 : Inv L s2 /\ proc_eq s s2).
      { unfold s2. destruct (t_peer t); [split; [apply Inv_set_peers; auto|]|split; [auto|]]; repeat split. }
      destruct I2 as (I2 & PE2).
      set (c := mkChunk (match bs with b :: _ => b_no b | [] => 0%N end) bs).
      set (s3 := set_proc s2 (conn_push c (connq s2)) (cur_conn s2) (cur_blk s2) (prev_blk s2)).
      assert (I3 : Inv L s3).
      { unfold s3. apply Inv_set_proc; auto.
        - apply conn_push_Forall; [eapply matched_chunk_ok; eauto|apply (inv_q _ _ I2)].
        - apply (inv_cc _ _ I2).
        - apply (inv_cur _ _ I2). }
      assert (P3 : phase s3 = phase s).
      { unfold s3, phase, last_of. simpl. destruct PE2 as (_ & _ & A3 & A4). rewrite A3, A4. reflexivity. }
      destruct (get_next_with pop_conn s3) as [[s4 ob]|e4] eqn:G.
      * pose proof (get_next_phase L s3 s4 ob I3 G) as Ph. intros H; inversion H; subst.
        split; [lia|]. destruct ob; simpl; [intros [Q|[]]; discriminate|intros []].
      * intros H; inversion H; subst. split; [lia|intros []].
    + intros H; inversion H; subst. split; [lia|intros []].
Qed.

Definition count_ok (o : list out) : nat := count_occ N.eq_dec (stops o) E_OK.

Lemma count_ok_app : forall a b, count_ok (a ++ b) = (count_ok a + count_ok b)%nat.
Proof. intros. unfold count_ok. rewrite stops_app, count_occ_app. reflexivity. Qed.

Lemma count_ok_zero : forall o, ~ In (OStop E_OK) o -> count_ok o = O.
Proof.
  induction o as [|x r IH]; intros H; [reflexivity|].
  unfold count_ok in *. destruct x as [p h|b|e]; simpl in *; try (apply IH; intuition).
  destruct (N.eq_dec e E_OK) as [->|Ne]; [exfalso; apply H; auto|].
  apply IH. intuition.
Qed.

Lemma on_add_rsp_phase : forall L c s no h err s' o e, Inv L s -> on_add_rsp c s no h err = (s', o, e) ->
  (phase s <= phase s')%N
  /\ (count_ok o <= 1)%nat
  /\ (count_ok o = 1%nat -> phase s = (2 * c_target c)%N /\ (2 * c_target c < phase s')%N).
Proof.
  intros L c s no h err s' o e I. unfold on_add_rsp, on_add_rsp_with.
  assert (TR : forall er, (s, @nil out, Some er) = (s', o, e) ->
     (phase s <= phase s')%N /\ (count_ok o <= 1)%nat
     /\ (count_ok o = 1%nat -> phase s = (2 * c_target c)%N /\ (2 * c_target c < phase s')%N)).
  { intros er H; inversion H; subst. split; [lia|]. split; [unfold count_ok; simpl; lia|]. unfold count_ok; simpl; discriminate. }
  destruct err; [apply TR|]. destruct h as [h|]; [|apply TR].
  destruct (cur_blk s) as [cb|] eqn:CB; [|apply TR].
  destruct (negb ((b_no cb =? no)%N && (b_hash cb =? h)%N)); [apply TR|].
  set (s1 := set_proc s (connq s) (cur_conn s) None cb).
  assert (I1 : Inv L s1).
  { unfold s1. apply Inv_set_proc; auto. apply (inv_q _ _ I). apply (inv_cc _ _ I).
    pose proof (inv_cur _ _ I) as IC. rewrite CB in IC. destruct IC as (c0 & i0 & E0 & N0 & _).
    intros c1 i1 E1. rewrite E0 in E1. inversion E1; subst. auto. }
  assert (P0 : phase s = (2 * b_no cb)%N) by (unfold phase, last_of; rewrite CB; lia).
  assert (P1 : phase s1 = (2 * b_no cb + 1)%N) by (unfold s1, phase, last_of; simpl; lia).
  assert (CO : forall ob, count_ok ((if (b_no cb =? c_target c)%N then [OStop E_OK] else []) ++ out_add ob)
               = if (b_no cb =? c_target c)%N then 1%nat else 0%nat).
  { intros ob. rewrite count_ok_app. destruct (b_no cb =? c_target c)%N; destruct ob; reflexivity. }
  destruct (get_next_with pop_conn s1) as [[s2 ob]|e2] eqn:G.
  - pose proof (get_next_phase L s1 s2 ob I1 G) as Ph. intros H; inversion H; subst.
    rewrite CO. destruct (N.eqb_spec (b_no cb) (c_target c)) as [E|E].
    + split; [lia|]. split; [lia|]. intros _. split; lia.
    + split; [lia|]. split; [lia|]. discriminate.
  - intros H; inversion H; subst.
    replace (if (b_no cb =? c_target c)%N then [OStop E_OK] else []) with
        ((if (b_no cb =? c_target c)%N then [OStop E_OK] else []) ++ out_add None) by apply app_nil_r.
    rewrite CO. destruct (N.eqb_spec (b_no cb) (c_target c)) as [E|E].
    + split; [lia|]. split; [lia|]. intros _. split; lia.
    + split; [lia|]. split; [lia|]. discriminate.
Qed.

Lemma on_chunk_err : forall s p bs err s' o e, on_chunk s p bs err = (s', o, e) -> e <> Some E_OK.
Proof.
  intros s p bs err s' o e. unfold on_chunk, on_chunk_with.
  destruct (err || negb (chunk_linked bs)).
  - destruct (take_first _ (running s)) as [[t r]|].
    + destruct (process_failed_task _ t false) as [s1 bad]. intros H; inversion H; subst. destruct bad; discriminate.
    + intros H; inversion H; subst. discriminate.
  - destruct (take_first _ (running s)) as [[t r]|].
    + match goal with |- context [get_next_with pop_conn ?S3] => destruct (get_next_with pop_conn S3) as [[s4 ob]|e4] eqn:G end.
      * intros H; inversion H; subst. discriminate.
      * intros H; inversion H; subst. apply get_next_err_not_ok in G. congruence.
    + intros H; inversion H; subst. discriminate.
Qed.

Lemma on_add_rsp_err : forall c s no h err s' o e, on_add_rsp c s no h err = (s', o, e) -> e <> Some E_OK.
Proof.
  intros c s no h err s' o e. unfold on_add_rsp, on_add_rsp_with.
  destruct err; [intros H; inversion H; subst; discriminate|].
  destruct h as [h|]; [|intros H; inversion H; subst; discriminate].
  destruct (cur_blk s) as [cb|]; [|intros H; inversion H; subst; discriminate].
  destruct (negb _); [intros H; inversion H; subst; discriminate|].
  match goal with |- context [get_next_with pop_conn ?S1] => destruct (get_next_with pop_conn S1) as [[s2 ob]|e2] eqn:G end.
  - intros H; inversion H; subst. discriminate.
  - intros H; inversion H; subst. apply get_next_err_not_ok in G. congruence.
Qed.

Lemma count_ok_stop_err : forall err, err <> E_OK -> count_ok [OStop err] = O.
Proof. intros err Ne. unfold count_ok. simpl. destruct (N.eq_dec err E_OK); [contradiction|reflexivity]. Qed.

Lemma count_ok_no_stops : forall o, stops o = [] -> count_ok o = O.
Proof. intros o H. unfold count_ok. rewrite H. reflexivity. Qed.

Lemma phase_set_stopped : forall s, phase (set_stopped s) = phase s.
Proof. reflexivity. Qed.

Lemma finish_phase : forall L c s o e s' o', Inv L s -> e <> Some E_OK -> finish c (s, o, e) = (s', o') ->
  phase s' = phase s /\ count_ok o' = count_ok o.
Proof.
  intros L c s o e s' o' I Ne. unfold finish. destruct e as [err|].
  - intros H; inversion H; subst. split; [reflexivity|].
    rewrite count_ok_app, count_ok_stop_err; [lia|congruence].
  - destruct (schedule (S (length (free s))) c s) as [[s1 o1] e1] eqn:SC.
    destruct (schedule_ok L _ _ _ _ _ _ I SC) as (I1 & PE & D1 & S1 & St1).
    destruct (schedule_no_ok_stop _ _ _ _ _ _ SC) as [_ B].
    destruct e1 as [err|]; intros H; inversion H; subst.
    + split; [rewrite phase_set_stopped; apply proc_eq_phase; auto|].
      rewrite !count_ok_app, (count_ok_no_stops _ S1), count_ok_stop_err; [lia|congruence].
    + split; [apply proc_eq_phase; auto|]. rewrite count_ok_app, (count_ok_no_stops _ S1). lia.
Qed.

Definition step_progress (c : cfg) (s s' : st) (o : list out) : Prop :=
  (phase s <= phase s')%N /\ (count_ok o <= 1)%nat
  /\ (count_ok o = 1%nat -> (phase s <= 2 * c_target c)%N /\ (2 * c_target c < phase s')%N).

Lemma step_phase : forall L c s e s' o, Inv L s -> step c s e = (s', o) -> step_progress c s s' o.
Proof.
  intros L c s e s' o I. unfold step, step_with, step_progress.
  assert (Z0 : forall s0, phase s0 = phase s -> (phase s <= phase s0)%N /\ (count_ok [] <= 1)%nat
            /\ (count_ok [] = 1%nat -> (phase s <= 2 * c_target c)%N /\ (2 * c_target c < phase s0)%N)).
  { intros s0 E. rewrite E. split; [lia|]. split; [unfold count_ok; simpl; lia|]. unfold count_ok; simpl; discriminate. }
  destruct (stopped s); [intros H; inversion H; subst; apply Z0; reflexivity|].
  destruct e as [start hs|p bs err|no h err|timed|].
  - intros H; inversion H; subst. apply Z0. destruct (hfch s); reflexivity.
  - destruct (on_chunk_with pop_conn s p bs err) as [[s1 o1] e1] eqn:OC.
    destruct (on_chunk_phase L _ _ _ _ _ _ _ I OC) as (Ph & No).
    destruct (on_chunk_ok L _ _ _ _ _ _ _ I OC) as (I1 & _).
    intros H. destruct (finish_phase L c s1 o1 e1 s' o I1 (on_chunk_err _ _ _ _ _ _ _ OC) H) as (P2 & C2).
    rewrite P2, C2, (count_ok_zero _ No). split; [lia|]. split; [lia|discriminate].
  - destruct (on_add_rsp_with pop_conn c s no h err) as [[s1 o1] e1] eqn:OA.
    destruct (on_add_rsp_phase L _ _ _ _ _ _ _ _ I OA) as (Ph & C1 & St).
    destruct (on_add_rsp_ok L _ _ _ _ _ _ _ _ I OA) as (I1 & _).
    intros H. destruct (finish_phase L c s1 o1 e1 s' o I1 (on_add_rsp_err _ _ _ _ _ _ _ _ OA) H) as (P2 & C2).
    rewrite P2, C2. split; [lia|]. split; [lia|]. intros E. destruct (St E). lia.
  - destruct (check_timeout timed (running s) s) as [s1 e1] eqn:CT.
    destruct (check_timeout_ok L _ _ _ _ _ I (inv_run _ _ I) CT) as (I1 & PE & _).
    intros H. destruct (finish_phase L c s1 [] e1 s' o I1 (check_timeout_err _ _ _ _ _ CT) H) as (P2 & C2).
    rewrite P2, C2, (proc_eq_phase _ _ PE). split; [lia|]. split; [unfold count_ok; simpl; lia|]. unfold count_ok; simpl; discriminate.
  - intros H; inversion H; subst. apply Z0. reflexivity.
Qed.

(** At most one successful stop in any run; when there is one, the progress measure crosses
    the target there and nowhere else. *)
Theorem success_once : forall L c es s s' o, Inv L s -> Forall (ev_ok L) es -> run c s es = (s', o) ->
  step_progress c s s' o.
Proof.
  intros L c. induction es as [|e r IH]; intros s s' o I F H.
  - unfold run in H. simpl in H. inversion H; subst. unfold step_progress.
    split; [lia|]. split; [unfold count_ok; simpl; lia|]. unfold count_ok; simpl; discriminate.
  - inversion F as [|? ? Fe Fr]; subst. unfold run in *. simpl in H.
    destruct (step_with pop_conn c s e) as [s1 o1] eqn:S1.
    destruct (run_with pop_conn c s1 r) as [s2 o2] eqn:R2. inversion H; subst.
    destruct (step_ok L c s e s1 o1 I Fe S1) as (I1 & _).
    destruct (step_phase L c s e s1 o1 I S1) as (A1 & A2 & A3).
    destruct (IH _ _ _ I1 Fr R2) as (B1 & B2 & B3).
    unfold step_progress. rewrite count_ok_app. split; [lia|].
    destruct (count_ok o1) as [|[|n1]] eqn:C1; [|destruct (A3 eq_refl)|lia].
    + split; [lia|]. intros E. destruct (B3 E). lia.
    + destruct (count_ok o2) as [|n2] eqn:C2.
      * split; [lia|]. intros _. lia.
      * exfalso. assert (n2 = O) by lia. subst. destruct (B3 eq_refl). lia.
Qed.

Theorem success_at_most_once : forall L c np anc es s o,
  Forall (ev_ok L) es -> run c (init_st np anc) es = (s, o) ->
  (count_ok o <= 1)%nat /\ (phase (init_st np anc) <= phase s)%N.
Proof.
  intros L c np anc es s o F R.
  destruct (success_once L c es _ _ _ (init_inv L np anc) F R) as (A & B & _). auto.
Qed.

(** C17 proofs, part 1: delivery order of the BlockFetcher/BlockProcessor state machine. *)
From Coq Require Import ZArith NArith List Bool Arith Lia.
From Verif Require Import Syncer.Model.
Import ListNotations.

Lemma conn_push_length : forall c q, length (conn_push c q) = S (length q).
Proof. induction q as [|x r IH]; simpl; auto. destruct (_ <? _)%N; simpl; auto. Qed.

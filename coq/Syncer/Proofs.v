(** C17 proofs, part 1: the invariant of the BlockFetcher/BlockProcessor state machine and
    its preservation by every event; consequence: the blocks handed to the chain service form
    a chain from the ancestor (consecutive heights, each a child of the previous one, each
    named by the hash list).  [L] is the hash the remote's hash list gives to a height; the
    hash sets pushed by the HashFetcher must agree with it ([ev_ok]). *)
From Coq Require Import ZArith NArith List Bool Arith Lia.
From Verif Require Import Syncer.Model.
Import ListNotations.


Section Named.
(** the hash the remote's hash list gives to a height *)
Variable L : N -> option N.

Definition task_ok (t : task) : Prop :=
  forall i h, nth_error (t_hashes t) i = Some h -> L (t_start t + N.of_nat i) = Some h.
Definition hs_ok (x : option (N * list N)) : Prop :=
  match x with
  | None => True
  | Some (start, hs) => forall i h, nth_error hs i = Some h -> L (start + N.of_nat i) = Some h
  end.
Definition blk_named (b : blk) : Prop := L (b_no b) = Some (b_hash b).
Definition chunk_ok (c : chunk) : Prop :=
  numbered_from (c_first c) (c_blocks c) = true /\ chunk_linked (c_blocks c) = true
  /\ Forall blk_named (c_blocks c).

Definition last_of (s : st) : blk := match cur_blk s with Some b => b | None => prev_blk s end.

Record Inv (s : st) : Prop := {
  inv_run : Forall task_ok (running s);
  inv_pend : Forall task_ok (pending s);
  inv_retry : Forall task_ok (retry s);
  inv_hs : hs_ok (hfch s);
  inv_q : Forall chunk_ok (connq s);
  inv_cc : forall c i, cur_conn s = Some (c, i) -> chunk_ok c;
  inv_cur : match cur_blk s with
            | Some b => exists c i, cur_conn s = Some (c, i) /\ nth_error (c_blocks c) i = Some b
                                    /\ b_no b = (b_no (prev_blk s) + 1)%N /\ b_prev b = b_hash (prev_blk s)
            | None => forall c i, cur_conn s = Some (c, i) -> nth_error (c_blocks c) i = Some (prev_blk s)
            end
}.

(** consecutive heights, each a child of the previous, each named by the hash list *)
Fixpoint chain_from (p : blk) (d : list blk) : Prop :=
  match d with
  | [] => True
  | b :: r => b_no b = (b_no p + 1)%N /\ b_prev b = b_hash p /\ blk_named b /\ chain_from b r
  end.

(* ---- list facts ---- *)
Lemma numbered_nth : forall bs n i b, numbered_from n bs = true -> nth_error bs i = Some b ->
  b_no b = (n + N.of_nat i)%N.
Proof.
  induction bs as [|x r IH]; intros n i b H E; [destruct i; discriminate|].
  simpl in H. apply andb_prop in H. destruct H as [H1 H2]. apply N.eqb_eq in H1.
  destruct i; simpl in E.
  - inversion E; subst. lia.
  - rewrite (IH _ _ _ H2 E). lia.
Qed.

Lemma linked_nth : forall bs p i x y, linked_from p bs = true ->
  nth_error bs i = Some x -> nth_error bs (S i) = Some y -> b_prev y = b_hash x.
Proof.
  induction bs as [|z r IH]; intros p i x y H E1 E2; [destruct i; discriminate|].
  simpl in H. apply andb_prop in H. destruct H as [H1 H2].
  destruct i; simpl in E1, E2.
  - inversion E1; subst. destruct r; [discriminate|]. simpl in E2. inversion E2; subst.
    simpl in H2. apply andb_prop in H2. destruct H2 as [H3 _]. apply N.eqb_eq in H3. auto.
  - eapply IH; eauto.
Qed.

Lemma chunk_linked_nth : forall bs i x y, chunk_linked bs = true ->
  nth_error bs i = Some x -> nth_error bs (S i) = Some y -> b_prev y = b_hash x.
Proof.
  intros bs i x y H E1 E2. destruct bs as [|z r]; [discriminate|]. simpl in H.
  destruct i; simpl in E1, E2.
  - inversion E1; subst. destruct r; [discriminate|]. simpl in E2. inversion E2; subst.
    simpl in H. apply andb_prop in H. destruct H as [H3 _]. apply N.eqb_eq in H3. auto.
  - eapply linked_nth; eauto.
Qed.

Lemma list_eqb_eq : forall a b, list_eqb a b = true -> a = b.
Proof.
  induction a as [|x r IH]; destruct b; simpl; intros H; try discriminate; auto.
  apply andb_prop in H. destruct H as [H1 H2]. apply N.eqb_eq in H1. f_equal; auto.
Qed.

Lemma take_first_spec : forall f q t r, take_first f q = Some (t, r) ->
  f t = true /\ In t q /\ (forall x, In x r -> In x q).
Proof.
  induction q as [|x q IH]; simpl; intros t r E; [discriminate|].
  destruct (f x) eqn:F.
  - inversion E; subst. repeat split; auto.
  - destruct (take_first f q) as [[y r']|] eqn:T; [|discriminate]. inversion E; subst.
    destruct (IH _ _ eq_refl) as (A & B & C). repeat split; auto.
    intros z [->|Hz]; auto.
Qed.

Lemma Forall_sub : forall (A : Type) (P : A -> Prop) l r, Forall P l -> (forall x, In x r -> In x l) -> Forall P r.
Proof. intros. rewrite Forall_forall in *. auto. Qed.

Lemma retry_push_Forall : forall (P : task -> Prop) t q, P t -> Forall P q -> Forall P (retry_push t q).
Proof.
  induction q as [|x r IH]; simpl; intros Ht F; [auto|]. inversion F; subst.
  destruct (_ <? _)%N; constructor; auto.
Qed.

Lemma conn_push_Forall : forall (P : chunk -> Prop) c q, P c -> Forall P q -> Forall P (conn_push c q).
Proof.
  induction q as [|x r IH]; simpl; intros Ht F; [auto|]. inversion F; subst.
  destruct (_ <? _)%N; constructor; auto.
Qed.

Lemma nth_error_firstn : forall (A : Type) n (l : list A) i x, nth_error (firstn n l) i = Some x -> nth_error l i = Some x.
Proof.
  induction n; intros l i x H; [destruct i; discriminate|].
  destruct l; [destruct i; discriminate|]. destruct i; simpl in *; auto.
Qed.

Lemma nth_error_skipn : forall (A : Type) n (l : list A) i, nth_error (skipn n l) i = nth_error l (n + i).
Proof.
  induction n; intros l i; simpl; auto. destruct l; simpl; auto. destruct i; auto.
Qed.

Lemma split_tasks_ok : forall fuel n start hs,
  (forall i h, nth_error hs i = Some h -> L (start + N.of_nat i) = Some h) ->
  Forall task_ok (split_tasks fuel n start hs).
Proof.
  induction fuel as [|k IH]; simpl; intros n start hs H; [constructor|].
  destruct hs as [|h0 r]; [constructor|]. constructor.
  - intros i h E. simpl t_hashes in E. simpl t_start. apply H. eapply nth_error_firstn; eauto.
  - apply IH. intros i h E. rewrite nth_error_skipn in E.
    assert (Len : (length (firstn n (h0 :: r)) <= n)%nat) by apply firstn_le_length.
    destruct (Nat.le_gt_cases n (length (h0 :: r))) as [C|C].
    + rewrite firstn_length_le by auto. replace (start + N.of_nat n + N.of_nat i)%N with (start + N.of_nat (n + i))%N by lia.
      apply H; auto.
    + assert (nth_error (h0 :: r) (n + i) = None) by (apply nth_error_None; lia). congruence.
Qed.
End Named.


Section Named.
Variable L : N -> option N.
Notation Inv := (Inv L).
Notation chunk_ok := (chunk_ok L).
Notation task_ok := (task_ok L).
Notation chain_from := (chain_from L).

Lemma Inv_set_proc : forall s q cc cb pb, Inv s -> Forall chunk_ok q ->
  (forall c i, cc = Some (c, i) -> chunk_ok c) ->
  (match cb with
   | Some b => exists c i, cc = Some (c, i) /\ nth_error (c_blocks c) i = Some b
                           /\ b_no b = (b_no pb + 1)%N /\ b_prev b = b_hash pb
   | None => forall c i, cc = Some (c, i) -> nth_error (c_blocks c) i = Some pb
   end) -> Inv (set_proc s q cc cb pb).
Proof. intros s q cc cb pb I Hq Hc Hb. destruct I. constructor; simpl; auto. Qed.

Lemma Inv_set_queues : forall s r p y, Inv s -> Forall task_ok r -> Forall task_ok p -> Forall task_ok y ->
  Inv (set_queues s r p y).
Proof. intros s r p y I H1 H2 H3. destruct I. constructor; simpl; auto. Qed.

Lemma Inv_set_peers : forall s f b, Inv s -> Inv (set_peers s f b).
Proof. intros s f b I. destruct I. constructor; simpl; auto. Qed.

Lemma Inv_set_hs : forall s c h, Inv s -> hs_ok L h -> Inv (set_hs s c h).
Proof. intros s c h I H. destruct I. constructor; simpl; auto. Qed.

Lemma Inv_set_stopped : forall s, Inv s -> Inv (set_stopped s).
Proof. intros s I. destruct I. constructor; simpl; auto. Qed.

Definition one (ob : option blk) : list blk := match ob with Some b => [b] | None => [] end.

Lemma pop_conn_spec : forall s c q, Inv s -> pop_conn s = inl (Some (c, q)) ->
  connq s = c :: q /\ exists b, nth_error (c_blocks c) 0 = Some b
    /\ b_no b = (b_no (prev_blk s) + 1)%N /\ b_prev b = b_hash (prev_blk s).
Proof.
  intros s c q I. unfold pop_conn. destruct (connq s) as [|c0 r] eqn:Q; [discriminate|].
  destruct (N.eqb_spec (c_first c0) (b_no (prev_blk s) + 1)) as [E|E]; simpl; [|discriminate].
  destruct (c_blocks c0) as [|b bs] eqn:B; [discriminate|].
  destruct (N.eqb_spec (b_prev b) (b_hash (prev_blk s))) as [E2|E2]; [|discriminate].
  intros H; inversion H; subst. split; auto. exists b. rewrite B. simpl. repeat split; auto.
  pose proof (inv_q _ _ I) as F. rewrite Q in F. inversion F; subst. destruct H2 as (Nn & _ & _).
  rewrite B in Nn. simpl in Nn. apply andb_prop in Nn. destruct Nn as [N1 _]. apply N.eqb_eq in N1. lia.
Qed.

Ltac inv_fields I :=
  constructor; simpl;
  [apply (inv_run _ _ I)|apply (inv_pend _ _ I)|apply (inv_retry _ _ I)|apply (inv_hs _ _ I)| | | ].

Lemma get_next_ok : forall s, Inv s ->
  match get_next s with
  | inl (s', ob) => Inv s' /\ chain_from (last_of s) (one ob)
                    /\ last_of s' = match ob with Some b => b | None => last_of s end
                    /\ stopped s' = stopped s
  | inr _ => True
  end.
Proof.
  intros s I. unfold get_next, get_next_with.
  destruct (cur_blk s) as [cb|] eqn:CB.
  { simpl. split; [exact I|]. split; [constructor|]. split; reflexivity. }
  pose proof (inv_cur _ _ I) as IC. rewrite CB in IC.
  assert (LO : last_of s = prev_blk s) by (unfold last_of; rewrite CB; auto).
  assert (POP : forall s1, s1 = set_proc s (connq s) None None (prev_blk s) ->
    match
      match
        match pop_conn s1 with
        | inl (Some (c0, q)) => inl (Some (c0, O, set_proc s1 q (Some (c0, O)) None (prev_blk s1)))
        | inl None => inl None
        | inr e => inr e
        end
      with
      | inl (Some (c0, i0, s2)) =>
          match nth_error (c_blocks c0) i0 with
          | Some b => inl (set_proc s2 (connq s2) (Some (c0, i0)) (Some b) (prev_blk s2), Some b)
          | None => inr E_PANIC
          end
      | inl None => inl (s1, None)
      | inr e => inr e
      end
    with
    | inl (s', ob) => Inv s' /\ chain_from (last_of s) (one ob)
                      /\ last_of s' = match ob with Some b => b | None => last_of s end
                      /\ stopped s' = stopped s
    | inr _ => True
    end).
  { intros s1 E1.
    assert (I1 : Inv s1).
    { subst s1. apply Inv_set_proc; auto. apply (inv_q _ _ I). intros; discriminate. intros; discriminate. }
    destruct (pop_conn s1) as [[[c2 q]|]|e] eqn:P; auto.
    - destruct (pop_conn_spec s1 c2 q I1 P) as (Q & b & B0 & Bn & Bp).
      subst s1. simpl in Q, Bn, Bp. rewrite B0.
      pose proof (inv_q _ _ I) as F. rewrite Q in F. inversion F as [|? ? H1 H2]; subst.
      split; [|split; [|split]].
      + inv_fields I.
        * exact H2.
        * intros c' i' E; inversion E; subst; auto.
        * exists c2, O. repeat split; auto.
      + simpl. rewrite LO. repeat split; auto.
        destruct H1 as (_ & _ & Nm). rewrite Forall_forall in Nm. apply Nm. eapply nth_error_In; eauto.
      + reflexivity.
      + reflexivity.
    - subst s1. split; [exact I1|]. split; [constructor|]. split; [|reflexivity].
      unfold last_of. simpl. rewrite CB. reflexivity. }
  destruct (cur_conn s) as [[c i]|] eqn:CC.
  - pose proof (inv_cc _ _ I c i CC) as (Cn & Cl & Cnm).
    specialize (IC c i eq_refl).
    destruct (Nat.leb_spec (length (c_blocks c)) (S i)) as [Fin|More].
    + apply POP. reflexivity.
    + destruct (nth_error (c_blocks c) (S i)) as [b|] eqn:B.
      * cbn -[nth_error]. split; [|split; [|split]].
        -- inv_fields I.
           ++ apply (inv_q _ _ I).
           ++ intros c' i' E; inversion E; subst. repeat split; auto.
           ++ exists c, (S i). repeat split; auto.
              ** rewrite (numbered_nth _ _ _ _ Cn B), (numbered_nth _ _ _ _ Cn IC). lia.
              ** eapply chunk_linked_nth; eauto.
        -- simpl. rewrite LO. repeat split.
           ++ rewrite (numbered_nth _ _ _ _ Cn B), (numbered_nth _ _ _ _ Cn IC). lia.
           ++ eapply chunk_linked_nth; eauto.
           ++ rewrite Forall_forall in Cnm. apply Cnm. eapply nth_error_In; eauto.
        -- reflexivity.
        -- reflexivity.
      * cbn -[nth_error]. auto.
  - apply POP. reflexivity.
Qed.
End Named.


Section Named.
Variable L : N -> option N.
Notation Inv := (Inv L).
Notation chunk_ok := (chunk_ok L).
Notation task_ok := (task_ok L).
Notation chain_from := (chain_from L).

Definition proc_eq (s s' : st) : Prop :=
  connq s' = connq s /\ cur_conn s' = cur_conn s /\ cur_blk s' = cur_blk s /\ prev_blk s' = prev_blk s.

Lemma proc_eq_refl : forall s, proc_eq s s.
Proof. intros. repeat split. Qed.
Lemma proc_eq_trans : forall a b c, proc_eq a b -> proc_eq b c -> proc_eq a c.
Proof. intros a b c (A1 & A2 & A3 & A4) (B1 & B2 & B3 & B4). repeat split; congruence. Qed.
Lemma proc_eq_last : forall s s', proc_eq s s' -> last_of s' = last_of s.
Proof. intros s s' (A1 & A2 & A3 & A4). unfold last_of. rewrite A3, A4. auto. Qed.

Lemma Inv_change : forall s s', Inv s -> proc_eq s s' ->
  Forall task_ok (running s') -> Forall task_ok (pending s') -> Forall task_ok (retry s') ->
  hs_ok L (hfch s') -> Inv s'.
Proof.
  intros s s' I (A1 & A2 & A3 & A4) R P Y H. destruct I. constructor; auto.
  - rewrite A1; auto.
  - rewrite A2; auto.
  - rewrite A2, A3, A4; auto.
Qed.

Lemma task_ok_retag : forall t r p, task_ok t -> task_ok (mkTask (t_start t) (t_hashes t) r p).
Proof. intros t r p H. exact H. Qed.

Lemma process_failed_ok : forall s t e s' bad, Inv s -> task_ok t ->
  process_failed_task s t e = (s', bad) -> Inv s' /\ proc_eq s s' /\ stopped s' = stopped s.
Proof.
  intros s t e s' bad I T. unfold process_failed_task. intros H. inversion H; subst. clear H.
  assert (Q : forall s1, (s1 = s \/ exists p, s1 = peer_fail s p e) ->
              proc_eq s s1 /\ running s1 = running s /\ pending s1 = pending s /\ retry s1 = retry s
              /\ hfch s1 = hfch s /\ stopped s1 = stopped s).
  { intros s1 [->|[p ->]]; [repeat split|]. unfold peer_fail. destruct (_ || _); repeat split. }
  set (s1 := match t_peer t with Some p => peer_fail s p e | None => s end).
  destruct (Q s1) as (PE & R1 & P1 & Y1 & H1 & St1).
  { unfold s1. destruct (t_peer t); eauto. }
  assert (PE2 : proc_eq s (set_queues s1 (running s1) (pending s1)
                 (retry_push (mkTask (t_start t) (t_hashes t) (S (t_retry t)) None) (retry s1)))).
  { destruct PE as (A1 & A2 & A3 & A4). repeat split; simpl; auto. }
  split; [|split].
  - eapply Inv_change; [exact I|exact PE2|simpl|simpl|simpl|simpl].
    + rewrite R1. apply (inv_run _ _ I).
    + rewrite P1. apply (inv_pend _ _ I).
    + apply retry_push_Forall; [apply task_ok_retag; auto|]. rewrite Y1. apply (inv_retry _ _ I).
    + rewrite H1. apply (inv_hs _ _ I).
  - exact PE2.
  - simpl. auto.
Qed.

Lemma search_candidate_ok : forall c s cand s', Inv s -> search_candidate c s = (cand, s') ->
  Inv s' /\ proc_eq s s' /\ stopped s' = stopped s /\ running s' = running s
  /\ match cand with
     | Some t => task_ok t
     | None => True
     end.
Proof.
  intros c s cand s' I. unfold search_candidate.
  destruct (retry s) as [|t r] eqn:Y.
  - destruct (pending s) as [|t r] eqn:P.
    + destruct (hfch s) as [[start hs]|] eqn:H.
      * intros E; inversion E; subst. clear E.
        pose proof (inv_hs _ _ I) as Hh. rewrite H in Hh. simpl in Hh.
        pose proof (split_tasks_ok L (S (length hs)) (fetch_size c) start hs Hh) as F.
        split; [|split; [|split; [|split]]].
        -- eapply Inv_change; [exact I|repeat split|simpl; apply (inv_run _ _ I)|simpl; exact F
                               |simpl; try rewrite Y; constructor|simpl; constructor].
        -- repeat split.
        -- reflexivity.
        -- reflexivity.
        -- clear F. destruct hs as [|h0 hr]; simpl; auto.
           intros i h E. simpl in E. apply Hh. eapply nth_error_firstn; eauto.
      * intros E; inversion E; subst. split; [exact I|]. split; [apply proc_eq_refl|]. repeat split; auto.
    + intros E; inversion E; subst. split; [exact I|]. split; [apply proc_eq_refl|]. repeat split; auto.
      pose proof (inv_pend _ _ I) as F. rewrite P in F. inversion F; auto.
  - intros E; inversion E; subst. split; [exact I|]. split; [apply proc_eq_refl|]. repeat split; auto.
    pose proof (inv_retry _ _ I) as F. rewrite Y in F. inversion F; auto.
Qed.

Lemma Forall_tl : forall (A : Type) (P : A -> Prop) l, Forall P l -> Forall P (tl l).
Proof. intros A P l F. destruct l; simpl; auto. inversion F; auto. Qed.

Lemma schedule_ok : forall fuel c s s' o e, Inv s -> schedule fuel c s = (s', o, e) ->
  Inv s' /\ proc_eq s s' /\ delivered o = [] /\ stops o = [] /\ stopped s' = stopped s.
Proof.
  induction fuel as [|k IH]; simpl; intros c s s' o e I H.
  - inversion H; subst. split; [exact I|]. split; [apply proc_eq_refl|]. repeat split; auto.
  - destruct (free s) as [|p frest] eqn:F.
    + inversion H; subst. split; [exact I|]. split; [apply proc_eq_refl|]. repeat split; auto.
    + destruct (max_tasks c <=? length (running s))%nat.
      * inversion H; subst. split; [exact I|]. split; [apply proc_eq_refl|]. repeat split; auto.
      * destruct (search_candidate c s) as [cand s1] eqn:SC.
        destruct (search_candidate_ok c s cand s1 I SC) as (I1 & PE1 & St1 & R1 & Tk).
        destruct cand as [t|].
        -- destruct ((max_pending c <=? length (connq s1))%nat && (t_retry t =? 0)%nat).
           ++ inversion H; subst. split; [exact I1|]. split; [exact PE1|]. repeat split; auto.
           ++ destruct (all_bad s1).
              ** inversion H; subst. split; [exact I1|]. split; [exact PE1|]. repeat split; auto.
              ** assert (I4 : Inv (launch s1 t p frest) /\ proc_eq s1 (launch s1 t p frest)
                              /\ stopped (launch s1 t p frest) = stopped s1).
                 { unfold launch. destruct (t_retry t) eqn:Rt.
                   - split; [|split; [repeat split|reflexivity]].
                     eapply Inv_change; [exact I1|repeat split|simpl|simpl|simpl|simpl].
                     + apply Forall_app. split; [apply (inv_run _ _ I1)|]. constructor; [exact Tk|constructor].
                     + apply Forall_tl. apply (inv_pend _ _ I1).
                     + apply (inv_retry _ _ I1).
                     + apply (inv_hs _ _ I1).
                   - split; [|split; [repeat split|reflexivity]].
                     eapply Inv_change; [exact I1|repeat split|simpl|simpl|simpl|simpl].
                     + apply Forall_app. split; [apply (inv_run _ _ I1)|]. constructor; [exact Tk|constructor].
                     + apply (inv_pend _ _ I1).
                     + apply Forall_tl. apply (inv_retry _ _ I1).
                     + apply (inv_hs _ _ I1). }
                 set (s4 := launch s1 t p frest) in *.
                 destruct I4 as (I4 & PE4 & St4).
                 destruct (schedule k c s4) as [[s5 outs] e0] eqn:SK.
                 destruct (IH c s4 s5 outs e0 I4 SK) as (I5 & PE5 & D5 & S5 & St5).
                 inversion H; subst. split; [auto|]. split; [|split; [|split]].
                 --- eapply proc_eq_trans; [exact PE1|]. eapply proc_eq_trans; eauto.
                 --- simpl. auto.
                 --- simpl. auto.
                 --- congruence.
        -- inversion H; subst. split; [exact I1|]. split; [exact PE1|]. repeat split; auto.
Qed.
End Named.


Section Named.
Variable L : N -> option N.
Notation Inv := (Inv L).
Notation chunk_ok := (chunk_ok L).
Notation task_ok := (task_ok L).
Notation chain_from := (chain_from L).

Lemma matched_chunk_ok : forall t p bs, task_ok t -> is_matched t p bs = true -> chunk_linked bs = true ->
  chunk_ok (mkChunk (match bs with b :: _ => b_no b | [] => 0%N end) bs).
Proof.
  intros t p bs T M Lk. unfold is_matched in M.
  apply andb_prop in M. destruct M as [M Nm]. apply andb_prop in M. destruct M as [M Eq].
  apply list_eqb_eq in Eq.
  destruct bs as [|b r]; [discriminate|].
  assert (F : b_no b = t_start t).
  { simpl in Nm. apply andb_prop in Nm. destruct Nm as [N1 _]. apply N.eqb_eq in N1. auto. }
  unfold chunk_ok. simpl c_first. simpl c_blocks. rewrite F. split; [exact Nm|]. split; [exact Lk|].
  apply Forall_forall. intros x Hx. destruct (In_nth_error _ _ Hx) as [i Hi].
  unfold blk_named. rewrite (numbered_nth _ _ _ _ Nm Hi). apply T. rewrite Eq.
  apply map_nth_error. auto.
Qed.

Lemma delivered_app : forall a b, delivered (a ++ b) = delivered a ++ delivered b.
Proof. intros. unfold delivered. apply flat_map_app. Qed.
Lemma stops_app : forall a b, stops (a ++ b) = stops a ++ stops b.
Proof. intros. unfold stops. apply flat_map_app. Qed.

Lemma delivered_out_add : forall ob, delivered (out_add ob) = one ob.
Proof. destruct ob; reflexivity. Qed.

Lemma last_one : forall ob p, last (one ob) p = match ob with Some b => b | None => p end.
Proof. destruct ob; reflexivity. Qed.

Lemma last_nonempty_irrel : forall (x : blk) r a b, last (x :: r) a = last (x :: r) b.
Proof. intros x r. revert x. induction r as [|y r IH]; intros x a b; [reflexivity|]. simpl in *. apply (IH y). Qed.

Lemma chain_from_app : forall d1 d2 p, chain_from p (d1 ++ d2) <-> chain_from p d1 /\ chain_from (last d1 p) d2.
Proof.
  induction d1 as [|b r IH]; intros d2 p; [simpl; tauto|].
  change ((b :: r) ++ d2) with (b :: (r ++ d2)). cbn [Proofs.chain_from]. rewrite IH.
  assert (E : last (b :: r) p = last r b).
  { destruct r as [|x r']; [reflexivity|]. change (last (b :: x :: r') p) with (last (x :: r') p).
    apply last_nonempty_irrel. }
  rewrite E. tauto.
Qed.

Lemma last_app_blk : forall (d1 d2 : list blk) p, last (d1 ++ d2) p = last d2 (last d1 p).
Proof.
  induction d1 as [|b r IH]; intros d2 p; [reflexivity|].
  destruct d2 as [|y d2'].
  - rewrite app_nil_r. reflexivity.
  - change ((b :: r) ++ y :: d2') with (b :: (r ++ y :: d2')).
    destruct r as [|x r'].
    + simpl. apply last_nonempty_irrel.
    + change (last (b :: (x :: r') ++ y :: d2') p) with (last ((x :: r') ++ y :: d2') p).
      rewrite IH. change (last (b :: x :: r') p) with (last (x :: r') p). reflexivity.
Qed.

(** what every handler guarantees *)
Definition handler_ok (s s' : st) (o : list out) : Prop :=
  Inv s' /\ chain_from (last_of s) (delivered o) /\ last_of s' = last (delivered o) (last_of s)
  /\ stopped s' = stopped s.

Ltac triv I := split; [exact I|]; simpl; repeat split; auto.

Lemma on_chunk_ok : forall s p bs err s' o e, Inv s -> on_chunk s p bs err = (s', o, e) -> handler_ok s s' o.
Proof.
  intros s p bs err s' o e I. unfold on_chunk, on_chunk_with, handler_ok.
  destruct (err || negb (chunk_linked bs)) eqn:Bad.
  - destruct (take_first (fun t => peer_is t p) (running s)) as [[t r]|] eqn:TF.
    + destruct (take_first_spec _ _ _ _ TF) as (_ & Tin & Sub).
      pose proof (inv_run _ _ I) as FR.
      assert (Tk : task_ok t) by (rewrite Forall_forall in FR; auto).
      assert (I0 : Inv (set_queues s r (pending s) (retry s))).
      { apply Inv_set_queues; auto. eapply Forall_sub; eauto. apply (inv_pend _ _ I). apply (inv_retry _ _ I). }
      destruct (process_failed_task (set_queues s r (pending s) (retry s)) t false) as [s1 bad] eqn:PF.
      destruct (process_failed_ok L _ _ _ _ _ I0 Tk PF) as (I1 & PE & St).
      intros H; inversion H; subst. split; [auto|]. simpl. split; [auto|]. split; [|auto].
      rewrite (proc_eq_last _ _ PE). reflexivity.
    + intros H; inversion H; subst. triv I.
  - apply orb_false_elim in Bad. destruct Bad as [_ Lk]. apply negb_false_iff in Lk.
    destruct (take_first (fun t => is_matched t p bs) (running s)) as [[t r]|] eqn:TF.
    + destruct (take_first_spec _ _ _ _ TF) as (M & Tin & Sub).
      pose proof (inv_run _ _ I) as FR.
      assert (Tk : task_ok t) by (rewrite Forall_forall in FR; auto).
      set (s1 := set_queues s r (pending s) (retry s)).
      assert (I1 : Inv s1).
      { apply Inv_set_queues; auto. eapply Forall_sub; eauto. apply (inv_pend _ _ I). apply (inv_retry _ _ I). }
      set (s2 := match t_peer t with Some q => set_peers s1 (free s1 ++ [q]) (nbad s1) | None => s1 end).
      assert (I2 : Inv s2 /\ proc_eq s s2 /\ stopped s2 = stopped s).
      { unfold s2. destruct (t_peer t); [split; [apply Inv_set_peers; auto|]|split; [auto|]]; split; repeat split. }
      destruct I2 as (I2 & PE2 & St2).
      set (c := mkChunk (match bs with b :: _ => b_no b | [] => 0%N end) bs).
      set (s3 := set_proc s2 (conn_push c (connq s2)) (cur_conn s2) (cur_blk s2) (prev_blk s2)).
      assert (I3 : Inv s3).
      { unfold s3. apply Inv_set_proc; auto.
        - apply conn_push_Forall; [eapply matched_chunk_ok; eauto|apply (inv_q _ _ I2)].
        - apply (inv_cc _ _ I2).
        - apply (inv_cur _ _ I2). }
      assert (L3 : last_of s3 = last_of s).
      { unfold s3, last_of. simpl. destruct PE2 as (_ & _ & A3 & A4). rewrite A3, A4. reflexivity. }
      pose proof (get_next_ok L s3 I3) as G. unfold get_next in G.
      destruct (get_next_with pop_conn s3) as [[s4 ob]|e4].
      * destruct G as (I4 & Ch & La & St4). intros H; inversion H; subst.
        rewrite delivered_out_add, last_one. rewrite L3 in *. split; [exact I4|]. split; [auto|]. split; [auto|].
        rewrite St4. unfold s3. simpl. auto.
      * intros H; inversion H; subst. split; [exact I3|]. simpl. rewrite L3. repeat split; auto.
    + intros H; inversion H; subst. triv I.
Qed.

Lemma on_add_rsp_ok : forall c s no h err s' o e, Inv s -> on_add_rsp c s no h err = (s', o, e) -> handler_ok s s' o.
Proof.
  intros c s no h err s' o e I. unfold on_add_rsp, on_add_rsp_with, handler_ok.
  destruct err; [intros H; inversion H; subst; triv I|].
  destruct h as [h|]; [|intros H; inversion H; subst; triv I].
  destruct (cur_blk s) as [cb|] eqn:CB; [|intros H; inversion H; subst; triv I].
  destruct (negb ((b_no cb =? no)%N && (b_hash cb =? h)%N)); [intros H; inversion H; subst; triv I|].
  set (s1 := set_proc s (connq s) (cur_conn s) None cb).
  assert (I1 : Inv s1).
  { unfold s1. apply Inv_set_proc; auto. apply (inv_q _ _ I). apply (inv_cc _ _ I).
    pose proof (inv_cur _ _ I) as IC. rewrite CB in IC. destruct IC as (c0 & i0 & E0 & N0 & _).
    intros c1 i1 E1. rewrite E0 in E1. inversion E1; subst. auto. }
  assert (L1 : last_of s1 = last_of s).
  { unfold s1, last_of. simpl. rewrite CB. reflexivity. }
  pose proof (get_next_ok L s1 I1) as G. unfold get_next in G.
  destruct (get_next_with pop_conn s1) as [[s2 ob]|e2].
  - destruct G as (I2 & Ch & La & St2). intros H; inversion H; subst.
    assert (D : delivered ((if (b_no cb =? c_target c)%N then [OStop E_OK] else []) ++ out_add ob) = one ob).
    { rewrite delivered_app, delivered_out_add. destruct (_ =? _)%N; reflexivity. }
    rewrite D, last_one. rewrite L1 in *. split; [exact I2|]. split; [auto|]. split; [auto|].
    rewrite St2. reflexivity.
  - intros H; inversion H; subst.
    assert (D : delivered (if (b_no cb =? c_target c)%N then [OStop E_OK] else []) = []).
    { destruct (_ =? _)%N; reflexivity. }
    rewrite D. split; [exact I1|]. simpl. rewrite L1. repeat split; auto.
Qed.

Lemma check_timeout_ok : forall timed todo s s' e, Inv s -> Forall task_ok todo ->
  check_timeout timed todo s = (s', e) -> Inv s' /\ proc_eq s s' /\ stopped s' = stopped s.
Proof.
  induction todo as [|t r IH]; intros s s' e I F H; [simpl in H|cbn [check_timeout] in H].
  - inversion H; subst. split; [auto|]. split; [apply proc_eq_refl|auto].
  - inversion F as [|? ? Tk Fr]; subst.
    destruct (existsb (N.eqb (t_start t)) timed).
    + set (s0 := set_queues s (snd (partition (fun x => (t_start x =? t_start t)%N) (running s))) (pending s) (retry s)) in *.
      assert (I0 : Inv s0).
      { unfold s0. apply Inv_set_queues; auto; try apply (inv_pend _ _ I); try apply (inv_retry _ _ I).
        pose proof (inv_run _ _ I) as FR. rewrite Forall_forall in *. intros x Hx. apply FR.
        destruct (partition _ (running s)) as [a b] eqn:P. simpl in Hx.
        eapply elements_in_partition in P. apply P. auto. }
      destruct (process_failed_task s0 t false) as [s1 bad] eqn:PF.
      destruct (process_failed_ok L _ _ _ _ _ I0 Tk PF) as (I1 & PE & St).
      assert (PE0 : proc_eq s s1).
      { eapply proc_eq_trans; [|exact PE]. unfold s0. repeat split. }
      destruct bad.
      * injection H as <- <-. split; [exact I1|]. split; [exact PE0|]. etransitivity; [exact St|reflexivity].
      * destruct (IH _ _ _ I1 Fr H) as (I2 & PE2 & St2). split; [auto|]. split.
        -- eapply proc_eq_trans; eauto.
        -- etransitivity; [exact St2|]. etransitivity; [exact St|reflexivity].
    + eapply IH; eauto.
Qed.

Definition ev_ok (e : event) : Prop :=
  match e with EHashSet start hs => hs_ok L (Some (start, hs)) | _ => True end.

Lemma finish_ok : forall c s0 s o e s' o', Inv s -> chain_from (last_of s0) (delivered o) ->
  last_of s = last (delivered o) (last_of s0) ->
  finish c (s, o, e) = (s', o') ->
  Inv s' /\ chain_from (last_of s0) (delivered o') /\ last_of s' = last (delivered o') (last_of s0).
Proof.
  intros c s0 s o e s' o' I Ch La. unfold finish.
  destruct e as [err|].
  - intros H; inversion H; subst. rewrite delivered_app. simpl. rewrite app_nil_r.
    split; [apply Inv_set_stopped; auto|]. split; auto.
  - destruct (schedule (S (length (free s))) c s) as [[s1 o1] e1] eqn:SC.
    destruct (schedule_ok L _ _ _ _ _ _ I SC) as (I1 & PE & D1 & S1 & St1).
    pose proof (proc_eq_last _ _ PE) as L1.
    destruct e1 as [err|]; intros H; inversion H; subst.
    + rewrite !delivered_app, D1. simpl. rewrite app_nil_r.
      split; [apply Inv_set_stopped; auto|]. split; auto.
      unfold last_of in *. simpl. rewrite <- La. exact L1.
    + rewrite delivered_app, D1, app_nil_r. split; auto. split; auto. rewrite <- La. exact L1.
Qed.

Theorem step_ok : forall c s e s' o, Inv s -> ev_ok e -> step c s e = (s', o) ->
  Inv s' /\ chain_from (last_of s) (delivered o) /\ last_of s' = last (delivered o) (last_of s).
Proof.
  intros c s e s' o I Ev. unfold step, step_with.
  destruct (stopped s); [intros H; inversion H; subst; simpl; auto|].
  destruct e as [start hs|p bs err|no h err|timed|].
  - intros H; inversion H; subst. simpl. split; [|split; [auto|]].
    + destruct (hfch s); auto. apply Inv_set_hs; auto.
    + destruct (hfch s); reflexivity.
  - destruct (on_chunk_with pop_conn s p bs err) as [[s1 o1] e1] eqn:OC.
    destruct (on_chunk_ok _ _ _ _ _ _ _ I OC) as (I1 & Ch & La & _).
    intros H. eapply finish_ok; eauto.
  - destruct (on_add_rsp_with pop_conn c s no h err) as [[s1 o1] e1] eqn:OA.
    destruct (on_add_rsp_ok _ _ _ _ _ _ _ _ I OA) as (I1 & Ch & La & _).
    intros H. eapply finish_ok; eauto.
  - destruct (check_timeout timed (running s) s) as [s1 e1] eqn:CT.
    destruct (check_timeout_ok _ _ _ _ _ I (inv_run _ _ I) CT) as (I1 & PE & _).
    intros H. apply (finish_ok c s s1 [] e1 s' o I1); [simpl; auto|simpl; apply proc_eq_last; auto|exact H].
  - intros H; inversion H; subst. simpl. split; [apply Inv_set_stopped; auto|]. split; auto.
Qed.

Theorem run_ok : forall c es s s' o, Inv s -> Forall ev_ok es -> run c s es = (s', o) ->
  Inv s' /\ chain_from (last_of s) (delivered o) /\ last_of s' = last (delivered o) (last_of s).
Proof.
  intros c. induction es as [|e r IH]; simpl; intros s s' o I F H.
  - inversion H; subst. simpl. auto.
  - inversion F as [|? ? Fe Fr]; subst.
    unfold run in *. simpl in H.
    destruct (step_with pop_conn c s e) as [s1 o1] eqn:S1.
    destruct (run_with pop_conn c s1 r) as [s2 o2] eqn:R2.
    inversion H; subst.
    destruct (step_ok c s e s1 o1 I Fe S1) as (I1 & C1 & L1).
    destruct (IH _ _ _ I1 Fr R2) as (I2 & C2 & L2).
    rewrite delivered_app. split; auto. split.
    + apply chain_from_app. split; auto. rewrite <- L1. auto.
    + rewrite L2, L1. rewrite last_app_blk. reflexivity.
Qed.
End Named.

(** C17 session layer, tie of [verifySeq] to the source: translator gen/gen_seqcases.go ->
    Gen/SeqCases.v (regenerated from the tree under test on every run).  Every message type the
    Syncer consumes in handleMessage (as a pointer, the way all senders send it) that carries a
    session sequence number must be a POINTER case of verifySeq's type switch, and verifySeq must
    have no value-typed case (such a case can never match and falls through to "match"). *)
From Coq Require Import List String Bool.
From Verif Require Import Gen.SeqCases.
Import ListNotations.
Open Scope string_scope.

Definition smem (x : string) (l : list string) : bool := existsb (String.eqb x) l.

Definition seq_cases_ok : bool :=
  forallb (fun t => if smem t seq_types then smem t verify_ptr else true) handled_ptr
  && match verify_val with [] => true | _ => false end
  && match handled_val with [] => true | _ => false end
  (* the translator saw the switches at all *)
  && smem "GetHashByNoRsp" handled_ptr && smem "SyncStop" verify_ptr.

Lemma verify_seq_covers_consumed_messages : seq_cases_ok = true.
Proof. vm_compute. reflexivity. Qed.

(** C17 model, part 3: the session layer of syncerservice.go -- the sequence number, the
    running flag, Receive's garbage filter, verifySeq, handleSyncStart and Reset.  Messages
    are abstracted to what the code inspects: their kind and the sequence number they carry
    (AddBlockRsp carries none).  Proofs at the end (they are one-liners). *)
From Coq Require Import ZArith NArith List Bool Arith Lia.
Import ListNotations.

Record sess := mkSess { seq : N; srunning : bool }.

Inductive smsg :=
| MStart (target best : N)     (* SyncStart; [best] = local best block number *)
| MSeq (q : N)                 (* any response that carries a sequence number *)
| MAddRsp                      (* AddBlockRsp: no sequence number *)
| MStop (q : N).               (* SyncStop *)

Inductive sact := Dropped | Forwarded | Started | ResetDone.

(** Receive + handleMessage *)
Definition recv (s : sess) (m : smsg) : sess * sact :=
  match m with
  | MStart target best =>
      if srunning s then (s, Dropped)
      else if (target <=? best)%N then (s, Dropped)
      else (mkSess (seq s + 1) true, Started)
  | MSeq q =>
      if negb (srunning s) then (s, Dropped)
      else if (q =? seq s)%N then (s, Forwarded) else (s, Dropped)
  | MAddRsp => if srunning s then (s, Forwarded) else (s, Dropped)
  | MStop q =>
      if negb (srunning s) then (s, Dropped)
      else if (q =? seq s)%N then (mkSess (seq s) false, ResetDone) else (s, Dropped)
  end.

(** After any stop a new session can start, with a fresh sequence number. *)
Theorem new_session_can_start : forall s q target best,
  srunning s = true -> q = seq s -> (best < target)%N ->
  let s1 := fst (recv s (MStop q)) in
  recv s1 (MStart target best) = (mkSess (seq s + 1) true, Started).
Proof.
  intros s q target best R -> Lt. simpl. rewrite R. simpl. rewrite N.eqb_refl. simpl.
  destruct (N.leb_spec target best); [lia|reflexivity].
Qed.

(** Messages of an earlier session are dropped by the new one ... *)
Theorem stale_sequence_dropped : forall s q, (q <> seq s)%N ->
  recv s (MSeq q) = (s, Dropped) /\ recv s (MStop q) = (s, Dropped).
Proof.
  intros s q Ne. simpl. destruct (srunning s); simpl; auto.
  destruct (N.eqb_spec q (seq s)); [contradiction|auto].
Qed.

(** ... except AddBlockRsp, which reaches the running session's block processor. *)
Theorem add_rsp_reaches_running_session : forall s, srunning s = true -> recv s MAddRsp = (s, Forwarded).
Proof. intros s R. simpl. rewrite R. reflexivity. Qed.

Theorem sequence_numbers_increase : forall s m s' a, recv s m = (s', a) -> (seq s <= seq s')%N.
Proof.
  intros s m s' a. destruct m; simpl.
  - destruct (srunning s); [intros H; inversion H; lia|]. destruct (_ <=? _)%N; intros H; inversion H; simpl; lia.
  - destruct (negb _); [intros H; inversion H; lia|]. destruct (_ =? _)%N; intros H; inversion H; lia.
  - destruct (srunning s); intros H; inversion H; lia.
  - destruct (negb _); [intros H; inversion H; lia|]. destruct (_ =? _)%N; intros H; inversion H; simpl; lia.
Qed.

(* ---- the finder's wait for GetSyncAncestorRsp (finder.go: getAncestor) ---- *)
(** The wait has one deadline fixed when the request is sent.  Events while waiting: [Some dt] =
    an answer that is ignored (ancestor below the lowest anchor) arriving [dt] after the previous
    event; [None] = nothing arrives any more.  [wait_time rearm timeout evs] = how long the finder
    waits before it reports ErrorGetSyncAncestorTimeout; [rearm] = the timer is re-created after
    every ignored answer (time.After inside the loop). *)
Fixpoint wait_time (rearm : bool) (left : N) (timeout : N) (evs : list N) : N :=
  match evs with
  | [] => left
  | dt :: r => if (left <=? dt)%N then left                      (* the deadline comes first *)
               else (dt + wait_time rearm (if rearm then timeout else left - dt) timeout r)%N
  end.

Theorem ancestor_wait_bounded : forall evs timeout left, (left <= timeout)%N ->
  (wait_time false left timeout evs <= timeout)%N.
Proof.
  induction evs as [|dt r IH]; intros timeout left H; simpl; [lia|].
  destruct (N.leb_spec left dt); [lia|].
  assert (Q : (wait_time false (left - dt) timeout r <= left - dt)%N).
  { clear IH. generalize (left - dt)%N. induction r as [|d r IHr]; intros l; simpl; [lia|].
    destruct (N.leb_spec l d); [lia|]. specialize (IHr (l - d)%N). lia. }
  lia.
Qed.

(** Re-arming the timer after every ignored answer: answers every third of the timeout keep the
    finder waiting as long as they keep coming (the seeded C17-r6 change). *)
Theorem ancestor_wait_rearmed_refuted :
  wait_time true 300 300 [100; 100; 100; 100; 100; 100; 100; 100; 100; 100]%N = 1300%N.
Proof. reflexivity. Qed.

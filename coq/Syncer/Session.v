(** C17 model, part 3: the session layer of syncerservice.go -- the sequence number, the
    running flag, Receive's garbage filter, verifySeq, handleSyncStart and Reset.  Messages
    are abstracted to what the code inspects: their kind and the sequence number they carry
    (AddBlockRsp carries none).  Proofs at the end (they are one-liners). *)
From Coq Require Import ZArith NArith List Bool Arith Lia.
Import ListNotations.

Record sess := mkSess { seq : N; srunning : bool }.

Inductive smsg :=
| MStart (target best : N)     (* SyncStart; [best] = local best block number *)
| MSeq (q : N)                 (* any response that carries a sequence number *)
| MAddRsp                      (* AddBlockRsp: no sequence number *)
| MStop (q : N).               (* SyncStop *)

Inductive sact := Dropped | Forwarded | Started | ResetDone.

(** Receive + handleMessage *)
Definition recv (s : sess) (m : smsg) : sess * sact :=
  match m with
  | MStart target best =>
      if srunning s then (s, Dropped)
      else if (target <=? best)%N then (s, Dropped)
      else (mkSess (seq s + 1) true, Started)
  | MSeq q =>
      if negb (srunning s) then (s, Dropped)
      else if (q =? seq s)%N then (s, Forwarded) else (s, Dropped)
  | MAddRsp => if srunning s then (s, Forwarded) else (s, Dropped)
  | MStop q =>
      if negb (srunning s) then (s, Dropped)
      else if (q =? seq s)%N then (mkSess (seq s) false, ResetDone) else (s, Dropped)
  end.

(** After any stop a new session can start, with a fresh sequence number. *)
Theorem new_session_can_start : forall s q target best,
  srunning s = true -> q = seq s -> (best < target)%N ->
  let s1 := fst (recv s (MStop q)) in
  recv s1 (MStart target best) = (mkSess (seq s + 1) true, Started).
Proof.
  intros s q target best R -> Lt. simpl. rewrite R. simpl. rewrite N.eqb_refl. simpl.
  destruct (N.leb_spec target best); [lia|reflexivity].
Qed.

(** Messages of an earlier session are dropped by the new one ... *)
Theorem stale_sequence_dropped : forall s q, (q <> seq s)%N ->
  recv s (MSeq q) = (s, Dropped) /\ recv s (MStop q) = (s, Dropped).
Proof.
  intros s q Ne. simpl. destruct (srunning s); simpl; auto.
  destruct (N.eqb_spec q (seq s)); [contradiction|auto].
Qed.

(** ... except AddBlockRsp, which reaches the running session's block processor. *)
Theorem add_rsp_reaches_running_session : forall s, srunning s = true -> recv s MAddRsp = (s, Forwarded).
Proof. intros s R. simpl. rewrite R. reflexivity. Qed.

Theorem sequence_numbers_increase : forall s m s' a, recv s m = (s', a) -> (seq s <= seq s')%N.
Proof.
  intros s m s' a. destruct m; simpl.
  - destruct (srunning s); [intros H; inversion H; lia|]. destruct (_ <=? _)%N; intros H; inversion H; simpl; lia.
  - destruct (negb _); [intros H; inversion H; lia|]. destruct (_ =? _)%N; intros H; inversion H; lia.
  - destruct (srunning s); intros H; inversion H; lia.
  - destruct (negb _); [intros H; inversion H; lia|]. destruct (_ =? _)%N; intros H; inversion H; simpl; lia.
Qed.

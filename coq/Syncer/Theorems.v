(** C17 proofs, part 2: the delivery theorems for every event sequence, the F16 refutation
    of the unrepaired pop test, and the stop discipline. *)
From Coq Require Import ZArith NArith List Bool Arith Lia.
From Verif Require Import Syncer.Model Syncer.Proofs.
Import ListNotations.


Lemma init_inv : forall L np anc, Inv L (init_st np anc).
Proof.
  intros. constructor; simpl; try (constructor; fail); try (intros; discriminate).
Qed.

(** Every event sequence: the blocks handed to the chain service form a chain from the
    ancestor. *)
Theorem delivered_chain : forall L c np anc es s o,
  Forall (ev_ok L) es -> run c (init_st np anc) es = (s, o) ->
  chain_from L anc (delivered o).
Proof.
  intros L c np anc es s o F R.
  destruct (run_ok L c es _ _ _ (init_inv L np anc) F R) as (_ & C & _). exact C.
Qed.

Lemma chain_from_nth : forall L d p i b, chain_from L p d -> nth_error d i = Some b ->
  b_no b = (b_no p + 1 + N.of_nat i)%N /\ L (b_no b) = Some (b_hash b)
  /\ b_prev b = b_hash (match i with O => p | S j => nth j d p end).
Proof.
  intros L. induction d as [|x r IH]; intros p i b C E; [destruct i; discriminate|].
  simpl in C. destruct C as (C1 & C2 & C3 & C4).
  destruct i as [|i]; simpl in E.
  - inversion E; subst. repeat split; auto. lia.
  - destruct (IH _ _ _ C4 E) as (A1 & A2 & A3). split; [lia|]. split; [auto|].
    rewrite A3. destruct i as [|i']; [reflexivity|]. simpl. f_equal. apply nth_indep.
    assert (Hn : nth_error r (S i') <> None) by congruence. apply nth_error_Some in Hn. lia.
Qed.

(** no gap, no duplicate, each the block named by the hash list at that height *)
Theorem delivered_contiguous : forall L c np anc es s o i b,
  Forall (ev_ok L) es -> run c (init_st np anc) es = (s, o) ->
  nth_error (delivered o) i = Some b ->
  b_no b = (b_no anc + 1 + N.of_nat i)%N /\ L (b_no b) = Some (b_hash b).
Proof.
  intros L c np anc es s o i b F R E.
  destruct (chain_from_nth L _ _ _ _ (delivered_chain L c np anc es s o F R) E) as (A & B & _). auto.
Qed.

(** each delivered block is a child of the previous one; the first one of the ancestor *)
Theorem delivered_linked : forall L c np anc es s o i b,
  Forall (ev_ok L) es -> run c (init_st np anc) es = (s, o) ->
  nth_error (delivered o) i = Some b ->
  b_prev b = b_hash (match i with O => anc | S j => nth j (delivered o) anc end).
Proof.
  intros L c np anc es s o i b F R E.
  destruct (chain_from_nth L _ _ _ _ (delivered_chain L c np anc es s o F R) E) as (_ & _ & A). auto.
Qed.

(** F16: with the unrepaired pop test (first block number only) a spliced hash list
    X1 X2 | Y3 Y4 is delivered across the splice: Y3 right after X2, not its child. *)
Definition f16_anc : blk := mkBlk 0 100 99.
Definition f16_cfg : cfg := mkCfg 2 5 10 4.
Definition f16_events : list event :=
  [EHashSet 1 [101; 102; 203; 204]%N; ETick [];
   EChunk 0 [mkBlk 1 101 100; mkBlk 2 102 101] false;
   EChunk 1 [mkBlk 3 203 202; mkBlk 4 204 203] false;
   EAddRsp 1 (Some 101%N) false; EAddRsp 2 (Some 102%N) false;
   EAddRsp 3 (Some 203%N) false; EAddRsp 4 (Some 204%N) false].

Theorem delivered_linked_refuted_unrepaired :
  let '(_, o) := run_with pop_conn_f16 f16_cfg (init_st 2 f16_anc) f16_events in
  delivered o = [mkBlk 1 101 100; mkBlk 2 102 101; mkBlk 3 203 202; mkBlk 4 204 203]
  /\ stops o = [E_OK].
Proof. vm_compute. split; reflexivity. Qed.

(** the same events against the repaired test: the session stops with an error before Y3 *)
Example f16_events_repaired :
  let '(s, o) := run f16_cfg (init_st 2 f16_anc) f16_events in
  delivered o = [mkBlk 1 101 100; mkBlk 2 102 101] /\ stops o = [E_SYNCMSG] /\ stopped s = true.
Proof. vm_compute. repeat split; reflexivity. Qed.

Example f16_events_ok : Forall (ev_ok (fun n => nth_error [100; 101; 102; 203; 204]%N (N.to_nat n))) f16_events.
Proof.
  repeat constructor. simpl. intros i h E.
  destruct i as [|[|[|[|i]]]]; simpl in E; try (inversion E; subst; reflexivity).
  destruct i; discriminate.
Qed.

(** non-vacuity: an honest session with out-of-order chunk arrival, a timeout with retry on
    the other peer and a duplicate (stale) response delivers 1..4 and stops successfully *)
Definition honest_events : list event :=
  [EHashSet 1 [101; 102; 103; 104]%N; ETick [];
   EChunk 1 [mkBlk 3 103 102; mkBlk 4 104 103] false;
   ETick [1%N];
   EChunk 0 [mkBlk 1 101 100; mkBlk 2 102 101] false;
   EChunk 1 [mkBlk 1 101 100; mkBlk 2 102 101] false;
   EAddRsp 1 (Some 101%N) false; EAddRsp 2 (Some 102%N) false;
   EAddRsp 3 (Some 103%N) false; EAddRsp 4 (Some 104%N) false].

Example honest_run :
  let '(s, o) := run f16_cfg (init_st 2 f16_anc) honest_events in
  delivered o = [mkBlk 1 101 100; mkBlk 2 102 101; mkBlk 3 103 102; mkBlk 4 104 103]
  /\ stops o = [E_OK] /\ stopped s = false.
Proof. vm_compute. repeat split; reflexivity. Qed.

(* ---- stopping ---- *)
Theorem stopped_ignores_events : forall c s e, stopped s = true -> step c s e = (s, []).
Proof. intros c s e H. unfold step, step_with. rewrite H. reflexivity. Qed.

(** A late AddBlockRsp (AddBlockRsp carries no session number) that does not name the block
    being connected stops the session; it never changes what is delivered. *)
Theorem stale_add_rsp_stops : forall c s no h,
  stopped s = false ->
  (match cur_blk s with Some cb => b_no cb <> no \/ b_hash cb <> h | None => True end) ->
  exists err, step c s (EAddRsp no (Some h) false) = (set_stopped s, [OStop err]) /\ err <> E_OK.
Proof.
  intros c s no h St Hc. unfold step, step_with. rewrite St.
  unfold on_add_rsp_with. destruct (cur_blk s) as [cb|].
  - assert (E : negb ((b_no cb =? no)%N && (b_hash cb =? h)%N) = true).
    { apply negb_true_iff. apply andb_false_iff.
      destruct Hc as [Hc|Hc]; [left|right]; apply N.eqb_neq; auto. }
    rewrite E. simpl. exists E_SYNCMSG. split; [reflexivity|discriminate].
  - simpl. exists E_PANIC. split; [reflexivity|discriminate].
Qed.

(** The successful stop is sent exactly for the acknowledgement of the target block. *)
Lemma schedule_no_ok_stop : forall fuel c s s' o e, schedule fuel c s = (s', o, e) ->
  ~ In (OStop E_OK) o /\ e <> Some E_OK.
Proof.
  induction fuel as [|k IH]; simpl; intros c s s' o e H.
  - inversion H; subst. split; [intros []|discriminate].
  - destruct (free s) as [|p fr]; [inversion H; subst; split; [intros []|discriminate]|].
    destruct (_ <=? _)%nat; [inversion H; subst; split; [intros []|discriminate]|].
    destruct (search_candidate c s) as [[t|] s1]; [|inversion H; subst; split; [intros []|discriminate]].
    destruct (_ && _); [inversion H; subst; split; [intros []|discriminate]|].
    destruct (all_bad s1); [inversion H; subst; split; [intros []|discriminate]|].
    destruct (schedule k c (launch s1 t p fr)) as [[s5 outs] e0] eqn:SK.
    destruct (IH _ _ _ _ _ SK) as [A B]. inversion H; subst. split; auto.
    intros [Q|Q]; [discriminate|auto].
Qed.

Lemma get_next_err_not_ok : forall s e, get_next_with pop_conn s = inr e -> e <> E_OK.
Proof.
  intros s e. unfold get_next_with. destruct (cur_blk s); [discriminate|].
  set (cc := match cur_conn s with
             | Some (c, i) => if (length (c_blocks c) <=? S i)%nat then None else Some (c, S i)
             | None => None end).
  destruct cc as [[c i]|].
  - destruct (nth_error (c_blocks c) i); [discriminate|]. intros H; inversion H; subst. discriminate.
  - unfold pop_conn. cbn [connq set_proc prev_blk].
    destruct (connq s) as [|c0 r]; [discriminate|].
    destruct (negb _); [discriminate|].
    destruct (c_blocks c0) as [|b bs] eqn:B; [intros H; inversion H; subst; discriminate|].
    destruct (_ =? _)%N.
    + cbn [nth_error]. rewrite B. discriminate.
    + intros H; inversion H; subst. discriminate.
Qed.

Lemma check_timeout_err : forall timed todo s s1 e1, check_timeout timed todo s = (s1, e1) -> e1 <> Some E_OK.
Proof.
  induction todo as [|t r IH]; intros s s1 e1 CT; cbn [check_timeout] in CT.
  - inversion CT; subst. discriminate.
  - destruct (existsb _ timed).
    + destruct (process_failed_task _ t false) as [s2 bad]. destruct bad.
      * inversion CT; subst. discriminate.
      * eapply IH; eauto.
    + eapply IH; eauto.
Qed.

Theorem success_stop_only_for_target : forall c s e s' o,
  step c s e = (s', o) -> In (OStop E_OK) o ->
  exists cb, cur_blk s = Some cb /\ b_no cb = c_target c
             /\ e = EAddRsp (b_no cb) (Some (b_hash cb)) false.
Proof.
  intros c s e s' o. unfold step, step_with.
  destruct (stopped s); [intros H; inversion H; subst; intros []|].
  assert (FIN : forall s1 o1 e1, finish c (s1, o1, e1) = (s', o) -> e1 <> Some E_OK ->
                In (OStop E_OK) o -> In (OStop E_OK) o1).
  { intros s1 o1 e1. unfold finish. destruct e1 as [err|].
    - intros H Ne Hin. inversion H; subst. apply in_app_or in Hin. destruct Hin as [Hin|[Hin|[]]]; auto.
      inversion Hin; subst. congruence.
    - destruct (schedule (S (length (free s1))) c s1) as [[s2 o2] e2] eqn:SC.
      destruct (schedule_no_ok_stop _ _ _ _ _ _ SC) as [A B].
      destruct e2 as [err|]; intros H _ Hin; inversion H; subst.
      + apply in_app_or in Hin. destruct Hin as [Hin|Hin]; auto.
        apply in_app_or in Hin. destruct Hin as [Hin|[Hin|[]]]; [contradiction|].
        inversion Hin; subst. congruence.
      + apply in_app_or in Hin. destruct Hin as [Hin|Hin]; auto. contradiction. }
  destruct e as [start hs|p bs err|no h err|timed|].
  - intros H; inversion H; subst. intros [].
  - unfold on_chunk_with.
    destruct (err || negb (chunk_linked bs)).
    + destruct (take_first _ (running s)) as [[t r]|].
      * destruct (process_failed_task _ t false) as [s1 bad]. intros H Hin.
        apply FIN in H; auto; [destruct H|destruct bad; discriminate].
      * intros H Hin. apply FIN in H; auto; [destruct H|discriminate].
    + destruct (take_first _ (running s)) as [[t r]|].
      * match goal with |- context [get_next_with pop_conn ?S3] => destruct (get_next_with pop_conn S3) as [[s4 ob]|e4] eqn:G end.
        -- intros H Hin. apply FIN in H; auto; [|discriminate]. destruct ob; simpl in H; [destruct H as [H|[]]; discriminate|destruct H].
        -- intros H Hin. apply FIN in H; auto; [destruct H|].
           apply get_next_err_not_ok in G. congruence.
      * intros H Hin. apply FIN in H; auto; [destruct H|discriminate].
  - unfold on_add_rsp_with.
    assert (TRIV : forall er, finish c (s, [], Some er) = (s', o) -> er <> E_OK -> In (OStop E_OK) o -> False).
    { intros er H Ne Hin. unfold finish in H. inversion H; subst. simpl in Hin.
      destruct Hin as [Q|[]]. inversion Q. congruence. }
    destruct err; [intros H Hin; exfalso; eapply TRIV; eauto; discriminate|].
    destruct h as [h|]; [|intros H Hin; exfalso; eapply TRIV; eauto; discriminate].
    destruct (cur_blk s) as [cb|]; [|intros H Hin; exfalso; eapply TRIV; eauto; discriminate].
    destruct (N.eqb_spec (b_no cb) no) as [E1|E1]; cbn [andb negb];
      [|intros H Hin; exfalso; eapply TRIV; eauto; discriminate].
    destruct (N.eqb_spec (b_hash cb) h) as [E2|E2]; cbn [andb negb];
      [|intros H Hin; exfalso; eapply TRIV; eauto; discriminate].
    match goal with |- context [get_next_with pop_conn ?S1] => destruct (get_next_with pop_conn S1) as [[s2 ob]|e2] eqn:G end.
    + intros H Hin. apply FIN in H; auto; [|discriminate].
      destruct (N.eqb_spec (b_no cb) (c_target c)) as [E3|E3].
      * exists cb. subst. auto.
      * simpl in H. destruct ob; simpl in H; [destruct H as [H|[]]; discriminate|destruct H].
    + intros H Hin. apply get_next_err_not_ok in G. apply FIN in H; auto; [|congruence].
      destruct (N.eqb_spec (b_no cb) (c_target c)) as [E3|E3].
      * exists cb. subst. auto.
      * destruct H.
  - destruct (check_timeout timed (running s) s) as [s1 e1] eqn:CT.
    intros H Hin. apply FIN in H; auto; [destruct H|].
    eapply check_timeout_err; eauto.
  - intros H; inversion H; subst. intros [].
Qed.

(** every stop other than the success notice ends the loop: it is sent by [finish] together
    with [set_stopped] *)
Theorem error_stops : forall c s o e s' o',
  finish c (s, o, Some e) = (s', o') -> stopped s' = true /\ o' = o ++ [OStop e].
Proof. intros c s o e s' o' H. unfold finish in H. inversion H; subst. split; reflexivity. Qed.

(** Basic lemmas about keys, the key order, batches, [split_keys] and [masc]
    (maybeAddShortcutToKV).  Proofs only; the definitions are in Model.v. *)
From Coq Require Import List Bool Arith Lia.
From Verif Require Import Trie.Model.
Import ListNotations.

Lemma key_eqb_eq a b : key_eqb a b = true <-> a = b.
Proof.
  revert b; induction a as [|x a IH]; intros [|y b]; simpl; split; try congruence; try discriminate; auto.
  - rewrite andb_true_iff, eqb_true_iff, IH. intros [-> ->]; reflexivity.
  - intros H; inversion H; subst. rewrite andb_true_iff, eqb_true_iff, IH; auto.
Qed.
Lemma key_eqb_refl a : key_eqb a a = true.
Proof. apply key_eqb_eq; reflexivity. Qed.
Lemma key_eqb_neq a b : key_eqb a b = false <-> a <> b.
Proof.
  split.
  - intros H1 H2. apply key_eqb_eq in H2. congruence.
  - intros H1. destruct (key_eqb a b) eqn:E; [|reflexivity]. apply key_eqb_eq in E. contradiction.
Qed.
Lemma key_eqb_sym a b : key_eqb a b = key_eqb b a.
Proof.
  destruct (key_eqb a b) eqn:E.
  - apply key_eqb_eq in E; subst. symmetry; apply key_eqb_refl.
  - symmetry. apply key_eqb_neq. apply key_eqb_neq in E. congruence.
Qed.

(** the order *)
Lemma kcmp_refl a : kcmp a a = Eq.
Proof. induction a as [|[] a IH]; simpl; auto. Qed.
Lemma kcmp_eq a b : kcmp a b = Eq -> a = b.
Proof.
  revert b; induction a as [|x a IH]; intros [|y b]; simpl; try discriminate; auto.
  destruct x, y; try discriminate; intros H; f_equal; auto.
Qed.
Lemma kcmp_opp a b : kcmp b a = CompOpp (kcmp a b).
Proof.
  revert b; induction a as [|x a IH]; intros [|y b]; simpl; auto.
  destruct x, y; simpl; auto.
Qed.
Lemma klt_irrefl a : klt a a = false.
Proof. unfold klt. rewrite kcmp_refl. reflexivity. Qed.
Lemma klt_kgt a b : klt a b = kgt b a.
Proof. unfold klt, kgt. rewrite (kcmp_opp a b). destruct (kcmp a b); reflexivity. Qed.
Lemma klt_trans a b c : klt a b = true -> klt b c = true -> klt a c = true.
Proof.
  unfold klt. revert b c; induction a as [|x a IH]; intros [|y b] [|z c]; simpl; try discriminate; auto.
  destruct x, y, z; simpl; try discriminate; auto; apply IH.
Qed.
Lemma klt_asym a b : klt a b = true -> klt b a = false.
Proof. unfold klt. rewrite (kcmp_opp a b). destruct (kcmp a b); simpl; congruence. Qed.
Lemma klt_neq a b : klt a b = true -> a <> b.
Proof. intros H ->. rewrite klt_irrefl in H. discriminate. Qed.
Lemma klt_total a b : klt a b = false -> klt b a = false -> a = b.
Proof.
  unfold klt. intros H1 H2. apply kcmp_eq. rewrite (kcmp_opp a b) in H2.
  destruct (kcmp a b); simpl in *; congruence.
Qed.
Lemma klt_cons x a b : klt (x :: a) (x :: b) = klt a b.
Proof. unfold klt; simpl. destruct x; reflexivity. Qed.

Section B.
Context {val : Type}.
Notation batch := (batch val).
Implicit Types b : batch.

Definition bit_is (bit : bool) (kv : key * option val) : bool := Bool.eqb (head_bit kv) bit.
Definition part (bit : bool) b : batch := map strip (filter (bit_is bit) b).

Lemma sorted_cons_inv x b : sorted (x :: b) -> sorted b.
Proof. simpl; tauto. Qed.

Lemma sorted_app_inv b1 b2 : sorted (b1 ++ b2) -> sorted b1 /\ sorted b2.
Proof.
  induction b1 as [|x b1 IH]; simpl; [tauto|]. intros [Hf Hs].
  apply Forall_app in Hf. destruct Hf as [Hf1 Hf2]. destruct (IH Hs). tauto.
Qed.

Lemma sortedb_sorted b : sortedb b = true <-> sorted b.
Proof.
  induction b as [|x b IH]; simpl; [tauto|].
  rewrite andb_true_iff, forallb_forall, IH, Forall_forall. tauto.
Qed.

Lemma sorted_filter f b : sorted b -> sorted (filter f b).
Proof.
  induction b as [|x b IH]; simpl; [tauto|]. intros [Hf Hs].
  destruct (f x); simpl; auto. split; auto.
  rewrite Forall_forall in *. intros y Hy. apply filter_In in Hy. apply Hf, Hy.
Qed.

Lemma blookup_not_in b k : (forall kv, In kv b -> fst kv <> k) -> blookup b k = None.
Proof.
  induction b as [|[k' ov] b IH]; simpl; intros H; [reflexivity|].
  destruct (key_eqb k' k) eqn:E.
  - apply key_eqb_eq in E. exfalso. apply (H (k', ov)); auto.
  - apply IH. intros kv Hin. apply H. auto.
Qed.

Lemma blookup_in_sorted b k ov : sorted b -> In (k, ov) b -> blookup b k = Some ov.
Proof.
  induction b as [|[k' ov'] b IH]; simpl; intros Hs Hin; [contradiction|].
  destruct Hs as [Hf Hs]. destruct Hin as [Heq|Hin].
  - inversion Heq; subst. rewrite key_eqb_refl. reflexivity.
  - destruct (key_eqb k' k) eqn:E.
    + apply key_eqb_eq in E; subst. rewrite Forall_forall in Hf. specialize (Hf _ Hin). simpl in Hf.
      rewrite klt_irrefl in Hf. discriminate.
    + auto.
Qed.

Lemma blookup_some_in b k ov : blookup b k = Some ov -> In (k, ov) b.
Proof.
  induction b as [|[k' ov'] b IH]; simpl; [discriminate|].
  destruct (key_eqb k' k) eqn:E.
  - apply key_eqb_eq in E; subst. intros H; inversion H; auto.
  - auto.
Qed.

(** keys of length S h: head bit and tail *)
Lemma keys_len_cons_inv h x b : keys_len h (x :: b) -> length (fst x) = h /\ keys_len h b.
Proof. intros H; inversion H; auto. Qed.

Lemma head_true_after (k : key) (kv : key * option val) :
  head_bit (k, @None val) = true -> klt k (fst kv) = true -> head_bit kv = true.
Proof.
  destruct kv as [k' ov]. unfold head_bit; simpl.
  destruct k as [|[] k]; try discriminate. intros _.
  destruct k' as [|[] k']; unfold klt; simpl; auto; discriminate.
Qed.

Lemma filter_all_true b : (forall y, In y b -> head_bit y = true) ->
  filter (bit_is false) b = [] /\ filter (bit_is true) b = b.
Proof.
  induction b as [|y b IH]; intros Hall; simpl; [auto|].
  unfold bit_is. rewrite (Hall y) by (simpl; auto). simpl.
  destruct IH as [I1 I2]; [intros; apply Hall; simpl; auto|].
  unfold bit_is in I1, I2. rewrite I1, I2. auto.
Qed.

Lemma split_keys_sorted b :
  sorted b -> split_keys b = (filter (bit_is false) b, filter (bit_is true) b).
Proof.
  induction b as [|kv b IH]; [reflexivity|]. intros [Hf Hs].
  cbn [split_keys filter]. unfold bit_is. destruct (head_bit kv) eqn:Eh; cbn [Bool.eqb].
  - assert (Hall : forall y, In y b -> head_bit y = true).
    { intros y Hy. rewrite Forall_forall in Hf. specialize (Hf _ Hy).
      apply (head_true_after (fst kv)); [|assumption]. destruct kv; exact Eh. }
    destruct (filter_all_true b Hall) as [I1 I2]. unfold bit_is in I1, I2. rewrite I1, I2. reflexivity.
  - rewrite (IH Hs). reflexivity.
Qed.

Lemma blookup_part_eq bit b k h :
  keys_len (S h) b -> blookup (part bit b) k = blookup b (bit :: k).
Proof.
  induction b as [|[k' ov] b IH]; intros Hl; simpl; [reflexivity|].
  apply keys_len_cons_inv in Hl. destruct Hl as [Hk Hl]. simpl in Hk.
  destruct k' as [|x k']; [discriminate|].
  unfold part in *. simpl. unfold bit_is at 1, head_bit. simpl.
  destruct (Bool.eqb x bit) eqn:Hx; simpl.
  - destruct (key_eqb k' k); [reflexivity|]. apply IH; assumption.
  - apply IH; assumption.
Qed.

Lemma keys_len_part bit b h : keys_len (S h) b -> keys_len h (part bit b).
Proof.
  unfold keys_len, part. intros H. apply Forall_forall. intros kv Hin.
  apply in_map_iff in Hin. destruct Hin as [kv' [Heq Hin]]; subst kv.
  apply filter_In in Hin. destruct Hin as [Hin _].
  rewrite Forall_forall in H. specialize (H _ Hin). simpl in H. unfold strip; simpl.
  destruct kv' as [[|x k'] ov]; simpl in *; lia.
Qed.

Lemma sorted_part bit b h : keys_len (S h) b -> sorted b -> sorted (part bit b).
Proof.
  unfold part. induction b as [|x b IH]; simpl; [tauto|]. intros Hl [Hf Hs].
  apply keys_len_cons_inv in Hl. destruct Hl as [Hx Hl].
  destruct (bit_is bit x) eqn:Ex; simpl; [|auto]. split; [|auto].
  rewrite Forall_forall in *. intros y Hy. apply in_map_iff in Hy. destruct Hy as [y' [<- Hy']].
  apply filter_In in Hy'. destruct Hy' as [Hin Ey].
  specialize (Hf _ Hin). unfold keys_len in Hl. rewrite Forall_forall in Hl. specialize (Hl _ Hin).
  destruct x as [[|bx kx] ox]; simpl in *; [discriminate|].
  destruct y' as [[|by_ ky] oy]; simpl in *; [discriminate|].
  unfold bit_is, head_bit in *; simpl in *.
  apply eqb_prop in Ex, Ey. subst. rewrite klt_cons in Hf. exact Hf.
Qed.

Lemma part_both_nil b h : keys_len (S h) b -> part false b = [] -> part true b = [] -> b = [].
Proof.
  destruct b as [|[k ov] b]; [reflexivity|]. intros Hl.
  unfold part. cbn [filter]. unfold bit_is. destruct (head_bit (k, ov)); cbn [Bool.eqb map]; discriminate.
Qed.

Lemma length_part b : length (part false b) + length (part true b) = length b.
Proof.
  unfold part. rewrite !map_length. induction b as [|x b IH]; [reflexivity|].
  cbn [filter]. unfold bit_is in *. destruct (head_bit x); cbn [Bool.eqb length]; lia.
Qed.

End B.

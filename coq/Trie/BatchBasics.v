(** Basic facts about the 31-slot batch array: get/set, the index tree (children of slot i
    are 2i+1 and 2i+2), disjointness of the two subtrees of a slot. *)
From Coq Require Import List Bool Arith NArith Lia.
From Verif Require Import Trie.Model Trie.Proof Trie.BatchModel.
Import ListNotations.

Lemma bset_length b i v : length (bset b i v) = length b.
Proof. revert i; induction b as [|x b IH]; intros [|i]; simpl; auto. Qed.

Lemma bget_bset_same b i v : i < length b -> bget (bset b i v) i = v.
Proof.
  unfold bget. revert i; induction b as [|x b IH]; intros [|i] Hl; simpl in *; try lia; auto; apply IH; lia.
Qed.

Lemma bget_bset_other b i j v : i <> j -> bget (bset b i v) j = bget b j.
Proof.
  unfold bget. revert i j; induction b as [|x b IH]; intros [|i] [|j] Hne; simpl; auto; try lia;
  apply IH; lia.
Qed.

Lemma bget_bset b i j v : i < length b -> bget (bset b i v) j = if Nat.eqb i j then v else bget b j.
Proof.
  intros Hl. destruct (Nat.eqb i j) eqn:E.
  - apply Nat.eqb_eq in E. subst. apply bget_bset_same; auto.
  - apply Nat.eqb_neq in E. apply bget_bset_other; auto.
Qed.

Lemma bget_beyond b j : length b <= j -> bget b j = [].
Proof. intros. unfold bget. apply nth_overflow. auto. Qed.

(** ---- the index tree ---- *)
Definition parent (j : nat) : nat := (j - 1) / 2.
(** [underb i j]: slot j is strictly below slot i (at most 4 levels: indices 0..30) *)
Definition underb (i j : nat) : bool :=
  let p1 := parent j in let p2 := parent p1 in let p3 := parent p2 in let p4 := parent p3 in
  (Nat.ltb 0 j && Nat.eqb p1 i) || (Nat.ltb 0 j && Nat.ltb 0 p1 && Nat.eqb p2 i) ||
  (Nat.ltb 0 j && Nat.ltb 0 p1 && Nat.ltb 0 p2 && Nat.eqb p3 i) ||
  (Nat.ltb 0 j && Nat.ltb 0 p1 && Nat.ltb 0 p2 && Nat.ltb 0 p3 && Nat.eqb p4 i).

Lemma forall_range (f : nat -> bool) n : forallb f (seq 0 n) = true -> forall i, i < n -> f i = true.
Proof. intros Hf i Hi. rewrite forallb_forall in Hf. apply Hf. apply in_seq. lia. Qed.

Lemma forall_range2 (f : nat -> nat -> bool) n m :
  forallb (fun i => forallb (f i) (seq 0 m)) (seq 0 n) = true -> forall i j, i < n -> j < m -> f i j = true.
Proof. intros Hf i j Hi Hj. apply (forall_range (f i) m); auto. apply (forall_range _ n Hf i Hi). Qed.

(** children are below; everything below is a child or below a child *)
Lemma under_inv i j : i <= 14 -> j <= 30 ->
  underb i j = Nat.eqb j (2 * i + 1) || Nat.eqb j (2 * i + 2) || underb (2 * i + 1) j || underb (2 * i + 2) j.
Proof.
  intros Hi Hj.
  assert (Hc : forallb (fun i => forallb (fun j =>
     Bool.eqb (underb i j) (Nat.eqb j (2 * i + 1) || Nat.eqb j (2 * i + 2) || underb (2 * i + 1) j || underb (2 * i + 2) j))
     (seq 0 31)) (seq 0 15) = true) by (vm_compute; reflexivity).
  apply eqb_prop. apply (forall_range2 _ 15 31 Hc); lia.
Qed.

Lemma under_leaf_level i j : 15 <= i -> j <= 30 -> underb i j = false.
Proof.
  intros Hi Hj. destruct (Nat.le_gt_cases i 30) as [Hle|Hgt].
  - assert (Hc : forallb (fun i => forallb (fun j => negb (Nat.leb 15 i) || negb (underb i j)) (seq 0 31)) (seq 0 31) = true)
      by (vm_compute; reflexivity).
    pose proof (forall_range2 _ 31 31 Hc i j ltac:(lia) ltac:(lia)) as Hx. cbv beta in Hx.
    apply Nat.leb_le in Hi. rewrite Hi in Hx. destruct (underb i j); auto.
  - (* i > 30 >= j: every ancestor of j is < j *)
    unfold underb, parent.
    assert (forall x, x <= 30 -> (x - 1) / 2 <= 30) as Hp.
    { intros x Hx. apply Nat.div_le_upper_bound; lia. }
    assert (A1 := Hp j Hj). assert (A2 := Hp _ A1). assert (A3 := Hp _ A2). assert (A4 := Hp _ A3).
    repeat match goal with |- context [Nat.eqb ?a i] => replace (Nat.eqb a i) with false by (symmetry; apply Nat.eqb_neq; lia) end.
    repeat rewrite andb_false_r. reflexivity.
Qed.

(** the two subtrees of a slot are disjoint, and a slot is not below itself *)
Lemma under_facts i j : i <= 14 -> j <= 30 ->
  (underb (2 * i + 1) j && underb (2 * i + 2) j = false) /\
  underb (2 * i + 1) (2 * i + 2) = false /\ underb (2 * i + 2) (2 * i + 1) = false /\
  underb (2 * i + 1) (2 * i + 1) = false /\ underb (2 * i + 2) (2 * i + 2) = false /\
  underb i i = false /\ (underb i j = true -> i < j).
Proof.
  intros Hi Hj.
  assert (Hc : forallb (fun i => forallb (fun j =>
      negb (underb (2 * i + 1) j && underb (2 * i + 2) j) &&
      negb (underb (2 * i + 1) (2 * i + 2)) && negb (underb (2 * i + 2) (2 * i + 1)) &&
      negb (underb (2 * i + 1) (2 * i + 1)) && negb (underb (2 * i + 2) (2 * i + 2)) &&
      negb (underb i i) && (negb (underb i j) || Nat.ltb i j)) (seq 0 31)) (seq 0 15) = true)
    by (vm_compute; reflexivity).
  pose proof (forall_range2 _ 15 31 Hc i j ltac:(lia) ltac:(lia)) as Hx. cbv beta in Hx.
  repeat (apply andb_true_iff in Hx; destruct Hx as [Hx ?]).
  repeat match goal with H : negb _ = true |- _ => apply negb_true_iff in H end.
  repeat split; auto.
  intros Hu. match goal with H : negb (underb i j) || _ = true |- _ => rewrite Hu in H; simpl in H; apply Nat.ltb_lt in H; exact H end.
Qed.

Lemma under_child_l i j : i <= 14 -> j <= 30 -> underb (2 * i + 1) j = true -> underb i j = true.
Proof. intros Hi Hj Hu. rewrite under_inv by auto. rewrite Hu. rewrite orb_true_r. reflexivity. Qed.
Lemma under_child_r i j : i <= 14 -> j <= 30 -> underb (2 * i + 2) j = true -> underb i j = true.
Proof. intros Hi Hj Hu. rewrite under_inv by auto. rewrite Hu. rewrite orb_true_r. reflexivity. Qed.
Lemma under_l i : i <= 14 -> underb i (2 * i + 1) = true.
Proof. intros Hi. rewrite under_inv by lia. rewrite Nat.eqb_refl. reflexivity. Qed.
Lemma under_r i : i <= 14 -> underb i (2 * i + 2) = true.
Proof. intros Hi. rewrite under_inv by lia. rewrite Nat.eqb_refl. rewrite orb_true_r. reflexivity. Qed.

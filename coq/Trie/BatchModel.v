(** C10 model, storage layer: the 4-level node batches of pkg/trie (trie.go, trie_tools.go,
    trie_cache.go), literally.  No proofs here.

    A batch is the 31-slot array [batch[0..30]]: slot 0 is the shortcut flag ([1] = the batch
    root is a shortcut leaf, [0] = interior), the children of node i are the slots 2i+1 and
    2i+2; a node slot holds hash(32) ++ [flag] (flag 1 = shortcut, 0 = interior), the two
    child slots of a shortcut hold key ++ [2] and value ++ [2]; a node whose height is a
    multiple of 4 is the root of its own batch, stored under its hash; the slots 15..30 of
    the parent batch hold the hashes of those sub-batches.

    The store is (db, upd, cache): [db] = the committed key-value store (hash -> serialized
    batch, trie_cache.go:serializeBatch / trie.go:parseBatch), [upd] = CacheDB.updatedNodes,
    [cache] = CacheDB.liveCache, consulted first by loadBatch; storeNode caches a batch whose
    height is >= [climit] (= Trie.CacheHeightLimit; the node never sets it: TrieHeight+1, no
    cache) and deleteOldNode evicts under the same test.  In Go, Update (not AtomicUpdate)
    mutates the very slice it got from liveCache: an entry that is not evicted ends up holding
    the batch's FINAL contents.  This aliasing is modelled by [alias_back] at the batch root.
    Otherwise value semantics: a batch taken from [upd] is a copy.  In Go, Update (not
    AtomicUpdate) mutates the very slice kept in updatedNodes; the two coincide when every
    Update is followed by a Commit (what the node does) — the correspondence check compares
    this layer only on such histories.

    [bupdate] mirrors Trie.update; its [cb] argument/result is the CALLER's batch (Go mutates
    it in place when the callee is not a batch root, and leaves it alone otherwise).  The
    goroutines of updateParallel are run left then right.  [None] = an error return
    (loadBatch: "the trie node ... is unavailable"). *)
From Coq Require Import List Bool Arith NArith.
From Verif Require Import Trie.Model Trie.Proof.
Import ListNotations.

Definition batch := list bytes.                 (* 31 slots *)
Definition bget (b : batch) (i : nat) : bytes := nth i b [].
Fixpoint bset (b : batch) (i : nat) (v : bytes) : batch :=
  match b, i with
  | [], _ => []
  | _ :: tl, O => v :: tl
  | x :: tl, S i' => x :: bset tl i' v
  end.
Definition new_batch : batch := [0%N] :: repeat [] 30.     (* loadChildren: default batch *)
Definition empty_batch : batch := repeat [] 31.             (* make([][]byte, 31, 31) *)

Definition hash_of (node : bytes) : bytes := firstn 32 node.                 (* node[:HashLength] *)
Definition is_shortcut_node (node : bytes) : bool :=                          (* node[HashLength] == 1 *)
  match node with [] => false | _ => N.eqb (nth 32 node 0%N) 1 end.
(** var node Hash; copy(node[:], root): the map key is the first 32 bytes, zero padded *)
Definition map_key (root : bytes) : bytes :=
  let x := firstn 32 root in x ++ repeat 0%N (32 - length x).

(** ---- serialisation (trie_cache.go:serializeBatch, trie.go:parseBatch) ---- *)
Definition batch_bitmap (b : batch) : list bool :=
  map (fun i => negb (match bget b i with [] => true | _ => false end)) (seq 1 30)
  ++ [false; beqb (bget b 0) [1%N]].            (* bit 30 unused, bit 31 = shortcut batch *)
Definition serialize_batch (b : batch) : bytes :=
  bits_to_bytes (batch_bitmap b) ++ concat (map (bget b) (seq 1 30)).

Fixpoint parse_slots (bm : list bool) (rest : bytes) : list bytes :=
  match bm with
  | [] => []
  | true :: bm' => firstn 33 rest :: parse_slots bm' (skipn 33 rest)
  | false :: bm' => [] :: parse_slots bm' rest
  end.
Definition parse_batch (val : bytes) : batch :=
  let bm := bytes_to_bits (firstn 4 val) in
  let body := skipn 4 val in
  if nth 31 bm false then
    [1%N] :: firstn 33 body :: firstn 33 (skipn 33 body) :: repeat [] 28
  else [0%N] :: parse_slots (firstn 30 bm) body.

(** ---- the store ---- *)
Record store := { db : list (bytes * bytes); upd : list (bytes * batch); cache : list (bytes * batch) }.

Fixpoint alookup {A} (l : list (bytes * A)) (k : bytes) : option A :=
  match l with
  | [] => None
  | (k', v) :: tl => if beqb k' k then Some v else alookup tl k
  end.
Fixpoint aremove {A} (l : list (bytes * A)) (k : bytes) : list (bytes * A) :=
  match l with
  | [] => []
  | (k', v) :: tl => if beqb k' k then aremove tl k else (k', v) :: aremove tl k
  end.
Definition aput {A} (l : list (bytes * A)) (k : bytes) (v : A) : list (bytes * A) := (k, v) :: aremove l k.

(** loadBatch: liveCache, then updatedNodes, then the disk store *)
Definition load_batch (st : store) (root : bytes) : option batch :=
  match alookup (cache st) (map_key root) with
  | Some b => Some b
  | None =>
    match alookup (upd st) (map_key root) with
    | Some b => Some b
    | None => match alookup (db st) (hash_of root) with
              | Some val => match val with [] => None | _ => Some (parse_batch val) end
              | None => None
              end
    end
  end.

(** deleteOldNode(root, height, movingUp) *)
Definition delete_old_node (atomic : bool) (climit : nat) (st : store) (root : bytes) (height : nat) (moving_up : bool) : store :=
  let u := if negb atomic || moving_up then aremove (upd st) (map_key root) else upd st in
  let c := if Nat.leb climit height then aremove (cache st) (map_key root) else cache st in
  {| db := db st; upd := u; cache := c |}.

(** Commit / StageUpdates: every updated batch is written under its key; updatedNodes reset;
    liveCache untouched *)
Definition commit_store (st : store) : store :=
  {| db := fold_left (fun d e => aput d (fst e) (serialize_batch (snd e))) (upd st) (db st); upd := []; cache := cache st |}.

Section B.
Variable H : bytes -> bytes.
Variable atomic : bool.
Variable climit : nat.       (* Trie.CacheHeightLimit *)

(** storeNode(batch, h, oldRoot, height) (after the repair 20c2caba: always record, compare
    the 32-byte hashes); the batch is cached when height >= CacheHeightLimit *)
Definition store_node (st : store) (b : batch) (h old_root : bytes) (height : nat) : store :=
  let st1 := {| db := db st; upd := aput (upd st) (map_key h) b;
                cache := if Nat.leb climit height then aput (cache st) (map_key h) b else cache st |} in
  if Nat.ltb (length old_root) 32 || negb (beqb (hash_of h) (hash_of old_root))
  then delete_old_node atomic climit st1 old_root height false else st1.

(** in-place mutation of a batch obtained from liveCache: if its entry is still there at the
    end of the update of that batch, it holds the final contents *)
Definition alias_back (st_before st_after : store) (root : bytes) (b_final : batch) : store :=
  match root with
  | [] => st_after
  | _ =>
    if negb atomic then
      match alookup (cache st_before) (map_key root), alookup (cache st_after) (map_key root) with
      | Some _, Some _ => {| db := db st_after; upd := upd st_after; cache := aput (cache st_after) (map_key root) b_final |}
      | _, _ => st_after
      end
    else st_after
  end.

(** loadChildren: (batch, iBatch, lnode, rnode, isShortcut) *)
Definition load_children (st : store) (root : bytes) (h i : nat) (cb : batch)
  : option (batch * nat * bytes * bytes * bool) :=
  if Nat.eqb (h mod 4) 0 then
    match (match root with [] => Some new_batch | _ => load_batch st root end) with
    | None => None
    | Some b => Some (b, 0, bget b 1, bget b 2, beqb (bget b 0) [1%N])
    end
  else Some (cb, i, bget cb (2 * i + 1), bget cb (2 * i + 2), is_shortcut_node (bget cb i)).

(** leafHash *)
Definition leaf_hash_b (st : store) (key value old_root : bytes) (b : batch) (i h : nat)
  : store * batch * bytes :=
  let hh := H (key ++ value ++ [height_byte h]) ++ [1%N] in
  let b1 := bset (bset b (2 * i + 2) (value ++ [2%N])) (2 * i + 1) (key ++ [2%N]) in
  if Nat.eqb (h mod 4) 0 then
    let b2 := bset b1 0 [1%N] in (store_node st b2 hh old_root h, b2, hh)
  else (st, b1, hh).

(** interiorHash *)
Definition child_pre (n : bytes) : bytes := match n with [] => default_leaf | _ => hash_of n end.
Definition interior_hash_b (st : store) (left right old_root : bytes) (b : batch) (i h : nat)
  : store * batch * bytes :=
  let hh := H (child_pre left ++ child_pre right) ++ [0%N] in
  let b1 := bset (bset b (2 * i + 2) right) (2 * i + 1) left in
  if Nat.eqb (h mod 4) 0 then
    let b2 := bset b1 0 [0%N] in (store_node st b2 hh old_root h, b2, hh)
  else (st, b1, hh).

(** moveUpShortcut *)
Definition move_up_shortcut (st : store) (shortcut root : bytes) (b : batch) (i isc h : nat)
  : option (store * batch * bytes * bool) :=
  match load_children st shortcut (h - 1) isc b with
  | None => None
  | Some (_, _, skey, sval, _) =>
      let ns := H (hash_of skey ++ hash_of sval ++ [height_byte h]) ++ [1%N] in
      if Nat.eqb i 0 then
        let b1 := bset b 0 [1%N] in
        let b2 := bset (bset b1 1 skey) 2 sval in
        let b3 := bset (bset b2 (2 * isc + 1) []) (2 * isc + 2) [] in
        Some (store_node st b3 ns root h, b3, ns, true)
      else if Nat.eqb ((h - 1) mod 4) 0 then
        let b2 := bset (bset b (2 * i + 1) skey) (2 * i + 2) sval in
        Some (delete_old_node atomic climit st shortcut h true, b2, ns, true)
      else
        let b2 := bset (bset b (2 * i + 1) skey) (2 * i + 2) sval in
        let b3 := bset (bset b2 (2 * isc + 1) []) (2 * isc + 2) [] in
        Some (st, b3, ns, true)
  end.

(** maybeMoveUpShortcut: Some r = moved (return r), None = go on to interiorHash *)
Definition maybe_move_up (st : store) (left right root : bytes) (b : batch) (i h : nat)
  : option (option (store * batch * bytes * bool)) :=
  match left, right with
  | [], [] =>
      if Nat.eqb i 0 then Some (Some (delete_old_node atomic climit st root h true, b, [], true))
      else Some (Some (st, bset (bset b (2 * i + 1) []) (2 * i + 2) [], [], true))
  | [], _ => if is_shortcut_node right then Some (move_up_shortcut st right root b i (2 * i + 2) h) else None
  | _, [] => if is_shortcut_node left then Some (move_up_shortcut st left root b i (2 * i + 1) h) else None
  | _, _ => None
  end.

Definition finish (st : store) (left right root : bytes) (b : batch) (i h : nat) (deleted : bool)
  : option (store * batch * bytes * bool) :=
  match (if deleted then maybe_move_up st left right root b i h else None) with
  | Some r => r
  | None => let '(st', b', n) := interior_hash_b st left right root b i h in Some (st', b', n, false)
  end.

(** what the caller sees of the batch: its own batch if the callee was a batch root *)
Definition ret_batch (h : nat) (cb b : batch) : batch := if Nat.eqb (h mod 4) 0 then cb else b.

(** Trie.update after the shortcut handling: store-as-shortcut, splitKeys,
    updateLeft / updateRight / updateParallel; [rec] is the call one level down *)
Definition bgo (rec : store -> bytes -> Model.batch bytes -> batch -> nat -> list bool -> option (store * batch * bytes * bool))
  (h : nat) (st1 : store) (root : bytes) (kvs1 : Model.batch bytes) (b1 : batch) (i' : nat)
  (lnode rnode : bytes) (rp : list bool) : option (store * batch * bytes * bool) :=
  match lnode, rnode, kvs1 with
  | [], [], [(k, None)] => Some (st1, b1, [], true)
  | [], [], [(k, Some v)] =>
      let '(st2, b2, n) := leaf_hash_b st1 (bits_to_bytes (rev_append rp k)) v root b1 i' h in Some (st2, b2, n, false)
  | _, _, _ =>
    let '(lk, rk) := split_keys kvs1 in
    let lb := map strip lk in let rb := map strip rk in
    match lb, rb with
    | [], [] => None
    | [], _ =>
        match rec st1 rnode rb b1 (2 * i' + 2) (true :: rp) with
        | None => None
        | Some (st2, b2, rn, d) => finish st2 lnode rn root b2 i' h d
        end
    | _, [] =>
        match rec st1 lnode lb b1 (2 * i' + 1) (false :: rp) with
        | None => None
        | Some (st2, b2, ln, d) => finish st2 ln rnode root b2 i' h d
        end
    | _, _ =>
        match rec st1 lnode lb b1 (2 * i' + 1) (false :: rp) with
        | None => None
        | Some (st2, b2, ln, dl) =>
            match rec st2 rnode rb b2 (2 * i' + 2) (true :: rp) with
            | None => None
            | Some (st3, b3, rn, dr) => finish st3 ln rn root b3 i' h (dl || dr)
            end
        end
    end
  end.

(** the body of Trie.update after loadChildren; [b]/[i'] are the batch and index returned by
    loadChildren, [h] the current height (> 0) *)
Definition bbody (rec : store -> bytes -> Model.batch bytes -> batch -> nat -> list bool -> option (store * batch * bytes * bool))
  (h : nat) (st : store) (root : bytes) (kvs : Model.batch bytes) (b : batch) (i' : nat)
  (lnode0 rnode0 : bytes) (sc : bool) (rp : list bool) : option (store * batch * bytes * bool) :=
  if sc then
    (* the node is a shortcut: add its pair to the keys, clear its two cells *)
    let sk := skipn (length rp) (bytes_to_bits (hash_of lnode0)) in
    let kvs1 := masc sk (hash_of rnode0) kvs in
    let st1 := if Nat.eqb i' 0 then delete_old_node atomic climit st root h false else st in
    let b1 := bset (bset b (2 * i' + 1) []) (2 * i' + 2) [] in
    match kvs1 with
    | [] => Some (st1, b1, [], true)
    | _ => bgo rec h st1 root kvs1 b1 i' [] [] rp
    end
  else
    match kvs with
    | [] => None                                             (* keys = []: Go would panic *)
    | _ => bgo rec h st root kvs b i' lnode0 rnode0 rp
    end.

Fixpoint bupdate (h : nat) (st : store) (root : bytes) (kvs : Model.batch bytes)
  (cb : batch) (i : nat) (rp : list bool) {struct h} : option (store * batch * bytes * bool) :=
  match h with
  | O =>
      match kvs with
      | (k, Some v) :: _ =>
          let '(st', _, n) := leaf_hash_b st (bits_to_bytes (rev_append rp k)) v root empty_batch 0 0 in
          Some (st', cb, n, false)
      | _ => Some (delete_old_node atomic climit st root 0 false, cb, [], true)
      end
  | S h' =>
      match load_children st root h i cb with
      | None => None
      | Some (b, i', lnode0, rnode0, sc) =>
          match bbody (bupdate h') h st root kvs b i' lnode0 rnode0 sc rp with
          | None => None
          | Some (st', b', n, d) =>
              let st'' := if Nat.eqb (h mod 4) 0 then alias_back st st' root b' else st' in
              Some (st'', ret_batch h cb b', n, d)
          end
      end
  end.

(** Trie.Update: new root (32 bytes, nil for the empty trie) and store *)
Definition trie_update_b (st : store) (root : bytes) (kvs : Model.batch bytes) : option (store * bytes) :=
  match bupdate 256 st root kvs [] 0 [] with
  | None => None
  | Some (st', _, n, _) => Some (st', hash_of n)
  end.

(** ---- reading a tree back from the store: abs_batch_store ---- *)
Fixpoint abs_node (h : nat) (st : store) (node : bytes) (cb : batch) (i : nat) (rp : list bool) {struct h}
  : option (tree bytes) :=
  match node with
  | [] => Some E
  | _ =>
    match load_children st node h i cb with
    | None => None
    | Some (b, i', l, r, sc) =>
        if sc || Nat.eqb h 0 then
          Some (Lf (skipn (length rp) (bytes_to_bits (hash_of l))) (hash_of r))
        else match h with
             | O => None
             | S h' =>
                 match abs_node h' st l b (2 * i' + 1) (false :: rp), abs_node h' st r b (2 * i' + 2) (true :: rp) with
                 | Some a, Some c => Some (Nd a c)
                 | _, _ => None
                 end
             end
    end
  end.
Definition abs_batch_store (st : store) (root : bytes) : option (tree bytes) := abs_node 256 st root [] 0 [].

End B.

(** Refinement of the batch-storage layer, part 1: slot levels, frame lemmas, and the
    specifications of leafHash and interiorHash in terms of [lrep]. *)
From Coq Require Import List Bool Arith NArith Lia.
From Verif Require Import Trie.Model Trie.Basics Trie.HashBind Trie.Proof Trie.ProofBasics Trie.ProofSound
  Trie.Store Trie.StoreProofs Trie.BatchModel Trie.BatchBasics Trie.BatchRep.
Import ListNotations.

Section Rf.
Variable H : bytes -> bytes.
Hypothesis Hlen : forall x, length (H x) = 32.
Variable atomic : bool.
Variable climit : nat.

Notation enc := (enc H).
Notation lrep := (lrep H).
Notation canb := (canb H).
Notation inv_st := (inv_st H climit).

(** the liveCache entry of the replaced batch root, if still there, is the final batch *)
Definition cache_res (st' : store) (root : bytes) (b' : batch) : Prop :=
  forall bx, alookup (cache st') (map_key root) = Some bx -> bx = b'.

Lemma alookup_aremove_same {A} (l : list (bytes * A)) k : alookup (aremove l k) k = None.
Proof.
  induction l as [|[k' v'] l IH]; simpl; [reflexivity|]. destruct (beqb k' k) eqn:E0; [exact IH|].
  simpl. rewrite E0. exact IH.
Qed.

Lemma delete_cache_res st root height mv b : climit <= height ->
  cache_res (delete_old_node atomic climit st root height mv) root b.
Proof.
  intros Hc bx. unfold delete_old_node. simpl. apply Nat.leb_le in Hc. rewrite Hc.
  rewrite alookup_aremove_same. discriminate.
Qed.

Lemma store_node_cache_res st b hh old height : climit <= height -> 32 <= length hh ->
  cache_res (store_node atomic climit st b hh old height) old b.
Proof.
  intros Hc Lh. unfold store_node.
  destruct (Nat.ltb (length old) 32 || negb (beqb (hash_of hh) (hash_of old))) eqn:Ed.
  - apply delete_cache_res. exact Hc.
  - apply orb_false_iff in Ed. destruct Ed as [E1 E2]. apply Nat.ltb_ge in E1.
    apply negb_false_iff in E2. apply beqb_eq in E2.
    intros bx. simpl. apply Nat.leb_le in Hc. rewrite Hc.
    rewrite (map_key_hash_of old E1), <- E2, <- (map_key_hash_of hh Lh). simpl.
    rewrite (proj2 (beqb_eq _ _) eq_refl). intros Hx. inversion Hx. reflexivity.
Qed.


(** which slots a node of height h can occupy in its batch *)
Definition lvl (h i : nat) : Prop :=
  match h mod 4 with
  | 0 => i = 0
  | 1 => 7 <= i <= 14
  | 2 => 3 <= i <= 6
  | _ => 1 <= i <= 2
  end.

Lemma lvl_le h i : lvl h i -> i <= 14.
Proof. unfold lvl. destruct (h mod 4) as [|[|[|n]]]; lia. Qed.

Lemma lvl_zero h i : lvl h i -> (i = 0 <-> h mod 4 = 0).
Proof. unfold lvl. destruct (h mod 4) as [|[|[|n]]]; lia. Qed.

Lemma lvl_child h' i : lvl (S h') i -> h' mod 4 <> 0 -> lvl h' (2 * i + 1) /\ lvl h' (2 * i + 2).
Proof.
  unfold lvl. rewrite mod4_S. pose proof (Nat.mod_upper_bound h' 4 ltac:(lia)) as U.
  destruct (h' mod 4) as [|[|[|[|n]]]]; simpl; try lia.
Qed.

Definition crep (h' : nat) (b : batch) (j : nat) (rp : list bool) (s : tree bytes) : Prop :=
  if Nat.eqb (h' mod 4) 0 then True else lrep h' b j rp s.

(** ---- frames ---- *)
Lemma clean_frame b b' i : (forall j, j <= 30 -> underb i j = true -> bget b' j = bget b j) -> clean b i -> clean b' i.
Proof. intros Hf Hc j Hj Hu. rewrite (Hf j Hj Hu). apply Hc; auto. Qed.

Lemma under_trans_l i j : j <= 30 -> underb (2 * i + 1) j = true -> underb i j = true.
Proof.
  intros Hj Hu. destruct (Nat.le_gt_cases i 14) as [Hi|Hi]; [apply under_child_l; auto|].
  rewrite under_leaf_level in Hu by lia. discriminate.
Qed.
Lemma under_trans_r i j : j <= 30 -> underb (2 * i + 2) j = true -> underb i j = true.
Proof.
  intros Hj Hu. destruct (Nat.le_gt_cases i 14) as [Hi|Hi]; [apply under_child_r; auto|].
  rewrite under_leaf_level in Hu by lia. discriminate.
Qed.

Lemma slot_frame b b' i j : length b = 31 -> length b' = 31 ->
  (forall j, j <= 30 -> underb i j = true -> bget b' j = bget b j) ->
  (j = 2 * i + 1 \/ j = 2 * i + 2) -> bget b' j = bget b j.
Proof.
  intros L L' Hf Hj. destruct (Nat.le_gt_cases i 14) as [Hi|Hi].
  - apply Hf; [lia|]. destruct Hj as [-> | ->]; [apply under_l|apply under_r]; auto.
  - rewrite !bget_beyond by lia. reflexivity.
Qed.

Lemma lrep_frame : forall t h b b' i rp, length b = 31 -> length b' = 31 ->
  (forall j, j <= 30 -> underb i j = true -> bget b' j = bget b j) -> lrep h b i rp t -> lrep h b' i rp t.
Proof.
  induction t as [|k v|l IHl r IHr]; intros h b b' i rp L L' Hf R; cbn [BatchRep.lrep] in *.
  - eapply clean_frame; eauto.
  - destruct R as (R1 & R2 & R3 & R4).
    rewrite (slot_frame b b' i _ L L' Hf (or_introl eq_refl)), (slot_frame b b' i _ L L' Hf (or_intror eq_refl)).
    repeat split; auto.
    + eapply clean_frame; [|exact R3]. intros j Hj Hu. apply Hf; auto. apply under_trans_l; auto.
    + eapply clean_frame; [|exact R4]. intros j Hj Hu. apply Hf; auto. apply under_trans_r; auto.
  - destruct R as (R0 & R1 & R2 & R3).
    rewrite (slot_frame b b' i _ L L' Hf (or_introl eq_refl)), (slot_frame b b' i _ L L' Hf (or_intror eq_refl)).
    repeat split; auto. destruct (Nat.eqb (pred h mod 4) 0); [exact I|]. destruct R3 as [Rl Rr]. split.
    + apply (IHl _ b); auto. intros j Hj Hu. apply Hf; auto. apply under_trans_l; auto.
    + apply (IHr _ b); auto. intros j Hj Hu. apply Hf; auto. apply under_trans_r; auto.
Qed.

(** setting a slot that is not strictly below i does not disturb what is below i *)
Lemma bset_keeps_under b i s v : underb i s = false ->
  forall j, j <= 30 -> underb i j = true -> bget (bset b s v) j = bget b j.
Proof. intros Hs j Hj Hu. apply bget_bset_other. intros ->. congruence. Qed.

(** ---- leafHash ---- *)
Lemma keyb_cons rp x k : keyb (x :: rp) k = keyb rp (x :: k).
Proof. reflexivity. Qed.

Lemma clean_children b i : i <= 14 -> clean b i ->
  bget b (2 * i + 1) = [] /\ bget b (2 * i + 2) = [] /\ clean b (2 * i + 1) /\ clean b (2 * i + 2).
Proof.
  intros Hi Hc. repeat split.
  - apply Hc; [lia|apply under_l; auto].
  - apply Hc; [lia|apply under_r; auto].
  - intros j Hj Hu. apply Hc; auto. apply under_child_l; auto.
  - intros j Hj Hu. apply Hc; auto. apply under_child_r; auto.
Qed.

Lemma leaf_hash_spec st k v root b i h rp st' b' n :
  inv_st st -> length rp + h = 256 -> length k = h -> length v = 32 -> lvl h i -> length b = 31 ->
  clean b (2 * i + 1) -> clean b (2 * i + 2) ->
  leaf_hash_b H atomic climit st (keyb rp k) v root b i h = (st', b', n) ->
  n = enc h rp (Lf k v) /\ inv_st st' /\ length b' = 31 /\ lrep h b' i rp (Lf k v) /\
  (i <> 0 -> forall j, j <= 30 -> underb i j = false -> bget b' j = bget b j) /\
  (i = 0 -> climit <= h -> cache_res st' root b').
Proof.
  intros Hinv Hh Hk Hv Hl L C1 C2 E. pose proof (lvl_le _ _ Hl) as Hi.
  destruct (under_facts i (2 * i + 1) Hi ltac:(lia)) as (F1 & F2 & F3 & F4 & F5 & F6 & F7).
  unfold leaf_hash_b in E.
  set (b1 := bset (bset b (2 * i + 2) (v ++ [2%N])) (2 * i + 1) (keyb rp k ++ [2%N])) in *.
  assert (Lb1 : length b1 = 31) by (unfold b1; rewrite !bset_length; exact L).
  assert (G1 : bget b1 (2 * i + 1) = keyb rp k ++ [2%N]).
  { unfold b1. apply bget_bset_same. rewrite bset_length. lia. }
  assert (G2 : bget b1 (2 * i + 2) = v ++ [2%N]).
  { unfold b1. rewrite bget_bset_other by lia. apply bget_bset_same. lia. }
  assert (Gother : forall j, j <> 2 * i + 1 -> j <> 2 * i + 2 -> bget b1 j = bget b j).
  { intros j A B. unfold b1. rewrite !bget_bset_other by lia. reflexivity. }
  assert (C1' : clean b1 (2 * i + 1)).
  { intros j Hj Hu. rewrite Gother; [apply C1; auto| |]; intros ->; congruence. }
  assert (C2' : clean b1 (2 * i + 2)).
  { intros j Hj Hu. rewrite Gother; [apply C2; auto| |]; intros ->; congruence. }
  assert (Hn : H (keyb rp k ++ v ++ [height_byte h]) ++ [1%N] = enc h rp (Lf k v)) by reflexivity.
  assert (Hframe : i <> 0 -> forall j, j <= 30 -> underb i j = false -> bget b1 j = bget b j).
  { intros _ j Hj Hu. apply Gother; intros ->; [rewrite under_l in Hu by auto|rewrite under_r in Hu by auto]; discriminate. }
  destruct (Nat.eqb (h mod 4) 0) eqn:Em.
  - apply Nat.eqb_eq in Em. assert (i = 0) by (apply (lvl_zero _ _ Hl); exact Em). subst i.
    inversion E; subst st' b' n; clear E.
    set (b2 := bset b1 0 [1%N]).
    assert (R2 : lrep h b2 0 rp (Lf k v)).
    { cbn [BatchRep.lrep]. unfold b2. rewrite !bget_bset_other by lia. repeat split; auto.
      - intros j Hj Hu. rewrite bget_bset_other; [apply C1'; auto|]. intros <-. discriminate.
      - intros j Hj Hu. rewrite bget_bset_other; [apply C2'; auto|]. intros <-. discriminate. }
    split; [exact Hn|]. split.
    + apply inv_store_node; auto. rewrite Hn.
      rewrite map_key_hash_of by (rewrite enc_length by (auto; discriminate); lia).
      rewrite hash_of_enc by (auto; discriminate).
      exists rp, (Lf k v). split; [exact Em|]. split; [exact Hh|]. split; [exact Hk|]. split; [exact Hv|].
      split; [discriminate|]. split; [reflexivity|]. split; [unfold b2; rewrite bset_length; exact Lb1|].
      split; [unfold b2; apply bget_bset_same; lia|exact R2].
    + split; [unfold b2; rewrite bset_length; exact Lb1|]. split; [exact R2|]. split; [intros Hc; congruence|].
      intros _ Hcl. apply store_node_cache_res; auto. rewrite app_length, Hlen. simpl. lia.
  - inversion E; subst st' b' n; clear E.
    split; [exact Hn|]. split; [exact Hinv|]. split; [exact Lb1|]. split; [cbn [BatchRep.lrep]; repeat split; auto|].
    split; [exact Hframe|]. intros Hi0. exfalso. subst i. apply Nat.eqb_neq in Em. apply Em. apply (lvl_zero _ _ Hl). reflexivity.
Qed.

(** ---- interiorHash ---- *)
Lemma interior_hash_spec st l r root b i h' rp st' b' n :
  inv_st st -> length rp + S h' = 256 -> wf h' l -> wf h' r -> vals32 l -> vals32 r ->
  lvl (S h') i -> length b = 31 ->
  crep h' b (2 * i + 1) (false :: rp) l -> crep h' b (2 * i + 2) (true :: rp) r ->
  interior_hash_b H atomic climit st (enc h' (false :: rp) l) (enc h' (true :: rp) r) root b i (S h') = (st', b', n) ->
  n = enc (S h') rp (Nd l r) /\ inv_st st' /\ length b' = 31 /\ lrep (S h') b' i rp (Nd l r) /\
  (i <> 0 -> forall j, j <= 30 -> underb i j = false -> bget b' j = bget b j) /\
  (i = 0 -> climit <= S h' -> cache_res st' root b').
Proof.
  intros Hinv Hh Wl Wr Vl Vr Hl L Cl Cr E. pose proof (lvl_le _ _ Hl) as Hi.
  destruct (under_facts i (2 * i + 1) Hi ltac:(lia)) as (F1 & F2 & F3 & F4 & F5 & F6 & F7).
  unfold interior_hash_b in E. rewrite !child_pre_enc in E by exact Hlen.
  set (el := enc h' (false :: rp) l) in *. set (er := enc h' (true :: rp) r) in *.
  set (b1 := bset (bset b (2 * i + 2) er) (2 * i + 1) el) in *.
  assert (Lb1 : length b1 = 31) by (unfold b1; rewrite !bset_length; exact L).
  assert (G1 : bget b1 (2 * i + 1) = el) by (unfold b1; apply bget_bset_same; rewrite bset_length; lia).
  assert (G2 : bget b1 (2 * i + 2) = er) by (unfold b1; rewrite bget_bset_other by lia; apply bget_bset_same; lia).
  assert (Gother : forall j, j <> 2 * i + 1 -> j <> 2 * i + 2 -> bget b1 j = bget b j).
  { intros j A B. unfold b1. rewrite !bget_bset_other by lia. reflexivity. }
  assert (Hn : H (th H h' (false :: rp) l ++ th H h' (true :: rp) r) ++ [0%N] = enc (S h') rp (Nd l r)) by reflexivity.
  assert (Hframe : i <> 0 -> forall j, j <= 30 -> underb i j = false -> bget b1 j = bget b j).
  { intros _ j Hj Hu. apply Gother; intros ->; [rewrite under_l in Hu by auto|rewrite under_r in Hu by auto]; discriminate. }
  assert (Cl1 : crep h' b1 (2 * i + 1) (false :: rp) l).
  { unfold crep in *. destruct (Nat.eqb (h' mod 4) 0); [exact I|]. apply (lrep_frame l h' b); auto.
    intros j Hj Hu. apply Gother; intros ->; congruence. }
  assert (Cr1 : crep h' b1 (2 * i + 2) (true :: rp) r).
  { unfold crep in *. destruct (Nat.eqb (h' mod 4) 0); [exact I|]. apply (lrep_frame r h' b); auto.
    intros j Hj Hu. apply Gother; intros ->; congruence. }
  assert (R1 : forall bb, length bb = 31 -> (forall j, 1 <= j -> j <= 30 -> bget bb j = bget b1 j) -> lrep (S h') bb i rp (Nd l r)).
  { intros bb Lbb Hbb. cbn [BatchRep.lrep pred]. split; [discriminate|]. rewrite !Hbb by lia. split; [exact G1|]. split; [exact G2|].
    unfold crep in Cl1, Cr1. destruct (Nat.eqb (h' mod 4) 0); [exact I|]. split.
    - apply (lrep_frame l h' b1); auto. intros j Hj Hu. apply Hbb; auto.
      destruct (under_facts (2 * i + 1) j) as (_ & _ & _ & _ & _ & _ & G); try lia.
      { destruct (Nat.le_gt_cases (2 * i + 1) 14); auto. rewrite under_leaf_level in Hu by lia. discriminate. }
      specialize (G Hu). lia.
    - apply (lrep_frame r h' b1); auto. intros j Hj Hu. apply Hbb; auto.
      destruct (under_facts (2 * i + 2) j) as (_ & _ & _ & _ & _ & _ & G); try lia.
      { destruct (Nat.le_gt_cases (2 * i + 2) 14); auto. rewrite under_leaf_level in Hu by lia. discriminate. }
      specialize (G Hu). lia. }
  destruct (Nat.eqb (S h' mod 4) 0) eqn:Em.
  - apply Nat.eqb_eq in Em. assert (i = 0) by (apply (lvl_zero _ _ Hl); exact Em). subst i.
    inversion E; subst st' b' n; clear E.
    set (b2 := bset b1 0 [0%N]).
    assert (Lb2 : length b2 = 31) by (unfold b2; rewrite bset_length; exact Lb1).
    assert (R2 : lrep (S h') b2 0 rp (Nd l r)).
    { apply R1; auto. intros j Hj1 Hj2. unfold b2. apply bget_bset_other. lia. }
    split; [exact Hn|]. split.
    + apply inv_store_node; auto. rewrite Hn.
      rewrite map_key_hash_of by (rewrite enc_length by (auto; discriminate); lia).
      rewrite hash_of_enc by (auto; discriminate).
      exists rp, (Nd l r). split; [exact Em|]. split; [exact Hh|]. split; [split; assumption|]. split; [split; assumption|].
      split; [discriminate|]. split; [reflexivity|]. split; [exact Lb2|].
      split; [unfold b2; apply bget_bset_same; lia|exact R2].
    + split; [exact Lb2|]. split; [exact R2|]. split; [intros Hc; congruence|].
      intros _ Hcl. apply store_node_cache_res; auto. rewrite app_length, Hlen. simpl. lia.
  - inversion E; subst st' b' n; clear E.
    split; [exact Hn|]. split; [exact Hinv|]. split; [exact Lb1|]. split; [apply R1; auto|].
    split; [exact Hframe|]. intros Hi0. exfalso. subst i. apply Nat.eqb_neq in Em. apply Em. apply (lvl_zero _ _ Hl). reflexivity.
Qed.

End Rf.

(** Refinement of the batch-storage layer, part 2: moveUpShortcut (its three cases) and
    maybeMoveUpShortcut / interiorHash after the children returned ([finish]) against the
    tree-level [join]. *)
From Coq Require Import List Bool Arith NArith Lia.
From Verif Require Import Trie.Model Trie.Basics Trie.HashBind Trie.Proof Trie.ProofBasics Trie.ProofSound
  Trie.Store Trie.StoreProofs Trie.BatchModel Trie.BatchBasics Trie.BatchRep Trie.BatchRefine1.
Import ListNotations.

Section Rf2.
Variable H : bytes -> bytes.
Hypothesis Hlen : forall x, length (H x) = 32.
Variable atomic : bool.
Variable climit : nat.

Notation enc := (enc H).
Notation lrep := (lrep H).
Notation canb := (canb H).
Notation inv_st := (inv_st H climit).
Notation crep := (crep H).

Lemma keyb_len rp k h : length rp + h = 256 -> length k = h -> length (keyb rp k) = 32.
Proof.
  intros Hh Hk. unfold keyb.
  assert (L1 : length (rev_append rp k) = 8 * 32) by (rewrite rev_append_rev, app_length, rev_length; lia).
  destruct (bits_bytes_inv 32 _ L1) as [_ Lb]. exact Lb.
Qed.

Lemma hash_of_app32 x y : length x = 32 -> hash_of (x ++ y) = x.
Proof. intros L. unfold hash_of. rewrite firstn_app, L, Nat.sub_diag, firstn_O, app_nil_r. apply firstn_all2. lia. Qed.

(** a child slot s = 2i+c (c = 1 left, c = 2 right) of a node at level [lvl (S h') i] *)
Lemma child_slot_bounds h' i c : lvl (S h') i -> (c = 1 \/ c = 2) ->
  (h' mod 4 <> 0 -> 2 * i + c <= 14) /\ (h' mod 4 = 0 -> 15 <= 2 * i + c) /\ 2 * i + c <= 30.
Proof.
  intros Hl Hc. pose proof (lvl_le _ _ Hl) as Hi. repeat split; try lia.
  - intros Hm. destruct (lvl_child h' i Hl Hm) as [A B]. apply lvl_le in A. apply lvl_le in B. lia.
  - intros Hm. unfold lvl in Hl. rewrite mod4_S, Hm in Hl. simpl in Hl. lia.
Qed.

Lemma crep_E_clean h' b i c rp : lvl (S h') i -> (c = 1 \/ c = 2) -> length b = 31 ->
  crep h' b (2 * i + c) rp E -> clean b (2 * i + c).
Proof.
  intros Hl Hc L C. unfold BatchRefine1.crep in C. destruct (Nat.eqb (h' mod 4) 0) eqn:Em; [|exact C].
  apply Nat.eqb_eq in Em. destruct (child_slot_bounds h' i c Hl Hc) as (_ & B & _).
  intros j Hj Hu. rewrite under_leaf_level in Hu; [discriminate| |auto]. auto.
Qed.

(** where the key and value cells of a shortcut child are found *)
Lemma shortcut_cells st h' b s rp' k v bb ii sk sv sc :
  inv_st st -> length rp' + h' = 256 -> length k = h' -> length v = 32 -> length b = 31 ->
  crep h' b s rp' (Lf k v) ->
  load_children st (enc h' rp' (Lf k v)) h' s b = Some (bb, ii, sk, sv, sc) ->
  (sk = keyb rp' k ++ [2%N] /\ sv = v ++ [2%N]) \/ hash_break H.
Proof.
  intros Hinv Hh Hk Hv L C E. unfold load_children in E. unfold BatchRefine1.crep in C.
  destruct (Nat.eqb (h' mod 4) 0) eqn:Em.
  - apply Nat.eqb_eq in Em.
    destruct (enc h' rp' (Lf k v)) eqn:Ee; [apply (enc_nil H) in Ee; discriminate|]. rewrite <- Ee in E.
    destruct (load_batch st (enc h' rp' (Lf k v))) as [bs|] eqn:El; [|discriminate].
    injection E as <- <- <- <- <-.
    destruct (load_canonical H Hlen climit st (enc h' rp' (Lf k v)) h' rp' (Lf k v) bs Hinv Em Hh) as [(Lb & F0 & R)|B];
      auto; try discriminate.
    + rewrite enc_length by (auto; discriminate). lia.
    + apply hash_of_enc; auto. discriminate.
    + left. cbn [BatchRep.lrep] in R. destruct R as (R1 & R2 & _). auto.
  - injection E as <- <- <- <- <-. left. cbn [BatchRep.lrep] in C. destruct C as (R1 & R2 & _). auto.
Qed.

(** a batch in which the two child cells of node i hold a key and a value and everything
    below them is empty represents a shortcut at i *)
Lemma leaf_rep_intro h b i rp kk v :
  bget b (2 * i + 1) = keyb rp kk ++ [2%N] -> bget b (2 * i + 2) = v ++ [2%N] ->
  (forall j, j <= 30 -> underb (2 * i + 1) j = true \/ underb (2 * i + 2) j = true -> bget b j = []) ->
  lrep h b i rp (Lf kk v).
Proof. intros A B C. cbn [BatchRep.lrep]. repeat split; auto; intros j Hj Hu; apply C; auto. Qed.

(** moveUpShortcut: the shortcut child in slot 2i+c moves into node i; x is its branch bit *)
Lemma move_up_spec st b i h' rp c x k v root st' b' n d' :
  (c = 1 /\ x = false) \/ (c = 2 /\ x = true) ->
  inv_st st -> length rp + S h' = 256 -> length k = h' -> length v = 32 -> lvl (S h') i -> length b = 31 ->
  crep h' b (2 * i + c) (x :: rp) (Lf k v) -> clean b (2 * i + (3 - c)) ->
  move_up_shortcut H atomic climit st (enc h' (x :: rp) (Lf k v)) root b i (2 * i + c) (S h') = Some (st', b', n, d') ->
  (d' = true /\ n = enc (S h') rp (Lf (x :: k) v) /\ inv_st st' /\ length b' = 31 /\
   (i <> 0 -> lrep (S h') b' i rp (Lf (x :: k) v) /\ forall j, j <= 30 -> underb i j = false -> bget b' j = bget b j) /\
   (i = 0 -> climit <= S h' -> cache_res st' root b'))
  \/ hash_break H.
Proof.
  intros Hcx Hinv Hh Hk Hv Hl L C Co E. pose proof (lvl_le _ _ Hl) as Hi.
  assert (Hc : c = 1 \/ c = 2) by tauto.
  assert (Hh' : length (x :: rp) + h' = 256) by (simpl; lia).
  unfold move_up_shortcut in E. replace (S h' - 1) with h' in E by lia.
  destruct (load_children st (enc h' (x :: rp) (Lf k v)) h' (2 * i + c) b) as [[[[[bb ii] sk] sv] sc]|] eqn:Elc; [|discriminate].
  destruct (shortcut_cells st h' b (2 * i + c) (x :: rp) k v bb ii sk sv sc Hinv Hh' Hk Hv L C Elc) as [[-> ->]|B]; [|right; exact B].
  left.
  assert (Lk : length (keyb (x :: rp) k) = 32) by (apply (keyb_len _ _ h'); auto).
  rewrite (hash_of_app32 _ _ Lk), (hash_of_app32 _ _ Hv) in E.
  assert (Hn : H (keyb (x :: rp) k ++ v ++ [height_byte (S h')]) ++ [1%N] = enc (S h') rp (Lf (x :: k) v)) by reflexivity.
  rewrite Hn in E.
  destruct (child_slot_bounds h' i c Hl Hc) as (B1 & B2 & B3).
  set (s := 2 * i + c) in *. set (o := 2 * i + (3 - c)) in *.
  set (K := keyb (x :: rp) k ++ [2%N]) in *. set (V := v ++ [2%N]) in *.
  assert (HK : K = keyb rp (x :: k) ++ [2%N]) by reflexivity.
  (* everything strictly below the two child cells is empty once the old cells are cleared *)
  assert (Below : forall bb', length bb' = 31 ->
            (forall j, j <= 30 -> j <> 0 -> j <> 2 * i + 1 -> j <> 2 * i + 2 -> j <> 2 * s + 1 -> j <> 2 * s + 2 -> bget bb' j = bget b j) ->
            (h' mod 4 <> 0 -> bget bb' (2 * s + 1) = [] /\ bget bb' (2 * s + 2) = []) ->
            forall j, j <= 30 -> underb (2 * i + 1) j = true \/ underb (2 * i + 2) j = true -> bget bb' j = []).
  { intros bb' Lbb Hsame Hclr j Hj Hu.
    assert (Hu' : underb s j = true \/ underb o j = true).
    { unfold s, o. destruct Hc as [-> | ->]; simpl; replace (2 * i + (3 - 1)) with (2 * i + 2) by lia;
        replace (2 * i + (3 - 2)) with (2 * i + 1) by lia; tauto. }
    assert (Hj0 : j <> 0 /\ j <> 2 * i + 1 /\ j <> 2 * i + 2).
    { destruct (under_facts i j Hi Hj) as (F1 & F2 & F3 & F4 & F5 & F6 & F7).
      assert (underb i j = true) by (destruct Hu; [apply under_child_l|apply under_child_r]; auto).
      repeat split; [specialize (F7 H0); lia| |]; intros ->; destruct Hu as [Hu|Hu]; congruence. }
    destruct Hj0 as (J0 & J1 & J2).
    destruct Hu' as [Hs|Ho].
    - destruct (Nat.eq_dec (h' mod 4) 0) as [Em|Em].
      + rewrite under_leaf_level in Hs; [discriminate| |auto]. apply B2; auto.
      + destruct (Hclr Em) as [Z1 Z2].
        rewrite (under_inv s j (B1 Em) Hj) in Hs.
        destruct (Nat.eqb j (2 * s + 1)) eqn:E1; [apply Nat.eqb_eq in E1; subst; exact Z1|].
        destruct (Nat.eqb j (2 * s + 2)) eqn:E2; [apply Nat.eqb_eq in E2; subst; exact Z2|].
        apply Nat.eqb_neq in E1, E2. simpl in Hs.
        rewrite Hsame by auto.
        unfold BatchRefine1.crep in C. apply Nat.eqb_neq in Em. rewrite Em in C. cbn [BatchRep.lrep] in C.
        destruct C as (_ & _ & C1 & C2). apply orb_true_iff in Hs. destruct Hs; [apply C1|apply C2]; auto.
    - assert (j <> 2 * s + 1 /\ j <> 2 * s + 2).
      { split; intros ->.
        - destruct (Nat.eq_dec (h' mod 4) 0) as [Em|Em]; [specialize (B2 Em); lia|].
          assert (A : underb s (2 * s + 1) = true) by (apply under_l; auto).
          assert (A' : underb (2 * i + 1) (2 * s + 1) = true \/ underb (2 * i + 2) (2 * s + 1) = true).
          { unfold s in *. destruct Hc as [-> | ->]; auto. }
          destruct (under_facts i (2 * s + 1) Hi Hj) as (F1 & _).
          unfold s, o in *. destruct Hc as [-> | ->]; simpl in *;
            replace (2 * i + (3 - 1)) with (2 * i + 2) in * by lia; replace (2 * i + (3 - 2)) with (2 * i + 1) in * by lia;
            rewrite A, Ho in F1; discriminate.
        - destruct (Nat.eq_dec (h' mod 4) 0) as [Em|Em]; [specialize (B2 Em); lia|].
          assert (A : underb s (2 * s + 2) = true) by (apply under_r; auto).
          destruct (under_facts i (2 * s + 2) Hi Hj) as (F1 & _).
          unfold s, o in *. destruct Hc as [-> | ->]; simpl in *;
            replace (2 * i + (3 - 1)) with (2 * i + 2) in * by lia; replace (2 * i + (3 - 2)) with (2 * i + 1) in * by lia;
            rewrite A, Ho in F1; discriminate. }
      rewrite Hsame by tauto. apply Co; auto. }
  destruct (Nat.eqb i 0) eqn:Ei.
  - (* the batch root becomes a shortcut batch *)
    apply Nat.eqb_eq in Ei. subst i. injection E as <- <- <- <-.
    assert (Hm0 : S h' mod 4 = 0) by (apply (lvl_zero _ _ Hl); reflexivity).
    assert (Hm : h' mod 4 <> 0).
    { rewrite mod4_S in Hm0. destruct (Nat.eqb (h' mod 4) 3) eqn:A; [apply Nat.eqb_eq in A; lia|discriminate]. }
    set (b3 := bset (bset (bset (bset (bset b 0 [1%N]) 1 K) 2 V) (2 * s + 1) []) (2 * s + 2) []).
    assert (Lb3 : length b3 = 31) by (unfold b3; rewrite !bset_length; exact L).
    assert (Ss : s = 1 \/ s = 2) by (unfold s; lia).
    assert (R3 : lrep (S h') b3 0 rp (Lf (x :: k) v)).
    { apply leaf_rep_intro.
      - change (keyb rp (x :: k) ++ [2%N]) with K. unfold b3. repeat (rewrite bget_bset by (rewrite ?bset_length; lia)).
        replace (Nat.eqb (2 * s + 2) (2 * 0 + 1)) with false by (symmetry; apply Nat.eqb_neq; lia).
        replace (Nat.eqb (2 * s + 1) (2 * 0 + 1)) with false by (symmetry; apply Nat.eqb_neq; lia). reflexivity.
      - unfold b3. repeat (rewrite bget_bset by (rewrite ?bset_length; lia)).
        replace (Nat.eqb (2 * s + 2) (2 * 0 + 2)) with false by (symmetry; apply Nat.eqb_neq; lia).
        replace (Nat.eqb (2 * s + 1) (2 * 0 + 2)) with false by (symmetry; apply Nat.eqb_neq; lia). reflexivity.
      - apply Below; auto.
        + intros j Hj A0 A1 A2 A3 A4. unfold b3. rewrite !bget_bset_other by lia. reflexivity.
        + intros _. unfold b3. split.
          * rewrite bget_bset_other by lia. apply bget_bset_same. rewrite !bset_length. lia.
          * apply bget_bset_same. rewrite !bset_length. lia. }
    split; [reflexivity|]. split; [reflexivity|]. split.
    + apply inv_store_node; auto.
      match goal with |- BatchRep.canb_at _ _ (map_key ?e) _ => change e with (enc (S h') rp (Lf (x :: k) v)) end.
      rewrite map_key_hash_of by (rewrite enc_length by (auto; discriminate); lia).
      rewrite hash_of_enc by (auto; discriminate).
      exists rp, (Lf (x :: k) v). split; [exact Hm0|]. split; [exact Hh|]. split; [simpl; lia|]. split; [exact Hv|].
      split; [discriminate|]. split; [reflexivity|]. split; [exact Lb3|]. split; [|exact R3].
      unfold b3. rewrite !bget_bset_other by lia. apply bget_bset_same. lia.
    + split; [exact Lb3|]. split; [intros Hc0; congruence|].
      intros _ Hcl. apply store_node_cache_res; auto.
      match goal with |- 32 <= length ?e => change e with (enc (S h') rp (Lf (x :: k) v)) end.
      rewrite (enc_length H Hlen) by discriminate. lia.
  - apply Nat.eqb_neq in Ei.
    assert (Frame : forall bb', (forall j, j <= 30 -> j <> 2 * i + 1 -> j <> 2 * i + 2 -> j <> 2 * s + 1 -> j <> 2 * s + 2 -> bget bb' j = bget b j) ->
               forall j, j <= 30 -> underb i j = false -> bget bb' j = bget b j).
    { intros bb' Hsame j Hj Hu. apply Hsame; auto; intros ->.
      - rewrite under_l in Hu by auto. discriminate.
      - rewrite under_r in Hu by auto. discriminate.
      - destruct (Nat.eq_dec (h' mod 4) 0) as [Em|Em]; [specialize (B2 Em); lia|].
        assert (A : underb i (2 * s + 1) = true).
        { unfold s in *. destruct Hc as [-> | ->]; [apply under_child_l|apply under_child_r]; auto; apply under_l; apply (B1 Em). }
        congruence.
      - destruct (Nat.eq_dec (h' mod 4) 0) as [Em|Em]; [specialize (B2 Em); lia|].
        assert (A : underb i (2 * s + 2) = true).
        { unfold s in *. destruct Hc as [-> | ->]; [apply under_child_l|apply under_child_r]; auto; apply under_r; apply (B1 Em). }
        congruence. }
    destruct (Nat.eqb (h' mod 4) 0) eqn:Em.
    + (* the shortcut had its own batch: only the two cells of node i are written *)
      apply Nat.eqb_eq in Em. injection E as <- <- <- <-.
      set (b2 := bset (bset b (2 * i + 1) K) (2 * i + 2) V).
      assert (Lb2 : length b2 = 31) by (unfold b2; rewrite !bset_length; exact L).
      split; [reflexivity|]. split; [reflexivity|]. split; [apply inv_delete; exact Hinv|]. split; [exact Lb2|].
      split; [|intros Hi0; congruence].
      intros _. split.
      * apply leaf_rep_intro.
        -- change (keyb rp (x :: k) ++ [2%N]) with K. unfold b2. rewrite bget_bset_other by lia. apply bget_bset_same. lia.
        -- unfold b2. apply bget_bset_same. rewrite bset_length. lia.
        -- apply Below; auto.
           ++ intros j Hj A0 A1 A2 A3 A4. unfold b2. rewrite !bget_bset_other by lia. reflexivity.
           ++ intros Hc0. congruence.
      * apply Frame. intros j Hj A1 A2 A3 A4. unfold b2. rewrite !bget_bset_other by lia. reflexivity.
    + apply Nat.eqb_neq in Em. specialize (B1 Em). injection E as <- <- <- <-.
      set (b3 := bset (bset (bset (bset b (2 * i + 1) K) (2 * i + 2) V) (2 * s + 1) []) (2 * s + 2) []).
      assert (Lb3 : length b3 = 31) by (unfold b3; rewrite !bset_length; exact L).
      assert (Ds : 2 * s + 1 <> 2 * i + 1 /\ 2 * s + 1 <> 2 * i + 2 /\ 2 * s + 2 <> 2 * i + 1 /\ 2 * s + 2 <> 2 * i + 2 /\ 2 * s + 2 <= 30)
        by (unfold s; lia).
      split; [reflexivity|]. split; [reflexivity|]. split; [exact Hinv|]. split; [exact Lb3|].
      split; [|intros Hi0; congruence].
      intros _. split.
      * apply leaf_rep_intro.
        -- change (keyb rp (x :: k) ++ [2%N]) with K. unfold b3. rewrite !bget_bset_other by lia. apply bget_bset_same. lia.
        -- unfold b3. rewrite !bget_bset_other by lia. apply bget_bset_same. rewrite bset_length. lia.
        -- apply Below; auto.
           ++ intros j Hj A0 A1 A2 A3 A4. unfold b3. rewrite !bget_bset_other by lia. reflexivity.
           ++ intros _. unfold b3. split.
              ** rewrite bget_bset_other by lia. apply bget_bset_same. rewrite !bset_length. lia.
              ** apply bget_bset_same. rewrite !bset_length. lia.
      * apply Frame. intros j Hj A1 A2 A3 A4. unfold b3. rewrite !bget_bset_other by lia. reflexivity.
Qed.

Lemma enc_cons h rp t : t <> E -> exists a tl, enc h rp t = a :: tl.
Proof.
  intros Hne. destruct (enc h rp t) eqn:Ee; [apply (enc_nil H) in Ee; contradiction|eauto].
Qed.

Definition collapses (l r : tree bytes) : Prop :=
  match l, r with
  | E, E => True | E, Lf _ _ => True | Lf _ _, E => True | _, _ => False
  end.

Lemma maybe_move_up_none st l r root b i h hl rpl hr rpr :
  ~ collapses l r ->
  maybe_move_up H atomic climit st (enc hl rpl l) (enc hr rpr r) root b i h = None.
Proof.
  intros Hc. unfold maybe_move_up.
  destruct l as [|kl vl|ll lr]; destruct r as [|kr vr|rl rr]; simpl in Hc; try contradiction.
  - change (enc hl rpl E) with (@nil N).
    destruct (enc_cons hr rpr (Nd rl rr) ltac:(discriminate)) as (a & tl & Ea). rewrite Ea. rewrite <- Ea.
    rewrite (is_shortcut_enc H Hlen). reflexivity.
  - destruct (enc_cons hl rpl (Lf kl vl) ltac:(discriminate)) as (a & tl & Ea).
    destruct (enc_cons hr rpr (Lf kr vr) ltac:(discriminate)) as (a2 & tl2 & Ea2). rewrite Ea, Ea2. reflexivity.
  - destruct (enc_cons hl rpl (Lf kl vl) ltac:(discriminate)) as (a & tl & Ea).
    destruct (enc_cons hr rpr (Nd rl rr) ltac:(discriminate)) as (a2 & tl2 & Ea2). rewrite Ea, Ea2. reflexivity.
  - change (enc hr rpr E) with (@nil N).
    destruct (enc_cons hl rpl (Nd ll lr) ltac:(discriminate)) as (a & tl & Ea). rewrite Ea. rewrite <- Ea.
    rewrite (is_shortcut_enc H Hlen). reflexivity.
  - destruct (enc_cons hl rpl (Nd ll lr) ltac:(discriminate)) as (a & tl & Ea).
    destruct (enc_cons hr rpr (Lf kr vr) ltac:(discriminate)) as (a2 & tl2 & Ea2). rewrite Ea, Ea2. reflexivity.
  - destruct (enc_cons hl rpl (Nd ll lr) ltac:(discriminate)) as (a & tl & Ea).
    destruct (enc_cons hr rpr (Nd rl rr) ltac:(discriminate)) as (a2 & tl2 & Ea2). rewrite Ea, Ea2. reflexivity.
Qed.

Lemma join_no_collapse (l r : tree bytes) d : ~ collapses l r -> join l r d = (Nd l r, false).
Proof.
  intros Hc. unfold join. destruct d; [|reflexivity].
  destruct l as [|? ?|? ?]; destruct r as [|? ?|? ?]; simpl in Hc; try contradiction; reflexivity.
Qed.

(** after the children returned: maybeMoveUpShortcut / interiorHash = the tree-level [join] *)
Lemma finish_spec st l' r' root b i h' rp d st' b' n d' :
  inv_st st -> length rp + S h' = 256 -> wf h' l' -> wf h' r' -> vals32 l' -> vals32 r' ->
  lvl (S h') i -> length b = 31 ->
  crep h' b (2 * i + 1) (false :: rp) l' -> crep h' b (2 * i + 2) (true :: rp) r' ->
  finish H atomic climit st (enc h' (false :: rp) l') (enc h' (true :: rp) r') root b i (S h') d = Some (st', b', n, d') ->
  (d' = snd (join l' r' d) /\ n = enc (S h') rp (fst (join l' r' d)) /\ inv_st st' /\ length b' = 31 /\
   (i <> 0 -> lrep (S h') b' i rp (fst (join l' r' d)) /\
              forall j, j <= 30 -> underb i j = false -> bget b' j = bget b j) /\
   (i = 0 -> climit <= S h' -> cache_res st' root b'))
  \/ hash_break H.
Proof.
  intros Hinv Hh Wl Wr Vl Vr Hl L Cl Cr Ef. pose proof (lvl_le _ _ Hl) as Hi.
  assert (Interior : ~ collapses l' r' \/ d = false ->
    (let '(st2, b2, n2) := interior_hash_b H atomic climit st (enc h' (false :: rp) l') (enc h' (true :: rp) r') root b i (S h') in
       Some (st2, b2, n2, false)) = Some (st', b', n, d') ->
    (d' = snd (join l' r' d) /\ n = enc (S h') rp (fst (join l' r' d)) /\ inv_st st' /\ length b' = 31 /\
     (i <> 0 -> lrep (S h') b' i rp (fst (join l' r' d)) /\
                forall j, j <= 30 -> underb i j = false -> bget b' j = bget b j) /\
     (i = 0 -> climit <= S h' -> cache_res st' root b'))).
  { intros Hnc E'.
    assert (Hj : join l' r' d = (Nd l' r', false)).
    { destruct Hnc as [Hnc| ->]; [apply join_no_collapse; auto|reflexivity]. }
    rewrite Hj. simpl fst. simpl snd.
    destruct (interior_hash_b H atomic climit st (enc h' (false :: rp) l') (enc h' (true :: rp) r') root b i (S h')) as [[st2 b2] n2] eqn:Ei.
    injection E' as <- <- <- <-.
    destruct (interior_hash_spec H Hlen atomic climit st l' r' root b i h' rp st2 b2 n2 Hinv Hh Wl Wr Vl Vr Hl L Cl Cr Ei)
      as (A1 & A2 & A3 & A4 & A5 & A6).
    split; [reflexivity|]. split; [exact A1|]. split; [exact A2|]. split; [exact A3|].
    split; [intros Hi0; split; [exact A4|exact (A5 Hi0)]|exact A6]. }
  unfold finish in Ef. destruct d.
  2:{ left. cbv iota beta in Ef. apply Interior; [right; reflexivity|exact Ef]. }
  destruct l' as [|kl vl|ll lr] eqn:El'; destruct r' as [|kr vr|rl rr] eqn:Er';
    try (rewrite maybe_move_up_none in Ef by (simpl; tauto); left; apply Interior; [left; simpl; tauto|exact Ef]).
  - (* both children empty *)
    left. unfold maybe_move_up in Ef. change (enc h' (false :: rp) E) with (@nil N) in Ef.
    change (enc h' (true :: rp) E) with (@nil N) in Ef. cbv iota in Ef.
    destruct (Nat.eqb i 0) eqn:Ei0.
    + injection Ef as <- <- <- <-. apply Nat.eqb_eq in Ei0.
      split; [reflexivity|]. split; [reflexivity|]. split; [apply inv_delete; auto|]. split; [exact L|].
      split; [intros; congruence|]. intros _ Hcl. apply delete_cache_res. exact Hcl.
    + injection Ef as <- <- <- <-. apply Nat.eqb_neq in Ei0.
      pose proof (crep_E_clean h' b i 1 _ Hl (or_introl eq_refl) L Cl) as C1.
      pose proof (crep_E_clean h' b i 2 _ Hl (or_intror eq_refl) L Cr) as C2.
      split; [reflexivity|]. split; [reflexivity|]. split; [exact Hinv|]. split; [rewrite !bset_length; exact L|].
      split; [|intros Hi0; congruence].
      intros _. split.
      * simpl fst. cbn [BatchRep.lrep]. intros j Hj Hu. rewrite (under_inv i j Hi Hj) in Hu.
        destruct (Nat.eqb j (2 * i + 1)) eqn:E1.
        { apply Nat.eqb_eq in E1. subst j. rewrite bget_bset_other by lia. apply bget_bset_same. lia. }
        destruct (Nat.eqb j (2 * i + 2)) eqn:E2.
        { apply Nat.eqb_eq in E2. subst j. apply bget_bset_same. rewrite bset_length. lia. }
        apply Nat.eqb_neq in E1, E2. simpl in Hu. rewrite !bget_bset_other by lia.
        apply orb_true_iff in Hu. destruct Hu; [apply C1|apply C2]; auto.
      * intros j Hj Hu.
        assert (j <> 2 * i + 1) by (intros ->; rewrite under_l in Hu by auto; discriminate).
        assert (j <> 2 * i + 2) by (intros ->; rewrite under_r in Hu by auto; discriminate).
        rewrite !bget_bset_other by lia. reflexivity.
  - (* left empty, right a shortcut: it moves up *)
    unfold maybe_move_up in Ef. change (enc h' (false :: rp) E) with (@nil N) in Ef.
    destruct (enc_cons h' (true :: rp) (Lf kr vr) ltac:(discriminate)) as (a & tl & Ea). rewrite Ea in Ef. rewrite <- Ea in Ef.
    rewrite (is_shortcut_enc H Hlen) in Ef.
    simpl in Wr, Vr.
    pose proof (crep_E_clean h' b i 1 _ Hl (or_introl eq_refl) L Cl) as C1.
    destruct (move_up_spec st b i h' rp 2 true kr vr root st' b' n d' (or_intror (conj eq_refl eq_refl))
                Hinv Hh Wr Vr Hl L Cr C1 Ef) as [G|B]; [left|right; exact B].
    exact G.
  - (* right empty, left a shortcut *)
    unfold maybe_move_up in Ef. change (enc h' (true :: rp) E) with (@nil N) in Ef.
    destruct (enc_cons h' (false :: rp) (Lf kl vl) ltac:(discriminate)) as (a & tl & Ea). rewrite Ea in Ef. rewrite <- Ea in Ef.
    rewrite (is_shortcut_enc H Hlen) in Ef.
    simpl in Wl, Vl.
    pose proof (crep_E_clean h' b i 2 _ Hl (or_intror eq_refl) L Cr) as C2.
    destruct (move_up_spec st b i h' rp 1 false kl vl root st' b' n d' (or_introl (conj eq_refl eq_refl))
                Hinv Hh Wl Vl Hl L Cl C2 Ef) as [G|B]; [left|right; exact B].
    exact G.
Qed.

End Rf2.

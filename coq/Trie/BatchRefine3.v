(** Refinement of the batch-storage layer, part 3: the recursion.  [bupdate] (Trie.update on
    31-slot batches and a hash-keyed store) computes, for every height, path, store satisfying
    [inv_st] and batch representing a tree t, the encoding of [update h t kvs] with the same
    [deleted] flag, leaves the caller's batch representing the new subtree with nothing stale
    below the node and nothing touched outside it, and keeps the store content-addressed —
    unless the hash function is broken. *)
From Coq Require Import List Bool Arith NArith Lia.
From Verif Require Import Trie.Model Trie.Basics Trie.Masc Trie.GetUpdate Trie.Canon Trie.HashBind Trie.Proof Trie.ProofBasics Trie.ProofSound
  Trie.Store Trie.StoreProofs Trie.BatchModel Trie.BatchBasics Trie.BatchRep Trie.BatchRefine1 Trie.BatchRefine2 Trie.TreeVals.
Import ListNotations.

Section Rf3.
Variable H : bytes -> bytes.
Hypothesis Hlen : forall x, length (H x) = 32.
Variable atomic : bool.
Variable climit : nat.

Notation enc := (enc H).
Notation lrep := (lrep H).
Notation canb := (canb H).
Notation inv_st := (inv_st H climit).
Notation crep := (crep H).

Definition good (h : nat) (kvs : Model.batch bytes) : Prop :=
  keys_len h kvs /\ sorted kvs /\ kvs <> [] /\ bvals32 kvs.

Definition root_ok (h : nat) (rp : list bool) (root : bytes) (t : tree bytes) : Prop :=
  (t = E /\ root = []) \/ (t <> E /\ 32 <= length root /\ hash_of root = th H h rp t).

Definition rec_t := store -> bytes -> Model.batch bytes -> batch -> nat -> list bool -> option (store * batch * bytes * bool).

Definition rec_ok (h : nat) (rec : rec_t) : Prop :=
  forall st root kvs cb i rp t st' cb' n' d,
    inv_st st -> length rp + h = 256 -> wf h t -> vals32 t -> canon t -> good h kvs ->
    (if Nat.eqb (h mod 4) 0 then root_ok h rp root t
     else length cb = 31 /\ lvl h i /\ lrep h cb i rp t /\ bget cb i = enc h rp t) ->
    rec st root kvs cb i rp = Some (st', cb', n', d) ->
    (d = snd (update h t kvs) /\ n' = enc h rp (fst (update h t kvs)) /\ inv_st st' /\ length cb' = length cb /\
     (if Nat.eqb (h mod 4) 0 then cb' = cb
      else lrep h cb' i rp (fst (update h t kvs)) /\
           forall j, j <= 30 -> underb i j = false -> bget cb' j = bget cb j))
    \/ hash_break H.

Lemma good_part h kvs bit : good (S h) kvs -> part bit kvs <> [] -> good h (part bit kvs).
Proof.
  intros (K & S & _ & V) Hne. repeat split; auto.
  - apply keys_len_part; auto.
  - apply (sorted_part bit kvs h); auto.
  - apply bvals32_part; auto.
Qed.

(** facts about the tree-level result of a child call *)
Lemma child_result h s kb : wf h s -> vals32 s -> canon s -> good h kb ->
  wf h (fst (update h s kb)) /\ vals32 (fst (update h s kb)) /\ canon (fst (update h s kb)).
Proof.
  intros W V C (K & S & N & B).
  pose proof (update_inv h s kb W C K S N) as R. unfold res_ok in R.
  pose proof (update_vals32 h s kb W V B K S) as V'.
  destruct (update h s kb) as [s' d]. simpl in *. tauto.
Qed.

(** ---- one child call ---- *)
Lemma child_call h' (rec : rec_t) st b i rp c x s kb st2 b2 n2 d2 :
  rec_ok h' rec -> (c = 1 /\ x = false) \/ (c = 2 /\ x = true) ->
  inv_st st -> length rp + S h' = 256 -> lvl (S h') i -> length b = 31 ->
  wf h' s -> vals32 s -> canon s -> good h' kb ->
  crep h' b (2 * i + c) (x :: rp) s -> bget b (2 * i + c) = enc h' (x :: rp) s ->
  rec st (enc h' (x :: rp) s) kb b (2 * i + c) (x :: rp) = Some (st2, b2, n2, d2) ->
  (d2 = snd (update h' s kb) /\ n2 = enc h' (x :: rp) (fst (update h' s kb)) /\ inv_st st2 /\ length b2 = 31 /\
   crep h' b2 (2 * i + c) (x :: rp) (fst (update h' s kb)) /\
   (forall j, j <= 30 -> underb (2 * i + c) j = false -> bget b2 j = bget b j))
  \/ hash_break H.
Proof.
  intros Hrec Hcx Hinv Hh Hl L W V C G Cr Hslot Ecall.
  assert (Hc : c = 1 \/ c = 2) by tauto.
  assert (Hh' : length (x :: rp) + h' = 256) by (simpl; lia).
  assert (Pre : if Nat.eqb (h' mod 4) 0 then root_ok h' (x :: rp) (enc h' (x :: rp) s) s
                else length b = 31 /\ lvl h' (2 * i + c) /\ lrep h' b (2 * i + c) (x :: rp) s /\ bget b (2 * i + c) = enc h' (x :: rp) s).
  { destruct (Nat.eqb (h' mod 4) 0) eqn:Em.
    - unfold root_ok. destruct s as [|k v|l r]; [left; auto| |]; right.
      + split; [discriminate|]. split; [rewrite (enc_length H Hlen) by discriminate; lia|apply (hash_of_enc H Hlen); discriminate].
      + split; [discriminate|]. split; [rewrite (enc_length H Hlen) by discriminate; lia|apply (hash_of_enc H Hlen); discriminate].
    - apply Nat.eqb_neq in Em. destruct (lvl_child h' i Hl Em) as [A B].
      unfold BatchRefine1.crep in Cr. apply Nat.eqb_neq in Em. rewrite Em in Cr.
      repeat split; auto. destruct Hc as [-> | ->]; assumption. }
  destruct (Hrec st _ kb b (2 * i + c) (x :: rp) s st2 b2 n2 d2 Hinv Hh' W V C G Pre Ecall) as [(A1 & A2 & A3 & A4 & A5)|B];
    [left|right; exact B].
  split; [exact A1|]. split; [exact A2|]. split; [exact A3|]. split; [lia|].
  unfold BatchRefine1.crep. destruct (Nat.eqb (h' mod 4) 0).
  - subst b2. split; [exact I|]. auto.
  - destruct A5. split; auto.
Qed.

(** the sibling of a child that was updated is untouched *)
Lemma sibling_kept h' b b2 i c rp' s2 : length b = 31 -> length b2 = 31 -> lvl (S h') i -> (c = 1 \/ c = 2) ->
  (forall j, j <= 30 -> underb (2 * i + c) j = false -> bget b2 j = bget b j) ->
  crep h' b (2 * i + (3 - c)) rp' s2 ->
  crep h' b2 (2 * i + (3 - c)) rp' s2 /\ bget b2 (2 * i + (3 - c)) = bget b (2 * i + (3 - c)).
Proof.
  intros L L2 Hl Hc Hf Cs. pose proof (lvl_le _ _ Hl) as Hi.
  destruct (under_facts i (2 * i + 1) Hi ltac:(lia)) as (F1 & F2 & F3 & _).
  split.
  - unfold BatchRefine1.crep in *. destruct (Nat.eqb (h' mod 4) 0); [exact I|].
    apply (lrep_frame H s2 h' b); auto. intros j Hj Hu. apply Hf; auto.
    destruct (under_facts i j Hi Hj) as (D & _).
    destruct Hc as [-> | ->].
    + replace (2 * i + (3 - 1)) with (2 * i + 2) in Hu by lia. rewrite Hu, andb_true_r in D. exact D.
    + replace (2 * i + (3 - 2)) with (2 * i + 1) in Hu by lia. rewrite Hu in D. exact D.
  - apply Hf; [lia|]. destruct Hc as [-> | ->].
    + replace (2 * i + (3 - 1)) with (2 * i + 2) by lia. exact F2.
    + replace (2 * i + (3 - 2)) with (2 * i + 1) by lia. exact F3.
Qed.

(** ---- the split branch of update ---- *)
Definition bgo_gen (rec : rec_t) (h : nat) (st1 : store) (root : bytes) (kvs1 : Model.batch bytes)
  (b1 : batch) (i' : nat) (lnode rnode : bytes) (rp : list bool) : option (store * batch * bytes * bool) :=
  let '(lk, rk) := split_keys kvs1 in
  let lb := map strip lk in let rb := map strip rk in
  match lb, rb with
  | [], [] => None
  | [], _ =>
      match rec st1 rnode rb b1 (2 * i' + 2) (true :: rp) with
      | None => None
      | Some (st2, b2, rn, d) => finish H atomic climit st2 lnode rn root b2 i' h d
      end
  | _, [] =>
      match rec st1 lnode lb b1 (2 * i' + 1) (false :: rp) with
      | None => None
      | Some (st2, b2, ln, d) => finish H atomic climit st2 ln rnode root b2 i' h d
      end
  | _, _ =>
      match rec st1 lnode lb b1 (2 * i' + 1) (false :: rp) with
      | None => None
      | Some (st2, b2, ln, dl) =>
          match rec st2 rnode rb b2 (2 * i' + 2) (true :: rp) with
          | None => None
          | Some (st3, b3, rn, dr) => finish H atomic climit st3 ln rn root b3 i' h (dl || dr)
          end
      end
  end.

Lemma bgo_unfold rec h st1 root kvs1 b1 i' lnode rnode rp :
  bgo H atomic climit rec h st1 root kvs1 b1 i' lnode rnode rp =
  match lnode, rnode, kvs1 with
  | [], [], [(k, None)] => Some (st1, b1, [], true)
  | [], [], [(k, Some v)] =>
      let '(st2, b2, n) := leaf_hash_b H atomic climit st1 (bits_to_bytes (rev_append rp k)) v root b1 i' h in Some (st2, b2, n, false)
  | _, _, _ => bgo_gen rec h st1 root kvs1 b1 i' lnode rnode rp
  end.
Proof.
  unfold bgo, bgo_gen. destruct lnode, rnode; try reflexivity; destruct kvs1 as [|[k [v|]] [|? ?]]; reflexivity.
Qed.

(** finish after the children were updated inside node i, with the frame back to [b1] *)
Lemma after_children st l' r' root b1 b2 i h' rp d st' b' n d' :
  inv_st st -> length rp + S h' = 256 -> wf h' l' -> wf h' r' -> vals32 l' -> vals32 r' ->
  lvl (S h') i -> length b1 = 31 -> length b2 = 31 ->
  crep h' b2 (2 * i + 1) (false :: rp) l' -> crep h' b2 (2 * i + 2) (true :: rp) r' ->
  (forall j, j <= 30 -> underb i j = false -> bget b2 j = bget b1 j) ->
  finish H atomic climit st (enc h' (false :: rp) l') (enc h' (true :: rp) r') root b2 i (S h') d = Some (st', b', n, d') ->
  (d' = snd (join l' r' d) /\ n = enc (S h') rp (fst (join l' r' d)) /\ inv_st st' /\ length b' = 31 /\
   (i <> 0 -> lrep (S h') b' i rp (fst (join l' r' d)) /\
              forall j, j <= 30 -> underb i j = false -> bget b' j = bget b1 j) /\
   (i = 0 -> climit <= S h' -> cache_res st' root b'))
  \/ hash_break H.
Proof.
  intros Hinv Hh Wl Wr Vl Vr Hl L1 L2 Cl Cr Hf Ef.
  destruct (finish_spec H Hlen atomic climit st l' r' root b2 i h' rp d st' b' n d' Hinv Hh Wl Wr Vl Vr Hl L2 Cl Cr Ef)
    as [(A1 & A2 & A3 & A4 & A5 & A8)|B]; [left|right; exact B].
  split; [exact A1|]. split; [exact A2|]. split; [exact A3|]. split; [exact A4|]. split; [|exact A8].
  intros Hi0. destruct (A5 Hi0) as [A6 A7]. split; [exact A6|].
  intros j Hj Hu. rewrite A7 by auto. apply Hf; auto.
Qed.

Lemma not_under_child i c j : i <= 14 -> (c = 1 \/ c = 2) -> j <= 30 -> underb i j = false -> underb (2 * i + c) j = false.
Proof.
  intros Hi Hc Hj Hu. destruct (underb (2 * i + c) j) eqn:E0; [|reflexivity].
  destruct Hc as [-> | ->]; [rewrite (under_child_l i j Hi Hj E0) in Hu|rewrite (under_child_r i j Hi Hj E0) in Hu]; discriminate.
Qed.

Lemma join_fst_snd {A} (l : tree A) (u : tree A * bool) :
  (let '(r', d) := u in join l r' d) = join l (fst u) (snd u).
Proof. destruct u; reflexivity. Qed.
Lemma join_fst_snd_l {A} (r : tree A) (u : tree A * bool) :
  (let '(l', d) := u in join l' r d) = join (fst u) r (snd u).
Proof. destruct u; reflexivity. Qed.
Lemma join_fst_snd_2 {A} (u1 u2 : tree A * bool) :
  (let '(l', dl) := u1 in let '(r', dr) := u2 in join l' r' (dl || dr)) = join (fst u1) (fst u2) (snd u1 || snd u2).
Proof. destruct u1, u2; reflexivity. Qed.

Lemma bgo_gen_spec h' (rec : rec_t) st1 root kvs1 b1 i rp l r st' b' n' d :
  rec_ok h' rec -> inv_st st1 -> length rp + S h' = 256 -> lvl (S h') i -> length b1 = 31 ->
  wf h' l -> wf h' r -> vals32 l -> vals32 r -> canon l -> canon r -> good (S h') kvs1 ->
  crep h' b1 (2 * i + 1) (false :: rp) l -> crep h' b1 (2 * i + 2) (true :: rp) r ->
  bget b1 (2 * i + 1) = enc h' (false :: rp) l -> bget b1 (2 * i + 2) = enc h' (true :: rp) r ->
  bgo_gen rec (S h') st1 root kvs1 b1 i (enc h' (false :: rp) l) (enc h' (true :: rp) r) rp = Some (st', b', n', d) ->
  (d = snd (go_split (update h') l r kvs1) /\ n' = enc (S h') rp (fst (go_split (update h') l r kvs1)) /\
   inv_st st' /\ length b' = 31 /\
   (i <> 0 -> lrep (S h') b' i rp (fst (go_split (update h') l r kvs1)) /\
              forall j, j <= 30 -> underb i j = false -> bget b' j = bget b1 j) /\
   (i = 0 -> climit <= S h' -> cache_res st' root b'))
  \/ hash_break H.
Proof.
  intros Hrec Hinv Hh Hl L Wl Wr Vl Vr Cal Car G Cl Cr Sl Sr Eg.
  pose proof (lvl_le _ _ Hl) as Hi. destruct G as (K & S & Nn & Bv).
  unfold bgo_gen in Eg. rewrite (split_keys_sorted kvs1 S) in Eg. fold (part false kvs1) in Eg. fold (part true kvs1) in Eg.
  unfold go_split.
  assert (Gl : part false kvs1 <> [] -> good h' (part false kvs1)) by (apply good_part; repeat split; auto).
  assert (Gr : part true kvs1 <> [] -> good h' (part true kvs1)) by (apply good_part; repeat split; auto).
  destruct (part false kvs1) as [|x lb] eqn:Epl; destruct (part true kvs1) as [|y rb] eqn:Epr.
  - discriminate.
  - (* updateRight *)
    specialize (Gr ltac:(discriminate)).
    destruct (rec st1 (enc h' (true :: rp) r) (y :: rb) b1 (2 * i + 2) (true :: rp)) as [[[[st2 b2] rn] d2]|] eqn:Er; [|discriminate].
    destruct (child_call h' rec st1 b1 i rp 2 true r (y :: rb) st2 b2 rn d2 Hrec (or_intror (conj eq_refl eq_refl))
                Hinv Hh Hl L Wr Vr Car Gr Cr Sr Er) as [(A1 & A2 & A3 & A4 & A5 & A6)|B]; [|right; exact B].
    destruct (child_result h' r (y :: rb) Wr Vr Car Gr) as (Wr' & Vr' & _).
    destruct (sibling_kept h' b1 b2 i 2 (false :: rp) l L A4 Hl (or_intror eq_refl) A6) as [Cl2 _].
    { replace (2 * i + (3 - 2)) with (2 * i + 1) by lia. exact Cl. }
    replace (2 * i + (3 - 2)) with (2 * i + 1) in Cl2 by lia.
    rewrite A2 in Eg. rewrite join_fst_snd. rewrite <- A1.
    apply (after_children st2 l (fst (update h' r (y :: rb))) root b1 b2 i h' rp d2 st' b' n' d); auto.
    intros j Hj Hu. apply A6; auto. apply not_under_child; auto.
  - (* updateLeft *)
    specialize (Gl ltac:(discriminate)).
    destruct (rec st1 (enc h' (false :: rp) l) (x :: lb) b1 (2 * i + 1) (false :: rp)) as [[[[st2 b2] ln] d2]|] eqn:Er; [|discriminate].
    destruct (child_call h' rec st1 b1 i rp 1 false l (x :: lb) st2 b2 ln d2 Hrec (or_introl (conj eq_refl eq_refl))
                Hinv Hh Hl L Wl Vl Cal Gl Cl Sl Er) as [(A1 & A2 & A3 & A4 & A5 & A6)|B]; [|right; exact B].
    destruct (child_result h' l (x :: lb) Wl Vl Cal Gl) as (Wl' & Vl' & _).
    destruct (sibling_kept h' b1 b2 i 1 (true :: rp) r L A4 Hl (or_introl eq_refl) A6) as [Cr2 _].
    { replace (2 * i + (3 - 1)) with (2 * i + 2) by lia. exact Cr. }
    replace (2 * i + (3 - 1)) with (2 * i + 2) in Cr2 by lia.
    rewrite A2 in Eg. rewrite join_fst_snd_l. rewrite <- A1.
    apply (after_children st2 (fst (update h' l (x :: lb))) r root b1 b2 i h' rp d2 st' b' n' d); auto.
    intros j Hj Hu. apply A6; auto. apply not_under_child; auto.
  - (* updateParallel, left then right *)
    specialize (Gl ltac:(discriminate)). specialize (Gr ltac:(discriminate)).
    destruct (rec st1 (enc h' (false :: rp) l) (x :: lb) b1 (2 * i + 1) (false :: rp)) as [[[[st2 b2] ln] dl]|] eqn:Erl; [|discriminate].
    destruct (child_call h' rec st1 b1 i rp 1 false l (x :: lb) st2 b2 ln dl Hrec (or_introl (conj eq_refl eq_refl))
                Hinv Hh Hl L Wl Vl Cal Gl Cl Sl Erl) as [(A1 & A2 & A3 & A4 & A5 & A6)|B]; [|right; exact B].
    destruct (child_result h' l (x :: lb) Wl Vl Cal Gl) as (Wl' & Vl' & _).
    destruct (sibling_kept h' b1 b2 i 1 (true :: rp) r L A4 Hl (or_introl eq_refl) A6) as [Cr2 Sr2].
    { replace (2 * i + (3 - 1)) with (2 * i + 2) by lia. exact Cr. }
    replace (2 * i + (3 - 1)) with (2 * i + 2) in Cr2, Sr2 by lia. rewrite Sr in Sr2.
    destruct (rec st2 (enc h' (true :: rp) r) (y :: rb) b2 (2 * i + 2) (true :: rp)) as [[[[st3 b3] rn] dr]|] eqn:Err; [|discriminate].
    destruct (child_call h' rec st2 b2 i rp 2 true r (y :: rb) st3 b3 rn dr Hrec (or_intror (conj eq_refl eq_refl))
                A3 Hh Hl A4 Wr Vr Car Gr Cr2 Sr2 Err) as [(B1 & B2 & B3 & B4 & B5 & B6)|B]; [|right; exact B].
    destruct (child_result h' r (y :: rb) Wr Vr Car Gr) as (Wr' & Vr' & _).
    destruct (sibling_kept h' b2 b3 i 2 (false :: rp) (fst (update h' l (x :: lb))) A4 B4 Hl (or_intror eq_refl) B6) as [Cl3 _].
    { replace (2 * i + (3 - 2)) with (2 * i + 1) by lia. exact A5. }
    replace (2 * i + (3 - 2)) with (2 * i + 1) in Cl3 by lia.
    rewrite A2, B2 in Eg. rewrite join_fst_snd_2. rewrite <- A1, <- B1.
    apply (after_children st3 (fst (update h' l (x :: lb))) (fst (update h' r (y :: rb))) root b1 b3 i h' rp (dl || dr) st' b' n' d); auto.
    intros j Hj Hu. rewrite B6 by (auto; apply not_under_child; auto). apply A6; auto. apply not_under_child; auto.
Qed.

(** ---- bgo: the special single-key cases and the split branch ---- *)
Lemma bgo_general (rec : rec_t) h st1 root kvs1 b1 i' lnode rnode rp :
  (lnode <> [] \/ rnode <> [] \/ (forall k ov, kvs1 <> [(k, ov)])) ->
  bgo H atomic climit rec h st1 root kvs1 b1 i' lnode rnode rp = bgo_gen rec h st1 root kvs1 b1 i' lnode rnode rp.
Proof.
  intros Hc. rewrite bgo_unfold. destruct lnode; [|reflexivity]. destruct rnode; [|reflexivity].
  destruct kvs1 as [|[k [v|]] [|? ?]]; try reflexivity; exfalso;
    (destruct Hc as [Hc|[Hc|Hc]]; [congruence|congruence|eapply Hc; reflexivity]).
Qed.

Lemma go_general (upd : tree bytes -> Model.batch bytes -> tree bytes * bool) l r b :
  sorted b -> (l <> E \/ r <> E \/ (forall k ov, b <> [(k, ov)])) -> go upd l r b = go_split upd l r b.
Proof.
  intros Hs Hc. rewrite go_unfold by exact Hs. destruct l; [|reflexivity|reflexivity]. destruct r; [|reflexivity|reflexivity].
  destruct b as [|[k [v|]] [|? ?]]; try reflexivity; exfalso;
    (destruct Hc as [Hc|[Hc|Hc]]; [congruence|congruence|eapply Hc; reflexivity]).
Qed.

Lemma clean_from_children b i : i <= 14 -> bget b (2 * i + 1) = [] -> bget b (2 * i + 2) = [] ->
  clean b (2 * i + 1) -> clean b (2 * i + 2) -> clean b i.
Proof.
  intros Hi A1 A2 C1 C2 j Hj Hu. rewrite (under_inv i j Hi Hj) in Hu.
  destruct (Nat.eqb j (2 * i + 1)) eqn:E1; [apply Nat.eqb_eq in E1; subst; exact A1|].
  destruct (Nat.eqb j (2 * i + 2)) eqn:E2; [apply Nat.eqb_eq in E2; subst; exact A2|].
  simpl in Hu. apply orb_true_iff in Hu. destruct Hu; [apply C1|apply C2]; auto.
Qed.

Lemma bgo_spec h' (rec : rec_t) st1 root kvs1 b1 i rp l r st' b' n' d :
  rec_ok h' rec -> inv_st st1 -> length rp + S h' = 256 -> lvl (S h') i -> length b1 = 31 ->
  wf h' l -> wf h' r -> vals32 l -> vals32 r -> canon l -> canon r -> good (S h') kvs1 ->
  crep h' b1 (2 * i + 1) (false :: rp) l -> crep h' b1 (2 * i + 2) (true :: rp) r ->
  bget b1 (2 * i + 1) = enc h' (false :: rp) l -> bget b1 (2 * i + 2) = enc h' (true :: rp) r ->
  bgo H atomic climit rec (S h') st1 root kvs1 b1 i (enc h' (false :: rp) l) (enc h' (true :: rp) r) rp = Some (st', b', n', d) ->
  (d = snd (go (update h') l r kvs1) /\ n' = enc (S h') rp (fst (go (update h') l r kvs1)) /\
   inv_st st' /\ length b' = 31 /\
   (i <> 0 -> lrep (S h') b' i rp (fst (go (update h') l r kvs1)) /\
              forall j, j <= 30 -> underb i j = false -> bget b' j = bget b1 j) /\
   (i = 0 -> climit <= S h' -> (alookup (cache st1) (map_key root) = None \/ l <> E \/ r <> E) -> cache_res st' root b'))
  \/ hash_break H.
Proof.
  intros Hrec Hinv Hh Hl L Wl Wr Vl Vr Cal Car G Cl Cr Sl Sr Eg.
  pose proof (lvl_le _ _ Hl) as Hi. pose proof G as (K & Sk & Nn & Bv).
  assert (General : (l <> E \/ r <> E \/ (forall k ov, kvs1 <> [(k, ov)])) ->
    (d = snd (go (update h') l r kvs1) /\ n' = enc (S h') rp (fst (go (update h') l r kvs1)) /\
     inv_st st' /\ length b' = 31 /\
     (i <> 0 -> lrep (S h') b' i rp (fst (go (update h') l r kvs1)) /\
                forall j, j <= 30 -> underb i j = false -> bget b' j = bget b1 j) /\
     (i = 0 -> climit <= S h' -> (alookup (cache st1) (map_key root) = None \/ l <> E \/ r <> E) -> cache_res st' root b')) \/ hash_break H).
  { intros Hc. rewrite (go_general (update h') l r kvs1 Sk Hc).
    rewrite bgo_general in Eg.
    - destruct (bgo_gen_spec h' rec st1 root kvs1 b1 i rp l r st' b' n' d Hrec Hinv Hh Hl L Wl Wr Vl Vr Cal Car G Cl Cr Sl Sr Eg)
        as [(X1 & X2 & X3 & X4 & X5 & X6)|B]; [left|right; exact B].
      split; [exact X1|]. split; [exact X2|]. split; [exact X3|]. split; [exact X4|]. split; [exact X5|]. intros A B _. exact (X6 A B).
    - destruct Hc as [Hc|[Hc|Hc]]; [left|right; left|right; right; exact Hc]; intros Hn; apply (enc_nil H) in Hn; contradiction. }
  destruct l as [|lk lv|ll lr]; [|apply General; left; discriminate|apply General; left; discriminate].
  destruct r as [|rk rv|rl rr]; [|apply General; right; left; discriminate|apply General; right; left; discriminate].
  destruct kvs1 as [|[k [v|]] [|kv2 rest]];
    [congruence| |apply General; right; right; intros; discriminate| |apply General; right; right; intros; discriminate].
  - (* a single key set in an empty subtree: store as shortcut *)
    left. rewrite bgo_unfold in Eg. change (enc h' (false :: rp) E) with (@nil N) in Eg. change (enc h' (true :: rp) E) with (@nil N) in Eg.
    cbv iota in Eg.
    destruct (leaf_hash_b H atomic climit st1 (bits_to_bytes (rev_append rp k)) v root b1 i (S h')) as [[st2 b2] n2] eqn:El.
    injection Eg as <- <- <- <-.
    assert (Hk : length k = S h') by (inversion K; auto).
    assert (Hv : length v = 32) by (inversion Bv; auto).
    pose proof (crep_E_clean H h' b1 i 1 _ Hl (or_introl eq_refl) L Cl) as C1.
    pose proof (crep_E_clean H h' b1 i 2 _ Hl (or_intror eq_refl) L Cr) as C2.
    destruct (leaf_hash_spec H Hlen atomic climit st1 k v root b1 i (S h') rp st2 b2 n2 Hinv Hh Hk Hv Hl L C1 C2 El) as (A1 & A2 & A3 & A4 & A5 & A6).
    simpl go. split; [reflexivity|]. split; [exact A1|]. split; [exact A2|]. split; [exact A3|].
    split; [intros Hi0; split; [exact A4|exact (A5 Hi0)]|]. intros A B _. exact (A6 A B).
  - (* a single delete in an empty subtree *)
    left. rewrite bgo_unfold in Eg. change (enc h' (false :: rp) E) with (@nil N) in Eg. change (enc h' (true :: rp) E) with (@nil N) in Eg.
    cbv iota in Eg. injection Eg as <- <- <- <-.
    pose proof (crep_E_clean H h' b1 i 1 _ Hl (or_introl eq_refl) L Cl) as C1.
    pose proof (crep_E_clean H h' b1 i 2 _ Hl (or_intror eq_refl) L Cr) as C2.
    simpl go. split; [reflexivity|]. split; [reflexivity|]. split; [exact Hinv|]. split; [exact L|].
    split; [intros _; split; [|auto]; cbn [BatchRep.lrep]; apply clean_from_children; auto|].
    intros _ _ [Hn|[Hn|Hn]]; [|congruence|congruence]. intros bx Hx. congruence.
Qed.

(** ---- the body after loadChildren ---- *)
Lemma key_roundtrip rp k : length rp + length k = 256 ->
  skipn (length rp) (bytes_to_bits (keyb rp k)) = k.
Proof.
  intros Hh. unfold keyb.
  assert (L1 : length (rev_append rp k) = 8 * 32) by (rewrite rev_append_rev, app_length, rev_length; lia).
  destruct (bits_bytes_inv 32 _ L1) as [Inv _]. rewrite Inv, rev_append_rev, skipn_app, rev_length, Nat.sub_diag.
  rewrite skipn_all2 by (rewrite rev_length; lia). reflexivity.
Qed.

Definition is_leaf (t : tree bytes) : bool := match t with Lf _ _ => true | _ => false end.

Lemma bbody_spec h' (rec : rec_t) st root kvs b i rp t st' b' n' d :
  rec_ok h' rec -> inv_st st -> length rp + S h' = 256 -> wf (S h') t -> vals32 t -> canon t -> good (S h') kvs ->
  lvl (S h') i -> length b = 31 -> lrep (S h') b i rp t ->
  bbody H atomic climit rec (S h') st root kvs b i (bget b (2 * i + 1)) (bget b (2 * i + 2)) (is_leaf t) rp = Some (st', b', n', d) ->
  (d = snd (update (S h') t kvs) /\ n' = enc (S h') rp (fst (update (S h') t kvs)) /\ inv_st st' /\ length b' = 31 /\
   (i <> 0 -> lrep (S h') b' i rp (fst (update (S h') t kvs)) /\
              forall j, j <= 30 -> underb i j = false -> bget b' j = bget b j) /\
   (i = 0 -> climit <= S h' -> t <> E -> cache_res st' root b'))
  \/ hash_break H.
Proof.
  intros Hrec Hinv Hh W V C G Hl L R Eb.
  pose proof (lvl_le _ _ Hl) as Hi. pose proof G as (K & Sk & Nn & Bv).
  destruct (under_facts i (2 * i + 1) Hi ltac:(lia)) as (F1 & F2 & F3 & F4 & F5 & F6 & F7).
  unfold bbody in Eb. destruct t as [|sk sv|l r]; cbn [is_leaf] in Eb; cbn [update].
  - (* empty subtree *)
    cbn [BatchRep.lrep] in R. destruct (clean_children b i Hi R) as (A1 & A2 & C1 & C2).
    destruct kvs as [|kv0 kvs0] eqn:Ek; [congruence|]. rewrite <- Ek in *.
    rewrite A1, A2 in Eb.
    destruct (bgo_spec h' rec st root kvs b i rp E E st' b' n' d Hrec Hinv Hh Hl L (wf_E h') (wf_E h') I I I I G)
      as [(X1 & X2 & X3 & X4 & X5 & X6)|B]; auto; try (unfold BatchRefine1.crep; destruct (Nat.eqb (h' mod 4) 0); auto; fail).
    left. split; [exact X1|]. split; [exact X2|]. split; [exact X3|]. split; [exact X4|]. split; [exact X5|].
    intros _ _ Hne. congruence.
  - (* a shortcut: its pair joins the keys, its cells are cleared *)
    cbn [BatchRep.lrep] in R. destruct R as (R1 & R2 & C1 & C2). simpl in W, V.
    rewrite R1, R2 in Eb.
    assert (Lk : length (keyb rp sk) = 32) by (apply (keyb_len _ _ (S h')); auto).
    rewrite (hash_of_app32 _ _ Lk), (hash_of_app32 _ _ V) in Eb.
    rewrite key_roundtrip in Eb by lia.
    rewrite (masc_spec sk sv kvs Sk Nn) in Eb |- *.
    set (st1 := if Nat.eqb i 0 then delete_old_node atomic climit st root (S h') false else st) in *.
    assert (Hinv1 : inv_st st1) by (unfold st1; destruct (Nat.eqb i 0); [apply inv_delete|]; auto).
    set (b1 := bset (bset b (2 * i + 1) []) (2 * i + 2) []) in *.
    assert (Lb1 : length b1 = 31) by (unfold b1; rewrite !bset_length; exact L).
    assert (G1 : bget b1 (2 * i + 1) = []) by (unfold b1; rewrite bget_bset_other by lia; apply bget_bset_same; lia).
    assert (G2 : bget b1 (2 * i + 2) = []) by (unfold b1; apply bget_bset_same; rewrite bset_length; lia).
    assert (Gother : forall j, j <> 2 * i + 1 -> j <> 2 * i + 2 -> bget b1 j = bget b j).
    { intros j A B. unfold b1. rewrite !bget_bset_other by lia. reflexivity. }
    assert (C1' : clean b1 (2 * i + 1)).
    { intros j Hj Hu. rewrite Gother; [apply C1; auto| |]; intros ->; congruence. }
    assert (C2' : clean b1 (2 * i + 2)).
    { intros j Hj Hu. rewrite Gother; [apply C2; auto| |]; intros ->; congruence. }
    assert (Fr1 : forall j, j <= 30 -> underb i j = false -> bget b1 j = bget b j).
    { intros j Hj Hu. apply Gother; intros ->; [rewrite under_l in Hu by auto|rewrite under_r in Hu by auto]; discriminate. }
    pose proof (keys_len_add_shortcut (S h') sk sv kvs W K) as Ka.
    pose proof (sorted_add_shortcut sk sv kvs Sk) as Sa.
    pose proof (bvals32_add_shortcut sk sv kvs V Bv) as Va.
    destruct (add_shortcut sk sv kvs) as [|x kvs'] eqn:Ea.
    + left. injection Eb as <- <- <- <-. simpl.
      split; [reflexivity|]. split; [reflexivity|]. split; [exact Hinv1|]. split; [exact Lb1|].
      split; [intros _; split; [|exact Fr1]; apply clean_from_children; auto|].
      intros Hi0 Hcl _ bx Hx. exfalso. revert Hx. unfold st1. subst i. cbn [Nat.eqb].
      unfold delete_old_node. simpl. apply Nat.leb_le in Hcl. rewrite Hcl. rewrite alookup_aremove_same. discriminate.
    + assert (Gk : good (S h') (x :: kvs')).
      { split; [exact Ka|]. split; [exact Sa|]. split; [discriminate|]. exact (eq_ind _ bvals32 Va _ Ea). }
      destruct (bgo_spec h' rec st1 root (x :: kvs') b1 i rp E E st' b' n' d Hrec Hinv1 Hh Hl Lb1 (wf_E h') (wf_E h') I I I I Gk)
        as [(A1 & A2 & A3 & A4 & A5 & A8)|B]; auto.
      * unfold BatchRefine1.crep. destruct (Nat.eqb (h' mod 4) 0); auto.
      * unfold BatchRefine1.crep. destruct (Nat.eqb (h' mod 4) 0); auto.
      * left. split; [exact A1|]. split; [exact A2|]. split; [exact A3|]. split; [exact A4|]. split.
        -- intros Hi0. destruct (A5 Hi0) as [A6 A7]. split; [exact A6|].
           intros j Hj Hu. rewrite A7 by auto. apply Fr1; auto.
        -- intros Hi0 Hcl _. apply (A8 Hi0 Hcl). left. unfold st1. subst i. cbn [Nat.eqb].
           unfold delete_old_node. simpl. apply Nat.leb_le in Hcl. rewrite Hcl. apply alookup_aremove_same.
  - (* an interior node *)
    cbn [BatchRep.lrep pred] in R. destruct R as (_ & R1 & R2 & R3).
    simpl in W, V, C. destruct W as [Wl Wr]. destruct V as [Vl Vr]. destruct C as (Csz & Cal & Car).
    destruct kvs as [|kv0 kvs0] eqn:Ek; [congruence|]. rewrite <- Ek in *.
    rewrite R1, R2 in Eb.
    destruct (bgo_spec h' rec st root kvs b i rp l r st' b' n' d Hrec Hinv Hh Hl L Wl Wr Vl Vr Cal Car G)
      as [(X1 & X2 & X3 & X4 & X5 & X6)|B]; auto; try (unfold BatchRefine1.crep; destruct (Nat.eqb (h' mod 4) 0); auto; tauto).
    left. split; [exact X1|]. split; [exact X2|]. split; [exact X3|]. split; [exact X4|]. split; [exact X5|].
    intros Hi0 Hcl _. apply (X6 Hi0 Hcl). right.
    (* a canonical interior node has a non-empty child *)
    destruct l; [right; destruct r; [exfalso; simpl in Csz; lia|discriminate|discriminate]|left; discriminate|left; discriminate].
Qed.

End Rf3.

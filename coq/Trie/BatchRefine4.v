(** Refinement of the batch-storage layer, part 4: the main theorem (induction on the
    height) and its corollary for Trie.Update. *)
From Coq Require Import List Bool Arith NArith Lia.
From Verif Require Import Trie.Model Trie.Basics Trie.Masc Trie.GetUpdate Trie.Canon Trie.HashBind Trie.Proof Trie.ProofBasics Trie.ProofSound
  Trie.Store Trie.StoreProofs Trie.BatchModel Trie.BatchBasics Trie.BatchRep Trie.BatchRefine1 Trie.BatchRefine2 Trie.TreeVals Trie.BatchRefine3.
Import ListNotations.

Section Rf4.
Variable H : bytes -> bytes.
Hypothesis Hlen : forall x, length (H x) = 32.
Variable atomic : bool.
Variable climit : nat.

Notation enc := (enc H).
Notation lrep := (lrep H).
Notation inv_st := (inv_st H climit).

(** two batch roots at different heights (other than the byte(256) == byte(0) pair) with the
    same hash break the hash function: the leaf hash contains the height byte *)
Lemma height_clash_break : forall t h rp t2 h2 rp2,
  h < h2 -> h2 <= 256 -> ~ (h = 0 /\ h2 = 256) ->
  length rp + h = 256 -> length rp2 + h2 = 256 -> wf h t -> wf h2 t2 -> vals32 t -> vals32 t2 ->
  1 <= size t -> th H h rp t = th H h2 rp2 t2 -> hash_break H.
Proof.
  induction t as [|k v|l IHl r IHr]; intros h rp t2 h2 rp2 Hlt Hle Hna Hh Hh2 W W2 V V2 Hs E0.
  - simpl in Hs. lia.
  - destruct t2 as [|k2 v2|l2 r2].
    + exfalso. simpl in E0. apply (f_equal (@length _)) in E0. rewrite Hlen in E0. discriminate.
    + simpl in E0, W, W2, V, V2.
      match type of E0 with H ?p1 = H ?p2 => destruct (bytes_eq_dec p1 p2) as [Ep|Ep] end.
      2:{ left. eexists; eexists; split; [exact Ep|exact E0]. }
      exfalso.
      assert (L1 : length (rev_append rp k) = 8 * 32) by (rewrite rev_append_rev, app_length, rev_length; lia).
      assert (L2 : length (rev_append rp2 k2) = 8 * 32) by (rewrite rev_append_rev, app_length, rev_length; lia).
      apply app_eq_len in Ep.
      2:{ destruct (bits_bytes_inv 32 _ L1) as [_ ->]. destruct (bits_bytes_inv 32 _ L2) as [_ ->]. reflexivity. }
      destruct Ep as [_ Ev]. apply app_inj_tail in Ev. destruct Ev as [_ Eb]. unfold height_byte in Eb.
      assert (Hb : (N.of_nat h mod 256 = N.of_nat h2 mod 256)%N) by exact Eb.
      destruct (Nat.eq_dec h2 256) as [->|Hn].
      * change (N.of_nat 256 mod 256)%N with 0%N in Hb.
        rewrite N.mod_small in Hb by lia. lia.
      * rewrite !N.mod_small in Hb by lia. lia.
    + left. simpl in E0. match type of E0 with H ?p1 = H ?p2 => exists p1, p2 end. split; [|exact E0].
      intros Ep. apply (f_equal (@length _)) in Ep. simpl in W, V.
      rewrite (leaf_pre_len rp h k v _ Hh W V) in Ep.
      destruct (nd_pre_len H Hlen (pred h2) rp2 l2 r2) as [X|[X|X]]; rewrite X in Ep; discriminate.
  - destruct t2 as [|k2 v2|l2 r2].
    + exfalso. simpl in E0. apply (f_equal (@length _)) in E0. rewrite Hlen in E0. discriminate.
    + left. simpl in E0. match type of E0 with H ?p1 = H ?p2 => exists p1, p2 end. split; [|exact E0].
      intros Ep. apply (f_equal (@length _)) in Ep. simpl in W2, V2.
      rewrite (leaf_pre_len rp2 h2 k2 v2 _ Hh2 W2 V2) in Ep.
      destruct (nd_pre_len H Hlen (pred h) rp l r) as [X|[X|X]]; rewrite X in Ep; discriminate.
    + destruct h as [|h']; [simpl in W; contradiction|]. destruct h2 as [|h2']; [lia|].
      simpl in W, W2, V, V2, E0, Hs. destruct W as [Wl Wr]. destruct W2 as [Wl2 Wr2]. destruct V as [Vl Vr]. destruct V2 as [Vl2 Vr2].
      match type of E0 with H ?p1 = H ?p2 => destruct (bytes_eq_dec p1 p2) as [Ep|Ep] end.
      2:{ left. eexists; eexists; split; [exact Ep|exact E0]. }
      destruct (cat_eq H Hlen _ _ _ _ (th_child_ok H h' (false :: rp) l) (th_child_ok H h' (true :: rp) r)
                  (th_child_ok H h2' (false :: rp2) l2) (th_child_ok H h2' (true :: rp2) r2) Ep) as [[El Er]|S]; [|right; exact S].
      destruct (size l) eqn:Esl.
      * apply (IHr h' (true :: rp) r2 h2' (true :: rp2)); auto; simpl; lia.
      * apply (IHl h' (false :: rp) l2 h2' (false :: rp2)); auto; simpl; lia.
Qed.


Lemma bget_repeat_nil n j : bget (repeat [] n) j = [].
Proof. unfold bget. revert j; induction n; intros [|j]; simpl; auto. Qed.

Lemma clean_new_batch i : clean new_batch i.
Proof.
  intros j Hj Hu. unfold new_batch. destruct j as [|j].
  - exfalso. destruct (Nat.le_gt_cases i 14) as [Hi|Hi].
    + destruct (under_facts i 0 Hi ltac:(lia)) as (_ & _ & _ & _ & _ & _ & F). specialize (F Hu). lia.
    + rewrite under_leaf_level in Hu by lia. discriminate.
  - unfold bget. simpl. apply (bget_repeat_nil 30 j).
Qed.

Lemma clean_empty_batch i : clean empty_batch i.
Proof. intros j Hj Hu. apply bget_repeat_nil. Qed.

Theorem bupdate_ok : forall h, rec_ok H climit h (bupdate H atomic climit h).
Proof.
  induction h as [|h' IH]; intros st root kvs cb i rp t st' cb' n' d Hinv Hh W V C G Pre Eu.
  - (* height 0: a leaf batch of its own *)
    left. destruct G as (K & Sk & Nn & Bv). cbn [bupdate] in Eu. change (0 mod 4) with 0. cbn [Nat.eqb].
    destruct kvs as [|[k [v|]] tl]; [congruence| |].
    + destruct (leaf_hash_b H atomic climit st (bits_to_bytes (rev_append rp k)) v root empty_batch 0 0) as [[st2 b2] n2] eqn:El.
      injection Eu as <- <- <- <-.
      assert (Hk : length k = 0) by (inversion K; auto).
      assert (Hv : length v = 32) by (inversion Bv; auto).
      assert (Hl0 : lvl 0 0) by reflexivity.
      destruct (leaf_hash_spec H Hlen atomic climit st k v root empty_batch 0 0 rp st2 b2 n2 Hinv Hh Hk Hv Hl0 eq_refl
                  (clean_empty_batch _) (clean_empty_batch _) El) as (A1 & A2 & A3 & A4 & A5).
      cbn [update fst snd]. split; [reflexivity|]. split; [exact A1|]. split; [exact A2|]. split; reflexivity.
    + injection Eu as <- <- <- <-. cbn [update fst snd]. split; [reflexivity|]. split; [reflexivity|]. split; [apply inv_delete; auto|]. split; reflexivity.
  - (* height S h' *)
    cbn [bupdate] in Eu.
    destruct (load_children st root (S h') i cb) as [[[[[b i'] l0] r0] sc]|] eqn:Elc; [|discriminate].
    destruct (bbody H atomic climit (bupdate H atomic climit h') (S h') st root kvs b i' l0 r0 sc rp) as [[[[st2 b2] n2] d2]|] eqn:Eb; [|discriminate].
    remember (Nat.eqb (S h' mod 4) 0) as em eqn:Em. symmetry in Em.
    destruct em; injection Eu as <- <- <- <-; unfold load_children in Elc; rewrite Em in Elc.
    + (* the node is the root of its own batch *)
      assert (Hl0 : lvl (S h') 0) by (unfold lvl; apply Nat.eqb_eq in Em; rewrite Em; reflexivity).
      assert (Load : (length b = 31 /\ i' = 0 /\ l0 = bget b 1 /\ r0 = bget b 2 /\ sc = is_leaf t /\ lrep (S h') b 0 rp t) \/ hash_break H).
      { destruct Pre as [[-> ->]|(Hne & Lr & Hr)].
        - left. injection Elc as <- <- <- <- <-. repeat split; auto. cbn [BatchRep.lrep]. apply clean_new_batch.
        - destruct root as [|x root'] eqn:Er; [simpl in Lr; lia|]. rewrite <- Er in *.
          destruct (load_batch st root) as [bb|] eqn:Elb; [|discriminate]. injection Elc as <- <- <- <- <-.
          apply Nat.eqb_eq in Em.
          destruct (load_canonical H Hlen climit st root (S h') rp t bb Hinv Em Hh W V Hne Lr Hr Elb) as [(A1 & A2 & A3)|B]; [left|right; exact B].
          repeat split; auto. rewrite A2. destruct t; try congruence; reflexivity. }
      destruct Load as [(Lb & -> & -> & -> & -> & R)|B]; [|right; exact B].
      destruct (bbody_spec H Hlen atomic climit h' (bupdate H atomic climit h') st root kvs b 0 rp t st2 b2 n2 d2 IH Hinv Hh W V C G Hl0 Lb R Eb)
        as [(A1 & A2 & A3 & A4 & A5 & A6)|B]; [|right; exact B].
      (* the aliasing of a batch obtained from liveCache keeps the cache content-addressed *)
      assert (Alias : inv_st (alias_back atomic st st2 root b2) \/ hash_break H).
      { unfold alias_back. destruct root as [|x0 root'] eqn:Er; [left; exact A3|]. rewrite <- Er in *.
        destruct (negb atomic); [|left; exact A3].
        destruct (alookup (cache st) (map_key root)) as [b0|] eqn:Ec0; [|left; exact A3].
        destruct (alookup (cache st2) (map_key root)) as [bx|] eqn:Ec2; [|left; exact A3].
        assert (Hroot : t <> E /\ 32 <= length root /\ hash_of root = th H (S h') rp t).
        { destruct Pre as [[_ Hr0]|Hx]; [rewrite Er in Hr0; discriminate|exact Hx]. }
        destruct Hroot as (Hne & Lr & Hr).
        destruct (Nat.le_gt_cases climit (S h')) as [Hcl|Hcl].
        - left. pose proof (A6 eq_refl Hcl Hne bx Ec2) as Ebx. subst bx.
          destruct A3 as (Hu2 & Hd2 & Hc2). split; [exact Hu2|]. split; [exact Hd2|].
          intros y yb [Hy|Hy]; [inversion Hy; subst; apply Hc2; apply alookup_in; exact Ec2|].
          apply Hc2. eapply in_aremove; eauto.
        - right. destruct Hinv as (_ & _ & Hc0).
          destruct (Hc0 _ _ (alookup_in _ _ _ Ec0)) as (h3 & Hge & rp3 & t3 & Hm3 & Hh3 & W3 & V3 & Hne3 & Ex & _).
          rewrite (map_key_hash_of root Lr), Hr in Ex.
          apply (height_clash_break t (S h') rp t3 h3 rp3); auto; try lia.
          destruct t as [|? ?|tl tr]; [congruence|simpl; lia|]. simpl in C. simpl. lia. }
      destruct Alias as [Ia|B]; [left|right; exact B].
      unfold ret_batch. rewrite Em. split; [exact A1|]. split; [exact A2|]. split; [exact Ia|]. split; reflexivity.
    + (* the node lives in its parent's batch *)
      destruct Pre as (Lc & Hl & R & Hslot). injection Elc as <- <- <- <- <-.
      rewrite Hslot, (is_shortcut_enc H Hlen) in Eb.
      assert (Hi0 : i <> 0).
      { intros ->. apply Nat.eqb_neq in Em. apply Em. apply (lvl_zero _ _ Hl). reflexivity. }
      destruct (bbody_spec H Hlen atomic climit h' (bupdate H atomic climit h') st root kvs cb i rp t st2 b2 n2 d2 IH Hinv Hh W V C G Hl Lc R Eb)
        as [(A1 & A2 & A3 & A4 & A5 & _)|B]; [left|right; exact B].
      unfold ret_batch. rewrite Em. destruct (A5 Hi0) as [A6 A7].
      split; [exact A1|]. split; [exact A2|]. split; [exact A3|]. split; [lia|]. split; [exact A6|exact A7].
Qed.

(** Trie.Update on the batch store refines the tree-level update: the new root is the root of
    the updated tree and the store stays content-addressed, unless the hash is broken *)
Theorem trie_update_b_refines st rt kvs t st' rt' :
  inv_st st -> wf 256 t -> vals32 t -> canon t -> good 256 kvs ->
  rt = Model.root H 256 t ->
  trie_update_b H atomic climit st rt kvs = Some (st', rt') ->
  (rt' = Model.root H 256 (trie_update 256 t kvs) /\ inv_st st') \/ hash_break H.
Proof.
  intros Hinv W V C G Hr Eu. unfold trie_update_b in Eu.
  destruct (bupdate H atomic climit 256 st rt kvs [] 0 []) as [[[[st2 b2] n2] d2]|] eqn:Eb; [|discriminate].
  injection Eu as <- <-.
  assert (Pre : root_ok H 256 [] rt t).
  { subst rt. unfold root_ok, Model.root. destruct t as [|k v|l r]; [left; auto| |]; right; (split; [discriminate|]); split.
    - simpl. rewrite Hlen. lia.
    - apply firstn_all2. simpl. rewrite Hlen. lia.
    - simpl. rewrite Hlen. lia.
    - apply firstn_all2. simpl. rewrite Hlen. lia. }
  destruct (bupdate_ok 256 st rt kvs [] 0 [] t st2 b2 n2 d2 Hinv eq_refl W V C G Pre Eb) as [(A1 & A2 & A3 & _)|B]; [left|right; exact B].
  split; [|exact A3]. rewrite A2. unfold trie_update, Model.root.
  destruct (fst (update 256 t kvs)) eqn:Et; [reflexivity| |]; rewrite <- Et; apply (hash_of_enc H Hlen); rewrite Et; discriminate.
Qed.

End Rf4.

(** Refinement of the batch-storage layer, part 4: the main theorem (induction on the
    height) and its corollary for Trie.Update. *)
From Coq Require Import List Bool Arith NArith Lia.
From Verif Require Import Trie.Model Trie.Basics Trie.Masc Trie.GetUpdate Trie.Canon Trie.HashBind Trie.Proof Trie.ProofBasics Trie.ProofSound
  Trie.Store Trie.StoreProofs Trie.BatchModel Trie.BatchBasics Trie.BatchRep Trie.BatchRefine1 Trie.BatchRefine2 Trie.TreeVals Trie.BatchRefine3.
Import ListNotations.

Section Rf4.
Variable H : bytes -> bytes.
Hypothesis Hlen : forall x, length (H x) = 32.
Variable atomic : bool.

Notation enc := (enc H).
Notation lrep := (lrep H).
Notation inv_st := (inv_st H).

Lemma bget_repeat_nil n j : bget (repeat [] n) j = [].
Proof. unfold bget. revert j; induction n; intros [|j]; simpl; auto. Qed.

Lemma clean_new_batch i : clean new_batch i.
Proof.
  intros j Hj Hu. unfold new_batch. destruct j as [|j].
  - exfalso. destruct (Nat.le_gt_cases i 14) as [Hi|Hi].
    + destruct (under_facts i 0 Hi ltac:(lia)) as (_ & _ & _ & _ & _ & _ & F). specialize (F Hu). lia.
    + rewrite under_leaf_level in Hu by lia. discriminate.
  - unfold bget. simpl. apply (bget_repeat_nil 30 j).
Qed.

Lemma clean_empty_batch i : clean empty_batch i.
Proof. intros j Hj Hu. apply bget_repeat_nil. Qed.

Theorem bupdate_ok : forall h, rec_ok H h (bupdate H atomic h).
Proof.
  induction h as [|h' IH]; intros st root kvs cb i rp t st' cb' n' d Hinv Hh W V C G Pre Eu.
  - (* height 0: a leaf batch of its own *)
    left. destruct G as (K & Sk & Nn & Bv). cbn [bupdate] in Eu. change (0 mod 4) with 0. cbn [Nat.eqb].
    destruct kvs as [|[k [v|]] tl]; [congruence| |].
    + destruct (leaf_hash_b H atomic st (bits_to_bytes (rev_append rp k)) v root empty_batch 0 0) as [[st2 b2] n2] eqn:El.
      injection Eu as <- <- <- <-.
      assert (Hk : length k = 0) by (inversion K; auto).
      assert (Hv : length v = 32) by (inversion Bv; auto).
      assert (Hl0 : lvl 0 0) by reflexivity.
      destruct (leaf_hash_spec H Hlen atomic st k v root empty_batch 0 0 rp st2 b2 n2 Hinv Hh Hk Hv Hl0 eq_refl
                  (clean_empty_batch _) (clean_empty_batch _) El) as (A1 & A2 & A3 & A4 & A5).
      cbn [update fst snd]. split; [reflexivity|]. split; [exact A1|]. split; [exact A2|]. split; reflexivity.
    + injection Eu as <- <- <- <-. cbn [update fst snd]. split; [reflexivity|]. split; [reflexivity|]. split; [apply inv_delete; auto|]. split; reflexivity.
  - (* height S h' *)
    cbn [bupdate] in Eu.
    destruct (load_children st root (S h') i cb) as [[[[[b i'] l0] r0] sc]|] eqn:Elc; [|discriminate].
    destruct (bbody H atomic (bupdate H atomic h') (S h') st root kvs b i' l0 r0 sc rp) as [[[[st2 b2] n2] d2]|] eqn:Eb; [|discriminate].
    injection Eu as <- <- <- <-.
    unfold load_children in Elc.
    destruct (Nat.eqb (S h' mod 4) 0) eqn:Em.
    + (* the node is the root of its own batch *)
      assert (Hl0 : lvl (S h') 0) by (unfold lvl; apply Nat.eqb_eq in Em; rewrite Em; reflexivity).
      assert (Load : (length b = 31 /\ i' = 0 /\ l0 = bget b 1 /\ r0 = bget b 2 /\ sc = is_leaf t /\ lrep (S h') b 0 rp t) \/ hash_break H).
      { destruct Pre as [[-> ->]|(Hne & Lr & Hr)].
        - left. injection Elc as <- <- <- <- <-. repeat split; auto. cbn [BatchRep.lrep]. apply clean_new_batch.
        - destruct root as [|x root'] eqn:Er; [simpl in Lr; lia|]. rewrite <- Er in *.
          destruct (load_batch st root) as [bb|] eqn:Elb; [|discriminate]. injection Elc as <- <- <- <- <-.
          apply Nat.eqb_eq in Em.
          destruct (load_canonical H Hlen st root (S h') rp t bb Hinv Em Hh W V Hne Lr Hr Elb) as [(A1 & A2 & A3)|B]; [left|right; exact B].
          repeat split; auto. rewrite A2. destruct t; try congruence; reflexivity. }
      destruct Load as [(Lb & -> & -> & -> & -> & R)|B]; [|right; exact B].
      destruct (bbody_spec H Hlen atomic h' (bupdate H atomic h') st root kvs b 0 rp t st2 b2 n2 d2 IH Hinv Hh W V C G Hl0 Lb R Eb)
        as [(A1 & A2 & A3 & A4 & A5)|B]; [left|right; exact B].
      unfold ret_batch. rewrite Em. split; [exact A1|]. split; [exact A2|]. split; [exact A3|]. split; reflexivity.
    + (* the node lives in its parent's batch *)
      destruct Pre as (Lc & Hl & R & Hslot). injection Elc as <- <- <- <- <-.
      rewrite Hslot, (is_shortcut_enc H Hlen) in Eb.
      assert (Hi0 : i <> 0).
      { intros ->. apply Nat.eqb_neq in Em. apply Em. apply (lvl_zero _ _ Hl). reflexivity. }
      destruct (bbody_spec H Hlen atomic h' (bupdate H atomic h') st root kvs cb i rp t st2 b2 n2 d2 IH Hinv Hh W V C G Hl Lc R Eb)
        as [(A1 & A2 & A3 & A4 & A5)|B]; [left|right; exact B].
      unfold ret_batch. rewrite Em. destruct (A5 Hi0) as [A6 A7].
      split; [exact A1|]. split; [exact A2|]. split; [exact A3|]. split; [lia|]. split; [exact A6|exact A7].
Qed.

(** Trie.Update on the batch store refines the tree-level update: the new root is the root of
    the updated tree and the store stays content-addressed, unless the hash is broken *)
Theorem trie_update_b_refines st rt kvs t st' rt' :
  inv_st st -> wf 256 t -> vals32 t -> canon t -> good 256 kvs ->
  rt = Model.root H 256 t ->
  trie_update_b H atomic st rt kvs = Some (st', rt') ->
  (rt' = Model.root H 256 (trie_update 256 t kvs) /\ inv_st st') \/ hash_break H.
Proof.
  intros Hinv W V C G Hr Eu. unfold trie_update_b in Eu.
  destruct (bupdate H atomic 256 st rt kvs [] 0 []) as [[[[st2 b2] n2] d2]|] eqn:Eb; [|discriminate].
  injection Eu as <- <-.
  assert (Pre : root_ok H 256 [] rt t).
  { subst rt. unfold root_ok, Model.root. destruct t as [|k v|l r]; [left; auto| |]; right; (split; [discriminate|]); split.
    - simpl. rewrite Hlen. lia.
    - apply firstn_all2. simpl. rewrite Hlen. lia.
    - simpl. rewrite Hlen. lia.
    - apply firstn_all2. simpl. rewrite Hlen. lia. }
  destruct (bupdate_ok 256 st rt kvs [] 0 [] t st2 b2 n2 d2 Hinv eq_refl W V C G Pre Eb) as [(A1 & A2 & A3 & _)|B]; [left|right; exact B].
  split; [|exact A3]. rewrite A2. unfold trie_update, Model.root.
  destruct (fst (update 256 t kvs)) eqn:Et; [reflexivity| |]; rewrite <- Et; apply (hash_of_enc H Hlen); rewrite Et; discriminate.
Qed.

End Rf4.

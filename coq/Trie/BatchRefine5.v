(** Refinement of the batch-storage layer, part 5: reading back ([abs_batch_store]) is sound,
    canonical batches are well-formed for the serialiser, and Commit keeps the store
    content-addressed (uses the parse/serialize round trip). *)
From Coq Require Import List Bool Arith NArith Lia.
From Verif Require Import Trie.Model Trie.Basics Trie.Masc Trie.GetUpdate Trie.Canon Trie.HashBind Trie.Proof Trie.ProofBasics Trie.ProofSound
  Trie.Store Trie.StoreProofs Trie.BatchModel Trie.BatchBasics Trie.BatchSerial Trie.BatchRep Trie.BatchRefine1 Trie.BatchRefine2
  Trie.TreeVals Trie.BatchRefine3 Trie.BatchRefine4.
Import ListNotations.

Section Rf5.
Variable H : bytes -> bytes.
Hypothesis Hlen : forall x, length (H x) = 32.
Variable climit : nat.

Notation enc := (enc H).
Notation lrep := (lrep H).
Notation inv_st := (inv_st H climit).
Notation canb := (canb H).

(** ---- abs_batch_store is sound ---- *)
Definition node_pre_ok (h : nat) (st : store) (node : bytes) (cb : batch) (i : nat) (rp : list bool) (t : tree bytes) : Prop :=
  if Nat.eqb (h mod 4) 0 then root_ok H h rp node t
  else length cb = 31 /\ lvl h i /\ lrep h cb i rp t /\ bget cb i = enc h rp t /\ node = enc h rp t.

Lemma child_pre_ok h' st b i rp c x s :
  (c = 1 /\ x = false) \/ (c = 2 /\ x = true) -> lvl (S h') i -> length b = 31 ->
  crep H h' b (2 * i + c) (x :: rp) s -> bget b (2 * i + c) = enc h' (x :: rp) s ->
  node_pre_ok h' st (enc h' (x :: rp) s) b (2 * i + c) (x :: rp) s.
Proof.
  intros Hcx Hl L Cr Hs. assert (Hc : c = 1 \/ c = 2) by tauto. unfold node_pre_ok.
  destruct (Nat.eqb (h' mod 4) 0) eqn:Em.
  - unfold root_ok. destruct s as [|k v|l r]; [left; auto| |]; right.
    + split; [discriminate|]. split; [rewrite (enc_length H Hlen) by discriminate; lia|apply (hash_of_enc H Hlen); discriminate].
    + split; [discriminate|]. split; [rewrite (enc_length H Hlen) by discriminate; lia|apply (hash_of_enc H Hlen); discriminate].
  - apply Nat.eqb_neq in Em. destruct (lvl_child h' i Hl Em) as [A B].
    unfold BatchRefine1.crep in Cr. apply Nat.eqb_neq in Em. rewrite Em in Cr.
    repeat split; auto. destruct Hc as [-> | ->]; assumption.
Qed.

Theorem abs_node_sound : forall h st node cb i rp t t'',
  inv_st st -> length rp + h = 256 -> wf h t -> vals32 t ->
  node_pre_ok h st node cb i rp t ->
  abs_node h st node cb i rp = Some t'' -> t'' = t \/ hash_break H.
Proof.
  induction h as [|h' IH]; intros st node cb i rp t t'' Hinv Hh W V Pre Ea.
  - (* height 0 *)
    unfold node_pre_ok in Pre. change (0 mod 4) with 0 in Pre. cbn [Nat.eqb] in Pre.
    cbn [abs_node] in Ea. destruct node as [|x node'] eqn:En.
    + left. inversion Ea. destruct Pre as [[-> _]|(_ & Lr & _)]; [reflexivity|simpl in Lr; lia].
    + rewrite <- En in *. destruct Pre as [[_ Hr]|(Hne & Lr & Hr)]; [congruence|].
      destruct t as [|k v|l r]; [congruence| |simpl in W; contradiction].
      unfold load_children in Ea. change (0 mod 4) with 0 in Ea. cbn [Nat.eqb] in Ea.
      assert (Enode : node <> []) by (rewrite En; discriminate).
      destruct (match node with [] => Some new_batch | _ :: _ => load_batch st node end) as [bb|] eqn:El; [|discriminate].
      assert (El' : load_batch st node = Some bb) by (rewrite En in *; exact El).
      destruct (load_canonical H Hlen climit st node 0 rp (Lf k v) bb Hinv eq_refl Hh W V Hne Lr Hr El') as [(A1 & A2 & A3)|B]; [left|right; exact B].
      rewrite orb_true_r in Ea. inversion Ea. cbn [BatchRep.lrep] in A3. destruct A3 as (R1 & R2 & _).
      change (2 * 0 + 1) with 1 in R1. change (2 * 0 + 2) with 2 in R2. rewrite R1, R2.
      simpl in W, V.
      rewrite (hash_of_app32 (keyb rp k) _ (keyb_len rp k 0 Hh W)), (hash_of_app32 v _ V).
      rewrite key_roundtrip by lia. reflexivity.
  - cbn [abs_node] in Ea. destruct node as [|x node'] eqn:En.
    + left. inversion Ea. unfold node_pre_ok in Pre. destruct (Nat.eqb (S h' mod 4) 0).
      * destruct Pre as [[-> _]|(_ & Lr & _)]; [reflexivity|simpl in Lr; lia].
      * destruct Pre as (_ & _ & _ & _ & Hn). symmetry in Hn. apply (enc_nil H) in Hn. subst; reflexivity.
    + rewrite <- En in *. assert (Enode : node <> []) by (rewrite En; discriminate).
      assert (Hne : t <> E).
      { unfold node_pre_ok in Pre. destruct (Nat.eqb (S h' mod 4) 0).
        - destruct Pre as [[_ Hr]|(Hne & _)]; [congruence|exact Hne].
        - destruct Pre as (_ & _ & _ & _ & Hn). intros ->. simpl in Hn. congruence. }
      (* the continuation once the batch and the index are known *)
      assert (Cont : forall b i', lvl (S h') i' -> length b = 31 -> lrep (S h') b i' rp t ->
        (if is_leaf t || Nat.eqb (S h') 0
         then Some (Lf (skipn (length rp) (bytes_to_bits (hash_of (bget b (2 * i' + 1))))) (hash_of (bget b (2 * i' + 2))))
         else match abs_node h' st (bget b (2 * i' + 1)) b (2 * i' + 1) (false :: rp),
                    abs_node h' st (bget b (2 * i' + 2)) b (2 * i' + 2) (true :: rp) with
              | Some a, Some c => Some (Nd a c)
              | _, _ => None
              end) = Some t'' -> t'' = t \/ hash_break H).
      { intros b i' Hl L R Ec. destruct t as [|k v|l r]; [congruence| |].
        - left. cbn [is_leaf orb] in Ec. cbn [BatchRep.lrep] in R. destruct R as (R1 & R2 & _).
          rewrite R1, R2 in Ec. injection Ec as <-. simpl in W, V.
          rewrite (hash_of_app32 (keyb rp k) _ (keyb_len rp k (S h') Hh W)), (hash_of_app32 v _ V).
          rewrite key_roundtrip by lia. reflexivity.
        - cbn [is_leaf orb Nat.eqb] in Ec. cbn [BatchRep.lrep pred] in R. destruct R as (_ & R1 & R2 & R3).
          simpl in W, V. destruct W as [Wl Wr]. destruct V as [Vl Vr].
          assert (Cl : crep H h' b (2 * i' + 1) (false :: rp) l /\ crep H h' b (2 * i' + 2) (true :: rp) r).
          { unfold BatchRefine1.crep. destruct (Nat.eqb (h' mod 4) 0); auto. }
          destruct Cl as [Cl Cr].
          rewrite R1, R2 in Ec.
          destruct (abs_node h' st (enc h' (false :: rp) l) b (2 * i' + 1) (false :: rp)) as [a|] eqn:Eal; [|discriminate].
          destruct (abs_node h' st (enc h' (true :: rp) r) b (2 * i' + 2) (true :: rp)) as [c|] eqn:Ear; [|discriminate].
          injection Ec as <-.
          destruct (IH st _ b (2 * i' + 1) (false :: rp) l a Hinv ltac:(simpl; lia) Wl Vl
                      (child_pre_ok h' st b i' rp 1 false l (or_introl (conj eq_refl eq_refl)) Hl L Cl R1) Eal) as [->|B]; [|right; exact B].
          destruct (IH st _ b (2 * i' + 2) (true :: rp) r c Hinv ltac:(simpl; lia) Wr Vr
                      (child_pre_ok h' st b i' rp 2 true r (or_intror (conj eq_refl eq_refl)) Hl L Cr R2) Ear) as [->|B]; [|right; exact B].
          left. reflexivity. }
      unfold node_pre_ok in Pre. unfold load_children in Ea.
      destruct (Nat.eqb (S h' mod 4) 0) eqn:Em.
      * destruct Pre as [[_ Hr]|(_ & Lr & Hr)]; [congruence|].
        destruct (match node with [] => Some new_batch | _ :: _ => load_batch st node end) as [bb|] eqn:El; [|discriminate].
        assert (El' : load_batch st node = Some bb) by (rewrite En in *; exact El).
        apply Nat.eqb_eq in Em.
        destruct (load_canonical H Hlen climit st node (S h') rp t bb Hinv Em Hh W V Hne Lr Hr El') as [(A1 & A2 & A3)|B]; [|right; exact B].
        assert (Hsc : beqb (bget bb 0) [1%N] = is_leaf t) by (rewrite A2; destruct t; try congruence; reflexivity).
        rewrite Hsc in Ea.
        apply (Cont bb 0); auto. unfold lvl. rewrite Em. reflexivity.
      * destruct Pre as (Lc & Hl & R & Hslot & Hn).
        rewrite Hslot, (is_shortcut_enc H Hlen) in Ea.
        replace (match t with Lf _ _ => true | _ => false end) with (is_leaf t) in Ea by reflexivity.
        apply (Cont cb i); auto.
Qed.

Lemma abs_unfold st rt : abs_batch_store st rt = abs_node 256 st rt [] 0 [].
Proof. reflexivity. Qed.

Lemma root_ok_root t : root_ok H 256 [] (root H 256 t) t.
Proof.
  unfold root_ok, Model.root. destruct t as [|k v|l r]; [left; auto| |]; right; (split; [discriminate|]); split.
  - cbn [th]. rewrite Hlen. lia.
  - apply firstn_all2. cbn [th]. rewrite Hlen. lia.
  - cbn [th]. rewrite Hlen. lia.
  - apply firstn_all2. cbn [th]. rewrite Hlen. lia.
Qed.

Theorem abs_batch_store_sound st t t'' :
  inv_st st -> wf 256 t -> vals32 t ->
  abs_batch_store st (root H 256 t) = Some t'' -> t'' = t \/ hash_break H.
Proof.
  intros Hinv W V Ea. rewrite abs_unfold in Ea.
  pose proof (abs_node_sound 256 st (root H 256 t) [] 0 [] t t'' Hinv) as X.
  specialize (X eq_refl). specialize (X W V).
  assert (Pre' : node_pre_ok 256 st (root H 256 t) [] 0 [] t) by (exact (root_ok_root t)).
  specialize (X Pre'). exact (X Ea).
Qed.

(** ---- canonical batches are well-formed for the serialiser; Commit ---- *)
Lemma lrep_slots : forall t h b i rp, length rp + h = 256 -> wf h t -> vals32 t -> lvl h i -> lrep h b i rp t ->
  forall j, j <= 30 -> underb i j = true -> bget b j = [] \/ length (bget b j) = 33.
Proof.
  induction t as [|k v|l IHl r IHr]; intros h b i rp Hh W V Hl R j Hj Hu; cbn [BatchRep.lrep] in R.
  - left. apply R; auto.
  - pose proof (lvl_le _ _ Hl) as Hi. destruct R as (R1 & R2 & C1 & C2). simpl in W, V.
    rewrite (under_inv i j Hi Hj) in Hu.
    destruct (Nat.eqb j (2 * i + 1)) eqn:E1.
    { apply Nat.eqb_eq in E1. subst j. right. rewrite R1, app_length, (keyb_len rp k h Hh W). reflexivity. }
    destruct (Nat.eqb j (2 * i + 2)) eqn:E2.
    { apply Nat.eqb_eq in E2. subst j. right. rewrite R2, app_length, V. reflexivity. }
    simpl in Hu. apply orb_true_iff in Hu. left. destruct Hu; [apply C1|apply C2]; auto.
  - destruct h as [|h']; [simpl in W; contradiction|]. pose proof (lvl_le _ _ Hl) as Hi.
    destruct R as (_ & R1 & R2 & R3). cbn [pred] in *. simpl in W, V. destruct W as [Wl Wr]. destruct V as [Vl Vr].
    rewrite (under_inv i j Hi Hj) in Hu.
    assert (Enc : forall rp' s, enc h' rp' s = [] \/ length (enc h' rp' s) = 33).
    { intros rp' s. destruct s; [left; reflexivity| |]; right; apply (enc_length H Hlen); discriminate. }
    destruct (Nat.eqb j (2 * i + 1)) eqn:E1.
    { apply Nat.eqb_eq in E1. subst j. rewrite R1. apply Enc. }
    destruct (Nat.eqb j (2 * i + 2)) eqn:E2.
    { apply Nat.eqb_eq in E2. subst j. rewrite R2. apply Enc. }
    simpl in Hu. apply orb_true_iff in Hu.
    destruct (Nat.eqb (h' mod 4) 0) eqn:Em.
    + apply Nat.eqb_eq in Em. exfalso.
      destruct Hu as [Hu|Hu]; rewrite under_leaf_level in Hu; auto; try discriminate.
      * destruct (child_slot_bounds h' i 1 Hl (or_introl eq_refl)) as (_ & B & _). auto.
      * destruct (child_slot_bounds h' i 2 Hl (or_intror eq_refl)) as (_ & B & _). auto.
    + destruct R3 as [Rl Rr]. apply Nat.eqb_neq in Em. destruct (lvl_child h' i Hl Em) as [Ll Lr].
      destruct Hu as [Hu|Hu].
      * apply (IHl h' b (2 * i + 1) (false :: rp)); auto. simpl; lia.
      * apply (IHr h' b (2 * i + 2) (true :: rp)); auto. simpl; lia.
Qed.

Lemma under_root j : 1 <= j -> j <= 30 -> underb 0 j = true.
Proof.
  intros A B.
  assert (Hc : forallb (fun j => Nat.eqb j 0 || underb 0 j) (seq 0 31) = true) by (vm_compute; reflexivity).
  pose proof (forall_range _ 31 Hc j ltac:(lia)) as Hx. cbv beta in Hx.
  destruct (Nat.eqb j 0) eqn:E0; [apply Nat.eqb_eq in E0; lia|exact Hx].
Qed.

Lemma canb_wf x b : canb x b -> batch_wf b.
Proof.
  intros (h & rp & t & Hm & Hh & W & V & Hne & _ & L & F0 & R).
  assert (Hl0 : lvl h 0) by (unfold lvl; rewrite Hm; reflexivity).
  split; [exact L|]. split.
  { rewrite F0. destruct t; simpl; auto. }
  split.
  { intros i Hi. apply (lrep_slots t h b 0 rp Hh W V Hl0 R); [lia|]. apply under_root; lia. }
  intros Hs. rewrite F0 in Hs. destruct t as [|k v|l r]; try discriminate.
  cbn [BatchRep.lrep] in R. destruct R as (R1 & R2 & C1 & C2). change (2 * 0 + 1) with 1 in *. change (2 * 0 + 2) with 2 in *.
  split; [rewrite R1; destruct (keyb rp k); discriminate|]. split; [rewrite R2; destruct v; discriminate|].
  intros i Hi. pose proof (under_root i ltac:(lia) ltac:(lia)) as Hu.
  rewrite (under_inv 0 i ltac:(lia) ltac:(lia)) in Hu. change (2 * 0 + 1) with 1 in Hu. change (2 * 0 + 2) with 2 in Hu.
  replace (Nat.eqb i 1) with false in Hu by (symmetry; apply Nat.eqb_neq; lia).
  replace (Nat.eqb i 2) with false in Hu by (symmetry; apply Nat.eqb_neq; lia).
  simpl in Hu. apply orb_true_iff in Hu. destruct Hu; [apply C1|apply C2]; auto; lia.
Qed.

Theorem commit_keeps_inv st : inv_st st -> inv_st (commit_store st).
Proof.
  intros (Hu & Hd & Hca). unfold commit_store. split; [simpl; intros x b []|]. split; [|exact Hca]. simpl.
  assert (Gen : forall l d,
     (forall x b, In (x, b) l -> canb x b) ->
     (forall x val, alookup d x = Some val -> val <> [] -> canb x (parse_batch val)) ->
     forall x val, alookup (fold_left (fun d e => aput d (fst e) (serialize_batch (snd e))) l d) x = Some val ->
                   val <> [] -> canb x (parse_batch val)).
  { induction l as [|[k b] l IH]; intros d Hl Hdd x val; simpl; [apply Hdd|].
    apply IH.
    - intros x' b' Hin. apply Hl. right. exact Hin.
    - intros x' val' Hx Hv. apply alookup_aput in Hx. destruct Hx as [[-> ->]|Hx]; [|apply Hdd; auto].
      assert (Hc : canb k b) by (apply Hl; left; reflexivity).
      rewrite (parse_serialize b (canb_wf k b Hc)). exact Hc. }
  apply Gen; auto.
Qed.

(** reads through liveCache equal reads without it *)
Definition drop_cache (st : store) : store := {| db := db st; upd := upd st; cache := [] |}.

Lemma inv_drop_cache st : inv_st st -> inv_st (drop_cache st).
Proof. intros (Hu & Hd & _). split; [exact Hu|]. split; [exact Hd|]. intros x b []. Qed.

Theorem cache_read_transparent st t a b :
  inv_st st -> wf 256 t -> vals32 t ->
  abs_batch_store st (root H 256 t) = Some a ->
  abs_batch_store (drop_cache st) (root H 256 t) = Some b ->
  (a = t /\ b = t) \/ hash_break H.
Proof.
  intros Hinv W V Ea Eb.
  destruct (abs_batch_store_sound st t a Hinv W V Ea) as [->|B]; [|right; exact B].
  destruct (abs_batch_store_sound (drop_cache st) t b (inv_drop_cache st Hinv) W V Eb) as [->|B]; [|right; exact B].
  left. auto.
Qed.

End Rf5.

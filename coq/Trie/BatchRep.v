(** Representation of a tree in node batches: [enc] (what a node slot holds), [lrep] (the
    slots below a node represent a subtree, with nothing stale), content-addressed stores
    ([canb], [inv_st]) and the determinism lemma: a canonical batch stored under a hash is the
    canonical batch of every tree position with that hash, unless the hash is broken. *)
From Coq Require Import List Bool Arith NArith Lia.
From Verif Require Import Trie.Model Trie.Basics Trie.HashBind Trie.Proof Trie.ProofBasics Trie.ProofSound
  Trie.Store Trie.StoreProofs Trie.BatchModel Trie.BatchBasics.
Import ListNotations.

Section Rep.
Variable H : bytes -> bytes.
Hypothesis Hlen : forall x, length (H x) = 32.
Variable climit : nat.          (* Trie.CacheHeightLimit *)

Definition flagb (t : tree bytes) : N := match t with Lf _ _ => 1%N | _ => 0%N end.
Definition enc (h : nat) (rp : list bool) (t : tree bytes) : bytes :=
  match t with E => [] | _ => th H h rp t ++ [flagb t] end.
Definition keyb (rp : list bool) (k : key) : bytes := bits_to_bytes (rev_append rp k).

Definition clean (b : batch) (i : nat) : Prop := forall j, j <= 30 -> underb i j = true -> bget b j = [].

Fixpoint lrep (h : nat) (b : batch) (i : nat) (rp : list bool) (t : tree bytes) {struct t} : Prop :=
  match t with
  | E => clean b i
  | Lf k v => bget b (2 * i + 1) = keyb rp k ++ [2%N] /\ bget b (2 * i + 2) = v ++ [2%N] /\
              clean b (2 * i + 1) /\ clean b (2 * i + 2)
  | Nd l r =>
      h <> 0 /\
      bget b (2 * i + 1) = enc (pred h) (false :: rp) l /\ bget b (2 * i + 2) = enc (pred h) (true :: rp) r /\
      (if Nat.eqb (pred h mod 4) 0 then True
       else lrep (pred h) b (2 * i + 1) (false :: rp) l /\ lrep (pred h) b (2 * i + 2) (true :: rp) r)
  end.

(** the batch stored under hash x is the canonical batch of some tree position (of height h)
    with hash x *)
Definition canb_at (h : nat) (x : bytes) (b : batch) : Prop :=
  exists rp t, h mod 4 = 0 /\ length rp + h = 256 /\ wf h t /\ vals32 t /\ t <> E /\
    x = th H h rp t /\ length b = 31 /\ bget b 0 = [flagb t] /\ lrep h b 0 rp t.
Definition canb (x : bytes) (b : batch) : Prop := exists h, canb_at h x b.
(** ... of a position at or above the cache limit (what storeNode puts into liveCache) *)
Definition canb_ge (x : bytes) (b : batch) : Prop := exists h, climit <= h /\ canb_at h x b.

(** content-addressed store: updatedNodes, the disk store and liveCache ([cache_canonical]) *)
Definition cache_canonical (st : store) : Prop := forall x b, In (x, b) (cache st) -> canb_ge x b.
Definition inv_st (st : store) : Prop :=
  (forall x b, In (x, b) (upd st) -> canb x b) /\
  (forall x val, alookup (db st) x = Some val -> val <> [] -> canb x (parse_batch val)) /\
  cache_canonical st.

(** ---- enc ---- *)
Lemma th_len32 h rp t : t <> E -> length (th H h rp t) = 32.
Proof. destruct t; [congruence| |]; intros _; simpl; apply Hlen. Qed.

Lemma enc_nil h rp t : enc h rp t = [] <-> t = E.
Proof.
  split; [|intros ->; reflexivity]. destruct t; auto; simpl; intros E0;
    apply (f_equal (@length _)) in E0; rewrite app_length in E0; simpl in E0; lia.
Qed.

Lemma hash_of_enc h rp t : t <> E -> hash_of (enc h rp t) = th H h rp t.
Proof.
  intros Hne. pose proof (th_len32 h rp t Hne) as L. unfold hash_of, enc.
  destruct t; [congruence| |]; rewrite firstn_app, L, Nat.sub_diag, firstn_O, app_nil_r; apply firstn_all2; lia.
Qed.

Lemma child_pre_enc h rp t : child_pre (enc h rp t) = th H h rp t.
Proof.
  destruct t as [|k v|l r]; [reflexivity| |]; unfold child_pre.
  - destruct (enc h rp (Lf k v)) eqn:Ee; [apply enc_nil in Ee; discriminate|]. rewrite <- Ee. apply hash_of_enc. discriminate.
  - destruct (enc h rp (Nd l r)) eqn:Ee; [apply enc_nil in Ee; discriminate|]. rewrite <- Ee. apply hash_of_enc. discriminate.
Qed.

Lemma is_shortcut_enc h rp t : is_shortcut_node (enc h rp t) = match t with Lf _ _ => true | _ => false end.
Proof.
  destruct t as [|k v|l r]; [reflexivity| |]; unfold is_shortcut_node, enc.
  - destruct (th H h rp (Lf k v) ++ [flagb (Lf k v)]) eqn:Ee; [destruct (th H h rp (Lf k v)); discriminate|].
    rewrite <- Ee. rewrite app_nth2 by (rewrite th_len32 by discriminate; lia).
    rewrite th_len32 by discriminate. reflexivity.
  - destruct (th H h rp (Nd l r) ++ [flagb (Nd l r)]) eqn:Ee; [destruct (th H h rp (Nd l r)); discriminate|].
    rewrite <- Ee. rewrite app_nth2 by (rewrite th_len32 by discriminate; lia).
    rewrite th_len32 by discriminate. reflexivity.
Qed.

Lemma enc_length h rp t : t <> E -> length (enc h rp t) = 33.
Proof.
  intros Hne. pose proof (th_len32 h rp t Hne) as L. unfold enc.
  destruct t; [congruence| |]; rewrite app_length, L; reflexivity.
Qed.

(** ---- association lists ---- *)
Lemma alookup_aremove {A} (l : list (bytes * A)) k x v : alookup (aremove l k) x = Some v -> alookup l x = Some v.
Proof.
  induction l as [|[k' v'] l IH]; simpl; [discriminate|].
  destruct (beqb k' k) eqn:E1.
  - intros Hx. destruct (beqb k' x) eqn:E2; auto.
    apply beqb_eq in E1, E2. subst.
    clear IH. exfalso. induction l as [|[k2 v2] l IH2]; simpl in Hx; [discriminate|].
    destruct (beqb k2 x) eqn:E3; [auto|]. simpl in Hx. rewrite E3 in Hx. auto.
  - simpl. destruct (beqb k' x); auto.
Qed.

Lemma alookup_aput {A} (l : list (bytes * A)) k v x w :
  alookup (aput l k v) x = Some w -> (x = k /\ w = v) \/ alookup l x = Some w.
Proof.
  unfold aput. simpl. destruct (beqb k x) eqn:E.
  - apply beqb_eq in E. subst. intros E'; inversion E'; auto.
  - intros Hx. right. eapply alookup_aremove; eauto.
Qed.

Lemma alookup_in {A} (l : list (bytes * A)) x v : alookup l x = Some v -> In (x, v) l.
Proof.
  induction l as [|[k' v'] l IH]; simpl; [discriminate|]. destruct (beqb k' x) eqn:E0.
  - apply beqb_eq in E0. subst. intros E'; inversion E'; auto.
  - auto.
Qed.

Lemma in_aremove {A} (l : list (bytes * A)) k e : In e (aremove l k) -> In e l.
Proof.
  induction l as [|[k' v'] l IH]; simpl; [auto|]. destruct (beqb k' k); [intros Hin; right; auto|simpl; intros [->|Hin]; auto].
Qed.

Lemma canb_ge_canb x b : canb_ge x b -> canb x b.
Proof. intros (h & _ & Hc). exists h. exact Hc. Qed.

Lemma inv_delete atomic st root height mv : inv_st st -> inv_st (delete_old_node atomic climit st root height mv).
Proof.
  intros (Hu & Hd & Hc). unfold delete_old_node. split; [|split]; simpl; auto.
  - destruct (negb atomic || mv); auto. intros x b Hx. apply Hu. eapply in_aremove; eauto.
  - destruct (Nat.leb climit height); auto. intros x b Hx. apply Hc. eapply in_aremove; eauto.
Qed.

Lemma inv_store_node atomic st b hh old height :
  inv_st st -> canb_at height (map_key hh) b -> inv_st (store_node atomic climit st b hh old height).
Proof.
  intros (Hu & Hd & Hc) Hb. unfold store_node.
  set (st1 := {| db := db st; upd := aput (upd st) (map_key hh) b;
                 cache := if Nat.leb climit height then aput (cache st) (map_key hh) b else cache st |}).
  assert (I1 : inv_st st1).
  { split; [|split]; simpl; auto.
    - intros x b' [Hx|Hx]; [inversion Hx; subst; exists height; exact Hb|]. apply Hu. eapply in_aremove; eauto.
    - destruct (Nat.leb climit height) eqn:El; [|exact Hc]. apply Nat.leb_le in El.
      intros x b' [Hx|Hx]; [inversion Hx; subst; exists height; auto|]. apply Hc. eapply in_aremove; eauto. }
  destruct (Nat.ltb (length old) 32 || negb (beqb (hash_of hh) (hash_of old))); [apply inv_delete|]; exact I1.
Qed.

Lemma map_key_32 x : length x = 32 -> map_key x = x.
Proof. intros L. unfold map_key. rewrite firstn_all2 by lia. rewrite L. simpl. apply app_nil_r. Qed.

Lemma map_key_hash_of root : 32 <= length root -> map_key root = hash_of root.
Proof.
  intros L. unfold map_key, hash_of. rewrite firstn_length_le by lia. simpl. apply app_nil_r.
Qed.

(** ---- determinism of canonical batch contents ---- *)
Lemma leaf_pre_inj rp k v hb rp2 k2 v2 hb2 h h2 :
  length rp + h = 256 -> length k = h -> length rp2 + h2 = 256 -> length k2 = h2 ->
  keyb rp2 k2 ++ v2 ++ [hb2] = keyb rp k ++ v ++ [hb] -> keyb rp2 k2 = keyb rp k /\ v2 = v.
Proof.
  intros Hh Hk Hh2 Hk2 Ep. unfold keyb in *.
  assert (L1 : length (rev_append rp k) = 8 * 32) by (rewrite rev_append_rev, app_length, rev_length; lia).
  assert (L2 : length (rev_append rp2 k2) = 8 * 32) by (rewrite rev_append_rev, app_length, rev_length; lia).
  apply app_eq_len in Ep.
  2:{ destruct (bits_bytes_inv 32 _ L1) as [_ ->]. destruct (bits_bytes_inv 32 _ L2) as [_ ->]. reflexivity. }
  destruct Ep as [Ek Ev]. split; [exact Ek|]. apply app_inj_tail in Ev. tauto.
Qed.

Lemma mod4_S h : S h mod 4 = if Nat.eqb (h mod 4) 3 then 0 else S (h mod 4).
Proof.
  replace (S h) with (h + 1) by lia. rewrite Nat.add_mod by lia.
  pose proof (Nat.mod_upper_bound h 4 ltac:(lia)) as Hb.
  destruct (h mod 4) as [|[|[|[|n]]]]; try reflexivity. lia.
Qed.

Lemma enc_det t h rp t2 h2 rp2 :
  th H h2 rp2 t2 = th H h rp t ->
  length rp + h = 256 -> length rp2 + h2 = 256 -> wf h t -> wf h2 t2 -> vals32 t -> vals32 t2 ->
  enc h2 rp2 t2 = enc h rp t \/ hash_break H.
Proof.
  intros E Hh Hh2 W W2 V V2.
  destruct t2 as [|k2 v2|l2 r2], t as [|k v|l r]; try (left; reflexivity);
    try (exfalso; simpl in E; apply (f_equal (@length _)) in E; simpl in E; rewrite ?Hlen in E; discriminate).
  - left. unfold enc. rewrite E. reflexivity.
  - right. left. simpl in E. match type of E with H ?p1 = H ?p2 => exists p1, p2 end. split; [|exact E].
    intros Ep. apply (f_equal (@length _)) in Ep. simpl in W2, V2.
    rewrite (leaf_pre_len rp2 h2 k2 v2 _ Hh2 W2 V2) in Ep.
    destruct (nd_pre_len H Hlen (pred h) rp l r) as [X|[X|X]]; rewrite X in Ep; discriminate.
  - right. left. simpl in E. match type of E with H ?p1 = H ?p2 => exists p1, p2 end. split; [|exact E].
    intros Ep. apply (f_equal (@length _)) in Ep. simpl in W, V.
    rewrite (leaf_pre_len rp h k v _ Hh W V) in Ep.
    destruct (nd_pre_len H Hlen (pred h2) rp2 l2 r2) as [X|[X|X]]; rewrite X in Ep; discriminate.
  - left. unfold enc. rewrite E. reflexivity.
Qed.

Lemma lrep_det : forall t h rp t2 h2 rp2 b i,
  th H h2 rp2 t2 = th H h rp t -> h2 mod 4 = h mod 4 ->
  length rp + h = 256 -> length rp2 + h2 = 256 -> wf h t -> wf h2 t2 -> vals32 t -> vals32 t2 ->
  lrep h2 b i rp2 t2 -> lrep h b i rp t \/ hash_break H.
Proof.
  induction t as [|k v|l IHl r IHr]; intros h rp t2 h2 rp2 b i E Hm Hh Hh2 W W2 V V2 R.
  - destruct t2; [left; auto| |]; exfalso; simpl in E; apply (f_equal (@length _)) in E; rewrite Hlen in E; discriminate.
  - destruct t2 as [|k2 v2|l2 r2].
    + exfalso. simpl in E. apply (f_equal (@length _)) in E. rewrite Hlen in E. discriminate.
    + simpl in E, W, W2, V, V2.
      match type of E with H ?p1 = H ?p2 => destruct (bytes_eq_dec p1 p2) as [Ep|Ep] end.
      2:{ right. left. eexists; eexists; split; [exact Ep|exact E]. }
      left. destruct (leaf_pre_inj rp k v _ rp2 k2 v2 _ h h2 Hh W Hh2 W2 Ep) as [Ek ->].
      simpl in R |- *. rewrite <- Ek. exact R.
    + right. left. simpl in E. match type of E with H ?p1 = H ?p2 => exists p1, p2 end. split; [|exact E].
      intros Ep. apply (f_equal (@length _)) in Ep. simpl in W, V.
      rewrite (leaf_pre_len rp h k v _ Hh W V) in Ep.
      destruct (nd_pre_len H Hlen (pred h2) rp2 l2 r2) as [X|[X|X]]; rewrite X in Ep; discriminate.
  - destruct t2 as [|k2 v2|l2 r2].
    + exfalso. simpl in E. apply (f_equal (@length _)) in E. rewrite Hlen in E. discriminate.
    + right. left. simpl in E. match type of E with H ?p1 = H ?p2 => exists p1, p2 end. split; [|exact E].
      intros Ep. apply (f_equal (@length _)) in Ep. simpl in W2, V2.
      rewrite (leaf_pre_len rp2 h2 k2 v2 _ Hh2 W2 V2) in Ep.
      destruct (nd_pre_len H Hlen (pred h) rp l r) as [X|[X|X]]; rewrite X in Ep; discriminate.
    + destruct h as [|h']; [simpl in W; contradiction|]. destruct h2 as [|h2']; [simpl in W2; contradiction|].
      simpl in W, W2, V, V2, E. destruct W as [Wl Wr]. destruct W2 as [Wl2 Wr2]. destruct V as [Vl Vr]. destruct V2 as [Vl2 Vr2].
      match type of E with H ?p1 = H ?p2 => destruct (bytes_eq_dec p1 p2) as [Ep|Ep] end.
      2:{ right. left. eexists; eexists; split; [exact Ep|exact E]. }
      destruct (cat_eq H Hlen _ _ _ _ (th_child_ok H h2' (false :: rp2) l2) (th_child_ok H h2' (true :: rp2) r2)
                  (th_child_ok H h' (false :: rp) l) (th_child_ok H h' (true :: rp) r) Ep) as [[El Er]|S]; [|right; right; exact S].
      assert (Hm' : h2' mod 4 = h' mod 4).
      { rewrite !mod4_S in Hm. pose proof (Nat.mod_upper_bound h' 4 ltac:(lia)) as U1.
        pose proof (Nat.mod_upper_bound h2' 4 ltac:(lia)) as U2.
        set (a := h2' mod 4) in *. set (c := h' mod 4) in *.
        destruct (Nat.eqb a 3) eqn:A; destruct (Nat.eqb c 3) eqn:B;
          rewrite ?Nat.eqb_eq in A; rewrite ?Nat.eqb_eq in B; rewrite ?Nat.eqb_neq in A; rewrite ?Nat.eqb_neq in B; lia. }
      assert (Hl' : length (false :: rp) + h' = 256) by (simpl; lia).
      assert (Hr' : length (true :: rp) + h' = 256) by (simpl; lia).
      assert (Hl2' : length (false :: rp2) + h2' = 256) by (simpl; lia).
      assert (Hr2' : length (true :: rp2) + h2' = 256) by (simpl; lia).
      destruct (enc_det l h' (false :: rp) l2 h2' (false :: rp2) El Hl' Hl2' Wl Wl2 Vl Vl2) as [EncL|B]; [|right; exact B].
      destruct (enc_det r h' (true :: rp) r2 h2' (true :: rp2) Er Hr' Hr2' Wr Wr2 Vr Vr2) as [EncR|B]; [|right; exact B].
      cbn [lrep pred] in R |- *. destruct R as (_ & R1 & R2 & R3). rewrite <- EncL, <- EncR.
      rewrite Hm' in R3. destruct (Nat.eqb (h' mod 4) 0).
      * left. repeat split; auto.
      * destruct R3 as [R3l R3r].
        destruct (IHl h' (false :: rp) l2 h2' (false :: rp2) b (2 * i + 1) El Hm' Hl' Hl2' Wl Wl2 Vl Vl2 R3l) as [Gl|B]; [|right; exact B].
        destruct (IHr h' (true :: rp) r2 h2' (true :: rp2) b (2 * i + 2) Er Hm' Hr' Hr2' Wr Wr2 Vr Vr2 R3r) as [Gr|B]; [|right; exact B].
        left. repeat split; auto.
Qed.

(** loading a node of a content-addressed store gives the canonical batch of the position *)
Lemma load_canonical st root h rp t b :
  inv_st st -> h mod 4 = 0 -> length rp + h = 256 -> wf h t -> vals32 t -> t <> E ->
  32 <= length root -> hash_of root = th H h rp t ->
  load_batch st root = Some b ->
  (length b = 31 /\ bget b 0 = [flagb t] /\ lrep h b 0 rp t) \/ hash_break H.
Proof.
  intros (Hu & Hd & Hca) Hm Hh W V Hne Lr Hr Hl. unfold load_batch in Hl.
  rewrite (map_key_hash_of root Lr), Hr in Hl.
  assert (Hc : canb (th H h rp t) b).
  { destruct (alookup (cache st) (th H h rp t)) as [b1|] eqn:Ec.
    { inversion Hl; subst. apply canb_ge_canb. apply Hca. apply alookup_in. exact Ec. }
    destruct (alookup (upd st) (th H h rp t)) as [b0|] eqn:Eu.
    - inversion Hl; subst. apply Hu. apply alookup_in. exact Eu.
    - destruct (alookup (db st) (th H h rp t)) as [val|] eqn:Ed; [|discriminate].
      destruct val as [|x val'] eqn:Ev; [discriminate|]. inversion Hl; subst. apply (Hd _ _ Ed). discriminate. }
  destruct Hc as (h2 & rp2 & t2 & Hm2 & Hh2 & W2 & V2 & Hne2 & Ex & Lb & F0 & R).
  destruct (lrep_det t h rp t2 h2 rp2 b 0 (eq_sym Ex) ltac:(lia) Hh Hh2 W W2 V V2 R) as [G|B]; [|right; exact B].
  destruct (enc_det t h rp t2 h2 rp2 (eq_sym Ex) Hh Hh2 W W2 V V2) as [Ee|B]; [|right; exact B].
  left. split; [exact Lb|]. split; [|exact G].
  rewrite F0. f_equal. destruct t2, t; try congruence; try reflexivity;
    unfold enc in Ee; apply (f_equal (fun l => last l 0%N)) in Ee; rewrite !last_last in Ee; simpl in Ee; discriminate.
Qed.

End Rep.

(** parseBatch (serializeBatch b) = b on well-formed batches (trie_cache.go / trie.go). *)
From Coq Require Import List Bool Arith NArith Lia.
From Verif Require Import Trie.Model Trie.Basics Trie.HashBind Trie.Proof Trie.ProofBasics Trie.ProofSound Trie.BatchModel Trie.BatchBasics.
Import ListNotations.

Definition batch_wf (b : batch) : Prop :=
  length b = 31 /\
  (bget b 0 = [0%N] \/ bget b 0 = [1%N]) /\
  (forall i, 1 <= i <= 30 -> bget b i = [] \/ length (bget b i) = 33) /\
  (bget b 0 = [1%N] -> bget b 1 <> [] /\ bget b 2 <> [] /\ forall i, 3 <= i <= 30 -> bget b i = []).

Definition nonempty (s : bytes) : bool := negb (match s with [] => true | _ => false end).

Lemma parse_slots_concat (slots : list bytes) rest :
  Forall (fun s => s = [] \/ length s = 33) slots ->
  parse_slots (map nonempty slots) (concat slots ++ rest) = slots.
Proof.
  induction slots as [|s slots IH]; intros Hf; [reflexivity|].
  inversion Hf as [|? ? Hs Hf']; subst. destruct Hs as [->|Hl].
  - simpl. f_equal. apply IH; auto.
  - assert (Hne : nonempty s = true) by (destruct s; [discriminate|reflexivity]).
    cbn [map concat]. rewrite Hne. cbn [parse_slots]. rewrite <- app_assoc.
    rewrite firstn_app, firstn_all2 by lia. rewrite Hl, Nat.sub_diag. cbn [firstn]. rewrite app_nil_r.
    f_equal. rewrite skipn_app, skipn_all2 by lia. rewrite Hl, Nat.sub_diag. cbn [skipn app]. apply IH; auto.
Qed.

Lemma map_bget_seq b : length b = 31 -> map (bget b) (seq 0 31) = b.
Proof.
  intros L. do 31 (destruct b as [|? b]; [discriminate|]). destruct b; [reflexivity|discriminate].
Qed.

Lemma batch_split b : length b = 31 -> b = bget b 0 :: map (bget b) (seq 1 30).
Proof.
  intros L. rewrite <- (map_bget_seq b L) at 1. reflexivity.
Qed.

Theorem parse_serialize b : batch_wf b -> parse_batch (serialize_batch b) = b.
Proof.
  intros (L & H0 & Hs & Hsc).
  unfold parse_batch, serialize_batch.
  set (bm := batch_bitmap b).
  assert (Lbm : length bm = 8 * 4).
  { unfold bm, batch_bitmap. rewrite app_length, map_length, seq_length. reflexivity. }
  destruct (bits_bytes_inv 4 bm Lbm) as [Inv Lb].
  rewrite firstn_app, Lb, Nat.sub_diag. rewrite firstn_all2 by (rewrite Lb; lia). rewrite firstn_O, app_nil_r.
  rewrite skipn_app, Lb, Nat.sub_diag. rewrite skipn_all2 by (rewrite Lb; lia). rewrite skipn_O. cbn [app].
  rewrite Inv.
  assert (Hbit : nth 31 bm false = beqb (bget b 0) [1%N]).
  { unfold bm, batch_bitmap. rewrite app_nth2 by (rewrite map_length, seq_length; lia).
    rewrite map_length, seq_length. reflexivity. }
  rewrite Hbit.
  assert (Hall : Forall (fun s => s = [] \/ length s = 33) (map (bget b) (seq 1 30))).
  { apply Forall_forall. intros s Hin. apply in_map_iff in Hin. destruct Hin as [i [<- Hi]].
    apply in_seq in Hi. apply Hs. lia. }
  destruct H0 as [E0|E0]; rewrite E0.
  - (* interior batch *)
    change (beqb [0%N] [1%N]) with false. cbv iota.
    assert (Hf : firstn 30 bm = map nonempty (map (bget b) (seq 1 30))).
    { unfold bm, batch_bitmap. rewrite firstn_app, map_length, seq_length.
      rewrite firstn_all2 by (rewrite map_length, seq_length; lia).
      replace (30 - 30) with 0 by reflexivity. rewrite firstn_O, app_nil_r, map_map. reflexivity. }
    rewrite Hf. rewrite <- (app_nil_r (concat _)). rewrite parse_slots_concat by auto.
    symmetry. rewrite (batch_split b L) at 1. rewrite E0. reflexivity.
  - (* shortcut batch: only slots 1 and 2 are read back *)
    change (beqb [1%N] [1%N]) with true. cbv iota. destruct (Hsc E0) as (N1 & N2 & Hrest).
    assert (L1 : length (bget b 1) = 33) by (destruct (Hs 1 ltac:(lia)); [contradiction|auto]).
    assert (L2 : length (bget b 2) = 33) by (destruct (Hs 2 ltac:(lia)); [contradiction|auto]).
    assert (Hc : concat (map (bget b) (seq 1 30)) = bget b 1 ++ bget b 2).
    { change (seq 1 30) with (1 :: 2 :: seq 3 28). cbn [map concat].
      assert (Hz : concat (map (bget b) (seq 3 28)) = []).
      { apply concat_nil_Forall. apply Forall_forall. intros s Hin. apply in_map_iff in Hin.
        destruct Hin as [i [<- Hi]]. apply in_seq in Hi. apply Hrest. lia. }
      rewrite Hz, app_nil_r. reflexivity. }
    rewrite Hc.
    rewrite firstn_app, L1, Nat.sub_diag. rewrite firstn_all2 by lia. rewrite firstn_O, app_nil_r.
    rewrite skipn_app, L1, Nat.sub_diag. rewrite skipn_all2 by lia. rewrite skipn_O. cbn [app].
    rewrite firstn_all2 by lia.
    symmetry. rewrite (batch_split b L) at 1. rewrite E0. symmetry. f_equal.
    change (seq 1 30) with (1 :: 2 :: seq 3 28). cbn [map]. f_equal. f_equal.
    transitivity (map (fun _ : nat => @nil N) (seq 3 28)); [reflexivity|].
    apply map_ext_in. intros a Ha. apply in_seq in Ha. symmetry. apply Hrest. lia.
Qed.

(** [update] preserves well-formedness and canonical shape; the [deleted] flag invariant
    that makes maybeMoveUpShortcut sufficient; canonical trees are determined by their
    contents. *)
From Coq Require Import List Bool Arith Lia.
From Verif Require Import Trie.Model Trie.Basics Trie.Masc Trie.GetUpdate.
Import ListNotations.

Section C.
Context {val : Type}.
Notation tree := (tree val).
Notation batch := (batch val).
Implicit Types (t l r : tree) (b : batch).

Lemma canon_size0 t : canon t -> size t = 0 -> t = E.
Proof. destruct t; simpl; try discriminate; auto. intros [H _] H0. lia. Qed.

(** what one call of update guarantees *)
Definition res_ok (h : nat) (t : tree) (b : batch) (res : tree * bool) : Prop :=
  let '(t', d) := res in
  wf h t' /\ canon t' /\ (size t' = 0 -> d = true) /\
  (d = false -> size t' = 1 -> size t <= 1 /\ (t = E -> length b = 1)).

Definition inv (h : nat) (upd : tree -> batch -> tree * bool) : Prop :=
  forall t b, wf h t -> canon t -> keys_len h b -> sorted b -> b <> [] -> res_ok h t b (upd t b).

Lemma join_inv h l r d :
  wf h l -> wf h r -> canon l -> canon r -> (d = false -> 2 <= size l + size r) ->
  let '(t', d') := join l r d in
  wf (S h) t' /\ canon t' /\ (size t' = 0 -> d' = true) /\ (d' = false -> size t' <> 1).
Proof.
  intros Hl Hr Cl Cr Hd. unfold join. destruct d.
  - destruct l as [|lk lv|ll lr]; destruct r as [|rk rv|rl rr]; cbn in *;
      repeat split; auto; try lia; try congruence; try tauto; try (f_equal; assumption).
  - specialize (Hd eq_refl). simpl. repeat split; auto; try lia; try congruence.
Qed.

Lemma go_split_inv h upd l r b :
  inv h upd -> wf h l -> wf h r -> canon l -> canon r ->
  ((l = E /\ r = E) \/ 2 <= size l + size r) ->
  ~ (l = E /\ r = E /\ length b = 1) ->
  keys_len (S h) b -> sorted b -> b <> [] ->
  let '(t', d') := go_split upd l r b in
  wf (S h) t' /\ canon t' /\ (size t' = 0 -> d' = true) /\ (d' = false -> size t' <> 1).
Proof.
  intros Hinv Hl Hr Cl Cr Hsz Hns Hb Hs Hne. unfold go_split.
  pose proof (keys_len_part false b h Hb) as Hlb.
  pose proof (keys_len_part true b h Hb) as Hrb.
  pose proof (sorted_part false b h Hb Hs) as Hsl.
  pose proof (sorted_part true b h Hb Hs) as Hsr.
  pose proof (length_part b) as Hlen.
  destruct (part false b) as [|x lb] eqn:El; destruct (part true b) as [|y rb] eqn:Er.
  - exfalso. apply Hne. eapply part_both_nil; eauto.
  - assert (Hn : y :: rb <> []) by discriminate.
    pose proof (Hinv r (y :: rb) Hr Cr Hrb Hsr Hn) as Hres.
    destruct (upd r (y :: rb)) as [r' d]. destruct Hres as (W & C & I1 & I2).
    apply join_inv; auto. intros ->. specialize (I2 eq_refl).
    destruct (size r') as [|[|n]] eqn:Es; [specialize (I1 eq_refl); discriminate| |lia].
    destruct (I2 eq_refl) as [Hle HE].
    destruct Hsz as [[-> ->]|Hsz]; [|lia].
    exfalso. apply Hns. repeat split; auto. specialize (HE eq_refl). simpl in Hlen, HE. lia.
  - assert (Hn : x :: lb <> []) by discriminate.
    pose proof (Hinv l (x :: lb) Hl Cl Hlb Hsl Hn) as Hres.
    destruct (upd l (x :: lb)) as [l' d]. destruct Hres as (W & C & I1 & I2).
    apply join_inv; auto. intros ->. specialize (I2 eq_refl).
    destruct (size l') as [|[|n]] eqn:Es; [specialize (I1 eq_refl); discriminate| |lia].
    destruct (I2 eq_refl) as [Hle HE].
    destruct Hsz as [[-> ->]|Hsz]; [|lia].
    exfalso. apply Hns. repeat split; auto. specialize (HE eq_refl). simpl in Hlen, HE. lia.
  - assert (Hnl : x :: lb <> []) by discriminate. assert (Hnr : y :: rb <> []) by discriminate.
    pose proof (Hinv l (x :: lb) Hl Cl Hlb Hsl Hnl) as Hresl.
    pose proof (Hinv r (y :: rb) Hr Cr Hrb Hsr Hnr) as Hresr.
    destruct (upd l (x :: lb)) as [l' dl]. destruct (upd r (y :: rb)) as [r' dr].
    destruct Hresl as (Wl & Cl' & I1l & _). destruct Hresr as (Wr & Cr' & I1r & _).
    apply join_inv; auto. intros Hd. apply orb_false_iff in Hd. destruct Hd as [-> ->].
    destruct (size l') eqn:E1; [specialize (I1l eq_refl); discriminate|].
    destruct (size r') eqn:E2; [specialize (I1r eq_refl); discriminate|]. lia.
Qed.

(** [go] from an empty node or from a canonical interior node *)
Lemma go_inv h upd l r b :
  inv h upd -> wf h l -> wf h r -> canon l -> canon r ->
  ((l = E /\ r = E) \/ 2 <= size l + size r) ->
  keys_len (S h) b -> sorted b -> b <> [] ->
  let '(t', d') := go upd l r b in
  wf (S h) t' /\ canon t' /\ (size t' = 0 -> d' = true) /\
  (d' = false -> size t' = 1 -> (l = E /\ r = E) /\ length b = 1).
Proof.
  intros Hinv Hl Hr Cl Cr Hsz Hb Hs Hne. rewrite go_unfold by assumption.
  assert (Hgen : ~ (l = E /\ r = E /\ length b = 1) ->
    let '(t', d') := go_split upd l r b in
    wf (S h) t' /\ canon t' /\ (size t' = 0 -> d' = true) /\
    (d' = false -> size t' = 1 -> (l = E /\ r = E) /\ length b = 1)).
  { intros Hns. pose proof (go_split_inv h upd l r b Hinv Hl Hr Cl Cr Hsz Hns Hb Hs Hne) as G.
    destruct (go_split upd l r b) as [t' d']. destruct G as (W & C & I1 & I2).
    repeat split; auto; exfalso; eapply I2; eauto. }
  destruct l as [|lk lv|ll lr]; try (apply Hgen; intros [? _]; discriminate).
  destruct r as [|rk rv|rl rr]; try (apply Hgen; intros [_ [? _]]; discriminate).
  destruct b as [|[k1 [v1|]] [|kv2 b2]]; try (apply Hgen; intros [_ [_ ?]]; simpl in *; lia).
  - apply keys_len_cons_inv in Hb. destruct Hb as [Hk _]. simpl in *. repeat split; auto; lia.
  - simpl. repeat split; auto; try lia; congruence.
Qed.

Lemma keys_len0_sorted b : keys_len 0 b -> sorted b -> length b <= 1.
Proof.
  destruct b as [|[k1 o1] [|[k2 o2] b']]; simpl; try lia. intros Hl [Hf _].
  inversion Hl as [|? ? H1 Hl']; subst. inversion Hl' as [|? ? H2 _]; subst. simpl in *.
  destruct k1; [|discriminate]. destruct k2; [|discriminate].
  inversion Hf; subst. simpl in *. discriminate.
Qed.

Theorem update_inv h : inv h (update h).
Proof.
  induction h as [|h IH]; intros t b Hwf Hc Hb Hs Hne.
  - destruct b as [|[k1 ov] b']; [congruence|].
    pose proof (keys_len0_sorted _ Hb Hs) as Hlen.
    apply keys_len_cons_inv in Hb. destruct Hb as [Hk1 _]. simpl in Hk1.
    unfold res_ok. simpl. destruct ov as [v|]; simpl.
    + split; [exact Hk1|]. split; [exact I|]. split; [discriminate|]. intros _ _. split.
      * destruct t as [|? ?|? ?]; simpl in *; try lia; try contradiction.
      * intros _. simpl in Hlen. lia.
    + split; [exact I|]. split; [exact I|]. split; [reflexivity|]. discriminate.
  - destruct t as [|sk sv|l r]; cbn [update].
    + pose proof (go_inv h (update h) E E b IH (wf_E h) (wf_E h) I I (or_introl (conj eq_refl eq_refl)) Hb Hs Hne) as G.
      unfold res_ok. destruct (go (update h) E E b) as [t' d']. destruct G as (W & C & I1 & I2).
      split; [exact W|]. split; [exact C|]. split; [exact I1|]. intros Hd Hsz. split; [simpl; lia|].
      intros _. destruct (I2 Hd Hsz) as [_ ?]. assumption.
    + simpl in Hwf. rewrite (masc_spec sk sv b Hs Hne).
      pose proof (keys_len_add_shortcut (S h) sk sv b Hwf Hb) as Hlen.
      pose proof (sorted_add_shortcut sk sv b Hs) as Hso.
      destruct (add_shortcut sk sv b) as [|x b'] eqn:Ea.
      * unfold res_ok. simpl. split; [exact I|]. split; [exact I|]. split; [reflexivity|]. discriminate.
      * assert (Hn : x :: b' <> []) by discriminate.
        pose proof (go_inv h (update h) E E (x :: b') IH (wf_E h) (wf_E h) I I (or_introl (conj eq_refl eq_refl)) Hlen Hso Hn) as G.
        unfold res_ok. destruct (go (update h) E E (x :: b')) as [t' d']. destruct G as (W & C & I1 & I2).
        split; [exact W|]. split; [exact C|]. split; [exact I1|]. intros Hd Hsz. split; [simpl; lia|]. discriminate.
    + destruct Hwf as [Hl Hr]. destruct Hc as (Hsz & Cl & Cr).
      pose proof (go_inv h (update h) l r b IH Hl Hr Cl Cr (or_intror Hsz) Hb Hs Hne) as G.
      unfold res_ok. destruct (go (update h) l r b) as [t' d']. destruct G as (W & C & I1 & I2).
      split; [exact W|]. split; [exact C|]. split; [exact I1|]. intros Hd Hsz'.
      destruct (I2 Hd Hsz') as [[-> ->] _]. simpl in Hsz. lia.
Qed.

Corollary update_wf h t b : wf h t -> canon t -> keys_len h b -> sorted b -> b <> [] ->
  wf h (trie_update h t b).
Proof.
  intros. pose proof (update_inv h t b) as G. unfold res_ok, trie_update in *.
  destruct (update h t b). simpl. apply G; assumption.
Qed.
Corollary update_canon h t b : wf h t -> canon t -> keys_len h b -> sorted b -> b <> [] ->
  canon (trie_update h t b).
Proof.
  intros. pose proof (update_inv h t b) as G. unfold res_ok, trie_update in *.
  destruct (update h t b). simpl. apply G; assumption.
Qed.

(** ---- canonical trees are determined by their contents ---- *)
Lemma get_size0 t k : size t = 0 -> get t k = None.
Proof.
  revert k; induction t as [|k' v|l IHl r IHr]; intros k; simpl; try discriminate; auto.
  intros H. destruct k as [|[] k]; auto; [apply IHr|apply IHl]; lia.
Qed.

Lemma size_pos_get h t : wf h t -> 1 <= size t -> exists k, length k = h /\ get t k <> None.
Proof.
  revert t; induction h as [|h IH]; intros t Hwf Hs.
  - destruct t; simpl in *; try lia; try contradiction.
    exists k. split; auto. rewrite key_eqb_refl. discriminate.
  - destruct t as [|k v|l r]; simpl in *; try lia.
    + exists k. split; auto. rewrite key_eqb_refl. discriminate.
    + destruct Hwf as [Hl Hr]. destruct (size l) eqn:El.
      * destruct (IH r Hr) as [k [Hk Hg]]; [lia|]. exists (true :: k). simpl. auto.
      * destruct (IH l Hl) as [k [Hk Hg]]; [lia|]. exists (false :: k). simpl. auto.
Qed.

Lemma size2_two_keys h t : wf h t -> canon t -> 2 <= size t ->
  exists k1 k2, k1 <> k2 /\ length k1 = h /\ length k2 = h /\ get t k1 <> None /\ get t k2 <> None.
Proof.
  revert t; induction h as [|h IH]; intros t Hwf Hc Hs.
  - destruct t; simpl in *; try lia; contradiction.
  - destruct t as [|k v|l r]; simpl in *; try lia.
    destruct Hwf as [Hl Hr]. destruct Hc as (_ & Cl & Cr).
    destruct (size l) as [|[|nl]] eqn:El.
    + destruct (IH r Hr Cr) as (k1 & k2 & Hne & H1 & H2 & G1 & G2); [lia|].
      exists (true :: k1), (true :: k2). simpl. repeat split; auto. congruence.
    + destruct (size r) as [|nr] eqn:Er; [lia|].
      destruct (size_pos_get h l Hl) as [k1 [H1 G1]]; [lia|].
      destruct (size_pos_get h r Hr) as [k2 [H2 G2]]; [lia|].
      exists (false :: k1), (true :: k2). simpl. repeat split; auto. discriminate.
    + destruct (IH l Hl Cl) as (k1 & k2 & Hne & H1 & H2 & G1 & G2); [lia|].
      exists (false :: k1), (false :: k2). simpl. repeat split; auto. congruence.
Qed.

Theorem canon_unique h : forall t1 t2 : tree,
  wf h t1 -> wf h t2 -> canon t1 -> canon t2 ->
  (forall k, length k = h -> get t1 k = get t2 k) -> t1 = t2.
Proof.
  induction h as [|h IH]; intros t1 t2 W1 W2 C1 C2 Hg.
  - destruct t1 as [|k1 v1|? ?], t2 as [|k2 v2|? ?]; simpl in *; try contradiction; auto.
    + specialize (Hg k2 W2). simpl in Hg. rewrite key_eqb_refl in Hg. discriminate.
    + specialize (Hg k1 W1). simpl in Hg. rewrite key_eqb_refl in Hg. discriminate.
    + destruct k1; [|discriminate]. destruct k2; [|discriminate].
      specialize (Hg [] eq_refl). simpl in Hg. congruence.
  - assert (HLN : forall k v l r, wf (S h) (Nd l r) -> canon (Nd l r) -> length k = S h ->
              (forall k', length k' = S h -> get (Lf k v) k' = get (Nd l r) k') -> False).
    { intros k v l r W C Hk Hgg.
      destruct (size2_two_keys (S h) (Nd l r) W C) as (k1 & k2 & Hne & H1 & H2 & G1 & G2).
      { simpl in C. simpl. lia. }
      rewrite <- (Hgg k1 H1) in G1. rewrite <- (Hgg k2 H2) in G2. simpl in G1, G2.
      destruct (key_eqb k k1) eqn:E1; [|congruence]. destruct (key_eqb k k2) eqn:E2; [|congruence].
      apply key_eqb_eq in E1, E2. congruence. }
    assert (HEN : forall l r, wf (S h) (Nd l r) -> canon (Nd l r) ->
              (forall k', length k' = S h -> None = get (Nd l r) k') -> False).
    { intros l r W C Hgg. destruct (size_pos_get (S h) (Nd l r) W) as [k [Hk G]].
      { simpl in C. simpl. lia. }
      rewrite <- (Hgg k Hk) in G. congruence. }
    destruct t1 as [|k1 v1|l1 r1], t2 as [|k2 v2|l2 r2]; auto.
    + simpl in W2. specialize (Hg k2 W2). simpl in Hg. rewrite key_eqb_refl in Hg. discriminate.
    + exfalso. apply (HEN l2 r2 W2 C2). intros k' Hk'. rewrite <- (Hg k' Hk'). reflexivity.
    + simpl in W1. specialize (Hg k1 W1). simpl in Hg. rewrite key_eqb_refl in Hg. discriminate.
    + simpl in W1, W2. pose proof (Hg k1 W1) as G. simpl in G. rewrite key_eqb_refl in G.
      destruct (key_eqb k2 k1) eqn:E; [|discriminate]. apply key_eqb_eq in E. congruence.
    + exfalso. simpl in W1. apply (HLN k1 v1 l2 r2 W2 C2 W1). exact Hg.
    + exfalso. apply (HEN l1 r1 W1 C1). intros k' Hk'. rewrite (Hg k' Hk'). reflexivity.
    + exfalso. simpl in W2. apply (HLN k2 v2 l1 r1 W1 C1 W2). intros k' Hk'. symmetry. apply Hg, Hk'.
    + destruct W1 as [Wl1 Wr1]. destruct W2 as [Wl2 Wr2].
      destruct C1 as (_ & Cl1 & Cr1). destruct C2 as (_ & Cl2 & Cr2).
      f_equal.
      * apply IH; auto. intros k Hk. apply (Hg (false :: k)). simpl. auto.
      * apply IH; auto. intros k Hk. apply (Hg (true :: k)). simpl. auto.
Qed.

End C.

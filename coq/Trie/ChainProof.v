(** C11, chain level (chain/chainservice.go: ChainWorker.Receive, getAccProof,
    getAddressNameResolved): the node resolves the requested account (an address, or a
    12-character name looked up in the name contract) to an address, proves the trie key
    [akey address] against the requested root and labels the proof with [Key := address].  A
    light client derives the trie key from the proof's own Key field.

    [resolve] is the name resolution (an arbitrary function here), [akey] the account id of an
    address as 256 key bits (types.ToAccountID = the hash of the address). *)
From Coq Require Import List Bool Arith NArith Lia.
From Verif Require Import Trie.Model Trie.Basics Trie.HashBind Trie.Proof Trie.ProofBasics Trie.ProofSound
  Trie.ProofTop Trie.ProofComplete.
Import ListNotations.

Section Chain.
Variable H : bytes -> bytes.
Variable resolve : bytes -> bytes.
Variable akey : bytes -> key.
Hypothesis akey_len : forall a, length (akey a) = 256.

(** what the node answers: (Key label, inclusion flag, proved value, audit path, proofKey, proofVal) *)
Definition node_account_proof (t : tree bytes) (account : bytes)
  : bytes * (list bytes * bool * bytes * bytes) :=
  let address := resolve account in (address, mproof H 256 [] t (akey address)).

(** the light client's check against the state root it trusts; [value] is the hash of the
    state that came with the proof (only used for inclusion) *)
Definition client_check (root : bytes) (ans : bytes * (list bytes * bool * bytes * bytes)) (value : bytes) : bool :=
  let '(label, (mp, inc, pk, pv)) := ans in
  let key := bits_to_bytes (akey label) in
  if inc then verify_inclusion H root mp key value
  else verify_non_inclusion H root mp key pv pk.

(** every proof the node returns verifies against the root it names, whatever the account was
    asked by (address or name), for every non-empty account trie *)
Theorem chain_account_proof_complete t account :
  wf 256 t -> t <> E ->
  let ans := node_account_proof t account in
  match get t (akey (resolve account)) with
  | Some v => snd (fst (fst (snd ans))) = true /\ client_check (root H 256 t) ans v = true
  | None => snd (fst (fst (snd ans))) = false /\ forall v, client_check (root H 256 t) ans v = true
  end.
Proof.
  intros W Hne. cbv zeta. unfold node_account_proof, client_check.
  set (address := resolve account).
  destruct (mproof H 256 [] t (akey address)) as [[[mp inc] pk] pv] eqn:Em. simpl fst. simpl snd.
  destruct (get t (akey address)) as [v|] eqn:Eg.
  - destruct (proof_complete_present H t (akey address) v mp inc pk pv W (akey_len address) Eg Em) as (-> & -> & Hv).
    split; [reflexivity|exact Hv].
  - destruct (proof_complete_absent H t (akey address) mp inc pk pv W Hne (akey_len address) Eg Em) as (-> & Hv).
    split; [reflexivity|]. intros v. exact Hv.
Qed.

End Chain.

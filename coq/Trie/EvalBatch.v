(** Kernel-side (vm_compute) evaluation of the batch-storage model on a sample of the C10
    cases: roots computed through [trie_update_b] + [commit_store] must equal the roots the
    real trie reported, and [abs_batch_store] must read back the tree model's tree. *)
From Coq Require Import List Bool NArith.
From Verif Require Import Trie.Model Trie.ToyHash Trie.Eval Trie.Proof Trie.BatchModel.
Import ListNotations.

Fixpoint tree_eqb (a b : tree bytes) : bool :=
  match a, b with
  | E, E => true
  | Lf k1 v1, Lf k2 v2 => key_eqb k1 k2 && bytes_eqb v1 v2
  | Nd l1 r1, Nd l2 r2 => tree_eqb l1 l2 && tree_eqb r1 r2
  | _, _ => false
  end.

(** all batches committed one by one; [t] is the tree model's tree before the batch *)
Fixpoint run_b (st : store) (rt : bytes) (t : tree bytes) (bs : list (list kvb)) (obs : list bytes) : bool :=
  match bs, obs with
  | [], [] => true
  | b :: bs', r :: obs' =>
      let t' := trie_update TH t (to_batch b) in
      match trie_update_b toy_hash false 257 st rt (to_batch b) with
      | None => false
      | Some (st', rt') =>
          bytes_eqb rt' r &&
          (match abs_batch_store st' rt' with Some t'' => tree_eqb t'' t' | None => false end) &&
          run_b (commit_store st') rt' t' bs' obs'
      end
  | _, _ => false
  end.

Definition c10b_case := (list (list kvb) * list bytes)%type.
Definition c10b_case_ok (c : c10b_case) : bool := run_b {| db := []; upd := []; cache := [] |} [] E (fst c) (snd c).
Definition c10b_mismatches (l : list c10b_case) : list nat := mismatches_from c10b_case_ok l 0.

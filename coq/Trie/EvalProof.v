(** Kernel-side (vm_compute) evaluation helpers for the C11 correspondence: the model's proof
    of a key against the tree reached by a batch sequence must equal the real proof, and the
    model verifier must accept it (the bulk of the comparison goes through the extracted
    model; this keeps a sample inside Coq). *)
From Coq Require Import List Bool NArith.
From Verif Require Import Trie.Model Trie.ToyHash Trie.Eval Trie.Proof.
Import ListNotations.

(** batches, key, real (audit path, included, proofKey, proofVal) *)
Definition c11_case := ((list (list kvb) * bytes) * (list bytes * bool * bytes * bytes))%type.

Definition c11_case_ok (c : c11_case) : bool :=
  let '((bs, k), (ap, inc, pk, pv)) := c in
  let t := last (run_batches E bs) E in
  let '(mp, i, p, v) := mproof toy_hash TH [] t (bytes_to_bits k) in
  let r := root toy_hash TH t in
  list_eqb bytes_eqb mp ap && Bool.eqb i inc && bytes_eqb p pk && bytes_eqb v pv &&
  (if inc then verify_inclusion toy_hash r mp k pv
   else match t with E => true | _ => verify_non_inclusion toy_hash r mp k pv pk end) &&
  (let '(bm, apc, n) := compress mp in
   if inc then verify_inclusion_c toy_hash r bm k pv apc n
   else match t with E => true | _ => verify_non_inclusion_c toy_hash r apc n bm k pv pk end).

Definition c11_mismatches (l : list c11_case) : list nat := mismatches_from c11_case_ok l 0.

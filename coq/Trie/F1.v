(** F1, for the record: the maybeAddShortcutToKV loop as it was BEFORE the repair (no
    [break] after removing a deleted shortcut key) and the witness that it is not the
    abstract merge: for a shortcut key s and the sorted batch [a; s := DefaultLeaf; b],
    a < s < b, it returns keys [a; b; a; s; s; b].  The repaired loop is [Model.masc];
    [Masc.masc_spec] proves it equal to [add_shortcut] on every sorted batch. *)
From Coq Require Import List Bool.
From Verif Require Import Trie.Model Trie.Basics Trie.Masc.
Import ListNotations.

Section Old.
Context {val : Type}.

(** [acc] = newKeys/newVals accumulated so far *)
Fixpoint masc_loop_old (sk : key) (sv : val) (orig acc pre rest : batch val) (higher : bool) : batch val :=
  match rest with
  | [] => acc
  | (k, ov) :: tl =>
      if key_eqb sk k then
        match ov with
        | Some _ => orig
        | None => masc_loop_old sk sv orig (acc ++ rev_append pre tl) ((k, ov) :: pre) tl higher
        end
      else if negb higher && kgt sk k then masc_loop_old sk sv orig acc ((k, ov) :: pre) tl true
      else if higher && klt sk k then acc ++ rev_append pre ((sk, Some sv) :: rest)
      else masc_loop_old sk sv orig acc ((k, ov) :: pre) tl higher
  end.

Definition masc_old (sk : key) (sv : val) (b : batch val) : batch val :=
  match b with
  | [] => []
  | (k0, _) :: _ =>
      if klt sk k0 then (sk, Some sv) :: b
      else if kgt sk (fst (last b (k0, None))) then b ++ [(sk, Some sv)]
      else masc_loop_old sk sv b [] [] b false
  end.
End Old.

Example f1_witness :
  let a := [false; true] in let s := [true; false] in let b := [true; true] in
  let batch : batch nat := [(a, Some 1); (s, None); (b, Some 3)] in
  sorted batch /\
  masc_old s 7 batch = [(a, Some 1); (b, Some 3); (a, Some 1); (s, None); (s, Some 7); (b, Some 3)] /\
  masc s 7 batch = [(a, Some 1); (b, Some 3)] /\
  add_shortcut s 7 batch = [(a, Some 1); (b, Some 3)].
Proof. cbv zeta. split; [repeat constructor|]. repeat split. Qed.

(** Map semantics of [update]: Get after Update = the batch overriding the old contents. *)
From Coq Require Import List Bool Arith Lia.
From Verif Require Import Trie.Model.
From Verif Require Import Trie.Basics Trie.Masc.
Import ListNotations.

Section G.
Context {val : Type}.
Notation tree := (tree val).
Notation batch := (batch val).
Implicit Types (t l r : tree) (b : batch).

Lemma get_join l r d bit k :
  get (fst (join l r d)) (bit :: k) = if bit then get r k else get l k.
Proof.
  unfold join. destruct d; [|reflexivity].
  destruct l as [|lk lv|ll lr], r as [|rk rv|rl rr]; simpl; try reflexivity;
    destruct bit; simpl; reflexivity.
Qed.

Definition upd_ok (h : nat) (upd : tree -> batch -> tree * bool) : Prop :=
  forall t b k, wf h t -> keys_len h b -> sorted b -> b <> [] -> length k = h ->
    get (fst (upd t b)) k = override b (get t) k.

(** the general (split) branch of [go], with [split_keys] already rewritten to [part] *)
Definition go_split (upd : tree -> batch -> tree * bool) l r b : tree * bool :=
  match part false b, part true b with
  | [], [] => (E, true)
  | [], rb => let '(r', d) := upd r rb in join l r' d
  | lb, [] => let '(l', d) := upd l lb in join l' r d
  | lb, rb => let '(l', dl) := upd l lb in
              let '(r', dr) := upd r rb in join l' r' (dl || dr)
  end.

Lemma go_unfold upd l r b : sorted b ->
  go upd l r b =
  match l, r, b with
  | E, E, [(k, Some v)] => (Lf k v, false)
  | E, E, [(k, None)] => (E, true)
  | _, _, _ => go_split upd l r b
  end.
Proof.
  intros Hs. unfold go, go_split. rewrite (split_keys_sorted b Hs). fold (part false b) (part true b).
  set (lb := part false b). set (rb := part true b).
  destruct l, r; try (destruct lb, rb; reflexivity).
Qed.

Lemma go_split_ok h upd l r b bit k :
  upd_ok h upd -> wf h l -> wf h r -> keys_len (S h) b -> sorted b -> b <> [] -> length k = h ->
  get (fst (go_split upd l r b)) (bit :: k) = override b (get (Nd l r)) (bit :: k).
Proof.
  intros Hupd Hl Hr Hb Hs Hne Hk. unfold go_split.
  pose proof (keys_len_part false b h Hb) as Hlb.
  pose proof (keys_len_part true b h Hb) as Hrb.
  pose proof (sorted_part false b h Hb Hs) as Hsl.
  pose proof (sorted_part true b h Hb Hs) as Hsr.
  unfold override. rewrite <- (blookup_part_eq bit b k h Hb).
  destruct (part false b) as [|x lb] eqn:El; destruct (part true b) as [|y rb] eqn:Er.
  - exfalso. apply Hne. eapply part_both_nil; eauto.
  - destruct (upd r (y :: rb)) as [r' d] eqn:Eu.
    rewrite get_join. destruct bit.
    + rewrite Er. change r' with (fst (r', d)). rewrite <- Eu.
      rewrite (Hupd r (y :: rb) k Hr Hrb Hsr); [reflexivity|congruence|assumption].
    + rewrite El. reflexivity.
  - destruct (upd l (x :: lb)) as [l' d] eqn:Eu.
    rewrite get_join. destruct bit.
    + rewrite Er. reflexivity.
    + rewrite El. change l' with (fst (l', d)). rewrite <- Eu.
      rewrite (Hupd l (x :: lb) k Hl Hlb Hsl); [reflexivity|congruence|assumption].
  - destruct (upd l (x :: lb)) as [l' dl] eqn:Eul.
    destruct (upd r (y :: rb)) as [r' dr] eqn:Eur.
    rewrite get_join. destruct bit.
    + rewrite Er. change r' with (fst (r', dr)). rewrite <- Eur.
      rewrite (Hupd r (y :: rb) k Hr Hrb Hsr); [reflexivity|congruence|assumption].
    + rewrite El. change l' with (fst (l', dl)). rewrite <- Eul.
      rewrite (Hupd l (x :: lb) k Hl Hlb Hsl); [reflexivity|congruence|assumption].
Qed.

Lemma go_ok h upd l r b bit k :
  upd_ok h upd -> wf h l -> wf h r -> keys_len (S h) b -> sorted b -> b <> [] -> length k = h ->
  get (fst (go upd l r b)) (bit :: k) = override b (get (Nd l r)) (bit :: k).
Proof.
  intros Hupd Hl Hr Hb Hs Hne Hk. rewrite go_unfold by assumption.
  destruct l as [|lk lv|ll lr]; try (apply (go_split_ok h); assumption).
  destruct r as [|rk rv|rl rr]; try (apply (go_split_ok h); assumption).
  destruct b as [|[k1 [v1|]] [|kv2 b2]]; try (apply (go_split_ok h); assumption).
  - unfold override. simpl. destruct (key_eqb k1 (bit :: k)); [reflexivity|]. destruct bit; reflexivity.
  - unfold override. simpl. destruct (key_eqb k1 (bit :: k)); [reflexivity|]. destruct bit; reflexivity.
Qed.

Lemma wf_E h : wf h (@E val).
Proof. destruct h; exact I. Qed.

Theorem get_update h : upd_ok h (update h).
Proof.
  induction h as [|h IH]; intros t b k Hwf Hb Hs Hne Hk.
  - destruct k; [|discriminate]. destruct b as [|[k1 ov] b']; [congruence|].
    inversion Hb as [|? ? Hk1 _]; subst. simpl in Hk1. destruct k1; [|discriminate].
    unfold override; simpl. destruct ov; reflexivity.
  - destruct k as [|bit k]; [discriminate|]. simpl in Hk. injection Hk as Hk.
    destruct t as [|sk sv|l r]; cbn [update].
    + rewrite (go_ok h (update h) E E b bit k IH (wf_E h) (wf_E h) Hb Hs Hne Hk). unfold override.
      destruct (blookup b (bit :: k)); [reflexivity|]. destruct bit; reflexivity.
    + simpl in Hwf. rewrite (masc_spec sk sv b Hs Hne).
      pose proof (add_shortcut_spec sk sv b (bit :: k)) as Hsp.
      pose proof (keys_len_add_shortcut (S h) sk sv b Hwf Hb) as Hlen.
      pose proof (sorted_add_shortcut sk sv b Hs) as Hso.
      destruct (add_shortcut sk sv b) as [|x b'] eqn:Ea.
      * rewrite <- Hsp. reflexivity.
      * rewrite (go_ok h (update h) E E (x :: b') bit k IH (wf_E h) (wf_E h) Hlen Hso); [|congruence|assumption].
        rewrite <- Hsp. unfold override. destruct (blookup (x :: b') (bit :: k)); [reflexivity|].
        destruct bit; reflexivity.
    + destruct Hwf as [Hl Hr]. apply (go_ok h); assumption.
Qed.

End G.

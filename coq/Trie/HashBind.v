(** The root binds the tree (hence, with Canon/History, the map): two well-formed trees with
    the same root are equal unless the hash function is broken.  No injectivity assumption:
    the conclusion carries an explicit [hash_break H] disjunct, which is a collision or a
    "DefaultLeaf shift pair" (H x = 0 :: z and H y = z ++ [0]): interiorHash places the
    1-byte DefaultLeaf on the left or on the right of a 32-byte child hash without any
    separator, so such a pair would make H(Default ‖ H y) and H(H x ‖ Default) coincide. *)
From Coq Require Import List Bool Arith NArith Lia.
From Verif Require Import Trie.Model Trie.Basics.
Import ListNotations.

(** ---- bits <-> bytes ---- *)
Lemma byte_bits_pack b7 b6 b5 b4 b3 b2 b1 b0 :
  byte_bits (bit_n b7 128 + bit_n b6 64 + bit_n b5 32 + bit_n b4 16 +
             bit_n b3 8 + bit_n b2 4 + bit_n b1 2 + bit_n b0 1)%N = [b7; b6; b5; b4; b3; b2; b1; b0].
Proof. destruct b7, b6, b5, b4, b3, b2, b1, b0; reflexivity. Qed.

Lemma bits_bytes_inv m : forall l, length l = 8 * m ->
  bytes_to_bits (bits_to_bytes l) = l /\ length (bits_to_bytes l) = m.
Proof.
  induction m as [|m IH]; intros l Hl.
  - destruct l; [auto|simpl in Hl; lia].
  - rewrite Nat.mul_succ_r in Hl.
    destruct l as [|b7 [|b6 [|b5 [|b4 [|b3 [|b2 [|b1 [|b0 tl]]]]]]]]; simpl in Hl; try lia.
    assert (Htl : length tl = 8 * m) by lia. destruct (IH tl Htl) as [I1 I2].
    cbn [bits_to_bytes bytes_to_bits length]. rewrite byte_bits_pack, I1, I2. auto.
Qed.

Lemma bits_to_bytes_inj m l1 l2 : length l1 = 8 * m -> length l2 = 8 * m ->
  bits_to_bytes l1 = bits_to_bytes l2 -> l1 = l2.
Proof.
  intros H1 H2 E. destruct (bits_bytes_inv m l1 H1) as [<- _].
  destruct (bits_bytes_inv m l2 H2) as [<- _]. rewrite E. reflexivity.
Qed.

Lemma app_eq_len {A} (a a' b b' : list A) : length a = length a' -> a ++ b = a' ++ b' -> a = a' /\ b = b'.
Proof.
  revert a'; induction a as [|x a IH]; intros [|y a'] Hl E; simpl in *; try discriminate; auto.
  inversion E; subst. destruct (IH a') as [-> ->]; auto.
Qed.

(** ---- hash breaks ---- *)
Definition collision (H : bytes -> bytes) : Prop := exists x y, x <> y /\ H x = H y.
Definition shift_pair (H : bytes -> bytes) : Prop :=
  exists x y z, H x = 0%N :: z /\ H y = z ++ [0%N].
Definition hash_break (H : bytes -> bytes) : Prop := collision H \/ shift_pair H.

Fixpoint vals32 (t : tree bytes) : Prop :=
  match t with
  | E => True
  | Lf _ v => length v = 32
  | Nd l r => vals32 l /\ vals32 r
  end.

Definition bytes_eq_dec : forall a b : bytes, {a = b} + {a <> b} := list_eq_dec N.eq_dec.

Section HB.
Variable H : bytes -> bytes.
Hypothesis Hlen : forall x, length (H x) = 32.

Lemma th_shape h rp t :
  (t = E /\ th H h rp t = [0%N]) \/ (t <> E /\ exists p, th H h rp t = H p).
Proof.
  destruct t; [left; auto|right|right]; (split; [discriminate|]); simpl; eexists; reflexivity.
Qed.

Lemma th_len h rp t : length (th H h rp t) = 1 \/ length (th H h rp t) = 32.
Proof. destruct t; simpl; auto. Qed.

Lemma shift_from p q : 0%N :: H q = H p ++ [0%N] -> shift_pair H.
Proof.
  intros E. destruct (H p) as [|x z] eqn:Ep.
  - pose proof (Hlen p) as L. rewrite Ep in L. discriminate.
  - simpl in E. inversion E; subst. exists p, q, z. auto.
Qed.

(** two pairs of child hashes with the same concatenation *)
Lemma children_eq h rp l1 r1 l2 r2 :
  th H h (false :: rp) l1 ++ th H h (true :: rp) r1 = th H h (false :: rp) l2 ++ th H h (true :: rp) r2 ->
  (th H h (false :: rp) l1 = th H h (false :: rp) l2 /\ th H h (true :: rp) r1 = th H h (true :: rp) r2)
  \/ shift_pair H.
Proof.
  intros E.
  destruct (Nat.eq_dec (length (th H h (false :: rp) l1)) (length (th H h (false :: rp) l2))) as [El|El].
  - left. apply app_eq_len; assumption.
  - right. pose proof (f_equal (@length _) E) as EL. rewrite !app_length in EL.
    destruct (th_shape h (false :: rp) l1) as [[-> A1]|[_ [p1 A1]]];
    destruct (th_shape h (false :: rp) l2) as [[-> A2]|[_ [p2 A2]]];
    destruct (th_shape h (true :: rp) r1) as [[-> B1]|[_ [q1 B1]]];
    destruct (th_shape h (true :: rp) r2) as [[-> B2]|[_ [q2 B2]]];
    rewrite ?A1, ?A2, ?B1, ?B2 in *; simpl in EL, El; repeat rewrite Hlen in EL; repeat rewrite Hlen in El;
    simpl in EL, El; try lia;
    simpl in E; first [ eapply shift_from; exact E | eapply shift_from; symmetry; exact E ].
Qed.

Theorem th_inj : forall t1 h rp t2,
  length rp + h = 256 -> wf h t1 -> wf h t2 -> vals32 t1 -> vals32 t2 ->
  th H h rp t1 = th H h rp t2 -> t1 = t2 \/ hash_break H.
Proof.
  induction t1 as [|k1 v1|l1 IHl r1 IHr]; intros h rp t2 Hh W1 W2 V1 V2 E.
  - destruct t2; [left; reflexivity| |]; simpl in E; pose proof (f_equal (@length _) E) as L;
      simpl in L; rewrite Hlen in L; discriminate.
  - destruct t2 as [|k2 v2|l2 r2]; simpl in E.
    + pose proof (f_equal (@length _) E) as L. simpl in L. rewrite Hlen in L. discriminate.
    + match type of E with H ?p1 = H ?p2 => destruct (bytes_eq_dec p1 p2) as [Ep|Ep] end.
      * left. simpl in W1, W2.
        assert (L1 : length (rev_append rp k1) = 8 * 32) by (rewrite rev_append_rev, app_length, rev_length; lia).
        assert (L2 : length (rev_append rp k2) = 8 * 32) by (rewrite rev_append_rev, app_length, rev_length; lia).
        apply app_eq_len in Ep.
        2:{ destruct (bits_bytes_inv 32 _ L1) as [_ ->]. destruct (bits_bytes_inv 32 _ L2) as [_ ->]. reflexivity. }
        destruct Ep as [Ek Ev]. apply (bits_to_bytes_inj 32) in Ek; auto.
        rewrite !rev_append_rev in Ek. apply app_inv_head in Ek. apply app_inj_tail in Ev.
        destruct Ev as [-> _]. subst. reflexivity.
      * right. left. eexists; eexists; split; [exact Ep|exact E].
    + right. left. match type of E with H ?p1 = H ?p2 => exists p1, p2 end. split; [|exact E].
      intros Ep. apply (f_equal (@length _)) in Ep. rewrite !app_length in Ep. simpl in Ep, W1, V1.
      assert (L1 : length (rev_append rp k1) = 8 * 32) by (rewrite rev_append_rev, app_length, rev_length; lia).
      destruct (bits_bytes_inv 32 _ L1) as [_ Lb]. rewrite Lb, V1 in Ep.
      destruct (th_len (pred h) (false :: rp) l2) as [A|A]; destruct (th_len (pred h) (true :: rp) r2) as [B|B];
        rewrite A, B in Ep; lia.
  - destruct t2 as [|k2 v2|l2 r2]; simpl in E.
    + pose proof (f_equal (@length _) E) as L. simpl in L. rewrite Hlen in L. discriminate.
    + right. left. match type of E with H ?p1 = H ?p2 => exists p1, p2 end. split; [|exact E].
      intros Ep. apply (f_equal (@length _)) in Ep. rewrite !app_length in Ep. simpl in Ep, W2, V2.
      assert (L2 : length (rev_append rp k2) = 8 * 32) by (rewrite rev_append_rev, app_length, rev_length; lia).
      destruct (bits_bytes_inv 32 _ L2) as [_ Lb]. rewrite Lb, V2 in Ep.
      destruct (th_len (pred h) (false :: rp) l1) as [A|A]; destruct (th_len (pred h) (true :: rp) r1) as [B|B];
        rewrite A, B in Ep; lia.
    + destruct h as [|h']; [simpl in W1; contradiction|]. simpl in W1, W2, V1, V2, E.
      destruct W1 as [Wl1 Wr1]. destruct W2 as [Wl2 Wr2]. destruct V1 as [Vl1 Vr1]. destruct V2 as [Vl2 Vr2].
      match type of E with H ?p1 = H ?p2 => destruct (bytes_eq_dec p1 p2) as [Ep|Ep] end.
      * destruct (children_eq h' rp l1 r1 l2 r2 Ep) as [[El Er]|Hs]; [|right; right; exact Hs].
        destruct (IHl h' (false :: rp) l2) as [->|Hb]; auto; [simpl; lia|].
        destruct (IHr h' (true :: rp) r2) as [->|Hb]; auto. simpl; lia.
      * right. left. eexists; eexists; split; [exact Ep|exact E].
Qed.

(** Trie.Root binds the tree *)
Theorem root_binding t1 t2 :
  wf 256 t1 -> wf 256 t2 -> vals32 t1 -> vals32 t2 ->
  root H 256 t1 = root H 256 t2 -> t1 = t2 \/ hash_break H.
Proof.
  intros W1 W2 V1 V2 E.
  assert (Hne : forall t, t <> Model.E -> length (root H 256 t) = 32).
  { intros t Ht. destruct t; [congruence| |]; simpl; apply Hlen. }
  destruct t1 as [|k1 v1|l1 r1] eqn:E1.
  - destruct t2 as [|k2 v2|l2 r2] eqn:E2; [left; reflexivity| |];
      exfalso; simpl in E; apply (f_equal (@length _)) in E; simpl in E; rewrite Hlen in E; discriminate.
  - destruct t2 as [|k2 v2|l2 r2] eqn:E2.
    + exfalso. simpl in E. apply (f_equal (@length _)) in E. simpl in E. rewrite Hlen in E. discriminate.
    + unfold root in E. apply (th_inj _ 256 [] _); auto.
    + unfold root in E. apply (th_inj _ 256 [] _); auto.
  - destruct t2 as [|k2 v2|l2 r2] eqn:E2.
    + exfalso. simpl in E. apply (f_equal (@length _)) in E. simpl in E. rewrite Hlen in E. discriminate.
    + unfold root in E. apply (th_inj _ 256 [] _); auto.
    + unfold root in E. apply (th_inj _ 256 [] _); auto.
Qed.

End HB.

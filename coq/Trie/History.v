(** Map semantics over whole histories and history independence of the tree (hence of the
    root, for every hash function). *)
From Coq Require Import List Bool Arith Lia.
From Verif Require Import Trie.Model Trie.Basics Trie.Masc Trie.GetUpdate Trie.Canon.
Import ListNotations.

Section Hst.
Context {val : Type}.
Notation tree := (tree val).
Notation batch := (batch val).
Implicit Types (t : tree) (b : batch).

(** a batch as the node issues it: keys of the trie's length, strictly sorted, non-empty *)
Definition good_batch (h : nat) b : Prop := keys_len h b /\ sorted b /\ b <> [].

(** the tree after a sequence of Update calls *)
Fixpoint run_from (h : nat) t (bs : list batch) : tree :=
  match bs with
  | [] => t
  | b :: tl => run_from h (trie_update h t b) tl
  end.
Definition run (h : nat) (bs : list batch) : tree := run_from h E bs.

(** the plain map after the same sequence *)
Fixpoint map_from (f : key -> option val) (bs : list batch) : key -> option val :=
  match bs with
  | [] => f
  | b :: tl => map_from (override b f) tl
  end.
Definition map_of (bs : list batch) : key -> option val := map_from (fun _ => None) bs.

Lemma map_from_ext f g bs k : (forall k', length k' = length k -> f k' = g k') ->
  map_from f bs k = map_from g bs k.
Proof.
  revert f g; induction bs as [|b bs IH]; intros f g Hfg; simpl; [apply Hfg; reflexivity|].
  apply IH. intros k' Hk'. unfold override. destruct (blookup b k'); auto.
Qed.

(** Update yields the unique canonical well-formed tree holding the overridden contents *)
Theorem update_characterised h t b t' :
  wf h t -> canon t -> good_batch h b ->
  wf h t' -> canon t' -> (forall k, length k = h -> get t' k = override b (get t) k) ->
  trie_update h t b = t'.
Proof.
  intros W C (Hl & Hs & Hne) W' C' Hg.
  apply (canon_unique h); auto.
  - apply update_wf; assumption.
  - apply update_canon; assumption.
  - intros k Hk. rewrite (Hg k Hk). apply get_update; assumption.
Qed.

Lemma run_from_inv h bs : forall t, wf h t -> canon t -> Forall (good_batch h) bs ->
  wf h (run_from h t bs) /\ canon (run_from h t bs) /\
  forall k, length k = h -> get (run_from h t bs) k = map_from (get t) bs k.
Proof.
  induction bs as [|b bs IH]; intros t W C Hb; simpl; [auto|].
  inversion Hb as [|? ? (Hl & Hs & Hne) Hb']; subst.
  destruct (IH (trie_update h t b)) as (W' & C' & G'); auto.
  - apply update_wf; assumption.
  - apply update_canon; assumption.
  - repeat split; auto. intros k Hk. rewrite (G' k Hk). apply map_from_ext.
    intros k' Hk'. apply get_update; auto. congruence.
Qed.

(** reading a key after any history returns the value last written, None if deleted/never written *)
Theorem get_after_history h bs k : Forall (good_batch h) bs -> length k = h ->
  get (run h bs) k = map_of bs k.
Proof.
  intros Hb Hk. destruct (run_from_inv h bs E (wf_E h) I Hb) as (_ & _ & G).
  unfold run, map_of. rewrite (G k Hk). apply map_from_ext. intros. reflexivity.
Qed.

(** history independence: equal resulting maps give the same tree, whatever the batching,
    the order or the interleaved deletions *)
Theorem history_independent h bs1 bs2 :
  Forall (good_batch h) bs1 -> Forall (good_batch h) bs2 ->
  (forall k, length k = h -> map_of bs1 k = map_of bs2 k) ->
  run h bs1 = run h bs2.
Proof.
  intros H1 H2 Hm.
  destruct (run_from_inv h bs1 E (wf_E h) I H1) as (W1 & C1 & _).
  destruct (run_from_inv h bs2 E (wf_E h) I H2) as (W2 & C2 & _).
  apply (canon_unique h); auto.
  intros k Hk. rewrite !get_after_history by assumption. apply Hm, Hk.
Qed.

(** ... also from any reachable starting tree *)
Theorem history_independent_from h t bs1 bs2 :
  wf h t -> canon t -> Forall (good_batch h) bs1 -> Forall (good_batch h) bs2 ->
  (forall k, length k = h -> map_from (get t) bs1 k = map_from (get t) bs2 k) ->
  run_from h t bs1 = run_from h t bs2.
Proof.
  intros W C H1 H2 Hm.
  destruct (run_from_inv h bs1 t W C H1) as (W1 & C1 & G1).
  destruct (run_from_inv h bs2 t W C H2) as (W2 & C2 & G2).
  apply (canon_unique h); auto.
  intros k Hk. rewrite G1, G2 by assumption. apply Hm, Hk.
Qed.

(** deleting keys that are absent changes nothing *)
Theorem delete_absent_id h t b :
  wf h t -> canon t -> good_batch h b ->
  (forall k ov, In (k, ov) b -> ov = None /\ get t k = None) ->
  trie_update h t b = t.
Proof.
  intros W C Hb Hd. apply update_characterised; auto.
  intros k Hk. unfold override. destruct (blookup b k) as [ov|] eqn:E; [|reflexivity].
  apply blookup_some_in in E. destruct (Hd _ _ E) as [-> ->]. reflexivity.
Qed.

(** every reachable tree is well formed and canonical *)
Theorem reachable_canon h bs : Forall (good_batch h) bs -> wf h (run h bs) /\ canon (run h bs).
Proof. intros Hb. destruct (run_from_inv h bs E (wf_E h) I Hb) as (W & C & _). auto. Qed.

End Hst.

(** the root depends only on the resulting map: for every hash function, no collision
    caveat (equal trees have equal hashes) *)
Theorem root_history_independent (H : bytes -> bytes) h (bs1 bs2 : list (batch bytes)) :
  Forall (good_batch h) bs1 -> Forall (good_batch h) bs2 ->
  (forall k, length k = h -> map_of bs1 k = map_of bs2 k) ->
  root H h (run h bs1) = root H h (run h bs2).
Proof. intros. f_equal. apply history_independent; assumption. Qed.

(** satisfiability of the hypotheses: a two-batch history with a delete between inserts *)
Example history_example :
  let k1 := [false; true] in let k2 := [true; false] in let k3 := [true; true] in
  let bs1 : list (batch nat) := [[(k2, Some 7)]; [(k1, Some 1); (k2, None); (k3, Some 3)]] in
  let bs2 : list (batch nat) := [[(k1, Some 1); (k3, Some 3)]] in
  Forall (good_batch 2) bs1 /\ Forall (good_batch 2) bs2 /\ run 2 bs1 = run 2 bs2 /\
  run 2 bs1 = Nd (Lf [true] 1) (Lf [true] 3).
Proof.
  cbv zeta. split; [|split; [|split]].
  - repeat constructor; discriminate.
  - repeat constructor; discriminate.
  - reflexivity.
  - reflexivity.
Qed.

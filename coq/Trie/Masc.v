(** maybeAddShortcutToKV (literal loop, Model.masc) equals the abstract "merge the shortcut
    pair into the batch" on strictly sorted non-empty batches. *)
From Coq Require Import List Bool Arith Lia.
From Verif Require Import Trie.Model.
From Verif Require Import Trie.Basics.
Import ListNotations.

Section M.
Context {val : Type}.
Notation batch := (batch val).
Implicit Types b : batch.

Fixpoint ins (x : key * option val) b : batch :=
  match b with
  | [] => [x]
  | y :: tl => if klt (fst x) (fst y) then x :: b else y :: ins x tl
  end.
Definition remove_key (k : key) b : batch := filter (fun kv => negb (key_eqb (fst kv) k)) b.

(** abstract maybeAddShortcutToKV: the shortcut pair is added unless the batch already
    writes that key; a batch entry deleting the shortcut key is dropped *)
Definition add_shortcut (k : key) (v : val) b : batch :=
  match blookup b k with
  | None => ins (k, Some v) b
  | Some (Some _) => b
  | Some None => remove_key k b
  end.

Lemma remove_key_all_gt k b : Forall (fun y => klt k (fst y) = true) b -> remove_key k b = b.
Proof.
  induction b as [|y b IH]; simpl; [reflexivity|]. intros H. inversion H; subst.
  destruct (key_eqb (fst y) k) eqn:E.
  - apply key_eqb_eq in E. rewrite E, klt_irrefl in H2. discriminate.
  - simpl. f_equal. auto.
Qed.

Lemma blookup_all_gt k b : Forall (fun y => klt k (fst y) = true) b -> blookup b k = None.
Proof.
  intros H. apply blookup_not_in. intros kv Hin. rewrite Forall_forall in H.
  specialize (H _ Hin). intros Heq. rewrite Heq, klt_irrefl in H. discriminate.
Qed.

Lemma Forall_klt_trans (k k' : key) b :
  klt k k' = true -> Forall (fun y : key * option val => klt k' (fst y) = true) b ->
  Forall (fun y => klt k (fst y) = true) b.
Proof. intros Hk H. eapply Forall_impl; [|exact H]. intros a Ha. eapply klt_trans; eauto. Qed.

Lemma kgt_of sk k : key_eqb sk k = false -> klt sk k = false -> kgt sk k = true.
Proof.
  intros E L. destruct (kgt sk k) eqn:G; [reflexivity|].
  rewrite <- klt_kgt in G. apply key_eqb_neq in E. exfalso. apply E. apply klt_total; assumption.
Qed.

Lemma add_shortcut_skip sk sv k ov tl :
  key_eqb sk k = false -> klt sk k = false ->
  add_shortcut sk sv ((k, ov) :: tl) = (k, ov) :: add_shortcut sk sv tl.
Proof.
  intros E L. unfold add_shortcut. simpl. rewrite (key_eqb_sym k sk), E. simpl.
  destruct (blookup tl sk) as [[?|]|]; try reflexivity. simpl. rewrite L. reflexivity.
Qed.

Lemma loop_spec sk sv orig : forall rest pre d,
  sorted rest -> rest <> [] -> kgt sk (fst (last rest d)) = false ->
  orig = rev pre ++ rest ->
  masc_loop sk sv orig pre rest true = rev pre ++ add_shortcut sk sv rest.
Proof.
  induction rest as [|[k ov] tl IH]; intros pre d Hs Hne Hlast Horig; [congruence|].
  cbn [masc_loop]. destruct Hs as [Hf Hs].
  destruct (key_eqb sk k) eqn:E.
  - apply key_eqb_eq in E; subst k. unfold add_shortcut. simpl. rewrite key_eqb_refl.
    destruct ov as [v|].
    + assumption.
    + rewrite rev_append_rev. f_equal. unfold remove_key. simpl. rewrite ?key_eqb_refl. simpl.
      symmetry. apply remove_key_all_gt. exact Hf.
  - simpl. destruct (klt sk k) eqn:L.
    + rewrite rev_append_rev. f_equal. unfold add_shortcut.
      rewrite blookup_all_gt.
      * simpl. rewrite L. reflexivity.
      * constructor; [exact L|]. eapply Forall_klt_trans; eauto.
    + assert (G : kgt sk k = true) by (apply kgt_of; assumption).
      destruct tl as [|y tl'].
      { simpl in Hlast. congruence. }
      rewrite (IH ((k, ov) :: pre) d); try assumption; try discriminate.
      * rewrite add_shortcut_skip by assumption. simpl. rewrite <- app_assoc. reflexivity.
      * simpl. rewrite <- app_assoc. exact Horig.
Qed.

Lemma last_in b d : b <> [] -> In (last b d) b.
Proof.
  induction b as [|x b IH]; [congruence|]. intros _. destruct b as [|y b']; [simpl; auto|].
  right. apply IH. discriminate.
Qed.

Lemma last_max b d : sorted b -> forall y, In y b -> y = last b d \/ klt (fst y) (fst (last b d)) = true.
Proof.
  induction b as [|x b IH]; intros Hs y Hin; [contradiction|].
  destruct Hs as [Hf Hs]. destruct b as [|x' b'].
  - simpl in *. destruct Hin; [auto|contradiction].
  - change (last (x :: x' :: b') d) with (last (x' :: b') d).
    destruct Hin as [->|Hin].
    + right. rewrite Forall_forall in Hf. apply Hf. apply last_in. discriminate.
    + apply IH; assumption.
Qed.

Lemma ins_at_end x b : Forall (fun y => klt (fst y) (fst x) = true) b -> ins x b = b ++ [x].
Proof.
  induction b as [|y b IH]; simpl; [reflexivity|]. intros H. inversion H; subst.
  rewrite (klt_asym _ _ H2). f_equal. auto.
Qed.

Theorem masc_spec sk sv b : sorted b -> b <> [] -> masc sk sv b = add_shortcut sk sv b.
Proof.
  intros Hs Hne. destruct b as [|[k0 ov0] tl]; [congruence|].
  unfold masc. destruct (klt sk k0) eqn:L0.
  - unfold add_shortcut. rewrite blookup_all_gt.
    + simpl. rewrite L0. reflexivity.
    + destruct Hs as [Hf _]. constructor; [exact L0|]. eapply Forall_klt_trans; eauto.
  - set (b := (k0, ov0) :: tl) in *.
    destruct (kgt sk (fst (last b (k0, None)))) eqn:G.
    + assert (Hall : Forall (fun y => klt (fst y) sk = true) b).
      { apply Forall_forall. intros y Hy. rewrite <- klt_kgt in G.
        destruct (last_max b (k0, None) Hs y Hy) as [->|Hlt]; [exact G|].
        eapply klt_trans; eauto. }
      unfold add_shortcut. rewrite blookup_not_in.
      * apply eq_sym, ins_at_end. exact Hall.
      * intros kv Hin. rewrite Forall_forall in Hall. specialize (Hall _ Hin).
        intros Heq. rewrite Heq, klt_irrefl in Hall. discriminate.
    + subst b. cbn [masc_loop]. destruct (key_eqb sk k0) eqn:E.
      * apply key_eqb_eq in E; subst k0. unfold add_shortcut. simpl. rewrite key_eqb_refl.
        destruct ov0; [reflexivity|]. unfold remove_key. simpl. rewrite ?key_eqb_refl. simpl.
        destruct Hs as [Hf _]. symmetry. apply remove_key_all_gt. exact Hf.
      * assert (G0 : kgt sk k0 = true) by (apply kgt_of; assumption).
        simpl. rewrite G0. destruct Hs as [Hf Hs'].
        destruct tl as [|y tl'].
        { simpl in G. congruence. }
        rewrite (loop_spec sk sv _ (y :: tl') [(k0, ov0)] (k0, None)); try assumption; try discriminate.
        -- rewrite add_shortcut_skip by assumption. reflexivity.
        -- reflexivity.
Qed.

(** facts about the abstract function *)
Lemma blookup_ins x b k : blookup b (fst x) = None ->
  blookup (ins x b) k = if key_eqb (fst x) k then Some (snd x) else blookup b k.
Proof.
  destruct x as [kx ox]. simpl. induction b as [|[ky oy] b IH]; simpl; [reflexivity|].
  destruct (key_eqb ky kx) eqn:E0; [discriminate|]. intros Hn.
  destruct (klt kx ky); simpl; [reflexivity|].
  destruct (key_eqb ky k) eqn:E1.
  - apply key_eqb_eq in E1; subst k. rewrite (key_eqb_sym kx ky), E0. reflexivity.
  - auto.
Qed.

Lemma Forall_ins (P : key * option val -> Prop) x b : P x -> Forall P b -> Forall P (ins x b).
Proof.
  intros Hx. induction b as [|y b IH]; simpl; intros H; [auto|].
  inversion H; subst. destruct (klt (fst x) (fst y)); auto.
Qed.

Lemma sorted_ins x b : sorted b -> blookup b (fst x) = None -> sorted (ins x b).
Proof.
  destruct x as [kx ox]. simpl. induction b as [|[ky oy] b IH]; simpl; [auto|].
  intros [Hf Hs]. destruct (key_eqb ky kx) eqn:E0; [discriminate|]. intros Hn.
  destruct (klt kx ky) eqn:L; simpl.
  - split; [|auto]. constructor; [exact L|]. eapply Forall_klt_trans; eauto.
  - split; [|auto]. apply Forall_ins; [|exact Hf]. simpl.
    destruct (klt ky kx) eqn:L2; [reflexivity|]. apply key_eqb_neq in E0. exfalso. apply E0.
    apply klt_total; assumption.
Qed.

Lemma blookup_remove_ne b k k' : k <> k' -> blookup (remove_key k b) k' = blookup b k'.
Proof.
  intros Hne. induction b as [|[k1 ov] b IH]; simpl; [reflexivity|].
  destruct (key_eqb k1 k) eqn:E1; simpl.
  - apply key_eqb_eq in E1; subst k1.
    destruct (key_eqb k k') eqn:E2; [apply key_eqb_eq in E2; congruence|]. exact IH.
  - destruct (key_eqb k1 k'); [reflexivity|exact IH].
Qed.

Lemma blookup_remove_eq b k : blookup (remove_key k b) k = None.
Proof.
  induction b as [|[k1 ov] b IH]; simpl; [reflexivity|].
  destruct (key_eqb k1 k) eqn:E1; simpl; [exact IH|]. rewrite E1. exact IH.
Qed.

Lemma add_shortcut_spec sk sv b k :
  override (add_shortcut sk sv b) (fun _ => None) k = override b (get (Lf sk sv)) k.
Proof.
  unfold add_shortcut, override.
  destruct (blookup b sk) as [[v|]|] eqn:Eb.
  - simpl. destruct (blookup b k) eqn:Ek; [reflexivity|].
    destruct (key_eqb sk k) eqn:E; [apply key_eqb_eq in E; subst; congruence|reflexivity].
  - destruct (key_eqb sk k) eqn:E.
    + apply key_eqb_eq in E; subst k. rewrite blookup_remove_eq, Eb. simpl. reflexivity.
    + rewrite blookup_remove_ne. 2:{ intros ->. rewrite key_eqb_refl in E; discriminate. }
      destruct (blookup b k); [reflexivity|]. simpl. rewrite E. reflexivity.
  - rewrite blookup_ins by exact Eb. simpl. destruct (key_eqb sk k) eqn:E.
    + apply key_eqb_eq in E; subst k. rewrite Eb. reflexivity.
    + destruct (blookup b k); reflexivity.
Qed.

Lemma keys_len_add_shortcut h sk sv b :
  length sk = h -> keys_len h b -> keys_len h (add_shortcut sk sv b).
Proof.
  intros Hs Hb. unfold add_shortcut.
  destruct (blookup b sk) as [[v|]|]; [assumption| |].
  - unfold keys_len, remove_key in *. rewrite Forall_forall in *. intros x Hx. apply filter_In in Hx. apply Hb, Hx.
  - apply Forall_ins; [exact Hs|exact Hb].
Qed.

Lemma sorted_add_shortcut sk sv b : sorted b -> sorted (add_shortcut sk sv b).
Proof.
  intros Hs. unfold add_shortcut. destruct (blookup b sk) as [[v|]|] eqn:Eb; [assumption| |].
  - apply sorted_filter. exact Hs.
  - apply sorted_ins; assumption.
Qed.
End M.

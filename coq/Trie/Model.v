(** C10 model: the sparse Merkle state trie of /repo/pkg/trie (trie.go, trie_tools.go).
    No proofs here.

    Representation.  Keys are bit lists (most significant bit of byte 0 first, the order
    of [bitIsSet]); the trie height is a parameter [h] (256 in the node).  A leaf
    ("shortcut") keeps only the REMAINING key bits below its position, so a leaf that sits
    at height [h] has a key of length [h] and moving a shortcut up one level is consing the
    branch bit.  The Go code keeps the full 32-byte key in every batch and indexes bit
    [TrieHeight-height]; all keys that reach a node share the prefix above it, hence
    comparing / splitting on the remaining bits is the same computation.

    Batches: [(key, Some v)] sets a value, [(key, None)] is value = DefaultLeaf (delete).
    The 4-level node batches of the storage format (batch[0..30], iBatch) are not
    modelled here; Store.v models persistence as a content-addressed node store. *)
From Coq Require Import List Bool Arith NArith Lia.
Import ListNotations.

Definition key := list bool.

Fixpoint key_eqb (a b : key) : bool :=
  match a, b with
  | [], [] => true
  | x :: a', y :: b' => Bool.eqb x y && key_eqb a' b'
  | _, _ => false
  end.

(** bytes.Compare on equal-length keys = lexicographic order on bits, false < true *)
Fixpoint kcmp (a b : key) : comparison :=
  match a, b with
  | [], [] => Eq
  | [], _ => Lt
  | _, [] => Gt
  | x :: a', y :: b' =>
      match x, y with
      | false, true => Lt
      | true, false => Gt
      | _, _ => kcmp a' b'
      end
  end.
Definition klt (a b : key) : bool := match kcmp a b with Lt => true | _ => false end.
Definition kgt (a b : key) : bool := match kcmp a b with Gt => true | _ => false end.

Section T.
Variable val : Type.

Inductive tree := E | Lf (k : key) (v : val) | Nd (l r : tree).

(** trie_tools.go:get *)
Fixpoint get (t : tree) (k : key) : option val :=
  match t with
  | E => None
  | Lf k' v => if key_eqb k' k then Some v else None
  | Nd l r => match k with
              | [] => None
              | b :: k' => if b then get r k' else get l k'
              end
  end.

Definition batch := list (key * option val).

Definition head_bit (kv : key * option val) : bool :=
  match fst kv with x :: _ => x | [] => false end.
Definition strip (kv : key * option val) : key * option val := (tl (fst kv), snd kv).

(** trie.go:splitKeys — cut at the first key whose branch bit is set *)
Fixpoint split_keys (b : batch) : batch * batch :=
  match b with
  | [] => ([], [])
  | kv :: tl => if head_bit kv then ([], b)
                else let '(l, r) := split_keys tl in (kv :: l, r)
  end.

(** trie.go:maybeAddShortcutToKV, literally (after the F1 repair: [break] after removing a
    deleted shortcut key).  [pre] is keys[:i] reversed, [rest] is keys[i:].  Falling out of
    the loop leaves newKeys empty. *)
Fixpoint masc_loop (sk : key) (sv : val) (orig : batch) (pre rest : batch) (higher : bool) : batch :=
  match rest with
  | [] => []
  | (k, ov) :: tl =>
      if key_eqb sk k then
        match ov with
        | Some _ => orig                      (* shortcut simply updated: return keys, values *)
        | None => rev_append pre tl           (* delete: keys[:i] ++ keys[i+1:], break *)
        end
      else if negb higher && kgt sk k then masc_loop sk sv orig ((k, ov) :: pre) tl true
      else if higher && klt sk k then rev_append pre ((sk, Some sv) :: rest)
      else masc_loop sk sv orig ((k, ov) :: pre) tl higher
  end.

Definition masc (sk : key) (sv : val) (b : batch) : batch :=
  match b with
  | [] => []                                  (* keys[0] would panic; never called so *)
  | (k0, _) :: _ =>
      if klt sk k0 then (sk, Some sv) :: b
      else if kgt sk (fst (last b (k0, None))) then b ++ [(sk, Some sv)]
      else masc_loop sk sv b [] b false
  end.

(** maybeMoveUpShortcut + interiorHash: what the parent becomes given the two children
    and whether a child reported [deleted]. *)
Definition join (l r : tree) (deleted : bool) : tree * bool :=
  if deleted then
    match l, r with
    | E, E => (E, true)
    | E, Lf k v => (Lf (true :: k) v, true)
    | Lf k v, E => (Lf (false :: k) v, true)
    | _, _ => (Nd l r, false)
    end
  else (Nd l r, false).

(** one level of trie.go:update below the shortcut handling; [upd] is the recursive call
    one level down *)
Definition go (upd : tree -> batch -> tree * bool) (l r : tree) (b : batch) : tree * bool :=
  match l, r, b with
  | E, E, [(k, Some v)] => (Lf k v, false)       (* store as shortcut *)
  | E, E, [(k, None)] => (E, true)
  | _, _, _ =>
    let '(lk, rk) := split_keys b in
    let lb := map strip lk in let rb := map strip rk in
    match lb, rb with
    | [], [] => (E, true)                        (* b = []: not reachable from Update *)
    | [], _ => let '(r', d) := upd r rb in join l r' d                 (* updateRight *)
    | _, [] => let '(l', d) := upd l lb in join l' r d                 (* updateLeft *)
    | _, _ => let '(l', dl) := upd l lb in                             (* updateParallel *)
              let '(r', dr) := upd r rb in join l' r' (dl || dr)
    end
  end.

Fixpoint update (h : nat) (t : tree) (b : batch) {struct h} : tree * bool :=
  match h with
  | O => match b with
         | (k, Some v) :: _ => (Lf k v, false)
         | _ => (E, true)
         end
  | S h' =>
    match t with
    | Lf k v =>
        let b' := masc k v b in
        match b' with
        | [] => (E, true)
        | _ => go (update h') E E b'
        end
    | E => go (update h') E E b
    | Nd l r => go (update h') l r b
    end
  end.

(** Trie.Update: the new root tree *)
Definition trie_update (h : nat) (t : tree) (b : batch) : tree := fst (update h t b).

(** ---- specification-level vocabulary ---- *)
Fixpoint blookup (b : batch) (k : key) : option (option val) :=
  match b with
  | [] => None
  | (k', ov) :: b' => if key_eqb k' k then Some ov else blookup b' k
  end.

Definition override (b : batch) (f : key -> option val) (k : key) : option val :=
  match blookup b k with Some ov => ov | None => f k end.

Definition keys_len (h : nat) (b : batch) := Forall (fun kv => length (fst kv) = h) b.

(** strictly sorted by key (what stateBuffer.export produces) *)
Fixpoint sorted (b : batch) : Prop :=
  match b with
  | [] => True
  | x :: tl => Forall (fun y => klt (fst x) (fst y) = true) tl /\ sorted tl
  end.

Fixpoint sortedb (b : batch) : bool :=
  match b with
  | [] => true
  | x :: tl => forallb (fun y => klt (fst x) (fst y)) tl && sortedb tl
  end.

(** well-formed at height h: a leaf's remaining key has length h, interior nodes only above 0 *)
Fixpoint wf (h : nat) (t : tree) {struct t} : Prop :=
  match t with
  | E => True
  | Lf k _ => length k = h
  | Nd l r => match h with O => False | S h' => wf h' l /\ wf h' r end
  end.

Fixpoint size (t : tree) : nat :=
  match t with E => 0 | Lf _ _ => 1 | Nd l r => size l + size r end.

(** canonical: every interior node has at least two leaves below it (so every leaf sits at
    the highest subtree that contains only it) *)
Fixpoint canon (t : tree) : Prop :=
  match t with
  | Nd l r => 2 <= size l + size r /\ canon l /\ canon r
  | _ => True
  end.

End T.
Arguments E {val}. Arguments Lf {val}. Arguments Nd {val}.
Arguments get {val}. Arguments update {val}. Arguments trie_update {val}.
Arguments blookup {val}. Arguments override {val}. Arguments keys_len {val}.
Arguments sorted {val}. Arguments sortedb {val}. Arguments wf {val}. Arguments size {val}.
Arguments canon {val}. Arguments masc {val}. Arguments masc_loop {val}.
Arguments split_keys {val}. Arguments strip {val}. Arguments head_bit {val}.
Arguments join {val}. Arguments go {val}.

(** ---- bytes ---- *)
Definition bytes := list N.

Definition bit_n (b : bool) (w : N) : N := if b then w else 0%N.
Fixpoint bits_to_bytes (l : list bool) : bytes :=
  match l with
  | b7 :: b6 :: b5 :: b4 :: b3 :: b2 :: b1 :: b0 :: tl =>
      (bit_n b7 128 + bit_n b6 64 + bit_n b5 32 + bit_n b4 16 +
       bit_n b3 8 + bit_n b2 4 + bit_n b1 2 + bit_n b0 1)%N :: bits_to_bytes tl
  | _ => []
  end.
Definition byte_bits (n : N) : list bool :=
  [N.testbit n 7; N.testbit n 6; N.testbit n 5; N.testbit n 4;
   N.testbit n 3; N.testbit n 2; N.testbit n 1; N.testbit n 0].
Fixpoint bytes_to_bits (l : bytes) : list bool :=
  match l with
  | [] => []
  | x :: tl => byte_bits x ++ bytes_to_bits tl
  end.

(** ---- the hash layer (trie.go: leafHash, interiorHash; Trie.Root) ----
    [H] is the hash function given to trie.NewTrie, applied to the concatenation of its
    arguments (common.Hasher writes them one after the other).  [rp] is the path from the
    root to the node, last branch bit first. *)
Definition default_leaf : bytes := [0%N].
Definition height_byte (h : nat) : N := (N.of_nat h mod 256)%N.       (* byte(height) *)

Section Hash.
Variable H : bytes -> bytes.

(** hash of a subtree as it appears in its parent's preimage: DefaultLeaf for an empty side *)
Fixpoint th (h : nat) (rp : list bool) (t : tree bytes) : bytes :=
  match t with
  | E => default_leaf
  | Lf k v => H (bits_to_bytes (rev_append rp k) ++ v ++ [height_byte h])
  | Nd l r => H (th (pred h) (false :: rp) l ++ th (pred h) (true :: rp) r)
  end.

(** Trie.Root: nil for the empty trie *)
Definition root (h : nat) (t : tree bytes) : bytes :=
  match t with E => [] | _ => th h [] t end.
End Hash.

(** C11 model: Merkle proofs of /repo/pkg/trie/trie_merkle_proof.go.  No proofs here.

    [mproof] mirrors merkleProof (audit path bottom-up: the sibling nearest to the leaf
    first; included flag; proofKey/proofVal), [compress] mirrors merkleProofCompressed,
    and the four verifiers mirror VerifyInclusion / VerifyNonInclusion /
    VerifyInclusionC / VerifyNonInclusionC (after the F2 repair: a proof leaf holding the
    queried key is rejected by the non-inclusion verifiers).

    Index arithmetic: verifyInclusion walks keyIndex = 0.. upward and takes
    ap[len(ap)-keyIndex-1]; here the audit path is reversed once and consumed from the
    head together with the key bits.  A nil []byte is the empty list.  Bit reads beyond the
    key / bitmap and audit-path reads beyond its length panic in Go; here they read
    false / [] (the check treats a Go panic as "not accepted" and compares verdicts only
    when Go does not panic). *)
From Coq Require Import List Bool Arith NArith ZArith.
From Verif Require Import Trie.Model.
Import ListNotations.

Fixpoint beqb (a b : bytes) : bool :=
  match a, b with
  | [], [] => true
  | x :: a', y :: b' => N.eqb x y && beqb a' b'
  | _, _ => false
  end.

(** byte(s.TrieHeight - n) for TrieHeight = 256, Go int -> byte conversion *)
Definition height_byte_sub (n : nat) : N :=
  if Nat.leb n 256 then height_byte (256 - n)
  else Z.to_N ((256 - Z.of_nat n) mod 256)%Z.      (* negative int -> byte wraps *)

Section P.
Variable H : bytes -> bytes.

(** merkleProof: (audit path, included, proofKey, proofVal) *)
Fixpoint mproof (h : nat) (rp : list bool) (t : tree bytes) (k : key)
  : list bytes * bool * bytes * bytes :=
  match t with
  | E => ([], false, [], [])
  | Lf k' v => if key_eqb k' k then ([], true, [], v)
               else ([], false, bits_to_bytes (rev_append rp k'), v)
  | Nd l r =>
      match k with
      | [] => ([], false, [], [])
      | true :: k' =>
          let '(mp, inc, pk, pv) := mproof (pred h) (true :: rp) r k' in
          (mp ++ [th H (pred h) (false :: rp) l], inc, pk, pv)
      | false :: k' =>
          let '(mp, inc, pk, pv) := mproof (pred h) (false :: rp) l k' in
          (mp ++ [th H (pred h) (true :: rp) r], inc, pk, pv)
      end
  end.

(** merkleProofCompressed: bitmap bit i set iff mpFull[i] is not DefaultLeaf;
    len(mpFull)/8+1 bitmap bytes; height = len(mpFull) *)
Definition is_default (n : bytes) : bool := beqb n default_leaf.
Definition compress (mp : list bytes) : list bool * list bytes * nat :=
  (map (fun n => negb (is_default n)) mp ++ repeat false (8 * (length mp / 8 + 1) - length mp),
   filter (fun n => negb (is_default n)) mp, length mp).

Definition side (b : bool) (a x : bytes) : bytes := if b then H (a ++ x) else H (x ++ a).

(** verifyInclusion on the reversed audit path *)
Fixpoint vi (rap : list bytes) (kbits : list bool) (leaf : bytes) : bytes :=
  match rap with
  | [] => leaf
  | a :: rest =>
      match kbits with
      | b :: kb' => side b a (vi rest kb' leaf)
      | [] => side false a (vi rest [] leaf)
      end
  end.

Definition leaf_hash (key value : bytes) (n : nat) : bytes :=
  H (key ++ value ++ [height_byte_sub n]).

Definition verify_inclusion (root : bytes) (ap : list bytes) (key value : bytes) : bool :=
  beqb root (vi (rev ap) (bytes_to_bits key) (leaf_hash key value (length ap))).

Fixpoint bits_agree (n : nat) (a b : list bool) : bool :=
  match n with
  | O => true
  | S n' => match a, b with
            | x :: a', y :: b' => Bool.eqb x y && bits_agree n' a' b'
            | _, _ => true      (* reads beyond the key panic in Go *)
            end
  end.

Definition verify_non_inclusion (root : bytes) (ap : list bytes) (key value proofKey : bytes) : bool :=
  match proofKey with
  | [] => beqb root (vi (rev ap) (bytes_to_bits key) default_leaf)
  | _ =>
      if beqb proofKey key then false
      else if negb (verify_inclusion root ap proofKey value) then false
      else bits_agree (length ap) (bytes_to_bits key) (bytes_to_bits proofKey)
  end.

(** verifyInclusionC: [n] = length - keyIndex, [rap] = compact audit path reversed *)
Fixpoint vic (bm : list bool) (n : nat) (rap : list bytes) (kbits : list bool) (leaf : bytes) : bytes :=
  match n with
  | O => leaf
  | S i =>
      let b := match kbits with b :: _ => b | [] => false end in
      let kb' := tl kbits in
      if nth i bm false then
        match rap with
        | a :: rest => side b a (vic bm i rest kb' leaf)
        | [] => side b [] (vic bm i [] kb' leaf)
        end
      else side b default_leaf (vic bm i rap kb' leaf)
  end.

Definition verify_inclusion_c (root : bytes) (bm : list bool) (key value : bytes) (ap : list bytes) (len : nat) : bool :=
  beqb root (vic bm len (rev ap) (bytes_to_bits key) (leaf_hash key value len)).

Definition verify_non_inclusion_c (root : bytes) (ap : list bytes) (len : nat) (bm : list bool)
  (key value proofKey : bytes) : bool :=
  match proofKey with
  | [] => beqb root (vic bm len (rev ap) (bytes_to_bits key) default_leaf)
  | _ =>
      if beqb proofKey key then false
      else if negb (verify_inclusion_c root bm proofKey value ap len) then false
      else bits_agree len (bytes_to_bits key) (bytes_to_bits proofKey)
  end.

End P.

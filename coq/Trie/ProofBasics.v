From Coq Require Import List Bool Arith NArith.
From Verif Require Import Trie.Model Trie.Proof.
Import ListNotations.
Lemma beqb_refl a : beqb a a = true.
Proof. induction a; simpl; auto. rewrite N.eqb_refl. auto. Qed.
Lemma non_inclusion_rejects_own_key H root ap key value :
  key <> [] -> verify_non_inclusion H root ap key value key = false.
Proof. intros Hk. unfold verify_non_inclusion. destruct key; [congruence|]. rewrite beqb_refl. reflexivity. Qed.

(** C11 proofs, part 3: completeness of merkleProof w.r.t. the verifiers, and the
    compressed forms reduced to the plain ones. *)
From Coq Require Import List Bool Arith NArith Lia.
From Verif Require Import Trie.Model Trie.Basics Trie.HashBind Trie.Proof Trie.ProofBasics Trie.ProofSound Trie.ProofTop.
Import ListNotations.

Lemma firstn_bits_agree n : forall a b, firstn n a = firstn n b -> bits_agree n a b = true.
Proof.
  induction n as [|n IH]; intros a b E; [reflexivity|].
  destruct a as [|x a], b as [|y b]; simpl in *; auto.
  inversion E; subst. rewrite eqb_reflx. simpl. apply IH; auto.
Qed.

Lemma height_byte_sub_le n : n <= 256 -> height_byte_sub n = height_byte (256 - n).
Proof. intros L. unfold height_byte_sub. apply Nat.leb_le in L. rewrite L. reflexivity. Qed.

Section Cp.
Variable H : bytes -> bytes.

Lemma vni_nonempty root ap key value pk : pk <> [] ->
  verify_non_inclusion H root ap key value pk =
  if beqb pk key then false
  else if negb (verify_inclusion H root ap pk value) then false
  else bits_agree (length ap) (bytes_to_bits key) (bytes_to_bits pk).
Proof. destruct pk; [congruence|reflexivity]. Qed.

(** what merkleProof returns, related to the tree and to verifyInclusion *)
Lemma mp_vi : forall t h rp k mp inc pk pv,
  length rp + h = 256 -> wf h t -> length k = h ->
  mproof H h rp t k = (mp, inc, pk, pv) ->
  length mp <= h /\
  (inc = true -> get t k = Some pv /\
     vi H (rev mp) k (H (bits_to_bytes (rev_append rp k) ++ pv ++ [height_byte (h - length mp)])) = th H h rp t) /\
  (inc = false -> get t k = None /\
     ((pk = [] /\ vi H (rev mp) k default_leaf = th H h rp t) \/
      (exists kf, length kf = h /\ kf <> k /\ pk = bits_to_bytes (rev_append rp kf) /\
         firstn (length mp) kf = firstn (length mp) k /\
         vi H (rev mp) kf (H (pk ++ pv ++ [height_byte (h - length mp)])) = th H h rp t))).
Proof.
  induction t as [|k' v|l IHl r IHr]; intros h rp k mp inc pk pv Hh W Hk E.
  - simpl in E. inversion E; subst. simpl. split; [lia|]. split; [discriminate|]. intros _. split; auto.
  - simpl in E. simpl in W. destruct (key_eqb k' k) eqn:Ek; inversion E; subst; simpl.
    + apply key_eqb_eq in Ek. subst k'. split; [lia|]. split; [|discriminate]. intros _.
      rewrite key_eqb_refl, Nat.sub_0_r. auto.
    + split; [lia|]. split; [discriminate|]. intros _. rewrite Ek. split; [reflexivity|]. right.
      exists k'. rewrite Nat.sub_0_r. repeat split; auto. apply key_eqb_neq. exact Ek.
  - destruct h as [|h']; [simpl in W; contradiction|]. simpl in W. destruct W as [Wl Wr].
    destruct k as [|b k']; [discriminate|]. simpl in Hk. injection Hk as Hk.
    assert (Hrp : length (b :: rp) + h' = 256) by (simpl; lia).
    cbn [mproof pred] in E.
    destruct b.
    + destruct (mproof H h' (true :: rp) r k') as [[[mp' inc'] pk'] pv'] eqn:Em. injection E as E1 E2 E3 E4; subst mp inc' pk' pv'.
      destruct (IHr h' (true :: rp) k' mp' inc pk pv Hrp Wr Hk Em) as (L & I1 & I2).
      rewrite app_length, rev_unit. simpl length.
      replace (S h' - (length mp' + 1)) with (h' - length mp') by lia.
      split; [lia|]. split.
      * intros Hi. destruct (I1 Hi) as [G Ev]. split; [exact G|]. cbn [vi]. simpl rev_append in Ev. rewrite Ev. reflexivity.
      * intros Hi. destruct (I2 Hi) as [G [[-> Ev]|(kf & Lf' & Nf & Epk & Ef & Ev)]]; (split; [exact G|]).
        -- left. split; [reflexivity|]. cbn [vi]. rewrite Ev. reflexivity.
        -- right. exists (true :: kf). simpl. repeat split; auto; try lia.
           ++ congruence.
           ++ replace (length mp' + 1) with (S (length mp')) by lia. simpl. f_equal. exact Ef.
           ++ rewrite Ev. reflexivity.
    + destruct (mproof H h' (false :: rp) l k') as [[[mp' inc'] pk'] pv'] eqn:Em. injection E as E1 E2 E3 E4; subst mp inc' pk' pv'.
      destruct (IHl h' (false :: rp) k' mp' inc pk pv Hrp Wl Hk Em) as (L & I1 & I2).
      rewrite app_length, rev_unit. simpl length.
      replace (S h' - (length mp' + 1)) with (h' - length mp') by lia.
      split; [lia|]. split.
      * intros Hi. destruct (I1 Hi) as [G Ev]. split; [exact G|]. cbn [vi]. simpl rev_append in Ev. rewrite Ev. reflexivity.
      * intros Hi. destruct (I2 Hi) as [G [[-> Ev]|(kf & Lf' & Nf & Epk & Ef & Ev)]]; (split; [exact G|]).
        -- left. split; [reflexivity|]. cbn [vi]. rewrite Ev. reflexivity.
        -- right. exists (false :: kf). simpl. repeat split; auto; try lia.
           ++ congruence.
           ++ replace (length mp' + 1) with (S (length mp')) by lia. simpl. f_equal. exact Ef.
           ++ rewrite Ev. reflexivity.
Qed.

(** Completeness, present key: the generated proof is accepted by VerifyInclusion *)
Theorem proof_complete_present t kbits v mp inc pk pv :
  wf 256 t -> length kbits = 256 -> get t kbits = Some v ->
  mproof H 256 [] t kbits = (mp, inc, pk, pv) ->
  inc = true /\ pv = v /\ verify_inclusion H (root H 256 t) mp (bits_to_bytes kbits) v = true.
Proof.
  intros W Lk G E. destruct (mp_vi t 256 [] kbits mp inc pk pv eq_refl W Lk E) as (L & I1 & I2).
  destruct inc.
  - destruct (I1 eq_refl) as [G' Ev]. rewrite G in G'. inversion G'; subst pv. repeat split.
    unfold verify_inclusion, leaf_hash. apply beqb_eq.
    destruct (bits_bytes_inv 32 kbits Lk) as [Inv _]. rewrite Inv, (height_byte_sub_le _ L).
    cbn [rev_append] in Ev. rewrite Ev. destruct t; [discriminate|reflexivity|reflexivity].
  - destruct (I2 eq_refl) as [G' _]. congruence.
Qed.

(** Completeness, absent key (empty subtree or foreign leaf on the path), non-empty trie:
    the generated proof is accepted by VerifyNonInclusion *)
Theorem proof_complete_absent t kbits mp inc pk pv :
  wf 256 t -> t <> E -> length kbits = 256 -> get t kbits = None ->
  mproof H 256 [] t kbits = (mp, inc, pk, pv) ->
  inc = false /\ verify_non_inclusion H (root H 256 t) mp (bits_to_bytes kbits) pv pk = true.
Proof.
  intros W Hne Lk G E. destruct (mp_vi t 256 [] kbits mp inc pk pv eq_refl W Lk E) as (L & I1 & I2).
  destruct inc.
  - destruct (I1 eq_refl) as [G' _]. congruence.
  - split; [reflexivity|]. destruct (I2 eq_refl) as [_ [[-> Ev]|(kf & Lf' & Nf & Epk & Ef & Ev)]].
    + unfold verify_non_inclusion. apply beqb_eq.
      destruct (bits_bytes_inv 32 kbits Lk) as [Inv _]. rewrite Inv, Ev. destruct t; [congruence|reflexivity|reflexivity].
    + cbn [rev_append] in Epk. subst pk.
      rewrite vni_nonempty by (apply bits_to_bytes_nonempty; exact Lf').
      destruct (beqb (bits_to_bytes kf) (bits_to_bytes kbits)) eqn:Eq.
      { apply beqb_eq in Eq. apply (bits_to_bytes_inj 32) in Eq; auto; try contradiction. }
      destruct (bits_bytes_inv 32 kbits Lk) as [Ik _]. destruct (bits_bytes_inv 32 kf Lf') as [Ikf _].
      assert (Ev' : verify_inclusion H (root H 256 t) mp (bits_to_bytes kf) pv = true).
      { unfold verify_inclusion, leaf_hash. apply beqb_eq. rewrite Ikf, (height_byte_sub_le _ L), Ev.
        destruct t; [congruence|reflexivity|reflexivity]. }
      rewrite Ev'. simpl. rewrite Ik, Ikf. apply firstn_bits_agree. symmetry. exact Ef.
Qed.

(** ---- compressed forms ---- *)
Fixpoint decomp (bm : list bool) (n : nat) (rap : list bytes) : list bytes :=
  match n with
  | O => []
  | S i => if nth i bm false then
             match rap with
             | a :: rest => a :: decomp bm i rest
             | [] => [] :: decomp bm i []
             end
           else default_leaf :: decomp bm i rap
  end.

(** verifyInclusionC is verifyInclusion on the decompressed audit path *)
Lemma vic_decomp bm : forall n rap k leaf, vic H bm n rap k leaf = vi H (decomp bm n rap) k leaf.
Proof.
  induction n as [|i IH]; intros rap k leaf; [reflexivity|].
  cbn [vic decomp]. destruct (nth i bm false).
  - destruct rap as [|a rest]; cbn [vi]; destruct k as [|b k']; simpl; rewrite IH; reflexivity.
  - cbn [vi]. destruct k as [|b k']; simpl; rewrite IH; reflexivity.
Qed.

Lemma decomp_length bm : forall n rap, length (decomp bm n rap) = n.
Proof. induction n; intros; simpl; auto. destruct (nth n bm false); [destruct rap|]; simpl; rewrite IHn; auto. Qed.

Theorem verify_inclusion_c_plain root bm key value ap n :
  verify_inclusion_c H root bm key value ap n =
  verify_inclusion H root (rev (decomp bm n (rev ap))) key value.
Proof.
  unfold verify_inclusion_c, verify_inclusion. rewrite vic_decomp, rev_involutive, rev_length, decomp_length. reflexivity.
Qed.

Theorem verify_non_inclusion_c_plain root bm key value pk ap n :
  verify_non_inclusion_c H root ap n bm key value pk =
  verify_non_inclusion H root (rev (decomp bm n (rev ap))) key value pk.
Proof.
  unfold verify_non_inclusion_c, verify_non_inclusion.
  rewrite verify_inclusion_c_plain, vic_decomp, rev_involutive, rev_length, decomp_length. reflexivity.
Qed.

(** decompressing an honest compression gives back the audit path *)
Lemma decomp_filter (f := fun n => negb (is_default n)) bm : forall mp,
  (forall i, i < length mp -> nth i bm false = f (nth i mp [])) ->
  Forall (fun a => f a = false -> a = default_leaf) mp ->
  decomp bm (length mp) (rev (filter f mp)) = rev mp.
Proof.
  induction mp as [|a mp0 IH] using rev_ind; intros Hb Hd; [reflexivity|].
  rewrite app_length. simpl length. replace (length mp0 + 1) with (S (length mp0)) by lia.
  cbn [decomp]. rewrite (Hb (length mp0)) by (rewrite app_length; simpl; lia).
  rewrite app_nth2 by lia. rewrite Nat.sub_diag. simpl nth.
  rewrite filter_app, rev_unit. simpl filter.
  apply Forall_app in Hd. destruct Hd as [Hd0 Hda]. inversion Hda as [|? ? Ha _]; subst.
  assert (IH' : decomp bm (length mp0) (rev (filter f mp0)) = rev mp0).
  { apply IH; auto. intros i Hi. rewrite (Hb i) by (rewrite app_length; simpl; lia). rewrite app_nth1 by lia. reflexivity. }
  destruct (f a) eqn:Ef.
  - rewrite rev_unit. cbv iota beta. f_equal. exact IH'.
  - rewrite app_nil_r, (Ha eq_refl). f_equal. exact IH'.
Qed.

Lemma is_default_eq a : is_default a = true -> a = default_leaf.
Proof. unfold is_default. apply beqb_eq. Qed.

Theorem compress_decompress mp :
  let '(bm, apc, n) := compress mp in rev (decomp bm n (rev apc)) = mp.
Proof.
  unfold compress. rewrite decomp_filter.
  - apply rev_involutive.
  - intros i Hi. rewrite app_nth1 by (rewrite map_length; exact Hi).
    rewrite (nth_indep _ false (negb (is_default []))) by (rewrite map_length; exact Hi).
    rewrite (map_nth (fun n => negb (is_default n))). reflexivity.
  - apply Forall_forall. intros a _ Ha. apply is_default_eq. destruct (is_default a); [reflexivity|discriminate].
Qed.

(** hence the compressed verifiers accept an honest compressed proof exactly when the
    plain verifiers accept the plain proof *)
Theorem compressed_complete root mp key value pk :
  let '(bm, apc, n) := compress mp in
  verify_inclusion_c H root bm key value apc n = verify_inclusion H root mp key value /\
  verify_non_inclusion_c H root apc n bm key value pk = verify_non_inclusion H root mp key value pk.
Proof.
  pose proof (compress_decompress mp) as D. destruct (compress mp) as [[bm apc] n].
  rewrite verify_inclusion_c_plain, verify_non_inclusion_c_plain, D. auto.
Qed.

End Cp.

(** soundness of the compressed verifiers, through the decompressed audit path *)
Section CS.
Variable H : bytes -> bytes.
Hypothesis Hlen : forall x, length (H x) = 32.

Theorem inclusion_c_sound t bm ap n kbits value :
  wf 256 t -> vals32 t -> length kbits = 256 -> length value = 32 ->
  ap_ok (decomp bm n (rev ap)) ->
  verify_inclusion_c H (root H 256 t) bm (bits_to_bytes kbits) value ap n = true ->
  get t kbits = Some value \/ hash_break H.
Proof.
  intros W V Lk Lv Hap E. rewrite verify_inclusion_c_plain in E.
  apply (inclusion_sound H Hlen t (rev (decomp bm n (rev ap))) kbits value W V Lk Lv); [apply ap_ok_rev; exact Hap|exact E].
Qed.

Theorem non_inclusion_c_foreign_sound t bm ap n kbits pkbits value :
  wf 256 t -> vals32 t -> length kbits = 256 -> length pkbits = 256 -> length value = 32 ->
  ap_ok (decomp bm n (rev ap)) ->
  verify_non_inclusion_c H (root H 256 t) ap n bm (bits_to_bytes kbits) value (bits_to_bytes pkbits) = true ->
  get t kbits = None \/ hash_break H.
Proof.
  intros W V Lk Lp Lv Hap E. rewrite verify_non_inclusion_c_plain in E.
  apply (non_inclusion_foreign_sound H Hlen t (rev (decomp bm n (rev ap))) kbits pkbits value W V Lk Lp Lv); [apply ap_ok_rev; exact Hap|exact E].
Qed.

(** the hypotheses of the soundness theorems are satisfiable by a non-trivial state: a
    two-leaf trie under a concrete 32-byte hash; its honest proofs are accepted *)
End CS.

(** the hypotheses of the C11 theorems are satisfiable by a non-trivial state: a two-leaf
    256-bit trie with a foreign-leaf / empty-side structure under a concrete 32-byte hash *)
Definition ex_H (x : bytes) : bytes := firstn 32 (rev x ++ repeat 7%N 32).
Lemma ex_H_len x : length (ex_H x) = 32.
Proof. unfold ex_H. rewrite firstn_length, app_length, repeat_length. lia. Qed.

Definition ex_k1 : key := false :: repeat true 255.
Definition ex_k2 : key := true :: false :: repeat true 254.
Definition ex_k3 : key := true :: true :: repeat false 254.
Definition ex_v (n : N) : bytes := repeat n 32.
Definition ex_t : tree bytes := Nd (Lf (tl ex_k1) (ex_v 1)) (Lf (tl ex_k2) (ex_v 2)).

Example c11_example :
  wf 256 ex_t /\ vals32 ex_t /\ canon ex_t /\
  get ex_t ex_k1 = Some (ex_v 1) /\ get ex_t ex_k3 = None /\
  (let '(mp, inc, pk, pv) := mproof ex_H 256 [] ex_t ex_k1 in
   ap_ok mp /\ verify_inclusion ex_H (root ex_H 256 ex_t) mp (bits_to_bytes ex_k1) (ex_v 1) = true) /\
  (let '(mp, inc, pk, pv) := mproof ex_H 256 [] ex_t ex_k3 in
   inc = false /\ pk = bits_to_bytes ex_k2 /\
   verify_non_inclusion ex_H (root ex_H 256 ex_t) mp (bits_to_bytes ex_k3) pv pk = true).
Proof.
  split; [vm_compute; auto|]. split; [vm_compute; auto|]. split; [vm_compute; repeat split; lia|].
  split; [vm_compute; reflexivity|]. split; [vm_compute; reflexivity|]. split.
  - vm_compute. split; [|reflexivity]. repeat constructor.
  - vm_compute. repeat split.
Qed.

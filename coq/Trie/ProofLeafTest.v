(** C11: the leaf test of merkleProof (pkg/trie/trie_merkle_proof.go:
    [bytes.Equal(lnode[:HashLength], key)]) compares the FULL stored key with the query key.
    In the model a leaf keeps the remaining bits of its key and [mproof] tests them with
    [key_eqb] against the remaining bits of the query: equality of lists, lengths included.
    Hence a query key that is a proper prefix (or an extension) of a stored key is never
    reported as included, whatever its length (no 256-bit hypothesis on the query), and
    Inclusion = true is only ever answered together with the value stored under exactly that
    key.  (A query key exhausted at an interior node: the model answers "not included"; the Go
    code indexes past the end of the key and panics, F37h.) *)
From Coq Require Import List Bool Arith NArith.
From Verif Require Import Trie.Model Trie.Basics Trie.Proof.
Import ListNotations.

Section PL.
Variable H : bytes -> bytes.

Definition inc_of (r : list bytes * bool * bytes * bytes) : bool := snd (fst (fst r)).
Definition val_of (r : list bytes * bool * bytes * bytes) : bytes := snd r.

Lemma proof_leaf_test_full_key h rp k' v k :
  inc_of (mproof H h rp (Lf k' v) k) = true <-> k' = k.
Proof.
  cbn [mproof]. destruct (key_eqb k' k) eqn:Ek; unfold inc_of; cbn [fst snd].
  - apply key_eqb_eq in Ek. tauto.
  - apply key_eqb_neq in Ek. split; [discriminate|contradiction].
Qed.

Lemma proof_leaf_prefix_not_included h rp k' v k x :
  x <> [] -> inc_of (mproof H h rp (Lf (k ++ x) v) k) = false /\ inc_of (mproof H h rp (Lf k' v) (k' ++ x)) = false.
Proof.
  intro Nx. split.
  - destruct (inc_of (mproof H h rp (Lf (k ++ x) v) k)) eqn:Ei; [|reflexivity].
    apply proof_leaf_test_full_key in Ei. exfalso. apply Nx.
    apply (f_equal (@length bool)) in Ei. rewrite app_length in Ei.
    destruct x; [reflexivity|simpl in Ei; rewrite Nat.add_succ_r in Ei].
    exfalso. revert Ei. clear. intro Ei. assert (Hl : length k < S (length k + length x)) by (apply Nat.lt_succ_r, Nat.le_add_r).
    rewrite Ei in Hl. exact (Nat.lt_irrefl _ Hl).
  - destruct (inc_of (mproof H h rp (Lf k' v) (k' ++ x))) eqn:Ei; [|reflexivity].
    apply proof_leaf_test_full_key in Ei. exfalso. apply Nx.
    rewrite <- (app_nil_r k') in Ei at 1. apply app_inv_head in Ei. congruence.
Qed.

(** for every tree and every query key of ANY length: Inclusion = true only with the value
    stored under exactly that key *)
Theorem proof_inclusion_only_stored : forall t h rp k,
  inc_of (mproof H h rp t k) = true -> get t k = Some (val_of (mproof H h rp t k)).
Proof.
  induction t as [|k' v|l IHl r IHr]; intros h rp k Hi.
  - discriminate.
  - cbn [mproof get] in *. destruct (key_eqb k' k); [reflexivity|discriminate].
  - cbn [mproof get] in *. destruct k as [|[|] k2]; [discriminate| |].
    + specialize (IHr (pred h) (true :: rp) k2).
      destruct (mproof H (pred h) (true :: rp) r k2) as [[[mp inc] pk] pv].
      unfold inc_of, val_of in *. cbn [fst snd] in *. apply IHr; exact Hi.
    + specialize (IHl (pred h) (false :: rp) k2).
      destruct (mproof H (pred h) (false :: rp) l k2) as [[[mp inc] pk] pv].
      unfold inc_of, val_of in *. cbn [fst snd] in *. apply IHl; exact Hi.
Qed.

End PL.

(** C11 proofs, part 1: soundness of the verifiers (core lemmas). *)
From Coq Require Import List Bool Arith NArith Lia.
From Verif Require Import Trie.Model Trie.Basics Trie.HashBind Trie.Proof Trie.ProofBasics.
Import ListNotations.

Lemma beqb_eq a b : beqb a b = true <-> a = b.
Proof.
  revert b; induction a as [|x a IH]; intros [|y b]; simpl; split; try congruence; try discriminate; auto.
  - rewrite andb_true_iff, N.eqb_eq, IH. intros [-> ->]; reflexivity.
  - intros E; inversion E; subst. rewrite andb_true_iff, N.eqb_eq, IH. auto.
Qed.

Lemma firstn_S_cons {A} n (x y : A) a b : firstn (S n) (x :: a) = firstn (S n) (y :: b) -> x = y /\ firstn n a = firstn n b.
Proof. simpl. intros E; inversion E; auto. Qed.

Section S.
Variable H : bytes -> bytes.
Hypothesis Hlen : forall x, length (H x) = 32.

(** what a verifier can check about an audit path: every node is 32 bytes or DefaultLeaf *)
Definition ap_ok (ap : list bytes) : Prop := Forall (fun a => length a = 32 \/ a = default_leaf) ap.
(** what only an honest prover guarantees: every node is DefaultLeaf or a hash output *)
Definition ap_hashes (ap : list bytes) : Prop := Forall (fun a => a = default_leaf \/ exists p, a = H p) ap.

Lemma vi_is_hash rap k p : exists p', vi H rap k (H p) = H p'.
Proof.
  destruct rap as [|a rest]; simpl; [eauto|]. destruct k as [|[] k']; unfold side; eauto.
Qed.

Lemma vi_default_shape rap k :
  vi H rap k default_leaf = default_leaf \/ exists p', vi H rap k default_leaf = H p'.
Proof.
  destruct rap as [|a rest]; simpl; [auto|]. right. destruct k as [|[] k']; unfold side; eauto.
Qed.

Lemma leaf_pre_len rp h kl value hb :
  length rp + h = 256 -> length kl = h -> length value = 32 ->
  length (bits_to_bytes (rev_append rp kl) ++ value ++ [hb]) = 65.
Proof.
  intros Hh Hk Hv. rewrite !app_length. simpl.
  assert (L : length (rev_append rp kl) = 8 * 32) by (rewrite rev_append_rev, app_length, rev_length; lia).
  destruct (bits_bytes_inv 32 _ L) as [_ ->]. lia.
Qed.

Lemma nd_pre_len h rp (l r : tree bytes) :
  let n := length (th H h (false :: rp) l ++ th H h (true :: rp) r) in n = 2 \/ n = 33 \/ n = 64.
Proof.
  cbv zeta. rewrite app_length.
  destruct (th_len H Hlen h (false :: rp) l) as [-> | ->]; destruct (th_len H Hlen h (true :: rp) r) as [-> | ->]; lia.
Qed.

(** one verification step against an interior node: the sibling [a] is the real sibling
    hash and the recomputed value [x] (a hash output) is the real child hash *)
Lemma step_inv h rp l r b a x px :
  x = H px -> (length a = 32 \/ a = default_leaf) ->
  side H b a x = th H (S h) rp (Nd l r) ->
  (x = th H h (b :: rp) (if b then r else l)) \/ hash_break H.
Proof.
  intros Hx Ha E. simpl in E. unfold side in E.
  assert (Lx : length x = 32) by (subst x; apply Hlen).
  destruct b.
  - match type of E with H ?p1 = H ?p2 => destruct (bytes_eq_dec p1 p2) as [Ep|Ep] end.
    2:{ right. left. eexists; eexists; split; [exact Ep|exact E]. }
    destruct (Nat.eq_dec (length a) (length (th H h (false :: rp) l))) as [El|El].
    + apply app_eq_len in Ep; auto. left. tauto.
    + right. right. pose proof (f_equal (@length _) Ep) as EL. rewrite !app_length in EL.
      destruct (th_shape H h (false :: rp) l) as [[-> A1]|[_ [p1 A1]]];
      destruct (th_shape H h (true :: rp) r) as [[-> B1]|[_ [q1 B1]]];
      rewrite ?A1, ?B1 in *; simpl in EL, El; rewrite ?Hlen in EL; rewrite ?Hlen in El;
      destruct Ha as [La| ->]; simpl in *; try lia.
      subst x. simpl in Ep. eapply shift_from; eauto.
  - match type of E with H ?p1 = H ?p2 => destruct (bytes_eq_dec p1 p2) as [Ep|Ep] end.
    2:{ right. left. eexists; eexists; split; [exact Ep|exact E]. }
    destruct (Nat.eq_dec (length x) (length (th H h (false :: rp) l))) as [El|El].
    + apply app_eq_len in Ep; auto. left. tauto.
    + right. right. pose proof (f_equal (@length _) Ep) as EL. rewrite !app_length in EL.
      destruct (th_shape H h (false :: rp) l) as [[-> A1]|[_ [p1 A1]]];
      destruct (th_shape H h (true :: rp) r) as [[-> B1]|[_ [q1 B1]]];
      rewrite ?A1, ?B1 in *; simpl in EL, El; rewrite ?Hlen in EL; rewrite ?Hlen in El;
      destruct Ha as [La| ->]; simpl in *; try lia.
      subst x. simpl in Ep. eapply shift_from; symmetry; eauto.
Qed.

(** Core of soundness.  If recomputing from the leaf hash of (kl, value) along [pbits] with
    the (root-first) audit path [rap] gives the hash of [t], then the subtree of [t] reached
    after |rap| steps along [pbits] is exactly the shortcut leaf (kl, value): every key [q]
    with that prefix reads [value] if it is [kl] and nothing otherwise. *)
Lemma vi_sound : forall rap t h rp pbits kl value hb,
  length rp + h = 256 -> length pbits = h -> length kl = h ->
  wf h t -> vals32 t -> ap_ok rap -> length value = 32 ->
  firstn (length rap) pbits = firstn (length rap) kl ->
  vi H rap pbits (H (bits_to_bytes (rev_append rp kl) ++ value ++ [hb])) = th H h rp t ->
  (forall q, length q = h -> firstn (length rap) q = firstn (length rap) pbits ->
     get t q = if key_eqb kl q then Some value else None) \/ hash_break H.
Proof.
  induction rap as [|a rest IH]; intros t h rp pbits kl value hb Hh Hp Hk W V Hap Hv Hpre E.
  - simpl in E. destruct t as [|k' v'|l r].
    + simpl in E. apply (f_equal (@length _)) in E. rewrite Hlen in E. discriminate.
    + simpl in E. simpl in W, V.
      match type of E with H ?p1 = H ?p2 => destruct (bytes_eq_dec p1 p2) as [Ep|Ep] end.
      2:{ right. left. eexists; eexists; split; [exact Ep|exact E]. }
      left. intros q Hq _.
      assert (L1 : length (rev_append rp kl) = 8 * 32) by (rewrite rev_append_rev, app_length, rev_length; lia).
      assert (L2 : length (rev_append rp k') = 8 * 32) by (rewrite rev_append_rev, app_length, rev_length; lia).
      apply app_eq_len in Ep.
      2:{ destruct (bits_bytes_inv 32 _ L1) as [_ ->]. destruct (bits_bytes_inv 32 _ L2) as [_ ->]. reflexivity. }
      destruct Ep as [Ek Ev]. apply (bits_to_bytes_inj 32) in Ek; auto.
      rewrite !rev_append_rev in Ek. apply app_inv_head in Ek.
      apply app_eq_len in Ev; [|congruence]. destruct Ev as [-> _]. subst k'. reflexivity.
    + right. left. simpl in E. match type of E with H ?p1 = H ?p2 => exists p1, p2 end. split; [|exact E].
      intros Ep. apply (f_equal (@length _)) in Ep. rewrite (leaf_pre_len rp h kl value hb Hh Hk Hv) in Ep.
      destruct (nd_pre_len (pred h) rp l r) as [X|[X|X]]; rewrite X in Ep; discriminate.
  - unfold ap_ok in Hap. apply Forall_cons_iff in Hap. destruct Hap as [Ha Hap'].
    destruct (vi_is_hash rest (tl pbits) (bits_to_bytes (rev_append rp kl) ++ value ++ [hb])) as [px Hx].
    assert (Lside : forall b x, length (side H b a x) = 32) by (intros [] x; unfold side; apply Hlen).
    destruct t as [|k' v'|l r].
    + exfalso. destruct pbits; cbn [vi] in E; apply (f_equal (@length _)) in E; rewrite Lside in E; simpl in E; discriminate.
    + right. left. simpl in W, V.
      assert (Lx : forall kk, exists p', vi H rest kk (H (bits_to_bytes (rev_append rp kl) ++ value ++ [hb])) = H p')
        by (intros; apply vi_is_hash).
      assert (Gen : forall b kk, side H b a (vi H rest kk (H (bits_to_bytes (rev_append rp kl) ++ value ++ [hb])))
                    = H (bits_to_bytes (rev_append rp k') ++ v' ++ [height_byte h]) -> collision H).
      { intros b kk E'. destruct (Lx kk) as [p' Hp']. rewrite Hp' in E'. unfold side in E'.
        destruct b; match type of E' with H ?p1 = H ?p2 => exists p1, p2 end; (split; [|exact E']);
          intros Ep; apply (f_equal (@length _)) in Ep; rewrite (leaf_pre_len rp h k' v' _ Hh W V) in Ep;
          rewrite app_length, Hlen in Ep; destruct Ha as [La| ->]; simpl in Ep; lia. }
      destruct pbits as [|b pb']; cbn [vi th] in E; eapply Gen; exact E.
    + destruct h as [|h']; [simpl in W; contradiction|].
      destruct pbits as [|b pb']; [discriminate|]. destruct kl as [|b' kl']; [discriminate|].
      simpl in Hp, Hk. injection Hp as Hp. injection Hk as Hk.
      apply firstn_S_cons in Hpre. destruct Hpre as [<- Hpre].
      simpl in W, V. destruct W as [Wl Wr]. destruct V as [Vl Vr].
      cbn [vi] in E. simpl in Hx.
      destruct (step_inv h' rp l r b a _ px Hx Ha E) as [Ex|Hb]; [|right; exact Hb].
      assert (Hrp : length (b :: rp) + h' = 256) by (simpl; lia).
      assert (W' : wf h' (if b then r else l)) by (destruct b; assumption).
      assert (V' : vals32 (if b then r else l)) by (destruct b; assumption).
      pose proof (IH (if b then r else l) h' (b :: rp) pb' kl' value hb Hrp Hp Hk W' V' Hap' Hv Hpre Ex) as IHr.
      destruct IHr as [G|Hb]; [|right; exact Hb].
      left. intros q Hq Hqp. destruct q as [|bq q']; [discriminate|]. simpl in Hq. injection Hq as Hq.
      apply firstn_S_cons in Hqp. destruct Hqp as [-> Hqp].
      simpl. rewrite eqb_reflx. simpl. destruct b; apply G; assumption.
Qed.

(** Same for a recomputation that starts from DefaultLeaf: the subtree reached is empty.
    Needs the audit nodes to be hash outputs (or DefaultLeaf): see non_inclusion_forgery. *)
Lemma vi_default_sound : forall rap t h rp pbits,
  length rp + h = 256 -> length pbits = h -> wf h t -> vals32 t -> ap_hashes rap ->
  vi H rap pbits default_leaf = th H h rp t ->
  (forall q, length q = h -> firstn (length rap) q = firstn (length rap) pbits -> get t q = None) \/ hash_break H.
Proof.
  induction rap as [|a rest IH]; intros t h rp pbits Hh Hp W V Hap E.
  - simpl in E. destruct t as [|k' v'|l r].
    + left. reflexivity.
    + simpl in E. apply (f_equal (@length _)) in E. rewrite Hlen in E. discriminate.
    + simpl in E. apply (f_equal (@length _)) in E. rewrite Hlen in E. discriminate.
  - unfold ap_hashes in Hap. apply Forall_cons_iff in Hap. destruct Hap as [Ha Hap'].
    assert (Lside : forall b x, length (side H b a x) = 32) by (intros [] x; unfold side; apply Hlen).
    assert (La : length a = 1 \/ length a = 32).
    { destruct Ha as [->|[p ->]]; [left; reflexivity|right; apply Hlen]. }
    destruct t as [|k' v'|l r].
    + exfalso. destruct pbits; cbn [vi] in E; apply (f_equal (@length _)) in E; rewrite Lside in E; simpl in E; discriminate.
    + right. left. simpl in W, V.
      assert (Gen : forall b kk, side H b a (vi H rest kk default_leaf)
                    = H (bits_to_bytes (rev_append rp k') ++ v' ++ [height_byte h]) -> collision H).
      { intros b kk E'. unfold side in E'.
        assert (Lx : length (vi H rest kk default_leaf) = 1 \/ length (vi H rest kk default_leaf) = 32).
        { destruct (vi_default_shape rest kk) as [->|[p' ->]]; [left; reflexivity|right; apply Hlen]. }
        destruct b; match type of E' with H ?p1 = H ?p2 => exists p1, p2 end; (split; [|exact E']);
          intros Ep; apply (f_equal (@length _)) in Ep; rewrite (leaf_pre_len rp h k' v' _ Hh W V) in Ep;
          rewrite app_length in Ep; lia. }
      destruct pbits as [|b pb']; cbn [vi th] in E; eapply Gen; exact E.
    + destruct h as [|h']; [simpl in W; contradiction|].
      destruct pbits as [|b pb']; [discriminate|]. simpl in Hp. injection Hp as Hp.
      simpl in W, V. destruct W as [Wl Wr]. destruct V as [Vl Vr].
      cbn [vi] in E. set (x := vi H rest pb' default_leaf) in *.
      assert (Hrp : length (b :: rp) + h' = 256) by (simpl; lia).
      assert (Key : x = th H h' (b :: rp) (if b then r else l) \/ hash_break H).
      { simpl in E. unfold side in E.
        destruct b.
        - match type of E with H ?p1 = H ?p2 => destruct (bytes_eq_dec p1 p2) as [Ep|Ep] end.
          2:{ right. left. eexists; eexists; split; [exact Ep|exact E]. }
          destruct (Nat.eq_dec (length a) (length (th H h' (false :: rp) l))) as [El|El].
          + apply app_eq_len in Ep; auto. left. tauto.
          + right. right. pose proof (f_equal (@length _) Ep) as EL. rewrite !app_length in EL.
            destruct (th_shape H h' (false :: rp) l) as [[-> A1]|[_ [p1 A1]]];
            destruct (th_shape H h' (true :: rp) r) as [[-> B1]|[_ [q1 B1]]];
            destruct (vi_default_shape rest pb') as [X|[px X]]; fold x in X;
            destruct Ha as [->|[pa ->]];
            rewrite ?A1, ?B1, ?X in *; simpl in EL, El; rewrite ?Hlen in EL; rewrite ?Hlen in El; simpl in *; try lia.
            * eapply shift_from; eauto.
            * eapply shift_from; symmetry; eauto.
        - match type of E with H ?p1 = H ?p2 => destruct (bytes_eq_dec p1 p2) as [Ep|Ep] end.
          2:{ right. left. eexists; eexists; split; [exact Ep|exact E]. }
          destruct (Nat.eq_dec (length x) (length (th H h' (false :: rp) l))) as [El|El].
          + apply app_eq_len in Ep; auto. left. tauto.
          + right. right. pose proof (f_equal (@length _) Ep) as EL. rewrite !app_length in EL.
            destruct (th_shape H h' (false :: rp) l) as [[-> A1]|[_ [p1 A1]]];
            destruct (th_shape H h' (true :: rp) r) as [[-> B1]|[_ [q1 B1]]];
            destruct (vi_default_shape rest pb') as [X|[px X]]; fold x in X;
            destruct Ha as [->|[pa ->]];
            rewrite ?A1, ?B1, ?X in *; simpl in EL, El; rewrite ?Hlen in EL; rewrite ?Hlen in El; simpl in *; try lia.
            * eapply shift_from; symmetry; eauto.
            * eapply shift_from; eauto. }
      destruct Key as [Ex|Hb]; [|right; exact Hb].
      assert (W' : wf h' (if b then r else l)) by (destruct b; assumption).
      assert (V' : vals32 (if b then r else l)) by (destruct b; assumption).
      pose proof (IH (if b then r else l) h' (b :: rp) pb' Hrp Hp W' V' Hap' Ex) as IHr.
      destruct IHr as [G|Hb]; [|right; exact Hb].
      left. intros q Hq Hqp. destruct q as [|bq q']; [discriminate|]. simpl in Hq. injection Hq as Hq.
      apply firstn_S_cons in Hqp. destruct Hqp as [-> Hqp].
      simpl. destruct b; apply G; assumption.
Qed.

End S.

(** C11 proofs, part 2: soundness theorems for the four verifiers' plain forms, the
    forgery of empty-subtree non-inclusion proofs (F24) and the empty-trie gap (F25). *)
From Coq Require Import List Bool Arith NArith Lia.
From Verif Require Import Trie.Model Trie.Basics Trie.HashBind Trie.Proof Trie.ProofBasics Trie.ProofSound.
Import ListNotations.

Lemma bits_agree_firstn n : forall a b, length a = length b -> bits_agree n a b = true -> firstn n a = firstn n b.
Proof.
  induction n as [|n IH]; intros a b Hl E; [reflexivity|].
  destruct a as [|x a], b as [|y b]; simpl in *; try discriminate; auto.
  apply andb_true_iff in E. destruct E as [E1 E2]. apply eqb_prop in E1. subst. f_equal. apply IH; auto.
Qed.

Lemma bits_to_bytes_nonempty kbits : length kbits = 256 -> bits_to_bytes kbits <> [].
Proof.
  intros L E. destruct (bits_bytes_inv 32 kbits L) as [_ L']. rewrite E in L'. discriminate.
Qed.

Section T.
Variable H : bytes -> bytes.
Hypothesis Hlen : forall x, length (H x) = 32.

Lemma ap_ok_rev ap : ap_ok ap -> ap_ok (rev ap).
Proof. unfold ap_ok. apply Forall_rev. Qed.
Lemma ap_hashes_rev ap : ap_hashes H ap -> ap_hashes H (rev ap).
Proof. unfold ap_hashes. apply Forall_rev. Qed.

(** shared core: an accepted inclusion recomputation pins down the subtree under the path *)
Lemma inclusion_core t ap kbits value :
  wf 256 t -> vals32 t -> length kbits = 256 -> length value = 32 -> ap_ok ap ->
  verify_inclusion H (root H 256 t) ap (bits_to_bytes kbits) value = true ->
  (forall q, length q = 256 -> firstn (length ap) q = firstn (length ap) kbits ->
     get t q = if key_eqb kbits q then Some value else None) \/ hash_break H.
Proof.
  intros W V Lk Lv Hap E. unfold verify_inclusion in E. apply beqb_eq in E.
  destruct (bits_bytes_inv 32 kbits Lk) as [Inv _]. rewrite Inv in E. unfold leaf_hash in E.
  destruct t as [|k' v'|l r] eqn:Et.
  - exfalso. simpl in E. destruct (vi_is_hash H (rev ap) kbits (bits_to_bytes kbits ++ value ++ [height_byte_sub (length ap)])) as [p' Hp'].
    rewrite Hp' in E. apply (f_equal (@length _)) in E. rewrite Hlen in E. discriminate.
  - rewrite <- (rev_length ap). apply (vi_sound H Hlen (rev ap) (Lf k' v') 256 [] kbits kbits value (height_byte_sub (length ap))); auto.
    apply ap_ok_rev; auto.
  - rewrite <- (rev_length ap). apply (vi_sound H Hlen (rev ap) (Nd l r) 256 [] kbits kbits value (height_byte_sub (length ap))); auto.
    apply ap_ok_rev; auto.
Qed.

(** VerifyInclusion is sound: an accepted (key, value) is stored, unless H is broken *)
Theorem inclusion_sound t ap kbits value :
  wf 256 t -> vals32 t -> length kbits = 256 -> length value = 32 -> ap_ok ap ->
  verify_inclusion H (root H 256 t) ap (bits_to_bytes kbits) value = true ->
  get t kbits = Some value \/ hash_break H.
Proof.
  intros W V Lk Lv Hap E. destruct (inclusion_core t ap kbits value W V Lk Lv Hap E) as [G|B]; [|right; exact B].
  left. rewrite (G kbits Lk eq_refl). rewrite key_eqb_refl. reflexivity.
Qed.

(** no proof of presence of an absent key, no proof of a different value, no transplant of
    a proof to another key / value / root / height: all are instances of inclusion_sound *)
Corollary proof_not_transplantable t ap kbits value :
  wf 256 t -> vals32 t -> length kbits = 256 -> length value = 32 -> ap_ok ap ->
  get t kbits <> Some value ->
  verify_inclusion H (root H 256 t) ap (bits_to_bytes kbits) value = true -> hash_break H.
Proof.
  intros W V Lk Lv Hap Hne E. destruct (inclusion_sound t ap kbits value W V Lk Lv Hap E); [contradiction|assumption].
Qed.

(** VerifyNonInclusion with a foreign proof leaf is sound *)
Theorem non_inclusion_foreign_sound t ap kbits pkbits value :
  wf 256 t -> vals32 t -> length kbits = 256 -> length pkbits = 256 -> length value = 32 -> ap_ok ap ->
  verify_non_inclusion H (root H 256 t) ap (bits_to_bytes kbits) value (bits_to_bytes pkbits) = true ->
  get t kbits = None \/ hash_break H.
Proof.
  intros W V Lk Lp Lv Hap E. unfold verify_non_inclusion in E.
  destruct (bits_to_bytes pkbits) as [|p0 ptl] eqn:Epk; [exfalso; eapply bits_to_bytes_nonempty; eauto|].
  rewrite <- Epk in E.
  destruct (beqb (bits_to_bytes pkbits) (bits_to_bytes kbits)) eqn:Eq; [discriminate|].
  destruct (verify_inclusion H (root H 256 t) ap (bits_to_bytes pkbits) value) eqn:Ev; [|discriminate]. simpl in E.
  destruct (bits_bytes_inv 32 kbits Lk) as [Ik _]. destruct (bits_bytes_inv 32 pkbits Lp) as [Ip _].
  rewrite Ik, Ip in E. apply bits_agree_firstn in E; [|congruence].
  destruct (inclusion_core t ap pkbits value W V Lp Lv Hap Ev) as [G|B]; [|right; exact B].
  left. rewrite (G kbits Lk E).
  destruct (key_eqb pkbits kbits) eqn:Ek; [|reflexivity].
  apply key_eqb_eq in Ek. subst. rewrite (proj2 (beqb_eq _ _) eq_refl) in Eq. discriminate.
Qed.

(** VerifyNonInclusion with an empty proofKey: sound only when the audit nodes are hash
    outputs, which a verifier cannot check (partial; the full statement is false, below) *)
Theorem non_inclusion_empty_sound_partial t ap kbits value :
  wf 256 t -> vals32 t -> length kbits = 256 -> ap_hashes H ap ->
  verify_non_inclusion H (root H 256 t) ap (bits_to_bytes kbits) value [] = true ->
  get t kbits = None \/ hash_break H.
Proof.
  intros W V Lk Hap E. unfold verify_non_inclusion in E. apply beqb_eq in E.
  destruct (bits_bytes_inv 32 kbits Lk) as [Inv _]. rewrite Inv in E.
  destruct t as [|k' v'|l r] eqn:Et.
  - left. reflexivity.
  - destruct (vi_default_sound H Hlen (rev ap) (Lf k' v') 256 [] kbits) as [G|B]; auto.
    apply ap_hashes_rev; auto.
  - destruct (vi_default_sound H Hlen (rev ap) (Nd l r) 256 [] kbits) as [G|B]; auto.
    apply ap_hashes_rev; auto.
Qed.

(** F24.  The full statement (without [ap_hashes]) is false of the code: whenever the hash
    of the right child of a node with an empty left side ends in a zero byte, the one-node
    audit path [0 :: z] with a DefaultLeaf leaf is accepted as a proof of absence for EVERY
    key below that child, present or not.  (Mirror image for an empty right side and a
    hash starting with zero; deeper nodes: prefix the honest path.)  Holds for every H. *)
Theorem non_inclusion_forgery (r : tree bytes) z kbits value :
  length kbits = 256 -> hd false kbits = true ->
  th H 255 [true] r = z ++ [0%N] ->
  verify_non_inclusion H (root H 256 (Nd E r)) [0%N :: z] (bits_to_bytes kbits) value [] = true.
Proof.
  intros Lk Hhd Hr. unfold verify_non_inclusion. apply beqb_eq.
  destruct (bits_bytes_inv 32 kbits Lk) as [Inv _]. rewrite Inv.
  destruct kbits as [|b k']; [discriminate|]. simpl in Hhd. subst b.
  simpl. unfold side. rewrite Hr. reflexivity.
Qed.

(** ... in particular for a key that IS stored there *)
Corollary non_inclusion_forgery_present (r : tree bytes) z k' v value :
  length k' = 255 -> get r k' = Some v -> th H 255 [true] r = z ++ [0%N] ->
  get (Nd E r) (true :: k') = Some v /\
  verify_non_inclusion H (root H 256 (Nd E r)) [0%N :: z] (bits_to_bytes (true :: k')) value [] = true.
Proof.
  intros Lk Hg Hr. split; [exact Hg|]. apply non_inclusion_forgery; auto. simpl. lia.
Qed.

(** F25.  The honest proof of absence against the empty trie (nil root) is rejected. *)
Theorem empty_trie_proof_rejected kbits :
  let '(mp, inc, pk, pv) := mproof H 256 [] E kbits in
  inc = false /\ verify_non_inclusion H (root H 256 E) mp (bits_to_bytes kbits) pv pk = false.
Proof. simpl. split; reflexivity. Qed.

End T.

(** C10 model: trie_revert.go (Revert to a past root), the pastTries bookkeeping and Stash,
    at the level of trees and batch-root hashes.  No proofs here.

    Revert(toOldRoot) walks toOldRoot and every LATER past trie in parallel, position by
    position, and collects for deletion the batch roots (nodes whose height is a multiple of
    4, i.e. the keys of the disk store) of the later trie that differ from the node of
    toOldRoot at the same position ([mds] = maybeDeleteSubTree, [all_roots] = deleteSubTree);
    the collected keys are then deleted from the store.  If toOldRoot itself is a shortcut
    batch it is written back afterwards (byte(256) == byte(0), see F21).

    Neither Revert nor Stash is called by the node (state/statedb/statedb.go has the call
    commented out); LoadCache is called but is a no-op with CacheHeightLimit = TrieHeight+1. *)
From Coq Require Import List Bool Arith NArith.
From Verif Require Import Trie.Model Trie.Proof.
Import ListNotations.

Section Rv.
Variable H : bytes -> bytes.

Definition is_leaf_t (t : tree bytes) : bool := match t with Lf _ _ => true | _ => false end.
Definition is_empty_t (t : tree bytes) : bool := match t with E => true | _ => false end.
(** the node bytes compared by bytes.Equal(original, maybeDelete): hash ++ flag, nil if empty *)
Definition node_bytes (h : nat) (rp : list bool) (t : tree bytes) : bytes :=
  match t with E => [] | Lf _ _ => th H h rp t ++ [1%N] | Nd _ _ => th H h rp t ++ [0%N] end.
Definition boundary (h : nat) : bool := Nat.eqb (h mod 4) 0.
(** maybeDeleteRevertedNode: only batch roots are keys of the store *)
Definition add_root (h : nat) (rp : list bool) (t : tree bytes) : list bytes :=
  if boundary h then [th H h rp t] else [].
Definition left_of (t : tree bytes) : tree bytes := match t with Nd l _ => l | _ => E end.
Definition right_of (t : tree bytes) : tree bytes := match t with Nd _ r => r | _ => E end.

(** deleteSubTree *)
Fixpoint all_roots (h : nat) (rp : list bool) (t : tree bytes) {struct h} : list bytes :=
  match h with
  | O => [match t with E => [] | _ => th H 0 rp t end]
  | S h' =>
      match t with
      | E => []
      | Lf _ _ => add_root h rp t
      | Nd l r => all_roots h' (false :: rp) l ++ all_roots h' (true :: rp) r ++ add_root h rp t
      end
  end.

(** maybeDeleteSubTree(original, maybeDelete) *)
Fixpoint mds (h : nat) (rp : list bool) (o d : tree bytes) {struct h} : list bytes :=
  match h with
  | O => if negb (beqb (node_bytes 0 rp o) (node_bytes 0 rp d)) && negb (is_empty_t d) then [th H 0 rp d] else []
  | S h' =>
      if beqb (node_bytes h rp o) (node_bytes h rp d) || is_empty_t d then []
      else if negb (Bool.eqb (is_leaf_t o) (is_leaf_t d)) then
        (if is_leaf_t o then all_roots h rp d else add_root h rp d)
      else if is_leaf_t o then add_root h rp d          (* two different shortcuts *)
      else add_root h rp d ++ mds h' (false :: rp) (left_of o) (left_of d)
                           ++ mds h' (true :: rp) (right_of o) (right_of d)
  end.

(** Revert: the keys deleted when reverting to [target] with the later past tries [later] *)
Definition revert_dels (target : tree bytes) (later : list (tree bytes)) : list bytes :=
  concat (map (mds 256 [] target) later).

(** pastTries bookkeeping (maxPastTries = 300): Commit appends the root, Revert truncates *)
Definition max_past_tries := 300.
Definition past_push (past : list bytes) (r : bytes) : list bytes :=
  if Nat.leb max_past_tries (length past) then tl past ++ [r] else past ++ [r].
Fixpoint index_of (past : list bytes) (r : bytes) (i : nat) : option nat :=
  match past with
  | [] => None
  | x :: tl => if beqb x r then Some i else index_of tl r (S i)
  end.
(** Revert(r) is refused when r is the current root or not in pastTries; otherwise pastTries
    is cut after the FIRST occurrence of r *)
Definition past_revert (past : list bytes) (cur r : bytes) : option (list bytes) :=
  match index_of past r 0 with
  | None => None
  | Some i => if beqb cur r then None else Some (firstn (S i) past)
  end.
End Rv.

(** Proofs about the Revert model: what is deleted are batch roots of the later tries only,
    reverting over an identical trie deletes nothing, and the two refutations (F26, F27). *)
From Coq Require Import List Bool Arith NArith Lia.
From Verif Require Import Trie.Model Trie.Basics Trie.HashBind Trie.Proof Trie.ProofBasics Trie.ProofSound
  Trie.ProofTop Trie.ProofComplete Trie.RevertModel.
Import ListNotations.

Section RvP.
Variable H : bytes -> bytes.

Lemma add_root_in_all h rp t x : t <> E -> h <> 0 -> In x (add_root H h rp t) -> In x (all_roots H h rp t).
Proof.
  intros Hne Hh Hin. destruct h as [|h']; [congruence|]. destruct t as [|k v|l r]; [congruence| |]; cbn [all_roots]; auto.
  apply in_or_app. right. apply in_or_app. right. exact Hin.
Qed.

(** every key Revert deletes is the key of a batch root of the later trie *)
Theorem mds_subset_all_roots : forall h rp o d x, In x (mds H h rp o d) -> In x (all_roots H h rp d).
Proof.
  induction h as [|h' IH]; intros rp o d x Hin; cbn [mds] in Hin.
  - destruct (negb (beqb (node_bytes H 0 rp o) (node_bytes H 0 rp d)) && negb (is_empty_t d)) eqn:Ec; [|contradiction].
    apply andb_true_iff in Ec. destruct Ec as [_ Ed]. destruct d; [discriminate| |]; exact Hin.
  - destruct (beqb (node_bytes H (S h') rp o) (node_bytes H (S h') rp d) || is_empty_t d) eqn:Ec; [contradiction|].
    apply orb_false_iff in Ec. destruct Ec as [_ Ed].
    assert (Hne : d <> E) by (destruct d; [discriminate| |]; discriminate).
    destruct (negb (Bool.eqb (is_leaf_t o) (is_leaf_t d))).
    + destruct (is_leaf_t o); [exact Hin|apply add_root_in_all; auto].
    + destruct (is_leaf_t o) eqn:Eo; [apply add_root_in_all; auto|].
      apply in_app_or in Hin. destruct Hin as [Hin|Hin]; [apply add_root_in_all; auto|].
      destruct d as [|k v|l r]; [congruence| |].
      * (* d is a leaf: its children are empty, nothing below *)
        exfalso. cbn [left_of right_of] in Hin. apply in_app_or in Hin.
        assert (Hz : forall hh rr oo, mds H hh rr oo E = []).
        { intros hh rr oo. destruct hh; cbn [mds]; simpl; [rewrite andb_false_r; reflexivity|rewrite orb_true_r; reflexivity]. }
        rewrite !Hz in Hin. destruct Hin as [[]|[]].
      * cbn [left_of right_of all_roots] in *. apply in_app_or in Hin. apply in_or_app.
        destruct Hin as [Hin|Hin]; [left; eapply IH; eauto|right; apply in_or_app; left; eapply IH; eauto].
Qed.

Lemma beqb_refl' a : beqb a a = true.
Proof. apply beqb_eq. reflexivity. Qed.

(** a later trie equal to the target contributes nothing *)
Theorem mds_same h rp t : mds H h rp t t = [].
Proof.
  destruct h; cbn [mds]; rewrite beqb_refl'; reflexivity.
Qed.

End RvP.

(** ---- refutations, with the concrete 32-byte hash [ex_H] of ProofComplete.v ---- *)
Definition rv_k : key := repeat false 256.
Definition rv_A : tree bytes := Lf rv_k (ex_v 1).
Definition rv_B : tree bytes := Lf rv_k (ex_v 2).

(** F26: history A -> B -> A; Revert(B) deletes the (only) batch of the later A, which is
    also the batch of the older past root A *)
Example revert_older_root_lost :
  rv_A <> rv_B /\ In (root ex_H 256 rv_A) (revert_dels ex_H rv_B [rv_A]).
Proof. split; [discriminate|]. vm_compute. left. reflexivity. Qed.

(** F27: the target holds two keys differing in the last bit (leaves at height 0); the later
    trie holds one of them alone (root shortcut, height 256) with the same value: the key
    deleted for the later root is the key of the TARGET's height-0 leaf batch *)
Definition rv_a : key := repeat false 256.
Definition rv_b : key := repeat false 255 ++ [true].
Fixpoint rv_spine (n : nat) (t : tree bytes) : tree bytes :=
  match n with O => t | S n' => Nd (rv_spine n' t) E end.
Definition rv_target : tree bytes := rv_spine 255 (Nd (Lf [] (ex_v 1)) (Lf [] (ex_v 2))).
Definition rv_later : tree bytes := Lf rv_a (ex_v 1).

Example revert_target_lost_alias :
  get rv_target rv_a = Some (ex_v 1) /\ get rv_target rv_b = Some (ex_v 2) /\ wf 256 rv_target /\
  In (th ex_H 0 (repeat false 256) (Lf [] (ex_v 1))) (revert_dels ex_H rv_target [rv_later]) /\
  In (th ex_H 0 (repeat false 256) (Lf [] (ex_v 1))) (all_roots ex_H 256 [] rv_target).
Proof.
  split; [vm_compute; reflexivity|]. split; [vm_compute; reflexivity|]. split; [vm_compute; repeat split|].
  split.
  - vm_compute. left. reflexivity.
  - vm_compute. left. reflexivity.
Qed.

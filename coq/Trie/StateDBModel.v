(** C10, statedb layer (state/statedb: statedb.go update/updateStorage, storage.go
    bufferedStorage.update, contract.go StageContractState): the state is a TWO-LEVEL map.
    The account trie maps an account id to H(marshal(state)); the state of a contract carries,
    in its StorageRoot field, the root of that contract's own storage trie (variable id ->
    H(value)).  When a block is applied, every staged storage is updated first, the new root
    of the storage trie is handed over into the account's state ([st.StorageRoot =
    storage.Trie.Root], empty storage = empty root), and only then the account trie is updated
    with the new leaf values.

    Model: [sdb] = account tree + table of account states (what the store keeps under the leaf
    values) + one storage tree per account; [stage_contract] is the effect of a block on one
    contract: the storage batch (possibly none), the hand-over of the storage root, the account
    leaf.  [acct] (types.State) is abstract: [marshal] its encoding (C19), [sroot] / [set_sroot]
    the StorageRoot field, [payload] everything else. *)
From Coq Require Import List Bool Arith NArith Lia.
From Verif Require Import Trie.Model Trie.Basics Trie.GetUpdate Trie.Canon Trie.History Trie.HashBind.
Import ListNotations.

Section SDBM.
Variable H : bytes -> bytes.
Variable acct : Type.
Variable pl : Type.
Variable marshal : acct -> bytes.
Variable sroot : acct -> bytes.
Variable payload : acct -> pl.
Variable set_sroot : acct -> bytes -> acct.
Hypothesis sroot_set : forall a r, sroot (set_sroot a r) = r.
Hypothesis payload_set : forall a r, payload (set_sroot a r) = payload a.
Hypothesis acct_ext : forall a b, payload a = payload b -> sroot a = sroot b -> a = b.

Record sdb := { accs : tree bytes; table : key -> option acct; stor : key -> tree bytes }.

Definition kupd {A : Type} (f : key -> A) (k : key) (a : A) : key -> A :=
  fun k' => if key_eqb k k' then a else f k'.

Definition leaf_of (st : acct) : bytes := H (marshal st).

Definition sdb_ok (s : sdb) : Prop :=
  wf 256 (accs s) /\ canon (accs s) /\
  (forall ka, length ka = 256 -> get (accs s) ka = option_map leaf_of (table s ka)) /\
  (forall ka, wf 256 (stor s ka) /\ canon (stor s ka)) /\
  (forall ka st, table s ka = Some st -> sroot st = root H 256 (stor s ka)).

Definition empty_sdb : sdb := {| accs := E; table := fun _ => None; stor := fun _ => E |}.

(** storage.update() + updateStorage() + Buffer.updateTrie for one contract [ka] whose state
    object is [st] (loaded or new, payload possibly changed) and whose staged storage writes
    are the sorted batch [ws] ([] = storage not touched) *)
Definition new_storage (s : sdb) (ka : key) (ws : batch bytes) : tree bytes :=
  match ws with [] => stor s ka | _ => trie_update 256 (stor s ka) ws end.

Definition handed_over (s : sdb) (ka : key) (st : acct) (ws : batch bytes) : acct :=
  set_sroot st (root H 256 (new_storage s ka ws)).

Definition stage_contract (s : sdb) (ka : key) (st : acct) (ws : batch bytes) : sdb :=
  let st' := handed_over s ka st ws in
  {| accs := trie_update 256 (accs s) [(ka, Some (leaf_of st'))];
     table := kupd (table s) ka (Some st');
     stor := kupd (stor s) ka (new_storage s ka ws) |}.

(** reading a contract variable the way a fresh StateDB does: account leaf -> state -> storage
    root -> storage trie *)
Definition read_var (s : sdb) (ka kv : key) : option bytes :=
  match table s ka with Some _ => get (stor s ka) kv | None => None end.

Lemma kupd_same {A : Type} (f : key -> A) k a : kupd f k a k = a.
Proof. unfold kupd. rewrite key_eqb_refl. reflexivity. Qed.
Lemma kupd_other {A : Type} (f : key -> A) k a k' : k <> k' -> kupd f k a k' = f k'.
Proof. intro N. unfold kupd. apply key_eqb_neq in N. rewrite N. reflexivity. Qed.

Lemma empty_ok : sdb_ok empty_sdb.
Proof.
  unfold sdb_ok, empty_sdb; cbn [accs table stor].
  split; [apply (@wf_E bytes)|]. split; [exact I|]. split; [intros; reflexivity|].
  split; [intro; split; [apply (@wf_E bytes)|exact I]|]. intros; discriminate.
Qed.

Definition ws_ok (ws : batch bytes) : Prop := ws = [] \/ good_batch 256 ws.

Lemma new_storage_ok s ka ws : sdb_ok s -> ws_ok ws ->
  wf 256 (new_storage s ka ws) /\ canon (new_storage s ka ws).
Proof.
  intros (_ & _ & _ & Hs & _) [->|(Hl & Hso & Hne)]; [exact (Hs ka)|].
  destruct (Hs ka) as [W C]. unfold new_storage. destruct ws as [|x ws]; [congruence|].
  split; [apply update_wf|apply update_canon]; assumption.
Qed.

Lemma new_storage_get s ka ws kv : sdb_ok s -> ws_ok ws -> length kv = 256 ->
  get (new_storage s ka ws) kv = override ws (get (stor s ka)) kv.
Proof.
  intros (_ & _ & _ & Hs & _) [->|(Hl & Hso & Hne)] Lk; [reflexivity|].
  destruct (Hs ka) as [W C]. unfold new_storage. destruct ws as [|x ws]; [congruence|].
  apply get_update; assumption.
Qed.

Lemma single_good (ka : key) (ov : option bytes) : length ka = 256 -> good_batch 256 [(ka, ov)].
Proof.
  intro L. split; [|split].
  - constructor; [exact L|constructor].
  - simpl. split; [constructor|exact I].
  - discriminate.
Qed.

(** the invariant is kept by every staged contract / account *)
Theorem stage_keeps_ok s ka st ws : sdb_ok s -> length ka = 256 -> ws_ok ws ->
  sdb_ok (stage_contract s ka st ws).
Proof.
  intros Hok Lk Hws. pose proof Hok as (Wa & Ca & Ga & Hs & Hr).
  destruct (single_good ka (Some (leaf_of (handed_over s ka st ws))) Lk) as (Bl & Bs & Bne).
  unfold sdb_ok, stage_contract; cbn [accs table stor]. split; [|split; [|split; [|split]]].
  - apply update_wf; assumption.
  - apply update_canon; assumption.
  - intros k Lk'. unfold trie_update. rewrite (get_update 256 (accs s) _ k Wa Bl Bs Bne Lk').
    unfold override, kupd; cbn [blookup]. destruct (key_eqb ka k); [reflexivity|]. apply Ga; exact Lk'.
  - intro k. unfold kupd. destruct (key_eqb ka k); [apply new_storage_ok; assumption|apply Hs].
  - intros k st0. unfold kupd. destruct (key_eqb ka k) eqn:Ek.
    + intro Es. injection Es as <-. unfold handed_over. apply sroot_set.
    + apply Hr.
Qed.

Lemma stage_get_accs s ka st ws k : sdb_ok s -> length ka = 256 -> length k = 256 ->
  get (accs (stage_contract s ka st ws)) k =
  (if key_eqb ka k then Some (leaf_of (handed_over s ka st ws)) else get (accs s) k).
Proof.
  intros (Wa & Ca & Ga & Hs & Hr) Lk Lk'.
  destruct (single_good ka (Some (leaf_of (handed_over s ka st ws))) Lk) as (Bl & Bs & Bne).
  unfold stage_contract; cbn [accs]. unfold trie_update.
  rewrite (get_update 256 (accs s) _ k Wa Bl Bs Bne Lk').
  unfold override; cbn [blookup]. destruct (key_eqb ka k); reflexivity.
Qed.

(** the hand-over: after the block the account leaf of [ka] is the hash of a state whose
    storage root IS the root of the contract's updated storage trie, and that trie holds the
    overridden contents *)
Theorem storage_root_handover s ka st ws : sdb_ok s -> length ka = 256 -> ws_ok ws ->
  exists st', table (stage_contract s ka st ws) ka = Some st' /\ payload st' = payload st /\
    sroot st' = root H 256 (stor (stage_contract s ka st ws) ka) /\
    get (accs (stage_contract s ka st ws)) ka = Some (leaf_of st') /\
    forall kv, length kv = 256 ->
      read_var (stage_contract s ka st ws) ka kv = override ws (get (stor s ka)) kv.
Proof.
  intros Hok Lk Hws. exists (handed_over s ka st ws).
  split; [unfold stage_contract; cbn [table]; apply kupd_same|].
  split; [apply payload_set|].
  split; [unfold stage_contract; cbn [stor]; rewrite kupd_same; apply sroot_set|].
  split.
  - rewrite (stage_get_accs s ka st ws ka Hok Lk Lk). rewrite key_eqb_refl. reflexivity.
  - intros kv Lkv. unfold read_var, stage_contract; cbn [table stor]. rewrite !kupd_same.
    apply new_storage_get; assumption.
Qed.

(** a block that deletes the LAST keys of a contract hands over the EMPTY root *)
Theorem emptied_storage_empty_root s ka st ws : sdb_ok s -> length ka = 256 -> ws_ok ws ->
  (forall kv, length kv = 256 -> override ws (get (stor s ka)) kv = None) ->
  stor (stage_contract s ka st ws) ka = E /\
  exists st', table (stage_contract s ka st ws) ka = Some st' /\ sroot st' = [].
Proof.
  intros Hok Lk Hws Hall. unfold stage_contract; cbn [accs table stor]. rewrite !kupd_same.
  destruct (new_storage_ok s ka ws Hok Hws) as [W C].
  assert (En : new_storage s ka ws = E).
  { apply (canon_unique 256); auto; [apply (@wf_E bytes)|exact I|].
    intros kv Lkv. rewrite (new_storage_get s ka ws kv Hok Hws Lkv). rewrite Hall by exact Lkv. reflexivity. }
  split; [exact En|]. exists (handed_over s ka st ws). split; [reflexivity|].
  unfold handed_over. rewrite sroot_set, En. reflexivity.
Qed.

(** other contracts and accounts are not touched *)
Theorem stage_other_untouched s ka st ws kb : ka <> kb ->
  table (stage_contract s ka st ws) kb = table s kb /\ stor (stage_contract s ka st ws) kb = stor s kb.
Proof. intro N. unfold stage_contract; cbn [accs table stor]. rewrite !kupd_other by exact N. auto. Qed.

(** history independence at the state level: two states (whatever blocks produced them) with
    the same account payloads and the same storage contents have the same state root *)
Theorem state_root_determined_by_contents s1 s2 : sdb_ok s1 -> sdb_ok s2 ->
  (forall ka, length ka = 256 -> option_map payload (table s1 ka) = option_map payload (table s2 ka)) ->
  (forall ka kv, length ka = 256 -> length kv = 256 -> table s1 ka <> None -> get (stor s1 ka) kv = get (stor s2 ka) kv) ->
  accs s1 = accs s2 /\ root H 256 (accs s1) = root H 256 (accs s2).
Proof.
  intros (W1 & C1 & G1 & S1 & R1) (W2 & C2 & G2 & S2 & R2) Hp Hs.
  assert (Ea : accs s1 = accs s2).
  { apply (canon_unique 256); auto. intros ka Lk. rewrite (G1 ka Lk), (G2 ka Lk).
    specialize (Hp ka Lk). specialize (Hs ka).
    destruct (table s1 ka) as [a|] eqn:T1, (table s2 ka) as [b|] eqn:T2; simpl in *; try discriminate; [|reflexivity].
    injection Hp as Hp. f_equal. f_equal. f_equal. apply acct_ext; [exact Hp|].
    rewrite (R1 ka a T1), (R2 ka b T2). f_equal.
    destruct (S1 ka) as [Wa Ca], (S2 ka) as [Wb Cb].
    apply (canon_unique 256); auto. intros kv Lkv. apply Hs; auto. discriminate. }
  split; [exact Ea|]. rewrite Ea. reflexivity.
Qed.

End SDBM.

Arguments accs {acct}. Arguments table {acct}. Arguments stor {acct}.
Arguments sdb_ok H {acct}. Arguments stage_contract H {acct}. Arguments read_var {acct}.
Arguments leaf_of H {acct}. Arguments empty_sdb {acct}.

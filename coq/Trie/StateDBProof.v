(** C11, statedb layer (state/statedb/statedb.go: GetAccountAndProof, GetVarAndProof;
    storage.go): the account trie maps H(account id) to H(marshal(state)); the state record
    carries the root of the contract's storage trie, which maps H(variable key) to H(value).
    A light client verifies an account proof against the block's state root, takes the storage
    root out of the proved state and verifies a variable proof against it.

    Model: the protobuf encoding of types.State is an injective function [marshal] (its
    concrete format is the subject of C19), [sroot] is its StorageRoot field; both tries use
    the same hash function as the trie itself (common.Hasher).  Composition: the two verified
    proofs bind the variable's value to the state root, unless the hash is broken. *)
From Coq Require Import List Bool Arith NArith Lia.
From Verif Require Import Trie.Model Trie.Basics Trie.HashBind Trie.Proof Trie.ProofBasics Trie.ProofSound Trie.ProofTop.
Import ListNotations.

Section SDB.
Variable H : bytes -> bytes.
Hypothesis Hlen : forall x, length (H x) = 32.
Variable acct : Type.
Variable marshal : acct -> bytes.
Variable sroot : acct -> bytes.
Hypothesis marshal_inj : forall a b, marshal a = marshal b -> a = b.

(** the world a state root commits to: the account trie, and for the contract [ka] its real
    state [st] whose storage root is the root of the storage trie [ts] *)
Record world := { w_acc : tree bytes; w_ka : key; w_st : acct; w_sto : tree bytes }.
Definition world_ok (w : world) : Prop :=
  wf 256 (w_acc w) /\ vals32 (w_acc w) /\ wf 256 (w_sto w) /\ vals32 (w_sto w) /\ length (w_ka w) = 256 /\
  get (w_acc w) (w_ka w) = Some (H (marshal (w_st w))) /\ sroot (w_st w) = root H 256 (w_sto w).

(** the client's check for "variable kv of contract ka has value val" *)
Definition client_accepts (state_root : bytes) (ka : key) (st' : acct) (ap_a : list bytes)
  (kv : key) (val : bytes) (ap_v : list bytes) : bool :=
  verify_inclusion H state_root ap_a (bits_to_bytes ka) (H (marshal st')) &&
  verify_inclusion H (sroot st') ap_v (bits_to_bytes kv) (H val).

Theorem account_var_composition_sound w st' ap_a kv val ap_v :
  world_ok w -> length kv = 256 -> ap_ok ap_a -> ap_ok ap_v ->
  client_accepts (root H 256 (w_acc w)) (w_ka w) st' ap_a kv val ap_v = true ->
  (st' = w_st w /\ get (w_sto w) kv = Some (H val)) \/ hash_break H.
Proof.
  intros (Wa & Va & Ws & Vs & Lk & Ga & Sr) Lkv Oa Ov Hc. unfold client_accepts in Hc.
  apply andb_true_iff in Hc. destruct Hc as [C1 C2].
  destruct (inclusion_sound H Hlen (w_acc w) ap_a (w_ka w) (H (marshal st')) Wa Va Lk (Hlen _) Oa C1) as [G|B]; [|right; exact B].
  rewrite Ga in G. injection G as G.
  destruct (bytes_eq_dec (marshal (w_st w)) (marshal st')) as [Em|Em].
  2:{ right. left. exists (marshal (w_st w)), (marshal st'). split; auto. }
  apply marshal_inj in Em. subst st'.
  rewrite Sr in C2.
  destruct (inclusion_sound H Hlen (w_sto w) ap_v kv (H val) Ws Vs Lkv (Hlen _) Ov C2) as [G2|B]; [|right; exact B].
  left. auto.
Qed.

(** ... and the proved value itself is the stored one when values are hashed injectively
    modulo collisions: two accepted values for the same variable coincide *)
Corollary account_var_value_unique w st1 ap1 kv val1 apv1 st2 ap2 val2 apv2 :
  world_ok w -> length kv = 256 -> ap_ok ap1 -> ap_ok apv1 -> ap_ok ap2 -> ap_ok apv2 ->
  client_accepts (root H 256 (w_acc w)) (w_ka w) st1 ap1 kv val1 apv1 = true ->
  client_accepts (root H 256 (w_acc w)) (w_ka w) st2 ap2 kv val2 apv2 = true ->
  (st1 = st2 /\ val1 = val2) \/ hash_break H.
Proof.
  intros Hw Lkv O1 O1v O2 O2v C1 C2.
  destruct (account_var_composition_sound w st1 ap1 kv val1 apv1 Hw Lkv O1 O1v C1) as [[E1 G1]|B]; [|right; exact B].
  destruct (account_var_composition_sound w st2 ap2 kv val2 apv2 Hw Lkv O2 O2v C2) as [[E2 G2]|B]; [|right; exact B].
  rewrite G1 in G2. injection G2 as G2.
  destruct (bytes_eq_dec val1 val2) as [Ev|Ev]; [left; split; congruence|].
  right. left. exists val1, val2. auto.
Qed.

(** absence of a variable (foreign leaf on the path) composed with a verified account proof *)
Theorem account_var_absence_sound w st' ap_a kv pkbits pv ap_v :
  world_ok w -> length kv = 256 -> length pkbits = 256 -> length pv = 32 -> ap_ok ap_a -> ap_ok ap_v ->
  verify_inclusion H (root H 256 (w_acc w)) ap_a (bits_to_bytes (w_ka w)) (H (marshal st')) = true ->
  verify_non_inclusion H (sroot st') ap_v (bits_to_bytes kv) pv (bits_to_bytes pkbits) = true ->
  (st' = w_st w /\ get (w_sto w) kv = None) \/ hash_break H.
Proof.
  intros (Wa & Va & Ws & Vs & Lk & Ga & Sr) Lkv Lp Lv Oa Ov C1 C2.
  destruct (inclusion_sound H Hlen (w_acc w) ap_a (w_ka w) (H (marshal st')) Wa Va Lk (Hlen _) Oa C1) as [G|B]; [|right; exact B].
  rewrite Ga in G. injection G as G.
  destruct (bytes_eq_dec (marshal (w_st w)) (marshal st')) as [Em|Em].
  2:{ right. left. exists (marshal (w_st w)), (marshal st'). split; auto. }
  apply marshal_inj in Em. subst st'. rewrite Sr in C2.
  destruct (non_inclusion_foreign_sound H Hlen (w_sto w) ap_v kv pkbits pv Ws Vs Lkv Lp Lv Ov C2) as [G2|B]; [|right; exact B].
  left. auto.
Qed.

End SDB.

(** C10 persistence layer: commit = adding the nodes of the committed tree to a
    content-addressed store that only grows; opening a root loads the tree back.

    Abstraction: the real store maps the hash of a 4-level BATCH of nodes (31 slots, bitmap
    serialisation, trie_cache.go / loadBatch / parseBatch) to its bytes; here every node is
    stored on its own under its hash.  What is kept: keys are hashes of contents, commit
    never overwrites or deletes, a leaf node is the same node wherever it sits (its
    remaining key is recomputed from the position when loading).  Revert is not modelled. *)
From Coq Require Import List Bool Arith NArith Lia.
From Verif Require Import Trie.Model Trie.Basics Trie.HashBind Trie.Proof Trie.ProofBasics Trie.ProofSound.
Import ListNotations.

Inductive node := NLeaf (kb v : bytes) (hb : N) | NInt (l r : bytes).
Definition node_pre (n : node) : bytes :=
  match n with NLeaf kb v hb => kb ++ v ++ [hb] | NInt l r => l ++ r end.
Definition store := list (bytes * node).

Fixpoint lookup (s : store) (x : bytes) : option node :=
  match s with
  | [] => None
  | (y, n) :: tl => if beqb y x then Some n else lookup tl x
  end.

Section St.
Variable H : bytes -> bytes.

Fixpoint nodes_of (h : nat) (rp : list bool) (t : tree bytes) : store :=
  match t with
  | E => []
  | Lf k v => [(th H h rp t, NLeaf (bits_to_bytes (rev_append rp k)) v (height_byte h))]
  | Nd l r => (th H h rp t, NInt (th H (pred h) (false :: rp) l) (th H (pred h) (true :: rp) r))
              :: nodes_of (pred h) (false :: rp) l ++ nodes_of (pred h) (true :: rp) r
  end.

(** Commit: the store only grows (existing entries keep priority) *)
Definition commit (s : store) (t : tree bytes) : store := s ++ nodes_of 256 [] t.

Fixpoint load (s : store) (h : nat) (rp : list bool) (x : bytes) : option (tree bytes) :=
  if beqb x default_leaf then Some E
  else match lookup s x with
       | None => None
       | Some (NLeaf kb v _) => Some (Lf (skipn (length rp) (bytes_to_bits kb)) v)
       | Some (NInt l r) =>
           match h with
           | O => None
           | S h' => match load s h' (false :: rp) l, load s h' (true :: rp) r with
                     | Some a, Some b => Some (Nd a b)
                     | _, _ => None
                     end
           end
       end.

(** a fresh Trie instance on the store at a root (nil root = empty trie) *)
Definition open_root (s : store) (x : bytes) : option (tree bytes) :=
  match x with [] => Some E | _ => load s 256 [] x end.

End St.

(** Proofs about the persistence model Store.v: commits only add, old roots stay loadable
    to the same tree, a reopened tree equals the committed one (up to a hash break). *)
From Coq Require Import List Bool Arith NArith Lia.
From Verif Require Import Trie.Model Trie.Basics Trie.HashBind Trie.Proof Trie.ProofBasics Trie.ProofSound Trie.Store.
Import ListNotations.

Section StP.
Variable H : bytes -> bytes.
Notation nodes_of := (nodes_of H).
Notation commit := (commit H).

Lemma lookup_app s s' x : lookup (s ++ s') x = match lookup s x with Some n => Some n | None => lookup s' x end.
Proof. induction s as [|[y n] s IH]; simpl; [reflexivity|]. destruct (beqb y x); auto. Qed.

(** commit_monotone: committed entries are never changed by later commits *)
Theorem commit_monotone s s' x n : lookup s x = Some n -> lookup (s ++ s') x = Some n.
Proof. intros E. rewrite lookup_app, E. reflexivity. Qed.

(** old_root_readable: whatever loads at a root keeps loading, to the same tree, after any
    further commits *)
Theorem old_root_readable s s' : forall h rp x t, load s h rp x = Some t -> load (s ++ s') h rp x = Some t.
Proof.
  induction h as [|h IH]; intros rp x t E; simpl in *.
  - destruct (beqb x default_leaf); [exact E|]. rewrite lookup_app.
    destruct (lookup s x) as [[kb v hb|l r]|]; [exact E|discriminate|discriminate].
  - destruct (beqb x default_leaf); [exact E|]. rewrite lookup_app.
    destruct (lookup s x) as [[kb v hb|l r]|]; [exact E| |discriminate].
    destruct (load s h (false :: rp) l) as [a|] eqn:Ea; [|discriminate].
    destruct (load s h (true :: rp) r) as [b|] eqn:Eb; [|discriminate].
    rewrite (IH _ _ _ Ea), (IH _ _ _ Eb). exact E.
Qed.

Corollary old_root_readable_open s s' x t : open_root s x = Some t -> open_root (s ++ s') x = Some t.
Proof. unfold open_root. destruct x; [auto|]. apply old_root_readable. Qed.

(** ---- a reopened tree equals the committed one ---- *)
Hypothesis Hlen : forall x, length (H x) = 32.

Definition child_ok (c : bytes) : Prop := c = default_leaf \/ exists p, c = H p.
Definition node_wf (n : node) : Prop :=
  match n with
  | NLeaf kb v _ => length kb = 32 /\ length v = 32
  | NInt l r => child_ok l /\ child_ok r
  end.
(** every entry is stored under the hash of its contents *)
Definition store_ok (s : store) : Prop :=
  forall x n, lookup s x = Some n -> x = H (node_pre n) /\ node_wf n.

Lemma child_len c : child_ok c -> length c = 1 \/ length c = 32.
Proof. intros [->|[p ->]]; [left; reflexivity|right; apply Hlen]. Qed.

Lemma th_child_ok h rp t : child_ok (th H h rp t).
Proof. destruct (th_shape H h rp t) as [[_ ->]|[_ [p ->]]]; [left; reflexivity|right; eauto]. Qed.

Lemma cat_eq c1 c2 d1 d2 : child_ok c1 -> child_ok c2 -> child_ok d1 -> child_ok d2 ->
  c1 ++ c2 = d1 ++ d2 -> (c1 = d1 /\ c2 = d2) \/ shift_pair H.
Proof.
  intros C1 C2 D1 D2 E.
  destruct (Nat.eq_dec (length c1) (length d1)) as [El|El].
  - left. apply app_eq_len; assumption.
  - right. pose proof (f_equal (@length _) E) as EL. rewrite !app_length in EL.
    destruct C1 as [->|[p1 ->]]; destruct C2 as [->|[p2 ->]]; destruct D1 as [->|[q1 ->]]; destruct D2 as [->|[q2 ->]];
      simpl in EL, El; repeat rewrite Hlen in EL; repeat rewrite Hlen in El; simpl in *; try lia;
      first [ eapply shift_from; [exact Hlen|exact E] | eapply shift_from; [exact Hlen|symmetry; exact E] ].
Qed.

Lemma lookup_in s x n : In (x, n) s -> exists n', lookup s x = Some n'.
Proof.
  induction s as [|[y m] s IH]; simpl; [contradiction|]. intros [E|Hin].
  - inversion E; subst. rewrite (proj2 (beqb_eq x x) eq_refl). eauto.
  - destruct (beqb y x); eauto.
Qed.

Lemma th_not_default h rp t : t <> E -> beqb (th H h rp t) default_leaf = false.
Proof.
  intros Hne. destruct (beqb (th H h rp t) default_leaf) eqn:Eb; [|reflexivity].
  apply beqb_eq in Eb. destruct (th_shape H h rp t) as [[? _]|[_ [p Hp]]]; [contradiction|].
  rewrite Hp in Eb. apply (f_equal (@length _)) in Eb. rewrite Hlen in Eb. discriminate.
Qed.

Theorem reopen_equal s : store_ok s -> forall t h rp,
  length rp + h = 256 -> wf h t -> vals32 t ->
  (forall e, In e (nodes_of h rp t) -> In e s) ->
  load s h rp (th H h rp t) = Some t \/ hash_break H.
Proof.
  intros Hok. induction t as [|k v|l IHl r IHr]; intros h rp Hh W V Hin.
  - left. destruct h; reflexivity.
  - assert (Hnd := th_not_default h rp (Lf k v) ltac:(discriminate)).
    destruct (lookup_in s _ _ (Hin _ (or_introl eq_refl))) as [n' Hl].
    destruct (Hok _ _ Hl) as [Hx Hwf].
    assert (Hload : load s h rp (th H h rp (Lf k v)) =
              match n' with NLeaf kb v' _ => Some (Lf (skipn (length rp) (bytes_to_bits kb)) v') | NInt l r =>
                match h with O => None | S h' => match load s h' (false :: rp) l, load s h' (true :: rp) r with
                     | Some a, Some b => Some (Nd a b) | _, _ => None end end end).
    { destruct h; simpl load; simpl th in Hnd, Hl; rewrite Hnd, Hl; reflexivity. }
    simpl th in Hx. simpl in W, V.
    assert (L1 : length (rev_append rp k) = 8 * 32) by (rewrite rev_append_rev, app_length, rev_length; lia).
    destruct (bits_bytes_inv 32 _ L1) as [Inv Lb].
    match type of Hx with H ?p1 = H ?p2 => destruct (bytes_eq_dec p1 p2) as [Ep|Ep] end.
    2:{ right. left. eexists; eexists; split; [exact Ep|exact Hx]. }
    destruct n' as [kb' v' hb'|l' r']; simpl in Ep, Hwf.
    + left. rewrite Hload. destruct Hwf as [Lkb Lv'].
      apply app_eq_len in Ep; [|congruence]. destruct Ep as [<- Ev].
      apply app_eq_len in Ev; [|congruence]. destruct Ev as [<- _].
      rewrite Inv, rev_append_rev, skipn_app, rev_length, Nat.sub_diag.
      rewrite skipn_all2 by (rewrite rev_length; lia). reflexivity.
    + exfalso. destruct Hwf as [Cl Cr]. apply (f_equal (@length _)) in Ep. rewrite !app_length in Ep.
      simpl in Ep. rewrite Lb, V in Ep. destruct (child_len _ Cl); destruct (child_len _ Cr); lia.
  - destruct h as [|h']; [simpl in W; contradiction|]. simpl in W, V.
    destruct W as [Wl Wr]. destruct V as [Vl Vr].
    assert (Hnd := th_not_default (S h') rp (Nd l r) ltac:(discriminate)).
    destruct (lookup_in s _ _ (Hin _ (or_introl eq_refl))) as [n' Hl].
    destruct (Hok _ _ Hl) as [Hx Hwf].
    assert (Hrp : forall b, length (b :: rp) + h' = 256) by (intros; simpl; lia).
    assert (Il : load s h' (false :: rp) (th H h' (false :: rp) l) = Some l \/ hash_break H).
    { apply IHl; auto. intros e He. apply Hin. simpl. right. apply in_or_app. auto. }
    assert (Ir : load s h' (true :: rp) (th H h' (true :: rp) r) = Some r \/ hash_break H).
    { apply IHr; auto. intros e He. apply Hin. simpl. right. apply in_or_app. auto. }
    destruct Il as [Il|B]; [|right; exact B]. destruct Ir as [Ir|B]; [|right; exact B].
    cbn [load]. rewrite Hnd, Hl.
    simpl th in Hx.
    match type of Hx with H ?p1 = H ?p2 => destruct (bytes_eq_dec p1 p2) as [Ep|Ep] end.
    2:{ right. left. eexists; eexists; split; [exact Ep|exact Hx]. }
    destruct n' as [kb' v' hb'|l' r']; simpl in Ep, Hwf.
    + exfalso. destruct Hwf as [Lkb Lv']. apply (f_equal (@length _)) in Ep. rewrite !app_length in Ep. simpl in Ep.
      destruct (child_len _ (th_child_ok h' (false :: rp) l)); destruct (child_len _ (th_child_ok h' (true :: rp) r)); lia.
    + destruct Hwf as [Cl Cr].
      destruct (cat_eq _ _ _ _ (th_child_ok h' (false :: rp) l) (th_child_ok h' (true :: rp) r) Cl Cr Ep) as [[<- <-]|S].
      * left. rewrite Il, Ir. reflexivity.
      * right. right. exact S.
Qed.

(** committing a well-formed tree keeps the store content-addressed *)
Lemma nodes_of_ok : forall t h rp x n, length rp + h = 256 -> wf h t -> vals32 t ->
  In (x, n) (nodes_of h rp t) -> x = H (node_pre n) /\ node_wf n.
Proof.
  induction t as [|k v|l IHl r IHr]; intros h rp x n Hh W V Hin; simpl in Hin.
  - contradiction.
  - destruct Hin as [E|[]]. inversion E; subst. simpl in W, V. simpl. split; [reflexivity|]. split; [|exact V].
    assert (L1 : length (rev_append rp k) = 8 * 32) by (rewrite rev_append_rev, app_length, rev_length; lia).
    destruct (bits_bytes_inv 32 _ L1) as [_ Lb]. exact Lb.
  - destruct h as [|h']; [simpl in W; contradiction|]. simpl in W, V. destruct W as [Wl Wr]. destruct V as [Vl Vr].
    destruct Hin as [E|Hin].
    + inversion E; subst. simpl. split; [reflexivity|]. split; apply th_child_ok.
    + apply in_app_or in Hin. destruct Hin as [Hin|Hin].
      * apply (IHl h' (false :: rp)); auto. simpl; lia.
      * apply (IHr h' (true :: rp)); auto. simpl; lia.
Qed.

Lemma lookup_some_in s x n : lookup s x = Some n -> In (x, n) s.
Proof.
  induction s as [|[y m] s IH]; simpl; [discriminate|]. destruct (beqb y x) eqn:E.
  - apply beqb_eq in E. subst. intros E'; inversion E'; auto.
  - auto.
Qed.

Theorem commit_ok s t : store_ok s -> wf 256 t -> vals32 t -> store_ok (commit s t).
Proof.
  intros Hok W V x n Hl. unfold commit in Hl. rewrite lookup_app in Hl.
  destruct (lookup s x) as [m|] eqn:E.
  - inversion Hl; subst. apply Hok. exact E.
  - apply lookup_some_in in Hl. eapply (nodes_of_ok t 256 []); eauto.
Qed.

(** reopen_equal for the node's usage: after Commit, a fresh instance opened at the new root
    holds exactly the committed tree, and so does every later store *)
Lemma th_nonnil h rp t : t <> E -> th H h rp t <> [].
Proof.
  intros Hne Eq. destruct (th_shape H h rp t) as [[? _]|[_ [p Hp]]]; [contradiction|].
  rewrite Hp in Eq. apply (f_equal (@length _)) in Eq. rewrite Hlen in Eq. discriminate.
Qed.

Theorem reopen_after_commit s s' t :
  store_ok s -> wf 256 t -> vals32 t -> store_ok (commit s t ++ s') ->
  open_root (commit s t ++ s') (root H 256 t) = Some t \/ hash_break H.
Proof.
  intros Hok W V Hok'. unfold open_root, root.
  destruct t as [|k v|l r] eqn:Et; [left; reflexivity| |].
  - destruct (th H 256 [] (Lf k v)) eqn:Eh; [exfalso; eapply th_nonnil; [|exact Eh]; discriminate|].
    rewrite <- Eh. apply reopen_equal; auto.
    intros e He. apply in_or_app. left. unfold commit. apply in_or_app. right. exact He.
  - destruct (th H 256 [] (Nd l r)) eqn:Eh; [exfalso; eapply th_nonnil; [|exact Eh]; discriminate|].
    rewrite <- Eh. apply reopen_equal; auto.
    intros e He. apply in_or_app. left. unfold commit. apply in_or_app. right. exact He.
Qed.

End StP.

(** satisfiability: committing the two-leaf example trie into the empty store and reopening *)
From Verif Require Import Trie.ProofTop Trie.ProofComplete.
Example store_example :
  store_ok ex_H [] /\
  open_root (commit ex_H [] ex_t) (root ex_H 256 ex_t) = Some ex_t /\
  open_root (commit ex_H (commit ex_H [] ex_t) (Lf ex_k3 (ex_v 9))) (root ex_H 256 ex_t) = Some ex_t.
Proof.
  split; [intros x n Hl; discriminate|]. split; vm_compute; reflexivity.
Qed.

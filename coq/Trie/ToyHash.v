(** A toy 32-byte "hash" used only by the correspondence check: the real trie is run with
    this function as its [hash] argument (trie.NewTrie takes it as a parameter) and the
    model's [root] is evaluated with the same function, so roots can be compared byte for
    byte.  Four 63-bit polynomial lanes with a xor-shift finaliser, on Coq's primitive
    63-bit integers (fast under vm_compute).  No theorem depends on this file; all theorems
    are parametric in the hash function.  Go twin: toyHash in
    harness/engines/trie/zz_verif_trie_engine_test.go. *)
From Coq Require Import List NArith ZArith Uint63.
Import ListNotations.
Open Scope uint63_scope.

Definition lane (m seed : int) (data : list N) : int :=
  let x := fold_left (fun acc b => acc * m + of_Z (Z.of_N b) + 1) data seed in
  let x := x lxor (x >> 29) in
  let x := x * 0x1b873593cc9e2d51 in
  x lxor (x >> 32).

Definition byte_at (x : int) (sh : int) : N := Z.to_N (to_Z ((x >> sh) land 255)).
Definition lane_bytes (x : int) : list N :=
  [byte_at x 56; byte_at x 48; byte_at x 40; byte_at x 32;
   byte_at x 24; byte_at x 16; byte_at x 8; byte_at x 0].

Definition toy_hash (data : list N) : list N :=
  lane_bytes (lane 0x100000001b3 0x2bf29ce484222325 data) ++
  lane_bytes (lane 0x5851f42d4c957f2d 0x14057b7ef767814f data) ++
  lane_bytes (lane 0x2545f4914f6cdd1d 0x1234567890abcdef data) ++
  lane_bytes (lane 0x369dea0f31a53f85 0x0fedcba987654321 data).

(** Tree-level [update] keeps all leaf values 32 bytes long when the batch values are. *)
From Coq Require Import List Bool Arith NArith Lia.
From Verif Require Import Trie.Model Trie.Basics Trie.Masc Trie.GetUpdate Trie.Canon Trie.HashBind.
Import ListNotations.

Definition bvals32 (kvs : batch bytes) : Prop :=
  Forall (fun kv => match snd kv with Some v => length v = 32 | None => True end) kvs.

Lemma bvals32_part bit kvs : bvals32 kvs -> bvals32 (part bit kvs).
Proof.
  unfold bvals32, part. intros Hf. apply Forall_forall. intros kv Hin.
  apply in_map_iff in Hin. destruct Hin as [kv' [<- Hin]]. apply filter_In in Hin. destruct Hin as [Hin _].
  rewrite Forall_forall in Hf. apply (Hf kv' Hin).
Qed.

Lemma bvals32_add_shortcut sk sv kvs : length sv = 32 -> bvals32 kvs -> bvals32 (add_shortcut sk sv kvs).
Proof.
  intros Hs Hf. unfold add_shortcut. destruct (blookup _ _) as [[v|]|]; [exact Hf| |].
  - unfold bvals32, remove_key in *. rewrite Forall_forall in *. intros x Hx. apply filter_In in Hx. apply Hf, Hx.
  - apply Forall_ins; [exact Hs|exact Hf].
Qed.

Lemma vals32_join l r d : vals32 l -> vals32 r -> vals32 (fst (join l r d)).
Proof.
  intros Vl Vr. unfold join. destruct d; [|simpl; auto].
  destruct l as [|? ?|? ?]; destruct r as [|? ?|? ?]; simpl in *; auto.
Qed.

Definition vals_ok (h : nat) (upd : tree bytes -> batch bytes -> tree bytes * bool) : Prop :=
  forall t b, wf h t -> vals32 t -> bvals32 b -> keys_len h b -> sorted b -> vals32 (fst (upd t b)).

Lemma vals32_go h upd l r b :
  vals_ok h upd -> wf h l -> wf h r -> vals32 l -> vals32 r -> bvals32 b -> keys_len (S h) b -> sorted b ->
  vals32 (fst (go upd l r b)).
Proof.
  intros Hu Wl Wr Vl Vr Vb Hb Hs. rewrite go_unfold by assumption.
  assert (Gen : vals32 (fst (go_split upd l r b))).
  { unfold go_split.
    pose proof (bvals32_part false b Vb) as Vlb. pose proof (bvals32_part true b Vb) as Vrb.
    pose proof (keys_len_part false b h Hb) as Klb. pose proof (keys_len_part true b h Hb) as Krb.
    pose proof (sorted_part false b h Hb Hs) as Slb. pose proof (sorted_part true b h Hb Hs) as Srb.
    destruct (part false b) as [|x lb]; destruct (part true b) as [|y rb]; [exact I| | |].
    - pose proof (Hu r (y :: rb) Wr Vr Vrb Krb Srb) as G. destruct (upd r (y :: rb)) as [r' d]. apply vals32_join; auto.
    - pose proof (Hu l (x :: lb) Wl Vl Vlb Klb Slb) as G. destruct (upd l (x :: lb)) as [l' d]. apply vals32_join; auto.
    - pose proof (Hu l (x :: lb) Wl Vl Vlb Klb Slb) as G1. pose proof (Hu r (y :: rb) Wr Vr Vrb Krb Srb) as G2.
      destruct (upd l (x :: lb)) as [l' dl]. destruct (upd r (y :: rb)) as [r' dr]. apply vals32_join; auto. }
  destruct l; try exact Gen. destruct r; try exact Gen.
  destruct b as [|[k [v|]] [|? ?]]; try exact Gen.
  - simpl. inversion Vb; subst. simpl in *. assumption.
  - exact I.
Qed.

Theorem update_vals32 h : vals_ok h (update h).
Proof.
  induction h as [|h IH]; intros t b Wt Vt Vb Hb Hs.
  - simpl. destruct b as [|[k [v|]] b']; simpl; auto. inversion Vb; subst. simpl in *. assumption.
  - destruct t as [|sk sv|l r]; cbn [update].
    + apply (vals32_go h (update h) E E b IH (wf_E h) (wf_E h) I I Vb Hb Hs).
    + simpl in Vt, Wt. destruct b as [|kv0 b0] eqn:Eb.
      { simpl. exact I. }
      rewrite <- Eb in *. assert (Hne : b <> []) by (rewrite Eb; discriminate).
      rewrite (masc_spec sk sv b Hs Hne).
      pose proof (bvals32_add_shortcut sk sv b Vt Vb) as Va.
      pose proof (keys_len_add_shortcut (S h) sk sv b Wt Hb) as Ka.
      pose proof (sorted_add_shortcut sk sv b Hs) as Sa.
      destruct (add_shortcut sk sv b) as [|x b'] eqn:Ea; [exact I|].
      apply (vals32_go h (update h) E E (x :: b') IH (wf_E h) (wf_E h) I I (eq_ind _ bvals32 Va _ Ea) Ka Sa).
    + destruct Vt as [Vl Vr]. destruct Wt as [Wl Wr]. apply (vals32_go h (update h) l r b IH Wl Wr Vl Vr Vb Hb Hs).
Qed.

Corollary trie_update_vals32 h t b : wf h t -> vals32 t -> bvals32 b -> keys_len h b -> sorted b ->
  vals32 (trie_update h t b).
Proof. intros. apply update_vals32; auto. Qed.

(** C20 — abstract interpreter over the callback language and its soundness.
    For one context [e], [anS p S e s] over-approximates the mutators statement [s] can perform and
    whether it can complete normally, reading the effect of a call [Call f] from a summary table
    [S] (function name -> mutators).  [iter] computes a table by Kleene iteration from the empty
    one; the checker does not trust it: it verifies that the table is inductive ([inductive]:
    the analysis of every function body is included in the function's entry), which makes it
    sound for any call depth and for recursion.  [check] requires, for every good context, an
    inductive table in which no exported callback has a forbidden mutator.
    [analysis_sound]: then no trace of any exported callback started in a good context contains a
    forbidden mutator, contract code run from callbacks (RunLua) included. *)
From Coq Require Import List Bool String Lia.
From Verif Require Import VmGuard.Lang.
Import ListNotations.

Definition mut := (string * kind)%type.

Definition kind_eqb (a b : kind) : bool :=
  match a, b with KAny, KAny | KQ, KQ | KV, KV | KNever, KNever => true | _, _ => false end.
Definition mut_eqb (a b : mut) : bool := String.eqb (fst a) (fst b) && kind_eqb (snd a) (snd b).

Lemma mut_eqb_eq : forall a b, mut_eqb a b = true <-> a = b.
Proof.
  intros [n1 k1] [n2 k2]. unfold mut_eqb. simpl. split.
  - intros H. apply andb_true_iff in H. destruct H as [H1 H2]. apply String.eqb_eq in H1. subst.
    destruct k1, k2; simpl in H2; try discriminate; reflexivity.
  - intros H. inversion H; subst. rewrite String.eqb_refl. destruct k2; reflexivity.
Qed.

Fixpoint dedup (l : list mut) : list mut :=
  match l with
  | [] => []
  | x :: r => if existsb (mut_eqb x) r then dedup r else x :: dedup r
  end.

Lemma dedup_in : forall l x, In x l -> In x (dedup l).
Proof.
  induction l as [|y r IH]; intros x H; [destruct H|]. simpl.
  destruct (existsb (mut_eqb y) r) eqn:E.
  - destruct H as [<-|H]; [|auto]. apply existsb_exists in E. destruct E as (z & Hz & Hy).
    apply mut_eqb_eq in Hy. subst. auto.
  - destruct H as [<-|H]; [left; reflexivity | right; auto].
Qed.

Definition summ := list (string * list mut).

Fixpoint sget (S : summ) (f : string) : list mut :=
  match S with [] => [] | (g, l) :: S' => if String.eqb f g then l else sget S' f end.

Fixpoint anS (p : prog) (S : summ) (e : env) (s : stmt) : list mut * bool :=
  match s with
  | Skip => ([], true)
  | Seq a b =>
      let '(m1, f1) := anS p S e a in
      if f1 then let '(m2, f2) := anS p S e b in (m1 ++ m2, f2) else (m1, false)
  | If c a b =>
      match ceval e c with
      | Some true => anS p S e a
      | Some false => anS p S e b
      | None => let '(m1, f1) := anS p S e a in let '(m2, f2) := anS p S e b in (m1 ++ m2, f1 || f2)
      end
  | Loop s => (fst (anS p S e s), true)
  | Return => ([], false)
  | Defer s => (fst (anS p S e s), true)
  | Mut m k => ([(m, k)], true)
  | Call f => (match lookup p f with Some _ => sget S f | None => [] end, true)
  | RunLua => ([], true)
  | IncV | DecV => ([], true)
  end.

Definition stepS (p : prog) (e : env) (S : summ) : summ :=
  map (fun fb => (fst fb, dedup (fst (anS p S e (snd fb))))) p.

Fixpoint iter (n : nat) (p : prog) (e : env) (S : summ) : summ :=
  match n with O => S | Datatypes.S n' => iter n' p e (stepS p e S) end.

Definition subset (a b : list mut) : bool := forallb (fun x => existsb (mut_eqb x) b) a.

Definition inductive (p : prog) (e : env) (S : summ) : bool :=
  forallb (fun fb => subset (fst (anS p S e (snd fb))) (sget S (fst fb))) p.

Definition table (p : prog) (n : nat) (e : env) : summ := iter n p e (map (fun fb => (fst fb, [])) p).

Definition cb_muts (p : prog) (S : summ) (cb : string) : list mut :=
  match lookup p cb with Some _ => sget S cb | None => [] end.

Definition env_ok (p : prog) (cbs : list string) (n : nat) (e : env) : bool :=
  let S := table p n e in
  inductive p e S && forallb (fun cb => forallb (fun mk => negb (forbidden (snd mk) e)) (cb_muts p S cb)) cbs.

Definition all_envs : list env :=
  flat_map (fun q => flat_map (fun v => flat_map (fun a => flat_map (fun z => map (fun f => mkE q v a z f)
    [true; false]) [true; false]) [true; false]) [true; false]) [true; false].

Definition check (p : prog) (cbs : list string) (n : nat) : bool :=
  forallb (fun e => negb (good e) || env_ok p cbs n e) all_envs.

(** the (callback, context, mutator) triples that make [check] fail — the "failing input" *)
Definition offending (p : prog) (cbs : list string) (n : nat) (envs : list env) :=
  flat_map (fun e =>
    let S := table p n e in
    if inductive p e S then
      flat_map (fun cb => map (fun mk => (cb, e, fst mk)) (filter (fun mk => forbidden (snd mk) e) (cb_muts p S cb))) cbs
    else [("<summary table not inductive: increase the iteration bound>"%string, e, ""%string)]) envs.

(* ------------------------------------------------------------------ soundness *)
Lemma all_envs_complete : forall e, In e all_envs.
Proof. intros [[|] [|] [|] [|] [|]]; vm_compute; tauto. Qed.

Lemma good_rel : forall e e', good e = true -> env_rel e e' -> good e' = true.
Proof.
  intros e e' H (HQ & HF & HV & HA). unfold good in *. apply andb_true_iff in H. destruct H as [H1 _].
  rewrite HA, andb_true_r. rewrite HQ. destruct (eQ e); simpl in *; auto.
Qed.

Lemma lookup_in : forall p f body, lookup p f = Some body -> In (f, body) p.
Proof.
  induction p as [|[g s] p IH]; simpl; intros f body H; [discriminate|].
  destruct (String.eqb f g) eqn:E; [apply String.eqb_eq in E; inversion H; subst; auto | right; auto].
Qed.

Lemma subset_in : forall a b x, subset a b = true -> In x a -> In x b.
Proof.
  intros a b x H Hin. unfold subset in H. rewrite forallb_forall in H. specialize (H x Hin).
  apply existsb_exists in H. destruct H as (y & Hy & E). apply mut_eqb_eq in E. subst. exact Hy.
Qed.

Section Sound.
  Variable p : prog.
  Variable cbs : list string.
  Variable n0 : nat.
  Hypothesis Hcheck : check p cbs n0 = true.

  Lemma check_env : forall e, good e = true ->
    inductive p e (table p n0 e) = true /\
    forall cb m k, In cb cbs -> In (m, k) (cb_muts p (table p n0 e) cb) -> forbidden k e = false.
  Proof.
    intros e Hg. unfold check in Hcheck. rewrite forallb_forall in Hcheck.
    specialize (Hcheck e (all_envs_complete e)). rewrite Hg in Hcheck. simpl in Hcheck.
    unfold env_ok in Hcheck. apply andb_true_iff in Hcheck. destruct Hcheck as [H1 H2]. split; [exact H1|].
    intros cb m k Hin Hm. rewrite forallb_forall in H2. specialize (H2 cb Hin). rewrite forallb_forall in H2.
    specialize (H2 (m, k) Hm). simpl in H2. apply negb_true_iff in H2. exact H2.
  Qed.

  Definition covered (e : env) (ms : list mut) (t : list event) : Prop :=
    forall m k e0, In (m, k, e0) t -> (e0 = e /\ In (m, k) ms) \/ forbidden k e0 = false.

  Lemma covered_app : forall e m1 m2 t1 t2, covered e m1 t1 -> covered e m2 t2 -> covered e (m1 ++ m2) (t1 ++ t2).
  Proof.
    intros e m1 m2 t1 t2 H1 H2 m k e0 Hin. apply in_app_or in Hin. destruct Hin as [Hin|Hin].
    - destruct (H1 _ _ _ Hin) as [[-> Hm]|Hf]; [left; split; auto; apply in_or_app; auto | right; auto].
    - destruct (H2 _ _ _ Hin) as [[-> Hm]|Hf]; [left; split; auto; apply in_or_app; auto | right; auto].
  Qed.

  Lemma covered_mono : forall e m1 m2 t, covered e m1 t -> (forall x, In x m1 -> In x m2) -> covered e m2 t.
  Proof. intros e m1 m2 t H Hs m k e0 Hin. destruct (H _ _ _ Hin) as [[-> Hm]|Hf]; auto. Qed.

  Lemma covered_nil : forall e ms, covered e ms [].
  Proof. intros e ms m k e0 []. Qed.

  Lemma exec_sound : forall e s t o, exec p cbs e s t o -> good e = true ->
    forall S, inductive p e S = true ->
    covered e (fst (anS p S e s)) t /\ (o = true -> snd (anS p S e s) = true).
  Proof.
    induction 1; intros Hg S HS.
    - split; [apply covered_nil | auto].
    - destruct (IHexec1 Hg S HS) as [C1 F1]. destruct (IHexec2 Hg S HS) as [C2 F2]. cbn [anS].
      destruct (anS p S e a) as [m1 f1]. destruct (anS p S e b) as [m2 f2]. simpl in *.
      rewrite (F1 eq_refl). simpl. split; [apply covered_app; auto | auto].
    - destruct (IHexec Hg S HS) as [C1 _]. cbn [anS].
      destruct (anS p S e a) as [m1 f1]. destruct (anS p S e b) as [m2 f2]. simpl in *.
      destruct f1; simpl; (split; [|discriminate]); [eapply covered_mono; eauto; intros; apply in_or_app; auto | auto].
    - destruct (IHexec Hg S HS) as [C1 F1]. cbn [anS]. destruct (ceval e c) as [[|]|] eqn:Ec.
      + split; auto.
      + congruence.
      + destruct (anS p S e a) as [m1 f1]. destruct (anS p S e b) as [m2 f2]. simpl in *. split.
        * eapply covered_mono; eauto. intros; apply in_or_app; auto.
        * intros Ho. rewrite (F1 Ho). reflexivity.
    - destruct (IHexec Hg S HS) as [C1 F1]. cbn [anS]. destruct (ceval e c) as [[|]|] eqn:Ec.
      + congruence.
      + split; auto.
      + destruct (anS p S e a) as [m1 f1]. destruct (anS p S e b) as [m2 f2]. simpl in *. split.
        * eapply covered_mono; eauto. intros; apply in_or_app; auto.
        * intros Ho. rewrite (F1 Ho). apply orb_true_r.
    - split; [apply covered_nil | auto].
    - destruct (IHexec1 Hg S HS) as [C1 _]. destruct (IHexec2 Hg S HS) as [C2 _]. cbn [anS fst snd] in *. split; [|auto].
      eapply covered_mono; [apply covered_app; eauto|]. intros x Hx. apply in_app_or in Hx. tauto.
    - destruct (IHexec Hg S HS) as [C1 _]. cbn [anS fst snd] in *. split; [auto|discriminate].
    - split; [apply covered_nil | discriminate].
    - destruct (IHexec Hg S HS) as [C1 _]. cbn [anS fst snd] in *. split; auto.
    - cbn [anS fst snd]. split; [|auto]. intros m0 k0 e0 [Hin|[]]. inversion Hin; subst. left. split; simpl; auto.
    - destruct (IHexec Hg S HS) as [C1 _]. cbn [anS fst snd]. rewrite H. split; [|auto].
      eapply covered_mono; [exact C1|]. intros x Hx.
      unfold inductive in HS. rewrite forallb_forall in HS. specialize (HS (f, body) (lookup_in _ _ _ H)). simpl in HS.
      eapply subset_in; eauto.
    - cbn [anS fst snd]. rewrite H. split; [apply covered_nil | auto].
    - split; [apply covered_nil | auto].
    - split; [apply covered_nil | auto].
    - split; [apply covered_nil | auto].
    - cbn [anS fst snd]. split; [|auto].
      assert (Hg' : good e' = true) by (eapply good_rel; eauto).
      destruct (check_env e' Hg') as [HS' Hnf].
      destruct (IHexec1 Hg' _ HS') as [C1 _]. destruct (IHexec2 Hg S HS) as [C2 _]. cbn [anS fst] in C1, C2.
      intros m k e0 Hin. apply in_app_or in Hin. destruct Hin as [Hin|Hin].
      + right. destruct (C1 _ _ _ Hin) as [[-> Hm]|Hf]; [|exact Hf]. eapply Hnf; eauto.
      + destruct (C2 _ _ _ Hin) as [[_ []]|Hf]. right; auto.
  Qed.

  (** No trace of an exported callback started in a read-only context (Q or V, amounts
      non-negative unless fork >= 5) performs a mutator that is forbidden in the context it is
      performed in — including everything contract code called from it does through callbacks. *)
  Theorem analysis_sound : forall cb e t o, In cb cbs -> good e = true ->
    exec p cbs e (Call cb) t o -> forall m k e0, In (m, k, e0) t -> forbidden k e0 = false.
  Proof.
    intros cb e t o Hin Hg Hex m k e0 Hev.
    destruct (check_env e Hg) as [HS Hnf].
    destruct (exec_sound _ _ _ _ Hex Hg _ HS) as [C _]. cbn [anS fst] in C.
    destruct (C _ _ _ Hev) as [[-> Hm]|Hf]; [|exact Hf]. eapply Hnf; eauto.
  Qed.
End Sound.

(** the hypotheses are satisfiable by a non-trivial program: a guarded setter, a callback that
    runs contract code, a recursive helper, and an execution in a view context *)
Example ex_prog : prog :=
  [("luaSetDB"%string, Seq (If (COr (CAtom AQ) (CAtom AV)) Return Skip) (Mut "SetData" KAny));
   ("helper"%string, If CUnknown (Call "helper") Skip);
   ("luaCallContract"%string, Seq (Call "helper") (Seq (If (CAtom AAmtPos) (Seq (If (COr (CAtom AQ) (CAtom AV)) Return Skip) (Mut "sendBalance" KAny)) Skip) RunLua))].
Example ex_check : check ex_prog ["luaSetDB"%string; "luaCallContract"%string] 4 = true.
Proof. vm_compute. reflexivity. Qed.
Example ex_exec : exec ex_prog ["luaSetDB"%string; "luaCallContract"%string] (mkE false true false true true)
                       (Call "luaSetDB") [] true.
Proof. eapply X_Call; [reflexivity|]. apply X_SeqR. apply X_IfT; [discriminate | apply X_Return]. Qed.
Example ex_unguarded_rejected :
  check [("bad"%string, Mut "SetData" KAny)] ["bad"%string] 4 = false.
Proof. vm_compute. reflexivity. Qed.
Example ex_unguarded_behind_recursion_rejected :
  check [("bad"%string, Call "r"); ("r"%string, Seq (If CUnknown (Call "r") Skip) (Mut "SetData" KAny))] ["bad"%string] 4 = false.
Proof. vm_compute. reflexivity. Qed.

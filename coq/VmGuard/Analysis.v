(** C20 — abstract interpreter over the callback language and its soundness.
    [an fuel e s] over-approximates, for context [e], the mutators statement [s] can perform and
    whether it can complete normally; [None] = call depth exhausted (treated as "may do anything").
    [check] requires, for every exported callback and every good context, that no reachable
    mutator is forbidden.  [analysis_sound]: then no trace of any exported callback started in a
    good context contains a forbidden mutator, contract code run from callbacks included. *)
From Coq Require Import List Bool String Lia.
From Verif Require Import VmGuard.Lang.
Import ListNotations.

Definition res := option (list (string * kind) * bool).

Definition join (a b : res) : res :=
  match a, b with
  | Some (m1, f1), Some (m2, f2) => Some (m1 ++ m2, f1 || f2)
  | _, _ => None
  end.

Fixpoint an (p : prog) (fuel : nat) (e : env) (s : stmt) {struct fuel} : res :=
  let fix go (s : stmt) : res :=
    match s with
    | Skip => Some ([], true)
    | Seq a b =>
        match go a with
        | None => None
        | Some (m1, false) => Some (m1, false)
        | Some (m1, true) => match go b with None => None | Some (m2, f2) => Some (m1 ++ m2, f2) end
        end
    | If c a b =>
        match ceval e c with
        | Some true => go a
        | Some false => go b
        | None => join (go a) (go b)
        end
    | Loop s => match go s with None => None | Some (m, _) => Some (m, true) end
    | Return => Some ([], false)
    | Defer s => match go s with None => None | Some (m, _) => Some (m, true) end
    | Mut m k => Some ([(m, k)], true)
    | Call f =>
        match fuel with
        | O => None
        | S n =>
            match lookup p f with
            | None => Some ([], true)
            | Some body => match an p n e body with None => None | Some (m, _) => Some (m, true) end
            end
        end
    | RunLua => Some ([], true)
    end in
  go s.

Definition all_envs : list env :=
  flat_map (fun q => flat_map (fun v => flat_map (fun a => flat_map (fun z => map (fun f => mkE q v a z f)
    [true; false]) [true; false]) [true; false]) [true; false]) [true; false].

Definition cb_ok (p : prog) (fuel : nat) (e : env) (cb : string) : bool :=
  match an p fuel e (Call cb) with
  | None => false
  | Some (ms, _) => forallb (fun mk => negb (forbidden (snd mk) e)) ms
  end.

Definition check (p : prog) (cbs : list string) (fuel : nat) : bool :=
  forallb (fun cb => forallb (fun e => negb (good e) || cb_ok p fuel e cb) all_envs) cbs.

(** the (callback, context, mutator) triples that make [check] fail — the "failing input" *)
Definition offending (p : prog) (cbs : list string) (fuel : nat) (envs : list env) :=
  flat_map (fun cb => flat_map (fun e =>
    match an p fuel e (Call cb) with
    | None => [(cb, e, "<call depth exhausted>"%string)]
    | Some (ms, _) => map (fun mk => (cb, e, fst mk)) (filter (fun mk => forbidden (snd mk) e) ms)
    end) envs) cbs.

(* ------------------------------------------------------------------ soundness *)
Lemma all_envs_complete : forall e, In e all_envs.
Proof. intros [[|] [|] [|] [|] [|]]; vm_compute; tauto. Qed.

Lemma good_rel : forall e e', good e = true -> env_rel e e' -> good e' = true.
Proof.
  intros e e' H (HQ & HF & HV & HA). unfold good in *. apply andb_true_iff in H. destruct H as [H1 _].
  rewrite HA, andb_true_r. rewrite HQ. destruct (eQ e); simpl in *; auto.
Qed.

Section Sound.
  Variable p : prog.
  Variable cbs : list string.
  Variable fuel0 : nat.
  Hypothesis Hcheck : check p cbs fuel0 = true.

  Lemma check_cb : forall cb e, In cb cbs -> good e = true ->
    exists ms f, an p fuel0 e (Call cb) = Some (ms, f) /\ forall m k, In (m, k) ms -> forbidden k e = false.
  Proof.
    intros cb e Hin Hg. unfold check in Hcheck. rewrite forallb_forall in Hcheck.
    specialize (Hcheck cb Hin). rewrite forallb_forall in Hcheck.
    specialize (Hcheck e (all_envs_complete e)). rewrite Hg in Hcheck. simpl in Hcheck.
    unfold cb_ok in Hcheck. destruct (an p fuel0 e (Call cb)) as [[ms f]|]; [|discriminate].
    exists ms, f. split; [reflexivity|]. intros m k Hm. rewrite forallb_forall in Hcheck.
    specialize (Hcheck (m, k) Hm). simpl in Hcheck. apply negb_true_iff in Hcheck. exact Hcheck.
  Qed.

  (** events of a trace are either accounted for by the analysis of the statement in its own
      context, or not forbidden in the context they happened in *)
  Definition covered (e : env) (ms : list (string * kind)) (t : list event) : Prop :=
    forall m k e0, In (m, k, e0) t -> (e0 = e /\ In (m, k) ms) \/ forbidden k e0 = false.

  Lemma covered_app : forall e m1 m2 t1 t2, covered e m1 t1 -> covered e m2 t2 -> covered e (m1 ++ m2) (t1 ++ t2).
  Proof.
    intros e m1 m2 t1 t2 H1 H2 m k e0 Hin. apply in_app_or in Hin. destruct Hin as [Hin|Hin].
    - destruct (H1 _ _ _ Hin) as [[-> Hm]|Hf]; [left; split; auto; apply in_or_app; auto | right; auto].
    - destruct (H2 _ _ _ Hin) as [[-> Hm]|Hf]; [left; split; auto; apply in_or_app; auto | right; auto].
  Qed.

  Lemma covered_mono : forall e m1 m2 t, covered e m1 t -> (forall x, In x m1 -> In x m2) -> covered e m2 t.
  Proof. intros e m1 m2 t H Hs m k e0 Hin. destruct (H _ _ _ Hin) as [[-> Hm]|Hf]; auto. Qed.

  Lemma covered_nil : forall e ms, covered e ms [].
  Proof. intros e ms m k e0 []. Qed.

  Lemma an_unfold : forall fuel e s, an p fuel e s =
    match s with
    | Skip => Some ([], true)
    | Seq a b =>
        match an p fuel e a with
        | None => None
        | Some (m1, false) => Some (m1, false)
        | Some (m1, true) => match an p fuel e b with None => None | Some (m2, f2) => Some (m1 ++ m2, f2) end
        end
    | If c a b =>
        match ceval e c with
        | Some true => an p fuel e a
        | Some false => an p fuel e b
        | None => join (an p fuel e a) (an p fuel e b)
        end
    | Loop s => match an p fuel e s with None => None | Some (m, _) => Some (m, true) end
    | Return => Some ([], false)
    | Defer s => match an p fuel e s with None => None | Some (m, _) => Some (m, true) end
    | Mut m k => Some ([(m, k)], true)
    | Call f =>
        match fuel with
        | O => None
        | S n =>
            match lookup p f with
            | None => Some ([], true)
            | Some body => match an p n e body with None => None | Some (m, _) => Some (m, true) end
            end
        end
    | RunLua => Some ([], true)
    end.
  Proof. intros fuel e s. destruct fuel; destruct s; reflexivity. Qed.

  Lemma exec_sound : forall e s t o, exec p cbs e s t o -> good e = true ->
    forall fuel ms f, an p fuel e s = Some (ms, f) -> covered e ms t /\ (o = true -> f = true).
  Proof.
    induction 1; intros Hg fuel ms fl Han; rewrite an_unfold in Han.
    - inversion Han; subst. split; [apply covered_nil | auto].
    - destruct (an p fuel e a) as [[m1 [|]]|] eqn:Ea; try discriminate.
      + destruct (an p fuel e b) as [[m2 f2]|] eqn:Eb; [|discriminate]. inversion Han; subst.
        destruct (IHexec1 Hg _ _ _ Ea) as [C1 _]. destruct (IHexec2 Hg _ _ _ Eb) as [C2 F2].
        split; [apply covered_app; auto | auto].
      + destruct (IHexec1 Hg _ _ _ Ea) as [_ F1]. specialize (F1 eq_refl). discriminate.
    - destruct (an p fuel e a) as [[m1 [|]]|] eqn:Ea; try discriminate.
      + destruct (an p fuel e b) as [[m2 f2]|] eqn:Eb; [|discriminate]. inversion Han; subst.
        destruct (IHexec Hg _ _ _ Ea) as [C1 _]. split; [|discriminate].
        eapply covered_mono; eauto. intros; apply in_or_app; auto.
      + inversion Han; subst. destruct (IHexec Hg _ _ _ Ea) as [C1 _]. split; [auto|discriminate].
    - destruct (ceval e c) as [[|]|] eqn:Ec.
      + eapply IHexec; eauto.
      + congruence.
      + destruct (an p fuel e a) as [[m1 f1]|] eqn:Ea; [|discriminate].
        destruct (an p fuel e b) as [[m2 f2]|] eqn:Eb; [|discriminate]. simpl in Han. inversion Han; subst.
        destruct (IHexec Hg _ _ _ Ea) as [C1 F1]. split.
        * eapply covered_mono; eauto. intros; apply in_or_app; auto.
        * intros Ho. rewrite (F1 Ho). reflexivity.
    - destruct (ceval e c) as [[|]|] eqn:Ec.
      + congruence.
      + eapply IHexec; eauto.
      + destruct (an p fuel e a) as [[m1 f1]|] eqn:Ea; [|discriminate].
        destruct (an p fuel e b) as [[m2 f2]|] eqn:Eb; [|discriminate]. simpl in Han. inversion Han; subst.
        destruct (IHexec Hg _ _ _ Eb) as [C1 F1]. split.
        * eapply covered_mono; eauto. intros; apply in_or_app; auto.
        * intros Ho. rewrite (F1 Ho). apply orb_true_r.
    - destruct (an p fuel e s) as [[m1 f1]|] eqn:Es; [|discriminate]. inversion Han; subst.
      split; [apply covered_nil | auto].
    - destruct (an p fuel e s) as [[m1 f1]|] eqn:Es; [|discriminate]. inversion Han; subst.
      destruct (IHexec1 Hg _ _ _ Es) as [C1 _].
      assert (HL : an p fuel e (Loop s) = Some (ms, true)) by (rewrite an_unfold, Es; reflexivity).
      destruct (IHexec2 Hg _ _ _ HL) as [C2 _]. split; [|auto].
      eapply covered_mono; [apply covered_app; eauto|]. intros x Hx. apply in_app_or in Hx. tauto.
    - destruct (an p fuel e s) as [[m1 f1]|] eqn:Es; [|discriminate]. inversion Han; subst.
      destruct (IHexec Hg _ _ _ Es) as [C1 _]. split; [auto|discriminate].
    - inversion Han; subst. split; [apply covered_nil | discriminate].
    - destruct (an p fuel e s) as [[m1 f1]|] eqn:Es; [|discriminate]. inversion Han; subst.
      destruct (IHexec Hg _ _ _ Es) as [C1 _]. split; auto.
    - inversion Han; subst. split; [|auto]. intros m0 k0 e0 [Hin|[]]. inversion Hin; subst. left. split; simpl; auto.
    - destruct fuel as [|n]; [discriminate|]. rewrite H in Han.
      destruct (an p n e body) as [[m1 f1]|] eqn:Eb; [|discriminate]. inversion Han; subst.
      destruct (IHexec Hg _ _ _ Eb) as [C1 _]. split; auto.
    - destruct fuel as [|n]; [discriminate|]. rewrite H in Han. inversion Han; subst.
      split; [apply covered_nil | auto].
    - inversion Han; subst. split; [apply covered_nil | auto].
    - inversion Han; subst. split; [|auto].
      assert (Hg' : good e' = true) by (eapply good_rel; eauto).
      destruct (check_cb cb e' H Hg') as (ms' & f' & Hcb & Hnf).
      destruct (IHexec1 Hg' _ _ _ Hcb) as [C1 _].
      assert (HL : an p fuel e RunLua = Some ([], true)) by (rewrite an_unfold; reflexivity).
      destruct (IHexec2 Hg _ _ _ HL) as [C2 _].
      intros m k e0 Hin. apply in_app_or in Hin. destruct Hin as [Hin|Hin].
      + right. destruct (C1 _ _ _ Hin) as [[-> Hm]|Hf]; eauto.
      + destruct (C2 _ _ _ Hin) as [[_ []]|Hf]. right; auto.
  Qed.

  (** No trace of an exported callback started in a read-only context (Q or V, amounts
      non-negative unless fork >= 5) performs a mutator that is forbidden in the context it is
      performed in — including everything contract code called from it does through callbacks. *)
  Theorem analysis_sound : forall cb e t o, In cb cbs -> good e = true ->
    exec p cbs e (Call cb) t o -> forall m k e0, In (m, k, e0) t -> forbidden k e0 = false.
  Proof.
    intros cb e t o Hin Hg Hex m k e0 Hev.
    destruct (check_cb cb e Hin Hg) as (ms & f & Hcb & Hnf).
    destruct (exec_sound _ _ _ _ Hex Hg _ _ _ Hcb) as [C _].
    destruct (C _ _ _ Hev) as [[-> Hm]|Hf]; eauto.
  Qed.
End Sound.

(** the hypotheses are satisfiable by a non-trivial program: a guarded setter, a callback that
    runs contract code, and an execution in a view context *)
Example ex_prog : prog :=
  [("luaSetDB"%string, Seq (If (COr (CAtom AQ) (CAtom AV)) Return Skip) (Mut "SetData" KAny));
   ("luaCallContract"%string, Seq (If (CAtom AAmtPos) (Seq (If (COr (CAtom AQ) (CAtom AV)) Return Skip) (Mut "sendBalance" KAny)) Skip) RunLua)].
Example ex_check : check ex_prog ["luaSetDB"%string; "luaCallContract"%string] 4 = true.
Proof. vm_compute. reflexivity. Qed.
Example ex_exec : exec ex_prog ["luaSetDB"%string; "luaCallContract"%string] (mkE false true false true true)
                       (Call "luaCallContract") [] true.
Proof.
  eapply X_Call; [reflexivity|]. change (@nil event) with (@nil event ++ @nil event).
  eapply X_SeqN; [|apply X_Lua0]. apply X_IfF; [discriminate | apply X_Skip].
Qed.
Example ex_unguarded_rejected :
  check [("bad"%string, Mut "SetData" KAny)] ["bad"%string] 4 = false.
Proof. vm_compute. reflexivity. Qed.

(** C20 — the view-depth counter discipline.  [ctx.nestedView] is what the guards of the host
    callbacks read (atom V).  This file gives the counter semantics of one function of the
    callback language (IncV / DecV, deferred statements run at every exit, a callee or contract
    code may panic), an abstract interpreter [flow] over (counter delta, pending deferred effect)
    states, and its soundness for whole programs: if [counter_ok] accepts the program then on every
    path through every function -- early returns, panics, the functions it calls and the callbacks
    that contract code started by it calls included -- the net effect on the counter is 0, the
    counter never drops below its entry value while contract code runs, and it is at least
    entry + 1 while contract code runs under an executor whose isView flag is set. *)
From Coq Require Import ZArith List Bool String Lia.
From Verif Require Import VmGuard.Lang.
Import ListNotations.
Open Scope Z_scope.

Definition flags := string -> bool.

(** conditions with the executor flags known and the context atoms unknown *)
Fixpoint cevalf (fl : flags) (c : cond) : option bool :=
  match c with
  | CTrue => Some true
  | CFalse => Some false
  | CUnknown => None
  | CAtom _ => None
  | CUnknownAt _ => None
  | CFlag n => Some (fl n)
  | CNot c => option_map negb (cevalf fl c)
  | CAnd a b =>
      match cevalf fl a, cevalf fl b with
      | Some false, _ | _, Some false => Some false
      | Some true, Some true => Some true
      | _, _ => None
      end
  | COr a b =>
      match cevalf fl a, cevalf fl b with
      | Some true, _ | _, Some true => Some true
      | Some false, Some false => Some false
      | _, _ => None
      end
  end.

Inductive oc := ONormal | OReturn | OPanic.

Definition cst := (Z * Z)%type.     (* counter delta since entry, pending effect of the deferred statements *)
Definition ev := (bool * Z)%type.   (* contract code runs: (under a view executor, counter delta since entry) *)

Definition flagsb (b : bool) : flags := fun _ => b.

(** what must hold of the counter while contract code runs *)
Definition lua_ok (e : ev) : Prop := 0 <= snd e /\ (fst e = true -> 1 <= snd e).
Definition lua_okb (v : bool) (d : Z) : bool := Z.leb 0 d && (negb v || Z.leb 1 d).

(** events of a callee seen from the caller: [w] = the caller runs contract code as a view executor *)
Definition shift (w : bool) (d : Z) (l : list ev) : list ev := map (fun e => (fst e || w, d + snd e)) l.

Lemma shift_ok : forall w d l, 0 <= d -> (w = true -> 1 <= d) -> Forall lua_ok l -> Forall lua_ok (shift w d l).
Proof.
  intros w d l H0 H1 H. unfold shift. apply Forall_forall. intros x Hx. apply in_map_iff in Hx.
  destruct Hx as ([v e] & <- & Hin). rewrite Forall_forall in H. destruct (H _ Hin) as [A B]. unfold lua_ok. simpl in *.
  split; [lia|]. intros Hv. apply orb_true_iff in Hv. destruct Hv as [Hv|Hv]; [specialize (B Hv) | specialize (H1 Hv)]; lia.
Qed.

Lemma lua_okb_ok : forall v d, lua_okb v d = true -> lua_ok (v, d).
Proof.
  intros v d H. unfold lua_okb in H. apply andb_true_iff in H. destruct H as [H1 H2]. apply Z.leb_le in H1.
  split; [exact H1|]. simpl. intros ->. simpl in H2. apply Z.leb_le in H2. exact H2.
Qed.

Lemma filter_nil_in : forall (A : Type) (f : A -> bool) l a, filter f l = [] -> In a l -> f a = false.
Proof.
  intros A f l a H Hin. destruct (f a) eqn:E; [|reflexivity]. exfalso.
  assert (Hf : In a (filter f l)) by (apply filter_In; auto). rewrite H in Hf. destruct Hf.
Qed.

(* ------------------------------------------------------------------ abstract interpreter *)
(* a_w: one witness path -- the undetermined conditions met (source position and text) with the
   branch taken, and the call that panicked if the path ends that way *)
Record ast := mkA { a_d : Z; a_p : Z; a_w : list (string * bool) }.
Record res := mkR { nm : list ast; ex : list ast; bd : list (string * ast) }.

Definition same (a b : ast) : bool := Z.eqb (a_d a) (a_d b) && Z.eqb (a_p a) (a_p b).
Fixpoint dedup (l : list ast) : list ast :=
  match l with [] => [] | x :: r => if existsb (same x) r then dedup r else x :: dedup r end.

(** [sfree L s]: [s] does not run contract code itself and calls no function of [L] *)
Fixpoint sfree (L : list string) (s : stmt) : bool :=
  match s with
  | RunLua => false
  | Call f => negb (existsb (String.eqb f) L)
  | Seq a b | If _ a b => sfree L a && sfree L b
  | Loop s | Defer s => sfree L s
  | _ => true
  end.

(** [L] contains every function of [p] that may run contract code, directly or through calls *)
Definition lua_closed (p : prog) (L : list string) : bool :=
  forallb (fun fb => existsb (String.eqb (fst fb)) L || sfree L (snd fb)) p.

(** the functions that may run contract code: least fixed point by iteration *)
Fixpoint lua_iter (n : nat) (p : prog) (L : list string) : list string :=
  match n with
  | O => L
  | S n' => lua_iter n' p (L ++ map fst (filter (fun fb => negb (existsb (String.eqb (fst fb)) L) && negb (sfree L (snd fb))) p))
  end.

(** does a condition / statement read an executor flag *)
Fixpoint cond_uses (c : cond) : bool :=
  match c with
  | CFlag _ => true
  | CNot c => cond_uses c
  | CAnd a b | COr a b => cond_uses a || cond_uses b
  | _ => false
  end.
Fixpoint uses_view (s : stmt) : bool :=
  match s with
  | Seq a b => uses_view a || uses_view b
  | If c a b => cond_uses c || uses_view a || uses_view b
  | Loop s | Defer s => uses_view s
  | _ => false
  end.

Definition wit (lbl : string) (b : bool) (a : ast) : ast := mkA (a_d a) (a_p a) (a_w a ++ [(lbl, b)]).
Fixpoint cond_label (c : cond) : string :=
  match c with
  | CUnknownAt pos => pos
  | CNot c => cond_label c
  | CAnd a b | COr a b => match cond_label a with EmptyString => cond_label b | l => l end
  | _ => EmptyString
  end.
Definition witness0 : ast := mkA 0 0 [].

Section Flow.
  Variable exempt : string -> bool.    (* the bracket functions luaViewStart / luaViewEnd *)
  Variable L : list string.            (* the functions that may run contract code *)

  Fixpoint flow (fl : flags) (s : stmt) (sts : list ast) : res :=
    match s with
    | Skip | Mut _ _ => mkR sts [] []
    | Seq a b => let r1 := flow fl a sts in let r2 := flow fl b (nm r1) in mkR (nm r2) (ex r1 ++ ex r2) (bd r1 ++ bd r2)
    | If c a b =>
        match cevalf fl c with
        | Some true => flow fl a sts
        | Some false => flow fl b sts
        | None => let r1 := flow fl a (map (wit (cond_label c) true) sts) in
                  let r2 := flow fl b (map (wit (cond_label c) false) sts) in
                  mkR (dedup (nm r1 ++ nm r2)) (dedup (ex r1 ++ ex r2)) (bd r1 ++ bd r2)
        end
    | Loop s =>
        (* a loop body may call functions and run contract code, but not touch the counter itself *)
        let r := flow fl s sts in
        match bd r with
        | [] => if forallb (fun a => existsb (same a) sts) (nm r)
                then mkR sts (ex r) []
                else mkR sts [] [("loop body changes the view counter"%string, witness0)]
        | b => mkR sts [] b
        end
    | Return => mkR [] (map (wit "return" true) sts) []
    | Defer s =>
        if negb (sfree L s) then mkR sts [] [("deferred statement may run contract code"%string, witness0)] else
        let r := flow fl s [witness0] in
        match bd r, nm r ++ ex r with
        | [], x :: rest =>
            let k := a_d x + a_p x in
            if forallb (fun y => Z.eqb (a_d y + a_p y) k) rest
            then mkR (map (fun a => mkA (a_d a) (a_p a + k) (a_w a)) sts) [] []
            else mkR sts [] [("deferred statement with a path-dependent counter effect"%string, witness0)]
        | _, _ => mkR sts [] [("deferred statement could not be analysed"%string, witness0)]
        end
    | IncV => mkR (map (fun a => mkA (a_d a + 1) (a_p a) (a_w a)) sts) [] []
    | DecV => mkR (map (fun a => mkA (a_d a - 1) (a_p a) (a_w a)) sts) [] []
    | Call f =>
        if exempt f then mkR sts [] [("call of a counter bracket function"%string, witness0)] else
        mkR sts (map (wit ("panic in " ++ f) true) sts)
            (map (fun a => ("function called with the view counter below its entry value"%string, a))
                         (filter (fun a => Z.ltb (a_d a) 0) sts))
    | RunLua => mkR sts (map (wit "contract code fails" true) sts) (map (fun a => ("contract code runs with the view counter too low"%string, a))
                                 (filter (fun a => negb (lua_okb (fl "isView"%string) (a_d a))) sts))
    end.

  (** every exit of the body (falling off the end, return, panic) with its final counter effect *)
  Definition final_states (fl : flags) (body : stmt) : list ast := let r := flow fl body [witness0] in nm r ++ ex r.

  Definition violations (fl : flags) (body : stmt) : list (string * ast) :=
    let r := flow fl body [witness0] in
    bd r ++ map (fun a => ("exit leaves the view counter changed"%string, a))
                (filter (fun a => negb (Z.eqb (a_d a + a_p a) 0)) (final_states fl body)).

  Definition balanced (fl : flags) (body : stmt) : bool := match violations fl body with [] => true | _ => false end.

  Lemma balanced_inv : forall fl body, balanced fl body = true ->
    bd (flow fl body [witness0]) = [] /\ forall a, In a (final_states fl body) -> a_d a + a_p a = 0.
  Proof.
    intros fl body Hb. unfold balanced, violations in Hb.
    destruct (bd (flow fl body [witness0]) ++ _) eqn:Ev; [|discriminate Hb].
    apply app_eq_nil in Ev. destruct Ev as [Eb Ef]. apply map_eq_nil in Ef. split; [exact Eb|].
    intros a Hin. pose proof (filter_nil_in _ _ _ _ Ef Hin) as H. apply negb_false_iff in H. apply Z.eqb_eq in H. exact H.
  Qed.

  (* -------------------------------------------------------------- only the isView flag matters *)
  Fixpoint cond_flags_only (c : cond) : bool :=
    match c with
    | CFlag n => String.eqb n "isView"
    | CNot c => cond_flags_only c
    | CAnd a b | COr a b => cond_flags_only a && cond_flags_only b
    | _ => true
    end.
  Fixpoint flags_only (s : stmt) : bool :=
    match s with
    | Seq a b => flags_only a && flags_only b
    | If c a b => cond_flags_only c && flags_only a && flags_only b
    | Loop s | Defer s => flags_only s
    | _ => true
    end.

  Lemma cevalf_ext : forall fl fl' c, fl "isView"%string = fl' "isView"%string -> cond_flags_only c = true ->
    cevalf fl c = cevalf fl' c.
  Proof.
    intros fl fl' c H. induction c; simpl; intros Hc; try reflexivity.
    - rewrite IHc; auto.
    - apply andb_true_iff in Hc. destruct Hc. rewrite IHc1, IHc2; auto.
    - apply andb_true_iff in Hc. destruct Hc. rewrite IHc1, IHc2; auto.
    - apply String.eqb_eq in Hc. subst name. rewrite H. reflexivity.
  Qed.

  Lemma flow_ext : forall fl fl' s, fl "isView"%string = fl' "isView"%string -> flags_only s = true ->
    forall sts, flow fl s sts = flow fl' s sts.
  Proof.
    intros fl fl' s H. induction s; simpl; intros Hs sts; try reflexivity.
    - apply andb_true_iff in Hs. destruct Hs as [H1 H2]. rewrite IHs1, IHs2; auto.
    - apply andb_true_iff in Hs. destruct Hs as [H12 H3]. apply andb_true_iff in H12. destruct H12 as [H1 H2].
      rewrite (cevalf_ext fl fl' c H H1). destruct (cevalf fl' c) as [[|]|]; [auto | auto |].
      rewrite IHs1, IHs2; auto.
    - rewrite IHs; auto.
    - rewrite IHs; auto.
    - rewrite H. reflexivity.
  Qed.

  Lemma balanced_ext : forall fl s, flags_only s = true -> balanced fl s = balanced (flagsb (fl "isView"%string)) s.
  Proof.
    intros fl s Hs. unfold balanced, violations, final_states.
    rewrite (flow_ext fl (flagsb (fl "isView"%string)) s eq_refl Hs). reflexivity.
  Qed.

  (** the whole-program check *)
  Definition fn_ok (fb : string * stmt) : bool :=
    exempt (fst fb) ||
    (flags_only (snd fb) && balanced (flagsb false) (snd fb) && (negb (uses_view (snd fb)) || balanced (flagsb true) (snd fb))).
  Definition counter_ok (p : prog) (cbs : list string) : bool :=
    lua_closed p L && forallb fn_ok p && forallb (fun f => negb (exempt f)) cbs.

  (** the failing functions with the reason, the branch decisions of one witness path and the
      state (counter delta, pending deferred effect) -- what the check prints *)
  Definition counter_offending (p : prog) : list (string * bool * list (string * ast)) :=
    flat_map (fun fb =>
      if exempt (fst fb) then [] else
      (if flags_only (snd fb) then [] else [(fst fb, false, [("flag other than isView"%string, witness0)])]) ++
      flat_map (fun v => match violations (flagsb v) (snd fb) with [] => [] | l => [(fst fb, v, l)] end)
               (if uses_view (snd fb) then [true; false] else [false])) p.
End Flow.

Lemma flow_loop_ok : forall exempt L fl s sts, bd (flow exempt L fl (Loop s) sts) = [] ->
  bd (flow exempt L fl s sts) = [] /\
  forallb (fun a => existsb (same a) sts) (nm (flow exempt L fl s sts)) = true /\
  flow exempt L fl (Loop s) sts = mkR sts (ex (flow exempt L fl s sts)) [].
Proof.
  intros exempt L fl s sts H. simpl in *. destruct (bd (flow exempt L fl s sts)) eqn:Eb; [|simpl in H; discriminate H].
  destruct (forallb (fun a => existsb (same a) sts) (nm (flow exempt L fl s sts))) eqn:Ef; simpl in *; [auto | discriminate H].
Qed.

Lemma lookup_in : forall p f body, lookup p f = Some body -> In (f, body) p.
Proof.
  induction p as [|[g s] r IH]; simpl; intros f body Hl; [discriminate|].
  destruct (String.eqb f g) eqn:E; [apply String.eqb_eq in E; subst; left; congruence | right; auto].
Qed.

(* -------------------------------------------------------------------- concrete semantics *)
Section Sem.
  Variable p : prog.
  Variable cbs : list string.          (* the callbacks contract code can call, bracket functions excluded *)
  Variable exempt : string -> bool.
  Variable L : list string.

  (** [crun fl s x y o l]: statement [s] of a function whose executor flags are [fl], started in
      state [x] (counter delta since function entry, pending effect of the registered deferred
      statements), ends in [y] with outcome [o]; [l] lists the counter delta (relative to the
      entry of the outermost function) at every point where contract code runs.  A called function
      runs with its own flags, may end by panicking, and the caller may or may not recover.
      Contract code calls any callbacks, any number of times, and opens view brackets
      (luaViewStart ... luaViewEnd, paired by the VM: trusted).  The isView flag is that of the
      executor as far as the function reads it: a function that never tests it runs with the flag
      false, so an event is tagged "view" exactly when the contract code is started by a function
      that tests the flag and finds it set (executor.call running the body of a view function).
      Contract code run by a deferred statement is recorded with the counter at -1 (the counter
      is then in an intermediate state): accepted programs have none. *)
  Inductive crun : flags -> stmt -> cst -> cst -> oc -> list ev -> Prop :=
  | C_Skip : forall fl x, crun fl Skip x x ONormal []
  | C_SeqN : forall fl a b x y z o l1 l2, crun fl a x y ONormal l1 -> crun fl b y z o l2 -> crun fl (Seq a b) x z o (l1 ++ l2)
  | C_SeqX : forall fl a b x y o l1, crun fl a x y o l1 -> o <> ONormal -> crun fl (Seq a b) x y o l1
  | C_IfT : forall fl c a b x y o l, cevalf fl c <> Some false -> crun fl a x y o l -> crun fl (If c a b) x y o l
  | C_IfF : forall fl c a b x y o l, cevalf fl c <> Some true -> crun fl b x y o l -> crun fl (If c a b) x y o l
  | C_Loop0 : forall fl s x, crun fl (Loop s) x x ONormal []
  | C_LoopN : forall fl s x y z o l1 l2, crun fl s x y ONormal l1 -> crun fl (Loop s) y z o l2 -> crun fl (Loop s) x z o (l1 ++ l2)
  | C_LoopX : forall fl s x y o l1, crun fl s x y o l1 -> o <> ONormal -> crun fl (Loop s) x y o l1
  | C_Return : forall fl x, crun fl Return x x OReturn []
  | C_Defer : forall fl s d pp k p' o l, crun fl s (0, 0) (k, p') o l ->
      crun fl (Defer s) (d, pp) (d, pp + (k + p')) ONormal (map (fun _ => (true, -1)) l)
  | C_Inc : forall fl d pp, crun fl IncV (d, pp) (d + 1, pp) ONormal []
  | C_Dec : forall fl d pp, crun fl DecV (d, pp) (d - 1, pp) ONormal []
  | C_Mut : forall fl m k x, crun fl (Mut m k) x x ONormal []
  | C_CallExt : forall fl f x oo, lookup p f = None -> oo <> OReturn -> crun fl (Call f) x x oo []
  | C_Call : forall fl fl' f body d pp k p' o' l' oo, lookup p f = Some body -> oo <> OReturn ->
      (uses_view body = false -> fl' "isView"%string = false) ->
      crun fl' body (0, 0) (k, p') o' l' -> crun fl (Call f) (d, pp) (d + (k + p'), pp) oo (shift false d l')
  | C_Lua0 : forall fl d pp oo, oo <> OReturn -> crun fl RunLua (d, pp) (d, pp) oo [(fl "isView"%string, d)]
  | C_LuaCb : forall fl fl' f body d pp k p' o' l' z oo l2, In f cbs -> lookup p f = Some body ->
      (uses_view body = false -> fl' "isView"%string = false) ->
      crun fl' body (0, 0) (k, p') o' l' -> crun fl RunLua (d + (k + p'), pp) z oo l2 ->
      crun fl RunLua (d, pp) z oo (shift (fl "isView"%string) d l' ++ l2)
  | C_LuaBr : forall fl d pp d2 p2 o1 l1 z oo l2, crun fl RunLua (d + 1, pp) (d2, p2) o1 l1 ->
      crun fl RunLua (d2 - 1, p2) z oo l2 -> crun fl RunLua (d, pp) z oo (l1 ++ l2).

  (* -------------------------------------------------------------- soundness *)
  Definition inst (x : cst) (l : list ast) : Prop := exists a, In a l /\ a_d a = fst x /\ a_p a = snd x.

  Lemma inst_dedup : forall x l, inst x l -> inst x (dedup l).
  Proof.
    intros x l. induction l as [|y r IH]; intros (a & Hin & Hd & Hp); [destruct Hin|]. simpl.
    destruct (existsb (same y) r) eqn:E.
    - destruct Hin as [<-|Hin]; [|apply IH; exists a; auto].
      apply existsb_exists in E. destruct E as (z & Hz & Hs).
      unfold same in Hs. apply andb_true_iff in Hs. destruct Hs as [H1 H2]. apply Z.eqb_eq in H1, H2.
      apply IH. exists z. split; [exact Hz|]. split; congruence.
    - destruct Hin as [<-|Hin]; [exists y; simpl; auto|].
      destruct (IH (ex_intro _ a (conj Hin (conj Hd Hp)))) as (b & Hb & H1 & H2). exists b. simpl. auto.
  Qed.

  Lemma inst_app_l : forall x l1 l2, inst x l1 -> inst x (l1 ++ l2).
  Proof. intros x l1 l2 (a & H & H1). exists a. split; [apply in_or_app; auto | exact H1]. Qed.
  Lemma inst_app_r : forall x l1 l2, inst x l2 -> inst x (l1 ++ l2).
  Proof. intros x l1 l2 (a & H & H1). exists a. split; [apply in_or_app; auto | exact H1]. Qed.

  Lemma inst_wit : forall x l b sts, inst x sts -> inst x (map (wit l b) sts).
  Proof. intros x l b sts (a & H & H1). exists (wit l b a). split; [apply in_map; exact H | exact H1]. Qed.

  Lemma inst_same : forall x a sts, a_d a = fst x -> a_p a = snd x -> existsb (same a) sts = true -> inst x sts.
  Proof.
    intros x a sts Hd Hp H. apply existsb_exists in H. destruct H as (z & Hz & Hs).
    unfold same in Hs. apply andb_true_iff in Hs. destruct Hs as [H1 H2]. apply Z.eqb_eq in H1, H2.
    exists z. split; [exact Hz|]. split; congruence.
  Qed.

  Hypothesis Hbal : forall f body fl, lookup p f = Some body -> exempt f = false ->
    (uses_view body = false -> fl "isView"%string = false) -> balanced exempt L fl body = true.
  Hypothesis Hclosed : lua_closed p L = true.

  Lemma sfree_no_events : forall fl s x y o l, crun fl s x y o l -> sfree L s = true -> l = [].
  Proof.
    induction 1; simpl; intros Hs; try reflexivity; try discriminate Hs;
      try (apply andb_true_iff in Hs; destruct Hs as [Hs1 Hs2]).
    - rewrite IHcrun1, IHcrun2; auto.
    - auto.
    - auto.
    - auto.
    - rewrite IHcrun1, IHcrun2; auto.
    - auto.
    - rewrite IHcrun; auto.
    - assert (Hin : In (f, body) p) by (apply lookup_in; exact H).
      unfold lua_closed in Hclosed. rewrite forallb_forall in Hclosed. specialize (Hclosed _ Hin). simpl in Hclosed.
      apply negb_true_iff in Hs. rewrite Hs in Hclosed. simpl in Hclosed. rewrite IHcrun; auto.
  Qed.

  Hypothesis Hcbs : forall f, In f cbs -> exempt f = false.

  Lemma callee_zero : forall f body fl k p' o, lookup p f = Some body -> exempt f = false ->
    (uses_view body = false -> fl "isView"%string = false) ->
    (forall sts, inst (0, 0) sts -> bd (flow exempt L fl body sts) = [] ->
       (o = ONormal -> inst (k, p') (nm (flow exempt L fl body sts))) /\
       (o <> ONormal -> inst (k, p') (ex (flow exempt L fl body sts))) /\ True) ->
    k + p' = 0.
  Proof.
    intros f body fl k p' o Hl He Hu IH. destruct (balanced_inv _ _ _ _ (Hbal _ _ fl Hl He Hu)) as [Eb Ez].
    assert (Hi0 : inst (0, 0) [witness0]) by (exists witness0; simpl; auto).
    destruct (IH _ Hi0 Eb) as (N & X & _).
    assert (Hin : inst (k, p') (final_states exempt L fl body)).
    { unfold final_states. destruct o; [apply inst_app_l, N; reflexivity | apply inst_app_r, X; discriminate | apply inst_app_r, X; discriminate]. }
    destruct Hin as (a0 & Hin & Hd & Hp). simpl in Hd, Hp. specialize (Ez _ Hin). lia.
  Qed.

  Lemma flow_sound : forall fl s x y o l, crun fl s x y o l ->
    forall sts, inst x sts -> bd (flow exempt L fl s sts) = [] ->
    (o = ONormal -> inst y (nm (flow exempt L fl s sts))) /\ (o <> ONormal -> inst y (ex (flow exempt L fl s sts))) /\ Forall lua_ok l.
  Proof.
    induction 1; intros sts Hi Hb.
    - (* Skip *) simpl. split; [auto|]. split; [congruence | constructor].
    - (* SeqN *) simpl in *. apply app_eq_nil in Hb. destruct Hb as [Hb1 Hb2].
      destruct (IHcrun1 sts Hi Hb1) as (N1 & _ & L1). destruct (IHcrun2 _ (N1 eq_refl) Hb2) as (N2 & X2 & L2).
      split; [auto|]. split; [intros Ho; apply inst_app_r; auto | apply Forall_app; auto].
    - (* SeqX *) simpl in *. apply app_eq_nil in Hb. destruct Hb as [Hb1 _].
      destruct (IHcrun sts Hi Hb1) as (_ & X1 & L1).
      split; [congruence|]. split; [intros _; apply inst_app_l; auto | exact L1].
    - (* IfT *) simpl in *. destruct (cevalf fl c) as [[|]|] eqn:Ec.
      + apply IHcrun; auto.
      + congruence.
      + simpl in Hb. apply app_eq_nil in Hb. destruct Hb as [Hb1 _].
        assert (Hi' : inst x (map (wit (cond_label c) true) sts)).
        { destruct Hi as (a0 & Hin & Hd & Hp). exists (wit (cond_label c) true a0). split; [apply in_map; auto | simpl; auto]. }
        destruct (IHcrun _ Hi' Hb1) as (N & X & L0). simpl.
        split; [intros Ho; apply inst_dedup, inst_app_l; auto|].
        split; [intros Ho; apply inst_dedup, inst_app_l; auto | exact L0].
    - (* IfF *) simpl in *. destruct (cevalf fl c) as [[|]|] eqn:Ec.
      + congruence.
      + apply IHcrun; auto.
      + simpl in Hb. apply app_eq_nil in Hb. destruct Hb as [_ Hb2].
        assert (Hi' : inst x (map (wit (cond_label c) false) sts)).
        { destruct Hi as (a0 & Hin & Hd & Hp). exists (wit (cond_label c) false a0). split; [apply in_map; auto | simpl; auto]. }
        destruct (IHcrun _ Hi' Hb2) as (N & X & L0). simpl.
        split; [intros Ho; apply inst_dedup, inst_app_r; auto|].
        split; [intros Ho; apply inst_dedup, inst_app_r; auto | exact L0].
    - (* Loop0 *) destruct (flow_loop_ok _ _ _ _ _ Hb) as (Eb & Ef & Eq). rewrite Eq. simpl.
      split; [auto|]. split; [congruence | constructor].
    - (* LoopN *) destruct (flow_loop_ok _ _ _ _ _ Hb) as (Eb & Ef & Eq).
      destruct (IHcrun1 sts Hi Eb) as (N1 & _ & L1).
      assert (Hy : inst y sts).
      { destruct (N1 eq_refl) as (a0 & Hin & Hd & Hp). rewrite forallb_forall in Ef. eapply inst_same; eauto. }
      destruct (IHcrun2 sts Hy Hb) as (N2 & X2 & L2).
      split; [auto|]. split; [auto | apply Forall_app; auto].
    - (* LoopX *) destruct (flow_loop_ok _ _ _ _ _ Hb) as (Eb & Ef & Eq). rewrite Eq. simpl.
      destruct (IHcrun sts Hi Eb) as (_ & X1 & L1). split; [congruence|]. split; [auto | exact L1].
    - (* Return *) simpl. split; [congruence|]. split; [intros _; apply inst_wit; exact Hi | constructor].
    - (* Defer *) simpl in *. destruct (sfree L s) eqn:Esf; simpl in Hb; [|discriminate Hb].
      rewrite (sfree_no_events _ _ _ _ _ _ H Esf). simpl.
      destruct (bd (flow exempt L fl s [witness0])) eqn:Eb;
        [|destruct (nm (flow exempt L fl s [witness0]) ++ ex (flow exempt L fl s [witness0])); discriminate Hb].
      assert (Hi0 : inst (0, 0) [witness0]) by (exists witness0; simpl; auto).
      destruct (IHcrun _ Hi0 Eb) as (N & X & _).
      assert (Hin : inst (k, p') (nm (flow exempt L fl s [witness0]) ++ ex (flow exempt L fl s [witness0]))).
      { destruct o; [apply inst_app_l, N; reflexivity | apply inst_app_r, X; discriminate | apply inst_app_r, X; discriminate]. }
      destruct (nm (flow exempt L fl s [witness0]) ++ ex (flow exempt L fl s [witness0])) as [|x0 rest] eqn:El; [discriminate Hb|].
      destruct (forallb (fun y => (a_d y + a_p y =? a_d x0 + a_p x0)) rest) eqn:Ef; [|discriminate Hb].
      assert (Hk : k + p' = a_d x0 + a_p x0).
      { destruct Hin as (a0 & [<-|Hr] & Hd & Hp); simpl in *; [lia|].
        rewrite forallb_forall in Ef. specialize (Ef a0 Hr). apply Z.eqb_eq in Ef. lia. }
      simpl. split; [|split; [congruence | constructor]]. intros _.
      destruct Hi as (a0 & Hin0 & Hd & Hp). exists (mkA (a_d a0) (a_p a0 + (a_d x0 + a_p x0)) (a_w a0)).
      split; [apply (in_map (fun a => mkA (a_d a) (a_p a + (a_d x0 + a_p x0)) (a_w a))); exact Hin0|]. simpl in *. lia.
    - (* Inc *) simpl. split; [|split; [congruence | constructor]]. intros _.
      destruct Hi as (a0 & Hin0 & Hd & Hp). exists (mkA (a_d a0 + 1) (a_p a0) (a_w a0)).
      split; [apply (in_map (fun a => mkA (a_d a + 1) (a_p a) (a_w a))); exact Hin0 | simpl in *; lia].
    - (* Dec *) simpl. split; [|split; [congruence | constructor]]. intros _.
      destruct Hi as (a0 & Hin0 & Hd & Hp). exists (mkA (a_d a0 - 1) (a_p a0) (a_w a0)).
      split; [apply (in_map (fun a => mkA (a_d a - 1) (a_p a) (a_w a))); exact Hin0 | simpl in *; lia].
    - (* Mut *) simpl. split; [auto|]. split; [congruence | constructor].
    - (* CallExt *) simpl in *. destruct (exempt f); [discriminate Hb|]. simpl.
      split; [auto|]. split; [intros _; apply inst_wit; exact Hi | constructor].
    - (* Call *) simpl in *. destruct (exempt f) eqn:Ee; [discriminate Hb|]. simpl in *.
      assert (Hz : k + p' = 0).
      { eapply (callee_zero f body fl' k p' o'); eauto. intros sts' A B. destruct (IHcrun sts' A B) as (N & X & _). auto. }
      assert (Hi0 : inst (0, 0) [witness0]) by (exists witness0; simpl; auto).
      destruct (balanced_inv _ _ _ _ (Hbal _ _ fl' H Ee H1)) as [Eb _].
      destruct (IHcrun _ Hi0 Eb) as (_ & _ & L0).
      apply map_eq_nil in Hb.
      assert (Hd0 : 0 <= d).
      { destruct Hi as (a0 & Hin0 & Hd & Hp). simpl in Hd. pose proof (filter_nil_in _ _ _ _ Hb Hin0) as Hf. apply Z.ltb_ge in Hf. lia. }
      assert (Hi' : inst (d + (k + p'), pp) sts).
      { destruct Hi as (a0 & Hin0 & Hd & Hp). exists a0. simpl in *. split; [auto|]. split; lia. }
      split; [auto|]. split; [intros _; apply inst_wit; exact Hi'|]. apply shift_ok; [exact Hd0 | discriminate | exact L0].
    - (* Lua0 *) simpl in *. apply map_eq_nil in Hb. split; [auto|]. split; [intros _; apply inst_wit; exact Hi|]. constructor; [|constructor].
      destruct Hi as (a0 & Hin0 & Hd & Hp). simpl in Hd.
      pose proof (filter_nil_in _ _ _ _ Hb Hin0) as Hf. apply negb_false_iff in Hf. rewrite Hd in Hf. apply lua_okb_ok; exact Hf.
    - (* LuaCb *) simpl in *. pose proof Hb as Hb0. apply map_eq_nil in Hb.
      pose proof (Hcbs _ H) as Ee.
      assert (Hz : k + p' = 0).
      { eapply (callee_zero f body fl' k p' o'); eauto. intros sts' A B. destruct (IHcrun1 sts' A B) as (N & X & _). auto. }
      assert (Hi0 : inst (0, 0) [witness0]) by (exists witness0; simpl; auto).
      destruct (balanced_inv _ _ _ _ (Hbal _ _ fl' H0 Ee H1)) as [Eb _].
      destruct (IHcrun1 _ Hi0 Eb) as (_ & _ & L0).
      assert (Hok : lua_ok (fl "isView"%string, d)).
      { destruct Hi as (a0 & Hin0 & Hd & Hp). simpl in Hd.
        pose proof (filter_nil_in _ _ _ _ Hb Hin0) as Hf. apply negb_false_iff in Hf. rewrite Hd in Hf. apply lua_okb_ok; exact Hf. }
      assert (Hi' : inst (d + (k + p'), pp) sts).
      { destruct Hi as (a0 & Hin0 & Hd & Hp). exists a0. simpl in *. split; [auto|]. split; lia. }
      destruct (IHcrun2 sts Hi' Hb0) as (N2 & X2 & L2).
      split; [auto|]. split; [auto|]. apply Forall_app. split; [|exact L2].
      destruct Hok as [A B]. simpl in A, B. apply shift_ok; auto.
    - (* LuaBr *) simpl in *. pose proof Hb as Hb0. apply map_eq_nil in Hb.
      destruct Hi as (a0 & Hin0 & Hd & Hp). simpl in Hd, Hp.
      pose proof (filter_nil_in _ _ _ _ Hb Hin0) as Hf. apply negb_false_iff in Hf. rewrite Hd in Hf.
      assert (Hf1 : lua_okb (fl "isView"%string) (d + 1) = true).
      { unfold lua_okb in *. apply andb_true_iff in Hf. destruct Hf as [F1 F2]. apply Z.leb_le in F1.
        apply andb_true_iff. split; [apply Z.leb_le; lia|]. apply orb_true_iff. apply orb_true_iff in F2.
        destruct F2 as [F2|F2]; [left; exact F2 | right; apply Z.leb_le; apply Z.leb_le in F2; lia]. }
      assert (Hi1 : inst (d + 1, pp) [mkA (d + 1) pp []]) by (eexists; split; [left; reflexivity | simpl; auto]).
      assert (Hb1 : map (fun a => ("contract code runs with the view counter too low"%string, a))
                        (filter (fun a => negb (lua_okb (fl "isView"%string) (a_d a))) [mkA (d + 1) pp []]) = []).
      { simpl. rewrite Hf1. reflexivity. }
      destruct (IHcrun1 _ Hi1 Hb1) as (N1 & X1 & L1).
      assert (H2 : d2 = d + 1 /\ p2 = pp).
      { destruct o1.
        - destruct (N1 eq_refl) as (b & [<-|[]] & B1 & B2). simpl in *. split; congruence.
        - assert (Hne : OReturn <> ONormal) by discriminate.
          destruct (X1 Hne) as (b & [<-|[]] & B1 & B2). simpl in *. split; congruence.
        - assert (Hne : OPanic <> ONormal) by discriminate.
          destruct (X1 Hne) as (b & [<-|[]] & B1 & B2). simpl in *. split; congruence. }
      destruct H2 as [-> ->].
      assert (Hi2 : inst (d + 1 - 1, pp) sts) by (exists a0; simpl; split; [auto|]; split; lia).
      destruct (IHcrun2 sts Hi2 Hb0) as (N2 & X2 & L2).
      split; [auto|]. split; [auto|]. apply Forall_app; auto.
  Qed.

  (** If every function of the program passes [balanced] then on every path through any of them
      the net effect on the view counter is 0 -- whatever the exit (end of body, return, panic of a
      callee or of contract code), the deferred statements included -- and wherever contract code
      runs, directly or in a callee or in a callback called by that contract code, the counter is
      not below the entry value, and is above it if the code runs under a view executor. *)
  Theorem balance_sound : forall f body fl d pp o l, lookup p f = Some body -> exempt f = false ->
    (uses_view body = false -> fl "isView"%string = false) ->
    crun fl body (0, 0) (d, pp) o l -> d + pp = 0 /\ Forall lua_ok l.
  Proof.
    intros f body fl d pp o l Hl He Hu Hr. split.
    - eapply (callee_zero f body fl d pp o); eauto. intros sts' A B.
      destruct (flow_sound _ _ _ _ _ _ Hr sts' A B) as (N & X & _). auto.
    - destruct (balanced_inv _ _ _ _ (Hbal _ _ fl Hl He Hu)) as [Eb _].
      assert (Hi0 : inst (0, 0) [witness0]) by (exists witness0; simpl; auto).
      destruct (flow_sound _ _ _ _ _ _ Hr _ Hi0 Eb) as (_ & _ & L0). exact L0.
  Qed.
End Sem.

Lemma counter_ok_bal : forall exempt L p cbs, counter_ok exempt L p cbs = true ->
  (forall f body fl, lookup p f = Some body -> exempt f = false ->
     (uses_view body = false -> fl "isView"%string = false) -> balanced exempt L fl body = true) /\
  lua_closed p L = true /\
  (forall f, In f cbs -> exempt f = false).
Proof.
  intros exempt L p cbs H. unfold counter_ok in H. apply andb_true_iff in H. destruct H as [H01 H2].
  apply andb_true_iff in H01. destruct H01 as [H0 H1]. split; [|split; [exact H0|]].
  - intros f body fl Hl He Hu. rewrite forallb_forall in H1.
    specialize (H1 _ (lookup_in _ _ _ Hl)). unfold fn_ok in H1. simpl in H1. rewrite He in H1. simpl in H1.
    apply andb_true_iff in H1. destruct H1 as [H12 H3]. apply andb_true_iff in H12. destruct H12 as [Hf Hfalse].
    rewrite (balanced_ext exempt L fl body Hf). destruct (fl "isView"%string) eqn:Ev; [|exact Hfalse].
    destruct (uses_view body); [exact H3 | specialize (Hu eq_refl); discriminate Hu].
  - intros f Hin. rewrite forallb_forall in H2. specialize (H2 _ Hin). apply negb_true_iff in H2. exact H2.
Qed.

(** The counter discipline: a program accepted by [counter_ok], a context whose counter is [c] >= 0
    when some function of the program is entered.  Then the counter is [c] again when the function
    is left, by any exit; it is never negative while contract code runs; and it is positive --
    i.e. atom V of the context analysis holds -- whenever contract code runs under a view executor,
    in particular in the whole body of a view function, the contracts it calls included. *)
Theorem counter_discipline : forall exempt L p cbs, counter_ok exempt L p cbs = true ->
  forall f body fl d pp o l c, lookup p f = Some body -> exempt f = false ->
  (uses_view body = false -> fl "isView"%string = false) -> 0 <= c ->
  crun p cbs fl body (0, 0) (d, pp) o l ->
  c + (d + pp) = c /\
  Forall (fun e => 0 <= c + snd e /\ (fst e = true -> Z.ltb 0 (c + snd e) = true)) l.
Proof.
  intros exempt L p cbs H f body fl d pp o l c Hl He Hu Hc Hr.
  destruct (counter_ok_bal _ _ _ _ H) as (Hb & Hcl & Hcb).
  destruct (balance_sound p cbs exempt L Hb Hcl Hcb f body fl d pp o l Hl He Hu Hr) as [Hz L0].
  split; [lia|]. rewrite Forall_forall in *. intros e Hin. destruct (L0 e Hin) as [A B].
  split; [lia|]. intros Hv. apply Z.ltb_lt. specialize (B Hv). lia.
Qed.

(* ----------------------------------------------------------------------------- examples *)
Definition no_exempt : string -> bool := fun _ => false.

(** executor.call of the current tree, schematically: balanced for both values of isView *)
Example ex_call : stmt :=
  Seq (Defer Skip) (Seq (If CUnknown Return Skip) (Seq (If (CFlag "isView") (Seq IncV (Defer DecV)) Skip)
      (Seq (Call "vmLoadCall") (Seq (If CUnknown Return Skip) (Seq RunLua Return))))).
Example ex_call_balanced :
  balanced no_exempt [] (flagsb true) ex_call = true /\ balanced no_exempt [] (flagsb false) ex_call = true.
Proof. split; vm_compute; reflexivity. Qed.

(** the decrement deferred up front and the increment after the early exits: rejected, the
    witness path takes the early return with the counter at -1 *)
Example ex_seed : stmt :=
  Seq (Defer (If (CFlag "isView") DecV Skip)) (Seq (Call "vmLoadCall") (Seq (If CUnknown Return Skip)
      (Seq (If (CFlag "isView") IncV Skip) (Seq RunLua Return)))).
Example ex_seed_rejected : balanced no_exempt [] (flagsb true) ex_seed = false /\ balanced no_exempt [] (flagsb false) ex_seed = true.
Proof. split; vm_compute; reflexivity. Qed.

(** the semantics is not empty: a run of ex_call as a view executor, contract code at entry + 1 *)
Example ex_run : crun [] [] (flagsb true) ex_call (0, 0) (1, -1) OReturn [(true, 1)].
Proof.
  unfold ex_call.
  apply (C_SeqN [] [] (flagsb true) _ _ (0, 0) (0, 0 + (0 + 0)) (1, -1) OReturn [] [(true, 1)]).
  { apply (C_Defer [] [] (flagsb true) Skip 0 0 0 0 ONormal []). apply C_Skip. }
  apply (C_SeqN [] [] (flagsb true) _ _ _ (0, 0) (1, -1) OReturn [] [(true, 1)]).
  { apply C_IfF; [discriminate | apply C_Skip]. }
  apply (C_SeqN [] [] (flagsb true) _ _ _ (1, -1) (1, -1) OReturn [] [(true, 1)]).
  { apply C_IfT; [discriminate|].
    apply (C_SeqN [] [] (flagsb true) _ _ (0, 0) (0 + 1, 0) (1, -1) ONormal [] []); [apply C_Inc|].
    apply (C_Defer [] [] (flagsb true) DecV (0 + 1) 0 (0 - 1) 0 ONormal []). apply C_Dec. }
  apply (C_SeqN [] [] (flagsb true) _ _ _ (1, -1) (1, -1) OReturn [] [(true, 1)]).
  { apply C_CallExt; [reflexivity | discriminate]. }
  apply (C_SeqN [] [] (flagsb true) _ _ _ (1, -1) (1, -1) OReturn [] [(true, 1)]).
  { apply C_IfF; [discriminate | apply C_Skip]. }
  apply (C_SeqN [] [] (flagsb true) _ _ _ (1, -1) (1, -1) OReturn [(true, 1)] []).
  { apply (C_Lua0 [] [] (flagsb true) 1 (-1) ONormal). discriminate. }
  apply C_Return.
Qed.

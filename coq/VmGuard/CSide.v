(** C20, C side: the reviewed inventory of the C functions of contract/*.c that contract code can
    reach: (function, registered with Lua (luaL_Reg / lua_pushcfunction / lua_register)?, exported
    Go callbacks it calls directly).  Gen/CCallbacks.v (lib/g6_cscan.py) regenerates the inventory
    from the source on every run; Properties/C20.v proves by vm_compute that every generated entry
    that is registered or calls a Go callback is in this list, so that a new Lua-registered C
    function, or a new call of a Go callback from C, is a failing obligation (to be reviewed and
    added here).  The bodies themselves are translated and checked by [check] (Properties/C20.v). *)
From Coq Require Import String List Bool.
Import ListNotations.
Open Scope string_scope.

Definition c_reviewed : list (string * bool * list string) := [
  ("Badd", true, []);
  ("Bcompare", true, []);
  ("Bdiv", true, []);
  ("Bdivmod", true, []);
  ("Beq", true, []);
  ("Bfrombyte", true, []);
  ("Bgc", true, []);
  ("Bis", true, []);
  ("Bisneg", true, []);
  ("Bispos", true, []);
  ("Biszero", true, []);
  ("Blt", true, []);
  ("Bmod", true, []);
  ("Bmul", true, []);
  ("Bneg", true, []);
  ("Bnumber", true, []);
  ("Bpow", true, []);
  ("Bpowmod", true, []);
  ("Bsqrt", true, []);
  ("Bsub", true, []);
  ("Btobyte", true, []);
  ("Btonumber", true, []);
  ("Btostring", true, []);
  ("byteoffset", true, []);
  ("call_gas", true, []);
  ("call_value", true, []);
  ("codepoint", true, []);
  ("crypto_ecverify", true, ["luaECVerify"]);
  ("crypto_keccak256", true, ["luaCryptoKeccak256"]);
  ("crypto_sha256", true, ["luaCryptoSha256"]);
  ("crypto_verifyProof", true, ["luaCryptoVerifyProof"]);
  ("db_exec", true, ["luaCheckView"]);
  ("db_get_snapshot", true, ["LuaGetDbSnapshot"]);
  ("db_last_insert_rowid", true, []);
  ("db_open_with_snapshot", true, ["LuaGetDbHandleSnap"]);
  ("db_prepare", true, []);
  ("db_pstmt_bind_param_cnt", true, []);
  ("db_pstmt_column_info", true, []);
  ("db_pstmt_exec", true, ["luaCheckView"]);
  ("db_pstmt_gc", true, []);
  ("db_pstmt_query", true, []);
  ("db_pstmt_tostr", true, []);
  ("db_query", true, []);
  ("db_rs_colcnt", true, []);
  ("db_rs_gc", true, []);
  ("db_rs_get", true, []);
  ("db_rs_next", true, []);
  ("db_rs_tostr", true, []);
  ("delItemWithPrefix", true, ["luaDelDB"]);
  ("delegate_call_gas", true, []);
  ("delete_breakpoint_lua", true, ["CDelBreakPoint"]);
  ("delete_watchpoint_lua", true, ["CDelWatchPoint"]);
  ("deploy_value", true, []);
  ("getAmount", true, ["luaGetAmount"]);
  ("getBlockHeight", true, ["luaGetBlockNo"]);
  ("getContractID", true, ["luaGetContractId"]);
  ("getCreator", true, ["luaGetDB"]);
  ("getItem", true, []);
  ("getItemWithPrefix", true, ["luaGetDB"]);
  ("getOrigin", true, ["luaGetOrigin"]);
  ("getPrevBlockHash", true, ["luaGetPrevBlockHash"]);
  ("getSender", true, ["luaGetSender"]);
  ("getTimestamp", true, ["luaGetTimeStamp"]);
  ("getTxhash", true, ["luaGetHash"]);
  ("get_contract_info_lua", true, ["CGetContractID"; "CGetSrc"]);
  ("get_watchpoint_lua", true, ["CGetWatchPoint"]);
  ("governance", false, ["luaGovernance"]);
  ("has_breakpoint_lua", true, ["CHasBreakPoint"]);
  ("is_contract", true, ["luaIsContract"]);
  ("is_fee_delegation", true, ["luaIsFeeDelegation"]);
  ("iter_aux", true, []);
  ("iter_codes", true, []);
  ("len_watchpoints_lua", true, ["CLenWatchPoints"]);
  ("list_watchpoints_lua", true, ["CGetWatchPoint"; "CLenWatchPoints"]);
  ("lua_json_decode", true, []);
  ("lua_json_encode", true, []);
  ("lua_random", true, ["luaRandomInt"]);
  ("moduleBalance", true, ["luaGetBalance"; "luaGetStaking"]);
  ("moduleCall", true, ["luaCallContract"; "luaSendAmount"]);
  ("moduleDelegateCall", true, ["luaDelegateCallContract"]);
  ("moduleDeploy", true, ["luaDeployContract"]);
  ("moduleEvent", true, ["luaEvent"]);
  ("modulePcall", true, ["luaClearRecovery"; "luaDropEvent"; "luaGetEventCount"; "luaSetRecoveryPoint"]);
  ("moduleSend", true, ["luaSendAmount"]);
  ("moduleStake", true, []);
  ("moduleUnstake", true, []);
  ("moduleVote", true, []);
  ("moduleVoteDao", true, []);
  ("nsec", true, []);
  ("os_date", true, []);
  ("os_difftime", true, []);
  ("os_time", true, []);
  ("pcall", true, ["luaClearRecovery"; "luaDropEvent"; "luaGetEventCount"; "luaSetRecoveryPoint"]);
  ("print_breakpoints_lua", true, ["PrintBreakPoints"]);
  ("reset_breakpoints_lua", true, ["ResetBreakPoints"]);
  ("reset_watchpoints_lua", true, ["ResetWatchPoints"]);
  ("resolve", true, ["luaNameResolve"]);
  ("setItem", true, []);
  ("setItemWithPrefix", true, ["luaSetDB"]);
  ("set_breakpoint_lua", true, ["CSetBreakPoint"]);
  ("set_watchpoint_lua", true, ["CSetWatchPoint"]);
  ("sqlcheck_is_permitted_sql", false, ["PermittedCmd"]);
  ("stacktrace", true, []);
  ("state_array", true, []);
  ("state_array_append", true, []);
  ("state_array_gc", true, []);
  ("state_array_get", true, []);
  ("state_array_iter", true, []);
  ("state_array_len", true, []);
  ("state_array_pairs", true, []);
  ("state_array_set", true, []);
  ("state_get_snap", true, []);
  ("state_map", true, []);
  ("state_map_delete", true, []);
  ("state_map_gc", true, []);
  ("state_map_get", true, []);
  ("state_map_set", true, []);
  ("state_value", true, []);
  ("state_value_gc", true, []);
  ("state_value_get", true, []);
  ("state_value_set", true, []);
  ("state_var", true, []);
  ("systemPrint", true, ["luaPrint"]);
  ("system_version", true, []);
  ("toAddress", true, ["luaToAddress"]);
  ("toPubkey", true, ["luaToPubkey"]);
  ("utfchar", true, []);
  ("utflen", true, []);
  ("vm_get_db", false, ["luaGetDbHandle"]);
  ("xpcall", true, ["luaClearRecovery"; "luaDropEvent"; "luaGetEventCount"; "luaSetRecoveryPoint"])
].

Fixpoint list_eqb (a b : list string) : bool :=
  match a, b with
  | [], [] => true
  | x :: a', y :: b' => String.eqb x y && list_eqb a' b'
  | _, _ => false
  end.

Definition c_item_eqb (x y : string * bool * list string) : bool :=
  String.eqb (fst (fst x)) (fst (fst y)) && Bool.eqb (snd (fst x)) (snd (fst y)) && list_eqb (snd x) (snd y).

(** the generated inventory items (registered, or calling a Go callback) that are not reviewed *)
Definition c_unreviewed (inv : list (string * bool * list string)) :=
  filter (fun x => (snd (fst x) || match snd x with [] => false | _ => true end)
                   && negb (existsb (c_item_eqb x) c_reviewed)) inv.

Definition c_inventory_reviewed (inv : list (string * bool * list string)) : bool :=
  match c_unreviewed inv with [] => true | _ => false end.

(** C20 read-only contract execution — the small structured language the host-API callbacks
    of contract/vm_callback.go (and what they call inside package contract) are translated to
    by gen/gen_vmguard, with its trace semantics.  No proofs in this file.

    Atoms of the execution context: Q = ctx.isQuery, V = ctx.nestedView > 0, AmtPos / AmtZero =
    sign tests on the call's amount (no assumption that one of them holds), F5 = fork version >= 5. *)
From Coq Require Import List Bool String.
Import ListNotations.

Inductive atom := AQ | AV | AAmtPos | AAmtZero | AF5.
Record env := mkE { eQ : bool; eV : bool; eP : bool; eZ : bool; eF : bool }.

Definition aval (e : env) (a : atom) : bool :=
  match a with AQ => eQ e | AV => eV e | AAmtPos => eP e | AAmtZero => eZ e | AF5 => eF e end.

Inductive cond :=
| CTrue | CFalse | CUnknown | CAtom (a : atom) | CNot (c : cond) | CAnd (a b : cond) | COr (a b : cond)
| CFlag (name : string)    (* a named flag of the executor (ce.isView): unknown to the context analysis *)
| CUnknownAt (pos : string).  (* CUnknown carrying the source position and text of the condition (for reports) *)

(** three-valued evaluation: None = not determined by the atoms *)
Fixpoint ceval (e : env) (c : cond) : option bool :=
  match c with
  | CTrue => Some true
  | CFalse => Some false
  | CUnknown => None
  | CFlag _ => None
  | CUnknownAt _ => None
  | CAtom a => Some (aval e a)
  | CNot c => option_map negb (ceval e c)
  | CAnd a b =>
      match ceval e a, ceval e b with
      | Some false, _ | _, Some false => Some false
      | Some true, Some true => Some true
      | _, _ => None
      end
  | COr a b =>
      match ceval e a, ceval e b with
      | Some true, _ | _, Some true => Some true
      | Some false, Some false => Some false
      | _, _ => None
      end
  end.

(** in which read-only contexts a mutator is forbidden *)
Inductive kind := KAny (* under Q or V *) | KQ (* under Q *) | KV (* under V *)
                | KNever (* never forbidden: a tracked effect of the recovery-point analysis, VmGuard/RecPoint.v *).

Definition forbidden (k : kind) (e : env) : bool :=
  match k with KAny => eQ e || eV e | KQ => eQ e | KV => eV e | KNever => false end.

Inductive stmt :=
| Skip | Seq (a b : stmt) | If (c : cond) (a b : stmt) | Loop (s : stmt) | Return | Defer (s : stmt)
| Mut (m : string) (k : kind) | Call (f : string) | RunLua
| IncV | DecV.              (* ctx.nestedView++ / ctx.nestedView-- (analysed by VmGuard/Balance.v) *)

Definition prog := list (string * stmt).

Fixpoint lookup (p : prog) (f : string) : option stmt :=
  match p with [] => None | (g, s) :: p' => if String.eqb f g then Some s else lookup p' f end.

(** the contexts the property is about: read-only, and (F13) amounts non-negative unless fork >= 5 *)
Definition good (e : env) : bool := (eQ e || eV e) && (eF e || eP e || eZ e).

(** contract code run from inside a callback calls back under a context with the same Q and fork
    version, a view depth that can only have become positive, and its own amount *)
Definition env_rel (e e' : env) : Prop :=
  eQ e' = eQ e /\ eF e' = eF e /\ (eV e = true -> eV e' = true) /\ (eF e' || eP e' || eZ e') = true.

(** an event of a trace: a mutator performed, its kind, the context it was performed in *)
Definition event := (string * kind * env)%type.

Section Sem.
  Variable p : prog.
  Variable cbs : list string.       (* the exported callbacks *)

  (** [exec e s tr normal]: statement [s] run in context [e] can perform the mutators [tr] and
      complete normally ([normal = true]) or by returning from the function.  CUnknown conditions
      and loops are nondeterministic; a deferred statement performs its effects when the defer is
      reached (the order of effects is irrelevant to the property); a call of a function outside
      the program has no effect (the mutating ones are translated to [Mut]); [RunLua] is any finite
      sequence of exported callbacks in related contexts. *)
  Inductive exec : env -> stmt -> list event -> bool -> Prop :=
  | X_Skip : forall e, exec e Skip [] true
  | X_SeqN : forall e a b t1 t2 o, exec e a t1 true -> exec e b t2 o -> exec e (Seq a b) (t1 ++ t2) o
  | X_SeqR : forall e a b t1, exec e a t1 false -> exec e (Seq a b) t1 false
  | X_IfT : forall e c a b t o, ceval e c <> Some false -> exec e a t o -> exec e (If c a b) t o
  | X_IfF : forall e c a b t o, ceval e c <> Some true -> exec e b t o -> exec e (If c a b) t o
  | X_Loop0 : forall e s, exec e (Loop s) [] true
  | X_LoopN : forall e s t1 t2 o, exec e s t1 true -> exec e (Loop s) t2 o -> exec e (Loop s) (t1 ++ t2) o
  | X_LoopR : forall e s t1, exec e s t1 false -> exec e (Loop s) t1 false
  | X_Return : forall e, exec e Return [] false
  | X_Defer : forall e s t o, exec e s t o -> exec e (Defer s) t true
  | X_Mut : forall e m k, exec e (Mut m k) [(m, k, e)] true
  | X_Call : forall e f body t o, lookup p f = Some body -> exec e body t o -> exec e (Call f) t true
  | X_CallExt : forall e f, lookup p f = None -> exec e (Call f) [] true
  | X_IncV : forall e, exec e IncV [] true
  | X_DecV : forall e, exec e DecV [] true
  | X_Lua0 : forall e, exec e RunLua [] true
  | X_LuaN : forall e e' cb t1 o1 t2, In cb cbs -> env_rel e e' ->
      exec e' (Call cb) t1 o1 -> exec e RunLua t2 true -> exec e RunLua (t1 ++ t2) true.
End Sem.

(** C20 -- the recovery-point discipline.  createRecoveryPoint links into ctx.lastRecoveryPoint a
    record (sender, callee, amount, state snapshot) that clearRecoveryPoint / revertState later
    "undo": the amount is moved back from the callee to the sender without any balance check.
    A recovery point that carries an amount must therefore describe a transfer that was really
    attempted.  The translator turns a call of createRecoveryPoint with the call's amount into
    [Mut "RecPush:amount" KNever] (with zeroBig: "RecPush:zero"), an unlink
    (ctx.lastRecoveryPoint = ctx.lastRecoveryPoint.prev, clearRecoveryPoint) into
    [Mut "RecPop" KNever]; the transfer is [Mut "SendBalance" _], [Mut "ExecuteSystemTx" _] (staking) or a call of sendBalance;
    the then-branch of `if r := sendBalance(...); r != nil` starts with [Mut "SendFailed" KNever] (nothing was moved).
    This file: the path semantics of one function in a context, an abstract interpreter over
    (an amount-carrying recovery point of this invocation is linked, a transfer was reached), and its
    soundness: if [rec_ok] accepts, every path that leaves the function with such a recovery
    point linked has reached the transfer before. *)
From Coq Require Import List Bool String Lia.
From Verif Require Import VmGuard.Lang.
Import ListNotations.
Open Scope string_scope.

Definition pst := (bool * bool)%type.     (* amount-carrying recovery point linked by this invocation, transfer reached *)

Definition is_send_call (f : string) : bool := String.eqb f "sendBalance".

(** mutators that move the amount: state.SendBalance, and system.ExecuteSystemTx (staking / unstaking from a contract) *)
Definition is_transfer_mut (m : string) : bool := String.eqb m "SendBalance" || String.eqb m "ExecuteSystemTx".

Definition mut_eff (m : string) (x : pst) : pst :=
  if String.eqb m "RecPush:amount" then (true, snd x)
  else if String.eqb m "RecPop" then (false, snd x)
  else if is_transfer_mut m then (fst x, true)
  else if String.eqb m "SendFailed" then (fst x, false)      (* the branch `if r := sendBalance(..); r != nil`: nothing was moved *)
  else x.
Definition call_eff (f : string) (x : pst) : pst := if is_send_call f then (fst x, true) else x.

(** a statement without recovery-point operations and transfers (required of deferred statements) *)
Fixpoint quiet (s : stmt) : bool :=
  match s with
  | Mut m _ => negb (String.eqb m "RecPush:amount" || String.eqb m "RecPop" || is_transfer_mut m || String.eqb m "SendFailed")
  | Call f => negb (is_send_call f)
  | Seq a b | If _ a b => quiet a && quiet b
  | Loop s | Defer s => quiet s
  | _ => true
  end.

Section Sem.
  Variable e : env.

  (** [prun s x y normal]: one path through [s] from state [x]; [normal = false]: the function returned *)
  Inductive prun : stmt -> pst -> pst -> bool -> Prop :=
  | P_Skip : forall x, prun Skip x x true
  | P_SeqN : forall a b x y z o, prun a x y true -> prun b y z o -> prun (Seq a b) x z o
  | P_SeqR : forall a b x y, prun a x y false -> prun (Seq a b) x y false
  | P_IfT : forall c a b x y o, ceval e c <> Some false -> prun a x y o -> prun (If c a b) x y o
  | P_IfF : forall c a b x y o, ceval e c <> Some true -> prun b x y o -> prun (If c a b) x y o
  | P_Loop0 : forall s x, prun (Loop s) x x true
  | P_LoopN : forall s x y z o, prun s x y true -> prun (Loop s) y z o -> prun (Loop s) x z o
  | P_LoopR : forall s x y, prun s x y false -> prun (Loop s) x y false
  | P_Return : forall x, prun Return x x false
  | P_Defer : forall s x, prun (Defer s) x x true        (* deferred statements are [quiet] in accepted functions *)
  | P_Mut : forall m k x, prun (Mut m k) x (mut_eff m x) true
  | P_Call : forall f x, prun (Call f) x (call_eff f x) true
  | P_Lua : forall x, prun RunLua x x true                (* nested callbacks link and unlink their own recovery points *)
  | P_Inc : forall x, prun IncV x x true
  | P_Dec : forall x, prun DecV x x true.

  (* ------------------------------------------------------------ abstract interpreter *)
  Record ast := mkA { a_s : pst; a_w : list (string * bool) }.
  Record res := mkR { nm : list ast; ex : list ast; bd : list string }.
  Definition same (a b : ast) : bool := Bool.eqb (fst (a_s a)) (fst (a_s b)) && Bool.eqb (snd (a_s a)) (snd (a_s b)).
  Fixpoint dedup (l : list ast) : list ast :=
    match l with [] => [] | x :: r => if existsb (same x) r then dedup r else x :: dedup r end.
  Definition wit (l : string) (b : bool) (a : ast) : ast := mkA (a_s a) (a_w a ++ [(l, b)]).
  Fixpoint cond_label (c : cond) : string :=
    match c with
    | CUnknownAt pos => pos
    | CAtom AQ => "isQuery" | CAtom AV => "nestedView > 0" | CAtom AAmtPos => "amount > 0" | CAtom AAmtZero => "amount == 0" | CAtom AF5 => "version >= 5"
    | CNot c => cond_label c
    | CAnd a b | COr a b => match cond_label a with EmptyString => cond_label b | l => l end
    | _ => EmptyString
    end.

  Fixpoint flow (s : stmt) (sts : list ast) : res :=
    match s with
    | Skip | RunLua | IncV | DecV => mkR sts [] []
    | Seq a b => let r1 := flow a sts in let r2 := flow b (nm r1) in mkR (nm r2) (ex r1 ++ ex r2) (bd r1 ++ bd r2)
    | If c a b =>
        match ceval e c with
        | Some true => flow a (map (wit (cond_label c) true) sts)
        | Some false => flow b (map (wit (cond_label c) false) sts)
        | None => let r1 := flow a (map (wit (cond_label c) true) sts) in
                  let r2 := flow b (map (wit (cond_label c) false) sts) in
                  mkR (dedup (nm r1 ++ nm r2)) (dedup (ex r1 ++ ex r2)) (bd r1 ++ bd r2)
        end
    | Loop s => let r := flow s sts in
                match bd r with
                | [] => if forallb (fun a => existsb (same a) sts) (nm r) then mkR sts (ex r) []
                        else mkR sts [] ["a loop body links a recovery point or reaches the transfer"]
                | b => mkR sts [] b
                end
    | Return => mkR [] (map (wit "return" true) sts) []
    | Defer s => if quiet s then mkR sts [] [] else mkR sts [] ["recovery-point operation or transfer in a deferred statement"]
    | Mut m _ => mkR (map (fun a => mkA (mut_eff m (a_s a)) (a_w a ++ [(m, true)])) sts) [] []
    | Call f => mkR (map (fun a => mkA (call_eff f (a_s a)) (if is_send_call f then a_w a ++ [("sendBalance", true)] else a_w a)) sts) [] []
    end.

  Definition start : ast := mkA (false, false) [].
  Definition exits (body : stmt) : list ast := let r := flow body [start] in nm r ++ ex r.
  (** exits that leave an amount-carrying recovery point linked although no transfer was reached *)
  Definition stale (body : stmt) : list ast := filter (fun a => fst (a_s a) && negb (snd (a_s a))) (exits body).
  Definition rec_ok (body : stmt) : bool :=
    match bd (flow body [start]), stale body with [], [] => true | _, _ => false end.

  (* ------------------------------------------------------------ soundness *)
  Definition inst (x : pst) (l : list ast) : Prop := exists a, In a l /\ a_s a = x.

  Lemma inst_dedup : forall x l, inst x l -> inst x (dedup l).
  Proof.
    intros x l. induction l as [|y r IH]; intros (a & Hin & Hs); [destruct Hin|]. simpl.
    destruct (existsb (same y) r) eqn:E.
    - destruct Hin as [<-|Hin]; [|apply IH; exists a; auto].
      apply existsb_exists in E. destruct E as (z & Hz & Hsm). unfold same in Hsm.
      apply andb_true_iff in Hsm. destruct Hsm as [H1 H2]. apply Bool.eqb_prop in H1, H2.
      apply IH. exists z. split; [exact Hz|]. rewrite <- Hs. destruct (a_s z), (a_s y). simpl in *. congruence.
    - destruct Hin as [<-|Hin]; [exists y; simpl; auto|].
      destruct (IH (ex_intro _ a (conj Hin Hs))) as (b & Hb & H1). exists b. simpl. auto.
  Qed.
  Lemma inst_app_l : forall x l1 l2, inst x l1 -> inst x (l1 ++ l2).
  Proof. intros x l1 l2 (a & H & H1). exists a. split; [apply in_or_app; auto | exact H1]. Qed.
  Lemma inst_app_r : forall x l1 l2, inst x l2 -> inst x (l1 ++ l2).
  Proof. intros x l1 l2 (a & H & H1). exists a. split; [apply in_or_app; auto | exact H1]. Qed.
  Lemma inst_wit : forall x l b sts, inst x sts -> inst x (map (wit l b) sts).
  Proof. intros x l b sts (a & H & H1). exists (wit l b a). split; [apply in_map; exact H | exact H1]. Qed.
  Lemma inst_same : forall x a sts, a_s a = x -> existsb (same a) sts = true -> inst x sts.
  Proof.
    intros x a sts Hs H. apply existsb_exists in H. destruct H as (z & Hz & Hsm). unfold same in Hsm.
    apply andb_true_iff in Hsm. destruct Hsm as [H1 H2]. apply Bool.eqb_prop in H1, H2.
    exists z. split; [exact Hz|]. rewrite <- Hs. destruct (a_s z), (a_s a). simpl in *. congruence.
  Qed.

  Lemma flow_loop_ok : forall s sts, bd (flow (Loop s) sts) = [] ->
    bd (flow s sts) = [] /\ forallb (fun a => existsb (same a) sts) (nm (flow s sts)) = true /\
    flow (Loop s) sts = mkR sts (ex (flow s sts)) [].
  Proof.
    intros s sts H. simpl in *. destruct (bd (flow s sts)) eqn:Eb; [|simpl in H; discriminate H].
    destruct (forallb (fun a => existsb (same a) sts) (nm (flow s sts))) eqn:Ef; simpl in *; [auto | discriminate H].
  Qed.

  Lemma flow_sound : forall s x y o, prun s x y o ->
    forall sts, inst x sts -> bd (flow s sts) = [] ->
    (o = true -> inst y (nm (flow s sts))) /\ (o = false -> inst y (ex (flow s sts))).
  Proof.
    induction 1; intros sts Hi Hb.
    - simpl. split; [auto | discriminate].
    - simpl in *. apply app_eq_nil in Hb. destruct Hb as [Hb1 Hb2].
      destruct (IHprun1 sts Hi Hb1) as (N1 & _). destruct (IHprun2 _ (N1 eq_refl) Hb2) as (N2 & X2).
      split; [auto | intros Ho; apply inst_app_r; auto].
    - simpl in *. apply app_eq_nil in Hb. destruct Hb as [Hb1 _].
      destruct (IHprun sts Hi Hb1) as (_ & X1). split; [discriminate | intros _; apply inst_app_l; auto].
    - simpl in *. destruct (ceval e c) as [[|]|] eqn:Ec.
      + apply IHprun; [apply inst_wit; exact Hi | exact Hb].
      + congruence.
      + simpl in Hb. apply app_eq_nil in Hb. destruct Hb as [Hb1 _].
        destruct (IHprun _ (inst_wit _ (cond_label c) true _ Hi) Hb1) as (N & X). simpl.
        split; intros Ho; apply inst_dedup, inst_app_l; auto.
    - simpl in *. destruct (ceval e c) as [[|]|] eqn:Ec.
      + congruence.
      + apply IHprun; [apply inst_wit; exact Hi | exact Hb].
      + simpl in Hb. apply app_eq_nil in Hb. destruct Hb as [_ Hb2].
        destruct (IHprun _ (inst_wit _ (cond_label c) false _ Hi) Hb2) as (N & X). simpl.
        split; intros Ho; apply inst_dedup, inst_app_r; auto.
    - destruct (flow_loop_ok _ _ Hb) as (Eb & Ef & Eq). rewrite Eq. simpl. split; [auto | discriminate].
    - destruct (flow_loop_ok _ _ Hb) as (Eb & Ef & Eq).
      destruct (IHprun1 sts Hi Eb) as (N1 & _).
      assert (Hy : inst y sts).
      { destruct (N1 eq_refl) as (a0 & Hin & Hs). rewrite forallb_forall in Ef. eapply inst_same; eauto. }
      exact (IHprun2 sts Hy Hb).
    - destruct (flow_loop_ok _ _ Hb) as (Eb & Ef & Eq). rewrite Eq. simpl.
      destruct (IHprun sts Hi Eb) as (_ & X1). split; [discriminate | auto].
    - simpl. split; [discriminate | intros _; apply inst_wit; exact Hi].
    - simpl in *. destruct (quiet s); simpl in *; [|discriminate Hb]. split; [auto | discriminate].
    - simpl. split; [|discriminate]. intros _. destruct Hi as (a0 & Hin & Hs).
      exists (mkA (mut_eff m (a_s a0)) (a_w a0 ++ [(m, true)])).
      split; [apply (in_map (fun a => mkA (mut_eff m (a_s a)) (a_w a ++ [(m, true)]))); exact Hin | simpl; congruence].
    - simpl. split; [|discriminate]. intros _. destruct Hi as (a0 & Hin & Hs).
      exists (mkA (call_eff f (a_s a0)) (if is_send_call f then a_w a0 ++ [("sendBalance", true)] else a_w a0)).
      split; [apply (in_map (fun a => mkA (call_eff f (a_s a)) (if is_send_call f then a_w a ++ [("sendBalance", true)] else a_w a))); exact Hin
             | simpl; congruence].
    - simpl. split; [auto | discriminate].
    - simpl. split; [auto | discriminate].
    - simpl. split; [auto | discriminate].
  Qed.

  (** recpoint_matches_effect: if [rec_ok] accepts the body, then on every path through it, in
      context [e], that ends (by return or at the end of the body) with an amount-carrying
      recovery point of this invocation still linked, the transfer was reached before. *)
  Theorem rec_ok_sound : forall body y o, rec_ok body = true ->
    prun body (false, false) y o -> fst y = true -> snd y = true.
  Proof.
    intros body y o Hok Hr Hp. unfold rec_ok in Hok.
    destruct (bd (flow body [start])) eqn:Eb; [|discriminate Hok].
    destruct (stale body) eqn:Es; [|discriminate Hok].
    assert (Hi0 : inst (false, false) [start]) by (exists start; simpl; auto).
    destruct (flow_sound _ _ _ _ Hr _ Hi0 Eb) as (N & X).
    assert (Hin : inst y (exits body)).
    { unfold exits. destruct o; [apply inst_app_l, N; reflexivity | apply inst_app_r, X; reflexivity]. }
    destruct Hin as (a0 & Hin & Hs). destruct (snd y) eqn:E; [reflexivity|]. exfalso.
    assert (Hf : In a0 (stale body)).
    { unfold stale. apply filter_In. split; [exact Hin|]. rewrite Hs, Hp, E. reflexivity. }
    rewrite Es in Hf. destruct Hf.
  Qed.

  (** the read-only variant: no exit at all with an amount-carrying recovery point linked *)
  Definition linked (body : stmt) : list ast := filter (fun a => fst (a_s a)) (exits body).
  Definition rec_ro_ok (body : stmt) : bool :=
    match bd (flow body [start]), linked body with [], [] => true | _, _ => false end.
  Theorem rec_ro_ok_sound : forall body y o, rec_ro_ok body = true -> prun body (false, false) y o -> fst y = false.
  Proof.
    intros body y o Hok Hr. unfold rec_ro_ok in Hok.
    destruct (bd (flow body [start])) eqn:Eb; [|discriminate Hok].
    destruct (linked body) eqn:Es; [|discriminate Hok].
    assert (Hi0 : inst (false, false) [start]) by (exists start; simpl; auto).
    destruct (flow_sound _ _ _ _ Hr _ Hi0 Eb) as (N & X).
    assert (Hin : inst y (exits body)).
    { unfold exits. destruct o; [apply inst_app_l, N; reflexivity | apply inst_app_r, X; reflexivity]. }
    destruct Hin as (a0 & Hin & Hs). destruct (fst y) eqn:E; [|reflexivity]. exfalso.
    assert (Hf : In a0 (linked body)).
    { unfold linked. apply filter_In. split; [exact Hin|]. rewrite Hs, E. reflexivity. }
    rewrite Es in Hf. destruct Hf.
  Qed.
End Sem.

(** does a function contain recovery-point operations *)
Fixpoint has_rec (s : stmt) : bool :=
  match s with
  | Mut m _ => String.eqb m "RecPush:amount" || String.eqb m "RecPop"
  | Seq a b | If _ a b => has_rec a || has_rec b
  | Loop s | Defer s => has_rec s
  | _ => false
  end.

Definition envs_pos : list env :=
  flat_map (fun q => flat_map (fun v => flat_map (fun f => [mkE q v true false f]) [true; false]) [true; false]) [true; false].

(** the whole-program check: every function with recovery-point operations, every context with a positive amount *)
Definition recpoints_ok (p : prog) : bool :=
  forallb (fun fb => negb (has_rec (snd fb)) || forallb (fun e => rec_ok e (snd fb)) envs_pos) p.

(** the failing (function, context, reason or witness path) rows *)
Definition rec_offending (p : prog) : list (string * env * string * list (string * bool)) :=
  flat_map (fun fb => if has_rec (snd fb) then
    flat_map (fun e => (map (fun b => (fst fb, e, b, [])) (bd (flow e (snd fb) [start]))
                       ++ map (fun a => (fst fb, e, "exit with an amount-carrying recovery point linked and no transfer reached", a_w a)) (stale e (snd fb)))%list)
             envs_pos else []) p.

Definition envs_ro_pos : list env := filter (fun e => eQ e || eV e) envs_pos.
Definition recpoints_ro_ok (p : prog) : bool :=
  forallb (fun fb => negb (has_rec (snd fb)) || forallb (fun e => rec_ro_ok e (snd fb)) envs_ro_pos) p.
Definition rec_ro_offending (p : prog) : list (string * env * string * list (string * bool)) :=
  flat_map (fun fb => if has_rec (snd fb) then
    flat_map (fun e => map (fun a => (fst fb, e, "read-only context: exit with an amount-carrying recovery point linked", a_w a)) (linked e (snd fb)))
             envs_ro_pos else []) p.

Lemma envs_pos_complete : forall e, eP e = true -> eZ e = false -> In e envs_pos.
Proof. intros [q v p z f] Hp Hz. simpl in *. subst. destruct q, v, f; simpl; tauto. Qed.

Theorem recpoint_matches_effect : forall p, recpoints_ok p = true ->
  forall f body e y o, In (f, body) p -> eP e = true -> eZ e = false ->
  prun e body (false, false) y o -> fst y = true -> snd y = true.
Proof.
  intros p H f body e y o Hin Hp Hz Hr Hy. unfold recpoints_ok in H. rewrite forallb_forall in H.
  specialize (H _ Hin). cbn [fst snd] in H. apply orb_true_iff in H. destruct H as [H|H].
  - (* no recovery-point operation at all: the first component stays false *)
    exfalso. apply negb_true_iff in H.
    assert (G : forall s x y o, prun e s x y o -> has_rec s = false -> fst x = false -> fst y = false).
    { clear. induction 1; simpl; intros Hh Hx; auto;
        try (apply orb_false_iff in Hh; destruct Hh as [Ha Hb]); try solve [eauto].
      - unfold mut_eff. rewrite Ha, Hb. destruct (is_transfer_mut m); simpl; auto. destruct (String.eqb m "SendFailed"); simpl; auto.
      - unfold call_eff. destruct (is_send_call f); simpl; auto. }
    rewrite (G _ _ _ _ Hr H eq_refl) in Hy. discriminate Hy.
  - rewrite forallb_forall in H. exact (rec_ok_sound e body y o (H e (envs_pos_complete e Hp Hz)) Hr Hy).
Qed.

(** a HEAD-shaped callback is accepted, the recovery point taken before the guard is rejected *)
Example ex_good : stmt :=
  Seq (If (CAtom AAmtPos) (Seq (If (COr (CAtom AQ) (CAtom AV)) Return Skip) (Seq (Call "sendBalance") (If CUnknown Return Skip))) Skip)
      (Seq (Mut "RecPush:amount" KNever) (Seq RunLua Return)).
Example ex_bad : stmt :=
  Seq (Mut "RecPush:amount" KNever)
      (Seq (If (CAtom AAmtPos) (Seq (If (COr (CAtom AQ) (CAtom AV)) Return Skip) (Seq (Call "sendBalance") (If CUnknown (Seq (Mut "RecPop" KNever) Return) Skip))) Skip)
           (Seq RunLua Return)).
Example ex_check : recpoints_ok [("good", ex_good)] = true /\ recpoints_ok [("bad", ex_bad)] = false.
Proof. split; vm_compute; reflexivity. Qed.

(** refusal_leaves_no_recovery_point: in a read-only context (isQuery or nestedView > 0) and with a
    positive amount, no path through a function of an accepted program -- in particular none that
    ends with the refusal "... not permitted in query" -- leaves an amount-carrying recovery point
    linked.  With the mutator analysis (no transfer is performed in such a context) this is what
    makes revertState / clearRecoveryPoint the identity on balances there: nothing to undo was linked. *)
Theorem refusal_leaves_no_recovery_point : forall p, recpoints_ro_ok p = true ->
  forall f body e y o, In (f, body) p -> (eQ e || eV e) = true -> eP e = true -> eZ e = false ->
  prun e body (false, false) y o -> fst y = false.
Proof.
  intros p H f body e y o Hin Hro Hp Hz Hr. unfold recpoints_ro_ok in H. rewrite forallb_forall in H.
  specialize (H _ Hin). cbn [fst snd] in H. apply orb_true_iff in H. destruct H as [H|H].
  - apply negb_true_iff in H.
    assert (G : forall s x y o, prun e s x y o -> has_rec s = false -> fst x = false -> fst y = false).
    { clear. induction 1; simpl; intros Hh Hx; auto;
        try (apply orb_false_iff in Hh; destruct Hh as [Ha Hb]); try solve [eauto].
      - unfold mut_eff. rewrite Ha, Hb. destruct (is_transfer_mut m); simpl; auto. destruct (String.eqb m "SendFailed"); simpl; auto.
      - unfold call_eff. destruct (is_send_call f); simpl; auto. }
    exact (G _ _ _ _ Hr H eq_refl).
  - rewrite forallb_forall in H. apply (rec_ro_ok_sound e body y o); [|exact Hr]. apply H.
    unfold envs_ro_pos. apply filter_In. split; [apply envs_pos_complete; assumption | exact Hro].
Qed.
Example ex_check_ro : recpoints_ro_ok [("good", ex_good)] = true /\ recpoints_ro_ok [("bad", ex_bad)] = false.
Proof. split; vm_compute; reflexivity. Qed.

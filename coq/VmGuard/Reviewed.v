(** C20: the reviewed classification of the external callees with a state-changing verb in their
    name (Set / Put / Delete / Add / Sub / Send / Stage / Create / Remove / Update / Commit / Rollback /
    Reset / Write / Save / Store / Exec / Begin / Open / Insert / Push / Append / Clear / Revert / Restore /
    Mint / Burn ...) that occur in the functions of package contract reachable from the exported
    callbacks.  gen_vmguard emits the occurring names (Gen.Callbacks.verb_callees) and its own
    mutator / restore lists; Properties/C20.v proves by vm_compute that every occurring name is
    classified here, that every name classified "mutator" is one the translator turns into [Mut],
    and every "restore" one the translator skips as a restore operation.  A new verb-named callee is
    a failing obligation: review it and add it here (and to the translator if it mutates). *)
From Coq Require Import String List Bool.
Import ListNotations.
Open Scope string_scope.

Definition reviewed_callees : list (string * string * string) := [
  ("SetData", "mutator", "contract storage write");
  ("DeleteData", "mutator", "contract storage delete");
  ("SetCode", "mutator", "deployed code");
  ("SetRawKV", "mutator", "raw contract storage write");
  ("AddBalance", "mutator", "balance");
  ("SubBalance", "mutator", "balance");
  ("SendBalance", "mutator", "balance transfer (state.SendBalance / sendBalance)");
  ("PutState", "mutator", "account state write-back");
  ("SetNonce", "mutator", "account nonce");
  ("StageContractState", "mutator", "contract state staging");
  ("CreateAccountState", "mutator", "new account (deploy)");
  ("ExecuteSystemTx", "mutator", "governance from a contract");
  ("ExecuteNameTx", "mutator", "governance from a contract");
  ("ExecuteEnterpriseTx", "mutator", "governance from a contract");
  ("SetStorageRoot", "mutator", "account state");
  ("SetCodeHash", "mutator", "account state");
  ("SetRedeploy", "mutator", "account state");
  ("SetRP", "mutator", "SQL recovery point of the account");
  ("Reset", "mutator", "account state reset");
  ("beginTx", "mutator", "opens the writable SQL transaction (creates the DB / _dummy table on first use); forbidden in a query");
  ("ctx.events=append", "mutator", "event list");
  ("clearRecoveryPoint", "restore", "undoes effects recorded earlier in the same execution");
  ("revertState", "restore", "undoes effects recorded earlier in the same execution");
  ("rollbackToRecoveryPoint", "restore", "pragma branch_truncate: undoes SQL effects of the same execution");
  ("snapshotView", "restore", "pragma branch=master.<rp> on a _query_only connection: selects what is read, writes nothing");
  ("Exec", "pure", "database/sql Tx.Exec of SAVEPOINT / RELEASE / ROLLBACK TO / BEGIN in statesql.go: transaction control on an already opened writable SQL transaction, which exists only after beginTx (a mutator forbidden in a query); a query holds a readOnlySqlTx whose methods are no-ops");
  ("ExecContext", "pure", "only inside beginTx (mutator), rollbackToRecoveryPoint and snapshotView (restore / read-only, see there)");
  ("SetMultiCallCode", "pure", "sets the in-memory code field of a ContractState object for the multicall interpreter; nothing is staged");
  ("AddCode", "pure", "in-memory bytecode cache of the block state");
  ("AddABI", "pure", "in-memory ABI cache of the block state");
  ("RemoveCache", "pure", "drops an in-memory cache entry");
  ("OpenContractState", "pure", "reads (and caches in memory) a contract state");
  ("OpenContractStateAccount", "pure", "reads (and caches in memory) a contract state");
  ("Open", "pure", "sql.Open of the contract database: a query opens it with _query_only=true (the connection cannot write; SQLite may create an empty database file, which is not chain state)");
  ("Add", "pure", "big.Int arithmetic");
  ("Sub", "pure", "big.Int arithmetic");
  ("SetString", "pure", "big.Int parsing");
  ("InsertAfter", "pure", "container/list of debugger breakpoints (hook_dbg.go, debug build)");
  ("PushBack", "pure", "container/list of debugger watchpoints (hook_dbg.go, debug build)");
  ("PushFront", "pure", "container/list of debugger breakpoints (hook_dbg.go, debug build)");
  ("Remove", "pure", "container/list of debugger breakpoints (hook_dbg.go, debug build)");
  ("Write", "pure", "trace file / hash writer");
  ("WriteString", "pure", "trace file");
  ("append", "pure", "Go builtin (the append to ctx.events is a separate mutator entry)")
].

Definition class_of (n : string) : option string :=
  match find (fun x => String.eqb n (fst (fst x))) reviewed_callees with
  | Some x => Some (snd (fst x))
  | None => None
  end.

Definition mem_s (n : string) (l : list string) : bool := existsb (String.eqb n) l.

(** occurring verb-named callees that are not classified *)
Definition unclassified (occurring : list string) : list string :=
  filter (fun n => match class_of n with Some _ => false | None => true end) occurring.

(** the classification agrees with what the translator does *)
Definition classification_ok (occurring trans_mut trans_restore : list string) : bool :=
  match unclassified occurring with [] => true | _ => false end
  && forallb (fun x => if String.eqb (snd (fst x)) "mutator" then mem_s (fst (fst x)) trans_mut
                       else if String.eqb (snd (fst x)) "restore" then mem_s (fst (fst x)) trans_restore
                       else negb (mem_s (fst (fst x)) trans_mut)) reviewed_callees
  && forallb (fun n => match class_of n with Some c => String.eqb c "mutator" | None => false end) trans_mut.

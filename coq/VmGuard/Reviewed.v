(** C20: the reviewed classification of the external callees with a state-changing verb in their
    name (Set / Put / Delete / Add / Sub / Send / Stage / Create / Remove / Update / Commit / Rollback /
    Reset / Write / Save / Store / Exec / Begin / Open / Insert / Push / Append / Clear / Revert / Restore /
    Mint / Burn ...) that occur in the functions of package contract reachable from the exported
    callbacks.  gen_vmguard emits the occurring names (Gen.Callbacks.verb_callees) and its own
    mutator / restore lists; Properties/C20.v proves by vm_compute that every occurring name is
    classified here, that every name classified "mutator" is one the translator turns into [Mut],
    and every "restore" one the translator skips as a restore operation.  A new verb-named callee is
    a failing obligation: review it and add it here (and to the translator if it mutates). *)
From Coq Require Import String List Bool.
Import ListNotations.
Open Scope string_scope.

Definition reviewed_callees : list (string * string * string) := [
  ("SetData", "mutator", "contract storage write");
  ("DeleteData", "mutator", "contract storage delete");
  ("SetCode", "mutator", "deployed code");
  ("SetRawKV", "mutator", "raw contract storage write");
  ("AddBalance", "mutator", "balance");
  ("SubBalance", "mutator", "balance");
  ("SendBalance", "mutator", "balance transfer (state.SendBalance / sendBalance)");
  ("PutState", "mutator", "account state write-back");
  ("SetNonce", "mutator", "account nonce");
  ("StageContractState", "mutator", "contract state staging");
  ("CreateAccountState", "mutator", "new account (deploy)");
  ("ExecuteSystemTx", "mutator", "governance from a contract");
  ("ExecuteNameTx", "mutator", "governance from a contract");
  ("ExecuteEnterpriseTx", "mutator", "governance from a contract");
  ("SetStorageRoot", "mutator", "account state");
  ("SetCodeHash", "mutator", "account state");
  ("SetRedeploy", "mutator", "account state");
  ("SetRP", "mutator", "SQL recovery point of the account");
  ("Reset", "mutator", "account state reset");
  ("beginTx", "mutator", "opens the writable SQL transaction (creates the DB / _dummy table on first use); forbidden in a query");
  ("ctx.events=append", "mutator", "event list");
  ("clearRecoveryPoint", "restore", "undoes effects recorded earlier in the same execution");
  ("revertState", "restore", "undoes effects recorded earlier in the same execution");
  ("rollbackToRecoveryPoint", "restore", "pragma branch_truncate: undoes SQL effects of the same execution");
  ("snapshotView", "restore", "pragma branch=master.<rp> on a _query_only connection: selects what is read, writes nothing");
  ("Exec", "pure", "database/sql Tx.Exec of SAVEPOINT / RELEASE / ROLLBACK TO / BEGIN in statesql.go: transaction control on an already opened writable SQL transaction, which exists only after beginTx (a mutator forbidden in a query); a query holds a readOnlySqlTx whose methods are no-ops");
  ("ExecContext", "pure", "only inside beginTx (mutator), rollbackToRecoveryPoint and snapshotView (restore / read-only, see there)");
  ("SetMultiCallCode", "pure", "sets the in-memory code field of a ContractState object for the multicall interpreter; nothing is staged");
  ("AddCode", "pure", "in-memory bytecode cache of the block state");
  ("AddABI", "pure", "in-memory ABI cache of the block state");
  ("RemoveCache", "pure", "drops an in-memory cache entry");
  ("OpenContractState", "pure", "reads (and caches in memory) a contract state");
  ("OpenContractStateAccount", "pure", "reads (and caches in memory) a contract state");
  ("Open", "pure", "sql.Open of the contract database: a query opens it with _query_only=true (the connection cannot write; SQLite may create an empty database file, which is not chain state)");
  ("Add", "pure", "big.Int arithmetic");
  ("Sub", "pure", "big.Int arithmetic");
  ("SetString", "pure", "big.Int parsing");
  ("InsertAfter", "pure", "container/list of debugger breakpoints (hook_dbg.go, debug build)");
  ("PushBack", "pure", "container/list of debugger watchpoints (hook_dbg.go, debug build)");
  ("PushFront", "pure", "container/list of debugger breakpoints (hook_dbg.go, debug build)");
  ("Remove", "pure", "container/list of debugger breakpoints (hook_dbg.go, debug build)");
  ("OpenFile", "pure", "os.OpenFile of the per-contract trace file in executor.call (TraceBlockNo debugging); not chain state");
  ("Write", "pure", "trace file / hash writer");
  ("WriteString", "pure", "trace file");
  ("append", "pure", "Go builtin (the append to ctx.events is a separate mutator entry)")
].

Definition class_of (n : string) : option string :=
  match find (fun x => String.eqb n (fst (fst x))) reviewed_callees with
  | Some x => Some (snd (fst x))
  | None => None
  end.

Definition mem_s (n : string) (l : list string) : bool := existsb (String.eqb n) l.

(** occurring verb-named callees that are not classified *)
Definition unclassified (occurring : list string) : list string :=
  filter (fun n => match class_of n with Some _ => false | None => true end) occurring.

(** the classification agrees with what the translator does *)
Definition classification_ok (occurring trans_mut trans_restore : list string) : bool :=
  match unclassified occurring with [] => true | _ => false end
  && forallb (fun x => if String.eqb (snd (fst x)) "mutator" then mem_s (fst (fst x)) trans_mut
                       else if String.eqb (snd (fst x)) "restore" then mem_s (fst (fst x)) trans_restore
                       else negb (mem_s (fst (fst x)) trans_mut)) reviewed_callees
  && forallb (fun n => match class_of n with Some c => String.eqb c "mutator" | None => false end) trans_mut.

(** The reviewed uses of the context flags.  gen_vmguard lists every syntactic use of
    ctx.nestedView / ctx.isQuery / ctx.isFeeDelegation / executor.isView that is not a plain read:
    initialisers in composite literals, assignments, ++ / -- (with where it stands: directly in the
    function body, in a deferred closure, in another closure), address-of, every vmContext literal or
    copy, every call of the two context constructors with its query / feeDelegation arguments, and
    unstructured control flow in a function that touches the counter.  Properties/C20.v proves that
    the generated list equals this one (both inclusions).  What the list establishes:
    - isQuery is set when a context is built and never assigned afterwards (never cleared);
      NewVmContextQuery sets it to true, Query and CheckFeeDelegation use that constructor;
      NewVmContext takes it from its caller, the only caller (Execute: a transaction) passes false;
    - a vmContext is built in those two functions only and never copied: contracts called by
      contracts run in the caller's context, there is no child context to propagate the flags to;
    - nestedView is never initialised or assigned (it starts at 0) and is changed only by ++ / -- in
      executor.call (checked by VmGuard/Balance.v) and in the bracket callbacks luaViewStart /
      luaViewEnd (called in pairs by the VM around a view function: trusted);
    - isView of an executor is assigned in newExecutor only, i.e. before the executor runs. *)
Definition reviewed_flag_sites : list (string * string * string * string) := [
  ("CheckFeeDelegation", "NewVmContextQuery", "call", "fee delegation check runs in a query context");
  ("Execute", "NewVmContext", "call query=false feeDelegation=isFeeDelegation", "transaction execution: not a query; the view counter protects view functions");
  ("NewVmContext", "isFeeDelegation", "init feeDelegation", "from the caller");
  ("NewVmContext", "isQuery", "init query", "from the caller");
  ("NewVmContext", "vmContext", "literal", "context constructor");
  ("NewVmContextQuery", "isQuery", "init true", "a query context is read-only");
  ("NewVmContextQuery", "vmContext", "literal", "context constructor");
  ("Query", "NewVmContextQuery", "call", "queries run in a query context");
  ("executor.call", "nestedView", "++ direct", "checked by Balance");
  ("executor.call", "nestedView", "-- deferred closure", "checked by Balance");
  ("clearRecoveryPoint", "lastRecoveryPoint", "assign ctx.lastRecoveryPoint = item.prev", "the unlink of clearRecoveryPoint (translated to RecPop at its call sites, VmGuard/RecPoint.v)");
  ("createRecoveryPoint", "lastRecoveryPoint", "assign ctx.lastRecoveryPoint = rp", "the link of createRecoveryPoint (translated to RecPush at its call sites)");
  ("luaCheckView", "nestedView", "read: return C.int(ctx.nestedView)", "the C side tests luaCheckView(...) > 0 (atom V): the callback must return the counter itself");
  ("luaViewEnd", "nestedView", "-- direct", "bracket callback");
  ("luaViewStart", "nestedView", "++ direct", "bracket callback");
  ("newExecutor", "isView", "assign ce.isView = f.View", "from the ABI of the called function");
  ("newExecutor", "isView", "assign ce.isView = true", "fee delegation check function runs as a view")
].

Definition site_eqb (a b : string * string * string) : bool :=
  String.eqb (fst (fst a)) (fst (fst b)) && String.eqb (snd (fst a)) (snd (fst b)) && String.eqb (snd a) (snd b).

(** generated uses that are not reviewed / reviewed uses that no longer occur *)
Definition flag_sites_new (gen : list (string * string * string)) : list (string * string * string) :=
  filter (fun g => negb (existsb (fun r => site_eqb g (fst r)) reviewed_flag_sites)) gen.
Definition flag_sites_gone (gen : list (string * string * string)) : list (string * string * string) :=
  map fst (filter (fun r => negb (existsb (site_eqb (fst r)) gen)) reviewed_flag_sites).
Definition flag_sites_ok (gen : list (string * string * string)) : bool :=
  match flag_sites_new gen, flag_sites_gone gen with [], [] => true | _, _ => false end.

(** the cgo entry points that reach lua_pcall / lua_call: "contract" ones are translated to RunLua,
    "library" ones run Lua code of the VM itself and are skipped *)
Definition reviewed_lua_running_c : list (string * string * string) := [
  ("vm_loadcall", "contract", "runs the module chunk of a contract");
  ("vm_pcall", "contract", "runs the called contract function: the body of a view function runs here");
  ("vm_newstate", "library", "loads the libraries into a new Lua state, before any contract is loaded");
  ("vm_set_debug_hook", "library", "debug build only: installs the debugger hook")
].
Definition lua_running_ok (run skipped : list string) : bool :=
  forallb (fun g => existsb (fun r => String.eqb g (fst (fst r)) && String.eqb (snd (fst r)) "contract") reviewed_lua_running_c) run
  && forallb (fun g => existsb (fun r => String.eqb g (fst (fst r)) && String.eqb (snd (fst r)) "library") reviewed_lua_running_c) skipped
  && existsb (String.eqb "vm_pcall") run.

(** The reviewed uses of the context table.  A host callback resolves its context with
    [contexts[service]]; gen_vmguard_slots lists every store into / other load from [contexts],
    every write of a context's [service] field and of the allocator variables, every use of the
    service constants and every call of InitContext in the repository.  What the lists establish:
    transactions store their context in slot [ctx.service], which is the execution mode given to
    NewVmContext -- contract.BlockFactory (block production) or contract.ChainService (block
    connection), nothing else; a query's [service] is only ever set by allocContextSlot; the table
    has NumWorkers + 2 slots (with no worker no query runs). *)
Definition reviewed_slot_sites : list (string * string * string) := [
  ("Call", "store", "contexts[ctx.service] = ctx");
  ("Create", "store", "contexts[ctx.service] = ctx");
  ("InitContext", "var", "contexts = make([]*vmContext, maxContext)");
  ("InitContext", "var", "maxContext = numCtx");
  ("NewVmContext", "service", "init C.int(executionMode)");
  ("allocContextSlot", "load", "contexts[index]");
  ("allocContextSlot", "service", "ctx.service = C.int(index)");
  ("allocContextSlot", "store", "contexts[index] = ctx");
  ("allocContextSlot", "var", "lastQueryIndex = index");
  ("freeContextSlot", "store", "contexts[ctx.service] = nil");
  ("init", "var", "lastQueryIndex = ChainService")
].
Definition reviewed_slot_constant_uses : list (string * string * string) := [
  ("chain/chainhandle.go:newBlockExecutor", "const", "ChainService");
  ("chain/chainservice.go:NewChainService", "InitContext", "cfg.Blockchain.NumWorkers + 2");
  ("consensus/impl/dpos/blockfactory.go:newTxExec", "const", "BlockFactory");
  ("consensus/impl/raftv2/blockfactory.go:newTxExec", "const", "BlockFactory");
  ("consensus/impl/sbp/sbp.go:newTxExec", "const", "BlockFactory");
  ("contract/vm.go:allocContextSlot", "const", "ChainService");
  ("contract/vm.go:init", "const", "ChainService");
  ("contract/vm_callback.go:luaCheckTimeout", "const", "BlockFactory");
  ("contract/vm_direct/vm_direct.go:LoadDummyChainEx", "InitContext", "3");
  ("contract/vm_direct/vm_direct.go:newBlockExecutor", "const", "ChainService");
  ("contract/vm_dummy/vm_dummy.go:LoadDummyChain", "InitContext", "3");
  ("contract/vm_dummy/vm_dummy.go:luaTxCall.run", "const", "BlockFactory");
  ("contract/vm_dummy/vm_dummy.go:luaTxDeploy.run", "const", "BlockFactory")
].
Definition sites_diff (a b : list (string * string * string)) : list (string * string * string) :=
  filter (fun x => negb (existsb (site_eqb x) b)) a.
Definition nat_of (n : string) (l : list (string * nat)) : nat :=
  match find (fun x => String.eqb n (fst x)) l with Some x => snd x | None => 999 end.

(** the configuration the slot model is instantiated with is the source's *)
Definition slots_config_ok (consts : list (string * nat)) (init_last init_arg tx_store : string) (base loads : nat) : bool :=
  Nat.eqb (nat_of "BlockFactory" consts) 0 && Nat.eqb (nat_of "ChainService" consts) 1 && Nat.eqb (nat_of "MaxVmService" consts) 2
  && Nat.eqb (List.length consts) 3
  && String.eqb init_last "ChainService" && String.eqb init_arg "cfg.Blockchain.NumWorkers + 2"
  && Nat.eqb base (nat_of "ChainService" consts + 1) && String.eqb tx_store "contexts[ctx.service] = ctx" && Nat.leb 1 loads.
Definition slot_sites_ok (sites uses : list (string * string * string)) : bool :=
  match sites_diff sites reviewed_slot_sites, sites_diff reviewed_slot_sites sites,
        sites_diff uses reviewed_slot_constant_uses, sites_diff reviewed_slot_constant_uses uses with
  | [], [], [], [] => true
  | _, _, _, _ => false
  end.

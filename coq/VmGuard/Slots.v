(** C20 -- the context-slot discipline.  A host callback finds its execution context with
    [contexts[service]], where [service] is the slot number stored in the calling Lua state: the
    read-only guards are evaluated on whatever context sits in that slot.  Transactions are executed
    in the reserved slots (BlockFactory = 0, ChainService = 1: contract.Call / Create store their
    context with a plain [contexts[ctx.service] = ctx]); queries and fee-delegation checks get a
    slot from allocContextSlot.  This file is an executable model of the allocator
    (contract/vm.go: allocContextSlot, freeContextSlot, the stores of Call / Create) and the proof,
    for every configuration and every history of allocations, releases and transaction stores, that
    a query never gets a reserved slot, that live queries have distinct slots, and hence that the
    slot of a live query always holds that query's own context. *)
From Coq Require Import Arith List Bool Lia.
Import ListNotations.

Record cfg := mkCfg { maxc : nat;      (* maxContext = NumWorkers + 2 *)
                      rsv : nat }.     (* first slot that is not reserved = ChainService + 1 *)
Definition wf (c : cfg) : Prop := 1 <= rsv c /\ rsv c < maxc c.
Definition wfb (c : cfg) : bool := (1 <=? rsv c) && (rsv c <? maxc c).

Inductive owner := Tx | Q (id : nat).
Record st := mkSt { occ : nat -> option owner;     (* contexts[] *)
                    last : nat;                    (* lastQueryIndex *)
                    nq : nat;                      (* queries allocated so far (the next query's id) *)
                    live : list (nat * nat) }.     (* (query id, its ctx.service) of the queries not yet freed *)

Definition upd (f : nat -> option owner) (k : nat) (v : option owner) : nat -> option owner :=
  fun i => if i =? k then v else f i.

(** init(): lastQueryIndex = ChainService; InitContext: all slots nil *)
Definition init (c : cfg) : st := mkSt (fun _ => None) (rsv c - 1) 0 [].

(** index++; if index == maxContext { index = ChainService + 1 } *)
Definition next (c : cfg) (i : nat) : nat := if S i =? maxc c then rsv c else S i.

(** the scan of allocContextSlot; [None] = no free slot in a whole round (the real code then sleeps and retries) *)
Fixpoint scan (c : cfg) (o : nat -> option owner) (fuel i : nat) : option nat :=
  match fuel with
  | O => None
  | S f => let j := next c i in match o j with None => Some j | Some _ => scan c o f j end
  end.

Inductive op := OA                 (* allocContextSlot for a new query *)
              | OF (k : nat)       (* freeContextSlot of query k *)
              | OT (s : nat).      (* contract.Call / Create of a transaction executed in service slot s *)

Definition slot_of (l : list (nat * nat)) (k : nat) : option nat :=
  match find (fun e => fst e =? k) l with Some e => Some (snd e) | None => None end.

(** one operation; the observable result is the slot given to the query + 1 (0: nothing) *)
Definition step (c : cfg) (s : st) (o : op) : st * nat :=
  match o with
  | OA => match scan c (occ s) (maxc c) (last s) with
          | Some j => (mkSt (upd (occ s) j (Some (Q (nq s)))) j (S (nq s)) ((nq s, j) :: live s), S j)
          | None => (s, 0)
          end
  | OF k => match slot_of (live s) k with
            | Some j => (mkSt (upd (occ s) j None) (last s) (nq s) (filter (fun e => negb (fst e =? k)) (live s)), 0)
            | None => (s, 0)
            end
  | OT j => if j <? rsv c then (mkSt (upd (occ s) j (Some Tx)) (last s) (nq s) (live s), 0) else (s, 0)
  end.

Fixpoint run (c : cfg) (s : st) (h : list op) : st * list nat :=
  match h with
  | [] => (s, [])
  | o :: h' => let '(s1, r) := step c s o in let '(s2, rs) := run c s1 h' in (s2, r :: rs)
  end.

(** what the correspondence check compares: results, final occupancy (0 nil, 1 transaction, q+2 query q), lastQueryIndex *)
Definition code (o : option owner) : nat := match o with None => 0 | Some Tx => 1 | Some (Q q) => q + 2 end.
Definition observe (c : cfg) (h : list op) : list nat * list nat * nat :=
  let '(s, rs) := run c (init c) h in (rs, map (fun i => code (occ s i)) (seq 0 (maxc c)), last s).

(* ------------------------------------------------------------------------------ invariant *)
Definition Inv (c : cfg) (s : st) : Prop :=
  (rsv c <= S (last s) /\ last s < maxc c) /\
  forall q j, In (q, j) (live s) -> rsv c <= j /\ j < maxc c /\ occ s j = Some (Q q) /\ q < nq s.

Lemma next_range : forall c i, wf c -> rsv c <= S i -> i < maxc c -> rsv c <= next c i /\ next c i < maxc c.
Proof.
  intros c i [H1 H2] Hi Hm. unfold next. destruct (S i =? maxc c) eqn:E.
  - lia.
  - apply Nat.eqb_neq in E. lia.
Qed.

Lemma scan_some : forall c o fuel i j, wf c -> rsv c <= S i -> i < maxc c ->
  scan c o fuel i = Some j -> o j = None /\ rsv c <= j /\ j < maxc c.
Proof.
  intros c o fuel. induction fuel as [|f IH]; intros i j Hw Hi Hm Hs; [discriminate Hs|].
  simpl in Hs. destruct (next_range c i Hw Hi Hm) as [A B].
  destruct (o (next c i)) eqn:E.
  - apply (IH (next c i) j Hw); [lia | exact B | exact Hs].
  - injection Hs as <-. auto.
Qed.

Lemma init_inv : forall c, wf c -> Inv c (init c).
Proof. intros c [H1 H2]. split; simpl; [lia | intros q j []]. Qed.

Lemma slot_of_in : forall l k j, slot_of l k = Some j -> In (k, j) l.
Proof.
  intros l k j H. unfold slot_of in H. destruct (find (fun e => fst e =? k) l) as [[a b]|] eqn:E; [|discriminate H].
  injection H as <-. apply find_some in E. destruct E as [E1 E2]. simpl in E2. apply Nat.eqb_eq in E2. subst a. exact E1.
Qed.

Lemma step_inv : forall c s o, wf c -> Inv c s -> Inv c (fst (step c s o)).
Proof.
  intros c s o Hw [[L1 L2] HL]. unfold Inv. destruct o as [|k|j]; simpl.
  - destruct (scan c (occ s) (maxc c) (last s)) as [j|] eqn:E; simpl; [|split; auto].
    destruct (scan_some _ _ _ _ _ Hw L1 L2 E) as (F & A & B).
    split; [lia|]. intros q j' [Heq|Hin].
    + injection Heq as <- <-. unfold upd. rewrite Nat.eqb_refl. repeat split; auto.
    + destruct (HL _ _ Hin) as (A' & B' & C' & D'). repeat split; auto.
      unfold upd. destruct (j' =? j) eqn:Ej; [apply Nat.eqb_eq in Ej; subst j'; congruence | exact C'].
  - destruct (slot_of (live s) k) as [j|] eqn:E; simpl; [|split; auto].
    apply slot_of_in in E. destruct (HL _ _ E) as (A & B & C & D).
    split; [auto|]. intros q j' Hin. apply filter_In in Hin. destruct Hin as [Hin Hne]. simpl in Hne.
    apply negb_true_iff in Hne. apply Nat.eqb_neq in Hne.
    destruct (HL _ _ Hin) as (A' & B' & C' & D'). repeat split; auto.
    unfold upd. destruct (j' =? j) eqn:Ej; [|exact C'].
    apply Nat.eqb_eq in Ej. subst j'. rewrite C in C'. injection C' as C'. congruence.
  - destruct (j <? rsv c) eqn:E; simpl; [|split; auto]. apply Nat.ltb_lt in E.
    split; [auto|]. intros q j' Hin. destruct (HL _ _ Hin) as (A' & B' & C' & D'). repeat split; auto.
    unfold upd. destruct (j' =? j) eqn:Ej; [apply Nat.eqb_eq in Ej; lia | exact C'].
Qed.

Lemma run_inv : forall c h s, wf c -> Inv c s -> Inv c (fst (run c s h)).
Proof.
  intros c h. induction h as [|o h IH]; intros s Hw Hi; [exact Hi|].
  simpl. pose proof (step_inv c s o Hw Hi) as H1. destruct (step c s o) as [s1 r]. simpl in H1.
  specialize (IH s1 Hw H1). destruct (run c s1 h) as [s2 rs]. exact IH.
Qed.

(** the state after any history from a freshly started node *)
Definition reached (c : cfg) (h : list op) : st := fst (run c (init c) h).

Theorem alloc_never_returns_reserved_slot : forall c h q j, wf c ->
  In (q, j) (live (reached c h)) -> rsv c <= j /\ j < maxc c.
Proof.
  intros c h q j Hw Hin. destruct (run_inv c h (init c) Hw (init_inv c Hw)) as [_ HL].
  destruct (HL _ _ Hin) as (A & B & _). auto.
Qed.

(** also as a statement about the result of the allocation itself *)
Theorem alloc_result_not_reserved : forall c h, wf c ->
  forall r, snd (step c (reached c h) OA) = S r -> rsv c <= r /\ r < maxc c.
Proof.
  intros c h Hw r Hr. destruct (run_inv c h (init c) Hw (init_inv c Hw)) as [[L1 L2] _].
  simpl in Hr. destruct (scan c (occ (reached c h)) (maxc c) (last (reached c h))) as [j|] eqn:E; simpl in Hr; [|discriminate Hr].
  injection Hr as <-. destruct (scan_some _ _ _ _ _ Hw L1 L2 E) as (_ & A & B). auto.
Qed.

Theorem distinct_live_contexts_distinct_slots : forall c h q1 q2 j1 j2, wf c ->
  In (q1, j1) (live (reached c h)) -> In (q2, j2) (live (reached c h)) -> q1 <> q2 -> j1 <> j2.
Proof.
  intros c h q1 q2 j1 j2 Hw H1 H2 Hne Heq. subst j2.
  destruct (run_inv c h (init c) Hw (init_inv c Hw)) as [_ HL].
  destruct (HL _ _ H1) as (_ & _ & C1 & _). destruct (HL _ _ H2) as (_ & _ & C2 & _).
  rewrite C1 in C2. injection C2 as C2. contradiction.
Qed.

(** the binding the read-only guards rely on: whatever transactions were stored in the service
    slots meanwhile, the slot number held by the Lua state of a live query resolves to that
    query's own context *)
Theorem callbacks_see_own_context : forall c h q j, wf c ->
  In (q, j) (live (reached c h)) -> occ (reached c h) j = Some (Q q).
Proof.
  intros c h q j Hw Hin. destruct (run_inv c h (init c) Hw (init_inv c Hw)) as [_ HL].
  destruct (HL _ _ Hin) as (_ & _ & C & _). exact C.
Qed.

(** the model is not trivial: NumWorkers = 2, three queries in a row get slots 2, 3, 2 *)
Example ex_wrap : observe (mkCfg 4 2) [OA; OF 0; OA; OF 1; OT 1; OA] = ([3; 0; 4; 0; 0; 3], [0; 1; 4; 0], 2).
Proof. vm_compute. reflexivity. Qed.

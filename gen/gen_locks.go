// gen_locks: translator for C13's atomicity assumption.
//
// usage: go run gen_locks.go <repo>/mempool <out.v>
//
// Parses the non-test Go files of package mempool (go/parser, go/ast) and emits, for every
// statement that writes one of the pool's bookkeeping fields (mp.pool, mp.length, mp.orphan,
// mp.cache via Store/Delete, tl.list, tl.ready, tl.base), under which pool lock it runs:
//
//	Excl      mp.Lock (or tl.Lock for a txList field) is held at the statement, or the
//	          statement is in a function that is only ever called (transitively, inside the
//	          package) from call sites where mp.Lock is held;
//	RLockOnly the weakest context is a read lock (mp.RLock);
//	NoLock    some call path reaches the write with no pool lock held.
//
// A plain assignment to mp.cache (replacing the sync.Map value instead of calling its
// methods) is reported under the field name "mp.cache:=whole-map"; the map is read without
// the pool lock by design (put's first part, existEx), so such an assignment is never
// acceptable whatever lock is held.
//
// "Held at a statement" is decided textually: the Lock()/RLock() call must be a direct
// child statement of the function body that precedes the statement, with either a deferred
// unlock or no explicit unlock before it.  A deferred call runs while the lock is held iff it
// was registered after the deferred unlock.  Calls inside function literals count at the
// position of the literal.  The output coq/Gen/Locks.v is checked by a vm_compute
// obligation in coq/Properties/C13.v.
package main

import (
	"fmt"
	"go/ast"
	"go/parser"
	"go/token"
	"os"
	"sort"
	"strings"
)

type lockSt int

const (
	excl lockSt = iota
	rlockOnly
	noLock
)

func (l lockSt) String() string { return [...]string{"Excl", "RLockOnly", "NoLock"}[l] }

func weaker(a, b lockSt) lockSt {
	if a > b {
		return a
	}
	return b
}

type write struct {
	fn, field string
	pos       token.Pos
	here      lockSt // lock state established inside the function itself
	line      int
}

type call struct {
	callee string
	here   lockSt
}

type fnInfo struct {
	name   string
	recv   string
	writes []write
	calls  []call
	// check-then-act: reads of pool state (mp.cache.Load/Range, mp.pool[..], exist/existEx/getMemPoolList/
	// acquireMemPoolList calls) that textually precede the function's own first mp.Lock()/RLock()
	preReads []string
}

var mpFields = map[string]bool{"pool": true, "length": true, "orphan": true, "cache": true}
var tlFields = map[string]bool{"list": true, "ready": true, "base": true}

type lockEvent struct {
	pos      token.Pos
	kind     string // Lock, RLock, Unlock, RUnlock
	deferred bool
	recv     string
}

// selector "x.f" -> (x, f)
func sel(e ast.Expr) (string, string, bool) {
	s, ok := e.(*ast.SelectorExpr)
	if !ok {
		return "", "", false
	}
	id, ok := s.X.(*ast.Ident)
	if !ok {
		return "", "", false
	}
	return id.Name, s.Sel.Name, true
}

func lockCall(e ast.Expr) (recv, kind string, ok bool) {
	c, isCall := e.(*ast.CallExpr)
	if !isCall || len(c.Args) != 0 {
		return
	}
	x, f, isSel := sel(c.Fun)
	if !isSel {
		return
	}
	switch f {
	case "Lock", "RLock", "Unlock", "RUnlock":
		return x, f, true
	}
	return
}

func analyse(fset *token.FileSet, fd *ast.FuncDecl) *fnInfo {
	fi := &fnInfo{name: fd.Name.Name}
	recvName := ""
	if fd.Recv != nil && len(fd.Recv.List) == 1 {
		t := fd.Recv.List[0].Type
		if st, ok := t.(*ast.StarExpr); ok {
			t = st.X
		}
		if id, ok := t.(*ast.Ident); ok {
			fi.recv = id.Name
		}
		if len(fd.Recv.List[0].Names) == 1 {
			recvName = fd.Recv.List[0].Names[0].Name
		}
	}
	if fd.Body == nil {
		return fi
	}
	// lock events that are direct children of the function body
	var events []lockEvent
	for _, st := range fd.Body.List {
		switch s := st.(type) {
		case *ast.ExprStmt:
			if r, k, ok := lockCall(s.X); ok {
				events = append(events, lockEvent{s.Pos(), k, false, r})
			}
		case *ast.DeferStmt:
			if r, k, ok := lockCall(s.Call); ok {
				events = append(events, lockEvent{s.Pos(), k, true, r})
			}
		}
	}
	// lock state of receiver variable `who` at position p (deferredCall: the statement is a
	// deferred call registered at p)
	stateAt := func(who string, p token.Pos, deferredCall bool) lockSt {
		st := noLock
		unlockDeferredBefore := false
		for _, ev := range events {
			if ev.recv != who || ev.pos >= p {
				continue
			}
			switch {
			case ev.kind == "Lock":
				st = excl
			case ev.kind == "RLock":
				st = rlockOnly
			case (ev.kind == "Unlock" || ev.kind == "RUnlock") && !ev.deferred:
				st = noLock
			case (ev.kind == "Unlock" || ev.kind == "RUnlock") && ev.deferred:
				unlockDeferredBefore = true
			}
		}
		if deferredCall && !unlockDeferredBefore {
			// runs after the function's explicit unlocks / with no deferred unlock pending
			hasDeferredUnlock := false
			for _, ev := range events {
				if ev.recv == who && ev.deferred && (ev.kind == "Unlock" || ev.kind == "RUnlock") {
					hasDeferredUnlock = true
				}
			}
			if hasDeferredUnlock {
				return noLock // registered before the deferred unlock: runs after it
			}
		}
		return st
	}
	ctxAt := func(p token.Pos, deferredCall bool) lockSt {
		// the pool lock is the one that matters; a txList's own lock protects its fields too
		best := noLock
		if fi.recv == "MemPool" && recvName != "" {
			best = stateAt(recvName, p, deferredCall)
		}
		return best
	}
	record := func(x, f string, p token.Pos) {
		isMp := mpFields[f] && (fi.recv == "MemPool" && x == recvName || x == "mp")
		isTl := tlFields[f] && (fi.recv == "txList" && x == recvName)
		if !isMp && !isTl {
			return
		}
		here := noLock
		prefix := "mp."
		if isMp {
			here = ctxAt(p, false)
		} else {
			prefix = "tl."
			here = stateAt(recvName, p, false) // tl.Lock
			if here == rlockOnly {
				here = rlockOnly
			}
		}
		fi.writes = append(fi.writes, write{fn: fi.name, field: prefix + f, pos: p, here: here, line: fset.Position(p).Line})
	}
	lhs := func(e ast.Expr, p token.Pos) {
		// x.f = ..., x.f[i] = ..., x.f++ ...
		if ix, ok := e.(*ast.IndexExpr); ok {
			e = ix.X
		}
		if x, f, ok := sel(e); ok {
			n := len(fi.writes)
			record(x, f, p)
			if f == "cache" && len(fi.writes) > n {
				// the sync.Map value itself is replaced: only sound if nobody uses the map
				// without the pool lock (put's first part and existEx do)
				fi.writes[n].field = "mp.cache:=whole-map"
			}
		}
	}
	firstLock := token.NoPos
	for _, ev := range events {
		if ev.recv == recvName && (ev.kind == "Lock" || ev.kind == "RLock") && (firstLock == token.NoPos || ev.pos < firstLock) {
			firstLock = ev.pos
		}
	}
	preRead := func(what string, p token.Pos) {
		if fi.recv == "MemPool" && firstLock != token.NoPos && p < firstLock {
			fi.preReads = append(fi.preReads, fmt.Sprintf("%s@%d", what, fset.Position(p).Line))
		}
	}
	var deferDepth []token.Pos
	ast.Inspect(fd.Body, func(n ast.Node) bool {
		if ix, ok := n.(*ast.IndexExpr); ok {
			if x, f, ok2 := sel(ix.X); ok2 && f == "pool" && (x == recvName || x == "mp") {
				preRead("mp.pool[]", ix.Pos())
			}
		}
		if ce, ok := n.(*ast.CallExpr); ok {
			if se, ok2 := ce.Fun.(*ast.SelectorExpr); ok2 {
				if x, f, ok3 := sel(se.X); ok3 && f == "cache" && (x == recvName || x == "mp") && (se.Sel.Name == "Load" || se.Sel.Name == "Range") {
					preRead("mp.cache."+se.Sel.Name, ce.Pos())
				}
				if id, ok3 := se.X.(*ast.Ident); ok3 && (id.Name == recvName || id.Name == "mp") {
					switch se.Sel.Name {
					case "exist", "existEx", "getMemPoolList", "acquireMemPoolList":
						preRead("mp."+se.Sel.Name, ce.Pos())
					}
				}
			}
		}
		switch s := n.(type) {
		case *ast.AssignStmt:
			for _, l := range s.Lhs {
				lhs(l, s.Pos())
			}
		case *ast.IncDecStmt:
			lhs(s.X, s.Pos())
		case *ast.DeferStmt:
			deferDepth = append(deferDepth, s.Call.Pos())
		case *ast.CallExpr:
			deferred := false
			for _, d := range deferDepth {
				if d == s.Pos() {
					deferred = true
				}
			}
			// delete(mp.pool, k)
			if id, ok := s.Fun.(*ast.Ident); ok && id.Name == "delete" && len(s.Args) == 2 {
				lhs(s.Args[0], s.Pos())
			}
			// mp.cache.Store / Delete
			if se, ok := s.Fun.(*ast.SelectorExpr); ok {
				if x, f, ok2 := sel(se.X); ok2 && f == "cache" && (se.Sel.Name == "Store" || se.Sel.Name == "Delete") {
					record(x, f, s.Pos())
				}
				// package-internal call x.method(...)
				if _, isIdent := se.X.(*ast.Ident); isIdent {
					fi.calls = append(fi.calls, call{callee: se.Sel.Name, here: ctxAt(s.Pos(), deferred)})
				}
			}
			if id, ok := s.Fun.(*ast.Ident); ok {
				fi.calls = append(fi.calls, call{callee: id.Name, here: ctxAt(s.Pos(), deferred)})
			}
		}
		return true
	})
	return fi
}

func main() {
	if len(os.Args) != 3 {
		fmt.Fprintln(os.Stderr, "usage: gen_locks <pkgdir> <out.v>")
		os.Exit(2)
	}
	fset := token.NewFileSet()
	pkgs, err := parser.ParseDir(fset, os.Args[1], func(fi os.FileInfo) bool {
		return !strings.HasSuffix(fi.Name(), "_test.go")
	}, 0)
	if err != nil {
		fmt.Fprintln(os.Stderr, err)
		os.Exit(1)
	}
	fns := map[string]*fnInfo{}
	var names []string
	for _, p := range pkgs {
		var files []string
		for fn := range p.Files {
			files = append(files, fn)
		}
		sort.Strings(files)
		for _, fn := range files {
			for _, d := range p.Files[fn].Decls {
				if fd, ok := d.(*ast.FuncDecl); ok {
					fi := analyse(fset, fd)
					if _, dup := fns[fi.name]; dup {
						fi.name = fi.recv + "." + fi.name
					}
					fns[fi.name] = fi
					names = append(names, fi.name)
				}
			}
		}
	}
	sort.Strings(names)
	// callers: callee -> list of (caller, state at call site)
	type site struct {
		caller string
		here   lockSt
	}
	callers := map[string][]site{}
	for _, n := range names {
		for _, c := range fns[n].calls {
			if _, ok := fns[c.callee]; ok && c.callee != n {
				callers[c.callee] = append(callers[c.callee], site{n, c.here})
			}
		}
	}
	// weakest context in which function f runs (excl best): min over call sites of
	// max(site state, context of caller) -- a held lock at the site settles it.
	memo := map[string]lockSt{}
	var ctx func(f string, seen map[string]bool) (lockSt, string)
	via := map[string]string{}
	ctx = func(f string, seen map[string]bool) (lockSt, string) {
		if v, ok := memo[f]; ok {
			return v, via[f]
		}
		if seen[f] {
			return excl, ""
		}
		seen[f] = true
		cs := callers[f]
		if len(cs) == 0 {
			return noLock, f // an entry point: nothing held on entry
		}
		worst, wvia := excl, ""
		for _, s := range cs {
			st := s.here
			v := s.caller
			if st != excl {
				// not exclusively held at the site: the caller's own context may supply the lock
				up, upvia := ctx(s.caller, seen)
				if up < st {
					st = up
				}
				if upvia != "" {
					v = upvia + ">" + s.caller
				}
			}
			if st > worst || wvia == "" && st == worst {
				worst, wvia = st, v
			}
		}
		memo[f], via[f] = worst, wvia
		return worst, wvia
	}
	var rows []string
	var logl []string
	for _, n := range names {
		fi := fns[n]
		for _, w := range fi.writes {
			st := w.here
			how := "held in function"
			if st != excl {
				up, v := ctx(n, map[string]bool{})
				if up < st {
					st = up
				}
				how = "weakest caller context via " + v
			}
			rows = append(rows, fmt.Sprintf("  (%q, %q, %s)", n, w.field, st))
			logl = append(logl, fmt.Sprintf("%-24s %-10s line %-4d %-9s %s", n, w.field, w.line, st, how))
		}
	}
	var b strings.Builder
	b.WriteString("(* GENERATED by gen/gen_locks.go from " + os.Args[1] + " -- do not edit. *)\n")
	b.WriteString("From Coq Require Import List String.\nImport ListNotations.\nOpen Scope string_scope.\n\n")
	b.WriteString("Inductive lockst := Excl | RLockOnly | NoLock.\n\n")
	b.WriteString("(* (function, field written, weakest lock context of the write) *)\n")
	b.WriteString("Definition pool_writes : list (string * string * lockst) := [\n")
	b.WriteString(strings.Join(rows, ";\n"))
	b.WriteString("\n].\n\n")
	b.WriteString("(* (function that writes pool fields and takes the lock itself, read of pool state before that Lock) *)\n")
	b.WriteString("Definition reads_before_lock : list (string * string) := [\n")
	var pr []string
	for _, n := range names {
		fi := fns[n]
		if len(fi.writes) == 0 {
			continue
		}
		for _, r := range fi.preReads {
			pr = append(pr, fmt.Sprintf("  (%q, %q)", n, r))
			fmt.Printf("%-24s reads %s before its own lock\n", n, r)
		}
	}
	b.WriteString(strings.Join(pr, ";\n"))
	b.WriteString("\n].\n\n")
	b.WriteString("Definition functions : list string := [\n")
	for i, n := range names {
		sep := ";"
		if i == len(names)-1 {
			sep = ""
		}
		b.WriteString(fmt.Sprintf("  %q%s\n", n, sep))
	}
	b.WriteString("].\n")
	if err := os.WriteFile(os.Args[2], []byte(b.String()), 0o644); err != nil {
		fmt.Fprintln(os.Stderr, err)
		os.Exit(1)
	}
	for _, l := range logl {
		fmt.Println(l)
	}
}

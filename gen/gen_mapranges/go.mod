module github.com/aergoio/aergo/v2/verifgen

go 1.23

package main

// Call graph over the analysed packages and discovery of raw sites.

import (
	"bytes"
	"fmt"
	"go/ast"
	"go/printer"
	"go/token"
	"go/types"
	"os"
	"sort"
	"strings"
)

// fnNode is a function, method, closure or package-level variable initialiser.
type fnNode struct {
	key       string // unique: "<pkgpath>.<Recv>.<name>", closures "<parent>$N", vars "var:<pkgpath>.<name>"
	disp      string // display name for the inventory: Func, Recv.Method, (*Recv).Method, F$1
	pkg       *pkgInfo
	top       ast.Node // enclosing top-level declaration (for whole-function data-flow questions)
	body      ast.Node // what is walked for this node (nested FuncLits excluded)
	fnType    *ast.FuncType
	sig       string // parameter/result type string used to match calls through function values
	arity     [2]int
	edges     map[string]bool
	dyn       map[string]bool      // signatures called through function values
	iface     map[string]ifaceCall // interface method calls, keyed by requirement set + method name
	ext       map[string]bool      // non-analysed module packages referenced
	raw       []rawSite
	nclos     int
	reach     bool
	via       string // how it became reachable (predecessor key and edge kind), for -why
	cgoExport bool   // //export-ed cgo callback: treated as an execution root
}

type rawSite struct {
	kind string
	node ast.Node // *ast.RangeStmt, *ast.CallExpr, *ast.SelectStmt
}

type graph struct {
	w        *world
	nodes    map[string]*fnNode
	order    []*fnNode
	byMethod map[string][]*fnNode // method name -> methods in analysed packages
	addrOf   map[string][]*fnNode // signature -> address-taken functions / closures
	taken    map[string]bool
	nReach   int
	parents  map[ast.Node]map[ast.Node]ast.Node // per top-level decl: child -> parent
	msets    map[string]map[methReq]string      // named type -> pointer method set (method -> graph key)
}

// methReq is one method an interface demands (or a concrete type offers); compared as strings so that it
// works across the source-checked and export-data type universes.
type methReq struct{ name, sig, pkg string } // pkg only for unexported names

type ifaceCall struct {
	name  string
	arity [2]int
	req   []methReq
}

func reqOf(m *types.Func) methReq {
	r := methReq{name: m.Name(), sig: sigKey(m.Type().(*types.Signature))}
	if !m.Exported() && m.Pkg() != nil {
		r.pkg = m.Pkg().Path()
	}
	return r
}

// implementers returns the keys of the concrete methods an interface call may dispatch to: for every named
// type T of the analysed packages whose pointer method set satisfies the interface, T's method of that name.
// (Fallback when the interface type is unknown: every method of that name and arity.)
func (g *graph) implementers(ic ifaceCall) (out []string) {
	if len(ic.req) == 0 {
		for _, m := range g.byMethod[ic.name] {
			if m.arity == ic.arity {
				out = append(out, m.key)
			}
		}
		return out
	}
	if g.msets == nil {
		g.msets = map[string]map[methReq]string{}
		for _, p := range g.w.pkgs {
			for _, o := range p.info.Defs {
				tn, ok := o.(*types.TypeName)
				if !ok || tn.IsAlias() || types.IsInterface(tn.Type()) {
					continue
				}
				tab := map[methReq]string{}
				ms := types.NewMethodSet(types.NewPointer(tn.Type()))
				for i := 0; i < ms.Len(); i++ {
					if f, ok := ms.At(i).Obj().(*types.Func); ok {
						tab[reqOf(f)] = funcKey(f)
					}
				}
				g.msets[fmt.Sprintf("%s.%s#%d", p.path, tn.Name(), tn.Pos())] = tab
			}
		}
	}
	for _, tab := range g.msets {
		ok := true
		target := ""
		for _, r := range ic.req {
			k, has := tab[r]
			ok = ok && has
			if r.name == ic.name {
				target = k
			}
		}
		if ok && target != "" {
			out = append(out, target)
		}
	}
	return out
}

func fullQual(p *types.Package) string { return p.Path() }

// sigKey renders a signature without receiver and without parameter names.
func sigKey(s *types.Signature) string {
	var b strings.Builder
	b.WriteString("func(")
	for i := 0; i < s.Params().Len(); i++ {
		if i > 0 {
			b.WriteString(",")
		}
		if s.Variadic() && i == s.Params().Len()-1 {
			b.WriteString("...")
		}
		b.WriteString(types.TypeString(s.Params().At(i).Type(), fullQual))
	}
	b.WriteString(")(")
	for i := 0; i < s.Results().Len(); i++ {
		if i > 0 {
			b.WriteString(",")
		}
		b.WriteString(types.TypeString(s.Results().At(i).Type(), fullQual))
	}
	b.WriteString(")")
	return b.String()
}

// recvName returns the name of the receiver's named type ("" if none) and whether it is a pointer.
func recvName(s *types.Signature) (string, bool) {
	if s.Recv() == nil {
		return "", false
	}
	t, ptr := s.Recv().Type(), false
	if p, ok := t.(*types.Pointer); ok {
		t, ptr = p.Elem(), true
	}
	if n, ok := t.(*types.Named); ok {
		return n.Obj().Name(), ptr
	}
	return "?", ptr
}

// funcKey is the graph key of a declared function or method (same for source and export-data objects).
func funcKey(f *types.Func) string {
	f = f.Origin()
	if f.Pkg() == nil {
		return ""
	}
	r, _ := recvName(f.Type().(*types.Signature))
	return f.Pkg().Path() + "." + r + "." + f.Name()
}

func (g *graph) text(n ast.Node) string {
	var b bytes.Buffer
	printer.Fprint(&b, g.w.fset, n)
	return b.String()
}

func buildGraph(w *world) *graph {
	g := &graph{w: w, nodes: map[string]*fnNode{}, byMethod: map[string][]*fnNode{}, addrOf: map[string][]*fnNode{},
		taken: map[string]bool{}, parents: map[ast.Node]map[ast.Node]ast.Node{}}
	for _, p := range w.pkgs {
		for _, f := range p.files {
			for _, d := range f.Decls {
				switch d := d.(type) {
				case *ast.FuncDecl:
					obj, _ := p.info.Defs[d.Name].(*types.Func)
					if obj == nil || d.Body == nil {
						continue
					}
					sig := obj.Type().(*types.Signature)
					r, ptr := recvName(sig)
					n := &fnNode{key: funcKey(obj), pkg: p, top: d, body: d.Body, fnType: d.Type, sig: sigKey(sig),
						arity: [2]int{sig.Params().Len(), sig.Results().Len()}}
					switch {
					case r == "":
						n.disp = d.Name.Name
					case ptr:
						n.disp = "(*" + r + ")." + d.Name.Name
					default:
						n.disp = r + "." + d.Name.Name
					}
					if d.Name.Name == "init" && r == "" || d.Name.Name == "_" { // several per package allowed
						n.key += fmt.Sprintf("#%d", d.Pos())
					}
					g.add(n)
					if d.Doc != nil && strings.Contains("\n"+d.Doc.Text(), "\nexport ") == false {
						for _, c := range d.Doc.List { // `//export f`: called back from C (the Lua VM) during execution
							if strings.HasPrefix(c.Text, "//export ") {
								n.cgoExport = true
							}
						}
					}
					if r != "" {
						g.byMethod[d.Name.Name] = append(g.byMethod[d.Name.Name], n)
					}
				case *ast.GenDecl:
					if d.Tok != token.VAR {
						continue
					}
					for _, sp := range d.Specs {
						vs := sp.(*ast.ValueSpec)
						for i, name := range vs.Names {
							if len(vs.Values) == 0 || name.Name == "_" {
								continue
							}
							var init ast.Node = vs.Values[0] // multi-value call initialiser: shared
							if len(vs.Values) == len(vs.Names) {
								init = vs.Values[i]
							}
							g.add(&fnNode{key: "var:" + p.path + "." + name.Name, disp: name.Name, pkg: p, top: init, body: init})
						}
					}
				}
			}
		}
	}
	// walk bodies (closures are appended to g.order while walking, so index loop)
	for i := 0; i < len(g.order); i++ {
		g.walk(g.order[i])
	}
	return g
}

func (g *graph) add(n *fnNode) {
	n.edges, n.dyn, n.iface, n.ext = map[string]bool{}, map[string]bool{}, map[string]ifaceCall{}, map[string]bool{}
	if _, dup := g.nodes[n.key]; dup {
		n.key += fmt.Sprintf("#%d", n.body.Pos())
	}
	g.nodes[n.key] = n
	g.order = append(g.order, n)
}

func unparen(e ast.Expr) ast.Expr {
	for {
		p, ok := e.(*ast.ParenExpr)
		if !ok {
			return e
		}
		e = p.X
	}
}

// calleeOf resolves the statically known callee of a call (nil for builtins, conversions, function values).
func calleeOf(info *types.Info, c *ast.CallExpr) *types.Func {
	fun := unparen(c.Fun)
	if ix, ok := fun.(*ast.IndexExpr); ok { // generic instantiation f[T](..)
		fun = ix.X
	}
	var id *ast.Ident
	switch f := fun.(type) {
	case *ast.Ident:
		id = f
	case *ast.SelectorExpr:
		id = f.Sel
	}
	if id == nil {
		return nil
	}
	fn, _ := info.Uses[id].(*types.Func)
	return fn
}

// walk collects edges and raw sites of one node; nested function literals become nodes of their own.
func (g *graph) walk(n *fnNode) {
	info := n.pkg.info
	callHeads := map[*ast.Ident]bool{}
	invoked := map[*ast.FuncLit]bool{}
	ast.Inspect(n.body, func(x ast.Node) bool {
		switch x := x.(type) {
		case *ast.FuncLit:
			if ast.Node(x) == n.body { // the closure node itself
				return true
			}
			n.nclos++
			c := &fnNode{key: fmt.Sprintf("%s$%d", n.key, n.nclos), disp: fmt.Sprintf("%s$%d", n.disp, n.nclos),
				pkg: n.pkg, top: n.top, body: x, fnType: x.Type}
			if s, ok := info.TypeOf(x).(*types.Signature); ok {
				c.sig, c.arity = sigKey(s), [2]int{s.Params().Len(), s.Results().Len()}
			}
			g.add(c)
			n.edges[c.key] = true // defining a closure counts as possibly running it
			if !invoked[x] {      // `func(){..}()`, also under go/defer, cannot be called from elsewhere
				g.addrOf[c.sig] = append(g.addrOf[c.sig], c)
			}
			return false
		case *ast.RangeStmt:
			t := info.TypeOf(x.X)
			if t == nil || t == types.Typ[types.Invalid] {
				if !obviouslyNotMap(info, n.body, x.X) {
					n.raw = append(n.raw, rawSite{"KMapRange?", x}) // unresolved operand: keep, conservatively
				}
			} else if _, ok := t.Underlying().(*types.Map); ok {
				n.raw = append(n.raw, rawSite{"KMapRange", x})
			}
		case *ast.SelectStmt:
			comm := 0
			for _, cl := range x.Body.List {
				if cl.(*ast.CommClause).Comm != nil {
					comm++
				}
			}
			if comm >= 2 {
				n.raw = append(n.raw, rawSite{"KSelect", x})
			}
		case *ast.CallExpr:
			fun := unparen(x.Fun)
			if ix, ok := fun.(*ast.IndexExpr); ok {
				fun = ix.X
			}
			switch f := fun.(type) {
			case *ast.Ident:
				callHeads[f] = true
			case *ast.SelectorExpr:
				callHeads[f.Sel] = true
			case *ast.FuncLit:
				invoked[f] = true
			}
			if fn := calleeOf(info, x); fn != nil {
				if k := nondetCall(fn); k != "" {
					n.raw = append(n.raw, rawSite{k, x})
				}
			} else if tv, ok := info.Types[x.Fun]; ok && !tv.IsType() && !tv.IsBuiltin() {
				if s, ok := tv.Type.Underlying().(*types.Signature); ok {
					if _, lit := fun.(*ast.FuncLit); !lit {
						n.dyn[sigKey(s)] = true // call through a function value
					}
				}
			}
		case *ast.Ident:
			switch obj := info.Uses[x].(type) {
			case *types.Func:
				sig := obj.Type().(*types.Signature)
				if sig.Recv() != nil && types.IsInterface(sig.Recv().Type()) {
					ic := ifaceCall{name: obj.Name(), arity: [2]int{sig.Params().Len(), sig.Results().Len()}}
					if it, ok := sig.Recv().Type().Underlying().(*types.Interface); ok {
						for i := 0; i < it.NumMethods(); i++ {
							ic.req = append(ic.req, reqOf(it.Method(i)))
						}
					}
					n.iface[fmt.Sprint(ic)] = ic
					break
				}
				k := funcKey(obj)
				if obj.Pkg() != nil && strings.HasPrefix(obj.Pkg().Path(), g.w.mod+"/") && g.w.byPath[obj.Pkg().Path()] == nil {
					n.ext[strings.TrimPrefix(obj.Pkg().Path(), g.w.mod+"/")] = true
				}
				n.edges[k] = true
				if !callHeads[x] {
					g.taken[k] = true
				}
			case *types.Var:
				if obj.Pkg() != nil && obj.Parent() == obj.Pkg().Scope() {
					n.edges["var:"+obj.Pkg().Path()+"."+obj.Name()] = true
				}
			}
		}
		return true
	})
}

// obviouslyNotMap: for operands go/types could not type (C expressions in cgo files): a slice expression,
// a string, or a variable defined in this function from a slice expression can never be a map.
func obviouslyNotMap(info *types.Info, body ast.Node, e ast.Expr) bool {
	switch x := unparen(e).(type) {
	case *ast.SliceExpr:
		return true
	case *ast.BasicLit:
		return true
	case *ast.Ident:
		obj := info.Uses[x]
		found, sliced := false, true
		ast.Inspect(body, func(n ast.Node) bool {
			if a, ok := n.(*ast.AssignStmt); ok && len(a.Lhs) == len(a.Rhs) {
				for i, l := range a.Lhs {
					if id, ok := l.(*ast.Ident); ok && obj != nil && (info.Defs[id] == obj || info.Uses[id] == obj) {
						_, isSlice := unparen(a.Rhs[i]).(*ast.SliceExpr)
						found, sliced = true, sliced && isSlice
					}
				}
			}
			return true
		})
		return found && sliced
	}
	return false
}

// nondetCall classifies calls to the wall clock and to process-global / OS random sources.
func nondetCall(fn *types.Func) string {
	if fn.Pkg() == nil || fn.Type().(*types.Signature).Recv() != nil {
		return ""
	}
	switch fn.Pkg().Path() {
	case "time":
		if fn.Name() == "Now" || fn.Name() == "Since" || fn.Name() == "Until" {
			return "KTimeNow"
		}
	case "math/rand", "math/rand/v2", "crypto/rand":
		if !strings.HasPrefix(fn.Name(), "New") { // New / NewSource / NewPCG..: explicit seed, not a site
			return "KRand"
		}
	}
	return ""
}

// markReachable resolves the roots and floods the graph.  Returns the missing mandatory roots.
func (g *graph) markReachable() (missing []string) {
	for k := range g.taken { // address-taken declared functions, indexed by signature
		if n := g.nodes[k]; n != nil {
			g.addrOf[n.sig] = append(g.addrOf[n.sig], n)
		}
	}
	var work []*fnNode
	stop := map[string]bool{}
	for _, b := range barriers {
		stop[g.w.mod+"/"+b.pkg+"."+b.recv+"."+b.name] = true
	}
	push := func(n *fnNode, via string) {
		if n != nil && !n.reach && !stop[n.key] {
			n.reach, n.via = true, via
			g.nReach++
			work = append(work, n)
		}
	}
	for _, r := range roots {
		k := g.w.mod + "/" + r.pkg + "." + r.recv + "." + r.name
		if n := g.nodes[k]; n != nil {
			push(n, "ROOT")
		} else if r.must && g.w.byPath[g.w.mod+"/"+r.pkg] != nil {
			missing = append(missing, k)
		}
	}
	for _, n := range g.order {
		if n.cgoExport {
			push(n, "ROOT (//export cgo callback)")
		}
	}
	for len(work) > 0 {
		n := work[len(work)-1]
		work = work[:len(work)-1]
		for k := range n.edges {
			push(g.nodes[k], n.key)
		}
		for _, ic := range n.iface { // interface call: the method of every analysed type implementing the interface
			for _, k := range g.implementers(ic) {
				push(g.nodes[k], n.key+" [interface call ."+ic.name+"]")
			}
		}
		for s := range n.dyn { // call through a function value: every address-taken function of that type
			for _, m := range g.addrOf[s] {
				push(m, n.key+" [call through function value "+s+"]")
			}
		}
	}
	return missing
}

// why prints the chain of edges that made every node whose key contains pat reachable.
func (g *graph) why(pat string) {
	for _, n := range g.order {
		if !n.reach || !strings.Contains(n.key, pat) {
			continue
		}
		fmt.Fprintf(os.Stderr, "why %s:\n", n.key)
		for m := n; m != nil; {
			fmt.Fprintf(os.Stderr, "    <- %s\n", m.via)
			m = g.nodes[strings.SplitN(m.via, " [", 2)[0]]
		}
	}
}

// frontier lists module packages outside the analysed set that reachable functions reference.
func (g *graph) frontier() []string {
	set := map[string]bool{}
	for _, n := range g.order {
		if n.reach {
			for p := range n.ext {
				set[p] = true
			}
		}
	}
	var out []string
	for p := range set {
		out = append(out, p)
	}
	sort.Strings(out)
	return out
}

// parentsOf returns (cached) the child->parent map of a top-level declaration.
func (g *graph) parentsOf(top ast.Node) map[ast.Node]ast.Node {
	if m := g.parents[top]; m != nil {
		return m
	}
	m := map[ast.Node]ast.Node{}
	var stack []ast.Node
	ast.Inspect(top, func(x ast.Node) bool {
		if x == nil {
			stack = stack[:len(stack)-1]
			return true
		}
		if len(stack) > 0 {
			m[x] = stack[len(stack)-1]
		}
		stack = append(stack, x)
		return true
	})
	g.parents[top] = m
	return m
}

// classifyAll turns raw sites into inventory records.
func (g *graph) classifyAll() []Site {
	var out []Site
	for _, n := range g.order {
		for _, r := range n.raw {
			s := Site{Func: n.disp, Kind: r.kind, Shape: "Unknown", Reachable: n.reach}
			s.File, s.Line = g.w.relFile(r.node.Pos())
			switch x := r.node.(type) {
			case *ast.RangeStmt:
				s.Operand = g.text(x.X)
				if r.kind == "KMapRange?" {
					s.Kind, s.Reason = "KMapRange", "operand type could not be resolved (type errors); kept conservatively"
				} else {
					s.Shape, s.Reason = g.classifyRange(n, x)
				}
			case *ast.CallExpr:
				s.Operand = g.text(x)
				if r.kind == "KTimeNow" {
					s.Shape, s.Reason = g.classifyTime(n, x)
				} else {
					s.Reason = "process-global or OS random source"
				}
			case *ast.SelectStmt:
				var cl []string
				for _, c := range x.Body.List {
					if cc := c.(*ast.CommClause); cc.Comm != nil {
						cl = append(cl, strings.TrimSuffix(g.text(cc.Comm), ";"))
					} else {
						cl = append(cl, "default")
					}
				}
				s.Operand = "select { " + strings.Join(cl, " | ") + " }"
				s.Reason = "select with several ready-able communications: choice is scheduler dependent"
			}
			out = append(out, s)
		}
	}
	return out
}

package main

// Loading: cgo-free overlay, `go list -export`, parse + type-check the analysed packages from source.

import (
	"bytes"
	_ "embed"
	"encoding/json"
	"fmt"
	"go/ast"
	"go/importer"
	"go/parser"
	"go/token"
	"go/types"
	"io"
	"os"
	"os/exec"
	"path/filepath"
	"regexp"
)

//go:embed vmstub.go.txt
var embeddedStub []byte

// Files of package contract that the framework overlay masks (they depend on cgo-only types).
var maskedContract = []string{"vm_state", "internal_operations", "vm_multicall", "ethstorageproof", "statesql_params"}

type pkgInfo struct {
	rel   string // directory relative to the module root, e.g. "contract/system"
	path  string // import path
	dir   string
	files []*ast.File
	names []string // file paths relative to repo, parallel to files
	tpkg  *types.Package
	info  *types.Info
}

type world struct {
	repo, mod string
	fset      *token.FileSet
	pkgs      []*pkgInfo
	byPath    map[string]*pkgInfo
	typeErrs  []string
	cgoErrs   int // type errors in packages checked with FakeImportC (expected)
}

type listPkg struct {
	ImportPath, Dir, Export string
	GoFiles, CgoFiles       []string
	Imports                 []string
	ImportMap               map[string]string
	Error                   *struct{ Err string }
}

var importC = regexp.MustCompile(`(?m)^import "C"[ \t]*$`)

func goEnv(cgo string) []string {
	env := os.Environ()
	return append(env, "GOFLAGS=-mod=mod", "GOPROXY=off", "GOSUMDB=off", "GOTOOLCHAIN=local", "CGO_ENABLED="+cgo)
}

// goList runs `go list` in repo and decodes the JSON stream.
func goList(repo, cgo string, args ...string) map[string]*listPkg {
	cmd := exec.Command("go", append([]string{"list", "-e"}, args...)...)
	cmd.Dir, cmd.Env = repo, goEnv(cgo)
	var stderr bytes.Buffer
	cmd.Stderr = &stderr
	outb, err := cmd.Output()
	if err != nil {
		die(1, "go list failed: %v\n%s", err, stderr.String())
	}
	listed := map[string]*listPkg{}
	dec := json.NewDecoder(bytes.NewReader(outb))
	for dec.More() {
		p := new(listPkg)
		if err := dec.Decode(p); err != nil {
			die(1, "go list output: %v", err)
		}
		listed[p.ImportPath] = p
	}
	return listed
}

func load(repo string, rels []string, stubPath string) *world {
	w := &world{repo: repo, fset: token.NewFileSet(), byPath: map[string]*pkgInfo{}}
	gm, err := os.ReadFile(filepath.Join(repo, "go.mod"))
	if err != nil {
		die(1, "%v", err)
	}
	if m := regexp.MustCompile(`(?m)^module\s+(\S+)`).FindSubmatch(gm); m != nil {
		w.mod = string(m[1])
	} else {
		die(1, "no module line in %s/go.mod", repo)
	}

	// --- overlay (same recipe as lib/vf.py overlay()).  Only used to obtain export data of package
	// contract for its importers (chain, consensus/...); the analysis itself reads the real files.
	tmp, err := os.MkdirTemp("", "gen_mapranges-ov-")
	if err != nil {
		die(1, "%v", err)
	}
	defer os.RemoveAll(tmp)
	replace := map[string]string{}
	cdir := filepath.Join(repo, "contract")
	if src, err := os.ReadFile(filepath.Join(cdir, "contract.go")); err == nil && importC.Match(src) {
		nocgo := filepath.Join(tmp, "contract_nocgo.go")
		os.WriteFile(nocgo, importC.ReplaceAll(src, nil), 0o644)
		replace[filepath.Join(cdir, "contract.go")] = nocgo
		for _, f := range maskedContract {
			p := filepath.Join(cdir, f+".go")
			if _, err := os.Stat(p); err == nil {
				replace[p] = ""
			}
		}
		stub := embeddedStub
		if stubPath != "" {
			if b, err := os.ReadFile(stubPath); err == nil {
				stub = b
			}
		}
		sp := filepath.Join(tmp, "zz_vmstub_verif.go")
		os.WriteFile(sp, stub, 0o644)
		replace[filepath.Join(cdir, "zz_vmstub_verif.go")] = sp
	}
	ov := filepath.Join(tmp, "ov.json")
	js, _ := json.Marshal(map[string]any{"Replace": replace})
	os.WriteFile(ov, js, 0o644)

	// --- the REAL file set of each analysed package (CGO_ENABLED=1 view: includes the cgo files of
	// package contract; they are type-checked with go/types' FakeImportC, see below).  No compilation.
	dirs := []string{}
	for _, r := range rels {
		dirs = append(dirs, "./"+r)
	}
	realSet := goList(repo, "1", append([]string{"-json=ImportPath,Dir,GoFiles,CgoFiles,Imports"}, dirs...)...)

	// --- go list -export -deps (cgo-free overlay build): compiler export data for every dependency,
	// including the imports that only the cgo files need.
	extra := map[string]bool{}
	for _, p := range realSet {
		for _, i := range p.Imports {
			if i != "C" && i != "unsafe" {
				extra[i] = true
			}
		}
	}
	args := append([]string{"-export", "-deps", "-json=ImportPath,Dir,Export,ImportMap,Error", "-overlay", ov}, dirs...)
	for i := range extra {
		args = append(args, i)
	}
	listed := goList(repo, "0", args...)
	exports := map[string]string{}
	for ip, p := range listed {
		if p.Export != "" {
			exports[ip] = p.Export
		}
	}
	gc := importer.ForCompiler(w.fset, "gc", func(path string) (io.ReadCloser, error) {
		f, ok := exports[path]
		if !ok {
			return nil, fmt.Errorf("no export data for %q (package does not compile without cgo?)", path)
		}
		return os.Open(f)
	})

	// --- parse and type-check each analysed package from source.
	for _, rel := range rels {
		ip := w.mod + "/" + rel
		lp, rp := listed[ip], realSet[ip]
		if lp == nil || rp == nil {
			die(1, "package %s not listed by go list", ip)
		}
		p := &pkgInfo{rel: rel, path: ip, dir: rp.Dir}
		for _, name := range append(append([]string{}, rp.GoFiles...), rp.CgoFiles...) {
			real := filepath.Join(rp.Dir, name)
			f, err := parser.ParseFile(w.fset, real, nil, parser.ParseComments|parser.SkipObjectResolution)
			if err != nil {
				die(1, "parse %s: %v", real, err)
			}
			p.files = append(p.files, f)
			relName, _ := filepath.Rel(repo, real)
			p.names = append(p.names, relName)
		}
		p.info = &types.Info{
			Types: map[ast.Expr]types.TypeAndValue{}, Defs: map[*ast.Ident]types.Object{},
			Uses: map[*ast.Ident]types.Object{}, Selections: map[*ast.SelectorExpr]*types.Selection{},
		}
		imap := lp.ImportMap
		cfg := types.Config{
			Importer: importerFunc(func(path string) (*types.Package, error) {
				if m, ok := imap[path]; ok {
					path = m
				}
				if path == "unsafe" {
					return types.Unsafe, nil
				}
				return gc.Import(path)
			}),
			// cgo files: `C.x` has no type but does not poison the rest of the file; everything that is
			// not a C expression (e.g. `range ctx.callState`) is typed precisely.
			FakeImportC: len(rp.CgoFiles) > 0,
			Error: func(err error) {
				if len(rp.CgoFiles) == 0 { // errors in FakeImportC packages are expected follow-ups of C.x
					w.typeErrs = append(w.typeErrs, err.Error())
				} else {
					w.cgoErrs++
				}
			},
			Sizes: types.SizesFor("gc", "amd64"),
		}
		p.tpkg, _ = cfg.Check(ip, w.fset, p.files, p.info) // errors tolerated, see cfg.Error
		w.pkgs = append(w.pkgs, p)
		w.byPath[ip] = p
	}
	return w
}

type importerFunc func(string) (*types.Package, error)

func (f importerFunc) Import(p string) (*types.Package, error) { return f(p) }

// relFile returns the repo-relative name of the file containing pos.
func (w *world) relFile(pos token.Pos) (string, int) {
	p := w.fset.Position(pos)
	r, err := filepath.Rel(w.repo, p.Filename)
	if err != nil {
		r = p.Filename
	}
	return r, p.Line
}

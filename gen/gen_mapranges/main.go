// gen_mapranges: inventory of nondeterminism sources (map ranges, time.Now, global
// math/rand, multi-way select) in the functions reachable from Aergo's block-execution
// entry points.  Property C02 "deterministic execution".
//
//	gen_mapranges [-stub vmstub.go.txt] [-pkgs a,b,c] [-why text] <repo> <out.v>     (also writes <out.v>.json)
//
// Approach (stdlib only, no x/tools):
//  1. reproduce the framework's cgo-free build overlay for package contract (load.go) and run
//     `go list -export -deps -overlay`: compiler export data for every dependency;
//  2. the analysed packages are parsed and type-checked FROM SOURCE with go/types (imports come from the
//     export data), using their REAL file set: for package contract that includes the cgo files
//     (vm.go, vm_callback.go, statesql.go ...), checked with types.Config.FakeImportC so that only
//     `C.x` sub-expressions stay untyped; every range operand has a precise type;
//  3. a static call graph over the analysed packages (graph.go): exact resolution of static calls;
//     interface calls -> the method of every analysed named type whose method set satisfies the
//     interface; calls through function values -> every address-taken function / closure with an
//     identical signature; closures hang off their enclosing function; package-level variable
//     initialisers are pseudo-functions; `//export`ed cgo callbacks are extra roots (called from the VM);
//  4. sites are classified by a conservative syntactic shape analysis (shape.go).
//
// -why <text> prints the edge chain that makes matching functions reachable.
package main

import (
	"encoding/json"
	"flag"
	"fmt"
	"os"
	"sort"
	"strings"
)

// Default set of consensus-critical packages (relative to the module root).
var defaultPkgs = "chain,state,state/statedb,contract,contract/system,contract/name,contract/enterprise,types,consensus/chain,consensus/impl/dpos"

// Block-execution roots.  {package, receiver type ("" for functions), name, mandatory}.
// A missing mandatory root is a hard error: a refactoring must not silently empty the inventory.
var roots = []struct {
	pkg, recv, name string
	must            bool
}{
	{"chain", "", "executeTx", true},
	{"chain", "blockExecutor", "execute", true},
	{"chain", "blockExecutor", "commit", false},
	{"chain", "ChainService", "executeBlock", true},
	{"chain", "ChainService", "executeBlockReco", true},
	{"chain", "", "NewTxExecutor", true},
	{"chain", "", "executeGovernanceTx", true},
	{"chain", "", "sendRewardCoinbase", true},
	{"chain", "", "SendBlockReward", false},
	{"consensus/chain", "BlockGenerator", "GatherTXs", true},
	{"consensus/chain", "BlockGenerator", "GenerateBlock", true},
	{"consensus/chain", "", "GatherTXs", false},
	{"consensus/chain", "", "GenerateBlock", false},
	{"contract", "", "Execute", true},
	{"state", "BlockState", "Update", false}, // promoted from *statedb.StateDB today
	{"state", "BlockState", "Commit", false},
	{"state/statedb", "StateDB", "Update", true},
	{"state/statedb", "StateDB", "Commit", true},
	{"state/statedb", "StateDB", "update", true},
	{"state/statedb", "stateBuffer", "export", true},
	{"types", "Receipts", "MerkleRoot", true},
	{"types", "", "CalculateTxsRootHash", false},
	{"consensus/impl/dpos", "", "sendVotingReward", true}, // the BlockRewardFn installed by DPoS
}

// Barriers: reached from the roots but by decision NOT part of block execution (consensus bookkeeping that
// runs after the state transition and never feeds state root / receipts).  Traversal stops there; their
// sites stay in map_ranges_unreachable.  Listed in the header of the generated file.
var barriers = []struct{ pkg, recv, name string }{
	{"consensus/impl/dpos", "Status", "Update"}, // LIB / BP-schedule status, called as cs.Update(block) after execution
}

// Site is one record of the inventory.
type Site struct {
	File      string `json:"file"`
	Line      int    `json:"line"`
	Func      string `json:"func"`
	Kind      string `json:"kind"`
	Shape     string `json:"shape"`
	Operand   string `json:"operand"`
	Reachable bool   `json:"reachable"`
	Reason    string `json:"reason"`
}

func die(code int, f string, a ...any) {
	fmt.Fprintf(os.Stderr, "gen_mapranges: "+f+"\n", a...)
	os.Exit(code)
}

func main() {
	stub := flag.String("stub", "", "VM stub source used for the cgo-free overlay (default: embedded copy)")
	pkgs := flag.String("pkgs", defaultPkgs, "comma separated package directories to analyse")
	why := flag.String("why", "", "debug: print to stderr why functions whose key contains this text are reachable")
	flag.Parse()
	repo, out := "/repo", ""
	if flag.NArg() > 0 {
		repo = flag.Arg(0)
	}
	if flag.NArg() > 1 {
		out = flag.Arg(1)
	} else {
		die(2, "usage: gen_mapranges [-stub f] [-pkgs list] <repo> <out.v>")
	}
	repo = strings.TrimRight(repo, "/")

	w := load(repo, strings.Split(*pkgs, ","), *stub) // parse + type-check
	g := buildGraph(w)                                // nodes, edges, raw sites
	missing := g.markReachable()
	if len(missing) > 0 {
		die(3, "mandatory execution roots not found (renamed?): %s", strings.Join(missing, ", "))
	}
	if *why != "" {
		g.why(*why)
	}
	sites := g.classifyAll()
	sort.SliceStable(sites, func(i, j int) bool {
		a, b := sites[i], sites[j]
		if a.File != b.File {
			return a.File < b.File
		}
		if a.Line != b.Line {
			return a.Line < b.Line
		}
		return a.Kind+a.Operand < b.Kind+b.Operand
	})

	if err := os.WriteFile(out, []byte(renderCoq(repo, sites, g)), 0o644); err != nil {
		die(1, "%v", err)
	}
	js, _ := json.MarshalIndent(sites, "", " ")
	if err := os.WriteFile(out+".json", append(js, '\n'), 0o644); err != nil {
		die(1, "%v", err)
	}
	nr, nu := 0, 0
	for _, s := range sites {
		if s.Reachable {
			nr++
			if s.Shape == "Unknown" {
				nu++
			}
		}
	}
	fmt.Fprintf(os.Stderr, "gen_mapranges: %d functions (%d reachable), %d sites (%d reachable, %d of them Unknown), %d type errors (+%d expected in cgo packages) tolerated\n",
		len(g.nodes), g.nReach, len(sites), nr, nu, len(w.typeErrs), w.cgoErrs)
	for i, e := range w.typeErrs {
		if i < 10 {
			fmt.Fprintf(os.Stderr, "  type error: %s\n", e)
		}
	}
}

// coqStr renders s as a Coq string literal body: `"` doubled, one line, ASCII only.
func coqStr(s string) string {
	s = strings.Join(strings.Fields(s), " ")
	var b strings.Builder
	for _, r := range s {
		switch {
		case r == '"':
			b.WriteString(`""`)
		case r < 32 || r > 126:
			b.WriteByte('?')
		default:
			b.WriteRune(r)
		}
	}
	if b.Len() > 200 {
		return strings.TrimRight(b.String()[:197], `"`) + "..."
	}
	return b.String()
}

func renderList(b *strings.Builder, name string, sites []Site) {
	if len(sites) == 0 {
		fmt.Fprintf(b, "Definition %s : list site := [].\n", name)
		return
	}
	fmt.Fprintf(b, "Definition %s : list site := [\n", name)
	for i, s := range sites {
		sep := ";"
		if i == len(sites)-1 {
			sep = ""
		}
		fmt.Fprintf(b, "  mk_site \"%s\" %d \"%s\" %s %s \"%s\"%s\n", coqStr(s.File), s.Line, coqStr(s.Func), s.Kind, s.Shape, coqStr(s.Operand), sep)
	}
	b.WriteString("].\n")
}

func renderCoq(repo string, sites []Site, g *graph) string {
	var b strings.Builder
	fmt.Fprintf(&b, "(* generated by gen/gen_mapranges from %s — do not edit *)\n", repo)
	b.WriteString("From Coq Require Import String List NArith.\nFrom Verif Require Import Determ.Shapes.\nImport ListNotations.\nOpen Scope string_scope.\nOpen Scope N_scope.\n")
	var reach, unreach []Site
	for _, s := range sites {
		if s.Reachable {
			reach = append(reach, s)
		} else {
			unreach = append(unreach, s)
		}
	}
	renderList(&b, "map_ranges", reach)
	renderList(&b, "map_ranges_unreachable", unreach)
	// Informational trailer (comments only).
	b.WriteString("(* Traversal barriers (reached from the roots, excluded by decision):\n")
	for _, x := range barriers {
		fmt.Fprintf(&b, "     %s %s.%s\n", x.pkg, x.recv, x.name)
	}
	b.WriteString("*)\n")
	b.WriteString("(* Packages of the module that reachable code calls into but that were NOT analysed:\n")
	for _, p := range g.frontier() {
		fmt.Fprintf(&b, "     %s\n", p)
	}
	b.WriteString("*)\n")
	return b.String()
}

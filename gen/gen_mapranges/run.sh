#!/bin/sh
# usage: run.sh <repo> <out.v>     builds gen_mapranges (cached by the go build cache) and runs it.
set -e
here=$(cd "$(dirname "$0")" && pwd)
repo=${1:-${VERIF_REPO:-/repo}}
out=${2:?usage: run.sh <repo> <out.v>}
export GOFLAGS=-mod=mod GOPROXY=off GOSUMDB=off GOTOOLCHAIN=local CGO_ENABLED=0
cache=${VERIF_GEN_CACHE:-${TMPDIR:-/tmp}/verif-gen-cache}
mkdir -p "$cache" "$(dirname "$out")"
bin="$cache/gen_mapranges"
(cd "$here" && go build -o "$bin" .)
stub="$here/../../harness/overlay/zz_vmstub.go.txt"
if [ -f "$stub" ]; then
  exec "$bin" -stub "$stub" "$repo" "$out"
fi
exec "$bin" "$repo" "$out"

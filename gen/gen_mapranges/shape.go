package main

// Conservative syntactic shape analysis of map-range bodies, and the "only logged" test for time.Now.
//
// The body of `for k, v := range m` is decomposed into leaf effects:
//   local    writes to variables declared inside the body (or through fresh values built there)
//   collect  `s = append(s, ..)` for a slice expression s declared outside the loop
//   perkey   writes addressed by the loop key / through the loop value (m2[k] = .., v.f = .., st.SetData(key(k), ..))
//   delete   delete(m, ..)
//   log      logger / fmt.Print* calls
//   aggr     commutative accumulation: n++, n += e (integers), acc.Add(acc, e) (math/big), flag = <const>,
//            `return <constants>` (any/all search)
//   unknown  anything else (calls with unknown effects, early exits with non-constant results, ...)
// Conditions and right-hand sides must be "pure": only builtins, conversions, a small standard-library
// whitelist, and module functions whose NAME looks like an accessor/constructor (listed in the reason
// string as `assumed-pure:` so that a reviewer can vet them).

import (
	"fmt"
	"go/ast"
	"go/token"
	"go/types"
	"regexp"
	"sort"
	"strings"
)

var (
	logPkgs     = map[string]bool{"github.com/aergoio/aergo-lib/log": true, "github.com/rs/zerolog": true, "log": true, "github.com/rs/zerolog/log": true}
	pureStdPkgs = map[string]bool{"bytes": true, "strings": true, "strconv": true, "math": true, "math/bits": true, "encoding/hex": true,
		"encoding/base64": true, "errors": true, "unicode": true, "unicode/utf8": true}
	// module functions / methods assumed side-effect free by name
	pureName = regexp.MustCompile(`^(Get|get|Is|is|Has|has|To|to|New|new|Encode|Decode|Hash|hash|Key|key|String|Bytes|Len|Cmp|cmp|Equal|Compare|peek|Marshal|ID$|Id$|Name$|Size$)`)
	// math/big methods that do not modify their receiver
	bigPure = map[string]bool{"Cmp": true, "CmpAbs": true, "Sign": true, "Bytes": true, "String": true, "Text": true, "Uint64": true,
		"Int64": true, "IsInt64": true, "IsUint64": true, "BitLen": true, "Bit": true, "ProbablyPrime": true}
	// methods taken to be per-key storage updates when one argument is built from the loop key
	perKeyUpdate = map[string]bool{"SetData": true, "DeleteData": true, "SetRawKV": true, "PutState": true, "putState": true,
		"Set": true, "Put": true, "Delete": true, "Store": true}
	sortFuncs = map[string]bool{"sort.Slice": true, "sort.SliceStable": true, "sort.Sort": true, "sort.Stable": true, "sort.Strings": true,
		"sort.Ints": true, "slices.Sort": true, "slices.SortFunc": true, "slices.SortStableFunc": true}
)

type shaper struct {
	g          *graph
	n          *fnNode
	info       *types.Info
	rs         *ast.RangeStmt
	key, val   types.Object
	localKind  map[types.Object]string // body-local variables: "fresh", "perkey", "keyed" (pure function of the key), "other"
	eff        map[string][]string     // effect -> explanations
	collected  map[string]ast.Expr     // text of appended-to slice expressions
	accum      map[string]bool         // text of accumulator expressions
	ownStmts   []ast.Node              // statements that legitimately mention accumulators / collected slices
	assumed    map[string]bool         // module calls assumed pure by name
	breakDepth int
	impure     string // text of the last call found impure (for messages)
}

func (s *shaper) add(effect, why string) { s.eff[effect] = append(s.eff[effect], why) }
func (s *shaper) line(n ast.Node) int    { return s.g.w.fset.Position(n.Pos()).Line }
func (s *shaper) unknown(n ast.Node, why string) {
	s.add("unknown", fmt.Sprintf("L%d %s", s.line(n), why))
}

func (s *shaper) inBody(o types.Object) bool {
	return o != nil && o.Pos() >= s.rs.Body.Pos() && o.Pos() < s.rs.Body.End()
}

func (s *shaper) obj(e ast.Expr) types.Object {
	if id, ok := unparen(e).(*ast.Ident); ok {
		if o := s.info.Uses[id]; o != nil {
			return o
		}
		return s.info.Defs[id]
	}
	return nil
}

// root returns the leftmost identifier's object of x.f[i].g ... and whether an index by the loop key occurs on the way.
func (s *shaper) root(e ast.Expr) (types.Object, bool) {
	keyed := false
	for {
		switch x := unparen(e).(type) {
		case *ast.SelectorExpr:
			e = x.X
		case *ast.IndexExpr:
			if s.isKeyExpr(x.Index) {
				keyed = true
			}
			e = x.X
		case *ast.StarExpr:
			e = x.X
		case *ast.Ident:
			return s.obj(x), keyed
		default:
			return nil, keyed
		}
	}
}

func (s *shaper) mentions(e ast.Node, o types.Object) bool {
	if o == nil || e == nil {
		return false
	}
	found := false
	ast.Inspect(e, func(x ast.Node) bool {
		if id, ok := x.(*ast.Ident); ok && s.info.Uses[id] == o {
			found = true
		}
		return !found
	})
	return found
}

// isKeyExpr: the loop key itself, a body-local defined as a pure function of the key, or conv(key) / f(key).
func (s *shaper) isKeyExpr(e ast.Expr) bool {
	e = unparen(e)
	if o := s.obj(e); o != nil {
		return s.key != nil && o == s.key || s.localKind[o] == "keyed"
	}
	if c, ok := e.(*ast.CallExpr); ok && len(c.Args) == 1 && s.pure(c) {
		return s.isKeyExpr(c.Args[0])
	}
	if sl, ok := e.(*ast.SliceExpr); ok && sl.Low == nil && sl.High == nil { // k[:]
		return s.isKeyExpr(sl.X)
	}
	return false
}

// fresh: expression denotes a value newly built here (no aliasing with state outside the loop body).
func (s *shaper) fresh(e ast.Expr) bool {
	switch x := unparen(e).(type) {
	case *ast.CompositeLit, *ast.BasicLit, *ast.FuncLit:
		return true
	case *ast.UnaryExpr:
		_, ok := x.X.(*ast.CompositeLit)
		return x.Op == token.AND && ok
	case *ast.CallExpr:
		if id, ok := unparen(x.Fun).(*ast.Ident); ok {
			if _, b := s.info.Uses[id].(*types.Builtin); b && (id.Name == "new" || id.Name == "make") {
				return true
			}
		}
		if fn := calleeOf(s.info, x); fn != nil {
			if strings.HasPrefix(fn.Name(), "New") || strings.HasPrefix(fn.Name(), "new") {
				return true
			}
			if sel, ok := unparen(x.Fun).(*ast.SelectorExpr); ok && fn.Type().(*types.Signature).Recv() != nil {
				return s.fresh(sel.X) // new(big.Int).SetBytes(..) and similar chains
			}
		}
	}
	return false
}

// isLogCall: a call (chain) into a logging package, or fmt.Print*.
func (s *shaper) isLogCall(c *ast.CallExpr) bool {
	fn := calleeOf(s.info, c)
	if fn == nil || fn.Pkg() == nil {
		return false
	}
	if logPkgs[fn.Pkg().Path()] {
		return true
	}
	if r, _ := recvName(fn.Type().(*types.Signature)); fn.Pkg().Path() == "os" && r == "File" && strings.HasPrefix(fn.Name(), "Write") {
		return true // trace / debug file output
	}
	return fn.Pkg().Path() == "fmt" && strings.HasPrefix(fn.Name(), "Print")
}

// pure reports whether evaluating e has no side effects (under the naming assumptions above).
func (s *shaper) pure(e ast.Node) bool {
	ok := true
	ast.Inspect(e, func(x ast.Node) bool {
		if !ok {
			return false
		}
		switch x := x.(type) {
		case *ast.FuncLit:
			return false // building a closure is pure; it is analysed as its own node
		case *ast.UnaryExpr:
			if x.Op == token.ARROW {
				ok = false
			}
		case *ast.CallExpr:
			if !s.pureCall(x) && !s.isLogCall(x) {
				ok = false
				s.impure = s.g.text(x.Fun) // outermost impure call; refined below if an argument is the culprit
				for _, a := range x.Args {
					s.pure(a)
				}
			}
		}
		return ok
	})
	return ok
}

func (s *shaper) pureCall(c *ast.CallExpr) bool {
	if tv, ok := s.info.Types[c.Fun]; ok && tv.IsType() {
		return true // conversion
	}
	if id, ok := unparen(c.Fun).(*ast.Ident); ok {
		if _, b := s.info.Uses[id].(*types.Builtin); b {
			switch id.Name {
			case "len", "cap", "new", "make", "min", "max", "real", "imag", "complex":
				return true
			}
			return false
		}
	}
	fn := calleeOf(s.info, c)
	if fn == nil || fn.Pkg() == nil {
		return false // call through a function value / error.Error() etc.
	}
	sig := fn.Type().(*types.Signature)
	path := fn.Pkg().Path()
	switch {
	case logPkgs[path]:
		return true // logger chains inside expressions, e.g. logger.IsDebugEnabled()
	case path == "math/big":
		if sig.Recv() == nil || bigPure[fn.Name()] {
			return true
		}
		sel, ok := unparen(c.Fun).(*ast.SelectorExpr)
		return ok && s.fresh(sel.X) // new(big.Int).Add(a, b)
	case path == "fmt":
		return strings.HasPrefix(fn.Name(), "Sprint") || fn.Name() == "Errorf"
	case path == "encoding/binary":
		return !strings.HasPrefix(fn.Name(), "Put") && fn.Name() != "Write" && fn.Name() != "Read"
	case pureStdPkgs[path]:
		return sig.Recv() == nil // package-level helpers only (not e.g. (*bytes.Buffer).Write)
	case strings.HasPrefix(path, s.g.w.mod+"/"):
		if pureName.MatchString(fn.Name()) {
			r, _ := recvName(sig)
			s.assumed[strings.TrimPrefix(path, s.g.w.mod+"/")+"."+strings.TrimPrefix(r+".", ".")+fn.Name()] = true
			return true
		}
	}
	return false
}

// constResult: expression whose value does not depend on the iteration (constant, nil, package-level variable).
func (s *shaper) constResult(e ast.Expr) bool {
	if tv, ok := s.info.Types[e]; ok && (tv.Value != nil || tv.IsNil()) {
		return true
	}
	if o := s.obj(e); o != nil {
		if v, ok := o.(*types.Var); ok && v.Pkg() != nil && v.Parent() == v.Pkg().Scope() {
			return true
		}
	}
	return false
}

func (s *shaper) stmts(l []ast.Stmt) {
	for _, st := range l {
		s.stmt(st)
	}
}

func (s *shaper) stmt(st ast.Stmt) {
	switch x := st.(type) {
	case nil, *ast.EmptyStmt:
	case *ast.BlockStmt:
		s.stmts(x.List)
	case *ast.IfStmt:
		s.stmt(x.Init)
		if !s.pure(x.Cond) {
			s.unknown(x.Cond, "condition with possible side effects: "+s.g.text(x.Cond))
		}
		s.stmt(x.Body)
		s.stmt(x.Else)
	case *ast.SwitchStmt:
		s.stmt(x.Init)
		if x.Tag != nil && !s.pure(x.Tag) {
			s.unknown(x.Tag, "switch tag with possible side effects")
		}
		s.breakDepth++
		for _, c := range x.Body.List {
			cc := c.(*ast.CaseClause)
			for _, e := range cc.List {
				if !s.pure(e) {
					s.unknown(e, "case expression with possible side effects")
				}
			}
			s.stmts(cc.Body)
		}
		s.breakDepth--
	case *ast.TypeSwitchStmt:
		s.stmt(x.Init)
		s.stmt(x.Assign)
		s.breakDepth++
		for _, c := range x.Body.List {
			s.stmts(c.(*ast.CaseClause).Body)
		}
		s.breakDepth--
	case *ast.ForStmt:
		s.stmt(x.Init)
		if x.Cond != nil && !s.pure(x.Cond) {
			s.unknown(x.Cond, "loop condition with possible side effects")
		}
		s.stmt(x.Post)
		s.breakDepth++
		s.stmt(x.Body)
		s.breakDepth--
	case *ast.RangeStmt:
		if !s.pure(x.X) {
			s.unknown(x.X, "inner range operand with possible side effects")
		}
		if x.Tok == token.ASSIGN {
			s.unknown(x, "inner range assigns to existing variables")
		}
		s.breakDepth++
		s.stmt(x.Body)
		s.breakDepth--
	case *ast.BranchStmt:
		switch {
		case x.Label != nil || x.Tok == token.GOTO:
			s.unknown(x, "labelled branch / goto")
		case x.Tok == token.BREAK && s.breakDepth == 0:
			s.unknown(x, "break out of the map range: which keys were processed depends on iteration order")
		}
	case *ast.ReturnStmt:
		for _, r := range x.Results {
			if !s.constResult(r) {
				s.unknown(x, "early return of a non-constant value ("+s.g.text(r)+"): result may depend on which key came first")
				return
			}
		}
		s.add("aggr", fmt.Sprintf("L%d early return of constants only", s.line(x)))
	case *ast.IncDecStmt:
		s.scalarUpdate(x, x.X, nil, x.Tok)
	case *ast.DeclStmt:
		gd, ok := x.Decl.(*ast.GenDecl)
		if !ok || gd.Tok == token.TYPE || gd.Tok == token.CONST {
			return
		}
		for _, sp := range gd.Specs {
			vs := sp.(*ast.ValueSpec)
			for i, name := range vs.Names {
				var rhs ast.Expr
				if len(vs.Values) == len(vs.Names) {
					rhs = vs.Values[i]
				}
				s.define(name, rhs)
			}
			if len(vs.Values) == 1 && len(vs.Names) > 1 {
				s.rhs(vs.Values[0])
			}
		}
	case *ast.AssignStmt:
		s.assign(x)
	case *ast.ExprStmt:
		if c, ok := unparen(x.X).(*ast.CallExpr); ok {
			s.callEffect(c, x)
		} else if !s.pure(x.X) {
			s.unknown(x, "expression statement with side effects")
		}
	default:
		s.unknown(st, fmt.Sprintf("%T inside the loop body", st))
	}
}

// define records a body-local variable and checks its initialiser.
func (s *shaper) define(id *ast.Ident, rhs ast.Expr) {
	o := s.info.Defs[id]
	if o == nil {
		o = s.info.Uses[id]
	}
	kind := "other"
	if rhs != nil {
		switch {
		case s.fresh(rhs):
			kind = "fresh"
		case s.isKeyExpr(rhs):
			kind = "keyed"
		case s.derivedFromEntry(rhs):
			kind = "perkey"
		}
		s.rhs(rhs)
	}
	if o != nil && id.Name != "_" {
		s.localKind[o] = kind
	}
}

// derivedFromEntry: expression reaches into the current map entry (the value variable, or x[key]).
func (s *shaper) derivedFromEntry(e ast.Expr) bool {
	o, keyed := s.root(e)
	if keyed {
		return true
	}
	return o != nil && (o == s.val && s.val != nil || s.localKind[o] == "perkey")
}

// rhs checks a right-hand side: pure, or a single call with a classifiable effect.
func (s *shaper) rhs(e ast.Expr) {
	if e == nil || s.pure(e) {
		return
	}
	if c, ok := unparen(e).(*ast.CallExpr); ok {
		s.callEffect(c, c)
		return
	}
	if ta, ok := unparen(e).(*ast.TypeAssertExpr); ok && s.pure(ta.X) {
		return
	}
	s.unknown(e, "right-hand side with possible side effects: "+s.g.text(e))
}

func (s *shaper) assign(a *ast.AssignStmt) {
	// s = append(s, ...)
	if len(a.Lhs) == 1 && len(a.Rhs) == 1 && a.Tok == token.ASSIGN {
		if c, ok := unparen(a.Rhs[0]).(*ast.CallExpr); ok && len(c.Args) >= 1 {
			if id, ok := unparen(c.Fun).(*ast.Ident); ok && id.Name == "append" {
				if _, b := s.info.Uses[id].(*types.Builtin); b && s.g.text(c.Args[0]) == s.g.text(a.Lhs[0]) {
					for _, arg := range c.Args[1:] {
						if !s.pure(arg) {
							s.unknown(arg, "appended value has side effects")
						}
					}
					o, keyed := s.root(a.Lhs[0])
					switch {
					case o != nil && s.inBody(o):
						// slice local to one iteration
					case keyed || o != nil && (o == s.val && s.val != nil || s.localKind[o] == "perkey"):
						s.add("perkey", fmt.Sprintf("L%d append to the per-key entry %s", s.line(a), s.g.text(a.Lhs[0])))
					default:
						s.collected[s.g.text(a.Lhs[0])] = a.Lhs[0]
						s.ownStmts = append(s.ownStmts, a)
						s.add("collect", fmt.Sprintf("L%d append to %s", s.line(a), s.g.text(a.Lhs[0])))
					}
					return
				}
			}
		}
	}
	if a.Tok == token.DEFINE {
		for i, l := range a.Lhs {
			id, ok := l.(*ast.Ident)
			if !ok {
				continue
			}
			var r ast.Expr
			if len(a.Rhs) == len(a.Lhs) {
				r = a.Rhs[i]
			}
			if s.info.Defs[id] == nil && id.Name != "_" && !s.inBody(s.info.Uses[id]) { // redeclaration mixing in an outer variable
				s.scalarUpdate(a, l, r, token.ASSIGN)
				continue
			}
			s.define(id, r)
		}
		if len(a.Rhs) == 1 && len(a.Lhs) > 1 {
			s.rhs(a.Rhs[0])
		}
		return
	}
	for i, l := range a.Lhs {
		var r ast.Expr
		if len(a.Rhs) == len(a.Lhs) {
			r = a.Rhs[i]
		}
		s.scalarUpdate(a, l, r, a.Tok)
	}
	if len(a.Rhs) == 1 && len(a.Lhs) > 1 {
		s.rhs(a.Rhs[0])
	}
}

// scalarUpdate classifies one `lhs op= rhs` / lhs++ (rhs may be nil when unknown / multi-value).
func (s *shaper) scalarUpdate(at ast.Node, lhs, rhs ast.Expr, tok token.Token) {
	if id, ok := lhs.(*ast.Ident); ok && id.Name == "_" {
		s.rhs(rhs)
		return
	}
	if rhs != nil {
		s.rhs(rhs)
	}
	o, keyed := s.root(lhs)
	_, isIdent := unparen(lhs).(*ast.Ident)
	txt := s.g.text(lhs)
	switch {
	case o != nil && s.inBody(o) && (isIdent || s.localKind[o] == "fresh"):
		return // iteration-local
	case o != nil && s.inBody(o) && s.localKind[o] == "perkey", o != nil && o == s.val && s.val != nil && !isIdent:
		s.add("perkey", fmt.Sprintf("L%d write through the map entry: %s", s.line(at), txt))
		return
	case keyed:
		if ix, ok := unparen(lhs).(*ast.IndexExpr); ok && !s.pure(ix.X) {
			s.unknown(at, "indexed container expression has side effects")
		}
		s.add("perkey", fmt.Sprintf("L%d write addressed by the loop key: %s", s.line(at), txt))
		return
	}
	if _, ok := unparen(lhs).(*ast.IndexExpr); ok {
		s.unknown(at, "indexed write not addressed by the loop key: "+txt)
		return
	}
	// variable / field that outlives the iteration
	t := s.info.TypeOf(lhs)
	basic, _ := types.Unalias(t).Underlying().(*types.Basic)
	switch tok {
	case token.INC, token.DEC, token.ADD_ASSIGN, token.SUB_ASSIGN, token.MUL_ASSIGN, token.OR_ASSIGN, token.AND_ASSIGN, token.XOR_ASSIGN:
		if basic != nil && basic.Info()&types.IsInteger != 0 {
			s.accum[txt] = true
			s.ownStmts = append(s.ownStmts, at)
			s.add("aggr", fmt.Sprintf("L%d integer accumulation %s %s", s.line(at), txt, tok))
			return
		}
		s.unknown(at, fmt.Sprintf("%s on non-integer %s (string building / float accumulation is order sensitive)", tok, txt))
	case token.ASSIGN:
		if rhs != nil && s.constResult(rhs) {
			s.accum[txt] = true
			s.ownStmts = append(s.ownStmts, at)
			s.add("aggr", fmt.Sprintf("L%d flag %s = constant", s.line(at), txt))
			return
		}
		s.unknown(at, "assignment to "+txt+" which outlives the iteration (last writer wins)")
	default:
		s.unknown(at, fmt.Sprintf("%s on %s", tok, txt))
	}
}

// callEffect classifies a call evaluated for its effect.
func (s *shaper) callEffect(c *ast.CallExpr, at ast.Node) {
	name := s.g.text(c.Fun)
	argsPure := true
	for _, a := range c.Args {
		if !s.pure(a) {
			argsPure = false
		}
	}
	if id, ok := unparen(c.Fun).(*ast.Ident); ok {
		if _, b := s.info.Uses[id].(*types.Builtin); b {
			switch {
			case id.Name == "delete" && argsPure:
				s.add("delete", fmt.Sprintf("L%d %s", s.line(c), s.g.text(c)))
			case id.Name == "panic":
				s.unknown(c, "panic inside the loop (which key triggers it first is order dependent)")
			case (id.Name == "print" || id.Name == "println") && argsPure:
				s.add("log", "builtin print")
			default:
				if !s.pureCall(c) || !argsPure {
					s.unknown(c, "builtin "+id.Name+" with effects")
				}
			}
			return
		}
	}
	if s.isLogCall(c) {
		if s.pure(c) {
			s.add("log", fmt.Sprintf("L%d %s", s.line(c), name))
		} else {
			s.unknown(c, "logging call with impure arguments")
		}
		return
	}
	if s.pure(c) {
		return // value discarded
	}
	fn := calleeOf(s.info, c)
	sel, _ := unparen(c.Fun).(*ast.SelectorExpr)
	if fn != nil && sel != nil && fn.Type().(*types.Signature).Recv() != nil && argsPure && s.pure(sel.X) {
		ro, keyed := s.root(sel.X)
		recvTxt := s.g.text(sel.X)
		entry := keyed || ro != nil && (ro == s.val && s.val != nil || s.localKind[ro] == "perkey")
		// math/big mutators
		if fn.Pkg() != nil && fn.Pkg().Path() == "math/big" {
			switch {
			case ro != nil && s.inBody(ro) && !entry:
				return // mutation of an iteration-local big number
			case entry:
				s.add("perkey", fmt.Sprintf("L%d %s mutates the per-key value", s.line(c), name))
				return
			case fn.Name() == "Add" && len(c.Args) == 2 && (s.g.text(c.Args[0]) == recvTxt || s.g.text(c.Args[1]) == recvTxt):
				s.accum[recvTxt] = true
				s.ownStmts = append(s.ownStmts, at)
				s.add("aggr", fmt.Sprintf("L%d big-number sum %s", s.line(c), s.g.text(c)))
				return
			}
		}
		// storage-style per-key update: whitelisted method name and an argument built from the loop key
		if perKeyUpdate[fn.Name()] {
			for _, a := range c.Args {
				if s.key != nil && s.mentions(a, s.key) || s.isKeyExpr(a) {
					s.add("perkey", fmt.Sprintf("L%d %s with key-derived argument %s (key builder assumed injective)", s.line(c), name, s.g.text(a)))
					return
				}
			}
		}
	}
	if s.impure != "" && s.impure != name {
		name += " (impure: " + s.impure + ")"
	}
	s.unknown(c, "call with unknown effect: "+name)
}

// classifyRange is the entry point for one `range <map>` statement.
func (g *graph) classifyRange(n *fnNode, rs *ast.RangeStmt) (string, string) {
	s := &shaper{g: g, n: n, info: n.pkg.info, rs: rs, localKind: map[types.Object]string{}, eff: map[string][]string{},
		collected: map[string]ast.Expr{}, accum: map[string]bool{}, assumed: map[string]bool{}}
	objOf := func(e ast.Expr) types.Object {
		id, ok := e.(*ast.Ident)
		if !ok || id.Name == "_" {
			return nil
		}
		if o := s.info.Defs[id]; o != nil {
			return o
		}
		return s.info.Uses[id]
	}
	if rs.Key != nil {
		s.key = objOf(rs.Key)
	}
	if rs.Value != nil {
		s.val = objOf(rs.Value)
	}
	if rs.Tok == token.ASSIGN && (s.key != nil || s.val != nil) {
		s.unknown(rs, "range assigns key/value to variables that outlive the loop")
	}
	s.stmts(rs.Body.List)

	// accumulators and collected slices must not be observed inside the loop
	if len(s.accum)+len(s.collected) > 0 {
		own := func(x ast.Node) bool {
			for _, o := range s.ownStmts {
				if x.Pos() >= o.Pos() && x.End() <= o.End() {
					return true
				}
			}
			return false
		}
		ast.Inspect(rs.Body, func(x ast.Node) bool {
			switch x.(type) {
			case *ast.Ident, *ast.SelectorExpr:
				t := g.text(x)
				if (s.accum[t] || s.collected[t] != nil) && !own(x) {
					s.unknown(x, "accumulator / collected slice "+t+" is read inside the loop")
					return false
				}
			}
			return true
		})
	}

	has := func(e string) bool { return len(s.eff[e]) > 0 }
	only := func(allowed ...string) bool {
		for e := range s.eff {
			ok := false
			for _, a := range allowed {
				ok = ok || a == e
			}
			if !ok {
				return false
			}
		}
		return true
	}
	why := func(keys ...string) string {
		var parts []string
		for _, k := range keys {
			if has(k) {
				parts = append(parts, k+": "+strings.Join(s.eff[k], "; "))
			}
		}
		if len(s.assumed) > 0 {
			var a []string
			for k := range s.assumed {
				a = append(a, k)
			}
			sort.Strings(a)
			parts = append(parts, "assumed-pure: "+strings.Join(a, ","))
		}
		return strings.Join(parts, " | ")
	}
	switch {
	case has("unknown"):
		return "Unknown", why("unknown")
	case len(s.eff) == 0:
		return "ReadOnlyAggregate", "body has no effect outside the iteration" + why()
	case only("log"):
		return "LoggingOnly", why("log")
	case only("delete", "log"):
		return "DeleteOnly", why("delete")
	case only("collect", "log"):
		if ok, r := s.sortedLater(); !ok {
			return "Unknown", r + " | " + why("collect")
		} else {
			return "CollectThenSort", r + " | " + why("collect")
		}
	case only("perkey", "delete", "log"):
		return "PerKeyIndependentWrite", why("perkey", "delete")
	case only("aggr", "log"):
		return "ReadOnlyAggregate", why("aggr")
	}
	return "Unknown", "mixed effects, not one of the accepted shapes | " + why("collect", "perkey", "delete", "aggr")
}

// sortedLater: every collected slice is sorted by a statement that follows the loop in an enclosing block,
// and is not mentioned between the loop and that sort.
func (s *shaper) sortedLater() (bool, string) {
	par := s.g.parentsOf(s.n.top)
	// enclosing blocks of the range statement, inside this function node
	var blocks []*ast.BlockStmt
	for x := ast.Node(s.rs); x != nil && x != s.n.body; x = par[x] {
		if b, ok := par[x].(*ast.BlockStmt); ok {
			blocks = append(blocks, b)
		}
	}
	var notes []string
	for txt, e := range s.collected {
		ro, _ := s.root(e)
		var found *ast.CallExpr
		for _, b := range blocks {
			for _, st := range b.List {
				if st.Pos() < s.rs.End() || found != nil {
					continue
				}
				es, ok := st.(*ast.ExprStmt)
				if !ok {
					continue
				}
				c, ok := es.X.(*ast.CallExpr)
				if !ok || len(c.Args) == 0 || !sortFuncs[s.g.text(c.Fun)] {
					continue
				}
				arg := unparen(c.Args[0])
				for { // strip sort.Reverse(x) and conversions such as byKey(x)
					ic, ok := arg.(*ast.CallExpr)
					if !ok || len(ic.Args) != 1 {
						break
					}
					arg = unparen(ic.Args[0])
				}
				at := s.g.text(arg)
				if at == txt || strings.HasPrefix(txt, at+".") {
					found = c
				}
			}
		}
		if found == nil {
			cond := ""
			ast.Inspect(s.n.body, func(x ast.Node) bool { // a sort that exists but is nested (conditional) does not count
				if c, ok := x.(*ast.CallExpr); ok && c.Pos() > s.rs.End() && len(c.Args) > 0 && sortFuncs[s.g.text(c.Fun)] && strings.Contains(s.g.text(c.Args[0]), txt) {
					cond = fmt.Sprintf(" (the sort at L%d is conditional / nested)", s.line(c))
				}
				return true
			})
			return false, "append to " + txt + " without a later unconditional sort in this function" + cond
		}
		used := false
		ast.Inspect(s.n.body, func(x ast.Node) bool {
			if id, ok := x.(*ast.Ident); ok && ro != nil && s.info.Uses[id] == ro && id.Pos() > s.rs.End() && id.Pos() < found.Pos() {
				if c, ok := par[par[id]].(*ast.CallExpr); ok && (s.g.text(c.Fun) == "len" || s.g.text(c.Fun) == "cap") && s.g.text(par[id]) == txt {
					return true // len(slice) does not depend on the order
				}
				if c, ok := par[id].(*ast.CallExpr); ok && (s.g.text(c.Fun) == "len" || s.g.text(c.Fun) == "cap") {
					return true
				}
				used = true
			}
			return !used
		})
		if used {
			return false, txt + " is used between the loop and its sort"
		}
		notes = append(notes, fmt.Sprintf("%s sorted by %s at L%d (totality of the order is not checked)", txt, s.g.text(found.Fun), s.line(found)))
	}
	sort.Strings(notes)
	return true, strings.Join(notes, "; ")
}

// classifyTime: LoggingOnly iff the clock value provably flows only into logger calls (possibly through
// time.Since / Sub / local variables); Unknown otherwise.
func (g *graph) classifyTime(n *fnNode, c *ast.CallExpr) (string, string) {
	par := g.parentsOf(n.top)
	info := n.pkg.info
	s := &shaper{g: g, n: n, info: info, assumed: map[string]bool{}}
	var flows func(e ast.Node, depth int) (bool, string)
	flows = func(e ast.Node, depth int) (bool, string) {
		if depth > 6 {
			return false, "flow too deep"
		}
		switch p := par[e].(type) {
		case *ast.ParenExpr:
			return flows(p, depth)
		case *ast.ExprStmt:
			return true, ""
		case *ast.BinaryExpr:
			switch p.Op {
			case token.ADD, token.SUB, token.MUL, token.QUO, token.REM:
				return flows(p, depth+1) // arithmetic on a duration
			}
			return false, "compared in " + g.text(p)
		case *ast.SelectorExpr: // method on the time value
			if pc, ok := par[p].(*ast.CallExpr); ok && pc.Fun == ast.Expr(p) {
				return flows(pc, depth+1)
			}
		case *ast.CallExpr:
			if fn := calleeOf(info, p); fn != nil && fn.Pkg() != nil {
				if s.isLogCall(p) {
					return true, ""
				}
				if fn.Pkg().Path() == "time" {
					return flows(p, depth+1)
				}
				return false, "passed to " + g.text(p.Fun)
			}
		case *ast.AssignStmt, *ast.ValueSpec:
			var lhs []ast.Expr
			var rhs []ast.Expr
			if a, ok := p.(*ast.AssignStmt); ok {
				lhs, rhs = a.Lhs, a.Rhs
			} else {
				for _, nm := range p.(*ast.ValueSpec).Names {
					lhs = append(lhs, nm)
				}
				rhs = p.(*ast.ValueSpec).Values
			}
			for i := range rhs {
				if rhs[i] != e || len(lhs) != len(rhs) {
					continue
				}
				id, ok := lhs[i].(*ast.Ident)
				if !ok {
					return false, "stored in " + g.text(lhs[i])
				}
				if id.Name == "_" {
					return true, ""
				}
				o := info.Defs[id]
				if o == nil {
					o = info.Uses[id]
				}
				if v, ok := o.(*types.Var); !ok || v.Pkg() == nil || v.Parent() == v.Pkg().Scope() || v.IsField() {
					return false, "stored in non-local " + id.Name
				}
				okAll, why := true, ""
				ast.Inspect(n.top, func(x ast.Node) bool {
					if u, isID := x.(*ast.Ident); isID && okAll && info.Uses[u] == o {
						if a, isA := par[u].(*ast.AssignStmt); isA { // re-assignment of the variable itself
							for _, l := range a.Lhs {
								if l == ast.Expr(u) {
									return true
								}
							}
						}
						if ok2, w := flows(u, depth+1); !ok2 {
							okAll, why = false, w
						}
					}
					return okAll
				})
				if !okAll {
					return false, "via " + id.Name + ": " + why
				}
				return true, ""
			}
		}
		return false, fmt.Sprintf("used in %T", par[e])
	}
	if ok, why := flows(c, 0); !ok {
		return "Unknown", "clock value escapes logging: " + why
	}
	return "LoggingOnly", "clock value flows only into logger calls / is discarded"
}

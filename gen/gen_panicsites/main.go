// gen_panicsites: inventory of the expressions that can panic at run time in the
// admission / governance-execution code of /repo (C14).
//
//	go run ./gen_panicsites <repo> <out.v>
//
// For every function reachable (syntactically, by name) from the entry points of pool admission and
// governance execution inside packages types, contract/system, contract/name,
// contract/enterprise and chain/governance.go it records (function, kind, expression text):
//
//	assert  single-value type assertion x.(T)   (the `v, ok := x.(T)` form cannot panic and is not listed)
//	index   index expression a[i]               (slices, strings and maps are not distinguished: no type information)
//	slice   slice expression a[i:j]
//	panic   explicit call of panic(...)
//	indexwrite  assignment through an index expression m[k] = v (nil map / out of range)
//	div     integer division or remainder by a non-literal, and big.Int Div/Quo/Mod/Rem/DivMod/QuoRem
//	make    make(T, n) with a non-literal size
//	nilptr  use of a `var x *big.Int` declared without a value (nil until a branch assigns it)
//
// It also emits the case lists of the transaction-type switches of Tx.Validate and executeTx.
//
// Identical triples within one function are merged into one entry with their count.
//
// Only the standard library is used (go/parser, go/ast, go/printer).  The output is
// coq/Gen/PanicSites.v; Properties/C14.v proves Gen.sites ⊆ AdmitTotal.Sites.model_sites by
// vm_compute, so that a new or changed site in this code is a failing obligation.
package main

import (
	"bytes"
	"fmt"
	"go/ast"
	"go/parser"
	"go/printer"
	"go/token"
	"os"
	"path/filepath"
	"sort"
	"strings"
)

// package directory -> files parsed (nil = every non-test, non-generated file of the directory)
var pkgFiles = map[string][]string{
	"types":               nil,
	"contract/system":     nil,
	"contract/name":       nil,
	"contract/enterprise": nil,
	"chain":               {"governance.go", "chainhandle.go"},
}

// package import name -> directory (calls `system.X(...)` from another package of the set are followed)
var pkgDir = map[string]string{"types": "types", "system": "contract/system", "name": "contract/name", "enterprise": "contract/enterprise", "chain": "chain"}

// entry points of pool admission (mempool.verifyTx / validateTx) and of governance execution
// (chain.executeTx -> executeGovernanceTx); every function reachable from them inside the set is inventoried.
var roots = []string{
	"types.transaction.Validate", "types.transaction.ValidateWithSenderState", "types.transaction.ValidateMaxFee",
	"system.ValidateSystemTx", "system.ExecuteSystemTx", "system.GetGasPrice", "system.GetNamePrice", "system.GetStakingMinimum",
	"name.ValidateNameTx", "name.ExecuteNameTx", "name.Resolve", "name.GetAddress",
	"enterprise.ValidateEnterpriseTx", "enterprise.ExecuteEnterpriseTx",
	"chain.executeGovernanceTx", "chain.executeTx",
}

// switch statements over the transaction type whose case lists are emitted: every type Tx.Validate admits
// must have a case in executeTx's dispatch (a type without one leaves txFee nil)
var typeSwitches = []struct{ fn, tag, out string }{
	{"chain.executeTx", "txBody.Type", "exec_dispatch_types"},
	{"types.transaction.Validate", "tx.GetBody().Type", "validate_types"},
}

type site struct{ fn, kind, expr string }

type fn struct {
	pkg  string
	name string // pkg.Func or pkg.Recv.Method
	decl *ast.FuncDecl
}

func main() {
	if len(os.Args) != 3 {
		fmt.Fprintln(os.Stderr, "usage: gen_panicsites <repo> <out.v>")
		os.Exit(2)
	}
	repo, out := os.Args[1], os.Args[2]
	fset := token.NewFileSet()
	funcs := map[string]*fn{}       // full name -> decl
	byBare := map[string][]string{} // pkg + "." + bare function/method name -> full names
	for pkg, dir := range pkgDir {
		list := pkgFiles[dir]
		if list == nil {
			ents, err := os.ReadDir(filepath.Join(repo, dir))
			if err != nil {
				fmt.Fprintln(os.Stderr, err)
				os.Exit(1)
			}
			for _, e := range ents {
				n := e.Name()
				if strings.HasSuffix(n, ".go") && !strings.HasSuffix(n, "_test.go") && !strings.HasSuffix(n, ".pb.go") && !strings.HasSuffix(n, "_string.go") {
					list = append(list, n)
				}
			}
		}
		sort.Strings(list)
		for _, f := range list {
			af, err := parser.ParseFile(fset, filepath.Join(repo, dir, f), nil, 0)
			if err != nil {
				fmt.Fprintln(os.Stderr, "parse:", err)
				os.Exit(1)
			}
			for _, d := range af.Decls {
				fd, ok := d.(*ast.FuncDecl)
				if !ok || fd.Body == nil {
					continue
				}
				name := pkg + "." + fd.Name.Name
				if fd.Recv != nil && len(fd.Recv.List) == 1 {
					name = pkg + "." + recvName(fd.Recv.List[0].Type) + "." + fd.Name.Name
				}
				funcs[name] = &fn{pkg, name, fd}
				k := pkg + "." + fd.Name.Name
				byBare[k] = append(byBare[k], name)
			}
		}
	}
	// reachability (syntactic: a call f(...) resolves to the package's function f, x.m(...) to every
	// method m of the package -- or to pkg.m when x is a package of the set)
	reach := map[string]bool{}
	var work []string
	for _, r := range roots {
		if _, ok := funcs[r]; !ok {
			fmt.Fprintln(os.Stderr, "root not found:", r) // a renamed entry point must not silently shrink the inventory
			os.Exit(1)
		}
		reach[r] = true
		work = append(work, r)
	}
	for len(work) > 0 {
		cur := funcs[work[len(work)-1]]
		work = work[:len(work)-1]
		ast.Inspect(cur.decl.Body, func(n ast.Node) bool {
			ce, ok := n.(*ast.CallExpr)
			if !ok {
				return true
			}
			var cands []string
			switch f := ce.Fun.(type) {
			case *ast.Ident:
				if _, ok := funcs[cur.pkg+"."+f.Name]; ok {
					cands = []string{cur.pkg + "." + f.Name}
				}
			case *ast.SelectorExpr:
				if id, ok := f.X.(*ast.Ident); ok {
					if _, isPkg := pkgDir[id.Name]; isPkg && id.Obj == nil {
						if _, ok := funcs[id.Name+"."+f.Sel.Name]; ok {
							cands = []string{id.Name + "." + f.Sel.Name}
						}
						break
					}
				}
				for _, c := range byBare[cur.pkg+"."+f.Sel.Name] {
					if strings.Count(c, ".") == 2 { // a method
						cands = append(cands, c)
					}
				}
			}
			for _, c := range cands {
				if !reach[c] {
					reach[c] = true
					work = append(work, c)
				}
			}
			return true
		})
	}
	var names []string
	for n := range reach {
		names = append(names, n)
	}
	sort.Strings(names)
	var sites []site
	for _, n := range names {
		sites = append(sites, scan(fset, n, funcs[n].decl.Body)...)
		sites = append(sites, nilResults(fset, n, funcs[n].decl)...)
		sites = append(sites, mapFills(fset, n, funcs[n].decl.Body)...)
	}
	sort.Slice(sites, func(i, j int) bool {
		a, b := sites[i], sites[j]
		if a.fn != b.fn {
			return a.fn < b.fn
		}
		if a.kind != b.kind {
			return a.kind < b.kind
		}
		return a.expr < b.expr
	})
	var b bytes.Buffer
	b.WriteString("(* GENERATED by gen/gen_panicsites from the source tree under test; do not edit. *)\n")
	b.WriteString("From Coq Require Import String List.\nImport ListNotations.\nOpen Scope string_scope.\n\n")
	// identical (function, kind, expression) triples are merged and counted, so that a
	// duplicated expression is a different entry
	type cnt struct {
		s site
		n int
	}
	var merged []cnt
	for _, s := range sites {
		if k := len(merged); k > 0 && merged[k-1].s == s {
			merged[k-1].n++
		} else {
			merged = append(merged, cnt{s, 1})
		}
	}
	b.WriteString("Definition sites : list (string * string * string * nat) := [\n")
	for i, m := range merged {
		sep := ";"
		if i == len(merged)-1 {
			sep = ""
		}
		fmt.Fprintf(&b, "  (%s, %s, %s, %d)%s\n", coqStr(m.s.fn), coqStr(m.s.kind), coqStr(m.s.expr), m.n, sep)
	}
	b.WriteString("].\n")
	for _, ts := range typeSwitches {
		f, ok := funcs[ts.fn]
		if !ok {
			fmt.Fprintln(os.Stderr, "type switch function not found:", ts.fn)
			os.Exit(1)
		}
		var names []string
		found := false
		ast.Inspect(f.decl.Body, func(n ast.Node) bool {
			sw, ok := n.(*ast.SwitchStmt)
			if !ok || sw.Tag == nil || text(fset, sw.Tag) != ts.tag || found {
				return true
			}
			found = true
			for _, c := range sw.Body.List {
				for _, e := range c.(*ast.CaseClause).List {
					if se, ok := e.(*ast.SelectorExpr); ok {
						names = append(names, se.Sel.Name)
					} else {
						names = append(names, text(fset, e))
					}
				}
			}
			return false
		})
		if !found {
			fmt.Fprintln(os.Stderr, "type switch not found in", ts.fn)
			os.Exit(1)
		}
		fmt.Fprintf(&b, "\nDefinition %s : list string := [", ts.out)
		for i, n := range names {
			if i > 0 {
				b.WriteString("; ")
			}
			b.WriteString(coqStr(n))
		}
		b.WriteString("].\n")
	}
	if old, err := os.ReadFile(out); err == nil && bytes.Equal(old, b.Bytes()) {
		return
	}
	if err := os.WriteFile(out, b.Bytes(), 0o644); err != nil {
		fmt.Fprintln(os.Stderr, err)
		os.Exit(1)
	}
}

func recvName(e ast.Expr) string {
	switch x := e.(type) {
	case *ast.StarExpr:
		return recvName(x.X)
	case *ast.Ident:
		return x.Name
	}
	return "?"
}

func text(fset *token.FileSet, n ast.Node) string {
	var b bytes.Buffer
	printer.Fprint(&b, fset, n)
	return strings.Join(strings.Fields(b.String()), " ")
}

func scan(fset *token.FileSet, fn string, body *ast.BlockStmt) []site {
	var res []site
	// variables declared `var x *big.Int` without a value: nil until some branch assigns them
	nilable := map[string]bool{}
	ast.Inspect(body, func(n ast.Node) bool {
		if vs, ok := n.(*ast.ValueSpec); ok && len(vs.Values) == 0 && vs.Type != nil && text(fset, vs.Type) == "*big.Int" {
			for _, id := range vs.Names {
				nilable[id.Name] = true
			}
		}
		return true
	})
	if len(nilable) > 0 {
		ast.Inspect(body, func(n ast.Node) bool {
			ce, ok := n.(*ast.CallExpr)
			if !ok {
				return true
			}
			se, isSel := ce.Fun.(*ast.SelectorExpr)
			if !isSel {
				return true
			}
			uses := false
			if id, ok := se.X.(*ast.Ident); ok && nilable[id.Name] {
				uses = true
			}
			switch se.Sel.Name { // big.Int methods dereference their *big.Int arguments
			case "Add", "Sub", "Mul", "Div", "Quo", "Mod", "Cmp", "Set", "Neg", "Abs":
				for _, a := range ce.Args {
					if id, ok := a.(*ast.Ident); ok && nilable[id.Name] {
						uses = true
					}
				}
			}
			if uses {
				res = append(res, site{fn, "nilptr", text(fset, ce)})
			}
			return true
		})
	}
	// "nilfield": a selection through a field of a struct (x.f.g, x.f.m()) inside logging code -- the body of an
	// `if l.IsDebugEnabled()` / IsTraceEnabled / ... and the arguments of a zerolog-style chain l.Debug()...Msg().
	// Such code runs only on a node configured with that log level; x.f may be a nil pointer there
	// (voteCmd.Proposal is nil for BP votes).  No type information: every such selection is a site.
	seenNF := map[ast.Node]bool{}
	nilfields := func(n ast.Node) {
		ast.Inspect(n, func(y ast.Node) bool {
			se, ok := y.(*ast.SelectorExpr)
			if !ok || seenNF[se] {
				return true
			}
			if inner, ok := se.X.(*ast.SelectorExpr); ok {
				if _, isId := inner.X.(*ast.Ident); isId || isSelChain(inner.X) {
					seenNF[se] = true
					res = append(res, site{fn, "nilfield", text(fset, se)})
				}
			}
			return true
		})
	}
	ast.Inspect(body, func(n ast.Node) bool {
		switch x := n.(type) {
		case *ast.IfStmt:
			if logLevelTest(x.Cond) {
				nilfields(x.Body)
			}
		case *ast.CallExpr:
			if isLogChain(x) {
				for c := x; c != nil; {
					for _, a := range c.Args {
						nilfields(a)
					}
					se, ok := c.Fun.(*ast.SelectorExpr)
					if !ok {
						break
					}
					c, _ = se.X.(*ast.CallExpr)
				}
			}
		}
		return true
	})
	commaOK := map[*ast.TypeAssertExpr]bool{}
	ast.Inspect(body, func(n ast.Node) bool {
		switch x := n.(type) {
		case *ast.AssignStmt:
			if len(x.Lhs) == 2 && len(x.Rhs) == 1 {
				if ta, ok := x.Rhs[0].(*ast.TypeAssertExpr); ok {
					commaOK[ta] = true
				}
			}
		case *ast.ValueSpec:
			if len(x.Names) == 2 && len(x.Values) == 1 {
				if ta, ok := x.Values[0].(*ast.TypeAssertExpr); ok {
					commaOK[ta] = true
				}
			}
		}
		return true
	})
	ast.Inspect(body, func(n ast.Node) bool {
		switch x := n.(type) {
		case *ast.TypeAssertExpr:
			if x.Type != nil && !commaOK[x] {
				res = append(res, site{fn, "assert", text(fset, x)})
			}
		case *ast.IndexExpr:
			res = append(res, site{fn, "index", text(fset, x)})
		case *ast.SliceExpr:
			res = append(res, site{fn, "slice", text(fset, x)})
		case *ast.CallExpr:
			if id, ok := x.Fun.(*ast.Ident); ok && id.Name == "panic" {
				res = append(res, site{fn, "panic", text(fset, x)})
			}
			// make([]T, n) / make([]T, n, m) with a non-constant size
			if id, ok := x.Fun.(*ast.Ident); ok && id.Name == "make" && len(x.Args) >= 2 {
				for _, a := range x.Args[1:] {
					if _, lit := a.(*ast.BasicLit); !lit {
						if _, isId := a.(*ast.Ident); !isId || !isConstLike(a.(*ast.Ident).Name) {
							res = append(res, site{fn, "make", text(fset, x)})
							break
						}
					}
				}
			}
			// big.Int division: panics on a zero divisor
			if se, ok := x.Fun.(*ast.SelectorExpr); ok {
				switch se.Sel.Name {
				case "Div", "Quo", "Mod", "Rem", "DivMod", "QuoRem":
					if len(x.Args) >= 2 {
						res = append(res, site{fn, "div", text(fset, x)})
					}
				}
			}
		case *ast.BinaryExpr:
			if x.Op == token.QUO || x.Op == token.REM {
				if _, lit := x.Y.(*ast.BasicLit); !lit {
					res = append(res, site{fn, "div", text(fset, x)})
				}
			}
		case *ast.AssignStmt:
			// m[k] = v / m[k] op= v: a write through an index expression (panics on a nil map, or out of range)
			for _, l := range x.Lhs {
				if ie, ok := l.(*ast.IndexExpr); ok {
					res = append(res, site{fn, "indexwrite", text(fset, ie)})
				}
			}
		case *ast.IncDecStmt:
			if ie, ok := x.X.(*ast.IndexExpr); ok {
				res = append(res, site{fn, "indexwrite", text(fset, ie)})
			}
		}
		return true
	})
	return res
}

var logLevels = map[string]bool{"Trace": true, "Debug": true, "Info": true, "Warn": true, "Error": true, "Fatal": true, "Panic": true}

func isSelChain(e ast.Expr) bool {
	se, ok := e.(*ast.SelectorExpr)
	if !ok {
		return false
	}
	if _, isId := se.X.(*ast.Ident); isId {
		return true
	}
	return isSelChain(se.X)
}

// l.IsDebugEnabled() and the like, possibly inside && / ||
func logLevelTest(e ast.Expr) bool {
	found := false
	ast.Inspect(e, func(n ast.Node) bool {
		if c, ok := n.(*ast.CallExpr); ok {
			if se, ok := c.Fun.(*ast.SelectorExpr); ok && strings.HasPrefix(se.Sel.Name, "Is") && strings.HasSuffix(se.Sel.Name, "Enabled") {
				found = true
			}
		}
		return !found
	})
	return found
}

// a call whose receiver chain starts with l.Debug() / l.Info() / ... (no arguments): a zerolog-style event
func isLogChain(c *ast.CallExpr) bool {
	for c != nil {
		se, ok := c.Fun.(*ast.SelectorExpr)
		if !ok {
			return false
		}
		if logLevels[se.Sel.Name] && len(c.Args) == 0 {
			return true
		}
		c, _ = se.X.(*ast.CallExpr)
	}
	return false
}

// identifiers that look like constants (CamelCase package constants such as bucketsMax are not: conservative)
func isConstLike(n string) bool { return false }

func coqStr(s string) string {
	return `"` + strings.ReplaceAll(s, `"`, `""`) + `"`
}

// "nilresult": a function whose first result is a pointer and whose last result is an error can hand its caller
// (nil, nil) -- the caller's method call on the result then dereferences nil.  Recorded: a literal
// `return nil, ..., nil`, and `return x, ..., nil` where x is a pointer variable declared without a value
// (`var x *T`) that is not assigned on every path to that return (definite-assignment analysis over
// if / else / switch / loops; an `if x, err = f(); ...` init counts as an assignment).
func nilResults(fset *token.FileSet, fn string, fd *ast.FuncDecl) []site {
	rs := fd.Type.Results
	if rs == nil || len(rs.List) < 2 {
		return nil
	}
	if _, ok := rs.List[0].Type.(*ast.StarExpr); !ok {
		return nil
	}
	if id, ok := rs.List[len(rs.List)-1].Type.(*ast.Ident); !ok || id.Name != "error" {
		return nil
	}
	var res []site
	nilable := map[string]bool{}
	ast.Inspect(fd.Body, func(n ast.Node) bool {
		if vs, ok := n.(*ast.ValueSpec); ok && len(vs.Values) == 0 && vs.Type != nil {
			if _, ok := vs.Type.(*ast.StarExpr); ok {
				for _, id := range vs.Names {
					nilable[id.Name] = true
				}
			}
		}
		return true
	})
	isNil := func(e ast.Expr) bool { id, ok := e.(*ast.Ident); return ok && id.Name == "nil" }
	assigns := func(n ast.Node, v string) bool {
		found := false
		if n == nil {
			return false
		}
		ast.Inspect(n, func(x ast.Node) bool {
			if as, ok := x.(*ast.AssignStmt); ok {
				for _, l := range as.Lhs {
					if id, ok := l.(*ast.Ident); ok && id.Name == v {
						found = true
					}
				}
			}
			return !found
		})
		return found
	}
	// da(stmts, assigned) -> may the end of the list be reached with v unassigned / assigned
	var da func(l []ast.Stmt, v string, un, as bool) (bool, bool)
	var one func(s ast.Stmt, v string, un, as bool) (bool, bool)
	one = func(s ast.Stmt, v string, un, as bool) (bool, bool) {
		switch x := s.(type) {
		case nil:
			return un, as
		case *ast.BlockStmt:
			return da(x.List, v, un, as)
		case *ast.ReturnStmt:
			if len(x.Results) >= 2 && isNil(x.Results[len(x.Results)-1]) {
				if id, ok := x.Results[0].(*ast.Ident); ok && id.Name == v && un {
					res = append(res, site{fn, "nilresult", text(fset, x) + " (" + v + " may be nil)"})
				}
			}
			return false, false
		case *ast.IfStmt:
			if x.Init != nil && assigns(x.Init, v) {
				un, as = false, un || as
			}
			u1, a1 := da(x.Body.List, v, un, as)
			u2, a2 := un, as
			if x.Else != nil {
				u2, a2 = one(x.Else, v, un, as)
			}
			return u1 || u2, a1 || a2
		case *ast.ForStmt:
			u1, a1 := da(x.Body.List, v, un, as)
			return un || u1, as || a1
		case *ast.RangeStmt:
			u1, a1 := da(x.Body.List, v, un, as)
			return un || u1, as || a1
		case *ast.SwitchStmt, *ast.TypeSwitchStmt, *ast.SelectStmt:
			var body *ast.BlockStmt
			switch y := x.(type) {
			case *ast.SwitchStmt:
				body = y.Body
			case *ast.TypeSwitchStmt:
				body = y.Body
			case *ast.SelectStmt:
				body = y.Body
			}
			ru, ra := un, as // no clause taken
			for _, c := range body.List {
				var cl []ast.Stmt
				if cc, ok := c.(*ast.CaseClause); ok {
					cl = cc.Body
				} else if cc, ok := c.(*ast.CommClause); ok {
					cl = cc.Body
				}
				u1, a1 := da(cl, v, un, as)
				ru, ra = ru || u1, ra || a1
			}
			return ru, ra
		case *ast.LabeledStmt:
			return one(x.Stmt, v, un, as)
		default:
			if assigns(s, v) {
				return false, un || as
			}
			return un, as
		}
	}
	da = func(l []ast.Stmt, v string, un, as bool) (bool, bool) {
		for _, s := range l {
			if !un && !as {
				break
			}
			un, as = one(s, v, un, as)
		}
		return un, as
	}
	for v := range nilable {
		da(fd.Body.List, v, true, false)
	}
	ast.Inspect(fd.Body, func(n ast.Node) bool {
		if _, ok := n.(*ast.FuncLit); ok {
			return false
		}
		if r, ok := n.(*ast.ReturnStmt); ok && len(r.Results) >= 2 && isNil(r.Results[0]) && isNil(r.Results[len(r.Results)-1]) {
			res = append(res, site{fn, "nilresult", text(fset, r)})
		}
		return true
	})
	return res
}

// "mapfill": a store `m[k] = v` inside a loop, with the conditions under which it is reached (enclosing if
// conditions inside the loop, and the negated conditions of earlier `if c { continue / break / return }` of the same
// loop body).  A map filled from persisted state and later dereferenced without a nil check (VoteResult.rmap in
// SubVote) must contain every key the state refers to: a new skip condition in front of the store changes the site.
func mapFills(fset *token.FileSet, fn string, body *ast.BlockStmt) []site {
	var res []site
	exits := func(b *ast.BlockStmt) bool {
		for _, s := range b.List {
			switch x := s.(type) {
			case *ast.BranchStmt:
				if x.Tok == token.CONTINUE || x.Tok == token.BREAK || x.Tok == token.GOTO {
					return true
				}
			case *ast.ReturnStmt:
				return true
			}
		}
		return false
	}
	var walk func(l []ast.Stmt, guards []string, inLoop bool)
	var one func(s ast.Stmt, guards []string, inLoop bool)
	walk = func(l []ast.Stmt, guards []string, inLoop bool) {
		g := append([]string{}, guards...)
		for _, s := range l {
			one(s, g, inLoop)
			if is, ok := s.(*ast.IfStmt); ok && inLoop && is.Else == nil && exits(is.Body) {
				g = append(g, "not ("+text(fset, is.Cond)+")")
			}
		}
	}
	one = func(s ast.Stmt, guards []string, inLoop bool) {
		switch x := s.(type) {
		case *ast.BlockStmt:
			walk(x.List, guards, inLoop)
		case *ast.IfStmt:
			c := text(fset, x.Cond)
			walk(x.Body.List, append(append([]string{}, guards...), c), inLoop)
			if x.Else != nil {
				one(x.Else, append(append([]string{}, guards...), "not ("+c+")"), inLoop)
			}
		case *ast.ForStmt:
			walk(x.Body.List, nil, true)
		case *ast.RangeStmt:
			walk(x.Body.List, nil, true)
		case *ast.SwitchStmt:
			for _, c := range x.Body.List {
				cc := c.(*ast.CaseClause)
				walk(cc.Body, append(append([]string{}, guards...), "case "+text(fset, cc)[:0]+exprList(fset, cc.List)), inLoop)
			}
		case *ast.TypeSwitchStmt:
			for _, c := range x.Body.List {
				walk(c.(*ast.CaseClause).Body, guards, inLoop)
			}
		case *ast.LabeledStmt:
			one(x.Stmt, guards, inLoop)
		case *ast.AssignStmt:
			if inLoop {
				for _, l := range x.Lhs {
					if ie, ok := l.(*ast.IndexExpr); ok {
						when := "always"
						if len(guards) > 0 {
							when = strings.Join(guards, " && ")
						}
						res = append(res, site{fn, "mapfill", text(fset, ie) + " when " + when})
					}
				}
			}
		}
	}
	walk(body.List, nil, false)
	return res
}

func exprList(fset *token.FileSet, l []ast.Expr) string {
	var ps []string
	for _, e := range l {
		ps = append(ps, text(fset, e))
	}
	if len(ps) == 0 {
		return "default"
	}
	return strings.Join(ps, ", ")
}

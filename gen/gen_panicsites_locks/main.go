// gen_panicsites_locks: C14 "admission always terminates" -- the lock-release obligation over
// package mempool.  Every function of mempool/*.go (non-test) that acquires or releases a mutex
// (`X.Lock()`, `X.RLock()`, `X.Unlock()`, `X.RUnlock()`) is translated, once per (mutex expression
// X, mode write / read), into a term of the language of coq/VmGuard/Lang.v in which an acquire is
// IncV, a release is DecV, `defer X.Unlock()` / `defer func() {...}()` is Defer, if / switch are
// If with the source position of the condition, loops are Loop, return and panic are Return and
// every other statement is Skip.  Properties/C14.v proves with the counter analysis of
// coq/VmGuard/Balance.v that on every path out of every such function the lock has been
// released as often as it was acquired.  Standard library only (go/parser, no types).
//
//	gen_panicsites_locks <repo> <out.v>
//
// Not expressible (listed in [lock_unsupported], which must be empty): a lock operation inside a
// function literal that is not deferred (goroutine, callback), `goto`, `fallthrough`, or a
// `break` whose target is a switch / select, in a function that has lock operations.
package main

import (
	"bytes"
	"fmt"
	"go/ast"
	"go/parser"
	"go/printer"
	"go/token"
	"os"
	"path/filepath"
	"sort"
	"strings"
)

var fset = token.NewFileSet()

func text(n ast.Node) string {
	var b bytes.Buffer
	printer.Fprint(&b, fset, n)
	return strings.Join(strings.Fields(b.String()), " ")
}

func coqStr(t string) string {
	var b strings.Builder
	b.WriteByte('"')
	for _, r := range t {
		switch {
		case r == '"':
			b.WriteString(`""`)
		case r < 32 || r > 126:
			b.WriteByte('?')
		default:
			b.WriteRune(r)
		}
	}
	b.WriteByte('"')
	return b.String()
}

// lockOp: is the call X.Lock() / X.RLock() / X.Unlock() / X.RUnlock() ?  returns (X, mode, +1/-1)
func lockOp(e ast.Expr) (string, string, int) {
	c, ok := e.(*ast.CallExpr)
	if !ok || len(c.Args) != 0 {
		return "", "", 0
	}
	se, ok := c.Fun.(*ast.SelectorExpr)
	if !ok {
		return "", "", 0
	}
	switch se.Sel.Name {
	case "Lock":
		return text(se.X), "w", 1
	case "Unlock":
		return text(se.X), "w", -1
	case "RLock":
		return text(se.X), "r", 1
	case "RUnlock":
		return text(se.X), "r", -1
	}
	return "", "", 0
}

type tr struct {
	fn          string
	obj, mode   string
	unsupported *[]string
	breakables  []string // enclosing "loop" / "switch"
}

func (t *tr) bad(n ast.Node, what string) {
	p := fset.Position(n.Pos())
	*t.unsupported = append(*t.unsupported, fmt.Sprintf("%s: %s:%d: %s", t.fn, filepath.Base(p.Filename), p.Line, what))
}

func seq(parts []string) string {
	var ps []string
	for _, p := range parts {
		if p != "" && p != "Skip" {
			ps = append(ps, p)
		}
	}
	if len(ps) == 0 {
		return "Skip"
	}
	r := ps[len(ps)-1]
	for i := len(ps) - 2; i >= 0; i-- {
		r = "(Seq " + ps[i] + " " + r + ")"
	}
	return r
}

func (t *tr) at(n ast.Node, what string) string {
	p := fset.Position(n.Pos())
	if len(what) > 70 {
		what = what[:70] + "..."
	}
	return "(CUnknownAt " + coqStr(fmt.Sprintf("%s:%d: %s", filepath.Base(p.Filename), p.Line, what)) + ")"
}

// does the node contain a lock operation on this term's mutex (in any nested function literal too)
func (t *tr) touches(n ast.Node) bool {
	found := false
	if n == nil {
		return false
	}
	ast.Inspect(n, func(x ast.Node) bool {
		if e, ok := x.(ast.Expr); ok {
			if o, m, d := lockOp(e); d != 0 && o == t.obj && m == t.mode {
				found = true
			}
		}
		return !found
	})
	return found
}

// an expression / simple statement: a direct lock call is translated, a lock operation hidden in a
// function literal is not expressible
func (t *tr) simple(n ast.Node) string {
	if n == nil {
		return "Skip"
	}
	if es, ok := n.(*ast.ExprStmt); ok {
		if o, m, d := lockOp(es.X); d != 0 {
			if o == t.obj && m == t.mode {
				if d > 0 {
					return "IncV"
				}
				return "DecV"
			}
			return "Skip"
		}
		if c, ok := es.X.(*ast.CallExpr); ok {
			if id, ok := c.Fun.(*ast.Ident); ok && id.Name == "panic" {
				return "Return"
			}
		}
	}
	if t.touches(n) {
		t.bad(n, "lock operation inside an expression or a function literal that is not deferred: "+text(n))
	}
	return "Skip"
}

func (t *tr) block(l []ast.Stmt) string {
	var parts []string
	for _, s := range l {
		parts = append(parts, t.stmt(s))
	}
	return seq(parts)
}

func (t *tr) stmt(s ast.Stmt) string {
	switch x := s.(type) {
	case nil:
		return "Skip"
	case *ast.BlockStmt:
		return t.block(x.List)
	case *ast.IfStmt:
		els := "Skip"
		if x.Else != nil {
			els = t.stmt(x.Else)
		}
		return seq([]string{t.stmt(x.Init), t.simple(x.Cond), "(If " + t.at(x.Cond, text(x.Cond)) + " " + t.block(x.Body.List) + " " + els + ")"})
	case *ast.ForStmt:
		t.breakables = append(t.breakables, "loop")
		body := seq([]string{t.simple(x.Cond), t.block(x.Body.List), t.stmt(x.Post)})
		t.breakables = t.breakables[:len(t.breakables)-1]
		return seq([]string{t.stmt(x.Init), "(Loop " + body + ")"})
	case *ast.RangeStmt:
		t.breakables = append(t.breakables, "loop")
		body := t.block(x.Body.List)
		t.breakables = t.breakables[:len(t.breakables)-1]
		return seq([]string{t.simple(x.X), "(Loop " + body + ")"})
	case *ast.ReturnStmt:
		var parts []string
		for _, r := range x.Results {
			parts = append(parts, t.simple(r))
		}
		return seq(append(parts, "Return"))
	case *ast.DeferStmt:
		if o, m, d := lockOp(x.Call); d != 0 {
			if o == t.obj && m == t.mode {
				if d > 0 {
					return "(Defer IncV)"
				}
				return "(Defer DecV)"
			}
			return "Skip"
		}
		if fl, ok := x.Call.Fun.(*ast.FuncLit); ok {
			var parts []string
			for _, a := range x.Call.Args {
				parts = append(parts, t.simple(a))
			}
			saved := t.breakables
			t.breakables = nil
			parts = append(parts, "(Defer "+t.block(fl.Body.List)+")")
			t.breakables = saved
			return seq(parts)
		}
		return t.simple(x.Call)
	case *ast.GoStmt:
		return t.simple(x.Call)
	case *ast.LabeledStmt:
		return t.stmt(x.Stmt)
	case *ast.BranchStmt:
		switch x.Tok {
		case token.GOTO:
			t.bad(x, "goto")
		case token.FALLTHROUGH:
			t.bad(x, "fallthrough")
		case token.BREAK:
			if x.Label == nil && len(t.breakables) > 0 && t.breakables[len(t.breakables)-1] == "switch" {
				t.bad(x, "break out of a switch / select clause")
			}
			if len(t.breakables) == 0 {
				t.bad(x, "break outside a loop")
			}
		}
		// break / continue inside a loop: a loop body must leave the counter unchanged (checked by
		// the analysis), so leaving it early reaches the same states
		return "Skip"
	case *ast.SwitchStmt:
		return seq([]string{t.stmt(x.Init), t.simple(x.Tag), t.clauses(x.Body)})
	case *ast.TypeSwitchStmt:
		return seq([]string{t.stmt(x.Init), t.stmt(x.Assign), t.clauses(x.Body)})
	case *ast.SelectStmt:
		return t.clauses(x.Body)
	default:
		return t.simple(s)
	}
}

func (t *tr) clauses(b *ast.BlockStmt) string {
	t.breakables = append(t.breakables, "switch")
	defer func() { t.breakables = t.breakables[:len(t.breakables)-1] }()
	r := "Skip"
	for i := len(b.List) - 1; i >= 0; i-- {
		var body []ast.Stmt
		var pre string
		switch c := b.List[i].(type) {
		case *ast.CaseClause:
			body = c.Body
			var ps []string
			for _, e := range c.List {
				ps = append(ps, t.simple(e))
			}
			pre = seq(ps)
		case *ast.CommClause:
			body = c.Body
			pre = t.stmt(c.Comm)
		}
		r = "(If " + t.at(b.List[i], "case "+text(b.List[i])) + " " + seq([]string{pre, t.block(body)}) + " " + r + ")"
	}
	return r
}

func recvName(e ast.Expr) string {
	switch x := e.(type) {
	case *ast.StarExpr:
		return recvName(x.X)
	case *ast.Ident:
		return x.Name
	}
	return "?"
}

func main() {
	if len(os.Args) != 3 {
		fmt.Fprintln(os.Stderr, "usage: gen_panicsites_locks <repo> <out.v>")
		os.Exit(2)
	}
	dir := filepath.Join(os.Args[1], "mempool")
	ents, err := os.ReadDir(dir)
	if err != nil {
		fmt.Fprintln(os.Stderr, err)
		os.Exit(1)
	}
	type term struct {
		name, body, fn, obj, mode string
		acq, rel, dfr             int
	}
	var terms []term
	var unsupported []string
	nfuncs := 0
	for _, e := range ents {
		n := e.Name()
		if !strings.HasSuffix(n, ".go") || strings.HasSuffix(n, "_test.go") {
			continue
		}
		af, err := parser.ParseFile(fset, filepath.Join(dir, n), nil, 0)
		if err != nil {
			fmt.Fprintln(os.Stderr, "parse:", err)
			os.Exit(1)
		}
		for _, d := range af.Decls {
			fd, ok := d.(*ast.FuncDecl)
			if !ok || fd.Body == nil {
				continue
			}
			nfuncs++
			name := fd.Name.Name
			if fd.Recv != nil && len(fd.Recv.List) == 1 {
				name = recvName(fd.Recv.List[0].Type) + "." + name
			}
			// the (mutex, mode) pairs operated on in this function
			type om struct{ o, m string }
			seen := map[om][3]int{}
			var order []om
			ast.Inspect(fd.Body, func(x ast.Node) bool {
				if ds, ok := x.(*ast.DeferStmt); ok {
					if o, m, dd := lockOp(ds.Call); dd != 0 {
						k := om{o, m}
						if _, ok := seen[k]; !ok {
							order = append(order, k)
						}
						v := seen[k]
						v[2]++
						seen[k] = v
						return false
					}
				}
				if ex, ok := x.(ast.Expr); ok {
					if o, m, dd := lockOp(ex); dd != 0 {
						k := om{o, m}
						if _, ok := seen[k]; !ok {
							order = append(order, k)
						}
						v := seen[k]
						if dd > 0 {
							v[0]++
						} else {
							v[1]++
						}
						seen[k] = v
					}
				}
				return true
			})
			for _, k := range order {
				t := &tr{fn: name, obj: k.o, mode: k.m, unsupported: &unsupported}
				body := t.block(fd.Body.List)
				c := seen[k]
				terms = append(terms, term{name + "@" + k.o + "." + k.m, body, name, k.o, k.m, c[0], c[1], c[2]})
			}
		}
	}
	sort.Slice(terms, func(i, j int) bool { return terms[i].name < terms[j].name })
	sort.Strings(unsupported)
	var b bytes.Buffer
	b.WriteString("(* GENERATED by gen/gen_panicsites_locks from mempool/*.go; do not edit. *)\n")
	b.WriteString("From Coq Require Import String List.\nFrom Verif Require Import VmGuard.Lang.\nImport ListNotations.\nOpen Scope string_scope.\n\n")
	b.WriteString("(* one term per (function, mutex expression, mode w = Lock/Unlock, r = RLock/RUnlock) *)\nDefinition lock_program : prog := [\n")
	for i, t := range terms {
		sep := ";"
		if i == len(terms)-1 {
			sep = ""
		}
		fmt.Fprintf(&b, "  (%s,\n   %s)%s\n", coqStr(t.name), t.body, sep)
	}
	b.WriteString("].\n\n(* (function, mutex.mode, direct acquires, direct releases, deferred releases) *)\nDefinition lock_sites : list (string * string * nat * nat * nat) := [\n")
	for i, t := range terms {
		sep := ";"
		if i == len(terms)-1 {
			sep = ""
		}
		fmt.Fprintf(&b, "  (%s, %s, %d, %d, %d)%s\n", coqStr(t.fn), coqStr(t.obj+"."+t.mode), t.acq, t.rel, t.dfr, sep)
	}
	b.WriteString("].\n\n(* constructs the translation cannot express in a function with lock operations *)\nDefinition lock_unsupported : list string := [\n")
	for i, u := range unsupported {
		sep := ";"
		if i == len(unsupported)-1 {
			sep = ""
		}
		fmt.Fprintf(&b, "  %s%s\n", coqStr(u), sep)
	}
	fmt.Fprintf(&b, "].\n\nDefinition lock_functions_scanned : nat := %d.\n", nfuncs)
	if old, err := os.ReadFile(os.Args[2]); err == nil && bytes.Equal(old, b.Bytes()) {
		return
	}
	if err := os.WriteFile(os.Args[2], b.Bytes(), 0o644); err != nil {
		fmt.Fprintln(os.Stderr, err)
		os.Exit(1)
	}
}

// gen_vmguard: translate the host-API callbacks of package contract (every `//export`ed
// function of vm_callback.go and everything it calls inside the package) into terms of the
// language of coq/VmGuard/Lang.v (C20).  Standard library only (go/parser; the cgo files are
// parsed, not type-checked).
//
//	gen_vmguard <repo> <out.v>
//
// Reviewed classification (trusted):
//   - mutators (translated to [Mut name kind]): calls whose selector / function name is in the list
//     below, and `ctx.events = append(...)`;
//   - restore operations (translated to Skip): revertState, clearRecoveryPoint — they undo
//     effects recorded earlier in the same execution and are the identity in a read-only one;
//     `ctx.events = ctx.events[:from]` is a truncation, not a mutator;
//   - contract code runs where a cgo call enters a C function of contract/*.c that (transitively)
//     calls lua_pcall / lua_call / lua_cpcall / lua_resume: such a `C.f(...)` becomes RunLua
//     (vm_pcall in executor.call: the function body; vm_loadcall: the module chunk; ...);
//     executor.call itself is translated like every other function;
//   - the view-depth counter: `x.nestedView++` / `x.nestedView--` become IncV / DecV, a test of
//     `x.isView` becomes (CFlag "isView"); every other syntactic use of the context flags
//     (initialisers, assignments, address-of, context literals and constructor call sites, counter
//     operations inside a function literal that is not deferred, unstructured control flow in a
//     function that touches the counter) is listed in [flag_sites], which must equal the reviewed
//     list of coq/VmGuard/Reviewed.v;
//   - atoms: ctx.isQuery -> Q, ctx.nestedView > 0 -> V, X.Cmp(zeroBig) > 0 / == 0 -> AmtPos /
//     AmtZero (other comparisons with 0 expressed with them), ForkVersion >= 5 -> F5; every
//     other condition is CUnknown;
//   - switch / select: each clause body under an unknown condition; break / continue / goto:
//     Skip (more paths, never fewer); panic(...): Return; function literals: their body is
//     taken as possibly executed where they are written (Defer).
package main

import (
	"bytes"
	"fmt"
	"go/ast"
	"go/parser"
	"go/printer"
	"go/token"
	"os"
	"path/filepath"
	"regexp"
	"sort"
	"strings"
)

// every non-test Go file of package contract is parsed (any build tag: a file that is compiled on some
// platform only is still read); the sqlite driver binding files are not part of the host API
func srcFiles(repo string) []string {
	ents, err := os.ReadDir(filepath.Join(repo, "contract"))
	if err != nil {
		fmt.Fprintln(os.Stderr, err)
		os.Exit(1)
	}
	var l []string
	for _, e := range ents {
		n := e.Name()
		if !strings.HasSuffix(n, ".go") || strings.HasSuffix(n, "_test.go") || strings.HasPrefix(n, "sqlite3") {
			continue
		}
		l = append(l, n)
	}
	sort.Strings(l)
	return l
}

// mutator -> kind
var mutators = map[string]string{
	"SetData": "KAny", "DeleteData": "KAny", "SetCode": "KAny", "SetRawKV": "KAny", "AddBalance": "KAny", "SubBalance": "KAny",
	"SendBalance": "KAny", "PutState": "KAny", "SetNonce": "KAny", "StageContractState": "KAny", "CreateAccountState": "KAny",
	"ExecuteSystemTx": "KAny", "ExecuteNameTx": "KAny", "ExecuteEnterpriseTx": "KAny", "SetStorageRoot": "KAny",
	"SetCodeHash": "KAny", "SetRedeploy": "KAny", "SetRP": "KAny", "Reset": "KAny", "beginTx": "KQ",
}

// restore operations and reviewed read-only SQL helpers of statesql.go: translated to Skip, not traversed
var restore = map[string]bool{"revertState": true, "clearRecoveryPoint": true,
	"rollbackToRecoveryPoint": true, // pragma branch_truncate: undoes SQL effects recorded earlier in the same execution
	"snapshotView":            true, // pragma branch=master.<rp> on a _query_only connection: selects what is read
}

// external callees (not functions of the package) whose name starts with a state-changing verb: each must
// be classified in coq/VmGuard/Reviewed.v (mutator / restore / pure), else the obligation fails
var verbs = []string{"Set", "Put", "Delete", "Del", "Add", "Sub", "Send", "Stage", "Create", "Remove", "Update", "Commit",
	"Rollback", "Reset", "Write", "Save", "Store", "Exec", "Begin", "Open", "Insert", "Push", "Append", "Clear", "Revert", "Restore", "Mint", "Burn"}
var verbCallees = map[string]bool{}
var usedLuaC = map[string]bool{}
var skippedLuaC = map[string]bool{}

// C functions that reach lua_pcall but run no contract code (classified in coq/VmGuard/Reviewed.v)
var luaLibraryC = map[string]bool{
	"vm_newstate":       true, // loads the libraries into a fresh state, before any contract is loaded
	"vm_set_debug_hook": true, // debug build: installs the debugger hook chunk
}

func verbNamed(n string) bool {
	for _, v := range verbs {
		if strings.HasPrefix(n, v) || strings.HasPrefix(n, strings.ToLower(v)) {
			return true
		}
	}
	return false
}

type gen struct {
	fset       *token.FileSet
	funcs      map[string]*ast.FuncDecl // "name" or "Recv.name"
	byBare     map[string][]string
	cur        string   // function being translated
	lits       []string // enclosing function literals: "deferred closure" / "closure"
	luaC       map[string]bool
	restPhase  bool
	guardReads int             // reads of nestedView recognised as the atom V
	touches    map[string]bool // functions whose source mentions the view counter
}

// a syntactic use of a context flag outside the translated language
type site struct{ fn, field, what string }

var flagSites = map[site]bool{}
var flagFields = map[string]bool{"nestedView": true, "isQuery": true, "isFeeDelegation": true, "isView": true, "lastRecoveryPoint": true}

func (g *gen) where() string {
	if len(g.lits) == 0 {
		return "direct"
	}
	return g.lits[len(g.lits)-1]
}

// verb-named callees are collected for the functions reachable from the callbacks only
func (g *gen) verb(name string) {
	if !g.restPhase {
		verbCallees[name] = true
	}
}

func (g *gen) note(field, what string) { flagSites[site{g.cur, field, what}] = true }

var cFuncRe = regexp.MustCompile(`(?m)^[A-Za-z_][\w \t\*]*?\b([A-Za-z_]\w*)\s*\([^;{}]*\)\s*\{`)
var cCallRe = regexp.MustCompile(`\b([A-Za-z_]\w*)\s*\(`)

// the C functions of contract/*.c that may run Lua code: those that call lua_pcall / lua_call /
// lua_cpcall / lua_resume, and (transitively) those that call one of them
func luaRunningC(repo string) map[string]bool {
	ents, _ := os.ReadDir(filepath.Join(repo, "contract"))
	calls := map[string]map[string]bool{}
	for _, e := range ents {
		if !strings.HasSuffix(e.Name(), ".c") {
			continue
		}
		raw, err := os.ReadFile(filepath.Join(repo, "contract", e.Name()))
		if err != nil {
			continue
		}
		txt := string(raw)
		locs := cFuncRe.FindAllStringSubmatchIndex(txt, -1)
		for _, m := range locs {
			name := txt[m[2]:m[3]]
			if name == "if" || name == "for" || name == "while" || name == "switch" {
				continue
			}
			// body: matching braces from the opening one
			depth, i := 0, m[1]-1
			for ; i < len(txt); i++ {
				if txt[i] == '{' {
					depth++
				} else if txt[i] == '}' {
					depth--
					if depth == 0 {
						break
					}
				}
			}
			if i >= len(txt) {
				i = len(txt) - 1
			}
			set := calls[name]
			if set == nil {
				set = map[string]bool{}
				calls[name] = set
			}
			for _, c := range cCallRe.FindAllStringSubmatch(txt[m[1]-1:i+1], -1) {
				set[c[1]] = true
			}
		}
	}
	run := map[string]bool{"lua_pcall": true, "lua_call": true, "lua_cpcall": true, "lua_resume": true}
	for changed := true; changed; {
		changed = false
		for f, cs := range calls {
			if run[f] {
				continue
			}
			for c := range cs {
				if run[c] {
					run[f] = true
					changed = true
					break
				}
			}
		}
	}
	return run
}

func main() {
	if len(os.Args) != 3 {
		fmt.Fprintln(os.Stderr, "usage: gen_vmguard <repo> <out.v>")
		os.Exit(2)
	}
	g := &gen{fset: token.NewFileSet(), funcs: map[string]*ast.FuncDecl{}, byBare: map[string][]string{}}
	g.luaC = luaRunningC(os.Args[1])
	g.touches = map[string]bool{}
	var exported []string
	for _, f := range srcFiles(os.Args[1]) {
		af, err := parser.ParseFile(g.fset, filepath.Join(os.Args[1], "contract", f), nil, parser.ParseComments)
		if err != nil {
			fmt.Fprintln(os.Stderr, "parse:", err)
			os.Exit(1)
		}
		for _, d := range af.Decls {
			fd, ok := d.(*ast.FuncDecl)
			if !ok || fd.Body == nil {
				continue
			}
			name := fd.Name.Name
			if fd.Recv != nil && len(fd.Recv.List) == 1 {
				name = recvName(fd.Recv.List[0].Type) + "." + name
			}
			g.funcs[name] = fd
			ast.Inspect(fd.Body, func(x ast.Node) bool {
				if id, ok := x.(*ast.Ident); ok && (id.Name == "createRecoveryPoint" || id.Name == "clearRecoveryPoint") {
					g.touches[name] = true
				}
				if se, ok := x.(*ast.SelectorExpr); ok && (se.Sel.Name == "nestedView" || se.Sel.Name == "lastRecoveryPoint") {
					if _, isIf := x.(*ast.IfStmt); !isIf {
						g.touches[name] = true
					}
				}
				return true
			})
			g.byBare[fd.Name.Name] = append(g.byBare[fd.Name.Name], name)
			if fd.Doc != nil {
				for _, c := range fd.Doc.List {
					if strings.HasPrefix(c.Text, "//export ") {
						exported = append(exported, name)
					}
				}
			}
		}
	}
	sort.Strings(exported)
	// reachable functions
	reach := map[string]bool{}
	var order []string
	var visit func(n string)
	body := map[string]string{}
	visit = func(n string) {
		if reach[n] {
			return
		}
		reach[n] = true
		var callees []string
		g.cur, g.lits = n, nil
		body[n] = g.block(g.funcs[n].Body.List, &callees)
		g.unstructured(n)
		order = append(order, n)
		for _, c := range callees {
			visit(c)
		}
	}
	for _, e := range exported {
		visit(e)
	}
	sort.Strings(order)
	// every other function of the package (the entry points Execute / Call / Query / ... and what
	// only they call): translated too, for the counter discipline and the flag inventory
	inProgram := map[string]bool{}
	for _, n := range order {
		inProgram[n] = true
	}
	var all []string
	for n := range g.funcs {
		all = append(all, n)
	}
	sort.Strings(all)
	var rest []string
	g.restPhase = true
	for _, n := range all {
		if !reach[n] {
			reach[n] = true
			var callees []string
			g.cur, g.lits = n, nil
			body[n] = g.block(g.funcs[n].Body.List, &callees)
			g.unstructured(n)
			rest = append(rest, n)
		}
	}
	var b bytes.Buffer
	b.WriteString("(* GENERATED by gen/gen_vmguard from contract/{vm_callback,vm,vm_state,internal_operations}.go; do not edit. *)\n")
	b.WriteString("From Coq Require Import String List.\nFrom Verif Require Import VmGuard.Lang.\nImport ListNotations.\nOpen Scope string_scope.\n\n")
	for _, n := range order {
		fmt.Fprintf(&b, "Definition f_%s : stmt :=\n  %s.\n\n", ident(n), body[n])
	}
	for _, n := range rest {
		fmt.Fprintf(&b, "Definition f_%s : stmt :=\n  %s.\n\n", ident(n), body[n])
	}
	b.WriteString("(* the functions reachable from the exported callbacks *)\nDefinition program : prog := [\n")
	for i, n := range order {
		sep := ";"
		if i == len(order)-1 {
			sep = ""
		}
		fmt.Fprintf(&b, "  (%q, f_%s)%s\n", n, ident(n), sep)
	}
	b.WriteString("].\n\n(* every function of the package: [program] and the rest *)\nDefinition other_functions : prog := [\n")
	for i, n := range rest {
		sep := ";"
		if i == len(rest)-1 {
			sep = ""
		}
		fmt.Fprintf(&b, "  (%q, f_%s)%s\n", n, ident(n), sep)
	}
	b.WriteString("].\n\nDefinition all_functions : prog := (program ++ other_functions)%list.\n")
	b.WriteString("\nDefinition callbacks : list string := [\n")
	for i, n := range exported {
		sep := ";"
		if i == len(exported)-1 {
			sep = ""
		}
		fmt.Fprintf(&b, "  %q%s\n", n, sep)
	}
	b.WriteString("].\n\nDefinition translator_mutators : list string := [\n")
	var mn []string
	for n := range mutators {
		mn = append(mn, n)
	}
	mn = append(mn, "ctx.events=append")
	sort.Strings(mn)
	for i, n := range mn {
		sep := ";"
		if i == len(mn)-1 {
			sep = ""
		}
		fmt.Fprintf(&b, "  %q%s\n", n, sep)
	}
	b.WriteString("].\n\nDefinition translator_restore : list string := [\"clearRecoveryPoint\"; \"revertState\"; \"rollbackToRecoveryPoint\"; \"snapshotView\"].\n")
	b.WriteString("\nDefinition verb_callees : list string := [\n")
	var vc []string
	for n := range verbCallees {
		vc = append(vc, n)
	}
	sort.Strings(vc)
	for i, n := range vc {
		sep := ";"
		if i == len(vc)-1 {
			sep = ""
		}
		fmt.Fprintf(&b, "  %q%s\n", n, sep)
	}
	b.WriteString("].\n\n(* syntactic uses of the context flags outside the translated language: (function, field, what) *)\nDefinition flag_sites : list (string * string * string) := [\n")
	var fs []site
	for s := range flagSites {
		fs = append(fs, s)
	}
	sort.Slice(fs, func(i, j int) bool {
		if fs[i].fn != fs[j].fn {
			return fs[i].fn < fs[j].fn
		}
		if fs[i].field != fs[j].field {
			return fs[i].field < fs[j].field
		}
		return fs[i].what < fs[j].what
	})
	for i, s := range fs {
		sep := ";"
		if i == len(fs)-1 {
			sep = ""
		}
		fmt.Fprintf(&b, "  (%s, %s, %s)%s\n", coqStr(s.fn), coqStr(s.field), coqStr(s.what), sep)
	}
	b.WriteString("].\n\n(* cgo entry points translated to RunLua *)\nDefinition lua_running_c : list string := [\n")
	var lc []string
	for n := range usedLuaC {
		lc = append(lc, n)
	}
	sort.Strings(lc)
	for i, n := range lc {
		sep := ";"
		if i == len(lc)-1 {
			sep = ""
		}
		fmt.Fprintf(&b, "  %q%s\n", n, sep)
	}
	b.WriteString("].\n\n(* cgo entry points that reach lua_pcall but are skipped as running no contract code *)\nDefinition lua_library_c : list string := [\n")
	lc = nil
	for n := range skippedLuaC {
		lc = append(lc, n)
	}
	sort.Strings(lc)
	for i, n := range lc {
		sep := ";"
		if i == len(lc)-1 {
			sep = ""
		}
		fmt.Fprintf(&b, "  %q%s\n", n, sep)
	}
	b.WriteString("].\n")
	if old, err := os.ReadFile(os.Args[2]); err == nil && bytes.Equal(old, b.Bytes()) {
		return
	}
	if err := os.WriteFile(os.Args[2], b.Bytes(), 0o644); err != nil {
		fmt.Fprintln(os.Stderr, err)
		os.Exit(1)
	}
}

func nparams(fd *ast.FuncDecl) int {
	n := 0
	for _, f := range fd.Type.Params.List {
		if len(f.Names) == 0 {
			n++
		} else {
			n += len(f.Names)
		}
	}
	return n
}

func variadic(fd *ast.FuncDecl) bool {
	l := fd.Type.Params.List
	if len(l) == 0 {
		return false
	}
	_, ok := l[len(l)-1].Type.(*ast.Ellipsis)
	return ok
}

func ident(n string) string { return strings.NewReplacer(".", "_", "*", "").Replace(n) }

func recvName(e ast.Expr) string {
	switch x := e.(type) {
	case *ast.StarExpr:
		return recvName(x.X)
	case *ast.Ident:
		return x.Name
	}
	return "?"
}

func (g *gen) text(n ast.Node) string {
	var b bytes.Buffer
	printer.Fprint(&b, g.fset, n)
	return strings.Join(strings.Fields(b.String()), " ")
}

func seq(parts []string) string {
	var ps []string
	for _, p := range parts {
		if p != "" && p != "Skip" {
			ps = append(ps, p)
		}
	}
	if len(ps) == 0 {
		return "Skip"
	}
	r := ps[len(ps)-1]
	for i := len(ps) - 2; i >= 0; i-- {
		r = "(Seq " + ps[i] + " " + r + ")"
	}
	return r
}

func (g *gen) block(l []ast.Stmt, callees *[]string) string {
	var parts []string
	for _, s := range l {
		parts = append(parts, g.stmt(s, callees))
	}
	return seq(parts)
}

// calls (and function literals) of an expression / simple statement, in source order
func (g *gen) exprs(n ast.Node, callees *[]string) string {
	if n == nil {
		return "Skip"
	}
	var parts []string
	ast.Inspect(n, func(x ast.Node) bool {
		switch e := x.(type) {
		case *ast.FuncLit:
			g.lits = append(g.lits, "closure")
			parts = append(parts, "(Defer "+g.block(e.Body.List, callees)+")")
			g.lits = g.lits[:len(g.lits)-1]
			return false
		case *ast.CompositeLit:
			if strings.HasSuffix(g.text(e.Type), "vmContext") {
				g.note("vmContext", "literal")
			}
			for _, el := range e.Elts {
				if kv, ok := el.(*ast.KeyValueExpr); ok {
					if k, ok := kv.Key.(*ast.Ident); ok && flagFields[k.Name] {
						g.note(k.Name, "init "+g.text(kv.Value))
					}
				}
			}
			return true
		case *ast.UnaryExpr:
			if e.Op == token.AND {
				if se, ok := e.X.(*ast.SelectorExpr); ok && flagFields[se.Sel.Name] {
					g.note(se.Sel.Name, "address taken")
				}
			}
			return true
		case *ast.StarExpr:
			if t := g.text(e.X); t == "ctx" || strings.HasSuffix(t, ".ctx") || strings.HasSuffix(t, "Ctx") {
				g.note("vmContext", "copy "+g.text(e))
			}
			return true
		case *ast.SelectorExpr:
			// a method value x.SetData used without being called here (assigned, passed): it may be called later
			if k, ok := mutators[e.Sel.Name]; ok {
				parts = append(parts, fmt.Sprintf("(Mut %q %s)", e.Sel.Name, k))
			} else if !restore[e.Sel.Name] {
				for _, t := range g.byBare[e.Sel.Name] {
					if strings.Contains(t, ".") {
						*callees = append(*callees, t)
						parts = append(parts, fmt.Sprintf("(If CUnknown (Call %q) Skip)", t))
					}
				}
			}
			parts = append(parts, g.exprs(e.X, callees)) // not the selector identifier itself
			return false
		case *ast.Ident:
			// a package function used as a value
			if fd, ok := g.funcs[e.Name]; ok && fd.Recv == nil && e.Obj == nil {
				*callees = append(*callees, e.Name)
				parts = append(parts, fmt.Sprintf("(If CUnknown (Call %q) Skip)", e.Name))
			}
			return false
		case *ast.CallExpr:
			// arguments first
			for _, a := range e.Args {
				parts = append(parts, g.exprs(a, callees))
			}
			if fl, ok := e.Fun.(*ast.FuncLit); ok {
				g.lits = append(g.lits, "closure")
				parts = append(parts, "(Defer "+g.block(fl.Body.List, callees)+")")
				g.lits = g.lits[:len(g.lits)-1]
			} else {
				if se, ok := e.Fun.(*ast.SelectorExpr); ok {
					parts = append(parts, g.exprs(se.X, callees))
				}
				parts = append(parts, g.call(e, callees))
			}
			return false
		}
		return true
	})
	return seq(parts)
}

func (g *gen) call(e *ast.CallExpr, callees *[]string) string {
	var name string
	isSel := false
	switch f := e.Fun.(type) {
	case *ast.Ident:
		name = f.Name
	case *ast.SelectorExpr:
		name = f.Sel.Name
		isSel = true
		if id, ok := f.X.(*ast.Ident); ok && id.Name == "C" {
			if g.luaC[name] {
				if luaLibraryC[name] {
					skippedLuaC[name] = true
					return "Skip" // runs Lua code of the VM itself, no contract code (reviewed)
				}
				usedLuaC[name] = true
				return "RunLua" // the C function runs Lua code (contract code, which calls back)
			}
			return "Skip" // cgo call into the C runtime (the C side is scanned separately)
		}
	default:
		return "Skip"
	}
	if name == "panic" && !isSel {
		return "Return"
	}
	if k, ok := mutators[name]; ok {
		g.verb(name)
		return fmt.Sprintf("(Mut %q %s)", name, k)
	}
	if name == "clearRecoveryPoint" && !isSel {
		// unlinks (and with isError reverts) the recovery points from `start` on: tracked by VmGuard/RecPoint.v
		g.verb(name)
		return `(Mut "RecPop" KNever)`
	}
	if restore[name] {
		g.verb(name)
		return "Skip"
	}
	if name == "createRecoveryPoint" && !isSel {
		// links a recovery point carrying the 5th argument as the amount to move back on revert
		kind := "amount"
		if len(e.Args) >= 5 && g.text(e.Args[4]) == "zeroBig" {
			kind = "zero"
		}
		if _, ok := g.funcs[name]; ok {
			*callees = append(*callees, name)
		}
		return fmt.Sprintf(`(Seq (Mut "RecPush:%s" KNever) (Call %q))`, kind, name)
	}
	if (name == "NewVmContext" || name == "NewVmContextQuery") && !isSel {
		what := "call"
		if fd, ok := g.funcs[name]; ok {
			idx := 0
			for _, f := range fd.Type.Params.List {
				for _, pn := range f.Names {
					if (pn.Name == "query" || pn.Name == "feeDelegation") && idx < len(e.Args) {
						what += " " + pn.Name + "=" + g.text(e.Args[idx])
					}
					idx++
				}
			}
		}
		g.note(name, what)
	}
	var targets []string
	if !isSel {
		if _, ok := g.funcs[name]; ok {
			targets = []string{name}
		}
	} else {
		for _, t := range g.byBare[name] {
			// a method of some receiver of the package with as many parameters as the call has
			// arguments (no type information: every such method is a possible target)
			if strings.Contains(t, ".") && (nparams(g.funcs[t]) == len(e.Args) || variadic(g.funcs[t])) {
				targets = append(targets, t)
			}
		}
	}
	if len(targets) == 0 {
		if verbNamed(name) {
			g.verb(name)
		}
		return "Skip"
	}
	sort.Strings(targets)
	*callees = append(*callees, targets...)
	r := fmt.Sprintf("(Call %q)", targets[len(targets)-1])
	for i := len(targets) - 2; i >= 0; i-- {
		r = fmt.Sprintf("(If CUnknown (Call %q) %s)", targets[i], r)
	}
	return r
}

func (g *gen) stmt(s ast.Stmt, callees *[]string) string {
	switch x := s.(type) {
	case nil:
		return "Skip"
	case *ast.BlockStmt:
		return g.block(x.List, callees)
	case *ast.IfStmt:
		before := g.guardReads
		g.cond(x.Cond)
		if n := countSel(x.Cond, "nestedView"); n != g.guardReads-before {
			g.note("nestedView", "read: if "+short(g.text(x.Cond)))
		}
		els := "Skip"
		if x.Else != nil {
			els = g.stmt(x.Else, callees)
		}
		then := g.block(x.Body.List, callees)
		// `if r := sendBalance(...); r != nil { ... }`: in this branch nothing was transferred (VmGuard/RecPoint.v)
		if as, ok := x.Init.(*ast.AssignStmt); ok && len(as.Rhs) == 1 && len(as.Lhs) == 1 {
			if ce, ok := as.Rhs[0].(*ast.CallExpr); ok {
				if id, ok := ce.Fun.(*ast.Ident); ok && id.Name == "sendBalance" && g.text(x.Cond) == g.text(as.Lhs[0])+" != nil" {
					then = seq([]string{`(Mut "SendFailed" KNever)`, then})
				}
			}
		}
		return seq([]string{g.stmt(x.Init, callees), g.exprs(x.Cond, callees),
			"(If " + g.cond(x.Cond) + " " + then + " " + els + ")"})
	case *ast.ForStmt:
		return seq([]string{g.stmt(x.Init, callees),
			"(Loop " + seq([]string{g.exprs(x.Cond, callees), g.block(x.Body.List, callees), g.stmt(x.Post, callees)}) + ")"})
	case *ast.RangeStmt:
		return seq([]string{g.exprs(x.X, callees), "(Loop " + g.block(x.Body.List, callees) + ")"})
	case *ast.ReturnStmt:
		if countSel(x, "nestedView") > 0 {
			g.note("nestedView", "read: "+short(g.text(x)))
		}
		var parts []string
		for _, r := range x.Results {
			parts = append(parts, g.exprs(r, callees))
		}
		return seq(append(parts, "Return"))
	case *ast.DeferStmt:
		if fl, ok := x.Call.Fun.(*ast.FuncLit); ok {
			// defer func() { ... }(args): the arguments are evaluated now, the body runs at exit
			var parts []string
			for _, a := range x.Call.Args {
				parts = append(parts, g.exprs(a, callees))
			}
			g.lits = append(g.lits, "deferred closure")
			parts = append(parts, "(Defer "+g.block(fl.Body.List, callees)+")")
			g.lits = g.lits[:len(g.lits)-1]
			return seq(parts)
		}
		return "(Defer " + g.exprs(x.Call, callees) + ")"
	case *ast.IncDecStmt:
		if se, ok := x.X.(*ast.SelectorExpr); ok && flagFields[se.Sel.Name] {
			op := "++"
			if x.Tok == token.DEC {
				op = "--"
			}
			g.note(se.Sel.Name, op+" "+g.where())
			if se.Sel.Name == "nestedView" {
				if x.Tok == token.DEC {
					return "DecV"
				}
				return "IncV"
			}
		}
		return g.exprs(s, callees)
	case *ast.GoStmt:
		return "(Defer " + g.exprs(x.Call, callees) + ")"
	case *ast.LabeledStmt:
		return g.stmt(x.Stmt, callees)
	case *ast.BranchStmt:
		return "Skip"
	case *ast.SwitchStmt:
		return seq([]string{g.stmt(x.Init, callees), g.exprs(x.Tag, callees), g.clauses(x.Body, callees)})
	case *ast.TypeSwitchStmt:
		return seq([]string{g.stmt(x.Init, callees), g.stmt(x.Assign, callees), g.clauses(x.Body, callees)})
	case *ast.SelectStmt:
		return g.clauses(x.Body, callees)
	case *ast.AssignStmt:
		parts := []string{g.exprs(x, callees)}
		for _, r := range x.Rhs {
			if countSel(r, "nestedView") > 0 {
				g.note("nestedView", "read: "+short(g.text(x)))
			}
		}
		for _, l := range x.Lhs {
			if se, ok := l.(*ast.SelectorExpr); ok && flagFields[se.Sel.Name] {
				g.note(se.Sel.Name, "assign "+g.text(x))
			}
		}
		for i, l := range x.Lhs {
			if se, ok := l.(*ast.SelectorExpr); ok && se.Sel.Name == "lastRecoveryPoint" && i < len(x.Rhs) &&
				strings.HasSuffix(g.text(x.Rhs[i]), ".prev") && g.cur != "clearRecoveryPoint" {
				parts = append(parts, `(Mut "RecPop" KNever)`)
			}
			if g.text(l) == "ctx.events" && i < len(x.Rhs) {
				if ce, ok := x.Rhs[i].(*ast.CallExpr); ok {
					if id, ok := ce.Fun.(*ast.Ident); ok && id.Name == "append" {
						parts = append(parts, `(Mut "ctx.events=append" KAny)`)
					}
				}
			}
		}
		return seq(parts)
	default:
		if _, isFor := s.(*ast.ForStmt); !isFor && countSel(s, "nestedView") > 0 {
			g.note("nestedView", "read: "+short(g.text(s)))
		}
		return g.exprs(s, callees)
	}
}

func short(t string) string {
	if len(t) > 80 {
		return t[:80] + "..."
	}
	return t
}

// occurrences of the field selector .<name> in a node
func countSel(n ast.Node, name string) int {
	c := 0
	if n == nil {
		return 0
	}
	ast.Inspect(n, func(x ast.Node) bool {
		if se, ok := x.(*ast.SelectorExpr); ok && se.Sel.Name == name {
			c++
		}
		return true
	})
	return c
}

func (g *gen) clauses(b *ast.BlockStmt, callees *[]string) string {
	r := "Skip"
	for i := len(b.List) - 1; i >= 0; i-- {
		var body []ast.Stmt
		var pre string
		switch c := b.List[i].(type) {
		case *ast.CaseClause:
			body = c.Body
			var ps []string
			for _, e := range c.List {
				ps = append(ps, g.exprs(e, callees))
			}
			pre = seq(ps)
		case *ast.CommClause:
			body = c.Body
			pre = g.stmt(c.Comm, callees)
		}
		r = "(If " + g.unknown(b.List[i]) + " " + seq([]string{pre, g.block(body, callees)}) + " " + r + ")"
	}
	return r
}

func (g *gen) cond(e ast.Expr) string {
	switch x := e.(type) {
	case *ast.ParenExpr:
		return g.cond(x.X)
	case *ast.UnaryExpr:
		if x.Op == token.NOT {
			return "(CNot " + g.cond(x.X) + ")"
		}
	case *ast.BinaryExpr:
		switch x.Op {
		case token.LAND:
			return "(CAnd " + g.cond(x.X) + " " + g.cond(x.Y) + ")"
		case token.LOR:
			return "(COr " + g.cond(x.X) + " " + g.cond(x.Y) + ")"
		}
		l, r := g.text(x.X), g.text(x.Y)
		if strings.HasSuffix(l, ".isView") && (r == "true" || r == "false") && (x.Op == token.EQL || x.Op == token.NEQ) {
			if (x.Op == token.EQL) == (r == "true") {
				return `(CFlag "isView")`
			}
			return `(CNot (CFlag "isView"))`
		}
		if strings.HasSuffix(l, ".isQuery") && (r == "true" || r == "false") {
			if (x.Op == token.EQL) == (r == "true") {
				return "(CAtom AQ)"
			}
			return "(CNot (CAtom AQ))"
		}
		if strings.HasSuffix(l, ".nestedView") && r == "0" {
			switch x.Op {
			case token.GTR, token.NEQ:
				g.guardReads++
				return "(CAtom AV)"
			case token.EQL, token.LEQ:
				g.guardReads++
				return "(CNot (CAtom AV))"
			}
		}
		if strings.HasSuffix(l, ".Cmp(zeroBig)") && r == "0" {
			switch x.Op {
			case token.GTR:
				return "(CAtom AAmtPos)"
			case token.EQL:
				return "(CAtom AAmtZero)"
			case token.NEQ:
				return "(CNot (CAtom AAmtZero))"
			case token.LEQ:
				return "(CNot (CAtom AAmtPos))"
			case token.GEQ:
				return "(COr (CAtom AAmtPos) (CAtom AAmtZero))"
			case token.LSS:
				return "(CAnd (CNot (CAtom AAmtPos)) (CNot (CAtom AAmtZero)))"
			}
		}
		if (strings.HasSuffix(l, "ForkVersion") || l == "currentForkVersion") && r == "5" {
			switch x.Op {
			case token.GEQ:
				return "(CAtom AF5)"
			case token.LSS:
				return "(CNot (CAtom AF5))"
			}
		}
	case *ast.SelectorExpr:
		if x.Sel.Name == "isQuery" {
			return "(CAtom AQ)"
		}
		if x.Sel.Name == "isView" {
			return `(CFlag "isView")`
		}
	}
	return g.unknown(e)
}

// an undetermined condition; in a function that touches the view counter it carries its source
// position and text, which the counter analysis prints in its witness paths
func (g *gen) unknown(n ast.Node) string {
	if !g.touches[g.cur] || n == nil {
		return "CUnknown"
	}
	p := g.fset.Position(n.Pos())
	t := g.text(n)
	if len(t) > 60 {
		t = t[:60] + "..."
	}
	return "(CUnknownAt " + coqStr(fmt.Sprintf("%s:%d: %s", filepath.Base(p.Filename), p.Line, t)) + ")"
}

// a function that touches the view counter must be structured: break / continue / goto / go /
// select are translated loosely (fine for the mutator analysis, not for a path-sensitive one)
func (g *gen) unstructured(n string) {
	touches := false
	for s := range flagSites {
		if s.fn == n && s.field == "nestedView" {
			touches = true
		}
	}
	if !touches {
		return
	}
	cnt := 0
	ast.Inspect(g.funcs[n].Body, func(x ast.Node) bool {
		switch x.(type) {
		case *ast.BranchStmt, *ast.GoStmt, *ast.SelectStmt, *ast.LabeledStmt:
			cnt++
		}
		return true
	})
	if cnt > 0 {
		flagSites[site{n, "nestedView", fmt.Sprintf("unstructured control flow (%d statements)", cnt)}] = true
	}
}

// a Coq string literal: printable ASCII only, double quotes doubled
func coqStr(t string) string {
	var b strings.Builder
	b.WriteByte('"')
	for _, r := range t {
		switch {
		case r == '"':
			b.WriteString(`""`)
		case r < 32 || r > 126:
			b.WriteByte('?')
		default:
			b.WriteRune(r)
		}
	}
	b.WriteByte('"')
	return b.String()
}

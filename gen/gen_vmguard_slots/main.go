// gen_vmguard_slots: C20, the context-slot discipline.  Reads contract/contract.go, contract/vm.go,
// the other non-test files of package contract and chain/chainservice.go with go/parser and writes
//
//   - <out.v> (coq/Gen/Slots.v): the service constants (iota block of contract.go), the initial
//     value of lastQueryIndex, the argument of contract.InitContext in the chain service, every
//     syntactic use of contexts[...] and every write of a context's service field, every use of
//     the service constants outside their definition -- compared with the reviewed lists of
//     coq/VmGuard/Reviewed.v by Properties/C20.v;
//
//   - <harness dir>/main.go: a stand-alone Go program (no cgo) that contains the UNMODIFIED text of
//     allocContextSlot, freeContextSlot (only `C.int(` -> `int(`), the `contexts[ctx.service] = ctx`
//     statement of contract.Call, the constants and the initialisation, and runs them on every
//     history of allocations / releases / transaction stores up to a bound; checks/C20.py compares
//     the results with the Coq model coq/VmGuard/Slots.v.
//
//     gen_vmguard_slots <repo> <out.v> <harness dir>
package main

import (
	"bytes"
	"fmt"
	"go/ast"
	"go/parser"
	"go/printer"
	"go/token"
	"os"
	"path/filepath"
	"sort"
	"strconv"
	"strings"
)

var fset = token.NewFileSet()

func text(n ast.Node) string {
	var b bytes.Buffer
	printer.Fprint(&b, fset, n)
	return b.String()
}

func flat(n ast.Node) string { return strings.Join(strings.Fields(text(n)), " ") }

func coqStr(t string) string {
	var b strings.Builder
	b.WriteByte('"')
	for _, r := range t {
		switch {
		case r == '"':
			b.WriteString(`""`)
		case r < 32 || r > 126:
			b.WriteByte('?')
		default:
			b.WriteRune(r)
		}
	}
	b.WriteByte('"')
	return b.String()
}

func die(format string, a ...interface{}) {
	fmt.Fprintf(os.Stderr, format+"\n", a...)
	os.Exit(1)
}

func parse(path string) *ast.File {
	f, err := parser.ParseFile(fset, path, nil, 0)
	if err != nil {
		die("parse %s: %v", path, err)
	}
	return f
}

func funcName(fd *ast.FuncDecl) string {
	if fd.Recv != nil && len(fd.Recv.List) == 1 {
		t := fd.Recv.List[0].Type
		if s, ok := t.(*ast.StarExpr); ok {
			t = s.X
		}
		if id, ok := t.(*ast.Ident); ok {
			return id.Name + "." + fd.Name.Name
		}
	}
	return fd.Name.Name
}

type site struct{ fn, kind, what string }

func main() {
	if len(os.Args) != 4 {
		die("usage: gen_vmguard_slots <repo> <out.v> <harness dir>")
	}
	repo := os.Args[1]
	cdir := filepath.Join(repo, "contract")

	// ---- the service constants: the const block of contract.go that declares ChainService
	consts := map[string]int{}
	var constOrder []string
	constBlock := ""
	cf := parse(filepath.Join(cdir, "contract.go"))
	for _, d := range cf.Decls {
		gd, ok := d.(*ast.GenDecl)
		if !ok || gd.Tok != token.CONST {
			continue
		}
		has := false
		for _, s := range gd.Specs {
			for _, n := range s.(*ast.ValueSpec).Names {
				if n.Name == "ChainService" {
					has = true
				}
			}
		}
		if !has {
			continue
		}
		constBlock = text(gd)
		// iota block: BlockFactory = iota, then implicit repetition; any other form is reported as value 999
		for i, s := range gd.Specs {
			vs := s.(*ast.ValueSpec)
			for _, n := range vs.Names {
				v := 999
				if len(vs.Values) == 0 && i > 0 {
					v = i
				} else if len(vs.Values) == 1 {
					if id, ok := vs.Values[0].(*ast.Ident); ok && id.Name == "iota" {
						v = i
					} else if bl, ok := vs.Values[0].(*ast.BasicLit); ok {
						if x, err := strconv.Atoi(bl.Value); err == nil {
							v = x
						}
					}
				}
				consts[n.Name] = v
				constOrder = append(constOrder, n.Name)
			}
		}
	}
	if constBlock == "" {
		die("const block with ChainService not found in contract/contract.go")
	}

	// ---- vm.go: allocator text, init value, the store of Call
	vf := parse(filepath.Join(cdir, "vm.go"))
	var allocSrc, freeSrc, initLast, txStore string
	for _, d := range vf.Decls {
		fd, ok := d.(*ast.FuncDecl)
		if !ok || fd.Body == nil {
			continue
		}
		switch funcName(fd) {
		case "allocContextSlot":
			allocSrc = text(fd)
		case "freeContextSlot":
			freeSrc = text(fd)
		case "init":
			ast.Inspect(fd.Body, func(x ast.Node) bool {
				if as, ok := x.(*ast.AssignStmt); ok && len(as.Lhs) == 1 && flat(as.Lhs[0]) == "lastQueryIndex" {
					initLast = flat(as.Rhs[0])
				}
				return true
			})
		case "Call":
			ast.Inspect(fd.Body, func(x ast.Node) bool {
				if as, ok := x.(*ast.AssignStmt); ok && len(as.Lhs) == 1 {
					if ie, ok := as.Lhs[0].(*ast.IndexExpr); ok && flat(ie.X) == "contexts" {
						txStore = flat(as)
					}
				}
				return true
			})
		}
	}
	if allocSrc == "" || freeSrc == "" {
		die("allocContextSlot / freeContextSlot not found in contract/vm.go")
	}

	// ---- every use of contexts[...] and every write of a service field, in package contract
	var sites []site
	reads := map[string]int{}
	ents, _ := os.ReadDir(cdir)
	for _, e := range ents {
		n := e.Name()
		if !strings.HasSuffix(n, ".go") || strings.HasSuffix(n, "_test.go") || strings.HasPrefix(n, "sqlite3") {
			continue
		}
		af := parse(filepath.Join(cdir, n))
		for _, d := range af.Decls {
			fd, ok := d.(*ast.FuncDecl)
			if !ok || fd.Body == nil {
				continue
			}
			fn := funcName(fd)
			written := map[ast.Node]bool{}
			ast.Inspect(fd.Body, func(x ast.Node) bool {
				switch v := x.(type) {
				case *ast.AssignStmt:
					for _, l := range v.Lhs {
						if ie, ok := l.(*ast.IndexExpr); ok && flat(ie.X) == "contexts" {
							written[ie] = true
							sites = append(sites, site{fn, "store", flat(v)})
						}
						if se, ok := l.(*ast.SelectorExpr); ok && se.Sel.Name == "service" {
							sites = append(sites, site{fn, "service", flat(v)})
						}
						if id, ok := l.(*ast.Ident); ok && (id.Name == "contexts" || id.Name == "maxContext" || id.Name == "lastQueryIndex") {
							sites = append(sites, site{fn, "var", flat(v)})
						}
					}
				case *ast.KeyValueExpr:
					if k, ok := v.Key.(*ast.Ident); ok && k.Name == "service" {
						sites = append(sites, site{fn, "service", "init " + flat(v.Value)})
					}
				case *ast.IndexExpr:
					if flat(v.X) == "contexts" && !written[v] {
						reads[flat(v.Index)]++
						if ix := flat(v.Index); ix != "service" {
							sites = append(sites, site{fn, "load", flat(v)})
						}
					}
				case *ast.UnaryExpr:
					if v.Op == token.AND && strings.HasPrefix(flat(v.X), "contexts") {
						sites = append(sites, site{fn, "addr", flat(v)})
					}
				}
				return true
			})
		}
	}
	// ---- uses of the service constants outside package contract's definition, and InitContext calls
	var uses []site
	initArg := ""
	filepath.Walk(repo, func(p string, info os.FileInfo, err error) error {
		if err != nil {
			return nil
		}
		if info.IsDir() {
			b := filepath.Base(p)
			if b == ".git" || b == "vendor" || b == "libtool" || b == "tests" {
				return filepath.SkipDir
			}
			return nil
		}
		if !strings.HasSuffix(p, ".go") || strings.HasSuffix(p, "_test.go") {
			return nil
		}
		raw, _ := os.ReadFile(p)
		if !bytes.Contains(raw, []byte("ChainService")) && !bytes.Contains(raw, []byte("BlockFactory")) &&
			!bytes.Contains(raw, []byte("MaxVmService")) && !bytes.Contains(raw, []byte("InitContext")) {
			return nil
		}
		af, err := parser.ParseFile(fset, p, raw, 0)
		if err != nil {
			return nil
		}
		rel, _ := filepath.Rel(repo, p)
		inContract := af.Name.Name == "contract"
		for _, d := range af.Decls {
			fd, ok := d.(*ast.FuncDecl)
			if !ok || fd.Body == nil {
				continue
			}
			fn := rel + ":" + funcName(fd)
			ast.Inspect(fd.Body, func(x ast.Node) bool {
				switch v := x.(type) {
				case *ast.SelectorExpr:
					if id, ok := v.X.(*ast.Ident); ok && id.Name == "contract" {
						if _, isC := consts[v.Sel.Name]; isC {
							uses = append(uses, site{fn, "const", v.Sel.Name})
						}
					}
				case *ast.Ident:
					if _, isC := consts[v.Name]; isC && inContract && v.Obj == nil {
						uses = append(uses, site{fn, "const", v.Name})
					}
				case *ast.CallExpr:
					name := ""
					if se, ok := v.Fun.(*ast.SelectorExpr); ok {
						name = se.Sel.Name
					} else if id, ok := v.Fun.(*ast.Ident); ok {
						name = id.Name
					}
					if name == "InitContext" && len(v.Args) > 0 {
						uses = append(uses, site{fn, "InitContext", flat(v.Args[0])})
						if strings.HasPrefix(rel, "chain/") {
							initArg = flat(v.Args[0])
						}
					}
				}
				return true
			})
		}
		return nil
	})
	dedup := func(l []site) []site {
		seen := map[site]bool{}
		var r []site
		for _, s := range l {
			if !seen[s] {
				seen[s] = true
				r = append(r, s)
			}
		}
		sort.Slice(r, func(i, j int) bool {
			if r[i].fn != r[j].fn {
				return r[i].fn < r[j].fn
			}
			if r[i].kind != r[j].kind {
				return r[i].kind < r[j].kind
			}
			return r[i].what < r[j].what
		})
		return r
	}
	sites, uses = dedup(sites), dedup(uses)
	// the base added to NumWorkers in the chain service: "<expr> + <n>"
	base := 0
	if i := strings.LastIndex(initArg, "+"); i >= 0 {
		if x, err := strconv.Atoi(strings.TrimSpace(initArg[i+1:])); err == nil {
			base = x
		}
	}

	var b bytes.Buffer
	b.WriteString("(* GENERATED by gen/gen_vmguard_slots from contract/*.go and chain/chainservice.go; do not edit. *)\n")
	b.WriteString("From Coq Require Import String List.\nImport ListNotations.\nOpen Scope string_scope.\n\n")
	b.WriteString("(* the iota block of contract/contract.go *)\nDefinition slot_constants : list (string * nat) := [\n")
	for i, n := range constOrder {
		sep := ";"
		if i == len(constOrder)-1 {
			sep = ""
		}
		fmt.Fprintf(&b, "  (%s, %d)%s\n", coqStr(n), consts[n], sep)
	}
	fmt.Fprintf(&b, "].\n\n(* init(): lastQueryIndex = ... *)\nDefinition init_last_query_index : string := %s.\n", coqStr(initLast))
	fmt.Fprintf(&b, "\n(* chain service: contract.InitContext(<this>, ...) and the constant added to the number of workers *)\nDefinition init_context_arg : string := %s.\nDefinition init_context_base : nat := %d.\n", coqStr(initArg), base)
	fmt.Fprintf(&b, "\n(* the statement of contract.Call that stores the transaction's context *)\nDefinition tx_store_stmt : string := %s.\n", coqStr(txStore))
	b.WriteString("\n(* uses of contexts[...] (loads with the index `service` are only counted), writes of a service field, writes of the allocator variables *)\nDefinition slot_sites : list (string * string * string) := [\n")
	for i, s := range sites {
		sep := ";"
		if i == len(sites)-1 {
			sep = ""
		}
		fmt.Fprintf(&b, "  (%s, %s, %s)%s\n", coqStr(s.fn), coqStr(s.kind), coqStr(s.what), sep)
	}
	fmt.Fprintf(&b, "].\n\nDefinition slot_loads_by_service : nat := %d.\n", reads["service"])
	b.WriteString("\n(* uses of the service constants and calls of InitContext, whole repository *)\nDefinition slot_constant_uses : list (string * string * string) := [\n")
	for i, s := range uses {
		sep := ";"
		if i == len(uses)-1 {
			sep = ""
		}
		fmt.Fprintf(&b, "  (%s, %s, %s)%s\n", coqStr(s.fn), coqStr(s.kind), coqStr(s.what), sep)
	}
	b.WriteString("].\n")
	if old, err := os.ReadFile(os.Args[2]); err != nil || !bytes.Equal(old, b.Bytes()) {
		if err := os.WriteFile(os.Args[2], b.Bytes(), 0o644); err != nil {
			die("%v", err)
		}
	}

	// ---- the harness
	if txStore == "" {
		txStore = "contexts[ctx.service] = ctx"
	}
	if initLast == "" {
		initLast = "0"
	}
	fix := func(s string) string { return strings.ReplaceAll(s, "C.int(", "int(") }
	h := harnessHead + constBlock + "\n\n// ---- the text of contract/vm.go ----\n" + fix(allocSrc) + "\n\n" + fix(freeSrc) +
		"\n\nfunc txStore(ctx *vmContext) {\n\t" + fix(txStore) + "\n}\n\nfunc initLast() int { return " + initLast + " }\n// ---- end of the extracted text ----\n" + harnessMain
	if err := os.MkdirAll(os.Args[3], 0o755); err != nil {
		die("%v", err)
	}
	hp := filepath.Join(os.Args[3], "main.go")
	if old, err := os.ReadFile(hp); err != nil || string(old) != h {
		if err := os.WriteFile(hp, []byte(h), 0o644); err != nil {
			die("%v", err)
		}
	}
}

const harnessHead = `// GENERATED by gen/gen_vmguard_slots: the slot allocator of contract/vm.go, executed natively.
package main

import (
	"encoding/json"
	"fmt"
	"os"
	"strconv"
	gotime "time"
)

type vmContext struct {
	service int
	isQuery bool
	id      int
}

// what the extracted text uses besides the package variables
type fakeMutex struct{ held int }

func (m *fakeMutex) Lock()   { m.held++ }
func (m *fakeMutex) Unlock() { m.held-- }

type blocked struct{}
type fakeTime struct{ Millisecond int }

// the allocator sleeps and retries when every slot is taken: reported as "blocked"
func (fakeTime) Sleep(d int) { panic(blocked{}) }

var time = fakeTime{Millisecond: 1}

var (
	maxContext     int
	contexts       []*vmContext
	lastQueryIndex int
	querySync      fakeMutex
)

// contract/contract.go
`

const harnessMain = `
type rec struct {
	M     int      ` + "`json:\"m\"`" + `
	Ops   []string ` + "`json:\"ops\"`" + `
	Res   []int    ` + "`json:\"res\"`" + `
	Final []int    ` + "`json:\"final\"`" + `
	Last  int      ` + "`json:\"last\"`" + `
	Viol  []string ` + "`json:\"viol\"`" + `
}

var current string

// replay one history on a freshly initialised allocator
func replay(m int, ops []string) rec {
	maxContext = m
	contexts = make([]*vmContext, maxContext)
	lastQueryIndex = initLast()
	querySync = fakeMutex{}
	r := rec{M: m, Ops: ops, Viol: []string{}}
	var queries []*vmContext
	liveQ := map[int]bool{}
	for i, o := range ops {
		res := 0
		switch o[0] {
		case 'A':
			q := &vmContext{isQuery: true, id: len(queries), service: -1}
			queries = append(queries, q)
			func() {
				defer func() {
					if x := recover(); x != nil {
						if _, ok := x.(blocked); ok {
							querySync = fakeMutex{}
							return
						}
						r.Viol = append(r.Viol, fmt.Sprintf("step %d: allocContextSlot panics: %v", i+1, x))
						querySync = fakeMutex{}
					}
				}()
				allocContextSlot(q)
				liveQ[q.id] = true
				res = q.service + 1
				if q.service <= ChainService {
					r.Viol = append(r.Viol, fmt.Sprintf("step %d: query %d was given context slot %d, a slot of transaction execution (BlockFactory=%d, ChainService=%d)", i+1, q.id, q.service, BlockFactory, ChainService))
				}
			}()
		case 'F':
			k, _ := strconv.Atoi(o[1:])
			if k < len(queries) && liveQ[k] {
				func() {
					defer func() {
						if x := recover(); x != nil {
							r.Viol = append(r.Viol, fmt.Sprintf("step %d: freeContextSlot panics: %v", i+1, x))
							querySync = fakeMutex{}
						}
					}()
					freeContextSlot(queries[k])
				}()
				delete(liveQ, k)
			}
		case 'T':
			s, _ := strconv.Atoi(o[1:])
			txStore(&vmContext{service: s, isQuery: false, id: -1})
		}
		r.Res = append(r.Res, res)
		if querySync.held != 0 {
			r.Viol = append(r.Viol, fmt.Sprintf("step %d: querySync left held %d time(s)", i+1, querySync.held))
			querySync = fakeMutex{}
		}
		// the binding the read-only guards rely on: the slot number in the Lua state of a live query
		// resolves to that query's own context
		for id := range liveQ {
			q := queries[id]
			if q.service < 0 || q.service >= len(contexts) || contexts[q.service] != q {
				who := "nil"
				if q.service >= 0 && q.service < len(contexts) && contexts[q.service] != nil {
					c := contexts[q.service]
					who = fmt.Sprintf("context{isQuery=%v id=%d}", c.isQuery, c.id)
				}
				r.Viol = append(r.Viol, fmt.Sprintf("step %d: the callbacks of live query %d (service=%d) resolve contexts[service] to %s: its host calls are checked against another execution's flags", i+1, id, q.service, who))
			}
		}
	}
	for _, c := range contexts {
		switch {
		case c == nil:
			r.Final = append(r.Final, 0)
		case !c.isQuery:
			r.Final = append(r.Final, 1)
		default:
			r.Final = append(r.Final, c.id+2)
		}
	}
	r.Last = lastQueryIndex
	return r
}

func freeQuerySlot(m int, ops []string) bool {
	// is there a nil slot above ChainService after the history (else an allocation would wait)
	replay(m, ops)
	for i := ChainService + 1; i < maxContext; i++ {
		if contexts[i] == nil {
			return true
		}
	}
	return false
}

func main() {
	minM, _ := strconv.Atoi(os.Args[1])
	maxM, _ := strconv.Atoi(os.Args[2])
	maxLen, _ := strconv.Atoi(os.Args[3])
	out := json.NewEncoder(os.Stdout)
	go func() {
		last, since := "", gotime.Now()
		for {
			gotime.Sleep(200 * gotime.Millisecond)
			if current != last {
				last, since = current, gotime.Now()
			} else if current != "" && gotime.Since(since) > 3*gotime.Second {
				fmt.Printf("{\"hang\":%q}\n", current)
				os.Exit(3)
			}
		}
	}()
	for m := minM; m <= maxM; m++ {
		var dfs func(ops []string, nq int, live []int)
		dfs = func(ops []string, nq int, live []int) {
			if len(ops) > 0 {
				current = fmt.Sprintf("maxContext=%d %v", m, ops)
				out.Encode(replay(m, ops))
			}
			if len(ops) == maxLen {
				return
			}
			ext := func(o string, nq2 int, live2 []int) {
				n := append(append([]string{}, ops...), o)
				dfs(n, nq2, live2)
			}
			if freeQuerySlot(m, ops) {
				ext("A", nq+1, append(append([]int{}, live...), nq))
			}
			for i, k := range live {
				l2 := append(append([]int{}, live[:i]...), live[i+1:]...)
				ext("F"+strconv.Itoa(k), nq, l2)
			}
			for s := 0; s <= ChainService; s++ {
				ext("T"+strconv.Itoa(s), nq, live)
			}
		}
		dfs(nil, 0, nil)
	}
}
`

//go:build verif

package chain

// C14 engine: admission totality.
//
// For every case the engine builds a signed transaction and runs, each under recover():
//   1. types.Transaction.Validate                     (stateless admission, mempool.verifyTx)
//   2. the stateful validator mempool.validateTx selects for a governance tx
//      (system.ValidateSystemTx / name.ValidateNameTx / enterprise.ValidateEnterpriseTx)
//   3. the real block executor (NewTxExecutor -> executeTx -> executeGovernanceTx ...)
// and reports outcome (nil / error text / panic text) of each, the CallInfo Go decoded from
// the payload, the string-oracle rows of every string argument (real DecodeAddress, base58 +
// IDFromBytes, big.Int.SetString, strings.ToUpper, ParseListEntry ...), and the raw stored
// bytes the validators read (enterprise admins / conf, staking, vote, name owner).
// Cases of one group run in order on one BlockState (so that state written by an admitted
// transaction is read by the next one).
import (
	"bufio"
	"bytes"
	"crypto/sha256"
	"context"
	"encoding/base64"
	"encoding/binary"
	"encoding/hex"
	"encoding/json"
	"fmt"
	"math/big"
	"os"
	"strconv"
	"strings"
	"testing"

	"github.com/aergoio/aergo/v2/account/key"
	keycrypto "github.com/aergoio/aergo/v2/account/key/crypto"
	"github.com/aergoio/aergo/v2/config"
	"github.com/aergoio/aergo/v2/consensus"
	"github.com/aergoio/aergo/v2/contract"
	"github.com/aergoio/aergo/v2/contract/enterprise"
	"github.com/aergoio/aergo/v2/contract/name"
	"github.com/aergoio/aergo/v2/contract/system"
	"github.com/aergoio/aergo/v2/internal/common"
	"github.com/aergoio/aergo/v2/internal/enc/base58"
	"github.com/aergoio/aergo/v2/internal/enc/proto"
	"github.com/aergoio/aergo/v2/state"
	"github.com/aergoio/aergo/v2/state/statedb"
	"github.com/aergoio/aergo/v2/types"
	"github.com/aergoio/aergo/v2/types/dbkey"
	"github.com/btcsuite/btcd/btcec/v2"
)

type c14Case struct {
	Group     int    `json:"g"`
	Recipient string `json:"rcpt"`
	Payload   string `json:"p"`   // base64
	Amount    string `json:"amt"` // decimal
	Sender    int    `json:"snd"`
	Type      int32  `json:"ty"`
	Fork      int32  `json:"fork"`
	Raft      bool   `json:"raft"`
	Cons      string `json:"cons"` // consensus kind: "" (dpos, or raft when Raft is set) | "dpos" | "raft" | "sbp"
	Public    bool   `json:"pub"`
	AcctLen   int    `json:"acctlen"` // >0: replace Body.Account by that many bytes (unsigned path)
	RcptRaw   string `json:"rcptraw"` // hex: replace Body.Recipient
	BadHash   bool   `json:"badhash"`
	AmtRaw    string `json:"amtraw"`   // hex: raw Body.Amount bytes (any length)
	PriceRaw  string `json:"priceraw"` // hex: raw Body.GasPrice bytes
	PayFill   int    `json:"payfill"`  // >0: append that many 'x' bytes to the payload (size boundary cases)
	BlockNo   uint64 `json:"bno"`    // >0: block number of the block this transaction is executed in
	Commit    bool   `json:"commit"` // before this case: system.CommitParams(true), as when a block is connected
}

type c14Str struct {
	S       string `json:"s"` // hex
	Upper   string `json:"upper"`
	Addr    string `json:"addr"` // hex of DecodeAddress result
	AddrOK  bool   `json:"addr_ok"`
	B58Hex  string `json:"b58_hex"`
	B58OK   bool   `json:"b58_ok"`
	B58Len  int    `json:"b58_len"`
	PeerOK  bool   `json:"peer_ok"`
	Big     string `json:"big"`
	BigOK   bool   `json:"big_ok"`
	Allowed bool   `json:"allowed"`
	ListOK  bool   `json:"list_ok"`
	RpcN    int    `json:"rpc_n"`
	RpcB64  bool   `json:"rpc_b64"`
	RpcW    bool   `json:"rpc_w"`
	JsonRT  bool   `json:"json_rt"` // json.Unmarshal(json.Marshal([]interface{}{s})) == []string{s}
	CcPeer  bool   `json:"cc_peer"`
	CcAddr  bool   `json:"cc_addr"`
	CcHex   bool   `json:"cc_hex"`
}

type c14Obs struct {
	DecodeOK bool        `json:"decode_ok"`
	Name     string      `json:"name"` // hex
	Args     interface{} `json:"args"` // tagged
	NArgs    int         `json:"nargs"`
	JMarshal string      `json:"jmarshal"` // hex of json.Marshal(ci.Args[1:])
	ProtoSize int        `json:"proto_size"`
	PayloadLen int       `json:"payload_len"`
	Strs     []c14Str    `json:"strs"`
	View     c14View     `json:"view"`
	VTypes   string      `json:"v_types"`
	VState   string      `json:"v_state"`
	Exec     string      `json:"exec"`
	Post     c14View     `json:"post"`
}

type c14View struct {
	Sender     string `json:"sender"`  // hex address
	Balance    string `json:"balance"` // decimal
	Admins     string `json:"admins"`  // hex raw
	AdminsSet  bool   `json:"admins_set"`
	Staking    string `json:"staking"` // hex raw
	VoteBP     string `json:"vote_bp"`
	VotesDAO   map[string]string `json:"votes_dao"`  // ID -> hex raw vote of the sender
	Results    map[string]string `json:"results"`    // issue key -> hex raw vote-result list (SystemVoteSort)
	Junm       map[string][]string `json:"junm"`     // hex candidate bytes of the sender's proposal votes -> json.Unmarshal as []string (hex); absent = error
	Names      map[string]string `json:"names"`      // hex name -> hex raw name map (present entries)
	Names0     map[string]string `json:"names0"`     // the same from GetInitialData (start of block)
	AdminEnc   map[string]string `json:"admin_enc"`  // hex 33-byte chunk -> hex EncodeAddress
	Confs      map[string]string `json:"confs"`      // upper key -> hex raw conf (present entries)
	BlockNo    uint64 `json:"block_no"`
	StakingMin string `json:"staking_min"`
	NamePrice  string `json:"name_price"`
	CCSet      bool   `json:"cc_set"`
}

type c14Acct struct {
	k    *btcec.PrivateKey
	addr []byte
}

type c14ccc struct{}

func (c14ccc) MakeConfChangeProposal(req *types.MembershipChange) (*consensus.ConfChangePropose, error) {
	return &consensus.ConfChangePropose{}, nil
}

func c14tag(v interface{}) interface{} {
	switch x := v.(type) {
	case nil:
		return map[string]interface{}{"t": "null"}
	case bool:
		return map[string]interface{}{"t": "bool", "v": x}
	case float64:
		return map[string]interface{}{"t": "num"}
	case string:
		return map[string]interface{}{"t": "str", "v": hex.EncodeToString([]byte(x))}
	case []interface{}:
		r := make([]interface{}, len(x))
		for i, e := range x {
			r[i] = c14tag(e)
		}
		return map[string]interface{}{"t": "arr", "v": r}
	case map[string]interface{}:
		r := map[string]interface{}{}
		for k, e := range x {
			r[hex.EncodeToString([]byte(k))] = c14tag(e)
		}
		return map[string]interface{}{"t": "obj", "v": r}
	}
	return map[string]interface{}{"t": "other"}
}

func c14allowed(param string) bool {
	const allowedNameChar = "abcdefghijklmnopqrstuvwxyz1234567890"
	for _, char := range param {
		if !strings.Contains(allowedNameChar, strings.ToLower(string(char))) {
			return false
		}
	}
	return true
}

func c14strRow(s string) c14Str {
	r := c14Str{S: hex.EncodeToString([]byte(s)), Upper: hex.EncodeToString([]byte(strings.ToUpper(s)))}
	if a, err := types.DecodeAddress(s); err == nil {
		r.AddrOK = true
		r.Addr = hex.EncodeToString(a)
	}
	if b, err := base58.Decode(s); err == nil {
		r.B58OK = true
		r.B58Len = len(b)
		r.B58Hex = hex.EncodeToString(b)
		if _, err := types.IDFromBytes(b); err == nil {
			r.PeerOK = true
		}
	}
	if n, ok := new(big.Int).SetString(s, 10); ok {
		r.BigOK = true
		r.Big = n.String()
	}
	r.Allowed = c14allowed(s)
	if _, err := types.ParseListEntry(s); err == nil {
		r.ListOK = true
	}
	parts := strings.Split(s, ":")
	r.RpcN = len(parts)
	if _, err := base64.StdEncoding.DecodeString(parts[0]); err == nil {
		r.RpcB64 = true
	}
	if len(parts) >= 2 && strings.Contains(strings.ToUpper(parts[1]), "W") {
		r.RpcW = true
	}
	if jm, err := json.Marshal([]interface{}{s}); err == nil {
		var back []string
		if json.Unmarshal(jm, &back) == nil && len(back) == 1 && back[0] == s {
			r.JsonRT = true
		}
	}
	if _, err := types.IDB58Decode(s); err == nil {
		r.CcPeer = true
	}
	if _, err := types.ParseMultiaddr(s); err == nil {
		r.CcAddr = true
	}
	if _, err := strconv.ParseUint(s, 16, 64); err == nil {
		r.CcHex = true
	}
	return r
}

func c14collect(v interface{}, seen map[string]bool, out *[]c14Str) {
	switch x := v.(type) {
	case string:
		if !seen[x] {
			seen[x] = true
			*out = append(*out, c14strRow(x))
		}
	case []interface{}:
		for _, e := range x {
			c14collect(e, seen, out)
		}
	case map[string]interface{}:
		for _, e := range x {
			c14collect(e, seen, out)
		}
	}
}

func c14outcome(f func() error) (res string) {
	defer func() {
		if r := recover(); r != nil {
			res = "PANIC: " + fmt.Sprint(r)
		}
	}()
	if err := f(); err != nil {
		return "ERR: " + err.Error()
	}
	return "OK"
}

func c14raw(bs *state.BlockState, contractID string, k []byte) (string, bool) {
	scs, err := statedb.OpenContractStateAccount([]byte(contractID), bs.StateDB)
	if err != nil {
		return "", false
	}
	d, err := scs.GetData(k)
	if err != nil || d == nil {
		return "", false
	}
	return hex.EncodeToString(d), true
}

func c14junm(cand []byte, m map[string][]string) {
	var l []string
	if json.Unmarshal(cand, &l) == nil {
		h := make([]string, len(l))
		for i, x := range l {
			h[i] = hex.EncodeToString([]byte(x))
		}
		m[hex.EncodeToString(cand)] = h
	}
}

func c14view(bs *state.BlockState, sender []byte, ci *types.CallInfo, blockNo uint64) c14View {
	v := c14View{Sender: hex.EncodeToString(sender), BlockNo: blockNo}
	if st, err := state.GetAccountState(sender, bs.StateDB); err == nil {
		v.Balance = st.Balance().String()
	}
	v.Admins, v.AdminsSet = c14raw(bs, types.AergoEnterprise, dbkey.EnterpriseAdmins())
	v.Staking, _ = c14raw(bs, types.AergoSystem, dbkey.SystemStaking(sender))
	v.VoteBP, _ = c14raw(bs, types.AergoSystem, dbkey.SystemVote([]byte(types.OpvoteBP.ID()), sender))
	v.VotesDAO = map[string]string{}
	for _, id := range []string{"BPCOUNT", "STAKINGMIN", "GASPRICE", "NAMEPRICE"} {
		if d, ok := c14raw(bs, types.AergoSystem, dbkey.SystemVote([]byte(id), sender)); ok {
			v.VotesDAO[id] = d
		}
	}
	v.Results = map[string]string{}
	for _, id := range []string{types.OpvoteBP.ID(), "BPCOUNT", "STAKINGMIN", "GASPRICE", "NAMEPRICE"} {
		if d, ok := c14raw(bs, types.AergoSystem, dbkey.SystemVoteSort([]byte(id))); ok {
			v.Results[id] = d
		}
	}
	v.Junm = map[string][]string{}
	for _, rawhex := range v.VotesDAO {
		raw, _ := hex.DecodeString(rawhex)
		if len(raw) >= 8 {
			sz := int(binary.LittleEndian.Uint64(raw[:8]))
			if sz >= 0 && 8+sz <= len(raw) {
				c14junm(raw[8:8+sz], v.Junm)
			}
		}
	}
	v.Confs = map[string]string{}
	for _, k := range []string{enterprise.RPCPermissions, enterprise.P2PWhite, enterprise.P2PBlack, enterprise.AccountWhite} {
		if d, ok := c14raw(bs, types.AergoEnterprise, dbkey.EnterpriseConf([]byte(k))); ok {
			v.Confs[k] = d
		}
	}
	v.AdminEnc = map[string]string{}
	if raw, _ := hex.DecodeString(v.Admins); len(raw) > 0 {
		for i := 0; i < len(raw); i += types.AddressLength {
			j := i + types.AddressLength
			if j > len(raw) {
				j = len(raw)
			}
			v.AdminEnc[hex.EncodeToString(raw[i:j])] = hex.EncodeToString([]byte(types.EncodeAddress(raw[i:j])))
		}
	}
	v.Names = map[string]string{}
	nameKeys := [][]byte{[]byte(types.AergoName)}
	if ci != nil {
		for i, a := range ci.Args {
			if i > 1 {
				break
			}
			if x, ok := a.(string); ok {
				nameKeys = append(nameKeys, []byte(x))
				if d, err := types.DecodeAddress(x); err == nil {
					nameKeys = append(nameKeys, d)
				}
			}
		}
	}
	v.Names0 = map[string]string{}
	for _, k := range nameKeys {
		if d, ok := c14raw(bs, types.AergoName, dbkey.Name(k)); ok {
			v.Names[hex.EncodeToString(k)] = d
		}
		if scs, err := statedb.OpenContractStateAccount([]byte(types.AergoName), bs.StateDB); err == nil {
			if d, err := scs.GetInitialData(dbkey.Name(k)); err == nil && d != nil {
				v.Names0[hex.EncodeToString(k)] = hex.EncodeToString(d)
			}
		}
	}
	v.StakingMin = system.GetStakingMinimum().String()
	v.NamePrice = system.GetNamePrice().String()
	v.CCSet = bs.CCProposal != nil
	return v
}

func TestVerifC14Engine(t *testing.T) {
	in, err := os.Open(os.Getenv("VERIF_IN"))
	if err != nil {
		t.Skip("no VERIF_IN")
	}
	defer in.Close()
	out, _ := os.Create(os.Getenv("VERIF_OUT"))
	defer out.Close()
	w := bufio.NewWriter(out)
	defer w.Flush()

	serverCtx := config.NewServerContext("", "")
	testCfg = serverCtx.GetDefaultConfig().(*config.Config)
	testCfg.DbType = "memorydb"
	testCfg.DataDir = t.TempDir() // memorydb dumps to its directory on close: never share ~/.aergo
	testCfg.EnableTestmode = true
	dfltUseMempool = false
	cs := NewChainService(testCfg)
	cs.SetChainConsensus(&StubConsensus{})
	g, _ := cs.getBlockByNo(0)

	const nAcct = 4
	accts := make([]*c14Acct, nAcct)
	for i := range accts {
		// deterministic keys: the same accounts as in the mempool engine
		h := sha256.Sum256([]byte(fmt.Sprintf("verif-c14-account-%d", i)))
		k, _ := btcec.PrivKeyFromBytes(h[:])
		accts[i] = &c14Acct{k, keycrypto.GenerateAddress(k.PubKey().ToECDSA())}
	}
	// the addresses are announced first so that the generator can name them in payloads
	{
		hdr := map[string]interface{}{"accounts": []string{}}
		l := []string{}
		for _, a := range accts {
			l = append(l, types.EncodeAddress(a.addr))
		}
		hdr["accounts"] = l
		b, _ := json.Marshal(hdr)
		fmt.Fprintln(w, string(b))
	}

	// the VM stub: every contract call / deploy succeeds without effects and without fee
	contract.StubVM = func(kind string, cs *statedb.ContractState, payload, id []byte) (string, []*types.Event, string, *big.Int, error) {
		return "", nil, "", new(big.Int), nil
	}
	var (
		curGroup = -1
		bs       *state.BlockState
		cidh     []byte
	)
	sc := bufio.NewScanner(in)
	sc.Buffer(make([]byte, 1<<20), 1<<26)
	for sc.Scan() {
		var c c14Case
		if err := json.Unmarshal(sc.Bytes(), &c); err != nil {
			fmt.Fprintln(w, `{"skip":true}`)
			continue
		}
		cons := c.Cons
		if cons == "" {
			cons = "dpos"
			if c.Raft {
				cons = "raft"
			}
		}
		consensus.SetCurConsensus(cons)
		types.InitGovernance(cons, c.Public)
		pubNet = c.Public // chain.IsPublic(): executeTx validates REDEPLOY etc. against it
		contract.PubNet = c.Public
		bi := types.NewBlockHeaderInfoFromPrevBlock(g, 1000, types.DummyBlockVersionner(c.Fork))
		if c.BlockNo > 0 {
			bi.No = c.BlockNo
		}
		cidh = common.Hasher(bi.ChainId)
		if c.Group != curGroup {
			curGroup = c.Group
			bs = cs.sdb.NewBlockState(g.GetHeader().GetBlocksRootHash(), state.SetPrevBlockHash(g.BlockHash()))
			bs.SetGasPrice(system.GetGasPrice())
			bs.Receipts().SetHardFork(cs.cfg.Hardfork, bi.No)
			// the system parameters are process globals: reload them from the genesis state
			if scs0, err := statedb.GetSystemAccountState(bs.StateDB); err == nil {
				system.InitSystemParams(scs0, 3)
			}
		}
		if c.Commit {
			system.CommitParams(true)
		}
		// only a raft chain has a cluster handle; the dpos and sbp block factories execute with a nil one
		var ccc consensus.ChainConsensusCluster
		if cons == "raft" {
			ccc = c14ccc{}
		}
		exec := NewTxExecutor(context.Background(), ccc, cs.cdb, bi, contract.BlockFactory)
		a := accts[c.Sender%nAcct]
		payload, _ := base64.StdEncoding.DecodeString(c.Payload)
		for i, ac := range accts { // "@A0".."@A3" stand for the engine's account addresses
			payload = bytes.ReplaceAll(payload, []byte(fmt.Sprintf("@A%d", i)), []byte(types.EncodeAddress(ac.addr)))
		}
		if c.PayFill > 0 {
			payload = append(payload, bytes.Repeat([]byte{'x'}, c.PayFill)...)
		}
		amt, _ := new(big.Int).SetString(c.Amount, 10)
		if amt == nil {
			amt = new(big.Int)
		}
		nonce := uint64(1)
		if st, err := state.GetAccountState(a.addr, bs.StateDB); err == nil {
			nonce = st.Nonce() + 1
		}
		tx := &types.Tx{Body: &types.TxBody{Nonce: nonce, Account: a.addr, Recipient: []byte(c.Recipient),
			Amount: amt.Bytes(), Payload: payload, Type: types.TxType(c.Type), ChainIdHash: cidh}}
		for i, ac := range accts { // recipient "@A<i>": the raw address of engine account i
			if c.Recipient == fmt.Sprintf("@A%d", i) {
				tx.Body.Recipient = ac.addr
			}
		}
		if len(tx.Body.Recipient) == 0 {
			tx.Body.Recipient = nil
		}
		if c.AmtRaw != "" {
			tx.Body.Amount, _ = hex.DecodeString(c.AmtRaw)
		}
		if c.PriceRaw != "" {
			tx.Body.GasPrice, _ = hex.DecodeString(c.PriceRaw)
		}
		if c.RcptRaw != "" {
			tx.Body.Recipient, _ = hex.DecodeString(c.RcptRaw)
		}
		key.SignTx(tx, a.k)
		if c.AcctLen > 0 {
			tx.Body.Account = make([]byte, c.AcctLen)
			tx.Hash = tx.CalculateTxHash()
		}
		if c.BadHash {
			tx.Hash = append([]byte{1}, tx.Hash...)
		}

		var o c14Obs
		o.ProtoSize = proto.Size(tx)
		o.PayloadLen = len(payload)
		var ci types.CallInfo
		o.DecodeOK = json.Unmarshal(payload, &ci) == nil
		var cip *types.CallInfo
		if o.DecodeOK {
			cip = &ci
			o.Name = hex.EncodeToString([]byte(ci.Name))
			tl := make([]interface{}, len(ci.Args))
			for i, e := range ci.Args {
				tl[i] = c14tag(e)
			}
			o.Args = tl
			o.NArgs = len(ci.Args)
			if len(ci.Args) >= 1 {
				if jm, err := json.Marshal(ci.Args[1:]); err == nil {
					o.JMarshal = hex.EncodeToString(jm)
				}
			}
			seen := map[string]bool{}
			o.Strs = []c14Str{}
			c14collect(ci.Args, seen, &o.Strs)
		}
		o.View = c14view(bs, a.addr, cip, bi.No)
		if jm, err := hex.DecodeString(o.JMarshal); err == nil && len(jm) > 0 {
			c14junm(jm, o.View.Junm)
		}
		{
			seen := map[string]bool{}
			for _, r := range o.Strs {
				b, _ := hex.DecodeString(r.S)
				seen[string(b)] = true
			}
			if o.Strs == nil {
				o.Strs = []c14Str{}
			}
			for _, raw := range o.View.Confs {
				b, _ := hex.DecodeString(raw)
				for _, val := range strings.Split(string(b), "\\")[1:] {
					c14collect(val, seen, &o.Strs)
				}
			}
		}

		ttx := types.NewTransaction(tx)
		o.VTypes = c14outcome(func() error { return ttx.Validate(cidh, c.Public) })

		// the stateful validators exactly as mempool.validateTx dispatches them
		o.VState = c14outcome(func() error {
			// mempool.validateTx: sender-state checks first, for every tx type
			if ns, err := bs.StateDB.GetAccountState(types.ToAccountID(a.addr)); err == nil {
				if err := ttx.ValidateWithSenderState(ns, system.GetGasPrice(), c.Fork); err != nil && err != types.ErrTxNonceToohigh {
					return err
				}
			}
			if tx.Body.Type != types.TxType_GOVERNANCE {
				return nil
			}
			id := tx.Body.Recipient
			scs, err := statedb.OpenContractStateAccount(id, bs.StateDB)
			if err != nil {
				return err
			}
			sender, err := state.GetAccountState(a.addr, bs.StateDB)
			if err != nil {
				return err
			}
			switch string(id) {
			case types.AergoSystem:
				nbi := types.BlockHeaderInfo{No: bi.No, ForkVersion: c.Fork}
				_, err = system.ValidateSystemTx(a.addr, tx.Body, sender, scs, &nbi)
			case types.AergoName:
				_, err = name.ValidateNameTx(tx.Body, sender, scs)
			case types.AergoEnterprise:
				_, err = enterprise.ValidateEnterpriseTx(tx.Body, sender, scs, bi.No)
			}
			return err
		})

		nrc := len(bs.Receipts().Get())
		o.Exec = c14outcome(func() error { return exec(bs, types.NewTransaction(tx)) })
		if rs := bs.Receipts().Get(); o.Exec == "OK" && len(rs) == nrc+1 {
			o.Exec = "OK " + rs[nrc].Status + " " + rs[nrc].Ret
		}
		o.Post = c14view(bs, a.addr, cip, bi.No)
		b, _ := json.Marshal(o)
		fmt.Fprintln(w, string(b))
	}
}

//go:build verif

package mempool

// C14 engine 2: the REAL pool admission path.  For every case it calls the real
// (*MemPool).verifyTx (Tx.Validate + signature / name verification) and the real
// (*MemPool).validateTx (whitelist, ValidateWithSenderState, recipient / name resolution and the
// governance dispatch to system / name / enterprise validators) under recover(), on a state
// database prepared with the packages' own execution functions.  The outcomes are compared with
// those of engine 1 (package chain: the same validators called through a replicated dispatch,
// which is what the Coq model is evaluated against) on the same (setup, transaction) pairs.
import (
	"bufio"
	"crypto/sha256"
	"encoding/base64"
	"encoding/json"
	"fmt"
	"math"
	"math/big"
	"os"
	"testing"

	"github.com/aergoio/aergo/v2/account/key"
	keycrypto "github.com/aergoio/aergo/v2/account/key/crypto"
	"github.com/aergoio/aergo/v2/config"
	"github.com/aergoio/aergo/v2/contract/enterprise"
	"github.com/aergoio/aergo/v2/contract/name"
	"github.com/aergoio/aergo/v2/contract/system"
	"github.com/aergoio/aergo/v2/internal/common"
	"github.com/aergoio/aergo/v2/state"
	"github.com/aergoio/aergo/v2/state/statedb"
	"github.com/aergoio/aergo/v2/types"
	"github.com/btcsuite/btcd/btcec/v2"
)

type c14mCase struct {
	Setup     string `json:"setup"` // none | staked | admin | named
	Recipient string `json:"rcpt"`
	Payload   string `json:"p"`
	Amount    string `json:"amt"`
	Sender    int    `json:"snd"`
	Type      int32  `json:"ty"`
}

type c14mObs struct {
	Verify   string `json:"verify"`
	Validate string `json:"validate"`
}

func c14mOutcome(f func() error) (res string) {
	defer func() {
		if r := recover(); r != nil {
			res = "PANIC: " + fmt.Sprint(r)
		}
	}()
	if err := f(); err != nil {
		return "ERR: " + err.Error()
	}
	return "OK"
}

func TestVerifC14MempoolEngine(t *testing.T) {
	in, err := os.Open(os.Getenv("VERIF_IN"))
	if err != nil {
		t.Skip("no VERIF_IN")
	}
	defer in.Close()
	out, _ := os.Create(os.Getenv("VERIF_OUT"))
	defer out.Close()
	w := bufio.NewWriter(out)
	defer w.Flush()

	const nAcct = 4
	keys := make([]*btcec.PrivateKey, nAcct)
	addrs := make([][]byte, nAcct)
	for i := range keys {
		h := sha256.Sum256([]byte(fmt.Sprintf("verif-c14-account-%d", i)))
		k, _ := btcec.PrivKeyFromBytes(h[:])
		keys[i] = k
		addrs[i] = keycrypto.GenerateAddress(k.PubKey().ToECDSA())
	}
	types.InitGovernance("dpos", false)
	cidh := common.Hasher([]byte("verif-c14-chain"))
	bi := &types.BlockHeaderInfo{No: 1, ForkVersion: 3}

	// one state database per setup, built with the packages' execution functions
	pools := map[string]*MemPool{}
	mkPool := func(setup string) *MemPool {
		if mp, ok := pools[setup]; ok {
			return mp
		}
		sdb := state.NewChainStateDB()
		if err := sdb.Init("memorydb", t.TempDir(), nil, true, nil); err != nil {
			t.Fatal(err)
		}
		bs := sdb.NewBlockState(sdb.GetRoot())
		gov := func(rcpt string, payload string, amt *big.Int) {
			sender, _ := state.GetAccountState(addrs[0], bs.StateDB)
			receiver, _ := state.GetAccountState([]byte(rcpt), bs.StateDB)
			scs, err := statedb.OpenContractState(receiver.IDNoPadding(), receiver.State(), bs.StateDB)
			if err != nil {
				t.Fatal(err)
			}
			body := &types.TxBody{Account: addrs[0], Recipient: []byte(rcpt), Payload: []byte(payload), Amount: amt.Bytes(), Type: types.TxType_GOVERNANCE}
			switch rcpt {
			case types.AergoSystem:
				_, err = system.ExecuteSystemTx(scs, body, sender, receiver, bi)
			case types.AergoName:
				_, err = name.ExecuteNameTx(bs, scs, body, sender, receiver, bi)
			case types.AergoEnterprise:
				_, err = enterprise.ExecuteEnterpriseTx(bs, nil, scs, body, sender, receiver, bi.No)
			}
			if err != nil {
				t.Fatalf("setup %s: %v", setup, err)
			}
			if err = statedb.StageContractState(scs, bs.StateDB); err != nil {
				t.Fatal(err)
			}
			sender.SetNonce(sender.Nonce() + 1)
			_ = sender.PutState()
			_ = receiver.PutState()
		}
		if scs0, err := statedb.GetSystemAccountState(bs.StateDB); err == nil {
			system.InitSystemParams(scs0, 3)
		}
		switch setup {
		case "staked":
			gov(types.AergoSystem, `{"Name":"v1stake"}`, new(big.Int).Mul(big.NewInt(10000), big.NewInt(1e18)))
		case "admin":
			gov(types.AergoEnterprise, `{"name":"appendAdmin","args":["`+types.EncodeAddress(addrs[0])+`"]}`, new(big.Int))
		case "named":
			gov(types.AergoName, `{"Name":"v1createName","Args":["abcdefghijkl"]}`, big.NewInt(1e18))
		}
		if err := bs.Update(); err != nil {
			t.Fatal(err)
		}
		if err := bs.Commit(); err != nil {
			t.Fatal(err)
		}
		serverCtx := config.NewServerContext("", "")
		cfg := serverCtx.GetDefaultConfig().(*config.Config)
		cfg.Hardfork = &config.HardforkConfig{V2: 0, V3: 0, V4: math.MaxUint64, V5: math.MaxUint64}
		mp := NewMemPoolService(cfg, nil)
		mp.testConfig = false
		mp.stateDB = sdb.OpenNewStateDB(bs.GetRoot())
		mp.bestBlockInfo = &types.BlockHeaderInfo{No: 0}
		mp.acceptChainIdHash = cidh
		mp.isPublic = false
		pools[setup] = mp
		return mp
	}

	sc := bufio.NewScanner(in)
	sc.Buffer(make([]byte, 1<<20), 1<<26)
	for sc.Scan() {
		var c c14mCase
		if err := json.Unmarshal(sc.Bytes(), &c); err != nil {
			fmt.Fprintln(w, `{"skip":true}`)
			continue
		}
		mp := mkPool(c.Setup)
		// the system parameters are process globals: reload them from this pool's state
		if scs0, err := statedb.GetSystemAccountState(mp.stateDB); err == nil {
			system.InitSystemParams(scs0, 3)
		}
		payload, _ := base64.StdEncoding.DecodeString(c.Payload)
		for i, a := range addrs {
			payload = []byte(replaceAll(string(payload), fmt.Sprintf("@A%d", i), types.EncodeAddress(a)))
		}
		amt, _ := new(big.Int).SetString(c.Amount, 10)
		if amt == nil {
			amt = new(big.Int)
		}
		si := c.Sender % nAcct
		nonce := uint64(1)
		if st, err := mp.getAccountState(addrs[si]); err == nil {
			nonce = st.GetNonce() + 1
		}
		tx := &types.Tx{Body: &types.TxBody{Nonce: nonce, Account: addrs[si], Recipient: []byte(c.Recipient),
			Amount: amt.Bytes(), Payload: payload, Type: types.TxType(c.Type), ChainIdHash: cidh}}
		if len(tx.Body.Recipient) == 0 {
			tx.Body.Recipient = nil
		}
		_ = key.SignTx(tx, keys[si])
		var o c14mObs
		ttx := types.NewTransaction(tx)
		o.Verify = c14mOutcome(func() error { return mp.verifyTx(ttx) })
		o.Validate = c14mOutcome(func() error { return mp.validateTx(ttx, addrs[si]) })
		b, _ := json.Marshal(o)
		fmt.Fprintln(w, string(b))
	}
}

func replaceAll(s, old, new string) string {
	for {
		i := indexOf(s, old)
		if i < 0 {
			return s
		}
		s = s[:i] + new + s[i+len(old):]
	}
}

func indexOf(s, sub string) int {
	for i := 0; i+len(sub) <= len(s); i++ {
		if s[i:i+len(sub)] == sub {
			return i
		}
	}
	return -1
}

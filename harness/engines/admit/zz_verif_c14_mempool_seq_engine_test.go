//go:build verif

package mempool

// C14 engine 3: SEQUENCES of pool operations on ONE pool, every operation under a watchdog.
// Admission must always terminate with accept or a specific rejection -- also after earlier
// transactions were rejected.  Each input line is a sequence of steps on a fresh MemPool over a
// prepared state (funded accounts, a registered name, a name whose owner changed); each step is
// run in its own goroutine and must finish within VERIF_OP_TIMEOUT_MS, otherwise the step is
// reported as TIMEOUT ("admission did not terminate") and the sequence is abandoned (the pool is
// blocked; the goroutine is left behind).
//
// operations: verify (verifyTx), put (put), submit (verifyTx then, if accepted, put: what the
// node does for a client / peer transaction), get (block producer fetch), block
// (removeOnBlockArrival of a block carrying the listed transactions), list (listHash), exist
// (existEx), remove (removeTx), unconfirmed (getUnconfirmed), evict (evictTransactions).
import (
	"bufio"
	"crypto/sha256"
	"encoding/base64"
	"encoding/json"
	"fmt"
	"math"
	"math/big"
	"os"
	"strconv"
	"strings"
	"testing"
	"time"

	"github.com/aergoio/aergo/v2/account/key"
	keycrypto "github.com/aergoio/aergo/v2/account/key/crypto"
	"github.com/aergoio/aergo/v2/config"
	"github.com/aergoio/aergo/v2/contract/name"
	"github.com/aergoio/aergo/v2/contract/system"
	"github.com/aergoio/aergo/v2/internal/common"
	"github.com/aergoio/aergo/v2/state"
	"github.com/aergoio/aergo/v2/state/statedb"
	"github.com/aergoio/aergo/v2/types"
	"github.com/btcsuite/btcd/btcec/v2"
)

type c14sTx struct {
	Acct    string `json:"acct"`    // "@A<i>" address of account i | any other string: the raw Account bytes (a name)
	Key     int    `json:"key"`     // signing key
	BadSig  bool   `json:"badsig"`  // corrupt the signature
	NoSig   bool   `json:"nosig"`   // no signature at all
	Nonce   int64  `json:"nonce"`   // offset to the state nonce of the resolved sender (1 = next)
	Amount  string `json:"amt"`     // decimal
	Rcpt    string `json:"rcpt"`    // "@A<i>" | raw string
	Type    int32  `json:"ty"`      //
	Payload string `json:"p"`       // base64
	Chain   bool   `json:"badchain"` // wrong chain id hash
	Ref     int    `json:"ref"`     // >0: reuse the transaction built at step ref-1 (duplicate / remove / exist)
}

type c14sStep struct {
	Op string  `json:"op"`
	Tx *c14sTx `json:"tx"`
}

type c14sSeq struct {
	Steps []c14sStep `json:"steps"`
}

type c14sObs struct {
	Out    []string `json:"out"`    // per step: OK ... | ERR: ... | PANIC: ... | TIMEOUT | SKIPPED
	Pooled int      `json:"pooled"` // mp.length at the end (-1 if the pool is blocked)
}

func TestVerifC14MempoolSeqEngine(t *testing.T) {
	in, err := os.Open(os.Getenv("VERIF_IN"))
	if err != nil {
		t.Skip("no VERIF_IN")
	}
	defer in.Close()
	out, _ := os.Create(os.Getenv("VERIF_OUT"))
	defer out.Close()
	w := bufio.NewWriter(out)
	defer w.Flush()
	opTimeout := 3000 * time.Millisecond
	if v, err := strconv.Atoi(os.Getenv("VERIF_OP_TIMEOUT_MS")); err == nil && v > 0 {
		opTimeout = time.Duration(v) * time.Millisecond
	}
	maxBlocked := 4
	if v, err := strconv.Atoi(os.Getenv("VERIF_MAX_BLOCKED")); err == nil && v > 0 {
		maxBlocked = v
	}

	const nAcct = 4
	keys := make([]*btcec.PrivateKey, nAcct)
	addrs := make([][]byte, nAcct)
	for i := range keys {
		h := sha256.Sum256([]byte(fmt.Sprintf("verif-c14-account-%d", i)))
		k, _ := btcec.PrivKeyFromBytes(h[:])
		keys[i] = k
		addrs[i] = keycrypto.GenerateAddress(k.PubKey().ToECDSA())
	}
	types.InitGovernance("dpos", false)
	cid := types.NewChainID()
	cid.Magic = "verif-c14"
	cid.PublicNet = false
	cid.Consensus = "dpos"
	cid.Version = 3
	cidBytes, err := cid.Bytes()
	if err != nil {
		t.Fatal(err)
	}
	cidh := common.Hasher(types.MakeChainId(cidBytes, 3))
	bi := &types.BlockHeaderInfo{No: 1, ForkVersion: 3}

	// ---- the state: funded accounts 0..2 (3 stays empty), name "abcdefghijkl" owned by account 0,
	// name "mnopqrstuvwx" created by account 0 and handed over to account 1
	sdb := state.NewChainStateDB()
	if err := sdb.Init("memorydb", t.TempDir(), nil, true, nil); err != nil {
		t.Fatal(err)
	}
	bs := sdb.NewBlockState(sdb.GetRoot())
	if scs0, err := statedb.GetSystemAccountState(bs.StateDB); err == nil {
		system.InitSystemParams(scs0, 3)
	}
	rich := new(big.Int).Mul(big.NewInt(1000000), big.NewInt(1e18))
	for i := 0; i < 3; i++ {
		st, err := state.GetAccountState(addrs[i], bs.StateDB)
		if err != nil {
			t.Fatal(err)
		}
		st.AddBalance(rich)
		if err := st.PutState(); err != nil {
			t.Fatal(err)
		}
	}
	nameTx := func(payload string) {
		sender, _ := state.GetAccountState(addrs[0], bs.StateDB)
		receiver, _ := state.GetAccountState([]byte(types.AergoName), bs.StateDB)
		scs, err := statedb.OpenContractState(receiver.IDNoPadding(), receiver.State(), bs.StateDB)
		if err != nil {
			t.Fatal(err)
		}
		body := &types.TxBody{Account: addrs[0], Recipient: []byte(types.AergoName), Payload: []byte(payload), Amount: big.NewInt(1e18).Bytes(), Type: types.TxType_GOVERNANCE}
		if _, err = name.ExecuteNameTx(bs, scs, body, sender, receiver, bi); err != nil {
			t.Fatalf("setup %s: %v", payload, err)
		}
		if err = statedb.StageContractState(scs, bs.StateDB); err != nil {
			t.Fatal(err)
		}
		sender.SetNonce(sender.Nonce() + 1)
		_ = sender.PutState()
		_ = receiver.PutState()
	}
	nameTx(`{"Name":"v1createName","Args":["abcdefghijkl"]}`)
	nameTx(`{"Name":"v1createName","Args":["mnopqrstuvwx"]}`)
	if err := bs.Update(); err != nil {
		t.Fatal(err)
	}
	if err := bs.Commit(); err != nil {
		t.Fatal(err)
	}
	bs = sdb.NewBlockState(bs.GetRoot())
	nameTx(`{"Name":"v1updateName","Args":["mnopqrstuvwx","` + types.EncodeAddress(addrs[1]) + `"]}`)
	if err := bs.Update(); err != nil {
		t.Fatal(err)
	}
	if err := bs.Commit(); err != nil {
		t.Fatal(err)
	}
	root := bs.GetRoot()

	newPool := func() *MemPool {
		serverCtx := config.NewServerContext("", "")
		cfg := serverCtx.GetDefaultConfig().(*config.Config)
		cfg.Hardfork = &config.HardforkConfig{V2: 0, V3: 0, V4: math.MaxUint64, V5: math.MaxUint64}
		mp := NewMemPoolService(cfg, nil)
		mp.testConfig = false
		mp.sdb = sdb
		mp.stateDB = sdb.OpenNewStateDB(root)
		mp.bestBlockInfo = &types.BlockHeaderInfo{No: 0}
		mp.acceptChainIdHash = cidh
		mp.bestChainIdHash = common.Hasher(cidBytes)
		mp.isPublic = false
		return mp
	}

	resolve := func(s string) []byte {
		if strings.HasPrefix(s, "@A") {
			if i, err := strconv.Atoi(s[2:]); err == nil && i >= 0 && i < nAcct {
				return addrs[i]
			}
		}
		if s == "" {
			return nil
		}
		return []byte(s)
	}

	// one operation under the watchdog
	guarded := func(f func() string) (res string, blocked bool) {
		done := make(chan string, 1)
		go func() {
			defer func() {
				if r := recover(); r != nil {
					done <- "PANIC: " + fmt.Sprint(r)
				}
			}()
			done <- f()
		}()
		select {
		case r := <-done:
			return r, false
		case <-time.After(opTimeout):
			return "TIMEOUT", true
		}
	}
	errStr := func(err error) string {
		if err != nil {
			return "ERR: " + err.Error()
		}
		return "OK"
	}

	nBlocked := 0
	blockNo := uint64(0)
	sc := bufio.NewScanner(in)
	sc.Buffer(make([]byte, 1<<20), 1<<26)
	for sc.Scan() {
		var s c14sSeq
		if err := json.Unmarshal(sc.Bytes(), &s); err != nil {
			fmt.Fprintln(w, `{"skip":true}`)
			continue
		}
		o := c14sObs{}
		if nBlocked >= maxBlocked {
			// enough evidence: do not spend the budget on further blocked pools
			for range s.Steps {
				o.Out = append(o.Out, "NOTRUN")
			}
			o.Pooled = -2
			b, _ := json.Marshal(o)
			fmt.Fprintln(w, string(b))
		w.Flush() // a fatal runtime error (unlock of an unlocked mutex) must not lose the earlier lines
			continue
		}
		mp := newPool()
		if scs0, err := statedb.GetSystemAccountState(mp.stateDB); err == nil {
			system.InitSystemParams(scs0, 3)
		}
		built := make([]types.Transaction, len(s.Steps))
		var prevHash []byte
		dead := false
		for si, st := range s.Steps {
			if dead {
				o.Out = append(o.Out, "SKIPPED")
				continue
			}
			var ttx types.Transaction
			if st.Tx != nil {
				if st.Tx.Ref > 0 && st.Tx.Ref-1 < si && built[st.Tx.Ref-1] != nil {
					ttx = built[st.Tx.Ref-1]
				} else {
					c := st.Tx
					acct := resolve(c.Acct)
					// the nonce is relative to the state nonce of the account the sender resolves to
					base := uint64(0)
					lookup := acct
					if len(acct) <= types.NameLength {
						if scs, err := statedb.GetNameAccountState(mp.stateDB); err == nil {
							if a := name.GetAddress(scs, acct); len(a) == types.AddressLength {
								lookup = a
							}
						}
					}
					if len(lookup) == types.AddressLength {
						if stt, err := mp.stateDB.GetAccountState(types.ToAccountID(lookup)); err == nil {
							base = stt.GetNonce()
						}
					}
					nonce := uint64(int64(base) + c.Nonce)
					amt, _ := new(big.Int).SetString(c.Amount, 10)
					if amt == nil {
						amt = new(big.Int)
					}
					payload, _ := base64.StdEncoding.DecodeString(c.Payload)
					for i, a := range addrs {
						payload = []byte(replaceAll(string(payload), fmt.Sprintf("@A%d", i), types.EncodeAddress(a)))
					}
					ch := cidh
					if c.Chain {
						ch = common.Hasher([]byte("another chain"))
					}
					tx := &types.Tx{Body: &types.TxBody{Nonce: nonce, Account: acct, Recipient: resolve(c.Rcpt), Amount: amt.Bytes(),
						Payload: payload, Type: types.TxType(c.Type), ChainIdHash: ch}}
					if !c.NoSig {
						_ = key.SignTx(tx, keys[((c.Key%nAcct)+nAcct)%nAcct])
						if c.BadSig && len(tx.Body.Sign) > 10 {
							tx.Body.Sign[10] ^= 0x55
						}
					}
					tx.Hash = tx.CalculateTxHash()
					ttx = types.NewTransaction(tx)
				}
				built[si] = ttx
			}
			var res string
			var blocked bool
			switch st.Op {
			case "verify":
				res, blocked = guarded(func() string { return errStr(mp.verifyTx(ttx)) })
			case "put":
				res, blocked = guarded(func() string { return errStr(mp.put(ttx)) })
			case "submit":
				res, blocked = guarded(func() string {
					if err := mp.verifyTx(ttx); err != nil {
						return "ERR: verify: " + err.Error()
					}
					return errStr(mp.put(ttx))
				})
			case "get":
				res, blocked = guarded(func() string {
					txs, err := mp.get(1 << 20)
					if err != nil {
						return "ERR: " + err.Error()
					}
					return fmt.Sprintf("OK %d", len(txs))
				})
			case "list":
				res, blocked = guarded(func() string {
					hs, _ := mp.listHash(1000)
					return fmt.Sprintf("OK %d", len(hs))
				})
			case "exist":
				res, blocked = guarded(func() string {
					var hs []types.TxHash
					if ttx != nil {
						hs = append(hs, ttx.GetHash())
					}
					n := 0
					for _, x := range mp.existEx(hs) {
						if x != nil {
							n++
						}
					}
					return fmt.Sprintf("OK %d", n)
				})
			case "remove":
				res, blocked = guarded(func() string { return errStr(mp.removeTx(ttx.GetTx())) })
			case "unconfirmed":
				res, blocked = guarded(func() string {
					u := mp.getUnconfirmed([]types.Address{addrs[0], addrs[1], addrs[2]}, true)
					return fmt.Sprintf("OK %d", len(u))
				})
			case "state":
				res, blocked = guarded(func() string {
					stt, err := mp.getAccountState(ttx.GetBody().GetAccount())
					if err != nil {
						return "ERR: " + err.Error()
					}
					return fmt.Sprintf("OK nonce=%d balance=%s", stt.GetNonce(), stt.GetBalanceBigInt().String())
				})
			case "evict":
				res, blocked = guarded(func() string { mp.evictTransactions(); return "OK" })
			case "block":
				// a block on top of the previous one, same state root, carrying the given transaction (if any)
				blockNo++
				blk := &types.Block{Header: &types.BlockHeader{ChainID: cidBytes, PrevBlockHash: prevHash, BlockNo: blockNo,
					BlocksRootHash: root, Timestamp: int64(blockNo)}, Body: &types.BlockBody{}}
				if ttx != nil {
					blk.Body.Txs = []*types.Tx{ttx.GetTx()}
				}
				prevHash = blk.BlockHash()
				res, blocked = guarded(func() string { return errStr(mp.removeOnBlockArrival(blk)) })
			default:
				res = "ERR: unknown op"
			}
			o.Out = append(o.Out, res)
			if blocked {
				dead = true
				nBlocked++
			}
		}
		if dead {
			o.Pooled = -1
		} else {
			o.Pooled = mp.length
		}
		b, _ := json.Marshal(o)
		fmt.Fprintln(w, string(b))
		w.Flush() // a fatal runtime error (unlock of an unlocked mutex) must not lose the earlier lines
	}
}

//go:build verif

package chain

// Exports for the C09 engine that lives in package dpos (real DPoS object behind the real
// ChainService): the network entry point of the chain service and read-only views of its
// chain DB, orphan pool and errBlocks cache.  Added through the build overlay only.
import (
	"strings"

	"github.com/aergoio/aergo/v2/consensus"
	"github.com/aergoio/aergo/v2/types"
)

func (cs *ChainService) VerifC09AddBlock(b *types.Block) error {
	return cs.addBlock(b, nil, types.PeerID("c09peer"))
}

func (cs *ChainService) VerifC09SetOrphanCap(n int) { cs.op = NewOrphanPool(n) }

// main chain, best block first; nil where the height index has no block
func (cs *ChainService) VerifC09Main() []*types.Block {
	best, _ := cs.GetBestBlock()
	var res []*types.Block
	for no := int64(best.BlockNo()); no >= 0; no-- {
		b, err := cs.getBlockByNo(uint64(no))
		if err != nil {
			res = append(res, nil)
		} else {
			res = append(res, b)
		}
	}
	return res
}

func (cs *ChainService) VerifC09Stored(hash []byte) bool {
	_, err := cs.cdb.getBlock(hash)
	return err == nil
}

func (cs *ChainService) VerifC09Errored(hash []byte) bool {
	return cs.errBlocks.Contains(types.ToHashID(hash))
}

// parked blocks in LRU order (oldest first; nil = key without cache entry) and the cache contents
func (cs *ChainService) VerifC09Orphans() (lru []*types.Block, cache []*types.Block) {
	for _, k := range cs.op.lru.Keys() {
		if ob, ok := cs.op.cache[k.(types.BlockID)]; ok {
			lru = append(lru, ob.Block)
		} else {
			lru = append(lru, nil)
		}
	}
	for _, ob := range cs.op.cache {
		cache = append(cache, ob.Block)
	}
	return
}

func VerifC09Class(err error) string {
	if err == nil {
		return "nil"
	}
	if err == ErrBlockCachedErrLRU {
		return "cached"
	}
	switch e := err.(type) {
	case *ErrBlock:
		if e.err == errBlockTimestamp {
			return "future"
		}
		return "errblock"
	case *ErrReorg:
		return "reorg"
	case *consensus.ErrorConsensus:
		if e.Msg == "bad block signature" {
			return "badsig"
		}
		return "invalid"
	}
	s := err.Error()
	if strings.HasPrefix(s, "invalid chain id") {
		return "chainid"
	}
	if strings.HasPrefix(s, "invalid orphan block no") {
		return "orphan_no"
	}
	return "exec"
}

//go:build verif

package dpos

// C09 chain-level engine, variant B: the REAL ChainService with the REAL DPoS object as its
// consensus: DPoS.VerifyTimestamp / VerifySign / IsBlockValid / IsConnectedBlock / NeedReorganization
// and the real Status.Update (LIB status, BP snapshots) are the code that runs.  The producer set
// is fixed (the chain DB handed to bp.NewCluster / NewStatus reports the scenario's producers as
// genesis BPs; no election below the bootstrap height) and scenarios keep every branch shorter
// than the confirmation quorum, so the LIB stays at the genesis block and the LIB rules are inert.
// A thin recording wrapper logs each call and delegates to the DPoS methods.  Same scenario and
// output format as zz_verif_c09chain_engine_test.go (package chain), compared with the same model.
import (
	"bufio"
	"crypto/rand"
	"encoding/json"
	"fmt"
	"os"
	"sort"
	"strings"
	"testing"
	"time"

	"github.com/aergoio/aergo-lib/log"
	"github.com/aergoio/aergo/v2/chain"
	"github.com/aergoio/aergo/v2/config"
	"github.com/aergoio/aergo/v2/consensus"
	"github.com/aergoio/aergo/v2/consensus/impl/dpos/bp"
	"github.com/aergoio/aergo/v2/consensus/impl/dpos/slot"
	"github.com/aergoio/aergo/v2/p2p/p2pkey"
	"github.com/aergoio/aergo/v2/state"
	"github.com/aergoio/aergo/v2/types"
	"github.com/libp2p/go-libp2p/core/crypto"
	"github.com/rs/zerolog"
)

type c09cBlockSpec struct {
	ID     int    `json:"id"`
	Parent int    `json:"parent"` // scenario id, 0 = genesis, -1 = unknown (random hash)
	Rel    string `json:"rel"`    // "base": slot = k0 + Slot (k0 multiple of 60 in the past); "now": slot = k_now + Slot
	Slot   int64  `json:"slot"`
	Off    int64  `json:"off"` // ms inside the slot, 1..iv*1000
	// signer: explicit key index, or (Key < 0) the member owning the slot in the producer set of
	// block Own (usually the parent) shifted by Delta positions
	Key     int    `json:"key"`
	Own     int    `json:"own"`
	Delta   int    `json:"delta"`
	Sig     string `json:"sig"`     // "ok" | "nosig" | "wrongkey:<k>" (signed by key k, header names Key) | "mut:<Field>"
	NoDelta int64  `json:"nodelta"` // header number = parent number + 1 + NoDelta
	Cid     bool   `json:"cid"`     // false: foreign chain id (signed over it)
	Exec    bool   `json:"exec"`    // false: wrong state root (signed over it)
}

type c09cScenario struct {
	Name   string             `json:"name"`
	Iv     int64              `json:"iv"`
	Cap    int                `json:"cap"`
	Blocks []c09cBlockSpec    `json:"blocks"`
	Cl     map[string][]int   `json:"cl"` // block id -> producer set (key indices) in force after Update(block)
	Genesis int               `json:"genesis"` // BP count at boot (Init argument of dpos.New); 0 = size of the producer set
	Ops    []json.RawMessage  `json:"ops"` // ["D", id] deliver, ["W"] wait for the next slot
}

type c09cBlockOut struct {
	ID      int   `json:"id"`
	Parent  int   `json:"parent"`
	Signer  int   `json:"signer"` // key index named in the header, -1 = unparsable key
	Ts      int64 `json:"ts"`
	No      int64 `json:"no"`
	SigReal bool  `json:"sig_real"` // block.VerifySign()
	CidReal bool  `json:"cid_real"` // block.ValidChildOf(genesis)
	Exec    bool  `json:"exec"`
}

type c09cObs struct {
	ID    int     `json:"id"`
	R     string  `json:"r"`
	Err   string  `json:"err"`
	Calls []int64 `json:"calls"`
	Main  []int   `json:"main"`
	Store []int   `json:"store"`
	Orph  []int   `json:"orph"`
	Cache []int   `json:"cache"` // op.cache contents (sorted), must agree with the lru order list
	Errs  []int   `json:"errs"`
	Upd   int     `json:"upd"`
	Now0  int64   `json:"now0"`
	Now1  int64   `json:"now1"`
}

// chain DB view handed to bp.NewCluster / NewStatus: the real one, except that the genesis info
// names the scenario's producers
type c09dCDB struct {
	consensus.ChainDB
	bps []string
}

func (c *c09dCDB) GetGenesisInfo() *types.Genesis { return &types.Genesis{BPs: c.bps} }

type c09cCons struct {
	*DPoS
	idOf  map[string]int
	calls []int64
	upd   int
}

func (c *c09cCons) id(b *types.Block) int64 {
	if v, ok := c.idOf[b.ID()]; ok {
		return int64(v)
	}
	return -2
}
func (c *c09cCons) VerifyTimestamp(block *types.Block) bool {
	c.calls = append(c.calls, 1, c.id(block))
	return c.DPoS.VerifyTimestamp(block)
}
func (c *c09cCons) VerifySign(block *types.Block) error {
	c.calls = append(c.calls, 5, c.id(block))
	return c.DPoS.VerifySign(block)
}
func (c *c09cCons) IsBlockValid(block *types.Block, bestBlock *types.Block) error {
	c.calls = append(c.calls, 6, c.id(block), int64(c.upd))
	return c.DPoS.IsBlockValid(block, bestBlock)
}
func (c *c09cCons) Update(block *types.Block) {
	i := int(c.id(block))
	c.calls = append(c.calls, 3, int64(i))
	c.upd = i
	c.DPoS.Update(block)
}
func (c *c09cCons) NeedReorganization(rootNo types.BlockNo) bool {
	c.calls = append(c.calls, 2, int64(rootNo))
	return c.DPoS.NeedReorganization(rootNo)
}
func (c *c09cCons) SetStateDB(sdb *state.ChainStateDB) {}

func c09cFlip(b []byte) []byte {
	c := append([]byte{}, b...)
	if len(c) == 0 {
		return []byte{1}
	}
	c[len(c)-1] ^= 1
	return c
}

const c09cKeys = 8

func TestVerifC09DposChainEngine(t *testing.T) {
	in, err := os.Open(os.Getenv("VERIF_IN"))
	if err != nil {
		t.Skip("no VERIF_IN")
	}
	defer in.Close()
	out, _ := os.Create(os.Getenv("VERIF_OUT"))
	defer out.Close()
	wr := bufio.NewWriter(out)
	defer wr.Flush()

	zerolog.SetGlobalLevel(zerolog.FatalLevel)
	privs := make([]crypto.PrivKey, c09cKeys)
	pubBytes := make([][]byte, c09cKeys)
	ids := make([]string, c09cKeys)
	keyOf := map[string]int{}
	// LOCAL IDENTITY: the node under test has a node key (p2pkey) like a running block producer, and
	// key 0 of the table is that key: blocks whose header names key 0 name the verifying node itself.
	p2pkey.InitNodeInfo(&config.BaseConfig{AuthDir: t.TempDir()}, &config.P2PConfig{}, "0.0.1-verif", log.NewLogger("verif.c09"))
	for i := range privs {
		p, pub, _ := crypto.GenerateKeyPair(crypto.Secp256k1, 256)
		if i == 0 {
			p, pub = p2pkey.NodePrivKey(), p2pkey.NodePubKey()
		}
		privs[i] = p
		pubBytes[i], _ = crypto.MarshalPublicKey(pub)
		id, _ := types.IDFromPublicKey(pub)
		ids[i] = types.IDB58Encode(id)
		keyOf[string(id)] = i
	}

	sc := bufio.NewScanner(in)
	sc.Buffer(make([]byte, 1<<20), 1<<28)
	for sc.Scan() {
		var s c09cScenario
		if err := json.Unmarshal(sc.Bytes(), &s); err != nil {
			t.Fatal(err)
		}
		var line []byte
		for attempt := 0; attempt < 4; attempt++ {
			var racy bool
			line, racy = c09cRun(t, &s, privs, pubBytes, ids, keyOf, attempt)
			if !racy {
				break
			}
		}
		wr.Write(line)
		wr.WriteString("\n")
	}
}

func c09cRun(t *testing.T, s *c09cScenario, privs []crypto.PrivKey, pubBytes [][]byte, ids []string,
	keyOf map[string]int, attempt int) ([]byte, bool) {
	slot.Init(s.Iv)
	ivms := s.Iv * 1000
	serverCtx := config.NewServerContext("", "")
	testCfg := serverCtx.GetDefaultConfig().(*config.Config)
	testCfg.DbType = "memorydb"
	testCfg.DataDir = t.TempDir()
	testCfg.UseTestnet = true
	cs := chain.NewChainService(testCfg)
	defer cs.Close()
	if s.Cap > 0 {
		cs.VerifC09SetOrphanCap(s.Cap)
	}
	var bps []string
	for _, m := range s.Cl["0"] {
		bps = append(bps, ids[m])
	}
	cdb := &c09dCDB{ChainDB: cs.CDB(), bps: bps}
	cl, err := bp.NewCluster(cdb)
	if err != nil {
		t.Fatal(err)
	}
	// dpos.New: Init(bpc.Size()) once at boot.  A scenario may say that the node booted with another
	// BP count than the set now in force (an election changed the size since).
	if s.Genesis > 0 {
		Init(uint16(s.Genesis))
	} else {
		Init(cl.Size())
	}
	slot.Init(s.Iv)
	d := &DPoS{Status: NewStatus(cl, cdb, cs.SDB(), 0), ChainDB: cdb, bpc: cl}
	cons := &c09cCons{DPoS: d, idOf: map[string]int{}}
	cs.SetChainConsensus(cons)
	genesis, _ := cs.CDB().GetBlockByNo(0)
	cons.idOf[genesis.ID()] = 0
	cons.upd = 0

	nowSlot := func() int64 {
		ms := time.Now().UnixNano() / 1000000
		return (ms + ivms - 1) / ivms // msToNextIndex
	}
	// keep away from the end of the current slot: the whole scenario runs inside one slot
	for {
		ms := time.Now().UnixNano() / 1000000
		if rem := ivms - (ms-1)%ivms; rem > 80 || ivms <= 100 {
			break
		}
		time.Sleep(20 * time.Millisecond)
	}
	kNow := nowSlot()
	k0 := (kNow/60 - 2) * 60
	blocks := map[int]*types.Block{0: genesis}
	outs := make([]c09cBlockOut, 0, len(s.Blocks))
	var allIDs []int
	allIDs = append(allIDs, 0)
	for _, sp := range s.Blocks {
		k := k0 + sp.Slot
		if sp.Rel == "now" {
			k = kNow + sp.Slot
		}
		ts := ((k-1)*ivms+sp.Off)*1000000 + int64(sp.ID)
		key := sp.Key
		if key < 0 {
			set := s.Cl[fmt.Sprint(sp.Own)]
			n := int64(len(set))
			key = set[int(((k%n)+int64(sp.Delta)%n+n)%n)]
		}
		var bi *types.BlockHeaderInfo
		if par, ok := blocks[sp.Parent]; ok && sp.Parent >= 0 {
			bi = types.NewBlockHeaderInfoFromPrevBlock(par, ts, types.DummyBlockVersionner(0))
		} else {
			h := make([]byte, 32)
			rand.Read(h)
			bi = &types.BlockHeaderInfo{No: 1, Ts: ts, PrevBlockHash: h, ChainId: genesis.GetHeader().GetChainID()}
			sp.Parent = -1
		}
		bi.No = uint64(int64(bi.No) + sp.NoDelta)
		root := genesis.GetHeader().GetBlocksRootHash()
		if !sp.Exec {
			root = []byte("bad-state-root-bad-state-root-xx")
		}
		b := types.NewBlock(bi, root, nil, nil, nil, nil)
		if !sp.Cid {
			b.Header.ChainID = append([]byte{}, b.Header.ChainID...)
			b.Header.ChainID[len(b.Header.ChainID)-1] ^= 0x55
		}
		signKey := key
		if strings.HasPrefix(sp.Sig, "wrongkey:") {
			fmt.Sscanf(sp.Sig, "wrongkey:%d", &signKey)
		}
		if err := b.Sign(privs[signKey]); err != nil {
			t.Fatal(err)
		}
		o := c09cBlockOut{ID: sp.ID, Parent: sp.Parent, Signer: key, Exec: sp.Exec}
		h := b.Header
		switch {
		case sp.Sig == "nosig":
			h.Sign = nil
		case strings.HasPrefix(sp.Sig, "wrongkey:"):
			h.PubKey = pubBytes[key]
		case strings.HasPrefix(sp.Sig, "mut:"):
			switch sp.Sig[4:] {
			case "ChainID":
				h.ChainID = append([]byte{9}, h.ChainID...)
			case "PrevBlockHash":
				h.PrevBlockHash = c09cFlip(h.PrevBlockHash)
				o.Parent = -1
			case "BlockNo":
				h.BlockNo++
			case "Timestamp":
				h.Timestamp++
			case "BlocksRootHash":
				h.BlocksRootHash = c09cFlip(h.BlocksRootHash)
				o.Exec = false
			case "TxsRootHash":
				h.TxsRootHash = c09cFlip(h.TxsRootHash)
				o.Exec = false
			case "ReceiptsRootHash":
				h.ReceiptsRootHash = c09cFlip(h.ReceiptsRootHash)
				o.Exec = false
			case "Confirms":
				h.Confirms++
			case "PubKey":
				h.PubKey = c09cFlip(h.PubKey)
			case "CoinbaseAccount":
				h.CoinbaseAccount = c09cFlip(h.CoinbaseAccount)
			case "Consensus":
				h.Consensus = append(h.Consensus, 1)
			case "Sign":
				h.Sign = c09cFlip(h.Sign)
			}
		}
		b.Hash = nil
		b.BlockHash()
		if id, err := b.BPID(); err == nil {
			if k, ok := keyOf[string(id)]; ok {
				o.Signer = k
			} else {
				o.Signer = -1
			}
		} else {
			o.Signer = -1
		}
		o.Ts = h.Timestamp
		o.No = int64(h.BlockNo)
		ok, verr := b.VerifySign()
		o.SigReal = ok && verr == nil
		o.CidReal = b.ValidChildOf(genesis)
		if _, dup := cons.idOf[b.ID()]; dup {
			t.Fatalf("scenario %s: two blocks with the same hash", s.Name)
		}
		blocks[sp.ID] = b
		cons.idOf[b.ID()] = sp.ID
		outs = append(outs, o)
		allIDs = append(allIDs, sp.ID)
	}
	sort.Ints(allIDs)

	var obs []c09cObs
	racy := false
	for _, raw := range s.Ops {
		var op []json.RawMessage
		json.Unmarshal(raw, &op)
		var kind string
		json.Unmarshal(op[0], &kind)
		switch kind {
		case "W":
			// sleep into the first part of the next slot
			ms := time.Now().UnixNano() / 1000000
			rem := ivms - (ms-1)%ivms
			time.Sleep(time.Duration(rem+30) * time.Millisecond)
		case "D":
			var bid int
			json.Unmarshal(op[1], &bid)
			cons.calls = nil
			o := c09cObs{ID: bid, Now0: time.Now().UnixNano()}
			e := cs.VerifC09AddBlock(blocks[bid])
			o.Now1 = time.Now().UnixNano()
			if (o.Now0/1000000+ivms-1)/ivms != (o.Now1/1000000+ivms-1)/ivms {
				racy = true
			}
			o.R = chain.VerifC09Class(e)
			if e != nil {
				o.Err = e.Error()
			}
			o.Calls = append([]int64{}, cons.calls...)
			for _, b := range cs.VerifC09Main() {
				if b == nil {
					o.Main = append(o.Main, -3)
				} else {
					o.Main = append(o.Main, int(cons.id(b)))
				}
			}
			o.Store, o.Errs, o.Orph, o.Cache = []int{}, []int{}, []int{}, []int{}
			for _, i := range allIDs {
				if cs.VerifC09Stored(blocks[i].BlockHash()) {
					o.Store = append(o.Store, i)
				}
				if cs.VerifC09Errored(blocks[i].BlockHash()) {
					o.Errs = append(o.Errs, i)
				}
			}
			lru, cache := cs.VerifC09Orphans()
			for _, b := range lru {
				if b == nil {
					o.Orph = append(o.Orph, -4)
				} else {
					o.Orph = append(o.Orph, int(cons.id(b)))
				}
			}
			for _, b := range cache {
				o.Cache = append(o.Cache, int(cons.id(b)))
			}
			sort.Ints(o.Cache)
			o.Upd = cons.upd
			obs = append(obs, o)
		}
	}
	libNo := d.libNo()
	line, _ := json.Marshal(map[string]interface{}{"lib": libNo, "name": s.Name, "k0": k0, "know": kNow, "blocks": outs, "obs": obs,
		"racy": racy, "attempt": attempt})
	return line, racy
}

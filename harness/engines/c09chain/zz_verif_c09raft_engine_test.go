//go:build verif

package raftv2

// C09, other consensus types: what THIS consensus implementation's VerifyTimestamp / VerifySign /
// IsBlockValid accept, run on real signed blocks.  Input lines: {"sig":"ok"|"nosig"|"wrongkey"|
// "mut:<Field>"|"badkey","future":slots ahead of the wall clock}; output {"ts_ok","sign_ok","valid",
// "sig_real","key_parses"}.
import (
	"bufio"
	"encoding/json"
	"fmt"
	"os"
	"testing"
	"time"

	"github.com/aergoio/aergo/v2/types"
	"github.com/libp2p/go-libp2p/core/crypto"
)

type c09oCase struct {
	Sig    string `json:"sig"`
	Future int64  `json:"future"`
}

func TestVerifC09OtherEngine(t *testing.T) {
	in, err := os.Open(os.Getenv("VERIF_IN"))
	if err != nil {
		t.Skip("no VERIF_IN")
	}
	defer in.Close()
	out, _ := os.Create(os.Getenv("VERIF_OUT"))
	defer out.Close()
	w := bufio.NewWriter(out)
	defer w.Flush()
	k1, _, _ := crypto.GenerateKeyPair(crypto.Secp256k1, 256)
	k2, p2, _ := crypto.GenerateKeyPair(crypto.Secp256k1, 256)
	_ = k2
	p2b, _ := crypto.MarshalPublicKey(p2)
	cons := &BlockFactory{}
	sc := bufio.NewScanner(in)
	for sc.Scan() {
		var c c09oCase
		if err := json.Unmarshal(sc.Bytes(), &c); err != nil {
			t.Fatal(err)
		}
		ts := time.Now().UnixNano() + c.Future*int64(time.Second)
		bi := &types.BlockHeaderInfo{No: 7, Ts: ts, PrevBlockHash: make([]byte, 32), ChainId: []byte{1, 2, 3}}
		blk := types.NewBlock(bi, make([]byte, 32), &types.Receipts{}, nil, []byte("coinbase"), nil)
		if err := blk.Sign(k1); err != nil {
			t.Fatal(err)
		}
		h := blk.Header
		switch c.Sig {
		case "nosig":
			h.Sign = nil
		case "wrongkey":
			h.PubKey = p2b
		case "badkey":
			h.PubKey = []byte{1, 2, 3}
		case "mut:Timestamp":
			h.Timestamp++
		case "mut:BlockNo":
			h.BlockNo++
		case "mut:CoinbaseAccount":
			h.CoinbaseAccount = []byte("other")
		case "mut:Sign":
			h.Sign[len(h.Sign)-1] ^= 1
		}
		blk.Hash = nil
		ok, verr := blk.VerifySign()
		_, kerr := blk.BPID()
		o := map[string]bool{
			"ts_ok":      cons.VerifyTimestamp(blk),
			"sign_ok":    cons.VerifySign(blk) == nil,
			"valid":      cons.IsBlockValid(blk, nil) == nil,
			"sig_real":   ok && verr == nil,
			"key_parses": kerr == nil,
		}
		b, _ := json.Marshal(o)
		fmt.Fprintln(w, string(b))
	}
}

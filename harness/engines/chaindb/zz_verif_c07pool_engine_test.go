//go:build verif

package mempool

// C07 pool engine (owned by g9-chaindb).  A REAL MemPool (testConfig = false) over a real
// in-memory ChainStateDB is driven with exactly the message sequence the real ChainService
// emitted for a case of the `chaindb` engine: per arrival the MemPoolDel notifications
// (removeOnBlockArrival, in order) followed by the MemPoolPut re-submissions of
// swapTxMapping (put).  package mempool imports package chain, so the pool cannot be linked
// into the in-package chain engine (import cycle); the chain engine's recorded trace is
// replayed here instead.  The blocks are rebuilt synthetically (same tree, same senders /
// nonces, state = nonces along the path), the pool is pre-loaded with every transaction of
// every branch plus higher-nonce follow-ups.  After every arrival the engine dumps the pool
// and evaluates, on the implementation:
//   Q1 no pooled tx has nonce <= the sender's nonce in the best state;
//   Q2 for every sender and every nonce above the state nonce for which the universe has a
//      tx, the pool holds a tx of that sender and nonce (in particular every tx that was only
//      on the abandoned branch is back in the pool after a reorganisation);
//   Q3 get() hands out, per sender, the gap-free run state+1, state+2, ... that the pool holds.
import (
	"bufio"
	"encoding/json"
	"fmt"
	"math/big"
	"os"
	"sort"
	"testing"

	"github.com/aergoio/aergo-lib/db"
	crypto "github.com/aergoio/aergo/v2/account/key/crypto"
	"github.com/aergoio/aergo/v2/config"
	"github.com/aergoio/aergo/v2/state"
	"github.com/aergoio/aergo/v2/types"
	"github.com/btcsuite/btcd/btcec/v2"
	"github.com/rs/zerolog"
)

type c07Tx struct {
	From  int    `json:"from"`
	To    int    `json:"to"`
	Amt   int64  `json:"amt"`
	Nonce uint64 `json:"nonce"`
}

type c07Blk struct {
	Name   string  `json:"name"`
	Parent string  `json:"parent"`
	Txs    []c07Tx `json:"txs"`
}

type c07Step struct {
	Dels []string `json:"dels"`
	Puts []c07Tx  `json:"puts"`
}

type c07Case struct {
	ID      string    `json:"id"`
	NAccts  int       `json:"naccts"`
	Blocks  []c07Blk  `json:"blocks"`
	Preload []c07Tx   `json:"preload"`
	Steps   []c07Step `json:"steps"`
}

type c07StepOut struct {
	PutErrs []string         `json:"puterrs"`
	State   []uint64         `json:"state"`
	Pool    map[int][]uint64 `json:"pool"`
	Get     map[int][]uint64 `json:"get"`
	Pred    []string         `json:"pred"`
}

func c07key(t c07Tx) string { return fmt.Sprintf("%d/%d/%d/%d", t.From, t.To, t.Amt, t.Nonce) }

func TestVerifC07PoolEngine(t *testing.T) {
	in, err := os.Open(os.Getenv("VERIF_IN"))
	if err != nil {
		t.Skip("no VERIF_IN")
	}
	defer in.Close()
	out, _ := os.Create(os.Getenv("VERIF_OUT"))
	defer out.Close()
	w := bufio.NewWriter(out)
	defer w.Flush()
	zerolog.SetGlobalLevel(zerolog.Disabled)

	const maxAcc = 8
	addrs := make([][]byte, maxAcc)
	for i := range addrs {
		k, _ := btcec.NewPrivateKey()
		addrs[i] = crypto.GenerateAddress(k.PubKey().ToECDSA())
	}
	cid := types.NewChainID()
	cid.PublicNet = true
	chainID, _ := cid.Bytes()

	sc := bufio.NewScanner(in)
	sc.Buffer(make([]byte, 1<<20), 1<<26)
	for sc.Scan() {
		var c c07Case
		if err := json.Unmarshal(sc.Bytes(), &c); err != nil {
			t.Fatal(err)
		}
		res := map[string]interface{}{"id": c.ID}
		func() {
			defer func() {
				if r := recover(); r != nil {
					res["panic"] = fmt.Sprint(r)
				}
			}()
			sdb := state.NewChainStateDB()
			if err := sdb.Init(string(db.MemoryImpl), t.TempDir(), nil, true, nil); err != nil {
				panic(err)
			}
			cfg := config.NewServerContext("", "").GetDefaultConfig().(*config.Config)
			mp := NewMemPoolService(cfg, nil)
			mp.sdb = sdb

			mk := func(x c07Tx) types.Transaction {
				tx := &types.Tx{Body: &types.TxBody{Nonce: x.Nonce, Account: addrs[x.From], Recipient: addrs[x.To],
					Amount: big.NewInt(x.Amt).Bytes()}}
				tx.Hash = tx.CalculateTxHash()
				return types.NewTransaction(tx)
			}
			commit := func(root []byte, nonces []uint64) []byte {
				bs := sdb.NewBlockState(root)
				for a := 0; a < c.NAccts; a++ {
					as, err := state.GetAccountState(addrs[a], bs.StateDB)
					if err != nil {
						panic(err)
					}
					if as.Balance().Sign() == 0 {
						as.AddBalance(new(big.Int).Exp(big.NewInt(10), big.NewInt(24), nil))
					}
					as.SetNonce(nonces[a])
					if err := as.PutState(); err != nil {
						panic(err)
					}
				}
				if err := bs.Update(); err != nil {
					panic(err)
				}
				if err := bs.Commit(); err != nil {
					panic(err)
				}
				return bs.GetRoot()
			}
			// synthetic chain
			type sblk struct {
				blk    *types.Block
				nonces []uint64
				no     uint64
			}
			blocks := map[string]*sblk{}
			zero := make([]uint64, c.NAccts)
			rootG := commit(nil, zero)
			g := types.NewBlock(&types.BlockHeaderInfo{No: 10, Ts: 1000, ChainId: chainID}, rootG, nil, nil, nil, nil)
			g.BlockHash()
			blocks["G"] = &sblk{g, zero, 10}
			universe := map[string]c07Tx{}
			for i, b := range c.Blocks {
				p := blocks[b.Parent]
				if p == nil {
					panic("unknown parent " + b.Parent)
				}
				nonces := append([]uint64{}, p.nonces...)
				raw := []*types.Tx{}
				for _, x := range b.Txs {
					universe[c07key(x)] = x
					if x.Nonce > nonces[x.From] {
						nonces[x.From] = x.Nonce
					}
					raw = append(raw, mk(x).GetTx())
				}
				root := commit(p.blk.GetHeader().GetBlocksRootHash(), nonces)
				bi := &types.BlockHeaderInfo{No: p.no + 1, Ts: 1001 + int64(i), PrevBlockHash: p.blk.BlockHash(), ChainId: chainID}
				blk := types.NewBlock(bi, root, nil, raw, nil, nil)
				blk.BlockHash()
				blocks[b.Name] = &sblk{blk, nonces, p.no + 1}
			}
			for _, x := range c.Preload {
				universe[c07key(x)] = x
			}
			mp.setStateDB(g)
			// pre-load: every transaction of every branch and the follow-ups, in nonce order
			all := make([]c07Tx, 0, len(universe))
			for _, x := range universe {
				all = append(all, x)
			}
			sort.Slice(all, func(i, j int) bool {
				if all[i].Nonce != all[j].Nonce {
					return all[i].Nonce < all[j].Nonce
				}
				return c07key(all[i]) < c07key(all[j])
			})
			pre := []string{}
			for _, x := range all {
				if err := mp.put(mk(x)); err != nil {
					pre = append(pre, c07key(x)+": "+err.Error())
				}
			}
			res["preload_errs"] = pre

			cur := blocks["G"]
			steps := []c07StepOut{}
			for _, st := range c.Steps {
				so := c07StepOut{PutErrs: []string{}, Pool: map[int][]uint64{}, Get: map[int][]uint64{}, Pred: []string{}}
				for _, nm := range st.Dels {
					b := blocks[nm]
					if b == nil {
						panic("unknown block " + nm)
					}
					if err := mp.removeOnBlockArrival(b.blk); err != nil {
						so.PutErrs = append(so.PutErrs, "del "+nm+": "+err.Error())
					}
					cur = b
				}
				for _, x := range st.Puts {
					if err := mp.put(mk(x)); err != nil {
						so.PutErrs = append(so.PutErrs, c07key(x)+": "+err.Error())
					}
				}
				so.State = append([]uint64{}, cur.nonces...)
				// pool content per account
				acc := func(a []byte) int {
					for i := range addrs {
						if string(addrs[i]) == string(a) {
							return i
						}
					}
					return -1
				}
				for _, l := range mp.pool {
					for _, tx := range l.list {
						a := acc(tx.GetBody().GetAccount())
						so.Pool[a] = append(so.Pool[a], tx.GetBody().GetNonce())
					}
				}
				for a := range so.Pool {
					sort.Slice(so.Pool[a], func(i, j int) bool { return so.Pool[a][i] < so.Pool[a][j] })
				}
				got, gerr := mp.get(maxBlockBodySize)
				if gerr != nil {
					so.PutErrs = append(so.PutErrs, "get: "+gerr.Error())
				}
				for _, tx := range got {
					a := acc(tx.GetBody().GetAccount())
					so.Get[a] = append(so.Get[a], tx.GetBody().GetNonce())
				}
				// predicates
				have := func(a int, n uint64) bool {
					for _, x := range so.Pool[a] {
						if x == n {
							return true
						}
					}
					return false
				}
				for a := 0; a < c.NAccts; a++ {
					s := cur.nonces[a]
					for _, n := range so.Pool[a] {
						if n <= s {
							so.Pred = append(so.Pred, fmt.Sprintf("Q1 pool holds tx of account %d with nonce %d <= state nonce %d", a, n, s))
						}
					}
					want := map[uint64]bool{}
					for _, x := range universe {
						if x.From == a && x.Nonce > s {
							want[x.Nonce] = true
						}
					}
					ns := []uint64{}
					for n := range want {
						ns = append(ns, n)
					}
					sort.Slice(ns, func(i, j int) bool { return ns[i] < ns[j] })
					for _, n := range ns {
						if !have(a, n) {
							so.Pred = append(so.Pred, fmt.Sprintf("Q2 tx of account %d nonce %d (state nonce %d) is not in the pool", a, n, s))
						}
					}
					// Q3: get returns the gap-free run from s+1 that the pool holds
					run := []uint64{}
					for n := s + 1; have(a, n); n++ {
						run = append(run, n)
					}
					gl := so.Get[a]
					if len(gl) != len(run) {
						so.Pred = append(so.Pred, fmt.Sprintf("Q3 get hands out nonces %v for account %d, pool run from state nonce %d is %v", gl, a, s, run))
					} else {
						for i := range run {
							if gl[i] != run[i] {
								so.Pred = append(so.Pred, fmt.Sprintf("Q3 get hands out nonces %v for account %d, want %v", gl, a, run))
								break
							}
						}
					}
				}
				steps = append(steps, so)
			}
			res["steps"] = steps
		}()
		b, _ := json.Marshal(res)
		w.Write(b)
		w.WriteString("\n")
	}
}

//go:build verif

package chain

// chaindb engine (C05/C07): reads JSON cases (block trees + arrival orders) from $VERIF_IN,
// produces real signed-transfer blocks with the real executor on a factory node, feeds them to
// a fresh node through the real ChainService.addBlock and dumps, after every arrival, the
// observables of the node plus a direct invariant predicate.  One JSON line per case is
// written to $VERIF_OUT.  mode "crash" (see zz_verif_journal_test.go) replays every prefix of
// the write journal of both stores through a real restart (NewChainService + Recover).
//
// Harness interventions on the node under test (everything else is the real code):
//   * the genesis of every node is the factory's genesis: the node is started on a data
//     directory holding the factory's post-genesis memorydb files (types.GetTestGenesis stamps
//     the genesis block with time.Now, so two fresh nodes never share a genesis otherwise);
//   * consensus stub / hub with recording fake components;
//   * the tx sign verifier is no longer drained by the engine after an addBlock (the repaired
//     BlockValidator.ValidateBody drains a stale result itself); only stop() still waits for a
//     pending result so that the verifier channels are not closed under a running collector;
//   * "rawtx" is the raw tx index entry (TxIdx decoded from the store), not cdb.getTx, so that a
//     dangling index entry stays visible; "heights" is capped at height vHeightCap (the raw
//     key scan reports every height key above best.no whatever its value);
//   * extra output keys: final.accounts, ref.dump/errs, p7, and in crash mode unit_best, bests,
//     and per k sdbroot/old_tip/new_tip/legit_strict/legit_mid/replay_errs/replay_best;
//   * every hardfork is enabled from block 0 (own HardforkConfig{}), so that every tx pays a gas
//     fee that depends on the gas price in force; types.InitGovernance("dpos") after every node
//     start (the test genesis is an sbp chain, system txs only validate on dpos chains);
//   * the in-memory system parameters of contract/system are one package-level variable: every
//     node (factory, node under test, reference, recovered nodes) owns a snapshot that is swapped
//     in when the node becomes the active one (vEngine.use; shim zz_verif_sysparams_shim.go).  A
//     snapshot is never rebuilt from the state DB.  vConsensus.Update does what dpos.Status.Update
//     does with them (CommitParams(true) for a child of its best block, else CommitParams(false));
//   * nonce rule: 1 + number of SUCCESSFULLY executed txs of the sender on the path
//     G..parent and earlier in the block (identical to the plain count whenever all txs are
//     valid; a tx failing through an explicit "nonce" does not shift later nonces).

import (
	"bufio"
	"bytes"
	"context"
	"crypto/sha256"
	encgob "encoding/gob"
	"encoding/hex"
	"encoding/json"
	"errors"
	"fmt"
	"io"
	"math/big"
	"os"
	"path/filepath"
	"sort"
	"testing"
	"time"

	"github.com/aergoio/aergo-actor/actor"
	"github.com/aergoio/aergo/v2/account/key"
	keycrypto "github.com/aergoio/aergo/v2/account/key/crypto"
	"github.com/aergoio/aergo/v2/config"
	"github.com/aergoio/aergo/v2/consensus"
	"github.com/aergoio/aergo/v2/contract"
	"github.com/aergoio/aergo/v2/contract/system"
	"github.com/aergoio/aergo/v2/internal/enc/proto"
	"github.com/aergoio/aergo/v2/pkg/component"
	"github.com/aergoio/aergo/v2/state"
	"github.com/aergoio/aergo/v2/state/statedb"
	"github.com/aergoio/aergo/v2/types"
	"github.com/aergoio/aergo/v2/types/dbkey"
	"github.com/aergoio/aergo/v2/types/message"
	"github.com/btcsuite/btcd/btcec/v2"
	"github.com/rs/zerolog"
)

// ---------------------------------------------------------------------------- case format

type vTxSpec struct {
	From  int     `json:"from"`
	To    int     `json:"to"`
	Amt   int64   `json:"amt"`
	Nonce *uint64 `json:"nonce"`
}

type vBlockSpec struct {
	Name   string    `json:"name"`
	Parent string    `json:"parent"`
	Txs    []vTxSpec `json:"txs"`
	Bad    string    `json:"bad"`
	No     *uint64   `json:"no"`
	Forge  bool      `json:"forge"`
	Gov    int       `json:"gov"` // != 0: v1stake + v1voteDAO GASPRICE = default price + gov Gaer from a voter of its own
}

type vCase struct {
	ID        string       `json:"id"`
	Naccts    int          `json:"naccts"`
	Blocks    []vBlockSpec `json:"blocks"`
	Arrivals  []string     `json:"arrivals"`
	Lib       []uint64     `json:"lib"`
	OrphanCap int          `json:"orphan_cap"`
	Mode      string       `json:"mode"`
	Winner    string       `json:"winner"`
	Partial   string       `json:"partial"` // crash mode: "none" | "ends" | "all" (cuts inside a bulk)
	Recrash   string       `json:"recrash"` // crash mode: "none" | "units" | "ops" (crash during recovery)
	Pre       []string     `json:"pre"`     // per arrival: "ok" | "ts" (VerifyTimestamp false) | "sign" (VerifySign error)
	Own       []bool       `json:"own"`     // per arrival: deliver as a block produced by the node itself (bstate != nil)
	HasWal    bool         `json:"haswal"`  // consensus reports HasWAL() and uses the raft IsConnectedBlock
	Wal       []bool       `json:"wal"`     // per arrival: pre-write the block body like ChainDB.WriteRaftEntry
	Probe     string       `json:"probe"`   // "all" (default) | "none": deliver the probe child of the best block
}

const vHeightCap = 64 // "heights" lists 0..min(maxNo+2, vHeightCap); the raw scan covers the rest

func hx(b []byte) string { return hex.EncodeToString(b) }

// ---------------------------------------------------------------------------- stubs

// vConsensus: StubConsensus of chainservice_test.go except IsConnectedBlock (as sbp/dpos),
// NeedReorganization (rootNo >= lib) and Save (no-op).
type vConsensus struct {
	cdb      *ChainDB
	lib      types.BlockNo
	failTs   bool // scripted per arrival ("pre":"ts")
	failSign bool // scripted per arrival ("pre":"sign")
	hasWAL   bool // case field "haswal"
	best     *types.Block
}

func (c *vConsensus) SetStateDB(sdb *state.ChainStateDB)        {}
func (c *vConsensus) IsTransactionValid(tx *types.Tx) bool      { return true }
func (c *vConsensus) VerifyTimestamp(block *types.Block) bool   { return !c.failTs }
func (c *vConsensus) VerifySign(block *types.Block) error {
	if c.failSign {
		return errors.New("verif: scripted block sign failure")
	}
	return nil
}
func (c *vConsensus) IsBlockValid(b, best *types.Block) error   { return nil }

// Update does what dpos.Status.Update does with the in-memory system parameters: a parameter voted
// in a block becomes active when that block is connected on top of the status' best block, and a
// pending value is dropped when the status is moved anywhere else.
func (c *vConsensus) Update(block *types.Block) {
	if c.best != nil && block.PrevID() == c.best.ID() {
		system.CommitParams(true)
	} else {
		system.CommitParams(false)
	}
	c.best = block
}
func (c *vConsensus) Save(tx consensus.TxWriter) error          { return nil }
func (c *vConsensus) NeedReorganization(r types.BlockNo) bool   { return r >= c.lib }
func (c *vConsensus) Info() string                              { return "" }
func (c *vConsensus) GetType() consensus.ConsensusType          { return consensus.ConsensusSBP }
func (c *vConsensus) NeedNotify() bool                          { return true }
func (c *vConsensus) HasWAL() bool                              { return c.hasWAL }
func (c *vConsensus) IsForkEnable() bool                        { return true }
func (c *vConsensus) IsConnectedBlock(block *types.Block) bool {
	if c.hasWAL { // raftv2 BlockFactory.IsConnectedBlock
		saved, err := c.cdb.GetBlockByNo(block.GetHeader().GetBlockNo())
		return err == nil && bytes.Equal(saved.BlockHash(), block.BlockHash())
	}
	_, err := c.cdb.GetBlock(block.BlockHash())
	return err == nil
}
func (c *vConsensus) MakeConfChangeProposal(req *types.MembershipChange) (*consensus.ConfChangePropose, error) {
	return nil, consensus.ErrNotSupportedMethod
}

// vRecorder collects the hub messages of one arrival.
type vRecorder struct {
	put  []string
	del  []string
	sync int
}

func (r *vRecorder) reset() { r.put, r.del, r.sync = nil, nil, 0 }

func (r *vRecorder) on(m interface{}) {
	switch msg := m.(type) {
	case *message.MemPoolPut:
		r.put = append(r.put, hx(msg.Tx.GetHash()))
	case *message.MemPoolDel:
		r.del = append(r.del, hx(msg.Block.BlockHash()))
	case *message.SyncStart:
		r.sync++
	}
}

// vFakeComp is a hub component that only records.
type vFakeComp struct {
	component.IComponent
	name string
	rec  *vRecorder
}

func (f *vFakeComp) GetName() string                          { return f.name }
func (f *vFakeComp) SetHub(hub *component.ComponentHub)       {}
func (f *vFakeComp) Tell(m interface{})                       { f.rec.on(m) }
func (f *vFakeComp) Request(m interface{}, sender *actor.PID) { f.rec.on(m) }
func (f *vFakeComp) RequestFuture(m interface{}, timeout time.Duration, tip string) *actor.Future {
	f.rec.on(m)
	fut := actor.NewFuture(timeout)
	fut.PID().Tell(component.ErrHubUnregistered)
	return fut
}

// ---------------------------------------------------------------------------- engine

type vAcct struct {
	k    *btcec.PrivateKey
	addr []byte
}

type vTxKey struct {
	from, to int
	amt      int64
	nonce    uint64
}

type vEngine struct {
	tmp       string
	baseDir   string
	baseCfg   *config.Config
	factory   *ChainService
	genesis   *types.Block
	baseChain map[string][]byte
	baseState map[string][]byte
	accts     []*vAcct
	txCache   map[vTxKey]*types.Tx
	badSig    map[vTxKey]*types.Tx
	seq       int
	progress  string
	cidHash   []byte
	fnode     *vNode // the factory as a parameter owner
	active    *vNode // owner of the system parameters currently installed in contract/system
	named     map[string]*vAcct
	govCache  map[string][]*types.Tx
	basePrice *big.Int
}

type vNode struct {
	cs     *ChainService
	cc     *vConsensus
	rec    *vRecorder
	params *system.VerifParams // in-memory system parameters of this node while it is not active
}

// use makes n the active owner of the package-level system parameters.
func (e *vEngine) use(n *vNode) {
	if n == nil || e.active == n {
		return
	}
	if e.active != nil {
		e.active.params = system.VerifSnapshotParams()
	}
	if n.params != nil {
		system.VerifRestoreParams(n.params)
	}
	e.active = n
}

func vSysState(sdb *state.ChainStateDB, root []byte) (*statedb.ContractState, error) {
	return statedb.GetSystemAccountState(sdb.OpenNewStateDB(root))
}

// vStateParams: canonical string of the parameters stored in the state with the given root.
func vStateParams(sdb *state.ChainStateDB, root []byte) (s string) {
	defer func() {
		if r := recover(); r != nil {
			s = fmt.Sprintf("?panic: %v", r)
		}
	}()
	scs, err := vSysState(sdb, root)
	if err != nil {
		return "?" + err.Error()
	}
	return system.VerifParamsFromState(scs)
}

func vWriteSnapshot(dir string, chain, st map[string][]byte) error {
	for sub, m := range map[string]map[string][]byte{dbkey.ChainDBName: chain, "state": st} {
		d := filepath.Join(dir, sub)
		if err := os.MkdirAll(d, 0o755); err != nil {
			return err
		}
		var buf bytes.Buffer
		if err := encgob.NewEncoder(&buf).Encode(m); err != nil {
			return err
		}
		if err := os.WriteFile(filepath.Join(d, "database"), buf.Bytes(), 0o644); err != nil {
			return err
		}
	}
	return nil
}

func newVEngine() (*vEngine, error) {
	base := os.Getenv("VERIF_TMP")
	if base == "" {
		if st, err := os.Stat("/dev/shm"); err == nil && st.IsDir() {
			base = "/dev/shm"
		}
	}
	// an engine killed by os.Exit (RecoverExit) or a timeout leaves its directory behind
	if old, _ := filepath.Glob(filepath.Join(base, "verif-chaindb-*")); base != "" {
		for _, d := range old {
			if st, err := os.Stat(d); err == nil && time.Since(st.ModTime()) > 6*time.Hour {
				os.RemoveAll(d)
			}
		}
	}
	tmp, err := os.MkdirTemp(base, "verif-chaindb-")
	if err != nil {
		return nil, err
	}
	e := &vEngine{tmp: tmp, baseDir: filepath.Join(tmp, "base"), txCache: map[vTxKey]*types.Tx{}, badSig: map[vTxKey]*types.Tx{},
		named: map[string]*vAcct{}, govCache: map[string][]*types.Tx{}}
	serverCtx := config.NewServerContext("", "")
	cfg := serverCtx.GetDefaultConfig().(*config.Config)
	cfg.DbType = "memorydb"
	cfg.EnableTestmode = true
	cfg.Blockchain.NumWorkers = 1
	cfg.Blockchain.VerifierCount = 2
	// every hardfork enabled from the first block, in a copy of our own (the default is a shared object)
	cfg.Hardfork = &config.HardforkConfig{}
	e.baseCfg = cfg
	testCfg = cfg
	dfltUseMempool = false

	fcfg := *cfg
	fcfg.DataDir = filepath.Join(tmp, "factory")
	if err := os.MkdirAll(fcfg.DataDir, 0o755); err != nil {
		return nil, err
	}
	e.factory = NewChainService(&fcfg)
	g, err := e.factory.getBlockByNo(0)
	if err != nil {
		return nil, err
	}
	fcc := &vConsensus{cdb: e.factory.cdb, best: g}
	e.factory.SetChainConsensus(fcc)
	types.InitGovernance("dpos", true)
	e.genesis = g
	e.fnode = &vNode{cs: e.factory, cc: fcc, rec: &vRecorder{}}
	e.active = e.fnode
	e.cidHash = types.NewBlockHeaderInfoFromPrevBlock(g, 0, cfg.Hardfork).ChainIdHash()
	e.basePrice = new(big.Int).Set(system.DefaultParams["GASPRICE"])
	e.baseChain = dumpStore(e.factory.cdb.store)
	e.baseState = dumpStore(e.factory.sdb.VerifStore())
	if err := vWriteSnapshot(e.baseDir, e.baseChain, e.baseState); err != nil {
		return nil, err
	}
	return e, nil
}

func (e *vEngine) close() { os.RemoveAll(e.tmp) }

func (e *vEngine) acct(i int) *vAcct {
	for len(e.accts) <= i {
		seed := sha256.Sum256([]byte(fmt.Sprintf("verif-chaindb-account-%d", len(e.accts))))
		k, _ := btcec.PrivKeyFromBytes(seed[:])
		e.accts = append(e.accts, &vAcct{k, keycrypto.GenerateAddress(k.PubKey().ToECDSA())})
	}
	return e.accts[i]
}

func (e *vEngine) tx(from, to int, amt int64, nonce uint64) *types.Tx {
	k := vTxKey{from, to, amt, nonce}
	if t, ok := e.txCache[k]; ok {
		return t
	}
	t := e.mkTx(e.acct(from), e.acct(to).addr, big.NewInt(amt), nonce, types.TxType_TRANSFER, "")
	e.txCache[k] = t
	return t
}

func (e *vEngine) mkTx(from *vAcct, to []byte, amount *big.Int, nonce uint64, typ types.TxType, payload string) *types.Tx {
	t := &types.Tx{Body: &types.TxBody{Nonce: nonce, Account: from.addr, Recipient: to,
		Amount: amount.Bytes(), Type: typ, ChainIdHash: e.cidHash}}
	if payload != "" {
		t.Body.Payload = []byte(payload)
	}
	key.SignTx(t, from.k)
	return t
}

// namedAcct: an account derived from a label (voter of a gov block, probe payer), never used elsewhere.
func (e *vEngine) namedAcct(label string) *vAcct {
	if a, ok := e.named[label]; ok {
		return a
	}
	seed := sha256.Sum256([]byte("verif-chaindb-named-" + label))
	k, _ := btcec.PrivKeyFromBytes(seed[:])
	a := &vAcct{k, keycrypto.GenerateAddress(k.PubKey().ToECDSA())}
	e.named[label] = a
	return a
}

// govTxs: v1stake (StakingMinimum) + v1voteDAO GASPRICE = default price + gov Gaer, from the voter of the block.
func (e *vEngine) govTxs(name string, gov int) []*types.Tx {
	ck := fmt.Sprintf("%s/%d", name, gov)
	if t, ok := e.govCache[ck]; ok {
		return t
	}
	voter := e.namedAcct("voter-" + name)
	price := new(big.Int).Add(e.basePrice, types.NewAmount(uint64(gov), types.Gaer))
	if gov < 0 {
		price = new(big.Int).Sub(e.basePrice, types.NewAmount(uint64(-gov), types.Gaer))
	}
	txs := []*types.Tx{
		e.mkTx(voter, []byte(types.AergoSystem), types.StakingMinimum, 1, types.TxType_GOVERNANCE, `{"Name":"v1stake"}`),
		e.mkTx(voter, []byte(types.AergoSystem), new(big.Int), 2, types.TxType_GOVERNANCE,
			`{"Name":"v1voteDAO","Args":["GASPRICE","`+price.String()+`"]}`),
	}
	e.govCache[ck] = txs
	return txs
}

// badSigTx: a correctly formed transfer whose signature has one flipped byte (last byte of the
// DER encoding, i.e. of S) and whose Hash field is consistent with the corrupted body.
func (e *vEngine) badSigTx(from, to int, amt int64, nonce uint64) *types.Tx {
	k := vTxKey{from, to, amt, nonce}
	if t, ok := e.badSig[k]; ok {
		return t
	}
	good := e.tx(from, to, amt, nonce)
	t := good.Clone()
	t.Body.Sign = vFlip(good.Body.Sign)
	t.Hash = t.CalculateTxHash()
	e.badSig[k] = t
	return t
}

// newNode starts a real ChainService on dir (memorydb files written by vWriteSnapshot).
func (e *vEngine) newNode(dir string) (n *vNode, perr string) { return e.newNodeT(dir, "memorydb") }

func (e *vEngine) newNodeT(dir string, dbType string) (n *vNode, perr string) {
	// NewChainService loads the parameters of the new node into the package-level variable: put
	// the active node's away first (and back if the start fails)
	if e.active != nil {
		e.active.params = system.VerifSnapshotParams()
	}
	defer func() {
		if r := recover(); r != nil {
			n, perr = nil, fmt.Sprint(r)
			if perr == "" {
				perr = "panic"
			}
			if e.active != nil && e.active.params != nil {
				system.VerifRestoreParams(e.active.params)
			}
			types.InitGovernance("dpos", true)
		}
	}()
	c := *e.baseCfg
	c.DataDir = dir
	c.DbType = dbType
	dfltUseMempool = false
	cs := NewChainService(&c)
	types.InitGovernance("dpos", true)
	cc := &vConsensus{cdb: cs.cdb}
	cc.best, _ = cs.GetBestBlock()
	cs.SetChainConsensus(cc)
	rec := &vRecorder{}
	hub := component.NewComponentHub()
	for _, name := range []string{message.MemPoolSvc, message.RPCSvc, message.SyncerSvc, message.P2PSvc} {
		hub.Register(&vFakeComp{name: name, rec: rec})
	}
	cs.BaseComponent.SetHub(hub)
	n = &vNode{cs: cs, cc: cc, rec: rec}
	e.active = n
	return n, ""
}

// drainVerifier waits for the verification result a block that failed in tx execution left
// pending; used only by stop(), so that SignVerifier.Stop does not close its channels while the
// collector goroutine of that block is still sending.
func (n *vNode) drainVerifier() {
	v := n.cs.validator
	if v.isNeedWait {
		<-v.signVerifier.resultCh
		v.isNeedWait = false
	}
}

func (n *vNode) stop() {
	defer func() { recover() }()
	n.drainVerifier()
	n.cs.chainManager.Stop()
	n.cs.chainWorker.Stop()
	n.cs.validator.Stop()
}

// ---------------------------------------------------------------------------- block production

type vBlk struct {
	name     string
	idx      int
	spec     *vBlockSpec
	blk      *types.Block
	enc      []byte
	id       []byte // BlockHash() (forged when forge)
	digest   []byte // hash of the header
	pre      []byte // true post root of the parent
	trueRoot []byte // true post root (execution of the valid txs)
	execOK   bool
	cnt      map[int]uint64
	params   string // parameters stored in the true post-state
	valid    bool   // the block and all its ancestors are fully valid (it can become the best block)
	probe    *vBlk  // lazily built probe child
}

type vCtx struct {
	c      *vCase
	blks   map[string]*vBlk
	order  []string
	txs    [][]byte
	txSet  map[string]bool
	idName map[string]string
	maxNo  uint64
}

func vFlip(b []byte) []byte {
	c := append([]byte{}, b...)
	if len(c) == 0 {
		return bytes.Repeat([]byte{1}, 32)
	}
	c[len(c)-1] ^= 1
	return c
}

func vDigest(b *types.Block) []byte {
	c := &types.Block{Header: b.Header}
	return append([]byte{}, c.BlockHash()...)
}

func (e *vEngine) build(c *vCase) (*vCtx, error) {
	x := &vCtx{c: c, blks: map[string]*vBlk{}, txSet: map[string]bool{}, idName: map[string]string{}}
	g := e.genesis
	f := e.factory
	e.use(e.fnode)
	x.blks["G"] = &vBlk{name: "G", idx: -1, blk: g, id: g.BlockHash(), digest: vDigest(g),
		trueRoot: g.GetHeader().GetBlocksRootHash(), execOK: true, cnt: map[int]uint64{}, valid: true,
		params: vStateParams(f.sdb, g.GetHeader().GetBlocksRootHash())}
	x.idName[string(g.BlockHash())] = "G"
	for i := range c.Blocks {
		spec := &c.Blocks[i]
		if _, dup := x.blks[spec.Name]; dup || spec.Name == "" {
			return nil, fmt.Errorf("bad or duplicate block name %q", spec.Name)
		}
		par, ok := x.blks[spec.Parent]
		if !ok {
			return nil, fmt.Errorf("block %s: unknown parent %q", spec.Name, spec.Parent)
		}
		b := &vBlk{name: spec.Name, idx: i, spec: spec, pre: par.trueRoot, execOK: true, cnt: map[int]uint64{}}
		for k, v := range par.cnt {
			b.cnt[k] = v
		}
		ts := par.blk.GetHeader().GetTimestamp() + 1 + int64(i)
		// system parameters in force for a child of the parent (true post-state)
		pscs, err := vSysState(f.sdb, par.trueRoot)
		if err != nil {
			return nil, err
		}
		system.InitSystemParams(pscs, system.RESET)
		bi := types.NewBlockHeaderInfoFromPrevBlock(par.blk, ts, f.cfg.Hardfork)
		if spec.No != nil {
			bi.No = *spec.No
		}
		bs := f.sdb.NewBlockState(par.trueRoot, state.SetPrevBlockHash(par.blk.BlockHash()))
		bs.SetGasPrice(system.GetGasPrice())
		bs.Receipts().SetHardFork(f.cfg.Hardfork, bi.No)
		exec := NewTxExecutor(context.Background(), nil, f.cdb, bi, contract.BlockFactory)
		var txs []*types.Tx
		for _, t := range spec.Txs {
			if t.From < 0 || t.To < 0 || t.From >= 256 || t.To >= 256 {
				return nil, fmt.Errorf("block %s: bad account index", spec.Name)
			}
			nonce := b.cnt[t.From] + 1
			if t.Nonce != nil {
				nonce = *t.Nonce
			}
			tx := e.tx(t.From, t.To, t.Amt, nonce)
			txs = append(txs, tx)
			if err := exec(bs, types.NewTransaction(tx)); err != nil {
				b.execOK = false
			} else {
				b.cnt[t.From]++
			}
		}
		if spec.Gov != 0 {
			for _, tx := range e.govTxs(spec.Name, spec.Gov) {
				txs = append(txs, tx)
				if err := exec(bs, types.NewTransaction(tx)); err != nil {
					b.execOK = false
				}
			}
		}
		if err := bs.Update(); err != nil {
			return nil, err
		}
		if err := bs.Commit(); err != nil {
			return nil, err
		}
		system.CommitParams(false)
		b.trueRoot = append([]byte{}, bs.GetRoot()...)
		b.params = vStateParams(f.sdb, b.trueRoot)
		blk := types.NewBlock(bi, b.trueRoot, bs.Receipts(), txs, nil, nil)
		switch spec.Bad {
		case "":
		case "root":
			r := append([]byte{}, par.blk.GetHeader().GetBlocksRootHash()...)
			if bytes.Equal(r, b.trueRoot) { // block without effect on the state: make it wrong anyway
				r = vFlip(r)
			}
			blk.Header.BlocksRootHash = r
		case "exec":
			to := 1
			if c.Naccts < 2 {
				to = 0
			}
			blk.Body.Txs = append(blk.Body.Txs, e.tx(0, to, 1, b.cnt[0]+1+5))
			blk.Header.TxsRootHash = types.CalculateTxsRootHash(blk.Body.Txs)
			b.execOK = false
		case "txroot":
			blk.Header.TxsRootHash = vFlip(blk.Header.TxsRootHash)
			b.execOK = false
		case "sig":
			// one extra transfer with the correct next nonce whose signature is corrupted after
			// signing; tx.Hash covers Body.Sign (Tx.CalculateTxHash) and is recomputed, so the
			// tx-root check and executeTx's hash check pass and only the signature is wrong.
			to := 1
			if c.Naccts < 2 {
				to = 0
			}
			blk.Body.Txs = append(blk.Body.Txs, e.badSigTx(0, to, 1, b.cnt[0]+1))
			blk.Header.TxsRootHash = types.CalculateTxsRootHash(blk.Body.Txs)
			b.execOK = false
		default:
			return nil, fmt.Errorf("block %s: unknown bad kind %q", spec.Name, spec.Bad)
		}
		blk.Hash = nil
		b.digest = append([]byte{}, blk.BlockHash()...)
		if spec.Forge {
			blk.Hash = bytes.Repeat([]byte{0xAB ^ byte(i)}, 32)
		}
		b.id = append([]byte{}, blk.BlockHash()...)
		b.blk = blk
		b.valid = par.valid && spec.Bad == "" && b.execOK && !spec.Forge && spec.No == nil
		enc, err := proto.Encode(blk)
		if err != nil {
			return nil, err
		}
		b.enc = enc
		x.blks[spec.Name] = b
		x.order = append(x.order, spec.Name)
		if _, ok := x.idName[string(b.id)]; !ok {
			x.idName[string(b.id)] = spec.Name
		}
		if blk.BlockNo() > x.maxNo {
			x.maxNo = blk.BlockNo()
		}
		for _, tx := range blk.GetBody().GetTxs() {
			if !x.txSet[string(tx.GetHash())] {
				x.txSet[string(tx.GetHash())] = true
				x.txs = append(x.txs, tx.GetHash())
			}
		}
	}
	for _, a := range c.Arrivals {
		if b, ok := x.blks[a]; !ok || b.idx < 0 {
			return nil, fmt.Errorf("unknown arrival %q", a)
		}
	}
	for _, p := range c.Pre {
		if p != "" && p != "ok" && p != "ts" && p != "sign" {
			return nil, fmt.Errorf("unknown pre kind %q", p)
		}
	}
	if c.Winner != "" {
		if _, ok := x.blks[c.Winner]; !ok {
			return nil, fmt.Errorf("unknown winner %q", c.Winner)
		}
	}
	if c.Probe != "" && c.Probe != "all" && c.Probe != "none" {
		return nil, fmt.Errorf("unknown probe option %q", c.Probe)
	}
	return x, nil
}

// probeChild builds (once) the probe child of a fully valid block: one fee-paying transfer from the
// probe account (nonce 1, the account is used by probe blocks only), produced by the factory on the
// true post-state of the parent with the parameters in force there.
func (e *vEngine) probeChild(par *vBlk) (*vBlk, error) {
	if par.probe != nil {
		return par.probe, nil
	}
	prev := e.active
	e.use(e.fnode)
	defer e.use(prev)
	f := e.factory
	pscs, err := vSysState(f.sdb, par.trueRoot)
	if err != nil {
		return nil, err
	}
	system.InitSystemParams(pscs, system.RESET)
	defer system.CommitParams(false)
	bi := types.NewBlockHeaderInfoFromPrevBlock(par.blk, par.blk.GetHeader().GetTimestamp()+1000000, f.cfg.Hardfork)
	bs := f.sdb.NewBlockState(par.trueRoot, state.SetPrevBlockHash(par.blk.BlockHash()))
	bs.SetGasPrice(system.GetGasPrice())
	bs.Receipts().SetHardFork(f.cfg.Hardfork, bi.No)
	exec := NewTxExecutor(context.Background(), nil, f.cdb, bi, contract.BlockFactory)
	tx := e.mkTxCached("probe")
	if err := exec(bs, types.NewTransaction(tx)); err != nil {
		return nil, err
	}
	if err := bs.Update(); err != nil {
		return nil, err
	}
	if err := bs.Commit(); err != nil {
		return nil, err
	}
	blk := types.NewBlock(bi, bs.GetRoot(), bs.Receipts(), []*types.Tx{tx}, nil, nil)
	p := &vBlk{name: "probe(" + par.name + ")", idx: -2, blk: blk, id: append([]byte{}, blk.BlockHash()...)}
	if p.enc, err = proto.Encode(blk); err != nil {
		return nil, err
	}
	par.probe = p
	return p, nil
}

func (e *vEngine) mkTxCached(label string) *types.Tx {
	if t, ok := e.govCache["#"+label]; ok {
		return t[0]
	}
	t := e.mkTx(e.namedAcct(label), e.acct(0).addr, big.NewInt(1), 1, types.TxType_TRANSFER, "")
	e.govCache["#"+label] = []*types.Tx{t}
	return t
}

// probe delivers the probe child of the current best block to the node ("the next valid block of the
// best block, produced by the independent factory, is accepted").  It changes the node: callers use
// it last, or on an instance of their own.
func (e *vEngine) probe(n *vNode, x *vCtx) (res map[string]interface{}, p12 string) {
	e.use(n)
	res = map[string]interface{}{"parent": "", "res": "skip", "err": "", "best": false}
	best, _ := n.cs.GetBestBlock()
	if best == nil {
		return
	}
	name := x.idName[string(best.BlockHash())]
	res["parent"] = name
	par := x.blks[name]
	if par == nil || !par.valid {
		return
	}
	pb, err := e.probeChild(par)
	if err != nil {
		res["res"], res["err"] = "skip", "engine: cannot build probe: "+err.Error()
		return
	}
	n.cc.lib = 0
	n.cc.failTs, n.cc.failSign = false, false
	aerr := vSafeAdd(n, pb.clone())
	nb, _ := n.cs.GetBestBlock()
	isBest := nb != nil && bytes.Equal(nb.BlockHash(), pb.id)
	res["best"] = isBest
	switch {
	case aerr != nil:
		es := aerr.Error()
		if len(es) > 120 {
			es = es[:120]
		}
		res["res"], res["err"] = "err", es
	case !isBest:
		res["res"], res["err"] = "err", "accepted but not connected as the best block"
	default:
		res["res"] = "ok"
	}
	if res["res"] == "err" {
		p12 = "P12 next valid child of the best block rejected: " + res["err"].(string)
	}
	return
}

func (b *vBlk) clone() *types.Block {
	blk := &types.Block{}
	if err := proto.Decode(b.enc, blk); err != nil {
		panic(err)
	}
	return blk
}

func (x *vCtx) blocksJSON() map[string]interface{} {
	out := map[string]interface{}{}
	for _, name := range x.order {
		b := x.blks[name]
		txs := []string{}
		for _, tx := range b.blk.GetBody().GetTxs() {
			txs = append(txs, hx(tx.GetHash()))
		}
		post := ""
		if b.execOK {
			post = hx(b.trueRoot)
		}
		out[name] = map[string]interface{}{
			"id": hx(b.id), "digest": hx(b.digest), "prev": hx(b.blk.GetHeader().GetPrevBlockHash()),
			"no": b.blk.BlockNo(), "root": hx(b.blk.GetHeader().GetBlocksRootHash()), "txs": txs,
			"apply_pre": hx(b.pre), "apply_post": post, "params": b.params,
		}
	}
	return out
}

// ---------------------------------------------------------------------------- observation

func vSafeAdd(n *vNode, blk *types.Block) (err error) {
	defer func() {
		if r := recover(); r != nil {
			err = fmt.Errorf("PANIC: %v", r)
		}
	}()
	return n.cs.addBlock(blk, nil, testPeer)
}

// vGetTx wraps node.getTx: status main|side|absent|panic, block hash, idx.
func vGetTx(n *vNode, h []byte) (st string, blk []byte, idx int32) {
	defer func() {
		if r := recover(); r != nil {
			st, blk, idx = "panic", nil, 0
		}
	}()
	_, ti, err := n.cs.getTx(h)
	if err == nil {
		if ti == nil {
			return "main", nil, 0
		}
		return "main", ti.BlockHash, ti.Idx
	}
	if err.Error() == "tx is not in the main chain" {
		if _, ti2, err2 := n.cs.cdb.getTx(h); err2 == nil {
			return "side", ti2.BlockHash, ti2.Idx
		}
		return "side", nil, 0
	}
	return "absent", nil, 0
}

// vGetReceipts wraps node.getReceipts: ok|nomain|none|panic and the number of receipts.
func vGetReceipts(n *vNode, h []byte) (st string, cnt int) {
	defer func() {
		if r := recover(); r != nil {
			st, cnt = "panic", 0
		}
	}()
	rs, err := n.cs.getReceipts(h)
	if err == nil {
		return "ok", len(rs.Get())
	}
	if err.Error() == "cannot find a receipt" {
		return "nomain", 0
	}
	return "none", 0
}

func vClassChain(k string, x *vCtx) string {
	switch {
	case k == string(dbkey.LatestBlock()):
		return "latest"
	case k == string(dbkey.ReOrg()):
		return "marker"
	case k == string(dbkey.HardFork()): // "hardfork" is 8 bytes long, exactly like a height key
		return "other"
	case len(k) == 8:
		return "height"
	case len(k) == 32 && x != nil && x.idName[k] != "":
		return "blk"
	case len(k) == 32 && x != nil && x.txSet[k]:
		return "tx"
	case len(k) == 41 && k[0] == 'r':
		return "rcpt"
	}
	return "other"
}

func vClassState(k string, v []byte) string {
	switch {
	case len(k) == 33 && k[0] == 's':
		return "trie"
	case len(k) == 32 && bytes.Equal(v, []byte{0x54, 0x45}):
		return "statemarker"
	}
	return "other"
}

type vMain struct {
	blocks []*types.Block // best first, genesis last (as far as the walk got)
	ok     bool           // the walk reached genesis
}

// predicates evaluates P1..P6 on the node (direct predicate, independent of any model).
func (e *vEngine) predicates(n *vNode, x *vCtx) (pred []string, mp vMain) {
	e.use(n)
	cs := n.cs
	cdb := cs.cdb
	fail := func(f string, a ...interface{}) { pred = append(pred, fmt.Sprintf(f, a...)) }
	best, _ := cs.GetBestBlock()
	if best == nil {
		fail("P1 best is nil")
		return
	}
	bno := best.BlockNo()
	// P1
	if raw := cdb.store.Get(dbkey.LatestBlock()); len(raw) != 8 {
		fail("P1 latest key absent or malformed")
	} else if l := types.BlockNoFromBytes(raw); l != bno {
		fail("P1 latest raw %d != best.no %d", l, bno)
	}
	if m := cdb.getBestBlockNo(); m != bno {
		fail("P1 in-memory latest %d != best.no %d", m, bno)
	}
	if h, err := cdb.getHashByNo(bno); err != nil || !bytes.Equal(h, best.BlockHash()) {
		fail("P1 getHashByNo(best.no=%d) != best hash", bno)
	}
	// P2
	cur := best
	for steps := 0; ; steps++ {
		if steps > 10000 {
			fail("P2 walk does not terminate")
			break
		}
		h := cur.BlockHash()
		st, err := cdb.getBlock(h)
		if err != nil {
			fail("P2 block %s (no %d) not stored under its hash", hx(h)[:8], cur.BlockNo())
			break
		}
		if d := vDigest(st); !bytes.Equal(d, h) {
			fail("P2 block no %d stored under id %s != digest %s of its header", st.BlockNo(), hx(h)[:8], hx(d)[:8])
		}
		mp.blocks = append(mp.blocks, st)
		if hh, err := cdb.getHashByNo(st.BlockNo()); err != nil || !bytes.Equal(hh, h) {
			fail("P2 getHashByNo(%d) != hash of the main path block", st.BlockNo())
		}
		if bytes.Equal(h, e.genesis.BlockHash()) {
			if st.BlockNo() != 0 {
				fail("P2 genesis reached with no %d", st.BlockNo())
			}
			mp.ok = true
			break
		}
		if st.BlockNo() == 0 {
			fail("P2 walk reached no 0 at %s which is not genesis", hx(h)[:8])
			break
		}
		prev, err := cdb.getBlock(st.GetHeader().GetPrevBlockHash())
		if err != nil {
			fail("P2 prev of block no %d not stored", st.BlockNo())
			break
		}
		if prev.BlockNo()+1 != st.BlockNo() {
			fail("P2 block no %d has prev with no %d", st.BlockNo(), prev.BlockNo())
		}
		cur = prev
	}
	// P3
	top := x.maxNo + 2
	if top > bno+vHeightCap {
		top = bno + vHeightCap
	}
	for no := bno + 1; no <= top; no++ {
		if h, err := cdb.getHashByNo(no); err == nil {
			fail("P3 height %d above best.no %d mapped to %s", no, bno, hx(h)[:8])
		}
	}
	// P4
	onMain := map[string]bool{}
	for _, b := range mp.blocks {
		for i, tx := range b.GetBody().GetTxs() {
			onMain[string(tx.GetHash())] = true
			st, bh, idx := vGetTx(n, tx.GetHash())
			if st != "main" {
				fail("P4 tx %s of main block no %d: getTx %s", hx(tx.GetHash())[:8], b.BlockNo(), st)
			} else if !bytes.Equal(bh, b.BlockHash()) || int(idx) != i {
				fail("P4 tx %s of main block no %d idx %d: TxIdx (%s,%d)", hx(tx.GetHash())[:8], b.BlockNo(), i, hx(bh)[:8], idx)
			}
		}
	}
	for _, th := range x.txs {
		if onMain[string(th)] {
			continue
		}
		if st, _, _ := vGetTx(n, th); st == "main" || st == "panic" {
			fail("P4 tx %s not on the main path: getTx %s", hx(th)[:8], st)
		}
	}
	// P5
	for _, b := range mp.blocks {
		nt := len(b.GetBody().GetTxs())
		if nt == 0 {
			continue
		}
		if !cdb.checkExistReceipts(b.BlockHash(), b.BlockNo()) {
			fail("P5 receipts of main block no %d absent", b.BlockNo())
		}
		if st, cnt := vGetReceipts(n, b.BlockHash()); st != "ok" {
			fail("P5 getReceipts of main block no %d: %s", b.BlockNo(), st)
		} else if cnt != nt {
			fail("P5 main block no %d has %d receipts for %d txs", b.BlockNo(), cnt, nt)
		}
	}
	// P6 (the test genesis has an empty state root for which no marker is ever written:
	// HasMarker(nil) is false by construction, so an empty best root is exempt from the marker clause)
	broot := best.GetHeader().GetBlocksRootHash()
	if !bytes.Equal(cs.sdb.GetRoot(), broot) {
		fail("P6 sdb root %s != best header root %s", hx(cs.sdb.GetRoot()), hx(broot))
	}
	if len(broot) != 0 && !cs.sdb.GetStateDB().HasMarker(broot) {
		fail("P6 no state marker for best root %s", hx(broot))
	}
	// P11
	if mem, st := system.VerifParamsInMemory(), vStateParams(cs.sdb, broot); mem != st {
		fail("P11 in-memory system parameters differ from the state of the best block: mem=%s state=%s", mem, st)
	}
	return
}

func (e *vEngine) rawScan(n *vNode, x *vCtx) (scan map[string]int, pred []string) {
	scan = map[string]int{"height": 0, "block": 0, "tx": 0, "rcpt": 0, "other": 0}
	var bno uint64
	if best, _ := n.cs.GetBestBlock(); best != nil {
		bno = best.BlockNo()
	}
	for it := n.cs.cdb.store.Iterator(nil, nil); it.Valid(); it.Next() {
		k := string(it.Key())
		switch vClassChain(k, x) {
		case "height":
			scan["height"]++
			if no := types.BlockNoFromBytes([]byte(k)); no > bno {
				pred = append(pred, fmt.Sprintf("P3 raw height key %d above best.no %d", no, bno))
			}
		case "blk":
			scan["block"]++
		case "tx":
			scan["tx"]++
		case "rcpt":
			scan["rcpt"]++
		default:
			scan["other"]++
		}
	}
	return
}

func (e *vEngine) observe(n *vNode, x *vCtx) map[string]interface{} {
	e.use(n)
	cs := n.cs
	cdb := cs.cdb
	s := map[string]interface{}{}
	best, _ := cs.GetBestBlock()
	if best != nil {
		s["best"] = hx(best.BlockHash())
		s["bestno"] = best.BlockNo()
	} else {
		s["best"] = ""
		s["bestno"] = -1
	}
	if raw := cdb.store.Get(dbkey.LatestBlock()); len(raw) == 8 {
		s["latest"] = types.BlockNoFromBytes(raw)
	} else {
		s["latest"] = -1
	}
	s["sdbroot"] = hx(cs.sdb.GetRoot())
	top := x.maxNo + 2
	if top > vHeightCap {
		top = vHeightCap
	}
	heights := []string{}
	for no := uint64(0); no <= top; no++ {
		h, err := cdb.getHashByNo(no)
		if err != nil {
			heights = append(heights, "")
		} else {
			heights = append(heights, hx(h))
		}
	}
	s["heights"] = heights
	txm := map[string]interface{}{}
	rawtx := map[string]interface{}{}
	for _, th := range x.txs {
		st, bh, idx := vGetTx(n, th)
		txm[hx(th)] = []interface{}{st, hx(bh), idx}
		ti := &types.TxIdx{}
		if err := cdb.loadData(th, ti); err != nil {
			rawtx[hx(th)] = nil
		} else {
			rawtx[hx(th)] = []interface{}{hx(ti.BlockHash), ti.Idx}
		}
	}
	s["tx"] = txm
	s["rawtx"] = rawtx
	rcpt := map[string]interface{}{}
	stored := map[string]bool{}
	bad := map[string]bool{}
	for _, name := range x.order {
		b := x.blks[name]
		q, _ := vGetReceipts(n, b.id)
		rcpt[name] = []interface{}{cdb.checkExistReceipts(b.id, b.blk.BlockNo()), q}
		_, err := cdb.getBlock(b.id)
		stored[name] = err == nil
		bad[name] = cs.errBlocks.Contains(types.ToHashID(b.id))
	}
	s["rcpt"] = rcpt
	s["stored"] = stored
	s["bad"] = bad
	orphans := []string{}
	for _, ob := range cs.op.cache {
		name := x.idName[string(ob.Block.BlockHash())]
		if name == "" {
			name = "?" + hx(ob.Block.BlockHash())[:8]
		}
		orphans = append(orphans, name)
	}
	sort.Strings(orphans)
	s["orphans"] = orphans
	s["marker"] = len(cdb.store.Get(dbkey.ReOrg())) != 0
	// ancestor search of the syncer: first listed hash that is stored and on the main chain
	var hashes [][]byte
	for i := len(x.order) - 1; i >= 0; i-- {
		hashes = append(hashes, x.blks[x.order[i]].id)
	}
	hashes = append(hashes, e.genesis.BlockHash())
	s["anc"] = ""
	if bi, err := cs.findAncestor(hashes); err == nil && bi != nil {
		s["anc"] = hx(bi.Hash)
	}
	pred, _ := e.predicates(n, x)
	scan, p3 := e.rawScan(n, x)
	pred = append(pred, p3...)
	if pred == nil {
		pred = []string{}
	}
	s["scan"] = scan
	s["pred"] = pred
	s["params"] = system.VerifParamsInMemory()
	return s
}

// ownBState builds, on the node under test and on its CURRENT state root, the BlockState a block
// factory would hand to addBlock together with the block: the txs are executed with the real
// executor exactly as in build() (gas price in force on the node, BlockFactory mode), bs.Update() but no Commit.  A
// tx that fails is skipped (the executor rolls its snapshot back) and the bstate is built from the
// txs that did execute.
func (e *vEngine) ownBState(n *vNode, blk *types.Block) (bs *state.BlockState, err error) {
	defer func() {
		if r := recover(); r != nil {
			bs, err = nil, fmt.Errorf("own: cannot build bstate: panic: %v", r)
		}
	}()
	cs := n.cs
	bi := types.NewBlockHeaderInfo(blk)
	bs = cs.sdb.NewBlockState(cs.sdb.GetRoot(), state.SetPrevBlockHash(blk.GetHeader().GetPrevBlockHash()))
	bs.SetGasPrice(system.GetGasPrice())
	bs.Receipts().SetHardFork(cs.cfg.Hardfork, bi.No)
	exec := NewTxExecutor(context.Background(), nil, cs.cdb, bi, contract.BlockFactory)
	for _, tx := range blk.GetBody().GetTxs() {
		_ = exec(bs, types.NewTransaction(tx))
	}
	if err := bs.Update(); err != nil {
		return nil, fmt.Errorf("own: cannot build bstate: %v", err)
	}
	return bs, nil
}

func vSafeAddOwn(n *vNode, blk *types.Block, bs *state.BlockState) (err error) {
	defer func() {
		if r := recover(); r != nil {
			err = fmt.Errorf("PANIC: %v", r)
		}
	}()
	return n.cs.addBlock(blk, bs, testPeer)
}

// arrive delivers one block to the node as scripted by the case (lib, pre, own) and returns the STEP.
func (e *vEngine) arrive(n *vNode, x *vCtx, i int) map[string]interface{} { return e.arriveOpt(n, x, i, false) }

// arriveOpt: plain = deliver as a network block with passing consensus pre-checks whatever the
// case scripts (second delivery of the crash-free node in crash mode).
func (e *vEngine) arriveOpt(n *vNode, x *vCtx, i int, plain bool) map[string]interface{} {
	name := x.c.Arrivals[i]
	b := x.blks[name]
	n.cc.lib = 0
	if i < len(x.c.Lib) {
		n.cc.lib = x.c.Lib[i]
	}
	e.use(n)
	pre, own, wal := "ok", false, false
	if !plain {
		if i < len(x.c.Pre) && x.c.Pre[i] != "" {
			pre = x.c.Pre[i]
		}
		own = i < len(x.c.Own) && x.c.Own[i]
		wal = x.c.HasWal && i < len(x.c.Wal) && x.c.Wal[i]
	}
	n.rec.reset()
	if wal { // the raft WAL writes the block body before the block is connected (ChainDB.WriteRaftEntry)
		dbTx := n.cs.cdb.store.NewTx()
		if werr := n.cs.cdb.addBlock(dbTx, b.clone()); werr == nil {
			dbTx.Commit()
		} else {
			dbTx.Discard()
		}
	}
	conn := n.cc.IsConnectedBlock(b.clone())
	_, perr := n.cs.cdb.getBlock(b.blk.GetHeader().GetPrevBlockHash())
	parentStored := perr == nil
	n.cc.failTs, n.cc.failSign = pre == "ts", pre == "sign"
	var err error
	if own {
		var bs *state.BlockState
		if bs, err = e.ownBState(n, b.clone()); err == nil {
			err = vSafeAddOwn(n, b.clone(), bs)
		}
	} else {
		err = vSafeAdd(n, b.clone())
	}
	n.cc.failTs, n.cc.failSign = false, false
	s := e.observe(n, x)
	s["arrive"] = name
	res, es := "ok", ""
	switch {
	case err == ErrBlockCachedErrLRU:
		res = "cached"
	case err != nil:
		res = "err"
	case conn:
		res = "known"
	case !parentStored:
		res = "orphan"
	}
	if err != nil {
		es = err.Error()
		if len(es) > 80 {
			es = es[:80]
		}
	}
	s["res"] = res
	s["err"] = es
	s["pre"] = pre
	s["own"] = own
	s["wal"] = wal
	put := append([]string{}, n.rec.put...)
	sort.Strings(put)
	s["put"] = put
	s["del"] = append([]string{}, n.rec.del...)
	s["sync"] = n.rec.sync
	return s
}

// chainDump: sha256 over the sorted (key,value) pairs of the chain store, without the block
// bodies and receipts of blocks that are not on the main path (so that a node that saw side
// branches and a node that only saw the winning path are comparable).
func (e *vEngine) chainDump(n *vNode, x *vCtx) string {
	_, mp := e.predicates(n, x)
	main := map[string]bool{}
	for _, b := range mp.blocks {
		main[string(b.BlockHash())] = true
	}
	h := sha256.New()
	for it := n.cs.cdb.store.Iterator(nil, nil); it.Valid(); it.Next() {
		k := string(it.Key())
		switch vClassChain(k, x) {
		case "blk":
			if !main[k] {
				continue
			}
		case "rcpt":
			if !main[k[1:33]] {
				continue
			}
		}
		v := it.Value()
		fmt.Fprintf(h, "%d:%d:", len(k), len(v))
		h.Write([]byte(k))
		h.Write(v)
	}
	return hx(h.Sum(nil))
}

func (e *vEngine) accounts(n *vNode, x *vCtx) []interface{} {
	out := []interface{}{}
	sdb := n.cs.sdb.OpenNewStateDB(n.cs.sdb.GetRoot())
	for i := 0; i < x.c.Naccts; i++ {
		st, err := sdb.GetAccountState(types.ToAccountID(e.acct(i).addr))
		if err != nil || st == nil {
			out = append(out, map[string]interface{}{"balance": "?", "nonce": -1})
			continue
		}
		out = append(out, map[string]interface{}{"balance": new(big.Int).SetBytes(st.GetBalance()).String(), "nonce": st.GetNonce()})
	}
	return out
}

func (e *vEngine) final(n *vNode, x *vCtx) map[string]interface{} {
	e.use(n)
	f := map[string]interface{}{"best": "", "sdbroot": hx(n.cs.sdb.GetRoot())}
	if best, _ := n.cs.GetBestBlock(); best != nil {
		f["best"] = hx(best.BlockHash())
	}
	f["dump"] = e.chainDump(n, x)
	f["accounts"] = e.accounts(n, x)
	return f
}

func (e *vEngine) prepNode(n *vNode, x *vCtx) error {
	g, err := n.cs.getBlockByNo(0)
	if err != nil {
		return err
	}
	if !bytes.Equal(g.BlockHash(), e.genesis.BlockHash()) {
		return fmt.Errorf("GENESIS MISMATCH node %s factory %s", hx(g.BlockHash()), hx(e.genesis.BlockHash()))
	}
	e.configure(n, x)
	return nil
}

// configure applies the per-case node configuration (orphan pool size, consensus with a WAL).
func (e *vEngine) configure(n *vNode, x *vCtx) {
	if x.c.OrphanCap >= 1 && x.c.OrphanCap <= 100 {
		n.cs.op = NewOrphanPool(x.c.OrphanCap)
	}
	n.cc.hasWAL = x.c.HasWal
}

// doProbe runs the probe on n (which must not be used afterwards) and files the result.
func (e *vEngine) doProbe(n *vNode, x *vCtx, rec map[string]interface{}, pred *[]string) {
	if x.c.Probe == "none" {
		return
	}
	res, p12 := e.probe(n, x)
	rec["probe"] = res
	if p12 != "" && pred != nil {
		*pred = append(*pred, p12)
	}
}

func (e *vEngine) runCase(c *vCase) (out map[string]interface{}) {
	out = map[string]interface{}{"id": c.ID}
	defer func() {
		if r := recover(); r != nil {
			out["error"] = fmt.Sprintf("engine panic: %v", r)
		}
	}()
	x, err := e.build(c)
	if err != nil {
		out["error"] = err.Error()
		return
	}
	out["genesis"] = map[string]interface{}{"id": hx(e.genesis.BlockHash()), "root": hx(e.genesis.GetHeader().GetBlocksRootHash()),
		"params": x.blks["G"].params}
	out["blocks"] = x.blocksJSON()
	if c.Mode == "crash" {
		e.runCrash(x, out)
		return
	}
	n, perr := e.newNode(e.baseDir)
	if n == nil {
		out["error"] = "node init panic: " + perr
		return
	}
	defer n.stop()
	if err := e.prepNode(n, x); err != nil {
		out["error"] = err.Error()
		return
	}
	steps := []interface{}{}
	var last map[string]interface{}
	for i := range c.Arrivals {
		last = e.arrive(n, x, i)
		steps = append(steps, last)
	}
	out["steps"] = steps
	out["final"] = e.final(n, x)
	if c.Winner != "" {
		e.winner(n, x, out, last)
	}
	// probe: last, it changes the node
	var p12 []string
	e.doProbe(n, x, out, &p12)
	if last != nil && len(p12) > 0 {
		last["pred"] = append(last["pred"].([]string), p12...)
	}
	return
}

// winner: P7 — compare with a reference node fed only the path G..winner.
func (e *vEngine) winner(n *vNode, x *vCtx, out map[string]interface{}, last map[string]interface{}) {
	var p7 []string
	w := x.blks[x.c.Winner]
	fin := out["final"].(map[string]interface{})
	if fin["best"] != hx(w.id) {
		p7 = append(p7, fmt.Sprintf("P7 best %v != winner %s", fin["best"], hx(w.id)))
	}
	if fin["sdbroot"] != hx(w.trueRoot) {
		p7 = append(p7, fmt.Sprintf("P7 sdbroot %v != winner true post root %s", fin["sdbroot"], hx(w.trueRoot)))
	}
	var path []*vBlk
	for b := w; b.idx >= 0; b = x.blks[b.spec.Parent] {
		path = append([]*vBlk{b}, path...)
	}
	r, perr := e.newNode(e.baseDir)
	if r == nil {
		out["ref"] = map[string]interface{}{"error": perr}
		p7 = append(p7, "P7 reference node init panic")
	} else {
		defer r.stop()
		e.configure(r, x)
		ref := map[string]interface{}{}
		errs := []string{}
		for _, b := range path {
			if err := vSafeAdd(r, b.clone()); err != nil {
				errs = append(errs, b.name+": "+err.Error())
			}
		}
		for k, v := range e.final(r, x) {
			ref[k] = v
		}
		ref["errs"] = errs
		out["ref"] = ref
		for _, k := range []string{"best", "sdbroot", "dump"} {
			if ref[k] != fin[k] {
				p7 = append(p7, fmt.Sprintf("P7 %s differs from reference: %v vs %v", k, fin[k], ref[k]))
			}
		}
		ja, _ := json.Marshal(fin["accounts"])
		jb, _ := json.Marshal(ref["accounts"])
		if !bytes.Equal(ja, jb) {
			p7 = append(p7, fmt.Sprintf("P7 accounts differ from reference: %s vs %s", ja, jb))
		}
	}
	if p7 == nil {
		p7 = []string{}
	}
	out["p7"] = p7 // also appended to the pred list of the last STEP
	if last != nil && len(p7) > 0 {
		last["pred"] = append(last["pred"].([]string), p7...)
	}
}

// ---------------------------------------------------------------------------- test entry

// vHookLogger turns logger.Fatal() of package chain (os.Exit(1), e.g. Core.init "failed to
// initialize chaindb") into a panic carrying the message, so that a node that cannot start is
// reported as init_panic instead of killing the engine.  zerolog runs hooks before it arms the
// os.Exit, but only for enabled events, hence the global level Fatal instead of Disabled; the
// output of the chain logger goes to io.Discard (Panic-level events still panic with their message).
func vHookLogger() {
	out := io.Writer(io.Discard)
	if os.Getenv("VERIF_CHAINDB_LOG") != "" {
		out = os.Stderr
	}
	l := logger.Logger.Output(out).Hook(zerolog.HookFunc(func(ev *zerolog.Event, level zerolog.Level, msg string) {
		if level == zerolog.FatalLevel {
			panic("FATAL(os.Exit 1): " + msg)
		}
	}))
	*logger.Logger = l
}

func TestVerifChainDBEngine(t *testing.T) {
	in, err := os.Open(os.Getenv("VERIF_IN"))
	if err != nil {
		t.Skip("no VERIF_IN")
	}
	defer in.Close()
	outPath := os.Getenv("VERIF_OUT")
	outf, err := os.Create(outPath)
	if err != nil {
		t.Fatal(err)
	}
	defer outf.Close()
	w := bufio.NewWriterSize(outf, 1<<20)
	defer w.Flush()
	if os.Getenv("VERIF_CHAINDB_LOG") == "" {
		zerolog.SetGlobalLevel(zerolog.FatalLevel)
	}
	vHookLogger()
	e, err := newVEngine()
	if err != nil {
		t.Fatal(err)
	}
	defer e.close()
	e.progress = outPath + ".progress"

	sc := bufio.NewScanner(in)
	sc.Buffer(make([]byte, 1<<20), 1<<26)
	t0 := time.Now()
	cnt := 0
	for sc.Scan() {
		line := bytes.TrimSpace(sc.Bytes())
		if len(line) == 0 {
			continue
		}
		var c vCase
		var out map[string]interface{}
		if err := json.Unmarshal(line, &c); err != nil {
			out = map[string]interface{}{"id": "", "error": "bad json: " + err.Error()}
		} else {
			out = e.runCase(&c)
		}
		b, err := json.Marshal(out)
		if err != nil {
			b, _ = json.Marshal(map[string]interface{}{"id": c.ID, "error": "marshal: " + err.Error()})
		}
		w.Write(b)
		w.WriteByte('\n')
		cnt++
		if c.Mode == "crash" || cnt%64 == 0 {
			w.Flush()
		}
	}
	w.Flush()
	dt := time.Since(t0)
	fmt.Fprintf(os.Stderr, "chaindb engine: %d cases in %v (%.1f cases/s)\n", cnt, dt, float64(cnt)/dt.Seconds())
}
